(* Proofs/LexerSpans.v — facts about the full token stream of Model/Lexer.v that C06 and C12
   reuse: the span bookkeeping of `advance!` is the line/column function of the source, and the
   tokens account for a prefix of the source (so every range lies inside it). *)
From Coq Require Import Arith Wf_nat.
From TeraV Require Import Model.Value Model.Utf8Lex Model.Lexer Spec.Doc Proofs.Utf8Proofs Proofs.LexerProofs.
Local Open Scope nat_scope.

(* ---------------------------------------------------------------- line / column of an offset *)

Definition is_nl (b : byte) : bool := (b =? 10)%N.

Fixpoint count_nl (s : bytes) : nat :=
  match s with [] => 0 | b :: t => (if is_nl b then 1 else 0) + count_nl t end.

(* characters = bytes that are not continuation bytes *)
Definition nchars (s : bytes) : nat := length (filter (fun b => negb (is_cont b)) s).

(* the bytes after the last newline *)
Fixpoint last_line (s : bytes) : bytes :=
  match s with
  | [] => []
  | b :: t => if 0 <? count_nl t then last_line t else if is_nl b then t else s
  end.

(* 1-based line, 0-based column in characters, byte offset *)
Definition linecol (src : bytes) (off : nat) : loc :=
  let p := firstn off src in (1 + count_nl p, nchars (last_line p), length p).

Lemma cont_not_nl : forall b, is_cont b = true -> is_nl b = false.
Proof.
  intros b H. unfold is_cont in H. unfold is_nl. apply andb_true_iff in H as [H _].
  apply N.leb_le in H. apply N.eqb_neq. lia.
Qed.

Lemma last_line_no_nl : forall s, count_nl s = 0 -> last_line s = s.
Proof.
  induction s as [|b t IH]; intro H; [reflexivity|]. cbn [count_nl] in H. cbn [last_line].
  destruct (is_nl b); [discriminate|]. cbn in H. rewrite H. reflexivity.
Qed.

Lemma nchars_cons : forall b t, nchars (b :: t) = (if is_cont b then 0 else 1) + nchars t.
Proof. intros b t. unfold nchars. cbn [filter]. destruct (is_cont b); reflexivity. Qed.

Lemma advance_loc_spec : forall s line col byte,
  advance_loc s (line, col, byte)
  = (line + count_nl s, (if 0 <? count_nl s then nchars (last_line s) else col + nchars s),
     byte + length s).
Proof.
  induction s as [|b t IH]; intros line col byte.
  - cbn. now rewrite !Nat.add_0_r.
  - cbn [advance_loc]. change ((b =? 10)%N) with (is_nl b).
    cbn [count_nl last_line length].
    destruct (is_cont b) eqn:C; [rewrite (cont_not_nl b C)|destruct (is_nl b) eqn:NL];
      rewrite IH; cbn [plus]; destruct (0 <? count_nl t) eqn:Z;
      rewrite ?nchars_cons, ?C;
      try replace (0 <? S (count_nl t)) with true by (symmetry; apply Nat.ltb_lt; lia);
      cbn [plus]; f_equal; try f_equal; lia.
Qed.

Lemma advance_loc_app : forall a b l, advance_loc (a ++ b) l = advance_loc b (advance_loc a l).
Proof.
  induction a as [|x a IH]; intros b l; [reflexivity|].
  destruct l as [[line col] byte]. cbn [app advance_loc]. apply IH.
Qed.

Theorem advance_is_linecol : forall src off, advance_loc (firstn off src) loc0 = linecol src off.
Proof.
  intros src off. unfold loc0, linecol. rewrite advance_loc_spec. cbn [plus].
  destruct (0 <? count_nl (firstn off src)) eqn:Z; [reflexivity|].
  apply Nat.ltb_ge in Z. rewrite last_line_no_nl by lia. reflexivity.
Qed.

(* ---------------------------------------------------------------- spans_from *)

Fixpoint offsets (o : nat) (ts : list ptok) : list (nat * nat) :=
  match ts with
  | [] => []
  | (_, pre, len) :: r => (o + pre, o + pre + len) :: offsets (o + pre + len) r
  end.

Lemma firstn_plus : forall (A : Type) (o n : nat) (l : list A),
  firstn (o + n) l = firstn o l ++ firstn n (skipn o l).
Proof.
  intros A o. induction o as [|o IH]; intros n l; [reflexivity|].
  destruct l as [|x l]; [cbn; now rewrite firstn_nil|]. cbn. f_equal. apply IH.
Qed.

Lemma spans_from_offsets : forall src ts o,
  spans_from (skipn o src) (advance_loc (firstn o src) loc0) ts
  = map (fun '(t, (s, e)) => (t, (linecol src s, linecol src e)))
        (combine (map tok_of ts) (offsets o ts)).
Proof.
  intros src. induction ts as [|[[t pre] len] r IH]; intro o; [reflexivity|].
  cbn [spans_from offsets map combine tok_of fst].
  rewrite <- !advance_loc_app, <- !firstn_plus.
  rewrite !skipn_skipn'. rewrite !advance_is_linecol.
  assert (E : firstn (o + pre) src ++ firstn len (skipn (pre + o) src) = firstn (o + pre + len) src).
  { rewrite (firstn_plus _ (o + pre) len). replace (pre + o) with (o + pre) by lia. reflexivity. }
  rewrite E. replace (len + (pre + o)) with (o + pre + len) by lia.
  rewrite IH. rewrite advance_is_linecol. reflexivity.
Qed.

(* the spans the model attaches are the line/column/byte positions of the cumulative offsets *)
Theorem spans_are_linecol : forall src ts,
  spans_from src loc0 ts
  = map (fun '(t, (s, e)) => (t, (linecol src s, linecol src e)))
        (combine (map tok_of ts) (offsets 0 ts)).
Proof. intros src ts. exact (spans_from_offsets src ts 0). Qed.

(* ---------------------------------------------------------------- the tokens fit in the source *)

Fixpoint consumed (ts : list ptok) : nat :=
  match ts with [] => 0 | (_, pre, len) :: r => pre + len + consumed r end.

Lemma consumed_app : forall a b, consumed (a ++ b) = consumed a + consumed b.
Proof. induction a as [|[[t p] l] a IH]; intro b; cbn; [reflexivity|]. rewrite IH. lia. Qed.

Lemma skip_ascii_ws_len : forall s, length (skip_ascii_ws s) <= length s.
Proof.
  induction s as [|b t IH]; [apply Nat.le_refl|]. cbn [skip_ascii_ws].
  destruct (is_ascii_ws b); cbn; lia.
Qed.

Lemma str_scan_len : forall s q e, fst (str_scan s q e) <= length s.
Proof.
  induction s as [|c t IH]; intros q e; [apply Nat.le_refl|]. cbn [str_scan].
  destruct e.
  - specialize (IH q false). destruct (str_scan t q false). cbn in *. lia.
  - destruct (c =? backslash)%N.
    + specialize (IH q true). destruct (str_scan t q true). cbn in *. lia.
    + destruct (c =? q)%N; [cbn; lia|].
      specialize (IH q false). destruct (str_scan t q false). cbn in *. lia.
Qed.

Lemma num_scan_len : forall s f, fst (num_scan s f) <= length s.
Proof.
  induction s as [|c t IH]; intro f; [apply Nat.le_refl|]. cbn [num_scan].
  destruct (negb f && (c =? 46)%N).
  - specialize (IH true). destruct (num_scan t true). cbn in *. lia.
  - destruct (is_ascii_digit c); [|cbn; lia].
    specialize (IH f). destruct (num_scan t f). cbn in *. lia.
Qed.

Lemma ident_scan_len : forall s f, ident_scan s f <= length s.
Proof.
  induction s as [|c t IH]; intro f; [apply Nat.le_refl|]. cbn [ident_scan].
  destruct ((c =? 95)%N || (if f then is_ascii_alpha c else is_ascii_alnum c)); cbn; [|lia].
  specialize (IH false). lia.
Qed.

Lemma byte_at_is_lt : forall s i b, byte_at_is s i b = true -> i < length s.
Proof.
  intros s i b H. unfold byte_at_is in H. destruct (nth_error s i) eqn:E; [|discriminate].
  apply nth_error_Some. congruence.
Qed.

(* every token inside a tag is at least one byte long and lies inside the rest of the input *)
Lemma inner_token_len : forall s t n, inner_token s = Some (t, n) -> 1 <= n <= length s.
Proof.
  intros s t n H. unfold inner_token in H.
  destruct s as [|b1 t1]; [discriminate|].
  destruct (starts_with _ _) eqn:SW.
  { inversion H; subst. unfold starts_with in SW. apply bytes_eqb_eq in SW.
    apply (f_equal (@length _)) in SW. rewrite firstn_length in SW. cbn [length] in *. lia. }
  destruct (match t1 with b2 :: _ => op2_of b1 b2 | [] => None end) eqn:O2.
  { inversion H; subst. destruct t1; [discriminate|]. cbn. lia. }
  destruct (op1_of b1); [inversion H; subst; cbn; lia|].
  destruct (is_quote b1).
  { unfold lex_string in H. cbn [tl] in H.
    pose proof (str_scan_len t1 b1 false) as L.
    destruct (str_scan t1 b1 false) as [k h]. cbn [fst] in L.
    destruct (byte_at_is (b1 :: t1) (k + 1) b1) eqn:B; [|discriminate]. cbn [negb] in H.
    apply byte_at_is_lt in B.
    destruct h; [destruct (unescape _); [|discriminate]|]; inversion H; subst; lia. }
  destruct (is_ascii_digit b1) eqn:D.
  { unfold lex_number in H. pose proof (num_scan_len (b1 :: t1) false) as L.
    assert (P : 1 <= fst (num_scan (b1 :: t1) false)).
    { cbn [num_scan]. cbn [negb andb].
      destruct (b1 =? 46)%N; [destruct (num_scan t1 true); cbn; lia|].
      rewrite D. destruct (num_scan t1 false); cbn; lia. }
    destruct (num_scan (b1 :: t1) false) as [k f]. cbn [fst] in *.
    destruct f; [inversion H; subst; lia|].
    destruct (_ <=? _)%Z; [inversion H; subst; lia|discriminate]. }
  pose proof (ident_scan_len (b1 :: t1) true) as L.
  destruct (ident_scan (b1 :: t1) true) as [|k] eqn:I; [discriminate|].
  destruct (_ || _); [inversion H; subst; lia|].
  destruct (_ || _); inversion H; subst; lia.
Qed.

Lemma starts2_len : forall d s, starts2 d s = true -> 2 <= length s.
Proof. intros d [|a [|b s]] H; try discriminate. cbn. lia. Qed.

(* what scan_inside returns accounts exactly for what it read *)
Lemma scan_inside_consumed : forall fuel e s,
  match scan_inside fuel e s with
  | IEnd toks w pre rest => length s = consumed toks + pre + mlen w + length rest
  | IEof toks => consumed toks <= length s
  | IErr => True
  end.
Proof.
  induction fuel as [|f IH]; intros e s; [exact I|]. cbn [scan_inside].
  pose proof (skip_ascii_ws_len s) as SL.
  destruct (skip_ascii_ws s) as [|b0 t0] eqn:E; [cbn; lia|].
  destruct ((b0 =? dash)%N && starts2 e t0) eqn:D.
  { apply andb_true_iff in D as [_ D]. apply starts2_len in D.
    cbn [consumed mlen]. rewrite skipn_length. cbn [length] in *. lia. }
  destruct (starts2 e (b0 :: t0)) eqn:D2.
  { apply starts2_len in D2. cbn [consumed mlen]. rewrite skipn_length. cbn [length] in *. lia. }
  destruct (inner_token (b0 :: t0)) as [[t len]|] eqn:T; [|exact I].
  apply inner_token_len in T.
  specialize (IH e (skipn len (b0 :: t0))). rewrite skipn_length in IH.
  destruct (scan_inside f e (skipn len (b0 :: t0))) as [toks w pre rest| toks |];
    cbn [ires_cons consumed]; [| |exact I]; cbn [length] in *; lia.
Qed.

Lemma memstr_bound : forall x s m, length x = 2 -> memstr s x = Some m -> m + 2 <= length s.
Proof.
  intros x s m Hx M. destruct (memstr_sound x s m Hx M) as [W _].
  apply (f_equal (@length _)) in W. unfold window in W.
  rewrite firstn_length, skipn_length in W. lia.
Qed.

Lemma find_start_marker_bound : forall dl s n, find_start_marker dl s = Some n -> n + 2 <= length s.
Proof.
  intros dl. induction s as [|b1 t IH]; intros n H; [discriminate|].
  destruct t as [|b2 t']; [discriminate|]. rewrite fsm_cons2 in H.
  destruct (is_start_window dl b1 b2); [inversion H; cbn; lia|].
  destruct (find_start_marker dl (b2 :: t')) as [m|] eqn:F; [|discriminate].
  inversion H; subst. specialize (IH m eq_refl). cbn [length] in *. lia.
Qed.

Lemma check_ws_start_len : forall rest ws rest1, 2 <= length rest ->
  check_ws_start rest = (ws, rest1) -> length rest = mlen ws + length rest1.
Proof.
  intros rest ws rest1 L H. unfold check_ws_start in H.
  destruct (nth_error rest 2) as [b|] eqn:E.
  - assert (L3 : 2 < length rest) by (apply nth_error_Some; congruence).
    destruct (b =? dash)%N; apply pair_equal_spec in H as [Hw Hr]; subst ws rest1;
      rewrite skipn_length; cbn [mlen]; lia.
  - apply pair_equal_spec in H as [Hw Hr]. subst ws rest1. rewrite skipn_length. cbn [mlen]. lia.
Qed.

Lemma raw_loop_bound : forall fuel dl rest bstart off w body we adv,
  length (d_bs dl) = 2 ->
  raw_loop fuel dl rest bstart off w = Some (body, we, adv) -> adv <= length rest.
Proof.
  induction fuel as [|f IH]; intros dl rest bstart off w body we adv Lb H; [discriminate|].
  cbn [raw_loop] in H.
  destruct (memstr (skipn off rest) (d_bs dl)) as [block|] eqn:M; [|discriminate].
  apply memstr_bound in M; [|exact Lb]. rewrite skipn_length in M.
  destruct (skip_tag (skipn (off + block + 2) rest) name_endraw (d_be dl)) as [[en we']|] eqn:S.
  - inversion H; subst. unfold skip_tag in S.
    destruct (strip_prefix name_endraw _); [|discriminate].
    destruct (match skip_ascii_ws _ with b :: t => _ | [] => _ end) as [ow p4].
    destruct (strip_prefix (d_be dl) p4); [|discriminate]. inversion S; subst.
    rewrite skipn_length. lia.
  - eapply IH; eauto.
Qed.

(* the tokens of a successful run account for a prefix of the input: every byte range the model
   reports lies inside the source *)
Theorem lex_loop_consumed : forall fuel dl rest pt,
  length (d_bs dl) = 2 -> length (d_ce dl) = 2 ->
  lex_loop fuel dl rest = ROk pt -> consumed pt <= length rest.
Proof.
  induction fuel as [|f IH]; intros dl rest pt Lb Lc H; [discriminate|].
  destruct rest as [|b0 rest0]; [inversion H; cbn; lia|].
  set (rest := b0 :: rest0) in *. cbn [lex_loop] in H. fold rest in H.
  destruct (starts2 (d_vs dl) rest) eqn:SV.
  { apply starts2_len in SV. destruct (check_ws_start rest) as [ws rest1] eqn:CW.
    apply check_ws_start_len in CW; [|exact SV].
    pose proof (scan_inside_consumed (S (length rest1)) (d_ve dl) rest1) as SC.
    destruct (scan_inside (S (length rest1)) (d_ve dl) rest1) as [toks w pre rest2|toks|]; [| |discriminate].
    - destruct (lex_loop f dl rest2) as [pt2|] eqn:L2; [|discriminate]. cbn [res_cons] in H.
      inversion H; subst. apply IH in L2; [|exact Lb|exact Lc].
      cbn [consumed app]. rewrite !consumed_app. cbn [consumed]. lia.
    - inversion H; subst. cbn [consumed]. lia. }
  destruct (starts2 (d_bs dl) rest) eqn:SB.
  { apply starts2_len in SB. destruct (check_ws_start rest) as [ws rest1] eqn:CW.
    apply check_ws_start_len in CW; [|exact SB].
    destruct (skip_tag rest1 name_raw (d_be dl)) as [[off w]|].
    - destruct (raw_loop (S (length rest1)) dl rest1 off off w) as [[[body we] adv]|] eqn:RL; [|discriminate].
      apply raw_loop_bound in RL; [|exact Lb].
      destruct (lex_loop f dl (skipn adv rest1)) as [pt2|] eqn:L2; [|discriminate]. cbn [res_cons] in H.
      inversion H; subst. apply IH in L2; [|exact Lb|exact Lc]. rewrite skipn_length in L2.
      cbn [consumed app]. lia.
    - pose proof (scan_inside_consumed (S (length rest1)) (d_be dl) rest1) as SC.
      destruct (scan_inside (S (length rest1)) (d_be dl) rest1) as [toks w pre rest2|toks|]; [| |discriminate].
      + destruct (lex_loop f dl rest2) as [pt2|] eqn:L2; [|discriminate]. cbn [res_cons] in H.
        inversion H; subst. apply IH in L2; [|exact Lb|exact Lc].
        cbn [consumed app]. rewrite !consumed_app. cbn [consumed]. lia.
      + inversion H; subst. cbn [consumed]. lia. }
  destruct (starts2 (d_cs dl) rest) eqn:SC.
  { apply starts2_len in SC. destruct (check_ws_start rest) as [ws rest1] eqn:CW.
    apply check_ws_start_len in CW; [|exact SC].
    destruct (memstr rest1 (d_ce dl)) as [ep|] eqn:M; [|discriminate].
    apply memstr_bound in M; [|exact Lc].
    destruct (lex_loop f dl (skipn (ep + 2) rest1)) as [pt2|] eqn:L2; [|discriminate]. cbn [res_cons] in H.
    inversion H; subst. apply IH in L2; [|exact Lb|exact Lc]. rewrite skipn_length in L2.
    cbn [consumed app]. lia. }
  destruct (find_start_marker dl rest) as [st|] eqn:F.
  - apply find_start_marker_bound in F.
    destruct (lex_loop f dl (skipn st rest)) as [pt2|] eqn:L2; [|discriminate]. cbn [res_cons] in H.
    inversion H; subst. apply IH in L2; [|exact Lb|exact Lc]. rewrite skipn_length in L2.
    cbn [consumed app]. lia.
  - inversion H; subst. subst rest. cbn [consumed length]. lia.
Qed.

Lemma offsets_bound : forall ts o s e, In (s, e) (offsets o ts) -> s <= e /\ e <= o + consumed ts.
Proof.
  induction ts as [|[[t pre] len] r IH]; intros o s e H; [contradiction|].
  cbn [offsets consumed] in *. destruct H as [H|H].
  - inversion H; subst. lia.
  - apply IH in H. lia.
Qed.

(* every token range of a successful run lies inside the source *)
Theorem token_ranges_in_source : forall dl src pt s e,
  validate dl = ROk tt -> lex_ptoks dl src = ROk pt -> In (s, e) (offsets 0 pt) ->
  s <= e /\ e <= length src.
Proof.
  intros dl src pt s e V L H. apply Proofs.WsFilterProofs.validate_spec_lemma in V.
  destruct V as [Lb [_ [_ [_ [_ [Lc _]]]]]].
  apply lex_loop_consumed in L; [|exact Lb|exact Lc].
  apply offsets_bound in H. lia.
Qed.

(* ---------------------------------------------------------------- totality: the fuel never runs out *)

Lemma starts2_window_true : forall dl b1 b2 t,
  starts2 (d_vs dl) (b1 :: b2 :: t) = false -> starts2 (d_bs dl) (b1 :: b2 :: t) = false ->
  starts2 (d_cs dl) (b1 :: b2 :: t) = false -> is_start_window dl b1 b2 = false.
Proof.
  intros dl b1 b2 t H1 H2 H3. unfold is_start_window.
  change (starts2 (d_vs dl) (b1 :: b2 :: t)) with (bytes_eqb [b1; b2] (d_vs dl)) in H1.
  change (starts2 (d_bs dl) (b1 :: b2 :: t)) with (bytes_eqb [b1; b2] (d_bs dl)) in H2.
  change (starts2 (d_cs dl) (b1 :: b2 :: t)) with (bytes_eqb [b1; b2] (d_cs dl)) in H3.
  apply orb_false_iff; split; [apply orb_false_iff; split|]; assumption.
Qed.

(* every iteration of the Template state consumes at least one byte, so `S (length src)`
   iterations always suffice: the model never reports ErrPanic (out of fuel) *)
Theorem lex_loop_total : forall fuel dl rest,
  length (d_bs dl) = 2 -> length (d_ce dl) = 2 ->
  length rest < fuel -> lex_loop fuel dl rest <> RErr ErrPanic.
Proof.
  induction fuel as [|f IH]; intros dl rest Lb Lc Hf; [lia|].
  destruct rest as [|b0 rest0]; [discriminate|].
  set (rest := b0 :: rest0) in *. cbn [lex_loop]. fold rest.
  assert (RC : forall l r, length r < f -> res_cons l (lex_loop f dl r) <> RErr ErrPanic).
  { intros l r Hr. specialize (IH dl r Lb Lc Hr). destruct (lex_loop f dl r); cbn; congruence. }
  destruct (starts2 (d_vs dl) rest) eqn:SV.
  { apply starts2_len in SV. destruct (check_ws_start rest) as [ws rest1] eqn:CW.
    apply check_ws_start_len in CW; [|exact SV].
    pose proof (scan_inside_consumed (S (length rest1)) (d_ve dl) rest1) as SC.
    destruct (scan_inside (S (length rest1)) (d_ve dl) rest1) as [toks w pre rest2|toks|]; try discriminate.
    apply RC. destruct ws; cbn [mlen] in *; lia. }
  destruct (starts2 (d_bs dl) rest) eqn:SB.
  { apply starts2_len in SB. destruct (check_ws_start rest) as [ws rest1] eqn:CW.
    apply check_ws_start_len in CW; [|exact SB].
    destruct (skip_tag rest1 name_raw (d_be dl)) as [[off w]|].
    - destruct (raw_loop (S (length rest1)) dl rest1 off off w) as [[[body we] adv]|] eqn:RL; [|discriminate].
      apply RC. rewrite skipn_length. destruct ws; cbn [mlen] in *; lia.
    - pose proof (scan_inside_consumed (S (length rest1)) (d_be dl) rest1) as SC.
      destruct (scan_inside (S (length rest1)) (d_be dl) rest1) as [toks w pre rest2|toks|]; try discriminate.
      apply RC. destruct ws; cbn [mlen] in *; lia. }
  destruct (starts2 (d_cs dl) rest) eqn:SC.
  { apply starts2_len in SC. destruct (check_ws_start rest) as [ws rest1] eqn:CW.
    apply check_ws_start_len in CW; [|exact SC].
    destruct (memstr rest1 (d_ce dl)) as [ep|] eqn:M; [|discriminate].
    apply RC. rewrite skipn_length. destruct ws; cbn [mlen] in *; lia. }
  destruct (find_start_marker dl rest) as [st|] eqn:F; [|discriminate].
  apply RC. rewrite skipn_length.
  assert (LR : 1 <= length rest) by (unfold rest; cbn [length]; lia).
  enough (1 <= st) by lia.
  destruct st as [|st]; [|lia]. exfalso.
  subst rest. destruct rest0 as [|b1 t]; [discriminate|]. rewrite fsm_cons2 in F.
  rewrite (starts2_window_true dl b0 b1 t SV SB SC) in F.
  destruct (find_start_marker dl (b1 :: t)); discriminate.
Qed.

Theorem lex_ptoks_total : forall dl src, validate dl = ROk tt -> lex_ptoks dl src <> RErr ErrPanic.
Proof.
  intros dl src V. apply Proofs.WsFilterProofs.validate_spec_lemma in V.
  destruct V as [Lb [_ [_ [_ [_ [Lc _]]]]]].
  unfold lex_ptoks. apply lex_loop_total; [exact Lb|exact Lc|lia].
Qed.

(* the nested scanners never run out of their own fuel either: with more than `length s`
   iterations the result does not depend on the amount *)
Lemma scan_inside_fuel : forall f1 f2 e s, length s < f1 -> length s < f2 ->
  scan_inside f1 e s = scan_inside f2 e s.
Proof.
  induction f1 as [|f1 IH]; intros f2 e s H1 H2; [lia|]. destruct f2 as [|f2]; [lia|].
  cbn [scan_inside]. pose proof (skip_ascii_ws_len s) as SL.
  destruct (skip_ascii_ws s) as [|b0 t0]; [reflexivity|].
  destruct ((b0 =? dash)%N && starts2 e t0); [reflexivity|].
  destruct (starts2 e (b0 :: t0)); [reflexivity|].
  destruct (inner_token (b0 :: t0)) as [[t len]|] eqn:T; [|reflexivity].
  apply inner_token_len in T.
  rewrite (IH f2 e (skipn len (b0 :: t0))); [reflexivity| |]; rewrite skipn_length; lia.
Qed.

Lemma raw_loop_fuel : forall f1 f2 dl rest bs off w, length (d_bs dl) = 2 ->
  length rest - off < f1 -> length rest - off < f2 -> off <= length rest ->
  raw_loop f1 dl rest bs off w = raw_loop f2 dl rest bs off w.
Proof.
  induction f1 as [|f1 IH]; intros f2 dl rest bs off w Lb H1 H2 Ho; [lia|]. destruct f2 as [|f2]; [lia|].
  cbn [raw_loop].
  destruct (memstr (skipn off rest) (d_bs dl)) as [block|] eqn:M; [|reflexivity].
  apply memstr_bound in M; [|exact Lb]. rewrite skipn_length in M.
  destruct (skip_tag (skipn (off + block + 2) rest) name_endraw (d_be dl)) as [[en we]|]; [reflexivity|].
  apply IH; try exact Lb; lia.
Qed.
