(* C07: the hypotheses of the soundness theorems are satisfiable — the small concrete world of
   Model/World0.v respects the registry that lists its built-ins. *)
From TeraV Require Import Model.Value Model.Instr Model.VFormat Model.VM Model.World0 Model.StackCheck
  Proofs.StackCheckProofs.
Local Open Scope nat_scope.

Definition reg0 : registry :=
  {| r_filters := [n_default; n_upper; n_safe; n_length]; r_tests := [n_defined; n_undefined]; r_functions := [] |}.

Lemma world0_respects tpls : world_respects (world0 tpls) reg0.
Proof.
  split; [|split].
  - intros n H v k sc. cbn in H. cbn [world0 w_filter]. unfold filter0.
    repeat (apply orb_prop in H; destruct H as [H|H]; [apply str_eqb_eq in H; subst n; cbn; discriminate|]).
    discriminate.
  - intros n H v k. cbn in H. cbn [world0 w_test]. unfold test0.
    repeat (apply orb_prop in H; destruct H as [H|H]; [apply str_eqb_eq in H; subst n; cbn; discriminate|]).
    discriminate.
  - intros n H. discriminate.
Qed.
