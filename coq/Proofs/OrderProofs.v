(* Lemmas for C15: laws of the comparison functions of Model/Order.v. *)
From Coq Require Import List ZArith NArith Bool Lia Permutation Sorted.
From TeraV Require Import Model.Value Gen.OrderTables Model.Order.
Import ListNotations.
Open Scope Z_scope.

(* ================================================================== comparison algebra *)

(* transitivity in all its forms, stated on the three results x = c a b, y = c b d, z = c a d *)
Definition tr (x y z : comparison) : Prop :=
  match x, y with
  | Eq, r => z = r
  | r, Eq => z = r
  | Lt, Lt => z = Lt
  | Gt, Gt => z = Gt
  | _, _ => True
  end.

Lemma CompOpp_eq_iff x : CompOpp x = Eq <-> x = Eq.
Proof. destruct x; cbn; split; congruence. Qed.

Lemma Zcmp_tr a b c : tr (a ?= b) (b ?= c) (a ?= c).
Proof.
  destruct (Z.compare_spec a b), (Z.compare_spec b c); subst; cbn; trivial;
    try (apply Z.compare_eq_iff; lia); try (apply Z.compare_lt_iff; lia);
    try (apply Z.compare_gt_iff; lia).
Qed.

Lemma Ncmp_tr a b c : tr (N.compare a b) (N.compare b c) (N.compare a c).
Proof.
  destruct (N.compare_spec a b), (N.compare_spec b c); subst; cbn; trivial;
    try (apply N.compare_eq_iff; lia); try (apply N.compare_lt_iff; lia);
    try (apply N.compare_gt_iff; lia).
Qed.

Lemma bool_cmp_opp a b : bool_cmp b a = CompOpp (bool_cmp a b).
Proof. destruct a, b; reflexivity. Qed.
Lemma bool_cmp_tr a b c : tr (bool_cmp a b) (bool_cmp b c) (bool_cmp a c).
Proof. destruct a, b, c; cbn; trivial. Qed.
Lemma bool_cmp_eq a b : bool_cmp a b = Eq <-> Bool.eqb a b = true.
Proof. destruct a, b; cbn; split; congruence. Qed.

(* a lexicographic product "rank first, then a per-rank order" is transitive *)
Lemma lex_tr {T} (f : T -> N) (c : T -> T -> comparison) a b d :
  (f a <> f b -> c a b = N.compare (f a) (f b)) ->
  (f b <> f d -> c b d = N.compare (f b) (f d)) ->
  (f a <> f d -> c a d = N.compare (f a) (f d)) ->
  (f a = f b -> f b = f d -> tr (c a b) (c b d) (c a d)) ->
  tr (c a b) (c b d) (c a d).
Proof.
  intros Hab Hbd Had Hsame.
  destruct (N.eq_dec (f a) (f b)) as [e1|n1], (N.eq_dec (f b) (f d)) as [e2|n2].
  - auto.
  - assert (n3 : f a <> f d) by congruence.
    rewrite (Hbd n2), (Had n3), e1.
    destruct (N.compare_spec (f b) (f d)); try contradiction; destruct (c a b); cbn; trivial.
  - assert (n3 : f a <> f d) by congruence.
    rewrite (Hab n1), (Had n3), <- e2.
    destruct (N.compare_spec (f a) (f b)); try contradiction; destruct (c b d); cbn; trivial.
  - rewrite (Hab n1), (Hbd n2).
    destruct (N.compare_spec (f a) (f b)); try contradiction;
      destruct (N.compare_spec (f b) (f d)); try contradiction; cbn; trivial.
    + assert (n3 : f a <> f d) by lia. rewrite (Had n3). apply N.compare_lt_iff. lia.
    + assert (n3 : f a <> f d) by lia. rewrite (Had n3). apply N.compare_gt_iff. lia.
Qed.

(* ================================================================== lexicographic lists *)
Section ListLaws.
  Context {A : Type}.
  Variable W : A -> Prop.
  Variable c : A -> A -> comparison.

  Lemma list_cmp_opp l :
    Forall (fun x => forall y, W y -> c y x = CompOpp (c x y)) l ->
    forall l', Forall W l' -> list_cmp c l' l = CompOpp (list_cmp c l l').
  Proof.
    induction 1 as [|x t Hx Ht IH]; intros l' Hl'; destruct l' as [|y t']; cbn; trivial.
    inversion Hl'; subst. rewrite (Hx y) by assumption.
    destruct (c x y); cbn; auto.
  Qed.

  Lemma list_cmp_tr l :
    Forall (fun x => forall y z, W y -> W z -> tr (c x y) (c y z) (c x z)) l ->
    forall l' l'', Forall W l' -> Forall W l'' ->
    tr (list_cmp c l l') (list_cmp c l' l'') (list_cmp c l l'').
  Proof.
    induction 1 as [|x t Hx Ht IH]; intros l' l'' Hl' Hl'';
      destruct l' as [|y t']; destruct l'' as [|z t'']; cbn; trivial.
    - destruct (c y z); cbn; trivial. destruct (list_cmp c t' t''); cbn; trivial.
    - destruct (c x y); cbn; trivial. destruct (list_cmp c t t'); cbn; trivial.
    - inversion Hl'; inversion Hl''; subst.
      specialize (Hx y z ltac:(assumption) ltac:(assumption)).
      specialize (IH t' t'' ltac:(assumption) ltac:(assumption)).
      destruct (c x y), (c y z); cbn in Hx; try rewrite Hx; cbn; trivial;
        try (destruct (list_cmp c t t'); cbn; trivial; fail);
        try (destruct (list_cmp c t' t''); cbn; trivial; fail).
  Qed.

  Variable e : A -> A -> bool.
  Lemma list_cmp_eq_iff l :
    Forall (fun x => forall y, W y -> (c x y = Eq <-> e x y = true)) l ->
    forall l', Forall W l' -> (list_cmp c l l' = Eq <-> list_eq2 e l l' = true).
  Proof.
    induction 1 as [|x t Hx Ht IH]; intros l' Hl'; destruct l' as [|y t']; cbn;
      try (split; congruence).
    inversion Hl'; subst. specialize (Hx y ltac:(assumption)). specialize (IH t' ltac:(assumption)).
    rewrite andb_true_iff, <- Hx, <- IH.
    destruct (c x y); split; try tauto; try congruence; intros [? ?]; congruence.
  Qed.
End ListLaws.

Lemma list_eq2_N_eq (a b : list N) : list_eq2 N.eqb a b = true <-> a = b.
Proof.
  revert b; induction a as [|x a IH]; destruct b as [|y b]; cbn; split; try congruence.
  - rewrite andb_true_iff, N.eqb_eq, IH. intros [-> ->]; reflexivity.
  - intros H; inversion H; subst. rewrite N.eqb_refl. apply IH. reflexivity.
Qed.

Lemma str_eqb_eq (a b : str) : str_eqb a b = true <-> a = b.
Proof.
  unfold str_eqb. revert b; induction a as [|x a IH]; destruct b as [|y b]; cbn; split; try congruence.
  - rewrite andb_true_iff, N.eqb_eq, IH. intros [-> ->]; reflexivity.
  - intros H; inversion H; subst. rewrite N.eqb_refl. apply IH. reflexivity.
Qed.

Lemma Nlist_cmp_opp (a b : list N) : list_cmp N.compare b a = CompOpp (list_cmp N.compare a b).
Proof.
  apply (list_cmp_opp (fun _ => True)).
  - apply Forall_forall; intros x _ y _. apply N.compare_antisym.
  - apply Forall_forall; trivial.
Qed.
Lemma Nlist_cmp_tr (a b d : list N) :
  tr (list_cmp N.compare a b) (list_cmp N.compare b d) (list_cmp N.compare a d).
Proof.
  apply (list_cmp_tr (fun _ => True)); try (apply Forall_forall; trivial).
  intros x _ y z _ _. apply Ncmp_tr.
Qed.
Lemma Nlist_cmp_eq (a b : list N) : list_cmp N.compare a b = Eq <-> a = b.
Proof.
  rewrite <- list_eq2_N_eq.
  apply (list_cmp_eq_iff (fun _ => True)); try (apply Forall_forall; trivial).
  intros x _ y _. rewrite N.compare_eq_iff, N.eqb_eq. tauto.
Qed.

(* ================================================================== dyadic comparison *)
Lemma dy_cmp_scale m1 e1 m2 e2 k : k <= e1 -> k <= e2 ->
  dy_cmp m1 e1 m2 e2 = (m1 * 2 ^ (e1 - k) ?= m2 * 2 ^ (e2 - k)).
Proof.
  intros H1 H2. unfold dy_cmp.
  set (k0 := Z.min e1 e2).
  assert (Hk : k <= k0) by (unfold k0; lia).
  assert (k0 <= e1 /\ k0 <= e2) as [Ha Hb] by (unfold k0; lia).
  replace (e1 - k) with ((e1 - k0) + (k0 - k)) by lia.
  replace (e2 - k) with ((e2 - k0) + (k0 - k)) by lia.
  rewrite !Z.pow_add_r by lia. rewrite !Z.mul_assoc.
  apply Zmult_compare_compat_r. apply Z.lt_gt. apply Z.pow_pos_nonneg; lia.
Qed.

Lemma dy_cmp_opp m1 e1 m2 e2 : dy_cmp m2 e2 m1 e1 = CompOpp (dy_cmp m1 e1 m2 e2).
Proof. unfold dy_cmp. rewrite (Z.min_comm e2 e1). apply Z.compare_antisym. Qed.

Lemma dy_cmp_tr m1 e1 m2 e2 m3 e3 :
  tr (dy_cmp m1 e1 m2 e2) (dy_cmp m2 e2 m3 e3) (dy_cmp m1 e1 m3 e3).
Proof.
  set (k := Z.min e1 (Z.min e2 e3)).
  rewrite (dy_cmp_scale m1 e1 m2 e2 k), (dy_cmp_scale m2 e2 m3 e3 k), (dy_cmp_scale m1 e1 m3 e3 k)
    by (unfold k; lia).
  apply Zcmp_tr.
Qed.

Lemma dy_cmp_int m e n : dy_cmp m e n 0 =
  if 0 <=? e then (m * 2 ^ e ?= n) else (m ?= n * 2 ^ (- e)).
Proof.
  destruct (0 <=? e) eqn:He.
  - apply Z.leb_le in He. rewrite (dy_cmp_scale m e n 0 0) by lia.
    rewrite !Z.sub_0_r. cbn. rewrite Z.mul_1_r. reflexivity.
  - apply Z.leb_gt in He. rewrite (dy_cmp_scale m e n 0 e) by lia.
    rewrite Z.sub_diag, Z.sub_0_l. cbn. rewrite Z.mul_1_r. reflexivity.
Qed.

(* the floor-based comparison of mod.rs is the exact one *)
Lemma floor_cmp_exact m e n :
  match fin_floor m e ?= n with
  | Eq => if fin_has_frac m e then Gt else Eq
  | o => o
  end = dy_cmp m e n 0.
Proof.
  rewrite dy_cmp_int. unfold fin_floor, fin_has_frac.
  destruct (0 <=? e) eqn:He.
  - destruct (m * 2 ^ e ?= n); reflexivity.
  - apply Z.leb_gt in He.
    assert (Hd : 0 < 2 ^ (- e)) by (apply Z.pow_pos_nonneg; lia).
    set (d := 2 ^ (- e)) in *.
    pose proof (Z.div_mod m d ltac:(lia)) as Hdm.
    pose proof (Z.mod_pos_bound m d Hd) as Hb.
    destruct (Z.compare_spec (m / d) n) as [E|L|G].
    + destruct (m mod d =? 0) eqn:Hz; cbn.
      * apply Z.eqb_eq in Hz. symmetry. apply Z.compare_eq_iff. subst n. nia.
      * apply Z.eqb_neq in Hz. symmetry. apply Z.compare_gt_iff. subst n. nia.
    + symmetry. apply Z.compare_lt_iff. nia.
    + symmetry. apply Z.compare_gt_iff. nia.
Qed.

(* total order on float classes / numbers: NaN greatest and equal to itself *)
Definition xcmp (a b : fcls) : comparison :=
  match a, b with
  | FNaN, FNaN => Eq
  | FNaN, _ => Gt
  | _, FNaN => Lt
  | FInf s1, FInf s2 => bool_cmp s2 s1
  | FInf s, FFin _ _ => if s then Lt else Gt
  | FFin _ _, FInf s => if s then Gt else Lt
  | FFin m1 e1, FFin m2 e2 => dy_cmp m1 e1 m2 e2
  end.

Lemma xcmp_opp a b : xcmp b a = CompOpp (xcmp a b).
Proof.
  destruct a as [|[]|m1 e1], b as [|[]|m2 e2]; cbn; trivial. apply dy_cmp_opp.
Qed.

Lemma xcmp_tr a b d : tr (xcmp a b) (xcmp b d) (xcmp a d).
Proof.
  destruct a as [|[]|m1 e1], b as [|[]|m2 e2], d as [|[]|m3 e3]; cbn; trivial;
    try (destruct (dy_cmp m1 e1 m3 e3); cbn; trivial; fail);
    try (destruct (dy_cmp m1 e1 m2 e2); cbn; trivial; fail);
    try (destruct (dy_cmp m2 e2 m3 e3); cbn; trivial; fail).
  apply dy_cmp_tr.
Qed.

Lemma cmp_f64_to_i128_exact x n : in_i128 n = true ->
  cmp_f64_to_i128 x n = xcmp (fcls_of x) (FFin n 0).
Proof.
  intros Hn. unfold in_i128, i128_min, i128_max in Hn.
  apply andb_true_iff in Hn as [H1 H2]. apply Z.leb_le in H1, H2.
  unfold cmp_f64_to_i128. destruct (fcls_of x) as [|s|m e]; cbn [xcmp]; trivial.
  pose proof (dy_cmp_tr m e (- two127) 0 n 0) as T1.
  pose proof (dy_cmp_tr m e two127 0 n 0) as T2.
  assert (L1 : dy_cmp (- two127) 0 n 0 <> Gt).
  { rewrite dy_cmp_int. cbn [Z.leb Z.compare]. rewrite Z.pow_0_r, Z.mul_1_r.
    intro G. apply Z.compare_gt_iff in G. lia. }
  assert (L2 : dy_cmp two127 0 n 0 = Gt).
  { rewrite dy_cmp_int. cbn [Z.leb Z.compare]. rewrite Z.pow_0_r, Z.mul_1_r.
    apply Z.compare_gt_iff. lia. }
  rewrite L2 in T2.
  destruct (dy_cmp m e (- two127) 0) eqn:D1.
  - destruct (dy_cmp m e two127 0) eqn:D2; cbn in T2; try (symmetry; exact T2).
    apply floor_cmp_exact.
  - destruct (dy_cmp (- two127) 0 n 0) eqn:D3; cbn in T1; try congruence.
  - destruct (dy_cmp m e two127 0) eqn:D2; cbn in T2; try (symmetry; exact T2).
    apply floor_cmp_exact.
Qed.

Lemma cmp_f64_to_u128_exact x n : in_u128 n = true ->
  cmp_f64_to_u128 x n = xcmp (fcls_of x) (FFin n 0).
Proof.
  intros Hn. unfold in_u128, u128_max in Hn.
  apply andb_true_iff in Hn as [H1 H2]. apply Z.leb_le in H1, H2.
  unfold cmp_f64_to_u128. destruct (fcls_of x) as [|s|m e]; cbn [xcmp]; trivial.
  pose proof (dy_cmp_tr m e 0 0 n 0) as T1.
  pose proof (dy_cmp_tr m e two128 0 n 0) as T2.
  assert (L1 : dy_cmp 0 0 n 0 <> Gt).
  { rewrite dy_cmp_int. cbn [Z.leb Z.compare]. rewrite Z.pow_0_r, Z.mul_1_r.
    intro G. apply Z.compare_gt_iff in G. lia. }
  assert (L2 : dy_cmp two128 0 n 0 = Gt).
  { rewrite dy_cmp_int. cbn [Z.leb Z.compare]. rewrite Z.pow_0_r, Z.mul_1_r.
    apply Z.compare_gt_iff. lia. }
  rewrite L2 in T2.
  destruct (dy_cmp m e 0 0) eqn:D1.
  - destruct (dy_cmp m e two128 0) eqn:D2; cbn in T2; try (symmetry; exact T2).
    apply floor_cmp_exact.
  - destruct (dy_cmp 0 0 n 0) eqn:D3; cbn in T1; try congruence.
  - destruct (dy_cmp m e two128 0) eqn:D2; cbn in T2; try (symmetry; exact T2).
    apply floor_cmp_exact.
Qed.

(* ================================================================== keys *)
Definition nrank (k : nkey) : N :=
  match k with NKBool _ => 0 | NKNum _ => 1 | NKStr _ => 2 end%N.
Definition nkey_cmp (a b : nkey) : comparison :=
  match a, b with
  | NKBool x, NKBool y => bool_cmp x y
  | NKNum x, NKNum y => x ?= y
  | NKStr x, NKStr y => list_cmp N.compare x y
  | _, _ => N.compare (nrank a) (nrank b)
  end.

Lemma nkey_cmp_opp a b : nkey_cmp b a = CompOpp (nkey_cmp a b).
Proof.
  destruct a, b; cbn; trivial.
  - apply bool_cmp_opp. - apply Z.compare_antisym. - apply Nlist_cmp_opp.
Qed.

Lemma nkey_cmp_tr a b d : tr (nkey_cmp a b) (nkey_cmp b d) (nkey_cmp a d).
Proof.
  destruct a, b, d; cbn [nkey_cmp];
    try apply bool_cmp_tr; try apply Zcmp_tr; try apply Nlist_cmp_tr; cbn; trivial;
    try (match goal with |- match ?x with _ => _ end => destruct x end; trivial);
    try (match goal with |- tr ?x _ _ => destruct x; cbn; trivial end).
Qed.

Lemma nkey_cmp_eq a b : nkey_cmp a b = Eq <-> a = b.
Proof.
  destruct a, b; cbn; try (split; congruence).
  - rewrite bool_cmp_eq, Bool.eqb_true_iff. split; congruence.
  - rewrite Z.compare_eq_iff. split; congruence.
  - rewrite Nlist_cmp_eq. split; congruence.
Qed.

Lemma nkey_cmp_refl a : nkey_cmp a a = Eq.
Proof. apply nkey_cmp_eq. reflexivity. Qed.

Lemma nkey_lt_trans a b d : nkey_cmp a b = Lt -> nkey_cmp b d = Lt -> nkey_cmp a d = Lt.
Proof. intros H1 H2. pose proof (nkey_cmp_tr a b d) as T. rewrite H1, H2 in T. exact T. Qed.

Lemma rep_ok_unsigned r z : rep_ok r z = true -> (r = U64 \/ r = U128) -> 0 <= z.
Proof.
  intros H [-> | ->]; cbn in H; unfold in_u64, in_u128 in H;
    apply andb_true_iff in H as [H _]; apply Z.leb_le in H; exact H.
Qed.

Lemma key_cmp_norm a b : key_wf a = true -> key_wf b = true ->
  key_cmp a b = nkey_cmp (key_norm a) (key_norm b).
Proof.
  intros Ha Hb.
  destruct a as [x|r z|s o], b as [y|r' z'|s' o']; cbn in *; trivial;
    try (destruct r; reflexivity); try (destruct r'; reflexivity);
    try (destruct o; reflexivity); try (destruct o'; reflexivity);
    try (destruct r, o'; reflexivity); try (destruct o, r'; reflexivity).
  destruct r, r'; cbn; trivial.
  all: try (pose proof (rep_ok_unsigned _ _ Ha ltac:(auto)));
       try (pose proof (rep_ok_unsigned _ _ Hb ltac:(auto))).
  all: match goal with
       | |- (if ?c then _ else _) = _ => destruct c eqn:E; trivial
       end.
  all: apply Z.ltb_lt in E; symmetry;
       first [apply Z.compare_lt_iff; lia | apply Z.compare_gt_iff; lia].
Qed.

Lemma key_eq_norm a b : key_wf a = true -> key_wf b = true ->
  (key_eq a b = true <-> key_norm a = key_norm b).
Proof.
  intros Ha Hb.
  destruct a as [x|r z|s o], b as [y|r' z'|s' o']; cbn in *;
    try (split; congruence); try (destruct r; cbn; split; congruence);
    try (destruct r'; cbn; split; congruence).
  - rewrite Bool.eqb_true_iff. split; congruence.
  - assert (G : (z =? z') = true <-> NKNum z = NKNum z')
      by (rewrite Z.eqb_eq; split; congruence).
    destruct r, r'; cbn; trivial.
    all: try (pose proof (rep_ok_unsigned _ _ Ha ltac:(auto)));
         try (pose proof (rep_ok_unsigned _ _ Hb ltac:(auto))).
    all: match goal with
         | |- (if ?c then _ else _) = _ <-> _ => destruct c eqn:E; trivial
         end.
    all: apply Z.ltb_lt in E; split; [discriminate | intros Q; inversion Q; lia].
  - rewrite str_eqb_eq. split; congruence.
Qed.

Lemma key_cmp_eq_iff a b : key_wf a = true -> key_wf b = true ->
  (key_cmp a b = Eq <-> key_eq a b = true).
Proof. intros Ha Hb. rewrite key_cmp_norm, nkey_cmp_eq, key_eq_norm by assumption. tauto. Qed.

Lemma key_hash_norm k : key_wf k = true -> key_hash k = nkey_hash (key_norm k).
Proof.
  intros H. destruct k as [x|r z|s o]; cbn in *; trivial.
  destruct r; cbn; trivial.
  all: pose proof (rep_ok_unsigned _ _ H ltac:(auto)) as P.
  all: destruct (z <? 0) eqn:E; trivial; apply Z.ltb_lt in E; lia.
Qed.

(* ================================================================== association lists *)
Definition K {V} (x : key * V) : nkey := key_norm (fst x).
Definition kwf {V} (m : list (key * V)) : Prop := Forall (fun x => key_wf (fst x) = true) m.
Definition kdist {V} (m : list (key * V)) : Prop := NoDup (map K m).

Lemma keys_distinct_NoDup {V} (m : list (key * V)) : kwf m ->
  (keys_distinct (map fst m) = true <-> kdist m).
Proof.
  unfold kdist. induction m as [|[k v] t IH]; intros Hw; cbn.
  - split; trivial. constructor.
  - inversion Hw as [|? ? Hk Ht]; subst. cbn in Hk.
    rewrite andb_true_iff, negb_true_iff, (IH Ht). split.
    + intros [Hn Hd]. constructor; trivial. intros Hin.
      apply in_map_iff in Hin as [[k' v'] [Heq Hin]]. unfold K in Heq; cbn in Heq.
      assert (Hex : existsb (key_eq k) (map fst t) = true).
      { apply existsb_exists. exists k'. split. apply in_map_iff. exists (k', v'); auto.
        rewrite Forall_forall in Ht. specialize (Ht _ Hin). cbn in Ht.
        apply key_eq_norm; auto. }
      congruence.
    + intros Hnd. inversion Hnd as [|? ? Hnin Hd]; subst. split; trivial.
      destruct (existsb (key_eq k) (map fst t)) eqn:Hex; trivial. exfalso. apply Hnin.
      apply existsb_exists in Hex as [k' [Hin Hke]].
      apply in_map_iff in Hin as [[k'' v'] [Heq Hin]]. cbn in Heq. subst k''.
      apply in_map_iff. exists (k', v'). split; trivial. unfold K; cbn.
      rewrite Forall_forall in Ht. specialize (Ht _ Hin). cbn in Ht.
      symmetry. apply key_eq_norm; auto.
Qed.

Lemma map_get_some {V} (m : list (key * V)) k v : map_get m k = Some v ->
  exists k', In (k', v) m /\ key_eq k' k = true.
Proof.
  induction m as [|[k0 v0] t IH]; cbn; try discriminate.
  destruct (key_eq k0 k) eqn:E.
  - intros H; inversion H; subst. exists k0; auto.
  - intros H. destruct (IH H) as [k' [Hin Hk]]. exists k'; auto.
Qed.

Lemma map_get_none {V} (m : list (key * V)) k : map_get m k = None ->
  forall k' v, In (k', v) m -> key_eq k' k = false.
Proof.
  induction m as [|[k0 v0] t IH]; cbn; intros H k' v Hin; try contradiction.
  destruct (key_eq k0 k) eqn:E; try discriminate.
  destruct Hin as [Hin|Hin]; [inversion Hin; subst; trivial | eauto].
Qed.

Lemma map_get_unique {V} (m : list (key * V)) k k' v : kwf m -> kdist m -> key_wf k = true ->
  In (k', v) m -> key_eq k' k = true -> map_get m k = Some v.
Proof.
  unfold kdist. induction m as [|[k0 v0] t IH]; cbn; intros Hw Hd Hk Hin Hke; try contradiction.
  inversion Hw as [|? ? Hk0 Ht]; subst. inversion Hd as [|? ? Hnin Hd']; subst. cbn in Hk0.
  destruct Hin as [Hin|Hin].
  - inversion Hin; subst. rewrite Hke. reflexivity.
  - destruct (key_eq k0 k) eqn:E.
    + exfalso. apply Hnin. apply in_map_iff. exists (k', v). split; trivial. unfold K; cbn.
      rewrite Forall_forall in Ht. pose proof (Ht _ Hin) as Hk'. cbn in Hk'.
      apply key_eq_norm in E; trivial. apply key_eq_norm in Hke; trivial. congruence.
    + apply IH; trivial.
Qed.

(* lookup depends only on the normal form of the key *)
Lemma map_get_norm {V} (m : list (key * V)) k k' : kwf m -> key_wf k = true -> key_wf k' = true ->
  key_norm k = key_norm k' -> map_get m k = map_get m k'.
Proof.
  induction m as [|[k0 v0] t IH]; cbn; intros Hw Hk Hk' Hn; trivial.
  inversion Hw as [|? ? Hk0 Ht]; subst. cbn in Hk0.
  assert (E : key_eq k0 k = key_eq k0 k').
  { destruct (key_eq k0 k) eqn:E1, (key_eq k0 k') eqn:E2; trivial.
    - apply key_eq_norm in E1; trivial. rewrite Hn in E1. apply key_eq_norm in E1; trivial. congruence.
    - apply key_eq_norm in E2; trivial. rewrite <- Hn in E2. apply key_eq_norm in E2; trivial. congruence. }
  rewrite E. destruct (key_eq k0 k'); auto.
Qed.

(* ---- sorting by key *)
Definition klt {V W} (x : key * V) (y : key * W) : Prop := nkey_cmp (K x) (K y) = Lt.
Definition ssorted {V} (l : list (key * V)) : Prop := StronglySorted klt l.

Lemma kinsert_perm {V} (x : key * V) l : Permutation (kinsert x l) (x :: l).
Proof.
  induction l as [|y t IH]; cbn; trivial.
  destruct (key_cmp (fst x) (fst y)); trivial.
  rewrite IH. apply perm_swap.
Qed.

Lemma ksort_perm {V} (l : list (key * V)) : Permutation (ksort l) l.
Proof.
  induction l as [|x t IH]; cbn; trivial.
  rewrite kinsert_perm. constructor. exact IH.
Qed.

Lemma kinsert_sorted {V} (x : key * V) l : key_wf (fst x) = true -> kwf l ->
  ssorted l -> (forall y, In y l -> K y <> K x) -> ssorted (kinsert x l).
Proof.
  intros Hx. induction l as [|y t IH]; cbn; intros Hw Hs Hd.
  - repeat constructor.
  - inversion Hw as [|? ? Hy Ht]; subst. inversion Hs as [|? ? Hs' Hall]; subst.
    rewrite key_cmp_norm by assumption. fold (K x) (K y).
    destruct (nkey_cmp (K x) (K y)) eqn:E.
    + apply nkey_cmp_eq in E. exfalso. apply (Hd y); cbn; auto.
    + constructor; trivial. constructor; trivial.
      rewrite Forall_forall in *. intros z Hz. eapply nkey_lt_trans; eauto. apply Hall; trivial.
    + constructor.
      * apply IH; trivial. intros z Hz. apply Hd. cbn; auto.
      * rewrite Forall_forall in *. intros z Hz.
        apply (Permutation_in _ (kinsert_perm x t)) in Hz. destruct Hz as [<-|Hz].
        -- unfold klt. rewrite nkey_cmp_opp, E. reflexivity.
        -- apply Hall; trivial.
Qed.

Lemma ksort_sorted {V} (l : list (key * V)) : kwf l -> kdist l -> ssorted (ksort l).
Proof.
  unfold kdist. induction l as [|x t IH]; cbn; intros Hw Hd.
  - constructor.
  - inversion Hw as [|? ? Hx Ht]; subst. inversion Hd as [|? ? Hnin Hd']; subst.
    apply kinsert_sorted; trivial.
    + unfold kwf. rewrite Forall_forall in *. intros y Hy. apply Ht.
      apply (Permutation_in _ (ksort_perm t)); trivial.
    + apply IH; trivial.
    + intros y Hy Heq. apply Hnin. apply in_map_iff. exists y. split; trivial.
      apply (Permutation_in _ (ksort_perm t)); trivial.
Qed.

(* sorting commutes with a map over the payloads *)
Lemma kinsert_map {V W} (g : V -> W) (x : key * V) l :
  kinsert (fst x, g (snd x)) (map (fun y => (fst y, g (snd y))) l) =
  map (fun y => (fst y, g (snd y))) (kinsert x l).
Proof.
  induction l as [|y t IH]; cbn; trivial.
  destruct (key_cmp (fst x) (fst y)); cbn; trivial. rewrite IH. reflexivity.
Qed.

Lemma ksort_map {V W} (g : V -> W) (l : list (key * V)) :
  ksort (map (fun y => (fst y, g (snd y))) l) = map (fun y => (fst y, g (snd y))) (ksort l).
Proof.
  unfold ksort. induction l as [|x t IH]; cbn; trivial.
  rewrite IH. apply kinsert_map.
Qed.

(* two strictly sorted lists whose entries match each other are pointwise matching *)
Lemma sorted_match {V W} (E : V -> W -> Prop) (s : list (key * V)) : forall (s' : list (key * W)),
  ssorted s -> ssorted s' ->
  (forall x, In x s -> exists y, In y s' /\ K x = K y /\ E (snd x) (snd y)) ->
  (forall y, In y s' -> exists x, In x s /\ K x = K y) ->
  Forall2 (fun x y => K x = K y /\ E (snd x) (snd y)) s s'.
Proof.
  induction s as [|x t IH]; intros s' Hs Hs' H1 H2.
  - destruct s' as [|y t']; [constructor|].
    destruct (H2 y (or_introl eq_refl)) as [x [[] _]].
  - destruct s' as [|y t'].
    { destruct (H1 x (or_introl eq_refl)) as [y [[] _]]. }
    inversion Hs as [|? ? Hst Hxt]; subst. inversion Hs' as [|? ? Hst' Hyt]; subst.
    rewrite Forall_forall in Hxt, Hyt.
    assert (irr : forall k, nkey_cmp k k = Lt -> False) by (intros k Q; rewrite nkey_cmp_refl in Q; discriminate).
    assert (Kxy : K x = K y).
    { destruct (H1 x (or_introl eq_refl)) as [y0 [[<-|Hy0] [Heq _]]]; trivial.
      destruct (H2 y (or_introl eq_refl)) as [x0 [[<-|Hx0] Heq']]; trivial.
      exfalso. pose proof (Hxt _ Hx0) as L1. pose proof (Hyt _ Hy0) as L2. unfold klt in *.
      rewrite Heq' in L1. rewrite <- Heq in L2. apply (irr (K x)). eapply nkey_lt_trans; eauto. }
    constructor.
    + split; trivial.
      destruct (H1 x (or_introl eq_refl)) as [y0 [[<-|Hy0] [Heq HE]]]; trivial.
      exfalso. pose proof (Hyt _ Hy0) as L. unfold klt in L. rewrite <- Heq, Kxy in L. eauto.
    + apply IH; trivial.
      * intros x1 Hx1. destruct (H1 x1 (or_intror Hx1)) as [y1 [[<-|Hy1] [Heq HE]]]; eauto.
        exfalso. pose proof (Hxt _ Hx1) as L. unfold klt in L. rewrite Heq, Kxy in L. eauto.
      * intros y1 Hy1. destruct (H2 y1 (or_intror Hy1)) as [x1 [[<-|Hx1] Heq]]; eauto.
        exfalso. pose proof (Hyt _ Hy1) as L. unfold klt in L. rewrite <- Heq, Kxy in L. eauto.
Qed.

Lemma Forall2_in_l {A B} (R : A -> B -> Prop) l l' x : Forall2 R l l' -> In x l ->
  exists y, In y l' /\ R x y.
Proof.
  induction 1 as [|a b t t' Hab Ht IH]; cbn; intros Hin; try contradiction.
  destruct Hin as [<-|Hin]; [eauto | destruct (IH Hin) as [y [? ?]]; eauto].
Qed.

Lemma list_cmp_Eq_Forall2 {A B} (c : A -> B -> comparison) l l' :
  list_cmp c l l' = Eq <-> Forall2 (fun x y => c x y = Eq) l l'.
Proof.
  revert l'; induction l as [|x t IH]; destruct l' as [|y t']; cbn; split; intros H;
    try discriminate; try constructor; try (inversion H; fail).
  - destruct (c x y); congruence.
  - apply IH. destruct (c x y); congruence.
  - inversion H; subst. rewrite H3. apply IH; trivial.
Qed.

Lemma list_cmp_ext {A B} (c c' : A -> B -> comparison) l l' :
  (forall x y, c x y = c' x y) -> list_cmp c l l' = list_cmp c' l l'.
Proof.
  intros H. revert l'; induction l as [|x t IH]; destruct l' as [|y t']; cbn; trivial.
  rewrite H, IH. reflexivity.
Qed.

Lemma list_cmp_map_l {A A' B} (g : A -> A') (c : A' -> B -> comparison) l l' :
  list_cmp c (map g l) l' = list_cmp (fun x y => c (g x) y) l l'.
Proof.
  revert l'; induction l as [|x t IH]; destruct l' as [|y t']; cbn; trivial.
  rewrite IH. reflexivity.
Qed.

(* ================================================================== values: induction, wf *)
Section ValueInd.
  Variable P : value -> Prop.
  Hypothesis HUndef : P VUndef.
  Hypothesis HNone : P VNone.
  Hypothesis HBool : forall b, P (VBool b).
  Hypothesis HInt : forall r z, P (VInt r z).
  Hypothesis HFloat : forall f, P (VFloat f).
  Hypothesis HStr : forall s f, P (VStr s f).
  Hypothesis HArr : forall l, Forall P l -> P (VArr l).
  Hypothesis HMap : forall m, Forall (fun kv => P (snd kv)) m -> P (VMap m).
  Hypothesis HBytes : forall b, P (VBytes b).

  (* the induction principle for the nested inductive [value] *)
  Fixpoint value_ind' (v : value) : P v :=
    match v with
    | VUndef => HUndef
    | VNone => HNone
    | VBool b => HBool b
    | VInt r z => HInt r z
    | VFloat f => HFloat f
    | VStr s f => HStr s f
    | VArr l =>
        HArr l ((fix go (l : list value) : Forall P l :=
                   match l with
                   | [] => Forall_nil _
                   | x :: t => Forall_cons x (value_ind' x) (go t)
                   end) l)
    | VMap m =>
        HMap m ((fix go (m : list (key * value)) : Forall (fun kv => P (snd kv)) m :=
                   match m with
                   | [] => Forall_nil _
                   | kv :: t => Forall_cons kv (value_ind' (snd kv)) (go t)
                   end) m)
    | VBytes b => HBytes b
    end.
End ValueInd.

Lemma all_b_Forall {A} (p : A -> bool) l : all_b p l = true <-> Forall (fun x => p x = true) l.
Proof.
  induction l as [|x t IH]; cbn.
  - split; auto.
  - rewrite andb_true_iff, IH. split; [intros [? ?]; constructor; auto | intros H; inversion H; auto].
Qed.

Lemma wf_arr l : wf (VArr l) <-> Forall wf l.
Proof. unfold wf; cbn. apply all_b_Forall. Qed.

Lemma wf_map m : wf (VMap m) <-> kwf m /\ kdist m /\ Forall (fun x => wf (snd x)) m.
Proof.
  unfold wf; cbn. rewrite !andb_true_iff, !all_b_Forall.
  assert (E : Forall (fun x => key_wf x = true) (map fst m) <-> kwf m).
  { unfold kwf. rewrite Forall_map. tauto. }
  rewrite E. split.
  - intros [[H1 H2] H3]. repeat split; trivial. apply keys_distinct_NoDup; trivial.
  - intros [H1 [H2 H3]]. repeat split; trivial. apply keys_distinct_NoDup; trivial.
Qed.

Lemma rep_ok_range r z : rep_ok r z = true -> i128_min <= z <= u128_max.
Proof.
  unfold i128_min, u128_max, two127, two128.
  destruct r; cbn; unfold in_u64, in_i64, in_u128, in_i128, i128_min, i128_max, u128_max, two63, two64, two127, two128;
    rewrite andb_true_iff; intros [H1 H2];
    try apply Z.leb_le in H1; try apply Z.leb_le in H2; try apply Z.ltb_lt in H2; lia.
Qed.

Lemma as_u128_int r z : as_u128 (VInt r z) = if in_u128 z then Some z else None.
Proof. reflexivity. Qed.
Lemma as_i128_int r z : as_i128 (VInt r z) = if in_i128 z then Some z else None.
Proof. reflexivity. Qed.

(* ================================================================== scalars *)
Inductive skey := SUndef | SNone | SBool (b : bool) | SNum (x : fcls) | SStr (s : str) | SBytes (b : list N).

Definition sk (v : value) : option skey :=
  match v with
  | VUndef => Some SUndef
  | VNone => Some SNone
  | VBool b => Some (SBool b)
  | VInt _ z => Some (SNum (FFin z 0))
  | VFloat f => Some (SNum (fcls_of f))
  | VStr s _ => Some (SStr s)
  | VBytes b => Some (SBytes b)
  | _ => None
  end.

Definition srank (k : skey) : N :=
  match k with
  | SUndef => value_type_order KUndefined
  | SNone => value_type_order KNone
  | SBool _ => value_type_order KBoolK
  | SNum _ => value_type_order KF64
  | SStr _ => value_type_order KString
  | SBytes _ => value_type_order KBytes
  end.

Definition scmp (a b : skey) : comparison :=
  match a, b with
  | SUndef, SUndef => Eq
  | SNone, SNone => Eq
  | SBool x, SBool y => bool_cmp x y
  | SNum x, SNum y => xcmp x y
  | SStr x, SStr y => list_cmp N.compare x y
  | SBytes x, SBytes y => list_cmp N.compare x y
  | _, _ => N.compare (srank a) (srank b)
  end.

Lemma scmp_opp a b : scmp b a = CompOpp (scmp a b).
Proof.
  destruct a, b; cbn; trivial.
  - apply bool_cmp_opp. - apply xcmp_opp. - apply Nlist_cmp_opp. - apply Nlist_cmp_opp.
Qed.

Lemma scmp_tr a b d : tr (scmp a b) (scmp b d) (scmp a d).
Proof.
  destruct a, b, d; cbn [scmp];
    try apply bool_cmp_tr; try apply xcmp_tr; try apply Nlist_cmp_tr; cbn; trivial;
    try (match goal with |- match ?x with _ => _ end => destruct x end; trivial);
    try (match goal with |- tr ?x _ _ => destruct x; cbn; trivial end).
Qed.

Lemma scmp_rank a b : srank a <> srank b -> scmp a b = N.compare (srank a) (srank b).
Proof. destruct a, b; cbn; trivial; intros H; exfalso; apply H; reflexivity. Qed.

Lemma scmp_same_rank a b : srank a = srank b ->
  match a, b with
  | SUndef, SUndef | SNone, SNone | SBool _, SBool _ | SNum _, SNum _ | SStr _, SStr _
  | SBytes _, SBytes _ => True
  | _, _ => False
  end.
Proof. destruct a, b; cbn; trivial; discriminate. Qed.

Lemma rank_sk a x : sk a = Some x -> rank a = srank x.
Proof.
  destruct a as [| |b|r z|f|s sf|l|m|bs]; cbn; intros H; inversion H; subst; trivial.
  destruct r; reflexivity.
Qed.

(* numbers: the code's case analysis computes the exact comparison *)
Lemma xcmp_int z z' : xcmp (FFin z 0) (FFin z' 0) = (z ?= z').
Proof. cbn. rewrite dy_cmp_int. cbn. rewrite Z.mul_1_r. reflexivity. Qed.

Lemma f64_total_cmp_x x y : f64_total_cmp x y = xcmp (fcls_of x) (fcls_of y).
Proof.
  unfold f64_total_cmp, f64_pcmp.
  destruct x as [[]|[]| |[] mx ex], y as [[]|[]| |[] my ey]; reflexivity.
Qed.

Lemma f64_eq_x x y : f64_eq x y = match xcmp (fcls_of x) (fcls_of y) with Eq => true | _ => false end.
Proof.
  unfold f64_eq, f64_pcmp.
  destruct x as [[]|[]| |[] mx ex], y as [[]|[]| |[] my ey]; cbn; trivial;
    match goal with |- context [dy_cmp ?a ?b ?c ?d] => destruct (dy_cmp a b c d); reflexivity end.
Qed.

Lemma cmp_f64_to_number_x f r z : rep_ok r z = true ->
  cmp_f64_to_number f (VInt r z) = Some (xcmp (fcls_of f) (FFin z 0)).
Proof.
  intros H. pose proof (rep_ok_range _ _ H) as R.
  unfold cmp_f64_to_number. rewrite as_i128_int, as_u128_int.
  destruct (in_i128 z) eqn:E.
  - rewrite cmp_f64_to_i128_exact; trivial.
  - assert (U : in_u128 z = true).
    { unfold in_i128, in_u128 in *. apply andb_false_iff in E.
      apply andb_true_iff. rewrite !Z.leb_le.
      destruct E as [E|E]; apply Z.leb_gt in E; unfold i128_min, i128_max, u128_max, two127, two128 in *; lia. }
    rewrite U. cbn. rewrite cmp_f64_to_u128_exact; trivial.
Qed.

Lemma int_pcmp_x r z r' z' : rep_ok r z = true -> rep_ok r' z' = true ->
  int_pcmp (VInt r z) (VInt r' z') = Some (z ?= z').
Proof.
  intros H H'. pose proof (rep_ok_range _ _ H) as R. pose proof (rep_ok_range _ _ H') as R'.
  unfold int_pcmp. rewrite !as_u128_int, !as_i128_int.
  unfold in_u128, in_i128, i128_min, i128_max, u128_max, two127, two128 in *.
  destruct (0 <=? z) eqn:A, (0 <=? z') eqn:A';
    try apply Z.leb_le in A; try apply Z.leb_gt in A; try apply Z.leb_le in A'; try apply Z.leb_gt in A'.
  - replace (z <=? _) with true by (symmetry; apply Z.leb_le; lia).
    replace (z' <=? _) with true by (symmetry; apply Z.leb_le; lia). reflexivity.
  - replace (z <=? _) with true by (symmetry; apply Z.leb_le; lia). cbn.
    f_equal. symmetry. apply Z.compare_gt_iff. lia.
  - replace (z' <=? _) with true by (symmetry; apply Z.leb_le; lia). cbn.
    f_equal. symmetry. apply Z.compare_lt_iff. lia.
  - cbn.
    replace (_ <=? z) with true by (symmetry; apply Z.leb_le; lia).
    replace (z <=? _) with true by (symmetry; apply Z.leb_le; lia).
    replace (_ <=? z') with true by (symmetry; apply Z.leb_le; lia).
    replace (z' <=? _) with true by (symmetry; apply Z.leb_le; lia). reflexivity.
Qed.

Lemma int_eq_x r z r' z' : rep_ok r z = true -> rep_ok r' z' = true ->
  int_eq (VInt r z) (VInt r' z') = (z =? z').
Proof.
  intros H H'. pose proof (rep_ok_range _ _ H) as R. pose proof (rep_ok_range _ _ H') as R'.
  unfold int_eq. rewrite !as_u128_int, !as_i128_int.
  unfold in_u128, in_i128, i128_min, i128_max, u128_max, two127, two128 in *.
  destruct (0 <=? z) eqn:A, (0 <=? z') eqn:A';
    try apply Z.leb_le in A; try apply Z.leb_gt in A; try apply Z.leb_le in A'; try apply Z.leb_gt in A'.
  - replace (z <=? _) with true by (symmetry; apply Z.leb_le; lia).
    replace (z' <=? _) with true by (symmetry; apply Z.leb_le; lia). reflexivity.
  - replace (z <=? _) with true by (symmetry; apply Z.leb_le; lia). cbn.
    symmetry. apply Z.eqb_neq. lia.
  - replace (z' <=? _) with true by (symmetry; apply Z.leb_le; lia). cbn.
    symmetry. apply Z.eqb_neq. lia.
  - cbn.
    replace (_ <=? z) with true by (symmetry; apply Z.leb_le; lia).
    replace (z <=? _) with true by (symmetry; apply Z.leb_le; lia).
    replace (_ <=? z') with true by (symmetry; apply Z.leb_le; lia).
    replace (z' <=? _) with true by (symmetry; apply Z.leb_le; lia). reflexivity.
Qed.

Lemma wf_int r z : wf (VInt r z) -> rep_ok r z = true.
Proof. trivial. Qed.

Lemma vpcmp_sk a b x y : wf a -> wf b -> sk a = Some x -> sk b = Some y ->
  vpcmp a b = if N.eqb (srank x) (srank y) then Some (scmp x y) else None.
Proof.
  intros Wa Wb Ha Hb.
  destruct a as [| |ba|ra za|fa|sa sfa|la|ma|bsa], b as [| |bb|rb zb|fb|sb sfb|lb|mb|bsb];
    cbn in Ha, Hb; try discriminate; inversion Ha; inversion Hb; subst; try reflexivity.
  - (* int, int *)
    cbn [vpcmp]. rewrite int_pcmp_x by (apply wf_int; assumption).
    cbn [scmp]. rewrite xcmp_int. reflexivity.
  - (* int, float *)
    cbn [vpcmp]. rewrite cmp_f64_to_number_x by (apply wf_int; assumption).
    cbn. rewrite <- xcmp_opp. reflexivity.
  - (* float, int *)
    cbn [vpcmp]. rewrite cmp_f64_to_number_x by (apply wf_int; assumption). reflexivity.
  - (* float, float *)
    cbn [vpcmp]. rewrite f64_total_cmp_x. reflexivity.
Qed.

Lemma veq_sk a b x y : wf a -> wf b -> sk a = Some x -> sk b = Some y ->
  veq a b = match scmp x y with Eq => true | _ => false end.
Proof.
  intros Wa Wb Ha Hb.
  destruct a as [| |ba|ra za|fa|sa sfa|la|ma|bsa], b as [| |bb|rb zb|fb|sb sfb|lb|mb|bsb];
    cbn in Ha, Hb; try discriminate; inversion Ha; inversion Hb; subst; try reflexivity.
  - cbn. destruct ba, bb; reflexivity.
  - cbn [veq]. rewrite int_eq_x by (apply wf_int; assumption).
    cbn [scmp]. rewrite xcmp_int. destruct (Z.compare_spec za zb).
    + apply Z.eqb_eq; trivial. + apply Z.eqb_neq; lia. + apply Z.eqb_neq; lia.
  - cbn [veq]. rewrite cmp_f64_to_number_x by (apply wf_int; assumption).
    cbn [scmp is_eq]. rewrite (xcmp_opp (FFin za 0) (fcls_of fb)).
    destruct (xcmp (FFin za 0) (fcls_of fb)); reflexivity.
  - cbn [veq]. rewrite cmp_f64_to_number_x by (apply wf_int; assumption). reflexivity.
  - cbn [veq]. rewrite f64_eq_x. reflexivity.
  - cbn [veq scmp]. destruct (list_cmp N.compare sa sb) eqn:E.
    + apply list_eq2_N_eq. apply Nlist_cmp_eq; trivial.
    + destruct (list_eq2 N.eqb sa sb) eqn:Q; trivial. apply list_eq2_N_eq in Q.
      apply Nlist_cmp_eq in Q. congruence.
    + destruct (list_eq2 N.eqb sa sb) eqn:Q; trivial. apply list_eq2_N_eq in Q.
      apply Nlist_cmp_eq in Q. congruence.
  - cbn [veq scmp]. destruct (list_cmp N.compare bsa bsb) eqn:E.
    + apply list_eq2_N_eq. apply Nlist_cmp_eq; trivial.
    + destruct (list_eq2 N.eqb bsa bsb) eqn:Q; trivial. apply list_eq2_N_eq in Q.
      apply Nlist_cmp_eq in Q. congruence.
    + destruct (list_eq2 N.eqb bsa bsb) eqn:Q; trivial. apply list_eq2_N_eq in Q.
      apply Nlist_cmp_eq in Q. congruence.
Qed.

Lemma vcmp_flat a b : (is_array a && is_array b = false) -> (is_map a && is_map b = false) ->
  vcmp a b = match vpcmp a b with Some r => r | None => N.compare (rank a) (rank b) end.
Proof. destruct a, b; cbn; intros; try discriminate; reflexivity. Qed.

Lemma sk_not_container a x : sk a = Some x -> is_array a = false /\ is_map a = false.
Proof. destruct a; cbn; intros; try discriminate; auto. Qed.

Lemma vcmp_sk a b x y : wf a -> wf b -> sk a = Some x -> sk b = Some y -> vcmp a b = scmp x y.
Proof.
  intros Wa Wb Ha Hb.
  destruct (sk_not_container _ _ Ha) as [A1 A2].
  rewrite vcmp_flat by (rewrite ?A1, ?A2; reflexivity).
  rewrite (vpcmp_sk a b x y) by assumption.
  rewrite (rank_sk _ _ Ha), (rank_sk _ _ Hb).
  destruct (N.eqb (srank x) (srank y)) eqn:E; trivial.
  apply N.eqb_neq in E. symmetry. apply scmp_rank; trivial.
Qed.

(* ---- containers against anything of another kind *)
Lemma rank_arr_inv a l : rank a = rank (VArr l) -> exists l', a = VArr l'.
Proof.
  destruct a as [| |b|r z|f|s sf|l'|m|bs]; cbn; try discriminate; eauto.
  destruct r; discriminate.
Qed.
Lemma rank_map_inv a m : rank a = rank (VMap m) -> exists m', a = VMap m'.
Proof.
  destruct a as [| |b|r z|f|s sf|l'|m'|bs]; cbn; try discriminate; eauto.
  destruct r; discriminate.
Qed.

Lemma rank_int r z : rank (VInt r z) = value_type_order KF64.
Proof. destruct r; reflexivity. Qed.

(* different ranks: the rank decides, and the values are neither == nor partially comparable *)
Lemma diff_rank a b : wf a -> wf b -> rank a <> rank b ->
  vcmp a b = N.compare (rank a) (rank b) /\ veq a b = false /\ vpcmp a b = None.
Proof.
  intros Wa Wb Hr.
  destruct (sk a) as [x|] eqn:Ha, (sk b) as [y|] eqn:Hb.
  - rewrite (vcmp_sk a b x y), (veq_sk a b x y), (vpcmp_sk a b x y) by assumption.
    rewrite (rank_sk _ _ Ha), (rank_sk _ _ Hb) in *.
    rewrite scmp_rank by assumption.
    apply N.eqb_neq in Hr. rewrite Hr. apply N.eqb_neq in Hr.
    destruct (N.compare_spec (srank x) (srank y)); try contradiction; auto.
  - destruct a as [| |ba|ra za|fa|sa sfa|la|ma|bsa], b as [| |bb|rb zb|fb|sb sfb|lb|mb|bsb];
      cbn in Ha, Hb; try discriminate; try (destruct ra); cbn; auto.
  - destruct a as [| |ba|ra za|fa|sa sfa|la|ma|bsa], b as [| |bb|rb zb|fb|sb sfb|lb|mb|bsb];
      cbn in Ha, Hb; try discriminate; try (destruct rb); cbn; auto.
  - destruct a as [| |ba|ra za|fa|sa sfa|la|ma|bsa], b as [| |bb|rb zb|fb|sb sfb|lb|mb|bsb];
      cbn in Ha, Hb; try discriminate; cbn in Hr; try (exfalso; apply Hr; reflexivity); cbn; auto.
Qed.

(* ================================================================== the order on all values *)
Definition thn (k v : comparison) : comparison := match k with Eq => v | r => r end.

Lemma thn_tr k1 k2 k3 v1 v2 v3 : tr k1 k2 k3 -> tr v1 v2 v3 -> tr (thn k1 v1) (thn k2 v2) (thn k3 v3).
Proof. destruct k1, k2, k3, v1, v2, v3; cbn; intros; trivial; congruence. Qed.

Lemma entry_cmp_thn {X Y} (vc : X -> Y -> comparison) x y :
  entry_cmp vc x y = thn (key_cmp (fst x) (fst y)) (vc (snd x) (snd y)).
Proof. unfold entry_cmp, thn. destruct (key_cmp (fst x) (fst y)); reflexivity. Qed.

(* maps compare as their key-sorted entry lists *)
Lemma vcmp_map m m' : vcmp (VMap m) (VMap m') = list_cmp (entry_cmp vcmp) (ksort m) (ksort m').
Proof.
  change (vcmp (VMap m) (VMap m')) with
    (list_cmp (entry_cmp (fun (f : value -> comparison) (y : value) => f y))
       (ksort (map (fun kv : key * value => (fst kv, vcmp (snd kv))) m)) (ksort m')).
  rewrite (ksort_map vcmp m), list_cmp_map_l. apply list_cmp_ext. reflexivity.
Qed.

Lemma vcmp_arr l l' : vcmp (VArr l) (VArr l') = list_cmp vcmp l l'.
Proof. reflexivity. Qed.

Definition laws (a : value) : Prop :=
  wf a -> forall b, wf b ->
    vcmp b a = CompOpp (vcmp a b) /\
    (vcmp a b = Eq <-> veq a b = true) /\
    (forall d, wf d -> tr (vcmp a b) (vcmp b d) (vcmp a d)).

Lemma laws_diff_rank a b : wf a -> wf b -> rank a <> rank b ->
  vcmp b a = CompOpp (vcmp a b) /\ (vcmp a b = Eq <-> veq a b = true).
Proof.
  intros Wa Wb Hr.
  destruct (diff_rank a b Wa Wb Hr) as [E1 [E2 _]].
  destruct (diff_rank b a Wb Wa (not_eq_sym Hr)) as [E3 _].
  rewrite E1, E2, E3. split.
  - apply N.compare_antisym.
  - split; try discriminate. intros Q. apply N.compare_eq_iff in Q. contradiction.
Qed.

Lemma sk_same_rank a b x : sk a = Some x -> rank a = rank b -> exists y, sk b = Some y.
Proof.
  intros Ha Hr. destruct (sk b) as [y|] eqn:Hb; eauto. exfalso.
  destruct b as [| |bb|rb zb|fb|sb sfb|lb|mb|bsb]; cbn in Hb; try discriminate.
  - destruct (rank_arr_inv _ _ Hr) as [l' ->]. discriminate.
  - destruct (rank_map_inv _ _ Hr) as [m' ->]. discriminate.
Qed.

Lemma laws_scalar a x : sk a = Some x -> laws a.
Proof.
  intros Ha Wa b Wb.
  assert (OE : vcmp b a = CompOpp (vcmp a b) /\ (vcmp a b = Eq <-> veq a b = true)).
  { destruct (N.eq_dec (rank a) (rank b)) as [e|n]; [|apply laws_diff_rank; trivial].
    destruct (sk_same_rank _ _ _ Ha e) as [y Hb].
    rewrite (vcmp_sk a b x y), (vcmp_sk b a y x), (veq_sk a b x y) by assumption. split.
    - apply scmp_opp.
    - destruct (scmp x y); split; congruence. }
  destruct OE as [O E]. repeat split; try apply E; trivial.
  intros d Wd. apply (lex_tr rank vcmp).
  - intros n. apply (diff_rank a b); trivial.
  - intros n. apply (diff_rank b d); trivial.
  - intros n. apply (diff_rank a d); trivial.
  - intros e1 e2.
    destruct (sk_same_rank _ _ _ Ha e1) as [y Hb].
    destruct (sk_same_rank _ _ _ Hb e2) as [z Hd].
    rewrite (vcmp_sk a b x y), (vcmp_sk b d y z), (vcmp_sk a d x z) by assumption.
    apply scmp_tr.
Qed.

Lemma Forall2_len {A B} (R : A -> B -> Prop) l l' : Forall2 R l l' -> length l = length l'.
Proof. induction 1; cbn; congruence. Qed.

Lemma Forall2_impl_in {A B} (R R' : A -> B -> Prop) l l' :
  (forall x y, In x l -> In y l' -> R x y -> R' x y) -> Forall2 R l l' -> Forall2 R' l l'.
Proof.
  intros H F. induction F as [|x y t t' Hxy Ht IH]; constructor.
  - apply H; cbn; auto.
  - apply IH. intros; apply H; cbn; auto.
Qed.

Lemma laws_arr l : Forall laws l -> laws (VArr l).
Proof.
  intros IH Wa b Wb. apply wf_arr in Wa.
  assert (IH' : forall x, In x l -> forall y, wf y ->
            vcmp y x = CompOpp (vcmp x y) /\ (vcmp x y = Eq <-> veq x y = true) /\
            (forall d, wf d -> tr (vcmp x y) (vcmp y d) (vcmp x d))).
  { rewrite Forall_forall in IH, Wa. intros x Hx. apply (IH x Hx). apply Wa; trivial. }
  assert (OE : vcmp b (VArr l) = CompOpp (vcmp (VArr l) b) /\
               (vcmp (VArr l) b = Eq <-> veq (VArr l) b = true)).
  { destruct (N.eq_dec (rank (VArr l)) (rank b)) as [e|n];
      [|apply laws_diff_rank; trivial; apply wf_arr; trivial].
    destruct (rank_arr_inv _ _ (eq_sym e)) as [l' ->]. apply wf_arr in Wb.
    rewrite !vcmp_arr. split.
    - apply (list_cmp_opp wf); trivial.
      apply Forall_forall. intros x Hx y Wy. apply (IH' x Hx y Wy).
    - cbn [veq]. apply (list_cmp_eq_iff wf); trivial.
      apply Forall_forall. intros x Hx y Wy. apply (IH' x Hx y Wy). }
  destruct OE as [O E]. repeat split; try apply E; trivial.
  intros d Wd. apply (lex_tr rank vcmp).
  - intros n. apply (diff_rank (VArr l) b); trivial. apply wf_arr; trivial.
  - intros n. apply (diff_rank b d); trivial.
  - intros n. apply (diff_rank (VArr l) d); trivial. apply wf_arr; trivial.
  - intros e1 e2.
    destruct (rank_arr_inv _ _ (eq_sym e1)) as [l' ->].
    destruct (rank_arr_inv _ _ (eq_sym e2)) as [l'' ->].
    apply wf_arr in Wb, Wd. rewrite !vcmp_arr.
    apply (list_cmp_tr wf); trivial.
    apply Forall_forall. intros x Hx y z Wy Wz. apply (IH' x Hx y Wy); trivial.
Qed.

(* entries of well-formed maps *)
Definition ewf (x : key * value) : Prop := key_wf (fst x) = true /\ wf (snd x).

Lemma ewf_of_map m : kwf m -> Forall (fun x => wf (snd x)) m -> Forall ewf (ksort m).
Proof.
  unfold kwf. rewrite !Forall_forall. intros H1 H2 x Hx.
  apply (Permutation_in _ (ksort_perm m)) in Hx. split; auto.
Qed.

Lemma laws_map m : Forall (fun kv => laws (snd kv)) m -> laws (VMap m).
Proof.
  intros IH Wa b Wb. pose proof Wa as Wa0. apply wf_map in Wa as [Kw [Kd Vw]].
  assert (IH' : forall x, In x (ksort m) -> forall y, wf y ->
            vcmp y (snd x) = CompOpp (vcmp (snd x) y) /\ (vcmp (snd x) y = Eq <-> veq (snd x) y = true) /\
            (forall d, wf d -> tr (vcmp (snd x) y) (vcmp y d) (vcmp (snd x) d))).
  { rewrite Forall_forall in IH, Vw. intros x Hx.
    apply (Permutation_in _ (ksort_perm m)) in Hx. apply (IH x Hx). apply Vw; trivial. }
  pose proof (ewf_of_map m Kw Vw) as Em.
  assert (OE : vcmp b (VMap m) = CompOpp (vcmp (VMap m) b) /\
               (vcmp (VMap m) b = Eq <-> veq (VMap m) b = true)).
  { destruct (N.eq_dec (rank (VMap m)) (rank b)) as [e|n]; [|apply laws_diff_rank; trivial].
    destruct (rank_map_inv _ _ (eq_sym e)) as [m' ->].
    apply wf_map in Wb as [Kw' [Kd' Vw']]. pose proof (ewf_of_map m' Kw' Vw') as Em'.
    rewrite !vcmp_map. split.
    - apply (list_cmp_opp ewf); trivial.
      apply Forall_forall. intros x Hx y [Ky Wy].
      rewrite Forall_forall in Em. destruct (Em x Hx) as [Kx Wx].
      rewrite !entry_cmp_thn. rewrite (key_cmp_norm (fst y) (fst x)), (key_cmp_norm (fst x) (fst y)) by assumption.
      rewrite (nkey_cmp_opp (key_norm (fst x)) (key_norm (fst y))).
      destruct (IH' x Hx (snd y) Wy) as [O _]. rewrite O.
      destruct (nkey_cmp (key_norm (fst x)) (key_norm (fst y))); reflexivity.
    - rewrite list_cmp_Eq_Forall2. cbn [veq]. rewrite andb_true_iff, Nat.eqb_eq, all_b_Forall.
      split.
      + (* sorted entry lists agree => same length and every entry found *)
        intros F.
        assert (F' : Forall2 (fun x y => K x = K y /\ veq (snd x) (snd y) = true) (ksort m) (ksort m')).
        { revert F. apply Forall2_impl_in. intros x y Hx Hy Q.
          rewrite Forall_forall in Em, Em'. destruct (Em x Hx) as [Kx Wx]. destruct (Em' y Hy) as [Ky Wy].
          rewrite entry_cmp_thn, key_cmp_norm in Q by assumption. fold (K x) (K y) in Q.
          destruct (nkey_cmp (K x) (K y)) eqn:C; cbn in Q; try discriminate.
          apply nkey_cmp_eq in C. split; trivial. apply (IH' x Hx (snd y) Wy); trivial. }
        split.
        * rewrite <- (Permutation_length (ksort_perm m)), <- (Permutation_length (ksort_perm m')).
          eapply Forall2_len; eauto.
        * apply Forall_forall. intros x Hx.
          apply (Permutation_in _ (Permutation_sym (ksort_perm m))) in Hx.
          destruct (Forall2_in_l _ _ _ _ F' Hx) as [y [Hy [Q1 Q2]]].
          apply (Permutation_in _ (ksort_perm m')) in Hy.
          rewrite Forall_forall in Em. destruct (Em x Hx) as [Kx Wx].
          pose proof Kw' as Kw''. unfold kwf in Kw''. rewrite Forall_forall in Kw''. pose proof (Kw'' y Hy) as Ky.
          rewrite (map_get_unique m' (fst x) (fst y) (snd y)); trivial.
          -- destruct y; trivial.
          -- apply key_eq_norm; trivial. symmetry. exact Q1.
      + (* every entry found and same length => sorted entry lists agree *)
        intros [Len All]. rewrite Forall_forall in All.
        assert (H1 : forall x, In x m -> exists y, In y m' /\ K x = K y /\ veq (snd x) (snd y) = true).
        { intros x Hx. specialize (All x Hx).
          destruct (map_get m' (fst x)) as [v'|] eqn:G; try discriminate.
          destruct (map_get_some _ _ _ G) as [k' [Hin Hke]].
          exists (k', v'). split; trivial. split; trivial.
          unfold kwf in Kw, Kw'. rewrite Forall_forall in Kw, Kw'.
          unfold K; cbn. symmetry. apply key_eq_norm; trivial.
          apply (Kw' (k', v')); trivial. apply Kw; trivial. }
        assert (H2 : forall y, In y m' -> exists x, In x m /\ K x = K y).
        { assert (I : incl (map K m') (map K m)).
          { apply NoDup_length_incl; trivial.
            - rewrite !map_length. lia.
            - intros k Hk. apply in_map_iff in Hk as [x [<- Hx]].
              destruct (H1 x Hx) as [y [Hy [Q _]]]. rewrite Q. apply in_map; trivial. }
          intros y Hy. specialize (I (K y) (in_map K _ _ Hy)).
          apply in_map_iff in I as [x [Q Hx]]. eauto. }
        assert (F : Forall2 (fun x y => K x = K y /\ veq (snd x) (snd y) = true) (ksort m) (ksort m')).
        { apply (sorted_match (fun v v' : value => veq v v' = true)); try (apply ksort_sorted; trivial).
          - intros x Hx. apply (Permutation_in _ (ksort_perm m)) in Hx.
            destruct (H1 x Hx) as [y [Hy Q]]. exists y. split; trivial.
            apply (Permutation_in _ (Permutation_sym (ksort_perm m'))); trivial.
          - intros y Hy. apply (Permutation_in _ (ksort_perm m')) in Hy.
            destruct (H2 y Hy) as [x [Hx Q]]. exists x. split; trivial.
            apply (Permutation_in _ (Permutation_sym (ksort_perm m))); trivial. }
        revert F. apply Forall2_impl_in. intros x y Hx Hy [Q1 Q2].
        rewrite Forall_forall in Em, Em'. destruct (Em x Hx) as [Kx Wx]. destruct (Em' y Hy) as [Ky Wy].
        rewrite entry_cmp_thn, key_cmp_norm by assumption. fold (K x) (K y).
        rewrite Q1, nkey_cmp_refl. cbn. apply (IH' x Hx (snd y) Wy); trivial. }
  destruct OE as [O E]. repeat split; try apply E; trivial.
  intros d Wd. apply (lex_tr rank vcmp).
  - intros n. apply (diff_rank (VMap m) b); trivial.
  - intros n. apply (diff_rank b d); trivial.
  - intros n. apply (diff_rank (VMap m) d); trivial.
  - intros e1 e2.
    destruct (rank_map_inv _ _ (eq_sym e1)) as [m' ->].
    destruct (rank_map_inv _ _ (eq_sym e2)) as [m'' ->].
    apply wf_map in Wb as [Kw' [Kd' Vw']]. apply wf_map in Wd as [Kw'' [Kd'' Vw'']].
    rewrite !vcmp_map.
    apply (list_cmp_tr ewf); try (apply ewf_of_map; trivial).
    apply Forall_forall. intros x Hx y z [Ky Wy] [Kz Wz].
    rewrite Forall_forall in Em. destruct (Em x Hx) as [Kx Wx].
    rewrite !entry_cmp_thn. apply thn_tr.
    + rewrite !key_cmp_norm by assumption. apply nkey_cmp_tr.
    + apply (IH' x Hx (snd y) Wy); trivial.
Qed.

Theorem vcmp_laws : forall a, laws a.
Proof.
  apply value_ind'; intros.
  - apply (laws_scalar _ SUndef); reflexivity.
  - apply (laws_scalar _ SNone); reflexivity.
  - apply (laws_scalar _ (SBool b)); reflexivity.
  - apply (laws_scalar _ (SNum (FFin z 0))); reflexivity.
  - apply (laws_scalar _ (SNum (fcls_of f))); reflexivity.
  - apply (laws_scalar _ (SStr s)); reflexivity.
  - apply laws_arr; trivial.
  - apply laws_map; trivial.
  - apply (laws_scalar _ (SBytes b)); reflexivity.
Qed.

(* ================================================================== headline statements *)
Lemma vcmp_opp a b : wf a -> wf b -> vcmp b a = CompOpp (vcmp a b).
Proof. intros Wa Wb. apply (vcmp_laws a Wa b Wb). Qed.

Lemma vcmp_eq_iff a b : wf a -> wf b -> (vcmp a b = Eq <-> veq a b = true).
Proof. intros Wa Wb. apply (vcmp_laws a Wa b Wb). Qed.

Lemma vcmp_tr a b d : wf a -> wf b -> wf d -> tr (vcmp a b) (vcmp b d) (vcmp a d).
Proof. intros Wa Wb Wd. apply (vcmp_laws a Wa b Wb); trivial. Qed.

Lemma vcmp_refl a : wf a -> vcmp a a = Eq.
Proof. intros Wa. pose proof (vcmp_opp a a Wa Wa) as H. destruct (vcmp a a); trivial; discriminate. Qed.

Definition vle (a b : value) : Prop := vcmp a b <> Gt.

Theorem veq_equivalence :
  (forall a, wf a -> veq a a = true) /\
  (forall a b, wf a -> wf b -> veq a b = true -> veq b a = true) /\
  (forall a b c, wf a -> wf b -> wf c -> veq a b = true -> veq b c = true -> veq a c = true).
Proof.
  split; [|split].
  - intros a Wa. apply vcmp_eq_iff; trivial. apply vcmp_refl; trivial.
  - intros a b Wa Wb H. apply vcmp_eq_iff in H; trivial. apply vcmp_eq_iff; trivial.
    rewrite vcmp_opp, H; trivial.
  - intros a b c Wa Wb Wc H1 H2. apply vcmp_eq_iff in H1, H2; trivial. apply vcmp_eq_iff; trivial.
    pose proof (vcmp_tr a b c Wa Wb Wc) as T. rewrite H1, H2 in T. exact T.
Qed.

Theorem vcmp_total_order :
  (* total: the two directions are mirror images, so exactly one of <, =, > holds *)
  (forall a b, wf a -> wf b -> vcmp b a = CompOpp (vcmp a b)) /\
  (forall a b, wf a -> wf b -> vle a b \/ vle b a) /\
  (* transitive, strictly and weakly, and compatible with Equal on either side *)
  (forall a b c, wf a -> wf b -> wf c -> vcmp a b = Lt -> vcmp b c = Lt -> vcmp a c = Lt) /\
  (forall a b c, wf a -> wf b -> wf c -> vle a b -> vle b c -> vle a c) /\
  (forall a b c, wf a -> wf b -> wf c -> vcmp a b = Eq -> vcmp a c = vcmp b c) /\
  (* antisymmetric up to ==, and Equal exactly when == *)
  (forall a b, wf a -> wf b -> vle a b -> vle b a -> veq a b = true) /\
  (forall a b, wf a -> wf b -> (vcmp a b = Eq <-> veq a b = true)).
Proof.
  split; [|split; [|split; [|split; [|split; [|split]]]]].
  - apply vcmp_opp.
  - intros a b Wa Wb. unfold vle. rewrite (vcmp_opp a b Wa Wb).
    destruct (vcmp a b); cbn; [left|left|right]; discriminate.
  - intros a b c Wa Wb Wc H1 H2. pose proof (vcmp_tr a b c Wa Wb Wc) as T. rewrite H1, H2 in T. exact T.
  - intros a b c Wa Wb Wc. unfold vle. intros H1 H2.
    pose proof (vcmp_tr a b c Wa Wb Wc) as T.
    destruct (vcmp a b), (vcmp b c); cbn in T; try congruence.
  - intros a b c Wa Wb Wc H. pose proof (vcmp_tr a b c Wa Wb Wc) as T. rewrite H in T. exact T.
  - intros a b Wa Wb. unfold vle. rewrite (vcmp_opp a b Wa Wb). intros H1 H2.
    apply vcmp_eq_iff; trivial. destruct (vcmp a b); cbn in *; congruence.
  - intros a b Wa Wb. apply vcmp_eq_iff; trivial.
Qed.

(* the unrepaired Ord impl (before fixes/D2-total-order.patch) is not a lawful order *)
Definition d2_m1 := VMap [(KStr [97%N] true, VInt U64 1)].
Definition d2_m2 := VMap [(KStr [97%N] true, VInt U64 2)].
Definition d2_a1 := VArr [VInt U64 1; VStr [97%N] false].
Definition d2_a2 := VArr [VInt U64 1; VBool true].
Definition d2_a3 := VArr [VInt U64 1; VStr [98%N] false].

Lemma vcmp_unfixed_refuted :
  (exists a b, wf a /\ wf b /\ vcmp_unfixed a b = Eq /\ veq a b = false) /\
  (exists a b c, wf a /\ wf b /\ wf c /\
     vcmp_unfixed a b = Eq /\ vcmp_unfixed b c = Eq /\ vcmp_unfixed a c = Lt).
Proof.
  split.
  - exists d2_m1, d2_m2. repeat split; vm_compute; reflexivity.
  - exists d2_a1, d2_a2, d2_a3. repeat split; vm_compute; reflexivity.
Qed.

(* `<` of templates (partial_cmp) agrees with the total order wherever it is defined, and is
   defined exactly on ==-comparable material *)
Lemma vpcmp_some_vcmp : forall a, wf a -> forall b, wf b -> forall r, vpcmp a b = Some r -> vcmp a b = r.
Proof.
  apply (value_ind' (fun a => wf a -> forall b, wf b -> forall r, vpcmp a b = Some r -> vcmp a b = r)).
  1-6, 9: intros; rewrite vcmp_flat by reflexivity;
    match goal with H : vpcmp _ _ = Some _ |- _ => rewrite H end; reflexivity.
  - intros l IH Wa b Wb r H. destruct b as [| |bb|rb zb|fb|sb sfb|l'|mb|bsb]; try (cbn in H; discriminate H).
    rewrite vcmp_arr. cbn [vpcmp] in H. apply wf_arr in Wa, Wb.
    revert l' Wb r H. induction l as [|x t IHt]; intros l' Wl' r H; destruct l' as [|y t']; cbn in *;
      try (inversion H; reflexivity).
    inversion IH as [|? ? Hx Ht]; subst. inversion Wa; subst. inversion Wl'; subst.
    destruct (vpcmp x y) as [[]|] eqn:E; try discriminate.
    + rewrite (Hx ltac:(assumption) y ltac:(assumption) Eq E). apply IHt; trivial.
    + rewrite (Hx ltac:(assumption) y ltac:(assumption) Lt E). inversion H; reflexivity.
    + rewrite (Hx ltac:(assumption) y ltac:(assumption) Gt E). inversion H; reflexivity.
  - intros m IH Wa b Wb r H. destruct b; cbn in H; discriminate.
Qed.

(* ================================================================== lookups *)
Lemma attr_scan_eq_hash m attr : attr_scan m attr = attr_hash m attr.
Proof.
  unfold attr_hash. induction m as [|[k v] t IH]; cbn; trivial.
  destruct k as [b|r z|s o]; cbn.
  - exact IH.
  - destruct r; exact IH.
  - unfold str_eqb in *. destruct (list_eqb N.eqb s attr); trivial.
Qed.

Lemma get_attr_spec v attr :
  get_attr v attr = match v with VMap m => map_get m (KStr attr false) | _ => None end.
Proof.
  destruct v; trivial. unfold get_attr.
  destruct (Nat.leb (length m) attr_scan_cutoff); trivial. apply attr_scan_eq_hash.
Qed.

Lemma map_get_spec {V} (m : list (key * V)) k v : kwf m -> kdist m -> key_wf k = true ->
  (map_get m k = Some v <-> exists k', In (k', v) m /\ key_norm k' = key_norm k).
Proof.
  intros Kw Kd Hk. split.
  - intros H. destruct (map_get_some _ _ _ H) as [k' [Hin Hke]]. exists k'. split; trivial.
    apply key_eq_norm; trivial. unfold kwf in Kw. rewrite Forall_forall in Kw. apply (Kw (k', v)); trivial.
  - intros [k' [Hin Hn]]. apply (map_get_unique m k k' v); trivial.
    apply key_eq_norm; trivial. unfold kwf in Kw. rewrite Forall_forall in Kw. apply (Kw (k', v)); trivial.
Qed.

Lemma map_get_found_iff {V} (m : list (key * V)) k : kwf m -> key_wf k = true ->
  (map_get m k <> None <-> In (key_norm k) (map K m)).
Proof.
  intros Kw Hk. unfold kwf in Kw. rewrite Forall_forall in Kw. split.
  - destruct (map_get m k) as [v|] eqn:G; try congruence. intros _.
    destruct (map_get_some _ _ _ G) as [k' [Hin Hke]].
    apply in_map_iff. exists (k', v). split; trivial. unfold K; cbn.
    apply key_eq_norm; trivial. apply (Kw (k', v)); trivial.
  - intros Hin. apply in_map_iff in Hin as [[k' v] [Q Hin]]. unfold K in Q; cbn in Q.
    destruct (map_get m k) eqn:G; try congruence.
    pose proof (map_get_none _ _ G k' v Hin) as F.
    assert (T : key_eq k' k = true) by (apply key_eq_norm; trivial; apply (Kw (k', v)); trivial).
    congruence.
Qed.

(* the iteration order of the HashMap is irrelevant *)
Lemma map_get_perm {V} (m m' : list (key * V)) k : kwf m -> kdist m -> key_wf k = true ->
  Permutation m m' -> map_get m k = map_get m' k.
Proof.
  intros Kw Kd Hk P.
  assert (Kw' : kwf m') by (unfold kwf in *; eapply Permutation_Forall; eauto).
  assert (Kd' : kdist m') by (unfold kdist in *; eapply Permutation_NoDup; [apply Permutation_map; eauto|trivial]).
  destruct (map_get m k) as [v|] eqn:G.
  - symmetry. apply map_get_spec; trivial. apply map_get_spec in G; trivial.
    destruct G as [k' [Hin Q]]. exists k'. split; trivial. eapply Permutation_in; eauto.
  - destruct (map_get m' k) as [v'|] eqn:G'; trivial.
    apply map_get_spec in G'; trivial. destruct G' as [k' [Hin Q]].
    apply (Permutation_in _ (Permutation_sym P)) in Hin.
    assert (S : map_get m k = Some v') by (apply map_get_spec; eauto). congruence.
Qed.

(* HashMap::insert *)
Lemma map_insert_get {V} (m : list (key * V)) k v k0 : kwf m -> key_wf k = true -> key_wf k0 = true ->
  map_get (map_insert m k v) k0 =
    if key_eq k k0 then Some v else map_get m k0.
Proof.
  intros Kw Hk Hk0. induction m as [|[k1 v1] t IH]; cbn.
  - reflexivity.
  - inversion Kw as [|? ? Hk1 Kt]; subst. cbn in Hk1.
    destruct (key_eq k1 k) eqn:E1; cbn.
    + (* replaced *)
      assert (Q : key_eq k1 k0 = key_eq k k0).
      { apply key_eq_norm in E1; trivial.
        destruct (key_eq k1 k0) eqn:A, (key_eq k k0) eqn:B; trivial.
        - apply key_eq_norm in A; trivial. rewrite E1 in A. apply key_eq_norm in A; trivial. congruence.
        - apply key_eq_norm in B; trivial. rewrite <- E1 in B. apply key_eq_norm in B; trivial. congruence. }
      rewrite Q. destruct (key_eq k k0) eqn:B; trivial.
    + destruct (key_eq k1 k0) eqn:A.
      * destruct (key_eq k k0) eqn:B; trivial. exfalso.
        apply key_eq_norm in A; trivial. apply key_eq_norm in B; trivial.
        assert (C : key_eq k1 k = true) by (apply key_eq_norm; trivial; congruence). congruence.
      * apply IH; trivial.
Qed.

Lemma map_insert_keys {V} (m : list (key * V)) k v n : kwf m -> key_wf k = true ->
  (In n (map K (map_insert m k v)) <-> n = key_norm k \/ In n (map K m)).
Proof.
  unfold kwf. intros Kw Hk. induction m as [|[k1 v1] t IH]; cbn.
  - unfold K; cbn. split; [intros [<-|[]]; auto | intros [->|[]]; auto].
  - inversion Kw as [|? ? Hk1 Kt]; subst. cbn in Hk1.
    destruct (key_eq k1 k) eqn:E1; cbn; unfold K at 1; cbn.
    + apply key_eq_norm in E1; trivial. unfold K at 2; cbn. intuition congruence.
    + rewrite (IH Kt). unfold K at 2; cbn. intuition congruence.
Qed.

Lemma map_insert_inv {V} (m : list (key * V)) k v : kwf m -> kdist m -> key_wf k = true ->
  kwf (map_insert m k v) /\ kdist (map_insert m k v).
Proof.
  unfold kwf, kdist. intros Kw Kd Hk. induction m as [|[k1 v1] t IH]; cbn.
  - split; repeat constructor; trivial. intros [].
  - inversion Kw as [|? ? Hk1 Kt]; subst. inversion Kd as [|? ? Hnin Kd']; subst. cbn in Hk1.
    destruct (key_eq k1 k) eqn:E1.
    + split; cbn; constructor; trivial.
    + destruct (IH Kt Kd') as [I1 I2]. split; cbn; constructor; trivial.
      intros Q. apply map_insert_keys in Q; trivial. destruct Q as [Q|Q]; try contradiction.
      unfold K in Q; cbn in Q.
      assert (C : key_eq k1 k = true) by (apply key_eq_norm; trivial). congruence.
Qed.

(* a map built by a sequence of inserts finds a key exactly when an equal key was inserted, and
   returns the last value inserted under an equal key *)
Definition assoc_last {V} (l : list (key * V)) (k : key) : option V :=
  fold_left (fun acc kv => if key_eq (fst kv) k then Some (snd kv) else acc) l None.

Lemma map_from_list_gen {V} (l : list (key * V)) : forall m k, kwf m -> kdist m -> kwf l -> key_wf k = true ->
  let m' := fold_left (fun m kv => map_insert m (fst kv) (snd kv)) l m in
  kwf m' /\ kdist m' /\
  map_get m' k = fold_left (fun acc kv => if key_eq (fst kv) k then Some (snd kv) else acc) l (map_get m k).
Proof.
  induction l as [|[k1 v1] t IH]; intros m k Kw Kd Kl Hk; cbn.
  - auto.
  - inversion Kl as [|? ? Hk1 Kt]; subst. cbn in Hk1.
    destruct (map_insert_inv m k1 v1 Kw Kd Hk1) as [I1 I2].
    destruct (IH (map_insert m k1 v1) k I1 I2 Kt Hk) as [J1 [J2 J3]].
    repeat split; trivial. cbn in J3. rewrite J3. rewrite map_insert_get; trivial.
Qed.

Lemma map_from_list_spec {V} (l : list (key * V)) k : kwf l -> key_wf k = true ->
  kwf (map_from_list l) /\ kdist (map_from_list l) /\
  map_get (map_from_list l) k = assoc_last l k.
Proof.
  intros Kl Hk. apply (map_from_list_gen l [] k); trivial.
  - constructor. - constructor.
Qed.

Lemma assoc_last_found {V} (l : list (key * V)) k : kwf l -> key_wf k = true ->
  (assoc_last l k <> None <-> In (key_norm k) (map K l)).
Proof.
  intros Kl Hk. unfold assoc_last.
  assert (G : forall acc, fold_left (fun acc kv => if key_eq (fst kv) k then Some (snd kv) else acc) l acc <> None
                <-> (acc <> None \/ In (key_norm k) (map K l))).
  { induction l as [|[k1 v1] t IH]; intros acc; cbn.
    - tauto.
    - inversion Kl as [|? ? Hk1 Kt]; subst. cbn in Hk1. rewrite (IH Kt). unfold K at 2; cbn.
      destruct (key_eq k1 k) eqn:E.
      + apply key_eq_norm in E; trivial. split; auto. intros _. left. discriminate.
      + split; [intros [?|?]; auto | intros [?|[Q|?]]; auto].
        exfalso. assert (C : key_eq k1 k = true) by (apply key_eq_norm; trivial). congruence. }
  rewrite G. split; [intros [?|?]; trivial; congruence | auto].
Qed.

(* ================================================================== lookup_spec *)
Lemma as_key_wf item k : wf item -> as_key item = Some k -> key_wf k = true.
Proof. destruct item; cbn; intros W H; inversion H; subst; cbn; trivial. Qed.

Definition is_some {A} (o : option A) : bool := match o with Some _ => true | None => false end.

Theorem lookup_spec m item k : wf (VMap m) -> wf item -> as_key item = Some k ->
  (* an entry is found exactly when a key with the same normal form is stored *)
  (forall v, map_get m k = Some v <-> exists k', In (k', v) m /\ key_norm k' = key_norm k) /\
  (map_get m k <> None <-> In (key_norm k) (map K m)) /\
  (* m[k], `k in m`, `m is containing(pat=k)` *)
  get_item_map m item = ROk (match map_get m k with Some v => v | None => VUndef end) /\
  contains (VMap m) item = ROk (is_some (map_get m k)) /\
  test_containing (VMap m) item = ROk (is_some (map_get m k)) /\
  (* m.k and m | get(key=k) for string keys, whatever the size of the map *)
  (forall s f, item = VStr s f ->
     get_attr (VMap m) s = map_get m k /\
     forall d, filter_get m item d =
       match map_get m k with
       | Some v => ROk v
       | None => match d with Some x => ROk x | None => RErr ErrMsg end
       end).
Proof.
  intros Wm Wi Hk. apply wf_map in Wm as [Kw [Kd _]].
  pose proof (as_key_wf _ _ Wi Hk) as Kk.
  split; [|split; [|split; [|split; [|split]]]].
  - intros v. apply map_get_spec; trivial.
  - apply map_get_found_iff; trivial.
  - unfold get_item_map. rewrite Hk. reflexivity.
  - cbn. rewrite Hk. destruct (map_get m k); reflexivity.
  - cbn. rewrite Hk. destruct (map_get m k); reflexivity.
  - intros s f ->. cbn in Hk. inversion Hk; subst.
    assert (E : map_get m (KStr s false) = map_get m (KStr s true)) by (apply map_get_norm; trivial).
    split.
    + rewrite get_attr_spec. exact E.
    + intros d. cbn. rewrite E. reflexivity.
Qed.

(* not-a-key operands: m[x] is an error, `x in m` / containing are false *)
Lemma lookup_non_key m item : as_key item = None ->
  get_item_map m item = RErr ErrMsg /\ contains (VMap m) item = ROk false /\
  test_containing (VMap m) item = ROk false.
Proof. intros H. unfold get_item_map. cbn. rewrite H. auto. Qed.

Theorem key_norm_sound :
  (forall a b, key_wf a = true -> key_wf b = true -> (key_eq a b = true <-> key_norm a = key_norm b)) /\
  (forall a b, key_wf a = true -> key_wf b = true -> key_cmp b a = CompOpp (key_cmp a b)) /\
  (forall a b c, key_wf a = true -> key_wf b = true -> key_wf c = true ->
     tr (key_cmp a b) (key_cmp b c) (key_cmp a c)) /\
  (forall a b, key_wf a = true -> key_wf b = true -> (key_cmp a b = Eq <-> key_eq a b = true)) /\
  (forall a, key_wf a = true -> key_hash a = nkey_hash (key_norm a)) /\
  (forall a b, key_wf a = true -> key_wf b = true -> key_eq a b = true -> key_hash a = key_hash b).
Proof.
  split; [|split; [|split; [|split; [|split]]]].
  - apply key_eq_norm.
  - intros a b Ha Hb. rewrite !key_cmp_norm by assumption. apply nkey_cmp_opp.
  - intros a b c Ha Hb Hc. rewrite !key_cmp_norm by assumption. apply nkey_cmp_tr.
  - apply key_cmp_eq_iff.
  - apply key_hash_norm.
  - intros a b Ha Hb H. rewrite !key_hash_norm by assumption. apply key_eq_norm in H; trivial. congruence.
Qed.

(* the representation of a key never matters *)
Lemma key_norm_repr : (forall r r' z, key_norm (KInt r z) = key_norm (KInt r' z)) /\
                      (forall s o o', key_norm (KStr s o) = key_norm (KStr s o')).
Proof. split; reflexivity. Qed.

(* == is structural: arrays pointwise, maps entry-wise, strings ignore the safe mark *)
Lemma veq_structural :
  (forall s f f', veq (VStr s f) (VStr s f') = true) /\
  (forall l l', veq (VArr l) (VArr l') = true <-> Forall2 (fun x y => veq x y = true) l l') /\
  (forall m m', wf (VMap m) -> wf (VMap m') ->
     (veq (VMap m) (VMap m') = true <->
      length m = length m' /\
      forall k v, In (k, v) m -> exists k' v', In (k', v') m' /\ key_norm k' = key_norm k /\ veq v v' = true)).
Proof.
  split; [|split].
  - intros s f f'. cbn. apply list_eq2_N_eq. reflexivity.
  - intros l. cbn [veq]. induction l as [|x t IH]; destruct l' as [|y t']; cbn; split; intros H;
      try discriminate; try constructor; try (inversion H; fail).
    + apply andb_true_iff in H. tauto.
    + apply IH. apply andb_true_iff in H. tauto.
    + inversion H; subst. apply andb_true_iff. split; trivial. apply IH; trivial.
  - intros m m' Wm Wm'. apply wf_map in Wm as [Kw [Kd _]]. apply wf_map in Wm' as [Kw' [Kd' _]].
    cbn [veq]. rewrite andb_true_iff, Nat.eqb_eq, all_b_Forall, Forall_forall.
    unfold kwf in Kw. rewrite Forall_forall in Kw.
    split; intros [Len H]; split; trivial.
    + intros k v Hin. specialize (H (k, v) Hin). cbn in H.
      destruct (map_get m' k) as [v'|] eqn:G; try discriminate.
      apply map_get_spec in G; trivial; [|apply (Kw (k, v)); trivial].
      destruct G as [k' [Hin' Q]]. eauto.
    + intros [k v] Hin. cbn. destruct (H k v Hin) as [k' [v' [Hin' [Q E]]]].
      assert (G : map_get m' k = Some v').
      { apply map_get_spec; trivial. apply (Kw (k, v)); trivial. eauto. }
      rewrite G. exact E.
Qed.

(* `k in m` / containing decide by key presence alone: whatever value is stored under the key
   (an undefined or none value included) *)
Theorem in_map_iff_key_present m item k : wf (VMap m) -> wf item -> as_key item = Some k ->
  (contains (VMap m) item = ROk true <-> exists k' v, In (k', v) m /\ key_norm k' = key_norm k) /\
  (vm_in item (VMap m) = ROk (VBool true) <-> exists k' v, In (k', v) m /\ key_norm k' = key_norm k) /\
  (test_containing (VMap m) item = ROk true <-> exists k' v, In (k', v) m /\ key_norm k' = key_norm k) /\
  (forall k' v, In (k', v) m -> key_norm k' = key_norm k ->
     contains (VMap m) item = ROk true /\ get_item_map m item = ROk v).
Proof.
  intros Wm Wi Hk. pose proof Wm as Wm0. apply wf_map in Wm as [Kw [Kd _]].
  pose proof (as_key_wf _ _ Wi Hk) as Kk.
  assert (P : map_get m k <> None <-> exists k' v, In (k', v) m /\ key_norm k' = key_norm k).
  { split.
    - destruct (map_get m k) as [v|] eqn:G; [|congruence]. intros _.
      apply map_get_spec in G; trivial. destruct G as [k' [Hin Q]]. eauto.
    - intros [k' [v [Hin Q]]]. assert (G : map_get m k = Some v) by (apply map_get_spec; eauto).
      congruence. }
  assert (C : contains (VMap m) item = ROk true <-> map_get m k <> None).
  { cbn. rewrite Hk. destruct (map_get m k); split; congruence. }
  split; [rewrite C; exact P|]. split.
  - unfold vm_in. cbn [contains]. rewrite Hk. rewrite <- P.
    destruct (map_get m k); split; congruence.
  - split.
    + cbn. rewrite Hk. rewrite <- P. destruct (map_get m k); split; congruence.
    + intros k' v Hin Q. assert (G : map_get m k = Some v) by (apply map_get_spec; eauto).
      split.
      * apply C. congruence.
      * unfold get_item_map. rewrite Hk, G. reflexivity.
Qed.
