(* C01 — proofs. Part 1: cleanliness of strings/values and of the helper operations of the VM;
   part 2: the invariant through `run` (all instructions, nested runs by induction on fuel);
   part 3: the default escaper, format_value, World-level instances; part 4: provenance-style
   statements about the sinks and the mint points; part 5: autoescape flag by suffix. *)
From TeraV Require Import Model.Value Model.Instr Model.Slice Model.VFormat Model.VM Model.StackCheck Model.CapCheck
     Model.Taint Gen.Tables Gen.SafeTables.
Local Open Scope nat_scope.

(* ================================================================== part 1 *)

Section Basics.
  Variable ok : N -> bool.
  Notation clean := (clean ok).
  Notation vok := (vok ok).
  Notation ctx_ok := (ctx_ok ok).
  Notation kw_ok := (kw_ok ok).
  Notation pair_ok := (pair_ok ok).
  Notation lf_ok := (lf_ok ok).
  Notation scope_ok := (scope_ok ok).

  Lemma clean_app a b : clean (a ++ b) = clean a && clean b.
  Proof. apply forallb_app. Qed.

  Lemma clean_app_intro a b : clean a = true -> clean b = true -> clean (a ++ b) = true.
  Proof. intros Ha Hb. rewrite clean_app, Ha, Hb. reflexivity. Qed.

  Lemma forallb_incl {A} (f : A -> bool) (r s : list A) :
    incl r s -> forallb f s = true -> forallb f r = true.
  Proof.
    intros Hi Hs. apply forallb_forall. intros x Hx.
    rewrite forallb_forall in Hs. apply Hs, Hi, Hx.
  Qed.

  Lemma clean_incl r s : incl r s -> clean s = true -> clean r = true.
  Proof. apply forallb_incl. Qed.

  Lemma vok_arr l : vok (VArr l) = forallb vok l.
  Proof. induction l as [|x t IH]; [reflexivity|]. cbn in *. rewrite IH. reflexivity. Qed.

  Lemma vok_map m : vok (VMap m) = kw_ok m.
  Proof.
    induction m as [|[k x] t IH]; [reflexivity|]. cbn in *. unfold kw_ok in IH. rewrite IH. reflexivity.
  Qed.

  Lemma vok_str_unflagged s : vok (VStr s false) = true.
  Proof. reflexivity. Qed.

  Lemma vok_in l x : forallb vok l = true -> In x l -> vok x = true.
  Proof. intros H Hx. rewrite forallb_forall in H. apply H, Hx. Qed.

  Lemma nth_error_forallb {A} (f : A -> bool) l n x :
    forallb f l = true -> nth_error l n = Some x -> f x = true.
  Proof. intros H Hn. rewrite forallb_forall in H. apply H. eapply nth_error_In, Hn. Qed.

  (* ---------- contexts ---------- *)

  Lemma ctx_get_ok c n v : ctx_ok c = true -> ctx_get c n = Some v -> vok v = true.
  Proof.
    induction c as [|[k x] t IH]; cbn; [discriminate|].
    intros H. apply andb_prop in H. destruct H as [Hx Ht].
    destruct (str_eqb k n); [intros E; inversion E; subst; exact Hx|apply IH, Ht].
  Qed.

  Lemma ctx_set_ok c n v : ctx_ok c = true -> vok v = true -> ctx_ok (ctx_set c n v) = true.
  Proof.
    intros Hc Hv. unfold ctx_set. cbn. rewrite Hv. cbn.
    apply forallb_incl with (s := c); [|exact Hc]. intros x Hx. apply filter_In in Hx. tauto.
  Qed.

  Lemma ctx_add_ok acc c :
    ctx_ok acc = true -> ctx_ok c = true ->
    ctx_ok (fold_left (fun a kv => ctx_set a (fst kv) (snd kv)) c acc) = true.
  Proof.
    revert acc. induction c as [|[k x] t IH]; intros acc Ha Hc; [exact Ha|].
    cbn in Hc. apply andb_prop in Hc. destruct Hc as [Hx Ht].
    cbn [fold_left]. apply IH; [|exact Ht]. apply ctx_set_ok; assumption.
  Qed.

  Lemma ctx_ok_rev c : ctx_ok c = true -> ctx_ok (rev c) = true.
  Proof. intros H. eapply forallb_incl; [|exact H]. intros x Hx. apply in_rev, Hx. Qed.

  (* ---------- loop frames ---------- *)

  Lemma lf_ok_parts f :
    lf_ok f = true <->
    forallb pair_ok (lf_rest f) = true /\ ctx_ok (lf_context f) = true /\ pair_ok (lf_current f) = true.
  Proof.
    unfold lf_ok. rewrite !andb_true_iff. tauto.
  Qed.

  Lemma lf_get_ok f n v : lf_ok f = true -> lf_get f n = Some v -> vok v = true.
  Proof.
    intros Hf. apply lf_ok_parts in Hf. destruct Hf as (Hr & Hc & Hcur).
    unfold pair_ok in Hcur. apply andb_prop in Hcur. destruct Hcur as [Hk Hv].
    unfold lf_get.
    destruct (lf_is_comp f).
    - destruct (ctx_get (lf_context f) n) eqn:E.
      + intros X; inversion X; subst. eapply ctx_get_ok; eassumption.
      + destruct (str_eqb (lf_value_name f) n); [intros X; inversion X; subst; exact Hv|].
        destruct (lf_key_name f) as [k|]; [|discriminate].
        destruct (str_eqb k n); [|discriminate]. intros X; inversion X; subst.
        destruct (fst (lf_current f)); [exact Hk|reflexivity].
    - destruct (str_eqb n s_loop_index); [intros X; inversion X; reflexivity|].
      destruct (str_eqb n s_loop_index0); [intros X; inversion X; reflexivity|].
      destruct (str_eqb n s_loop_first); [intros X; inversion X; reflexivity|].
      destruct (str_eqb n s_loop_last); [intros X; inversion X; reflexivity|].
      destruct (str_eqb n s_loop_length); [intros X; inversion X; reflexivity|].
      destruct (ctx_get (lf_context f) n) eqn:E.
      + intros X; inversion X; subst. eapply ctx_get_ok; eassumption.
      + destruct (str_eqb (lf_value_name f) n); [intros X; inversion X; subst; exact Hv|].
        destruct (lf_key_name f) as [k|]; [|discriminate].
        destruct (str_eqb k n); [|discriminate]. intros X; inversion X; subst.
        destruct (fst (lf_current f)); [exact Hk|reflexivity].
  Qed.

  Lemma loops_get_ok ls n v : forallb lf_ok ls = true -> loops_get ls n = Some v -> vok v = true.
  Proof.
    induction ls as [|f t IH]; cbn; [discriminate|].
    intros H. apply andb_prop in H. destruct H as [Hf Ht].
    destruct (lf_get f n) eqn:E; [intros X; inversion X; subst; eapply lf_get_ok; eassumption|apply IH, Ht].
  Qed.

  Lemma lf_store_local_ok f n : lf_ok f = true -> lf_ok (lf_store_local f n) = true.
  Proof.
    intros H. unfold lf_store_local.
    destruct (lf_key_name f); [exact H|]. destruct (lf_value_name f); exact H.
  Qed.

  Lemma lf_advance_ok f e : lf_ok f = true -> lf_ok (lf_advance f e) = true.
  Proof.
    intros H. apply lf_ok_parts in H. destruct H as (Hr & Hc & Hcur).
    unfold lf_advance. destruct (lf_rest f) as [|kv rest] eqn:E.
    - apply lf_ok_parts. cbn. auto.
    - cbn in Hr. apply andb_prop in Hr. destruct Hr as [Hkv Hrest].
      apply lf_ok_parts. cbn. repeat split; try assumption.
      destruct (negb (Nat.eqb (lf_end_ip f) 0)); [reflexivity|exact Hc].
  Qed.

  Lemma lf_store_ok f n v : lf_ok f = true -> vok v = true -> lf_ok (lf_store f n v) = true.
  Proof.
    intros H Hv. apply lf_ok_parts in H. destruct H as (Hr & Hc & Hcur).
    apply lf_ok_parts. cbn. repeat split; try assumption. apply ctx_set_ok; assumption.
  Qed.

  Lemma new_loop_ok items comp : forallb pair_ok items = true -> lf_ok (new_loop items comp) = true.
  Proof. intros H. apply lf_ok_parts. cbn. auto. Qed.

  Lemma iter_items_ok v items : vok v = true -> iter_items v = Some items -> forallb pair_ok items = true.
  Proof.
    intros Hv. destruct v; cbn; try discriminate; intros X; inversion X; subst; clear X.
    - apply forallb_forall. intros p Hp. apply in_map_iff in Hp. destruct Hp as (c & <- & _). reflexivity.
    - rewrite vok_arr in Hv. apply forallb_forall. intros p Hp. apply in_map_iff in Hp.
      destruct Hp as (x & <- & Hx). unfold pair_ok. cbn. eapply vok_in; eassumption.
    - rewrite vok_map in Hv. apply forallb_forall. intros p Hp. apply in_map_iff in Hp.
      destruct Hp as ([k x] & <- & Hx). unfold pair_ok. cbn.
      unfold kw_ok in Hv. rewrite forallb_forall in Hv. specialize (Hv _ Hx). cbn in Hv. rewrite Hv.
      destruct k; reflexivity.
    - apply forallb_forall. intros p Hp. apply in_map_iff in Hp. destruct Hp as (c & <- & _). reflexivity.
  Qed.

  (* ---------- scopes ---------- *)

  Lemma scope_get_ok : forall sc n, scope_ok sc = true -> vok (scope_get sc n) = true.
  Proof.
    fix IH 1. intros [loops setvars parent context global] n H.
    cbn [scope_ok] in H. rewrite !andb_true_iff in H. destruct H as ((((Hl & Hs) & Hp) & Hc) & Hg).
    cbn [scope_get].
    destruct (loops_get loops n) eqn:E1; [eapply loops_get_ok; eassumption|].
    destruct (ctx_get setvars n) eqn:E2; [eapply ctx_get_ok; [exact Hs|exact E2]|].
    assert (Hfp : vok (match parent with Some p => scope_get p n | None => VUndef end) = true).
    { destruct parent as [p|]; [apply IH, Hp|reflexivity]. }
    destruct (negb (is_undefined (match parent with Some p => scope_get p n | None => VUndef end))); [exact Hfp|].
    destruct (ctx_get context n) eqn:E3; [eapply ctx_get_ok; [exact Hc|exact E3]|].
    destruct global as [g|]; [|reflexivity].
    destruct (ctx_get g n) eqn:E4; [eapply ctx_get_ok; [exact Hg|exact E4]|reflexivity].
  Qed.

  (* ---------- indexing and slicing keep cleanliness (flag-preserving operations) ---------- *)

  Lemma index_usize_in {A} (l : list A) i x : index_usize l i = Some x -> In x l.
  Proof. unfold index_usize. destruct (i <? 0)%Z; [discriminate|]. apply nth_error_In. Qed.

  Lemma collect_incl {A} (items : list A) idx r : collect items idx = Some r -> incl r items.
  Proof.
    revert r. induction idx as [|i t IH]; cbn; intros r H.
    - inversion H. intros x [].
    - destruct (index_usize items i) eqn:E; [|discriminate].
      destruct (collect items t) eqn:E2; [|discriminate]. inversion H; subst.
      intros x [<-|Hx]; [eapply index_usize_in, E|eapply IH; [reflexivity|exact Hx]].
  Qed.

  Lemma slice_items_incl {A} (items : list A) a b c r : slice_items items a b c = Some r -> incl r items.
  Proof. apply collect_incl. Qed.

  Lemma value_slice_ok v a b c r : vok v = true -> value_slice v a b c = ROk r -> vok r = true.
  Proof.
    intros Hv. unfold value_slice. destruct (_ =? 0)%Z; [discriminate|].
    destruct v; try discriminate.
    - destruct (slice_items s a b _) eqn:E; [|discriminate]. intros X; inversion X; subst.
      destruct safe; [|reflexivity]. cbn in *. eapply clean_incl; [eapply slice_items_incl, E|exact Hv].
    - destruct (slice_items l a b _) eqn:E; [|discriminate]. intros X; inversion X; subst.
      rewrite vok_arr in *. eapply forallb_incl; [eapply slice_items_incl, E|exact Hv].
  Qed.

  Lemma vm_slice_ok opt v a b c r : vok v = true -> vm_slice opt v a b c = ROk r -> vok r = true.
  Proof.
    intros Hv. unfold vm_slice.
    destruct (opt && _); [intros X; inversion X; reflexivity|].
    destruct (is_undefined v); [discriminate|].
    destruct (slice_operand a); [|discriminate]. destruct (slice_operand b); [|discriminate].
    destruct (slice_operand c); [|discriminate]. cbn [res_bind].
    destruct (value_slice v _ _ _) eqn:E; [|destruct e; discriminate].
    intros X; inversion X; subst. eapply value_slice_ok; eassumption.
  Qed.

  Lemma get_item_seq_ok v item r : vok v = true -> get_item_seq v item = ROk r -> vok r = true.
  Proof.
    intros Hv. unfold get_item_seq. destruct v; try (intros X; inversion X; reflexivity); try discriminate;
      try (destruct item; intros X; inversion X; reflexivity).
    - destruct (resolve_index item _) as [[i|]|]; cbn [res_bind]; try discriminate; [|intros X; inversion X; reflexivity].
      destruct (index_usize s i) eqn:E; [|discriminate]. intros X; inversion X; subst.
      destruct safe; [|reflexivity]. cbn in *. apply index_usize_in in E.
      unfold Taint.clean in *. rewrite forallb_forall in Hv. cbn. rewrite (Hv _ E). reflexivity.
    - destruct (resolve_index item _) as [[i|]|]; cbn [res_bind]; try discriminate; [|intros X; inversion X; reflexivity].
      destruct (index_usize l i) eqn:E; [|discriminate]. intros X; inversion X; subst.
      rewrite vok_arr in Hv. eapply vok_in; [exact Hv|eapply index_usize_in, E].
  Qed.

  Lemma mark_safe_ok_flagged v : vok v = true -> value_is_safe v = true -> vok (mark_safe v) = true.
  Proof. destruct v; cbn; try reflexivity; try discriminate. intros H ->. exact H. Qed.
End Basics.

(* ================================================================== part 1b: the chunk-level side condition *)

(* what an abstract state of Model/CapCheck.v claims about a concrete state *)
Definition kst (a : list bool) (st : list value) : Prop :=
  forall i, nth i a false = true -> exists x, nth_error st i = Some (VStr x true).
Definition lk_rel (k : lk) (o : option loop_frame) : Prop :=
  match k with
  | LUnk => True
  | LEx => exists fr, o = Some fr
  | LEnd t => exists fr, o = Some fr /\ lf_end_ip fr = t
  end.
Definition klo (l : list lk) (ls : list loop_frame) : Prop := forall i, lk_rel (nth i l LUnk) (nth_error ls i).
Definition crel (a : cstate) (s : state) : Prop := kst (c_stack a) (stack s) /\ klo (c_loops a) (loops s).

Definition cmatch (tbl : ctable) (ip : nat) (s : state) : Prop :=
  match nth_error tbl ip with
  | Some (Some a) => crel a s
  | Some None => False
  | None => True
  end.

Lemma kst_nil st : kst [] st.
Proof. intros i H. destruct i; discriminate. Qed.

Lemma kst_push_false a st v : kst a st -> kst (false :: a) (v :: st).
Proof. intros H [|i] Hi; [discriminate|]. exact (H i Hi). Qed.

Lemma kst_push_true a st x : kst a st -> kst (true :: a) (VStr x true :: st).
Proof. intros H [|i] Hi; [exists x; reflexivity|]. exact (H i Hi). Qed.

Lemma kst_push_flag a st v : kst a st -> kst (cflag v :: a) (v :: st).
Proof.
  intros H [|i] Hi; [|exact (H i Hi)]. cbn in Hi. destruct v; try discriminate. cbn in Hi. subst. eexists. reflexivity.
Qed.

Lemma nth_skipn_b {A} (d : A) n : forall (l : list A) i, nth i (skipn n l) d = nth (n + i) l d.
Proof. induction n as [|n IH]; intros l i; [reflexivity|]. destruct l; cbn; [destruct i; reflexivity|apply IH]. Qed.

Lemma nth_error_skipn_b {A} n : forall (l : list A) i, nth_error (skipn n l) i = nth_error l (n + i).
Proof. induction n as [|n IH]; intros l i; [reflexivity|]. destruct l; cbn; [destruct i; reflexivity|apply IH]. Qed.

Lemma kst_skipn n a st : kst a st -> kst (skipn n a) (skipn n st).
Proof. intros H i Hi. rewrite nth_skipn_b in Hi. rewrite nth_error_skipn_b. exact (H _ Hi). Qed.

Lemma kst_drop n a st st' : kst a st -> skipn n st = st' -> kst (skipn n a) st'.
Proof. intros H <-. apply kst_skipn, H. Qed.

Lemma skipn_skipn_b {A} m n (l : list A) : skipn m (skipn n l) = skipn (n + m) l.
Proof. revert l. induction n as [|n IH]; intros l; [reflexivity|]. destruct l; cbn; [destruct m; reflexivity|apply IH]. Qed.

Lemma stack_sub_ok a b st : stack_sub a b = true -> kst a st -> kst b st.
Proof.
  intros Hs H i Hi. apply H. unfold stack_sub in Hs. rewrite forallb_forall in Hs.
  assert (Hlt : i < length b).
  { destruct (Nat.lt_ge_cases i (length b)) as [L|G]; [exact L|]. rewrite nth_overflow in Hi by exact G. discriminate. }
  specialize (Hs i). rewrite Hi in Hs. cbn in Hs. apply Hs. apply in_seq. lia.
Qed.

Lemma lk_sub_ok a b o : lk_sub a b = true -> lk_rel a o -> lk_rel b o.
Proof.
  destruct b as [| |t]; cbn; [auto| |].
  - destruct a as [| |t']; [discriminate|auto|]. intros _ (fr & -> & _). eauto.
  - destruct a as [| |t']; try discriminate. intros E. apply Nat.eqb_eq in E. subst. auto.
Qed.

Lemma loops_sub_ok a b ls : loops_sub a b = true -> klo a ls -> klo b ls.
Proof.
  intros Hs H i. unfold loops_sub in Hs. rewrite forallb_forall in Hs.
  destruct (Nat.lt_ge_cases i (length b)) as [L|G].
  - eapply lk_sub_ok; [apply Hs, in_seq; lia|apply H].
  - rewrite nth_overflow by exact G. exact I.
Qed.

Lemma cstate_sub_ok a b s : cstate_sub a b = true -> crel a s -> crel b s.
Proof.
  unfold cstate_sub. intros H [Hk Hl]. apply andb_prop in H. destruct H as [H1 H2].
  split; [eapply stack_sub_ok; eassumption|eapply loops_sub_ok; eassumption].
Qed.

Lemma klo_nil ls : klo [] ls.
Proof. intros i. destruct i; exact I. Qed.

Lemma klo_push k l fr ls : lk_rel k (Some fr) -> klo l ls -> klo (k :: l) (fr :: ls).
Proof. intros Hk H [|i]; [exact Hk|apply H]. Qed.

Lemma klo_tl l ls : klo l ls -> klo (tl l) (tl ls).
Proof.
  intros H i. destruct l as [|k l]; [destruct i; exact I|]. cbn [tl].
  destruct ls as [|fr ls]; [specialize (H (S i)); cbn in *; destruct i; exact H|exact (H (S i))].
Qed.

Lemma klo_top_sim k l fr fr' ls : klo (k :: l) (fr :: ls) -> lf_end_ip fr' = lf_end_ip fr -> klo (k :: l) (fr' :: ls).
Proof.
  intros H E i. destruct i as [|i]; [|exact (H (S i))]. specialize (H 0). destruct k as [| |t]; cbn in *.
  - exact I.
  - exists fr'. reflexivity.
  - destruct H as (f & Hf & He). inversion Hf; subst. exists fr'. split; [reflexivity|exact E].
Qed.

Lemma klo_sim_head L fr fr' ls : klo L (fr :: ls) -> lf_end_ip fr' = lf_end_ip fr -> klo L (fr' :: ls).
Proof. intros H E. destruct L as [|k l]; [apply klo_nil|]. eapply klo_top_sim; eassumption. Qed.

Lemma crel_top s : crel c_top s.
Proof. split; [apply kst_nil|apply klo_nil]. Qed.

Lemma crel_same a s s' : stack s' = stack s -> loops s' = loops s -> crel a s -> crel a s'.
Proof. intros E1 E2 [H1 H2]. split; [rewrite E1; exact H1|rewrite E2; exact H2]. Qed.

Lemma crel_push_false A L s v : crel (mkC A L) s -> crel (mkC (false :: A) L) (push s v).
Proof. intros [H1 H2]. split; [apply kst_push_false, H1|exact H2]. Qed.
Lemma crel_push_true A L s x : crel (mkC A L) s -> crel (mkC (true :: A) L) (push s (VStr x true)).
Proof. intros [H1 H2]. split; [apply kst_push_true, H1|exact H2]. Qed.
Lemma crel_push_flag A L s v : crel (mkC A L) s -> crel (mkC (cflag v :: A) L) (push s v).
Proof. intros [H1 H2]. split; [apply kst_push_flag, H1|exact H2]. Qed.

Lemma pop1_stack s v s1 : pop1 s = Some (v, s1) -> stack s = v :: stack s1 /\ loops s1 = loops s.
Proof. unfold pop1. destruct (stack s) eqn:E; [discriminate|]. intros X; inversion X; subst. auto. Qed.
Lemma pop2_stack s a b s1 : pop2 s = Some (a, b, s1) -> stack s = b :: a :: stack s1 /\ loops s1 = loops s.
Proof. unfold pop2. destruct (stack s) as [|y [|x t]] eqn:E; try discriminate. intros X; inversion X; subst. auto. Qed.

Lemma crel_pop1 A L s v s1 : pop1 s = Some (v, s1) -> crel (mkC A L) s -> crel (mkC (skipn 1 A) L) s1.
Proof.
  intros Hp [H1 H2]. destruct (pop1_stack _ _ _ Hp) as [E1 E2]. split; cbn [c_stack c_loops] in *.
  - eapply kst_drop; [exact H1|]. rewrite E1. reflexivity.
  - rewrite E2. exact H2.
Qed.
Lemma crel_pop2 A L s a b s1 : pop2 s = Some (a, b, s1) -> crel (mkC A L) s -> crel (mkC (skipn 2 A) L) s1.
Proof.
  intros Hp [H1 H2]. destruct (pop2_stack _ _ _ _ Hp) as [E1 E2]. split; cbn [c_stack c_loops] in *.
  - eapply kst_drop; [exact H1|]. rewrite E1. reflexivity.
  - rewrite E2. exact H2.
Qed.

Lemma crel_store_global a s n v : crel a s -> crel a (store_global s n v).
Proof. apply crel_same; reflexivity. Qed.

Lemma crel_store_local a s n v : crel a s -> crel a (store_local s n v).
Proof.
  intros [H1 H2]. unfold store_local. destruct (loops s) as [|f t] eqn:E; [apply crel_store_global; split; [exact H1|rewrite E; exact H2]|].
  split; [exact H1|]. cbn. destruct (c_loops a) as [|k l]; [apply klo_nil|]. eapply klo_top_sim; [exact H2|reflexivity].
Qed.

Lemma pop_n_rest : forall n st acc items rest, pop_n n st acc = Some (items, rest) -> rest = skipn n st.
Proof.
  induction n as [|n IH]; cbn; intros st acc items rest E; [inversion E; reflexivity|].
  destruct st; [discriminate|]. eapply IH, E.
Qed.

Lemma need_map_app a b : need_map (a ++ b) = need_map a + need_map b.
Proof. induction a as [|x a IH]; cbn; [reflexivity|]. unfold need_map in *. cbn. rewrite IH. lia. Qed.
Lemma need_map_rev_b fl : need_map (rev fl) = need_map fl.
Proof. induction fl as [|x fl IH]; [reflexivity|]. cbn [rev]. rewrite need_map_app, IH. unfold need_map. cbn. lia. Qed.

Lemma build_map_spreads_rest wd : forall fl st acc m rest,
  build_map_spreads wd fl st acc = ROk (m, rest) -> rest = skipn (need_map fl) st.
Proof.
  induction fl as [|b fl IH]; cbn [build_map_spreads]; intros st acc m rest E; [inversion E; reflexivity|].
  destruct b.
  - destruct st as [|v t]; [discriminate|]. destruct v; try discriminate. apply IH in E. rewrite E. reflexivity.
  - destruct st as [|v [|k t]]; try discriminate. destruct (w_as_key wd k); [|discriminate]. apply IH in E. rewrite E. reflexivity.
Qed.

Lemma build_list_spreads_rest : forall fl st acc l rest,
  build_list_spreads fl st acc = ROk (l, rest) -> rest = skipn (length fl) st.
Proof.
  induction fl as [|b fl IH]; cbn [build_list_spreads]; intros st acc l rest E; [inversion E; reflexivity|].
  destruct b.
  - destruct st as [|v t]; [discriminate|]. destruct v; try discriminate. apply IH in E. rewrite E. reflexivity.
  - destruct st as [|v t]; [discriminate|]. apply IH in E. rewrite E. reflexivity.
Qed.

Lemma crel_upd_stack A L s n st' v (b : bool) :
  crel (mkC A L) s -> skipn n (stack s) = st' -> (b = true -> exists x, v = VStr x true) ->
  crel (mkC (b :: skipn n A) L) (upd_stack s (v :: st')).
Proof.
  intros [H1 H2] E Hb. split; cbn [c_stack c_loops stack loops upd_stack] in *; [|exact H2].
  assert (K : kst (skipn n A) st') by (eapply kst_drop; eassumption).
  destruct b; [destruct (Hb eq_refl) as (x & ->); apply kst_push_true, K|apply kst_push_false, K].
Qed.

Lemma crel_true_top s x : crel (mkC [true] []) (push s (VStr x true)).
Proof. split; [apply kst_push_true, kst_nil|apply klo_nil]. Qed.

Lemma crel_start_iter A L s items comp :
  crel (mkC A L) s -> crel (mkC A (LEnd 0 :: L)) (upd_loops s (new_loop items comp :: loops s)).
Proof. intros [H1 H2]. split; [exact H1|]. apply klo_push; [|exact H2]. eexists. split; reflexivity. Qed.

Definition lk_after_iterate (L : list lk) (t : nat) : list lk :=
  match L with (LEx | LEnd _) :: r => LEnd t :: r | _ => L end.

Lemma lf_advance_end fr t : lf_end_ip (lf_advance fr t) = t.
Proof. unfold lf_advance. destruct (lf_rest fr); reflexivity. Qed.

Lemma crel_iterate A L s fr rest t :
  crel (mkC A L) s -> loops s = fr :: rest ->
  crel (mkC A (lk_after_iterate L t)) (upd_loops s (lf_advance fr t :: rest)).
Proof.
  intros [H1 H2] E. split; [exact H1|]. cbn [c_stack c_loops loops upd_loops] in *. rewrite E in H2.
  assert (Hsame : klo L (lf_advance fr t :: rest) \/ exists k r, L = k :: r /\ k <> LUnk).
  { destruct L as [|[| |t0] r]; [left; apply klo_nil|left|right; eauto; exists LEx, r; split; [reflexivity|discriminate]|right; exists (LEnd t0), r; split; [reflexivity|discriminate]].
    intros [|i]; [exact I|exact (H2 (S i))]. }
  destruct L as [|[| |t0] r]; cbn [lk_after_iterate].
  - apply klo_nil.
  - intros [|i]; [exact I|exact (H2 (S i))].
  - intros [|i]; [|exact (H2 (S i))]. eexists. split; [reflexivity|apply lf_advance_end].
  - intros [|i]; [|exact (H2 (S i))]. eexists. split; [reflexivity|apply lf_advance_end].
Qed.

Lemma crel_iterate_nil A L s t : crel (mkC A L) s -> loops s = [] -> crel (mkC A (lk_after_iterate L t)) s.
Proof.
  intros [H1 H2] E. split; [exact H1|]. cbn [c_stack c_loops] in *. rewrite E in *.
  destruct L as [|[| |t0] r]; cbn [lk_after_iterate]; try exact H2.
  - specialize (H2 0). cbn in H2. destruct H2 as (fr & X). discriminate.
  - specialize (H2 0). cbn in H2. destruct H2 as (fr & X & _). discriminate.
Qed.

Lemma lf_store_local_end fr n : lf_end_ip (lf_store_local fr n) = lf_end_ip fr.
Proof. unfold lf_store_local. destruct (lf_key_name fr); [reflexivity|]. destruct (lf_value_name fr); reflexivity. Qed.

Lemma emit_same W wr s o t s1 o1 : emit W wr s o t = Some (s1, o1) -> stack s1 = stack s /\ loops s1 = loops s.
Proof.
  unfold emit. destruct (caps s); [destruct (sink_write W wr o t); [|discriminate]|]; intros X; inversion X; subst; auto.
Qed.

Lemma crel_emit W wr s o t s1 o1 a : emit W wr s o t = Some (s1, o1) -> crel a s -> crel a s1.
Proof. intros E. destruct (emit_same _ _ _ _ _ _ _ E). apply crel_same; assumption. Qed.

Lemma crel_write_value W wr wd b s o v s1 o1 a : write_value W wr wd b s o v = Some (s1, o1) -> crel a s -> crel a s1.
Proof. unfold write_value. destruct (negb b || value_is_safe v); apply crel_emit. Qed.

(* ---------- tables ---------- *)

Lemma cedges_match tbl edges t a' s' :
  forallb (cedge_ok tbl) edges = true -> In (t, a') edges -> crel a' s' -> cmatch tbl t s'.
Proof.
  intros H Hin Hr. rewrite forallb_forall in H. specialize (H _ Hin). unfold cedge_ok in H. cbn [fst snd] in H.
  unfold cmatch. destruct (nth_error tbl t) as [[b|]|]; [|discriminate|exact I].
  eapply cstate_sub_ok; eassumption.
Qed.

Lemma call_from_nth len tbl : forall c ip0 k i,
  call_from len tbl ip0 c = true -> nth_error c k = Some i -> cinstr_ok len tbl (ip0 + k) i = true.
Proof.
  induction c as [|x c IH]; intros ip0 k i H Hk; [destruct k; discriminate|].
  cbn in H. apply andb_prop in H. destruct H as [H1 H2]. destruct k as [|k].
  - inversion Hk; subst. rewrite Nat.add_0_r. exact H1.
  - replace (ip0 + S k) with (S ip0 + k) by lia. eapply IH; eassumption.
Qed.

Lemma cmatch_entry c tbl s : cap_table_ok c tbl = true -> cmatch tbl 0 s.
Proof.
  unfold cap_table_ok. intros H. apply andb_prop in H. destruct H as [H _]. apply andb_prop in H. destruct H as [_ H].
  unfold cmatch. destruct (nth_error tbl 0) as [[a|]|]; try discriminate.
  eapply cstate_sub_ok; [exact H|apply crel_top].
Qed.

Lemma cmatch_step c tbl ip i s :
  cap_table_ok c tbl = true -> nth_error c ip = Some i -> cmatch tbl ip s ->
  exists a edges, crel a s /\ castep (length c) i ip a = Some edges /\ forallb (cedge_ok tbl) edges = true.
Proof.
  unfold cap_table_ok. intros H Hi Hm. apply andb_prop in H. destruct H as [_ H].
  pose proof (call_from_nth _ _ _ 0 _ _ H Hi) as Hk. cbn in Hk. unfold cinstr_ok in Hk. unfold cmatch in Hm.
  destruct (nth_error tbl ip) as [[a|]|]; [|destruct Hm|discriminate].
  destruct (castep (length c) i ip a) as [edges|] eqn:Es; [|discriminate]. exists a, edges.
  split; [exact Hm|split; [exact Es|exact Hk]].
Qed.

Lemma cmatch_out c tbl t s : cap_table_ok c tbl = true -> length c < t -> cmatch tbl t s.
Proof.
  unfold cap_table_ok. intros H Ht. apply andb_prop in H. destruct H as [H _]. apply andb_prop in H. destruct H as [H _].
  apply Nat.eqb_eq in H. unfold cmatch. replace (nth_error tbl t) with (@None (option cstate)); [exact I|].
  symmetry. apply nth_error_None. lia.
Qed.

(* ================================================================== part 2 *)

Section Inv.
  Variable W : Type.
  Variable wr : W -> str -> option W.
  Variable wd : world.
  Variable ok : N -> bool.
  Variable Wok : W -> Prop.          (* "what has been written so far is clean", for an abstract writer *)
  Variable ae : option bool.         (* the autoescape override of the render *)
  (* what is known about each piece of text handed to a sink: any predicate that holds of the literal
     text of the chunks, of the formatted safe values and of the escaper applied to the others *)
  Variable T : str -> Prop.
  Notation clean := (clean ok).
  Notation vok := (vok ok).
  Notation ctx_ok := (ctx_ok ok).
  Notation kw_ok := (kw_ok ok).
  Notation pair_ok := (pair_ok ok).
  Notation lf_ok := (lf_ok ok).
  Notation scope_ok := (scope_ok ok).
  Notation oscope_ok := (oscope_ok ok).
  Notation octx_ok := (octx_ok ok).

  Definition aeon (t : template) : bool := match ae with Some b => b | None => t_autoescape t end.

  (* literal text / constants as in Model/Taint.v, and the decidable side condition of
     Model/CapCheck.v: every RenderBodyComponent pops a body that a mint point pushed *)
  Definition chunk_okP (ch : list instr) : Prop :=
    chunk_ok ok ch = true /\ bodies_from_capture ch = true /\ (forall t, In (WriteText t) ch -> T t).

  Definition tpl_okP (t : template) : Prop :=
    aeon t = true /\ chunk_okP (t_chunk t) /\ chunk_okP (t_root_chunk t) /\
    (forall b lin, assoc_get (t_lineage t) b = Some lin -> Forall chunk_okP lin).

  Record world_ok : Prop := {
    wo_escape : forall s, clean (w_escape wd s) = true;
    wo_format : forall v, value_is_safe v = true -> vok v = true -> clean (w_format wd v) = true;
    wo_filter : forall n v k sc r sf, w_filter wd n v k sc = Some (ROk r, sf) ->
                  vok v = true -> kw_ok k = true -> scope_ok sc = true ->
                  vok (if sf then mark_safe r else r) = true;
    wo_function : forall n k sc r sf, w_function wd n k sc = Some (ROk r, sf) ->
                  kw_ok k = true -> scope_ok sc = true ->
                  vok (if sf then mark_safe r else r) = true;
    wo_math : forall i a b c, w_math wd i a b = ROk c -> vok a = true -> vok b = true -> vok c = true;
    wo_negate : forall a c, w_negate wd a = ROk c -> vok a = true -> vok c = true;
    wo_map_get : forall m k x, w_map_get wd m k = Some x -> kw_ok m = true -> vok x = true;
    wo_get_attr : forall v a x, w_get_attr wd v a = Some x -> vok v = true -> vok x = true;
    wo_build_ctx : forall n d ch, assoc_get (w_components wd) n = Some (d, ch) ->
                  forall k b c, w_build_ctx wd d k b = ROk c -> kw_ok k = true ->
                  obody_ok ok b = true -> ctx_ok c = true;
    wo_templates : forall n t, assoc_get (w_templates wd) n = Some t -> tpl_okP t;
    wo_components : forall n d c, assoc_get (w_components wd) n = Some (d, c) -> chunk_okP c }.

  Hypothesis Hw : world_ok.
  Hypothesis Hwr : forall w t w', wr w t = Some w' -> Wok w -> clean t = true -> T t -> Wok w'.
  Hypothesis HT_raw : forall v, value_is_safe v = true -> T (w_format wd v).
  Hypothesis HT_esc : forall v, value_is_safe v = false -> T (w_escape wd (w_format wd v)).

  Definition OInv (o : sink W) : Prop :=
    match o with SinkTop w => Wok w | SinkBuf b => clean b = true end.

  Definition blocks_okP (bs : list (str * list (list instr) * nat)) : Prop :=
    Forall (fun e => Forall chunk_okP (snd (fst e))) bs.

  Record SInv (s : state) : Prop := {
    si_stack : forallb vok (stack s) = true;
    si_loops : forallb lf_ok (loops s) = true;
    si_setvars : ctx_ok (setvars s) = true;
    si_caps : forallb clean (caps s) = true;
    si_blocks : blocks_okP (blocks s);
    si_parent : oscope_ok (parent s) = true;
    si_context : ctx_ok (context s) = true;
    si_global : octx_ok (global s) = true;
    si_bb : clean (block_buffer s) = true }.

  Lemma SInv_upd_stack s st : SInv s -> forallb vok st = true -> SInv (upd_stack s st).
  Proof. intros [] H. constructor; cbn; assumption. Qed.
  Lemma SInv_upd_loops s l : SInv s -> forallb lf_ok l = true -> SInv (upd_loops s l).
  Proof. intros [] H. constructor; cbn; assumption. Qed.
  Lemma SInv_upd_setvars s c : SInv s -> ctx_ok c = true -> SInv (upd_setvars s c).
  Proof. intros [] H. constructor; cbn; assumption. Qed.
  Lemma SInv_upd_caps s c : SInv s -> forallb clean c = true -> SInv (upd_caps s c).
  Proof. intros [] H. constructor; cbn; assumption. Qed.
  Lemma SInv_upd_blocks s b cb : SInv s -> blocks_okP b -> SInv (upd_blocks s b cb).
  Proof. intros [] H. constructor; cbn; assumption. Qed.
  Lemma SInv_upd_block_buffer s b : SInv s -> clean b = true -> SInv (upd_block_buffer s b).
  Proof. intros [] H. constructor; cbn; assumption. Qed.

  Lemma push_inv s v : SInv s -> vok v = true -> SInv (push s v).
  Proof. intros Hs Hv. apply SInv_upd_stack; [exact Hs|]. cbn. rewrite Hv. apply Hs. Qed.

  Lemma pop1_inv s v s1 : pop1 s = Some (v, s1) -> SInv s -> vok v = true /\ SInv s1.
  Proof.
    unfold pop1. destruct (stack s) as [|x t] eqn:E; [discriminate|]. intros X Hs; inversion X; subst.
    pose proof (si_stack _ Hs) as H. rewrite E in H. cbn in H. apply andb_prop in H. destruct H as [Hx Ht].
    split; [exact Hx|apply SInv_upd_stack; assumption].
  Qed.

  Lemma pop2_inv s a b s1 : pop2 s = Some (a, b, s1) -> SInv s -> vok a = true /\ vok b = true /\ SInv s1.
  Proof.
    unfold pop2. destruct (stack s) as [|y [|x t]] eqn:E; try discriminate. intros X Hs; inversion X; subst.
    pose proof (si_stack _ Hs) as H. rewrite E in H. cbn in H.
    apply andb_prop in H. destruct H as [Hy H]. apply andb_prop in H. destruct H as [Hx Ht].
    split; [exact Hx|]. split; [exact Hy|]. apply SInv_upd_stack; assumption.
  Qed.

  Lemma scope_of_ok s : SInv s -> scope_ok (scope_of s) = true.
  Proof.
    intros []. unfold scope_of. cbn [Taint.scope_ok].
    rewrite si_loops0, si_setvars0, si_context0, si_global0. cbn.
    unfold Taint.oscope_ok in si_parent0. destruct (parent s); [rewrite si_parent0|]; reflexivity.
  Qed.

  Lemma get_value_ok s n : SInv s -> vok (get_value s n) = true.
  Proof. intros Hs. apply scope_get_ok, scope_of_ok, Hs. Qed.

  Lemma kw_of_ctx c : kw_ok (map (fun kv : str * value => (KStr (fst kv) true, snd kv)) c) = ctx_ok c.
  Proof. induction c as [|[k x] t IH]; [reflexivity|]. cbn. unfold Taint.kw_ok in IH. rewrite IH. reflexivity. Qed.

  Lemma dump_context_ok s : SInv s -> vok (dump_context s) = true.
  Proof.
    intros Hs. unfold dump_context. rewrite vok_map, kw_of_ctx.
    assert (Hadd : forall acc c, ctx_ok acc = true -> ctx_ok c = true ->
              ctx_ok (fold_left (fun a kv => ctx_set a (fst kv) (snd kv)) (rev c) acc) = true).
    { intros acc c Ha Hc. apply ctx_add_ok; [exact Ha|apply ctx_ok_rev, Hc]. }
    assert (H0 : ctx_ok (match global s with
                         | Some g => fold_left (fun a kv => ctx_set a (fst kv) (snd kv)) (rev g) []
                         | None => [] end) = true).
    { pose proof (si_global _ Hs) as Hg. destruct (global s); [apply Hadd; [reflexivity|exact Hg]|reflexivity]. }
    assert (Hl : forall ls acc, forallb lf_ok ls = true -> ctx_ok acc = true ->
              ctx_ok (fold_left (fun a f => fold_left (fun a kv => ctx_set a (fst kv) (snd kv)) (rev (lf_context f)) a) ls acc) = true).
    { induction ls as [|f t IH]; intros acc Hls Ha; [exact Ha|]. cbn in Hls. apply andb_prop in Hls.
      destruct Hls as [Hf Ht]. cbn [fold_left]. apply IH; [exact Ht|]. apply Hadd; [exact Ha|].
      apply lf_ok_parts in Hf. apply Hf. }
    apply Hl.
    - eapply forallb_incl; [|apply (si_loops _ Hs)]. intros x Hx. apply in_rev, Hx.
    - apply Hadd; [apply Hadd; [exact H0|apply Hs]|apply Hs].
  Qed.

  Lemma load_name_v_ok s n : SInv s -> vok (load_name_v s n) = true.
  Proof. intros Hs. unfold load_name_v. destruct (str_eqb n magical_dump_var); [apply dump_context_ok|apply get_value_ok]; exact Hs. Qed.

  Lemma store_global_inv s n v : SInv s -> vok v = true -> SInv (store_global s n v).
  Proof. intros Hs Hv. apply SInv_upd_setvars; [exact Hs|]. apply ctx_set_ok; [apply Hs|exact Hv]. Qed.

  Lemma store_local_inv s n v : SInv s -> vok v = true -> SInv (store_local s n v).
  Proof.
    intros Hs Hv. unfold store_local. destruct (loops s) as [|f t] eqn:E; [apply store_global_inv; assumption|].
    apply SInv_upd_loops; [exact Hs|]. pose proof (si_loops _ Hs) as H. rewrite E in H. cbn in *.
    apply andb_prop in H. destruct H as [Hf Ht]. rewrite Ht, lf_store_ok; auto.
  Qed.

  (* ---------- the sinks ---------- *)

  Lemma emit_inv s o text s1 o1 :
    emit W wr s o text = Some (s1, o1) -> SInv s -> OInv o -> clean text = true -> T text -> SInv s1 /\ OInv o1.
  Proof.
    intros E Hs Ho Ht HT. unfold emit in E. destruct (caps s) as [|c t] eqn:Ec.
    - unfold sink_write in E. destruct o as [w|b].
      + destruct (wr w text) as [w'|] eqn:Ew; [|discriminate]. inversion E; subst.
        split; [exact Hs|]. cbn. eapply Hwr; eassumption.
      + inversion E; subst. split; [exact Hs|]. cbn in *. apply clean_app_intro; assumption.
    - inversion E; subst. split; [|exact Ho]. apply SInv_upd_caps; [exact Hs|].
      pose proof (si_caps _ Hs) as H. rewrite Ec in H. cbn in *. apply andb_prop in H. destruct H as [Hc Htl].
      rewrite Htl, clean_app_intro; auto.
  Qed.

  (* the shared tail of WriteTop / WritePath with autoescape on: safe => clean by the invariant;
     not safe => escaped => clean *)
  Lemma write_value_inv s o v s1 o1 :
    write_value W wr wd true s o v = Some (s1, o1) -> SInv s -> OInv o -> vok v = true -> SInv s1 /\ OInv o1.
  Proof.
    intros E Hs Ho Hv. unfold write_value in E. cbn [negb orb] in E.
    destruct (value_is_safe v) eqn:Es.
    - eapply emit_inv; try eassumption; [apply (wo_format Hw); assumption|apply HT_raw, Es].
    - eapply emit_inv; try eassumption; [apply (wo_escape Hw)|apply HT_esc, Es].
  Qed.

  (* ---------- value computations ---------- *)

  Lemma attr_or_undef_ok v a :
    vok v = true -> vok (match w_get_attr wd v a with Some x => x | None => VUndef end) = true.
  Proof. intros Hv. destruct (w_get_attr wd v a) eqn:E; [eapply (wo_get_attr Hw); eassumption|reflexivity]. Qed.

  Lemma subscript_ok opt val sub r : subscript wd opt val sub = ROk r -> vok val = true -> vok r = true.
  Proof.
    unfold subscript. intros E Hv.
    destruct (opt && _); [inversion E; reflexivity|].
    destruct (is_undefined val); [discriminate|]. destruct (is_undefined sub); [discriminate|].
    destruct (get_item wd val sub) eqn:G; [|destruct e; discriminate]. inversion E; subst.
    unfold get_item in G. destruct val; try (eapply get_item_seq_ok; [|exact G]; assumption).
    destruct (w_as_key wd sub); [|discriminate]. inversion G; subst.
    destruct (w_map_get wd m k) eqn:M; [|reflexivity]. eapply (wo_map_get Hw); [exact M|]. rewrite <- vok_map. exact Hv.
  Qed.

  Lemma path_walk_ok : forall attrs cur r, path_walk_v wd cur attrs = ROk r -> vok cur = true -> vok r = true.
  Proof.
    induction attrs as [|a t IH]; cbn; intros cur r E Hc; [inversion E; subst; exact Hc|].
    destruct (is_undefined cur); [discriminate|].
    destruct (w_get_attr wd cur a) eqn:G.
    - eapply IH; [exact E|]. eapply (wo_get_attr Hw); eassumption.
    - destruct t; [inversion E; reflexivity|discriminate].
  Qed.

  Lemma write_walk_ok : forall attrs cur r, write_walk_v wd cur attrs = ROk r -> vok cur = true -> vok r = true.
  Proof.
    induction attrs as [|a t IH]; cbn; intros cur r E Hc; [inversion E; subst; exact Hc|].
    destruct (w_get_attr wd cur a) eqn:G; [|discriminate].
    eapply IH; [exact E|]. eapply (wo_get_attr Hw); eassumption.
  Qed.

  Lemma load_path_v_ok s path r : load_path_v wd s path = ROk r -> SInv s -> vok r = true.
  Proof.
    unfold load_path_v. destruct path as [|n attrs]; [discriminate|]. intros E Hs.
    destruct attrs as [|a t]; [inversion E; subst; apply load_name_v_ok, Hs|].
    destruct (is_undefined (get_value s n)); [discriminate|].
    eapply path_walk_ok; [exact E|apply get_value_ok, Hs].
  Qed.

  Lemma write_path_v_ok s path r : write_path_v wd s path = ROk r -> SInv s -> vok r = true.
  Proof.
    unfold write_path_v. destruct path as [|n attrs]; [discriminate|]. intros E Hs.
    set (root := match attrs with [] => load_name_v s n | _ => get_value s n end) in *.
    assert (Hr : vok root = true).
    { subst root. destruct attrs; [apply load_name_v_ok|apply get_value_ok]; exact Hs. }
    destruct (is_undefined root); [discriminate|].
    destruct (write_walk_v wd root attrs) eqn:G; [|discriminate].
    destruct (is_undefined a); [discriminate|]. inversion E; subst.
    eapply write_walk_ok; eassumption.
  Qed.

  Lemma pop_n_ok : forall n st acc items rest,
    pop_n n st acc = Some (items, rest) -> forallb vok st = true -> forallb vok acc = true ->
    forallb vok items = true /\ forallb vok rest = true.
  Proof.
    induction n as [|n IH]; cbn; intros st acc items rest E Hst Hacc.
    - inversion E; subst. auto.
    - destruct st as [|v t]; [discriminate|]. cbn in Hst. apply andb_prop in Hst. destruct Hst as [Hv Ht].
      eapply IH; [exact E|exact Ht|]. cbn. rewrite Hv, Hacc. reflexivity.
  Qed.

  Lemma build_map_pairs_ok : forall n l pairs, length l <= n ->
    build_map_pairs wd l = ROk pairs -> forallb vok l = true -> kw_ok pairs = true.
  Proof.
    induction n as [|n IH]; intros l pairs Hlen E Hl.
    - destruct l; [|cbn in Hlen; lia]. cbn in E. inversion E. reflexivity.
    - destruct l as [|k [|v t]]; cbn in E.
      + inversion E. reflexivity.
      + discriminate.
      + destruct (w_as_key wd k); [|discriminate].
        destruct (build_map_pairs wd t) eqn:E2; [|discriminate]. cbn in E. inversion E; subst.
        cbn in Hl. apply andb_prop in Hl. destruct Hl as [_ Hl]. apply andb_prop in Hl. destruct Hl as [Hv Ht].
        cbn. rewrite Hv. cbn. eapply IH; [|exact E2|exact Ht]. cbn in Hlen. lia.
  Qed.

  Lemma map_insert_ok m k v : kw_ok m = true -> vok v = true -> kw_ok (map_insert wd m k v) = true.
  Proof.
    intros Hm Hv. induction m as [|[k' v'] t IH]; cbn; [rewrite Hv; reflexivity|].
    cbn in Hm. apply andb_prop in Hm. destruct Hm as [Hv' Ht].
    destruct (key_eqb_w wd k' k); cbn; [rewrite Hv; exact Ht|rewrite Hv'; exact (IH Ht)].
  Qed.

  Lemma map_of_pairs_ok l : kw_ok l = true -> kw_ok (map_of_pairs wd l) = true.
  Proof.
    unfold map_of_pairs.
    assert (H : forall l acc, kw_ok l = true -> kw_ok acc = true ->
                kw_ok (fold_left (fun m kv => map_insert wd m (fst kv) (snd kv)) l acc) = true).
    { clear l. induction l as [|[k v] t IH]; intros acc Hl Ha; [exact Ha|]. cbn in Hl.
      apply andb_prop in Hl. destruct Hl as [Hv Ht]. cbn [fold_left]. apply IH; [exact Ht|].
      apply map_insert_ok; assumption. }
    intros Hl. apply H; [exact Hl|reflexivity].
  Qed.

  Lemma map_or_insert_ok m k v : kw_ok m = true -> vok v = true -> kw_ok (map_or_insert wd m k v) = true.
  Proof.
    intros Hm Hv. unfold map_or_insert. destruct (w_map_get wd m k); [exact Hm|].
    unfold Taint.kw_ok. rewrite forallb_app. fold (kw_ok m). rewrite Hm. cbn. rewrite Hv. reflexivity.
  Qed.

  Lemma build_map_spreads_ok : forall flags st acc m rest,
    build_map_spreads wd flags st acc = ROk (m, rest) -> forallb vok st = true -> kw_ok acc = true ->
    kw_ok m = true /\ forallb vok rest = true.
  Proof.
    induction flags as [|fl flags IH]; cbn; intros st acc m rest E Hst Hacc.
    - inversion E; subst. auto.
    - destruct fl.
      + destruct st as [|v t]; [discriminate|]. cbn in Hst. apply andb_prop in Hst. destruct Hst as [Hv Ht].
        destruct v; try discriminate. eapply IH; [exact E|exact Ht|].
        rewrite vok_map in Hv. clear E. revert acc Hacc. induction m0 as [|[k x] t0 IHm]; intros acc Hacc; [exact Hacc|].
        cbn in Hv. apply andb_prop in Hv. destruct Hv as [Hx Ht0]. cbn [fold_left]. apply IHm; [exact Ht0|].
        apply map_or_insert_ok; assumption.
      + destruct st as [|v [|k t]]; try discriminate. cbn in Hst. apply andb_prop in Hst. destruct Hst as [Hv Hst].
        apply andb_prop in Hst. destruct Hst as [Hk Ht].
        destruct (w_as_key wd k); [|discriminate]. eapply IH; [exact E|exact Ht|].
        apply map_or_insert_ok; assumption.
  Qed.

  Lemma build_list_spreads_ok : forall flags st acc l rest,
    build_list_spreads flags st acc = ROk (l, rest) -> forallb vok st = true -> forallb vok acc = true ->
    forallb vok l = true /\ forallb vok rest = true.
  Proof.
    induction flags as [|fl flags IH]; cbn; intros st acc l rest E Hst Hacc.
    - inversion E; subst. auto.
    - destruct fl.
      + destruct st as [|v t]; [discriminate|]. cbn in Hst. apply andb_prop in Hst. destruct Hst as [Hv Ht].
        destruct v; try discriminate. eapply IH; [exact E|exact Ht|].
        rewrite forallb_app. rewrite vok_arr in Hv. rewrite Hv, Hacc. reflexivity.
      + destruct st as [|v t]; [discriminate|]. cbn in Hst. apply andb_prop in Hst. destruct Hst as [Hv Ht].
        eapply IH; [exact E|exact Ht|]. cbn. rewrite Hv, Hacc. reflexivity.
  Qed.

  Lemma kwargs_of_ok kw k : kwargs_of kw = Some k -> vok kw = true -> kw_ok k = true.
  Proof. destruct kw; try discriminate. intros X; inversion X; subst. rewrite vok_map. auto. Qed.

  (* the lookup of the active block in super() *)
  Definition find_block (cb : str) :=
    fix find (bs pre : list (str * list (list instr) * nat)) {struct bs}
      : option (list (str * list (list instr) * nat) * (str * list (list instr) * nat) * list (str * list (list instr) * nat)) :=
      match bs with
      | [] => None
      | (bn, lin, lvl) :: t =>
          if str_eqb bn cb then Some (rev pre, (bn, lin, lvl), t)
          else find t ((bn, lin, lvl) :: pre)
      end.

  Lemma find_block_spec cb : forall bs pre p e q,
    find_block cb bs pre = Some (p, e, q) -> rev pre ++ bs = p ++ e :: q.
  Proof.
    induction bs as [|[[bn lin] lvl] t IH]; cbn; intros pre p e q E; [discriminate|].
    destruct (str_eqb bn cb).
    - inversion E; subst. reflexivity.
    - apply IH in E. cbn in E. rewrite <- app_assoc in E. exact E.
  Qed.

  Lemma find_block_ok cb bs p e q :
    find_block cb bs [] = Some (p, e, q) -> blocks_okP bs ->
    blocks_okP p /\ Forall chunk_okP (snd (fst e)) /\ blocks_okP q.
  Proof.
    intros E H. apply find_block_spec in E. cbn in E. unfold blocks_okP in *. rewrite E in H.
    apply Forall_app in H. destruct H as [Hp Hq]. inversion Hq; subst. auto.
  Qed.

  (* ---------- the invariant through run ---------- *)

  Definition post (r : rres W) : Prop :=
    match r with RDone s o => SInv s /\ OInv o | _ => True end.

  Definition IHf (f : nat) : Prop :=
    forall tpl depth ch ip s o, tpl_okP tpl -> chunk_okP ch -> cmatch (the_table ch) ip s -> SInv s -> OInv o ->
      post (run W wr wd f tpl ae depth ch ip s o).

  Lemma new_state_inv c : ctx_ok c = true -> SInv (new_state c).
  Proof. intros H. constructor; cbn; try reflexivity; [constructor|exact H]. Qed.

  Lemma blocks_tl bs : blocks_okP bs -> blocks_okP (tl bs).
  Proof. intros H. destruct bs; [exact H|]. inversion H; assumption. Qed.

  Lemma forallb_tl {A} (g : A -> bool) l : forallb g l = true -> forallb g (tl l) = true.
  Proof. destruct l; cbn; [auto|]. intros H. apply andb_prop in H. apply H. Qed.

  Lemma forallb_cons_intro {A} (g : A -> bool) x l : g x = true -> forallb g l = true -> forallb g (x :: l) = true.
  Proof. intros Hx Hl. cbn. rewrite Hx, Hl. reflexivity. Qed.

  Ltac dm := match goal with
    | |- post (match ?x with _ => _ end) => destruct x eqn:?
    end.
  (* knowledge about the successor state from knowledge about s *)
  Ltac crel_fwd :=
    repeat match goal with
    | Hp : pop1 ?s0 = Some (_, ?s1), Hr : crel (mkC _ _) ?s0 |- _ =>
        lazymatch goal with | _ : crel _ s1 |- _ => fail | _ => pose proof (crel_pop1 _ _ _ _ _ Hp Hr) end
    | Hp : pop2 ?s0 = Some (_, _, ?s1), Hr : crel (mkC _ _) ?s0 |- _ =>
        lazymatch goal with | _ : crel _ s1 |- _ => fail | _ => pose proof (crel_pop2 _ _ _ _ _ _ Hp Hr) end
    | He : emit _ _ ?s0 _ _ = Some (?s1, _), Hr : crel _ ?s0 |- _ =>
        lazymatch goal with | _ : crel _ s1 |- _ => fail | _ => pose proof (crel_emit _ _ _ _ _ _ _ _ He Hr) end
    | He : write_value _ _ _ _ ?s0 _ _ = Some (?s1, _), Hr : crel _ ?s0 |- _ =>
        lazymatch goal with | _ : crel _ s1 |- _ => fail | _ => pose proof (crel_write_value _ _ _ _ _ _ _ _ _ _ He Hr) end
    end.
  Ltac crel_t :=
    first [ eassumption
          | apply crel_push_false; eassumption
          | apply crel_push_true; eassumption
          | apply crel_push_flag; eassumption
          | apply crel_store_local; eassumption
          | apply crel_store_global; eassumption
          | apply crel_top
          | apply crel_true_top
          | (eapply crel_same; [reflexivity | reflexivity | eassumption])
          | apply crel_push_true; (eapply crel_same; [reflexivity | reflexivity | eassumption]) ].
  (* the successor (t, s') matches the table: t is the target of one of the checked edges *)
  Ltac mt Hedges :=
    eapply cedges_match;
    [exact Hedges | first [left; reflexivity | right; left; reflexivity] | crel_fwd; crel_t].
  Ltac nx0 IH Ht Hc := apply IH; [exact Ht | exact Hc | | | ].
  Ltac nx IH Ht Hc Hedges := apply IH; [exact Ht | exact Hc | solve [mt Hedges] | | ].
  Ltac simple_case IH Ht Hc Ho Hedges :=
    repeat dm; try exact I;
    nx IH Ht Hc Hedges; [apply push_inv; [eassumption
                         | first [reflexivity | eapply (wo_math Hw); eassumption | eapply (wo_negate Hw); eassumption]]
        | exact Ho].
  (* a nested run: obtain its postcondition from IH, then split on its result; the nested chunk is
     entered with nothing known, which every state matches *)
  Ltac nest IH Htpl Hch :=
    match goal with
    | |- post (match run _ _ _ ?f ?t _ ?d ?c ?i ?s ?o with _ => _ end) =>
        let P := fresh "P" in
        assert (P : post (run W wr wd f t ae d c i s o));
        [apply IH; [exact Htpl | exact Hch | exact (cmatch_entry _ _ _ (proj1 (proj2 Hch))) | | ]
        | let s' := fresh "sn" in let o' := fresh "on" in
          destruct (run W wr wd f t ae d c i s o) as [s' o'| |]; try exact I; cbn [post] in P]
    end.

  Lemma step_inv f : IHf f -> IHf (S f).
  Proof.
    intros IH tpl depth ch ip s o Ht Hc Hcm Hs Ho.
    assert (Hae : match ae with Some b => b | None => t_autoescape tpl end = true) by apply Ht.
    cbn [run]. rewrite ?Hae.
    destruct (nth_error ch ip) as [i|] eqn:Hi; [|split; assumption].
    assert (Hiok : Taint.instr_ok ok i = true) by (eapply nth_error_forallb; [apply Hc|exact Hi]).
    destruct (cmatch_step _ _ _ _ _ (proj1 (proj2 Hc)) Hi Hcm) as (a & edges & Hrel & Hstep & Hedges).
    destruct a as [A L].
    destruct i as [v | n | a | a |  |  |  |  | t |  | n | n | n | k | k | fl | fl | n | n | n | n | n | n | t | t | t | t |  |  | kv | kv | t | n |  |  |  |  |  |  |  |  |  |  |  |  |  |  |  |  |  |  |  |  |  | p | p]; cbn [Taint.instr_ok] in Hiok; cbn [castep c_stack c_loops] in Hstep;
      cbv beta iota; try (injection Hstep as Hstep; subst edges).
    - (* LoadConst *) nx IH Ht Hc Hedges; [apply push_inv; assumption|exact Ho].
    - (* LoadName *) nx IH Ht Hc Hedges; [apply push_inv; [exact Hs|apply load_name_v_ok, Hs]|exact Ho].
    - (* LoadAttr *)
      destruct (pop1 s) as [[v s1]|] eqn:Hp; [|exact I]. destruct (pop1_inv _ _ _ Hp Hs) as [Hv Hs1].
      repeat dm; try exact I;
        (nx IH Ht Hc Hedges; [apply push_inv; [exact Hs1|first [reflexivity|apply attr_or_undef_ok, Hv]]|exact Ho]).
    - (* LoadAttrOpt *)
      destruct (pop1 s) as [[v s1]|] eqn:Hp; [|exact I]. destruct (pop1_inv _ _ _ Hp Hs) as [Hv Hs1].
      repeat dm; try exact I;
        (nx IH Ht Hc Hedges; [apply push_inv; [exact Hs1|first [reflexivity|apply attr_or_undef_ok, Hv]]|exact Ho]).
    - (* BinarySubscript *)
      destruct (pop2 s) as [[[val sub] s1]|] eqn:Hp; [|exact I].
      destruct (pop2_inv _ _ _ _ Hp Hs) as (Hval & Hsub & Hs1).
      destruct (subscript wd _ val sub) as [r|] eqn:E; [|exact I].
      nx IH Ht Hc Hedges; [apply push_inv; [exact Hs1|eapply subscript_ok; eassumption]|exact Ho].
    - (* BinarySubscriptOpt *)
      destruct (pop2 s) as [[[val sub] s1]|] eqn:Hp; [|exact I].
      destruct (pop2_inv _ _ _ _ Hp Hs) as (Hval & Hsub & Hs1).
      destruct (subscript wd _ val sub) as [r|] eqn:E; [|exact I].
      nx IH Ht Hc Hedges; [apply push_inv; [exact Hs1|eapply subscript_ok; eassumption]|exact Ho].
    - (* Slice *)
      destruct (stack s) as [|step [|stop [|start [|val t]]]] eqn:Est; try exact I.
      pose proof (si_stack _ Hs) as Hst. rewrite Est in Hst. cbn [forallb] in Hst.
      apply andb_prop in Hst; destruct Hst as [_ Hst]. apply andb_prop in Hst; destruct Hst as [_ Hst].
      apply andb_prop in Hst; destruct Hst as [_ Hst]. apply andb_prop in Hst; destruct Hst as [Hval Hrest].
      destruct (vm_slice _ val start stop step) as [r|] eqn:E; [|exact I].
      assert (Hr : vok r = true) by (eapply vm_slice_ok; eassumption).
      nx0 IH Ht Hc; [|apply SInv_upd_stack; [exact Hs|apply forallb_cons_intro; assumption]|exact Ho].
      eapply cedges_match; [exact Hedges|left; reflexivity|].
      apply (crel_upd_stack A L s 4 t r false Hrel); [rewrite Est; reflexivity|discriminate].
    - (* SliceOpt *)
      destruct (stack s) as [|step [|stop [|start [|val t]]]] eqn:Est; try exact I.
      pose proof (si_stack _ Hs) as Hst. rewrite Est in Hst. cbn [forallb] in Hst.
      apply andb_prop in Hst; destruct Hst as [_ Hst]. apply andb_prop in Hst; destruct Hst as [_ Hst].
      apply andb_prop in Hst; destruct Hst as [_ Hst]. apply andb_prop in Hst; destruct Hst as [Hval Hrest].
      destruct (vm_slice _ val start stop step) as [r|] eqn:E; [|exact I].
      assert (Hr : vok r = true) by (eapply vm_slice_ok; eassumption).
      nx0 IH Ht Hc; [|apply SInv_upd_stack; [exact Hs|apply forallb_cons_intro; assumption]|exact Ho].
      eapply cedges_match; [exact Hedges|left; reflexivity|].
      apply (crel_upd_stack A L s 4 t r false Hrel); [rewrite Est; reflexivity|discriminate].
    - (* WriteText *)
      destruct (emit W wr s o t) as [[s1 o1]|] eqn:E; [|exact I].
      destruct (emit_inv _ _ _ _ _ E Hs Ho Hiok (proj2 (proj2 Hc) _ (nth_error_In _ _ Hi))) as [Hs1 Ho1]. nx IH Ht Hc Hedges; assumption.
    - (* WriteTop *)
      destruct (pop1 s) as [[v s1]|] eqn:Hp; [|exact I]. destruct (pop1_inv _ _ _ Hp Hs) as [Hv Hs1].
      destruct (is_undefined v); [exact I|].
      destruct (write_value W wr wd true s1 o v) as [[s2 o2]|] eqn:E; [|exact I].
      destruct (write_value_inv _ _ _ _ _ E Hs1 Ho Hv) as [Hs2 Ho2]. nx IH Ht Hc Hedges; assumption.
    - (* SetI *)
      destruct (pop1 s) as [[v s1]|] eqn:Hp; [|exact I]. destruct (pop1_inv _ _ _ Hp Hs) as [Hv Hs1].
      nx IH Ht Hc Hedges; [apply store_local_inv; assumption|exact Ho].
    - (* SetGlobal *)
      destruct (pop1 s) as [[v s1]|] eqn:Hp; [|exact I]. destruct (pop1_inv _ _ _ Hp Hs) as [Hv Hs1].
      nx IH Ht Hc Hedges; [apply store_global_inv; assumption|exact Ho].
    - (* Include *)
      destruct (assoc_get (w_templates wd) n) as [t2|] eqn:Et; [|exact I].
      pose proof (wo_templates Hw _ _ Et) as Ht2.
      match goal with |- context [run W wr wd f t2 ae depth (t_root_chunk t2) 0 ?inc o] => set (inc0 := inc) end.
      assert (Hinc : SInv inc0).
      { constructor; cbn; try reflexivity; [constructor|apply scope_of_ok, Hs|apply Hs]. }
      destruct (caps s) as [|c ct] eqn:Ec.
      + nest IH Ht2 (proj1 (proj2 (proj2 Ht2))); [exact Hinc|exact Ho|]. destruct P as [_ Ho1]. nx IH Ht Hc Hedges; assumption.
      + pose proof (si_caps _ Hs) as Hcaps. rewrite Ec in Hcaps. cbn [forallb] in Hcaps.
        apply andb_prop in Hcaps. destruct Hcaps as [Hcc Hct].
        nest IH Ht2 (proj1 (proj2 (proj2 Ht2))); [exact Hinc|exact Hcc|]. destruct on as [w1|c1]; [exact I|].
        destruct P as [_ Hc1]. cbn [OInv] in Hc1.
        nx IH Ht Hc Hedges; [apply SInv_upd_caps; [exact Hs|apply forallb_cons_intro; assumption]|exact Ho].
    - (* BuildMap *)
      destruct (pop_n _ (stack s) []) as [[items rest]|] eqn:E; [|exact I].
      destruct (pop_n_ok _ _ _ _ _ E (si_stack _ Hs) eq_refl) as [Hit Hrest].
      destruct (build_map_pairs wd items) as [pairs|] eqn:E2; [|exact I].
      assert (Hm : vok (VMap (map_of_pairs wd pairs)) = true).
      { rewrite vok_map. apply map_of_pairs_ok. eapply build_map_pairs_ok; [apply le_n|exact E2|exact Hit]. }
      nx0 IH Ht Hc; [|apply SInv_upd_stack; [exact Hs|apply forallb_cons_intro; assumption]|exact Ho].
      eapply cedges_match; [exact Hedges|left; reflexivity|].
      apply (crel_upd_stack A L s (2 * k) rest _ false Hrel); [symmetry; eapply pop_n_rest, E|discriminate].
    - (* BuildList *)
      destruct (pop_n k (stack s) []) as [[items rest]|] eqn:E; [|exact I].
      destruct (pop_n_ok _ _ _ _ _ E (si_stack _ Hs) eq_refl) as [Hit Hrest].
      nx0 IH Ht Hc; [|apply SInv_upd_stack; [exact Hs|apply forallb_cons_intro; [rewrite vok_arr; exact Hit|exact Hrest]]|exact Ho].
      eapply cedges_match; [exact Hedges|left; reflexivity|].
      apply (crel_upd_stack A L s k rest _ false Hrel); [symmetry; eapply pop_n_rest, E|discriminate].
    - (* BuildMapWithSpreads *)
      destruct (build_map_spreads wd (rev fl) (stack s) []) as [[m rest]|] eqn:E; [|exact I].
      destruct (build_map_spreads_ok _ _ _ _ _ E (si_stack _ Hs) eq_refl) as [Hm0 Hrest].
      nx0 IH Ht Hc; [|apply SInv_upd_stack; [exact Hs|apply forallb_cons_intro; [rewrite vok_map; exact Hm0|exact Hrest]]|exact Ho].
      eapply cedges_match; [exact Hedges|left; reflexivity|].
      apply (crel_upd_stack A L s (need_map fl) rest _ false Hrel); [rewrite <- need_map_rev_b; symmetry; eapply build_map_spreads_rest, E|discriminate].
    - (* BuildListWithSpreads *)
      destruct (build_list_spreads (rev fl) (stack s) []) as [[l rest]|] eqn:E; [|exact I].
      destruct (build_list_spreads_ok _ _ _ _ _ E (si_stack _ Hs) eq_refl) as [Hl Hrest].
      nx0 IH Ht Hc; [|apply SInv_upd_stack; [exact Hs|apply forallb_cons_intro; [rewrite vok_arr; exact Hl|exact Hrest]]|exact Ho].
      eapply cedges_match; [exact Hedges|left; reflexivity|].
      apply (crel_upd_stack A L s (need_list fl) rest _ false Hrel); [unfold need_list; rewrite <- (rev_length fl); symmetry; eapply build_list_spreads_rest, E|discriminate].
    - (* CallFunction *)
      destruct (pop1 s) as [[kw s1]|] eqn:Hp; [|exact I]. destruct (pop1_inv _ _ _ Hp Hs) as [Hkw Hs1].
      destruct (str_eqb n _) eqn:Esuper.
      + injection Hstep as Hstep; subst edges.
        (* super(): mint point; the nested block renders into a fresh buffer with the capture stack detached *)
        destruct (cur_block s1) as [cb|] eqn:Ecb; [|exact I].
        match goal with |- post (match ?x with _ => _ end) =>
          assert (Ex : x = find_block cb (blocks s1) []) by reflexivity; rewrite Ex; clear Ex end.
        destruct (find_block cb (blocks s1) []) as [[[pre e] post']|] eqn:Ef; [|exact I].
        destruct e as [[bn lin] lvl].
        destruct (find_block_ok _ _ _ _ _ Ef (si_blocks _ Hs1)) as (Hpre & Hlin & Hpost). cbn [fst snd] in Hlin.
        destruct (nth_error lin (S lvl)) as [bchunk|] eqn:En; [|exact I].
        assert (Hbc : chunk_okP bchunk). { rewrite Forall_forall in Hlin. apply Hlin. eapply nth_error_In, En. }
        assert (Hbl : forall l, blocks_okP (pre ++ (bn, lin, l) :: post')).
        { intros l. apply Forall_app. split; [exact Hpre|constructor; [exact Hlin|exact Hpost]]. }
        nest IH Ht Hbc.
        * apply SInv_upd_caps; [|reflexivity]. apply SInv_upd_blocks; [exact Hs1|apply Hbl].
        * reflexivity.
        * destruct on as [w1|text]; [exact I|]. destruct P as [Hs3 Htext]. cbn [OInv] in Htext.
          nx IH Ht Hc Hedges; [|exact Ho]. apply push_inv; [|exact Htext].
          apply SInv_upd_caps; [|apply Hs1]. apply SInv_upd_blocks; [exact Hs3|apply Hbl].
      + injection Hstep as Hstep; subst edges.
        destruct (kwargs_of kw) as [k0|] eqn:Ek; [|exact I].
        destruct (w_function wd n k0 (scope_of s1)) as [[[r|e] sf]|] eqn:Ef; try exact I.
        nx IH Ht Hc Hedges; [apply push_inv; [exact Hs1|eapply (wo_function Hw);
               [exact Ef|eapply kwargs_of_ok; eassumption|apply scope_of_ok, Hs1]]|exact Ho].
    - (* RenderInlineComponent: the result is a mint point *)
      destruct (pop1 s) as [[kw s1]|] eqn:Hp; [|exact I]. destruct (pop1_inv _ _ _ Hp Hs) as [Hkw Hs1].
      destruct (kwargs_of kw) as [k0|] eqn:Ek; [|repeat dm; exact I].
      destruct (assoc_get (w_components wd) n) as [[def cchunk]|] eqn:Ecp; [|exact I].
      destruct (w_build_ctx wd def k0 None) as [cctx|] eqn:Eb; [|exact I].
      destruct (Nat.ltb (w_max_depth wd) (S depth)); [exact I|].
      assert (Hcc : ctx_ok cctx = true)
        by (eapply (wo_build_ctx Hw); [exact Ecp|exact Eb|eapply kwargs_of_ok; eassumption|reflexivity]).
      nest IH Ht (wo_components Hw _ _ _ Ecp); [apply new_state_inv, Hcc|reflexivity|].
      destruct on as [w1|text]; [exact I|]. destruct P as [_ Htext]. cbn [OInv] in Htext.
      nx IH Ht Hc Hedges; [apply push_inv; assumption|exact Ho].
    - (* RenderBodyComponent: body.mark_safe() and the result are mint points *)
      destruct (nth 1 A false) eqn:Hn1; [|discriminate]. injection Hstep as Hstep; subst edges.
      destruct (pop1 s) as [[kw s1]|] eqn:Hp; [|exact I]. destruct (pop1_inv _ _ _ Hp Hs) as [Hkw Hs1].
      destruct (kwargs_of kw) as [k0|] eqn:Ek; [|repeat dm; exact I].
      destruct (assoc_get (w_components wd) n) as [[def cchunk]|] eqn:Ecp; [|exact I].
      destruct (pop1 s1) as [[b s2]|] eqn:Hp2; cbv beta iota; [|exact I].
      destruct (pop1_inv _ _ _ Hp2 Hs1) as [Hb Hs2].
      destruct (w_build_ctx wd def k0 (Some (mark_safe b))) as [cctx|] eqn:Eb; [|exact I].
      destruct (Nat.ltb (w_max_depth wd) (S depth)); [exact I|].
      (* the side condition: the slot under the kwargs is known to hold a flagged string, so
         mark_safe changes nothing and the body is clean by the invariant *)
      assert (Hfl : exists x, b = VStr x true).
      { destruct (proj1 Hrel 1 Hn1) as (x & Hx). destruct (pop1_stack _ _ _ Hp) as [E1 _].
        destruct (pop1_stack _ _ _ Hp2) as [E2 _]. cbn [c_stack] in Hx. rewrite E1, E2 in Hx. cbn in Hx.
        inversion Hx. eauto. }
      assert (Hmb : vok (mark_safe b) = true) by (destruct Hfl as (x & ->); exact Hb).
      pose proof (crel_pop1 _ _ _ _ _ Hp2 (crel_pop1 _ _ _ _ _ Hp Hrel)) as Hr2.
      rewrite skipn_skipn_b in Hr2. cbn [Nat.add] in Hr2.
      assert (Hcc : ctx_ok cctx = true)
        by (eapply (wo_build_ctx Hw); [exact Ecp|exact Eb|eapply kwargs_of_ok; eassumption|exact Hmb]).
      nest IH Ht (wo_components Hw _ _ _ Ecp); [apply new_state_inv, Hcc|reflexivity|].
      destruct on as [w1|text]; [exact I|]. destruct P as [_ Htext]. cbn [OInv] in Htext.
      nx0 IH Ht Hc; [|apply push_inv; assumption|exact Ho].
      eapply cedges_match; [exact Hedges|left; reflexivity|apply crel_push_true; exact Hr2].
    - (* ApplyFilter *)
      destruct (pop2 s) as [[[v kw] s1]|] eqn:Hp; [|exact I].
      destruct (pop2_inv _ _ _ _ Hp Hs) as (Hv & Hkw & Hs1).
      destruct (kwargs_of kw) as [k0|] eqn:Ek; [|exact I].
      destruct (w_filter wd n v k0 (scope_of s1)) as [[[r|e] sf]|] eqn:Ef; try exact I.
      nx IH Ht Hc Hedges; [apply push_inv; [exact Hs1|eapply (wo_filter Hw);
             [exact Ef|exact Hv|eapply kwargs_of_ok; eassumption|apply scope_of_ok, Hs1]]|exact Ho].
    - (* RunTest *)
      destruct (pop2 s) as [[[v kw] s1]|] eqn:Hp; [|exact I].
      destruct (pop2_inv _ _ _ _ Hp Hs) as (Hv & Hkw & Hs1).
      simple_case IH Ht Hc Ho Hedges.
    - (* RenderBlock *)
      destruct (assoc_get (t_lineage tpl) n) as [[|bchunk lin_rest]|] eqn:El; try exact I.
      pose proof (proj2 (proj2 (proj2 Ht)) _ _ El) as Hl.
      assert (Hbc : chunk_okP bchunk) by (inversion Hl; assumption).
      assert (Hs1 : SInv (upd_blocks s ((n, bchunk :: lin_rest, 0) :: blocks s) (Some n))).
      { apply SInv_upd_blocks; [exact Hs|constructor; [exact Hl|apply Hs]]. }
      dm.
      + nest IH Ht Hbc; [apply SInv_upd_caps; [exact Hs1|reflexivity]|reflexivity|]. destruct on as [w1|text]; [exact I|].
        destruct P as [Hs2 Htext]. cbn [OInv] in Htext.
        nx IH Ht Hc Hedges; [apply SInv_upd_block_buffer; [apply SInv_upd_caps; [apply SInv_upd_blocks; [exact Hs2|apply blocks_tl, Hs2]|apply Hs]|exact Htext]|exact Ho].
      + nest IH Ht Hbc; [exact Hs1|exact Ho|]. destruct P as [Hs2 Ho2].
        nx IH Ht Hc Hedges; [apply SInv_upd_blocks; [exact Hs2|apply blocks_tl, Hs2]|exact Ho2].
    - (* Jump *) nx IH Ht Hc Hedges; assumption.
    - (* PopJumpIfFalse *)
      destruct (pop1 s) as [[v s1]|] eqn:Hp; [|exact I]. destruct (pop1_inv _ _ _ Hp Hs) as [Hv Hs1].
      destruct (is_truthy v); nx IH Ht Hc Hedges; assumption.
    - (* JumpIfFalseOrPop *)
      destruct (pop1 s) as [[v s1]|] eqn:Hp; [|exact I]. destruct (pop1_inv _ _ _ Hp Hs) as [Hv Hs1].
      destruct (is_truthy v); nx IH Ht Hc Hedges; assumption.
    - (* JumpIfTrueOrPop *)
      destruct (pop1 s) as [[v s1]|] eqn:Hp; [|exact I]. destruct (pop1_inv _ _ _ Hp Hs) as [Hv Hs1].
      destruct (is_truthy v); nx IH Ht Hc Hedges; assumption.
    - (* Capture *)
      nx IH Ht Hc Hedges; [apply SInv_upd_caps; [exact Hs|apply forallb_cons_intro; [reflexivity|apply Hs]]|exact Ho].
    - (* EndCapture: mint point; the buffer is clean by the invariant *)
      destruct (caps s) as [|c ct] eqn:Ec; [exact I|].
      pose proof (si_caps _ Hs) as Hcaps. rewrite Ec in Hcaps. cbn [forallb] in Hcaps.
      apply andb_prop in Hcaps. destruct Hcaps as [Hcc Hct].
      nx IH Ht Hc Hedges; [apply push_inv; [apply SInv_upd_caps; assumption|exact Hcc]|exact Ho].
    - (* StartIterate *)
      destruct (pop1 s) as [[v s1]|] eqn:Hp; [|exact I]. destruct (pop1_inv _ _ _ Hp Hs) as [Hv Hs1].
      destruct (iter_items v) as [items|] eqn:Ei; [|exact I].
      dm; [exact I|].
      nx0 IH Ht Hc; [eapply cedges_match; [exact Hedges|left; reflexivity|apply crel_start_iter; eapply crel_pop1; eassumption]|apply SInv_upd_loops; [exact Hs1|apply forallb_cons_intro;
             [apply new_loop_ok; eapply iter_items_ok; eassumption|apply Hs1]]|exact Ho].
    - (* StartIterateComprehension *)
      destruct (pop1 s) as [[v s1]|] eqn:Hp; [|exact I]. destruct (pop1_inv _ _ _ Hp Hs) as [Hv Hs1].
      destruct (iter_items v) as [items|] eqn:Ei; [|exact I].
      dm; [exact I|].
      nx0 IH Ht Hc; [eapply cedges_match; [exact Hedges|left; reflexivity|apply crel_start_iter; eapply crel_pop1; eassumption]|apply SInv_upd_loops; [exact Hs1|apply forallb_cons_intro;
             [apply new_loop_ok; eapply iter_items_ok; eassumption|apply Hs1]]|exact Ho].
    - (* Iterate *)
      destruct (loops s) as [|fr rest] eqn:El.
      { nx0 IH Ht Hc; [|assumption|assumption]. eapply cedges_match; [exact Hedges|left; reflexivity|].
        apply (crel_iterate_nil A L s t Hrel El). }
      pose proof (si_loops _ Hs) as Hl. rewrite El in Hl. cbn [forallb] in Hl.
      apply andb_prop in Hl. destruct Hl as [Hfr Hrest].
      destruct (lf_rest fr); [nx0 IH Ht Hc; [eapply cedges_match; [exact Hedges|right; left; reflexivity|exact Hrel]|assumption|assumption]|].
      nx0 IH Ht Hc; [eapply cedges_match; [exact Hedges|left; reflexivity|apply (crel_iterate A L s fr rest t Hrel El)]|apply SInv_upd_loops; [exact Hs|apply forallb_cons_intro; [apply lf_advance_ok, Hfr|exact Hrest]]|exact Ho].
    - (* StoreLocal *)
      destruct (loops s) as [|fr rest] eqn:El; [nx IH Ht Hc Hedges; assumption|].
      pose proof (si_loops _ Hs) as Hl. rewrite El in Hl. cbn [forallb] in Hl.
      apply andb_prop in Hl. destruct Hl as [Hfr Hrest].
      nx0 IH Ht Hc; [eapply cedges_match; [exact Hedges|left; reflexivity|]|apply SInv_upd_loops; [exact Hs|apply forallb_cons_intro; [apply lf_store_local_ok, Hfr|exact Hrest]]|exact Ho].
      split; [apply Hrel|]. cbn [c_loops loops upd_loops]. eapply klo_sim_head; [rewrite <- El; apply Hrel|apply lf_store_local_end].

    - (* StoreDidNotIterate *)
      destruct (loops s) as [|fr rest] eqn:El.
      + nx0 IH Ht Hc; [|assumption|assumption].
        destruct L as [|[| |t0] L']; injection Hstep as Hstep; subst edges;
          (eapply cedges_match; [exact Hedges|left; reflexivity|]);
          try (split; [apply kst_nil|apply Hrel]).
        * destruct (proj2 Hrel 0) as (fr0 & X). cbn in X. rewrite El in X. discriminate.
        * destruct (proj2 Hrel 0) as (fr0 & X & _). cbn in X. rewrite El in X. discriminate.
      + nx0 IH Ht Hc; [|apply push_inv; [exact Hs|reflexivity]|exact Ho].
        destruct L as [|[| |t0] L']; injection Hstep as Hstep; subst edges;
          (eapply cedges_match; [exact Hedges|left; reflexivity|]);
          first [apply crel_push_false; exact Hrel | split; [apply kst_nil|apply Hrel]].

    - (* Break *)
      destruct (loops s) as [|fr rest] eqn:El.
      + nx0 IH Ht Hc; [|assumption|assumption].
        destruct L as [|[| |t0] L']; injection Hstep as Hstep; subst edges;
          try (eapply cedges_match; [exact Hedges|left; reflexivity|exact Hrel]).
        destruct (proj2 Hrel 0) as (fr0 & X & _). cbn in X. rewrite El in X. discriminate.
      + nx0 IH Ht Hc; [|assumption|assumption].
        assert (Hany : forallb (cedge_ok (the_table ch)) ((S ip, mkC A L) :: map (fun t => (t, mkC A L)) (seq 0 (S (length ch)))) = true ->
                       cmatch (the_table ch) (lf_end_ip fr) s).
        { intros Hed. destruct (Nat.le_gt_cases (lf_end_ip fr) (length ch)) as [Hle|Hgt].
          - eapply cedges_match; [exact Hed| |exact Hrel]. right. apply in_map_iff. exists (lf_end_ip fr).
            split; [reflexivity|apply in_seq; lia].
          - eapply cmatch_out; [exact (proj1 (proj2 Hc))|exact Hgt]. }
        destruct L as [|[| |t0] L']; injection Hstep as Hstep; subst edges; try (apply Hany; exact Hedges).
        destruct (proj2 Hrel 0) as (fr0 & X & Hend). cbn in X. rewrite El in X. inversion X; subst fr0.
        rewrite Hend. eapply cedges_match; [exact Hedges|left; reflexivity|exact Hrel].

    - (* PopLoop *)
      nx0 IH Ht Hc; [eapply cedges_match; [exact Hedges|left; reflexivity|split; [apply Hrel|apply klo_tl, Hrel]]|apply SInv_upd_loops; [exact Hs|apply forallb_tl, Hs]|exact Ho].
    - (* AppendToList *)
      destruct (stack s) as [|v [|l t]] eqn:Est; try exact I. destruct l as [| | | | | |l| |]; try exact I.
      pose proof (si_stack _ Hs) as Hst. rewrite Est in Hst. cbn [forallb] in Hst.
      apply andb_prop in Hst; destruct Hst as [Hv Hst]. apply andb_prop in Hst; destruct Hst as [Hl Hrest].
      nx0 IH Ht Hc; [eapply cedges_match; [exact Hedges|left; reflexivity|apply (crel_upd_stack A L s 2 t _ false Hrel); [rewrite Est; reflexivity|discriminate]]|apply SInv_upd_stack; [exact Hs|apply forallb_cons_intro; [|exact Hrest]]|exact Ho].
      rewrite vok_arr in *. rewrite forallb_app, Hl. cbn. rewrite Hv. reflexivity.
    - (* Mul *) destruct (pop2 s) as [[[a b] s1]|] eqn:Hp; [|exact I].
      destruct (pop2_inv _ _ _ _ Hp Hs) as (Ha & Hb & Hs1). simple_case IH Ht Hc Ho Hedges.
    - (* Div *) destruct (pop2 s) as [[[a b] s1]|] eqn:Hp; [|exact I].
      destruct (pop2_inv _ _ _ _ Hp Hs) as (Ha & Hb & Hs1). simple_case IH Ht Hc Ho Hedges.
    - (* FloorDiv *) destruct (pop2 s) as [[[a b] s1]|] eqn:Hp; [|exact I].
      destruct (pop2_inv _ _ _ _ Hp Hs) as (Ha & Hb & Hs1). simple_case IH Ht Hc Ho Hedges.
    - (* Mod *) destruct (pop2 s) as [[[a b] s1]|] eqn:Hp; [|exact I].
      destruct (pop2_inv _ _ _ _ Hp Hs) as (Ha & Hb & Hs1). simple_case IH Ht Hc Ho Hedges.
    - (* Plus *) destruct (pop2 s) as [[[a b] s1]|] eqn:Hp; [|exact I].
      destruct (pop2_inv _ _ _ _ Hp Hs) as (Ha & Hb & Hs1). simple_case IH Ht Hc Ho Hedges.
    - (* Minus *) destruct (pop2 s) as [[[a b] s1]|] eqn:Hp; [|exact I].
      destruct (pop2_inv _ _ _ _ Hp Hs) as (Ha & Hb & Hs1). simple_case IH Ht Hc Ho Hedges.
    - (* Power *) destruct (pop2 s) as [[[a b] s1]|] eqn:Hp; [|exact I].
      destruct (pop2_inv _ _ _ _ Hp Hs) as (Ha & Hb & Hs1). simple_case IH Ht Hc Ho Hedges.
    - (* LessThan *) destruct (pop2 s) as [[[a b] s1]|] eqn:Hp; [|exact I].
      destruct (pop2_inv _ _ _ _ Hp Hs) as (Ha & Hb & Hs1). simple_case IH Ht Hc Ho Hedges.
    - (* GreaterThan *) destruct (pop2 s) as [[[a b] s1]|] eqn:Hp; [|exact I].
      destruct (pop2_inv _ _ _ _ Hp Hs) as (Ha & Hb & Hs1). simple_case IH Ht Hc Ho Hedges.
    - (* LessThanOrEqual *) destruct (pop2 s) as [[[a b] s1]|] eqn:Hp; [|exact I].
      destruct (pop2_inv _ _ _ _ Hp Hs) as (Ha & Hb & Hs1). simple_case IH Ht Hc Ho Hedges.
    - (* GreaterThanOrEqual *) destruct (pop2 s) as [[[a b] s1]|] eqn:Hp; [|exact I].
      destruct (pop2_inv _ _ _ _ Hp Hs) as (Ha & Hb & Hs1). simple_case IH Ht Hc Ho Hedges.
    - (* Equal *) destruct (pop2 s) as [[[a b] s1]|] eqn:Hp; [|exact I].
      destruct (pop2_inv _ _ _ _ Hp Hs) as (Ha & Hb & Hs1). simple_case IH Ht Hc Ho Hedges.
    - (* NotEqual *) destruct (pop2 s) as [[[a b] s1]|] eqn:Hp; [|exact I].
      destruct (pop2_inv _ _ _ _ Hp Hs) as (Ha & Hb & Hs1). simple_case IH Ht Hc Ho Hedges.
    - (* StrConcat: the result is a Normal string whatever the operands *)
      destruct (pop2 s) as [[[a b] s1]|] eqn:Hp; [|exact I].
      destruct (pop2_inv _ _ _ _ Hp Hs) as (Ha & Hb & Hs1).
      nx IH Ht Hc Hedges; [apply push_inv; [exact Hs1|reflexivity]|exact Ho].
    - (* InOp *) destruct (pop2 s) as [[[a b] s1]|] eqn:Hp; [|exact I].
      destruct (pop2_inv _ _ _ _ Hp Hs) as (Ha & Hb & Hs1). simple_case IH Ht Hc Ho Hedges.
    - (* Not *)
      destruct (pop1 s) as [[v s1]|] eqn:Hp; [|exact I]. destruct (pop1_inv _ _ _ Hp Hs) as [Hv Hs1]. simple_case IH Ht Hc Ho Hedges.
    - (* Negative *)
      destruct (pop1 s) as [[v s1]|] eqn:Hp; [|exact I]. destruct (pop1_inv _ _ _ Hp Hs) as [Hv Hs1]. simple_case IH Ht Hc Ho Hedges.
    - (* LoadPath *)
      destruct (load_path_v wd s p) as [v|] eqn:E; [|exact I].
      nx IH Ht Hc Hedges; [apply push_inv; [exact Hs|eapply load_path_v_ok; eassumption]|exact Ho].
    - (* WritePath *)
      destruct (write_path_v wd s p) as [v|] eqn:E; [|exact I].
      destruct (write_value W wr wd true s o v) as [[s1 o1]|] eqn:Ew; [|exact I].
      destruct (write_value_inv _ _ _ _ _ Ew Hs Ho (write_path_v_ok _ _ _ E Hs)) as [Hs1 Ho1]. nx IH Ht Hc Hedges; assumption.
  Qed.

  Theorem run_inv : forall fuel, IHf fuel.
  Proof.
    induction fuel as [|f IH]; [|apply step_inv, IH].
    intros tpl depth ch ip s o _ _ _ _ _. exact I.
  Qed.

End Inv.

(* no information asked about the pieces *)
Definition TT (_ : str) : Prop := True.

(* the entry points: render / render_block (no autoescape override: the name suffix decides) *)
Theorem render_to_inv W wr wd ok (Wok : W -> Prop) :
  world_ok wd ok None TT ->
  (forall w t w', wr w t = Some w' -> Wok w -> clean ok t = true -> Wok w') ->
  forall fuel tpl block c g w,
  tpl_okP ok None TT tpl -> ctx_ok ok c = true -> ctx_ok ok g = true -> Wok w ->
  match render_to W wr wd fuel tpl block c g w with
  | RDone _ (SinkTop w') => Wok w'
  | RDone _ (SinkBuf b) => clean ok b = true
  | _ => True
  end.
Proof.
  intros Hw Hwr fuel tpl block c g w Ht Hc Hg Hw0. unfold render_to.
  match goal with |- context [run W wr wd fuel tpl None 0 (t_root_chunk tpl) 0 ?s0 _] => set (s0' := s0) end.
  assert (Hs0 : SInv ok TT s0'). { constructor; cbn; try reflexivity; [constructor|exact Hc|exact Hg]. }
  assert (Hwr' : forall w t w', wr w t = Some w' -> Wok w -> clean ok t = true -> TT t -> Wok w') by (intros; eapply Hwr; eassumption).
  assert (Hroot := proj1 (proj2 (proj2 Ht))).
  destruct block as [b|].
  - pose proof (run_inv W wr wd ok Wok None TT Hw Hwr' (fun _ _ => I) (fun _ _ => I) fuel tpl 0 (t_root_chunk tpl) 0 s0' (SinkBuf [])
                  Ht Hroot (cmatch_entry _ _ _ (proj1 (proj2 Hroot))) Hs0 eq_refl) as P.
    destruct (run W wr wd fuel tpl None 0 (t_root_chunk tpl) 0 s0' (SinkBuf [])) as [s1 o1| |]; try exact I.
    destruct P as [Hs1 _].
    destruct (wr w (block_buffer s1)) as [w1|] eqn:Ew; [|exact I].
    eapply Hwr; [exact Ew|exact Hw0|apply Hs1].
  - pose proof (run_inv W wr wd ok Wok None TT Hw Hwr' (fun _ _ => I) (fun _ _ => I) fuel tpl 0 (t_root_chunk tpl) 0 s0' (SinkTop w)
                  Ht Hroot (cmatch_entry _ _ _ (proj1 (proj2 Hroot))) Hs0 Hw0) as P.
    destruct (run W wr wd fuel tpl None 0 (t_root_chunk tpl) 0 s0' (SinkTop w)) as [s1 [w1|b1]| |]; try exact I; apply P.
Qed.

(* ================================================================== part 3 *)
From TeraV Require Import Model.World0 Model.WorldC01.

(* ---------- Value::is_safe against the generated arms ---------- *)

Lemma value_is_safe_matches_source : forall v, value_is_safe v = is_safe_gen v.
Proof. intros [ | | b | r z | f | s fl | l | m | b ]; try reflexivity. destruct r; reflexivity. Qed.

Lemma is_safe_arms_agree_true : is_safe_arms_agree = true.
Proof. vm_compute. reflexivity. Qed.

(* ---------- the default escaper ---------- *)

Lemma special_cases c : special c = true -> (c = 60 \/ c = 62 \/ c = 34 \/ c = 39)%N.
Proof.
  unfold special. rewrite !orb_true_iff, !N.eqb_eq. tauto.
Qed.

Lemma esc_lookup_clean_gen c : forall tbl,
  (forall kr, In kr tbl -> forallb ok_html (snd kr) = true) ->
  (special c = true -> exists kr, In kr tbl /\ fst kr = c) ->
  forallb ok_html (esc_lookup tbl c) = true.
Proof.
  induction tbl as [|[k r] t IH]; intros Hrep Hkey; cbn.
  - unfold ok_html. destruct (special c) eqn:E; [|reflexivity].
    destruct (Hkey eq_refl) as (kr & [] & _).
  - destruct (k =? c)%N eqn:Ek.
    + apply (Hrep (k, r)). left. reflexivity.
    + apply IH.
      * intros kr Hin. apply Hrep. right. exact Hin.
      * intros Hs. destruct (Hkey Hs) as (kr & [Hh|Ht] & Hf).
        -- subst kr. cbn in Hf. subst k. rewrite N.eqb_refl in Ek. discriminate.
        -- exists kr. auto.
Qed.

Lemma escape_table_clean tbl :
  escape_map_ok tbl = true -> forall s, clean ok_html (flat_map (esc_lookup tbl) s) = true.
Proof.
  intros H. unfold escape_map_ok in H. apply andb_prop in H. destruct H as [Hrep Hkeys].
  rewrite forallb_forall in Hrep. rewrite forallb_forall in Hkeys.
  induction s as [|c t IH]; [reflexivity|]. cbn [flat_map]. apply clean_app_intro; [|exact IH].
  apply esc_lookup_clean_gen; [exact Hrep|].
  intros Hs. assert (Hin : In c [60; 62; 34; 39]%N).
  { apply special_cases in Hs. cbn. destruct Hs as [-> | [-> | [-> | ->]]]; auto. }
  specialize (Hkeys _ Hin). apply existsb_exists in Hkeys. destruct Hkeys as (kr & Hkr & Heq).
  exists kr. split; [exact Hkr|]. apply N.eqb_eq, Heq.
Qed.

Lemma escape_html_map_ok : escape_map_ok escape_html_map = true.
Proof. vm_compute. reflexivity. Qed.

Theorem escape_html_clean : forall s, clean ok_html (escape_html s) = true.
Proof. intros s. unfold escape_html. apply escape_table_clean, escape_html_map_ok. Qed.

(* the entity rule for the ampersand: the escaper's output is a concatenation of pieces, each either
   one character other than & or a replacement of the table, and every replacement starts with its
   only & *)
Lemma escape_html_map_amp_ok : escape_map_amp_ok escape_html_map = true.
Proof. vm_compute. reflexivity. Qed.

Lemma esc_lookup_piece c : forall tbl,
  (exists k, In (k, esc_lookup tbl c) tbl) \/ (esc_lookup tbl c = [c] /\ forall k r, In (k, r) tbl -> k <> c).
Proof.
  induction tbl as [|[k r] t IH]; cbn.
  - right. split; [reflexivity|]. intros k r [].
  - destruct (k =? c)%N eqn:Ek.
    + left. exists k. left. reflexivity.
    + destruct IH as [(k' & Hin)|(Heq & Hno)].
      * left. exists k'. right. exact Hin.
      * right. split; [exact Heq|]. intros k' r' [Hh|Ht].
        -- inversion Hh; subst. intros ->. rewrite N.eqb_refl in Ek. discriminate.
        -- eapply Hno, Ht.
Qed.

Theorem escape_html_entities : forall s,
  escape_html s = concat (map (esc_lookup escape_html_map) s) /\
  Forall (fun piece => (exists c, piece = [c] /\ c <> amp) \/
                       (exists r, piece = amp :: r /\ ~ In amp r /\ In piece (map snd escape_html_map)))
         (map (esc_lookup escape_html_map) s).
Proof.
  intros s. split; [unfold escape_html; apply flat_map_concat_map|].
  apply Forall_forall. intros piece Hp. apply in_map_iff in Hp. destruct Hp as (c & <- & _).
  pose proof escape_html_map_amp_ok as Hamp. unfold escape_map_amp_ok in Hamp.
  apply andb_prop in Hamp. destruct Hamp as [Hkey Hshape].
  destruct (esc_lookup_piece c escape_html_map) as [(k & Hin)|(Heq & Hno)].
  - right. rewrite forallb_forall in Hshape. specialize (Hshape _ Hin). cbn [snd] in Hshape.
    destruct (esc_lookup escape_html_map c) as [|a r] eqn:E; [discriminate|].
    apply andb_prop in Hshape. destruct Hshape as [Ha Hr]. apply N.eqb_eq in Ha. subst a.
    exists r. split; [reflexivity|]. split.
    + intros Hc. apply negb_true_iff in Hr. assert (existsb (N.eqb amp) r = true); [|congruence].
      apply existsb_exists. exists amp. split; [exact Hc|apply N.eqb_refl].
    + apply in_map_iff. exists (k, amp :: r). split; [reflexivity|exact Hin].
  - left. exists c. split; [exact Heq|]. intros ->.
    apply existsb_exists in Hkey. destruct Hkey as ([k r] & Hin & Hk). cbn in Hk. apply N.eqb_eq in Hk.
    eapply Hno; eassumption.
Qed.

(* ---------- Value::format of the kinds is_safe lets through ---------- *)

Lemma digit_ok n : ok_html (48 + n mod 10) = true.
Proof.
  assert (H : (n mod 10 < 10)%N) by (apply N.mod_lt; discriminate).
  unfold ok_html, special. generalize dependent (n mod 10)%N. intros x H.
  destruct (48 + x =? 60)%N eqn:E1; [apply N.eqb_eq in E1; lia|].
  destruct (48 + x =? 62)%N eqn:E2; [apply N.eqb_eq in E2; lia|].
  destruct (48 + x =? 34)%N eqn:E3; [apply N.eqb_eq in E3; lia|].
  destruct (48 + x =? 39)%N eqn:E4; [apply N.eqb_eq in E4; lia|]. reflexivity.
Qed.

Lemma pos_digits_clean : forall fuel n acc,
  clean ok_html acc = true -> clean ok_html (pos_digits fuel n acc) = true.
Proof.
  induction fuel as [|f IH]; intros n acc Ha; cbn [pos_digits]; [exact Ha|].
  assert (Hd : clean ok_html ((48 + n mod 10)%N :: acc) = true).
  { unfold Taint.clean in *. cbn [forallb]. rewrite digit_ok. exact Ha. }
  destruct (n / 10 =? 0)%N; [exact Hd|apply IH, Hd].
Qed.

Lemma z_to_str_clean z : clean ok_html (z_to_str z) = true.
Proof.
  destruct z; cbn [z_to_str]; [reflexivity| |]; unfold n_to_str.
  - apply pos_digits_clean. reflexivity.
  - change (ok_html 45 && clean ok_html (pos_digits (S (N.to_nat (N.log2 (N.pos p)))) (N.pos p) []) = true).
    rewrite pos_digits_clean; reflexivity.
Qed.

Theorem scalar_format_clean (fp : spec_float -> str) :
  (forall f, clean ok_html (fp f) = true) ->
  forall v, value_is_safe v = true -> vok ok_html v = true -> clean ok_html (format_with fp v) = true.
Proof.
  intros Hfp [ | | b | r z | f | s fl | l | m | b ] Hsafe Hv; cbn in *; try discriminate; try reflexivity.
  - destruct b; reflexivity.
  - apply z_to_str_clean.
  - apply Hfp.
  - subst fl. exact Hv.
Qed.

(* ---------- from the decidable checks to the Prop-level conditions ---------- *)

Lemma assoc_get_in {A} (l : list (str * A)) n x : assoc_get l n = Some x -> exists k, In (k, x) l.
Proof.
  induction l as [|[k v] t IH]; cbn; [discriminate|].
  destruct (str_eqb k n); [intros E; inversion E; subst; exists k; left; reflexivity|].
  intros E. destruct (IH E) as (k' & Hin). exists k'. right. exact Hin.
Qed.

Definition tpl_ok_for (ok : N -> bool) (ae : option bool) (t : template) : bool :=
  match ae with
  | None => tpl_ok ok t
  | Some true => tpl_chunks_ok ok t
  | Some false => false
  end.

Lemma tpl_okP_of ok ae t : tpl_ok_for ok ae t = true -> tpl_bodies_ok t = true -> tpl_okP ok ae TT t.
Proof.
  intros H Hb.
  assert (Hc : aeon ae t = true /\ tpl_chunks_ok ok t = true).
  { unfold tpl_ok_for, aeon in *. destruct ae as [[|]|]; try discriminate; [auto|].
    unfold tpl_ok in H. unfold tpl_chunks_ok. rewrite !andb_true_iff in *. tauto. }
  destruct Hc as [Hae Hch]. unfold tpl_chunks_ok in Hch. rewrite !andb_true_iff in Hch.
  destruct Hch as [[H1 H2] H3]. unfold tpl_bodies_ok in Hb. rewrite !andb_true_iff in Hb. destruct Hb as [[B1 B2] B3].
  assert (HTT : forall ch, forall t0, In (WriteText t0) ch -> TT t0) by (intros; exact I).
  split; [exact Hae|]. split; [repeat split; auto|]. split; [repeat split; auto|].
  intros b lin E. apply assoc_get_in in E. destruct E as (k & Hin).
  rewrite forallb_forall in H3. specialize (H3 _ Hin). cbn [snd] in H3.
  rewrite forallb_forall in B3. specialize (B3 _ Hin). cbn [snd] in B3.
  apply Forall_forall. intros ch Hch. rewrite forallb_forall in H3, B3. split; [apply H3, Hch|split; [apply B3, Hch|apply HTT]].
Qed.

Section Flat.
  Variable wd : world.
  Variable ok : N -> bool.
  Variable ae : option bool.
  Hypothesis Hesc : forall s, clean ok (w_escape wd s) = true.
  Hypothesis Hfmt : forall v, value_is_safe v = true -> vok ok v = true -> clean ok (w_format wd v) = true.
  Hypothesis Hfilter : forall n v k sc r sf, w_filter wd n v k sc = Some (ROk r, sf) ->
      vok ok v = true -> kw_ok ok k = true -> scope_ok ok sc = true -> vok ok (if sf then mark_safe r else r) = true.
  Hypothesis Hfunction : forall n k sc r sf, w_function wd n k sc = Some (ROk r, sf) ->
      kw_ok ok k = true -> scope_ok ok sc = true -> vok ok (if sf then mark_safe r else r) = true.
  Hypothesis Hmath : forall i a b c, w_math wd i a b = ROk c -> vok ok a = true -> vok ok b = true -> vok ok c = true.
  Hypothesis Hnegate : forall a c, w_negate wd a = ROk c -> vok ok a = true -> vok ok c = true.
  Hypothesis Hmapget : forall m k x, w_map_get wd m k = Some x -> kw_ok ok m = true -> vok ok x = true.
  Hypothesis Hgetattr : forall v a x, w_get_attr wd v a = Some x -> vok ok v = true -> vok ok x = true.
  Hypothesis Hbuild : forall n d ch, assoc_get (w_components wd) n = Some (d, ch) ->
      forall k b c, w_build_ctx wd d k b = ROk c -> kw_ok ok k = true ->
      obody_ok ok b = true -> ctx_ok ok c = true.
  Hypothesis Htpls : forall n t, assoc_get (w_templates wd) n = Some t ->
      tpl_ok_for ok ae t = true /\ tpl_bodies_ok t = true.
  Hypothesis Hcomps : forall n d c, assoc_get (w_components wd) n = Some (d, c) ->
      chunk_ok ok c = true /\ bodies_from_capture c = true.

  Lemma plain_world_ok : world_ok wd ok ae TT.
  Proof.
    constructor; try assumption; [|intros n d c E; destruct (Hcomps _ _ _ E); repeat split; auto; intros; exact I].
    intros n t E. destruct (Htpls _ _ E). apply tpl_okP_of; assumption.
  Qed.
End Flat.

Lemma wr_str_clean ok : forall (w t w' : str),
  wr_str w t = Some w' -> clean ok w = true -> clean ok t = true -> clean ok w' = true.
Proof. intros w t w' E Hw Ht. inversion E; subst. apply clean_app_intro; assumption. Qed.

(* ---------- (A) the property, special case "literals without specials" ---------- *)

Section Default.
  Variable wd : world.
  Variable fp : spec_float -> str.
  Hypothesis Hesc : w_escape wd = escape_html.
  Hypothesis Hfmt : w_format wd = format_with fp.
  Hypothesis Hfp : forall f, clean ok_html (fp f) = true.
  Hypothesis Hfilter : forall n v k sc r sf, w_filter wd n v k sc = Some (ROk r, sf) ->
      vok ok_html v = true -> kw_ok ok_html k = true -> scope_ok ok_html sc = true ->
      vok ok_html (if sf then mark_safe r else r) = true.
  Hypothesis Hfunction : forall n k sc r sf, w_function wd n k sc = Some (ROk r, sf) ->
      kw_ok ok_html k = true -> scope_ok ok_html sc = true -> vok ok_html (if sf then mark_safe r else r) = true.
  Hypothesis Hmath : forall i a b c, w_math wd i a b = ROk c -> vok ok_html a = true -> vok ok_html b = true -> vok ok_html c = true.
  Hypothesis Hnegate : forall a c, w_negate wd a = ROk c -> vok ok_html a = true -> vok ok_html c = true.
  Hypothesis Hmapget : forall m k x, w_map_get wd m k = Some x -> kw_ok ok_html m = true -> vok ok_html x = true.
  Hypothesis Hgetattr : forall v a x, w_get_attr wd v a = Some x -> vok ok_html v = true -> vok ok_html x = true.
  Hypothesis Hbuild : forall n d ch, assoc_get (w_components wd) n = Some (d, ch) ->
      forall k b c, w_build_ctx wd d k b = ROk c -> kw_ok ok_html k = true ->
      obody_ok ok_html b = true -> ctx_ok ok_html c = true.
  Hypothesis Hcomps : forall n d c, assoc_get (w_components wd) n = Some (d, c) ->
      chunk_ok ok_html c = true /\ bodies_from_capture c = true.

  Lemma Hesc' : forall s, clean ok_html (w_escape wd s) = true.
  Proof. intros s. rewrite Hesc. apply escape_html_clean. Qed.
  Lemma Hfmt' : forall v, value_is_safe v = true -> vok ok_html v = true -> clean ok_html (w_format wd v) = true.
  Proof. intros v. rewrite Hfmt. apply scalar_format_clean, Hfp. Qed.

  Theorem no_raw_data_when_autoescape_on :
    (forall n t, assoc_get (w_templates wd) n = Some t -> tpl_ok ok_html t = true /\ tpl_bodies_ok t = true) ->
    forall fuel tpl block c g,
    tpl_ok ok_html tpl = true -> tpl_bodies_ok tpl = true -> ctx_ok ok_html c = true -> ctx_ok ok_html g = true ->
    match render_to str wr_str wd fuel tpl block c g [] with
    | RDone _ (SinkTop out) => clean ok_html out = true
    | _ => True
    end.
  Proof.
    intros Htpls fuel tpl block c g Ht Htb Hc Hg.
    pose proof (render_to_inv str wr_str wd ok_html (fun w => clean ok_html w = true)
                  (plain_world_ok wd ok_html None Hesc' Hfmt' Hfilter Hfunction Hmath Hnegate Hmapget Hgetattr
                     Hbuild Htpls Hcomps)
                  (wr_str_clean ok_html) fuel tpl block c g [] (tpl_okP_of ok_html None tpl Ht Htb) Hc Hg eq_refl) as P.
    destruct (render_to str wr_str wd fuel tpl block c g []) as [s1 [out|b]| |]; auto.
  Qed.

  (* render_component(name, ctx, body, autoescape = true): the component chunk starts the run, the
     override is Some true; templates reached through includes need not be autoescaped by name *)
  Theorem render_component_clean :
    (forall n t, assoc_get (w_templates wd) n = Some t -> tpl_chunks_ok ok_html t = true /\ tpl_bodies_ok t = true) ->
    forall fuel tpl cchunk cctx,
    tpl_chunks_ok ok_html tpl = true -> tpl_bodies_ok tpl = true ->
    chunk_ok ok_html cchunk = true -> bodies_from_capture cchunk = true -> ctx_ok ok_html cctx = true ->
    match run str wr_str wd fuel tpl (Some true) 0 cchunk 0 (new_state cctx) (SinkTop []) with
    | RDone _ (SinkTop out) => clean ok_html out = true
    | _ => True
    end.
  Proof.
    intros Htpls fuel tpl cchunk cctx Ht Htb Hch Hcb Hc.
    pose proof (run_inv str wr_str wd ok_html (fun w => clean ok_html w = true) (Some true) TT
                  (plain_world_ok wd ok_html (Some true) Hesc' Hfmt' Hfilter Hfunction Hmath Hnegate Hmapget Hgetattr
                     Hbuild Htpls Hcomps)
                  (fun w t w' E Hw0 Ht0 _ => wr_str_clean ok_html w t w' E Hw0 Ht0) (fun _ _ => I) (fun _ _ => I)
                  fuel tpl 0 cchunk 0 (new_state cctx) (SinkTop [])
                  (tpl_okP_of ok_html (Some true) tpl Ht Htb) (conj Hch (conj Hcb (fun _ _ => I))) (cmatch_entry _ _ _ Hcb)
                  (new_state_inv ok_html TT cctx Hc) eq_refl) as P.
    destruct (run str wr_str wd fuel tpl (Some true) 0 cchunk 0 (new_state cctx) (SinkTop []))
      as [s1 [out|b]| |]; try exact I. apply P.
  Qed.
End Default.

(* ---------- the concrete world of the correspondence satisfies the hypotheses ---------- *)

Lemma map_get_ok ok m k x : map_get m k = Some x -> kw_ok ok m = true -> vok ok x = true.
Proof.
  induction m as [|[k' v] t IH]; cbn; [discriminate|]. intros E H. apply andb_prop in H. destruct H as [Hv Ht].
  destruct (key_eq k' k); [inversion E; subst; exact Hv|apply IH; assumption].
Qed.

Lemma get_attr_ok ok v a x : get_attr v a = Some x -> vok ok v = true -> vok ok x = true.
Proof. destruct v; cbn [get_attr]; try discriminate. intros E H. rewrite vok_map in H. eapply map_get_ok; eassumption. Qed.

Lemma filter0_ok ok name v k sc r sf :
  str_eqb name n_safe = false ->
  filter0 name v k sc = Some (ROk r, sf) -> vok ok v = true -> kw_ok ok k = true ->
  vok ok (if sf then mark_safe r else r) = true.
Proof.
  intros Hns E Hv Hk. unfold filter0 in E. rewrite Hns in E.
  destruct (str_eqb name n_default).
  - inversion E; subst; clear E. unfold kw_get in *.
    destruct (map_get k (KStr n_value false)) as [d|] eqn:Ed; [|discriminate].
    assert (Hd : vok ok d = true) by (eapply map_get_ok; eassumption).
    destruct (map_get k (KStr n_boolean false)) as [[ | | [|] | | | | | | ]|]; try discriminate;
      match goal with H : ROk _ = ROk _ |- _ => inversion H; subst; clear H end;
      match goal with |- vok ok (if ?c then _ else _) = true => destruct c; assumption end.
  - destruct (str_eqb name n_upper).
    + inversion E; subst; clear E. destruct v; try discriminate.
      match goal with H : ROk _ = ROk _ |- _ => inversion H; subst; reflexivity end.
    + destruct (str_eqb name n_length); [|discriminate]. inversion E; subst; clear E.
      destruct v; try discriminate; match goal with H : ROk _ = ROk _ |- _ => inversion H; subst; reflexivity end.
Qed.

Lemma filter1_ok ok name v k sc r sf :
  filter1 false name v k sc = Some (ROk r, sf) -> vok ok v = true -> kw_ok ok k = true ->
  vok ok (if sf then mark_safe r else r) = true.
Proof.
  unfold filter1. destruct (str_eqb name n_safe) eqn:Es; [discriminate|].
  destruct (str_eqb name n_escape_html).
  - intros E _ _. inversion E; subst; clear E. destruct v; try discriminate.
    match goal with H : ROk _ = ROk _ |- _ => inversion H; subst; reflexivity end.
  - intros E. eapply filter0_ok; eassumption.
Qed.

Definition def_ok (ok : N -> bool) (d : comp_def) : bool :=
  forallb (fun p => match snd p with Some v => vok ok v | None => true end) (cd_params d).

Lemma bind_params_ok ok : forall ps k acc c,
  forallb (fun p : str * option str * option value => match snd p with Some v => vok ok v | None => true end) ps = true ->
  kw_ok ok k = true -> ctx_ok ok acc = true -> bind_params ps k acc = ROk c -> ctx_ok ok c = true.
Proof.
  induction ps as [|[[name ty] dflt] t IH]; cbn; intros k acc c Hps Hk Hacc E.
  - inversion E; subst. exact Hacc.
  - apply andb_prop in Hps. destruct Hps as [Hd Ht].
    destruct (map_get k (KStr name false)) as [v|] eqn:Eg.
    + assert (Hv : vok ok v = true) by (eapply map_get_ok; eassumption).
      destruct (match ty with Some ty0 => type_matches ty0 v | None => Some true end) as [[|]|]; try discriminate.
      eapply IH; [exact Ht|exact Hk| |exact E]. cbn. rewrite Hv. exact Hacc.
    + destruct dflt as [d|]; [|discriminate].
      eapply IH; [exact Ht|exact Hk| |exact E]. cbn. cbn in Hd. rewrite Hd. exact Hacc.
Qed.

Lemma build_ctx1_ok ok d k b c :
  def_ok ok d = true -> build_ctx1 d k b = ROk c -> kw_ok ok k = true -> obody_ok ok b = true -> ctx_ok ok c = true.
Proof.
  intros Hd E Hk Hb. unfold build_ctx1 in E.
  set (unknown := filter _ _) in E.
  assert (Hu : kw_ok ok (map (fun sv : str * value => (KStr (fst sv) true, snd sv)) unknown) = true).
  { unfold Taint.kw_ok. apply forallb_forall. intros [k' x] Hin. apply in_map_iff in Hin.
    destruct Hin as ([s v] & Heq & Hin). inversion Heq; subst. cbn.
    subst unknown. apply filter_In in Hin. destruct Hin as [Hin _]. apply in_flat_map in Hin.
    destruct Hin as ([k0 v0] & Hin0 & Hs). cbn in Hs. destruct (key_str k0); [|destruct Hs].
    destruct Hs as [Hs|[]]. inversion Hs; subst. unfold Taint.kw_ok in Hk. rewrite forallb_forall in Hk.
    apply (Hk _ Hin0). }
  assert (Hmain : forall c1, bind_params (cd_params d) k [] = ROk c1 -> ctx_ok ok c1 = true).
  { intros c1 E1. eapply bind_params_ok; [exact Hd|exact Hk| |exact E1]. reflexivity. }
  assert (Hfin : res_bind (bind_params (cd_params d) k []) (fun c1 =>
             let c2 := match cd_rest d with
                       | Some rn => (rn, VMap (map (fun sv : str * value => (KStr (fst sv) true, snd sv)) unknown)) :: c1
                       | None => c1 end in
             ROk (match b with Some b0 => (n_body, b0) :: c2 | None => c2 end)) = ROk c -> ctx_ok ok c = true).
  { destruct (bind_params (cd_params d) k []) as [c1|] eqn:E1; cbn [res_bind]; [|discriminate].
    intros X. inversion X; subst; clear X. specialize (Hmain _ eq_refl).
    assert (H2 : ctx_ok ok (match cd_rest d with
                       | Some rn => (rn, VMap (map (fun sv : str * value => (KStr (fst sv) true, snd sv)) unknown)) :: c1
                       | None => c1 end) = true).
    { destruct (cd_rest d); [|exact Hmain]. cbn [Taint.ctx_ok forallb snd]. rewrite vok_map, Hu. exact Hmain. }
    destruct b as [b0|]; [|exact H2]. cbn [Taint.ctx_ok forallb snd]. cbn in Hb. rewrite Hb. exact H2. }
  clear Hu Hmain. clearbody unknown. revert Hfin E.
  destruct (cd_rest d) as [rn|]; intros Hfin E; [exact (Hfin E)|].
  destruct unknown; [exact (Hfin E)|discriminate].
Qed.

(* all hypotheses of the theorems above, for world1 without the safe filter *)
Theorem world1_satisfies_hypotheses fp tpls comps :
  (forall n d c, assoc_get comps n = Some (d, c) -> def_ok ok_html d = true) ->
  let wd := world1 false fp tpls comps in
  w_escape wd = escape_html /\ w_format wd = format_with fp /\
  (forall n v k sc r sf, w_filter wd n v k sc = Some (ROk r, sf) ->
      vok ok_html v = true -> kw_ok ok_html k = true -> scope_ok ok_html sc = true ->
      vok ok_html (if sf then mark_safe r else r) = true) /\
  (forall n k sc r sf, w_function wd n k sc = Some (ROk r, sf) ->
      kw_ok ok_html k = true -> scope_ok ok_html sc = true -> vok ok_html (if sf then mark_safe r else r) = true) /\
  (forall i a b c, w_math wd i a b = ROk c -> vok ok_html a = true -> vok ok_html b = true -> vok ok_html c = true) /\
  (forall a c, w_negate wd a = ROk c -> vok ok_html a = true -> vok ok_html c = true) /\
  (forall m k x, w_map_get wd m k = Some x -> kw_ok ok_html m = true -> vok ok_html x = true) /\
  (forall v a x, w_get_attr wd v a = Some x -> vok ok_html v = true -> vok ok_html x = true) /\
  (forall n d ch, assoc_get (w_components wd) n = Some (d, ch) ->
      forall k b c, w_build_ctx wd d k b = ROk c -> kw_ok ok_html k = true ->
      obody_ok ok_html b = true -> ctx_ok ok_html c = true).
Proof.
  intros Hdefs wd. cbn.
  split; [reflexivity|]. split; [reflexivity|].
  split; [intros; eapply filter1_ok; eassumption|].
  split; [discriminate|]. split; [discriminate|]. split; [discriminate|].
  split; [intros; eapply map_get_ok; eassumption|].
  split; [intros; eapply get_attr_ok; eassumption|].
  intros n d ch E k b c Eb Hk Hb. eapply build_ctx1_ok; [eapply Hdefs, E|exact Eb|exact Hk|exact Hb].
Qed.

(* ---------- the side condition is necessary: body.mark_safe() trusts the compiler ---------- *)

Definition new_state_with_global (c g : ctx) : state :=
  {| stack := []; loops := []; setvars := []; caps := []; blocks := []; cur_block := None;
     parent := None; context := c; global := Some g; capture_block := None; block_buffer := [] |}.
Definition s_p : str := [112]%N.
Definition s_c : str := [99]%N.
Definition poison0 : str := [60;98;62;38;34;39]%N.     (* the six characters  < b > & quote apostrophe *)
Definition bad_chunk : list instr := [LoadName s_p; BuildMap 0; RenderBodyComponent s_c; WriteTop].
Definition bad_tpl : template :=
  {| t_name := s_p; t_chunk := bad_chunk; t_root_chunk := bad_chunk; t_lineage := []; t_autoescape := true |}.
Definition bad_comps : list (str * (comp_def * list instr)) :=
  [(s_c, ({| cd_params := []; cd_rest := None |}, [WritePath [n_body]]))].
(* what the compiler emits for the same call: the body is captured first *)
Definition good_chunk : list instr :=
  [Capture; WritePath [s_p]; EndCapture; BuildMap 0; RenderBodyComponent s_c; WriteTop].

(* a 4-instruction program no compiler emits: the body operand comes straight from the context.
   Every other hypothesis of the theorem holds; bodies_from_capture is what fails. *)
Theorem body_mint_needs_capture :
  tpl_ok ok_html bad_tpl = true /\ ctx_ok ok_html [(s_p, VStr poison0 false)] = true /\
  render_to str wr_str (world1 false fp_placeholder [(s_p, bad_tpl)] bad_comps) 50 bad_tpl None
            [(s_p, VStr poison0 false)] [] []
  = RDone (new_state_with_global [(s_p, VStr poison0 false)] []) (SinkTop poison0) /\
  clean ok_html poison0 = false /\
  bodies_from_capture bad_chunk = false /\ bodies_from_capture good_chunk = true.
Proof. vm_compute. repeat split; reflexivity. Qed.

(* what the side condition buys at the one instruction that needs it *)
Lemma body_operand_flagged ch ip n s kw b rest :
  bodies_from_capture ch = true -> nth_error ch ip = Some (RenderBodyComponent n) ->
  cmatch (the_table ch) ip s -> stack s = kw :: b :: rest -> exists x, b = VStr x true.
Proof.
  intros Hb Hi Hm Hst. destruct (cmatch_step _ _ _ _ _ Hb Hi Hm) as ([A L] & edges & Hrel & Hstep & _).
  cbn [castep c_stack c_loops] in Hstep. destruct (nth 1 A false) eqn:Hn; [|discriminate].
  destruct (proj1 Hrel 1 Hn) as (x & Hx). rewrite Hst in Hx. cbn in Hx. inversion Hx. eauto.
Qed.

(* ================================================================== part 4: the sinks, the mint points (B) *)

Section Sinks.
  Variable W : Type.
  Variable wr : W -> str -> option W.
  Variable wd : world.

  (* every WriteTop/WritePath write is one event *)
  Lemma write_value_is_event a s o v :
    write_value W wr wd a s o v = emit W wr s o (event_text wd (write_event a v)).
  Proof. unfold write_value, write_event. destruct (negb a || value_is_safe v); reflexivity. Qed.

  (* with autoescape on, a value is written raw only if Value::is_safe says so *)
  Theorem raw_only_if_safe v : write_event true v = ERaw v -> value_is_safe v = true.
  Proof. unfold write_event. cbn. destruct (value_is_safe v); [reflexivity|discriminate]. Qed.

  Theorem escaped_unless_safe v : value_is_safe v = false -> write_event true v = EEsc v.
  Proof. unfold write_event. cbn. intros ->. reflexivity. Qed.

  (* the converse direction *)
  Theorem autoescape_off_writes_verbatim s o v :
    write_value W wr wd false s o v = emit W wr s o (w_format wd v).
  Proof. reflexivity. Qed.

  Theorem safe_value_bypasses_escaper a s o v :
    value_is_safe v = true -> write_value W wr wd a s o v = emit W wr s o (w_format wd v).
  Proof. intros H. unfold write_value. rewrite H, orb_true_r. reflexivity. Qed.

  (* which values are safe: exactly the generated arms; in particular a string iff flagged,
     containers never (they are always escaped as a whole, whatever they contain) *)
  Theorem safe_values v :
    value_is_safe v = true <-> (exists s, v = VStr s true) \/
                               (match v with VStr _ _ | VArr _ | VMap _ | VBytes _ => False | _ => True end).
  Proof.
    destruct v as [ | | b | r z | f | s fl | l | m | b ]; cbn; split; intros H;
      try discriminate; try reflexivity; try (right; exact I);
      try (destruct H as [(s0 & X)|[]]; inversion X; reflexivity).
    left. subst fl. exists s. reflexivity.
  Qed.

  (* no double escape: what a capture collected is written verbatim when printed as is.
     [EndCapture; WriteTop] on a state whose innermost buffer is c writes exactly w_format (VStr c true) *)
  Theorem no_double_escape fuel tpl ae depth s o c t :
    caps s = c :: t ->
    run W wr wd (S (S (S fuel))) tpl ae depth [EndCapture; WriteTop] 0 s o =
    match emit W wr (upd_stack (upd_caps s t) (stack s)) o (w_format wd (VStr c true)) with
    | Some (s2, o2) => RDone s2 o2
    | None => RFail ErrIo
    end.
  Proof.
    intros Hc. cbn [run nth_error]. rewrite Hc. cbn [run nth_error push pop1 upd_caps stack upd_stack is_undefined].
    rewrite safe_value_bypasses_escaper by reflexivity.
    destruct (emit W wr _ o (w_format wd (VStr c true))) as [[s2 o2]|]; reflexivity.
  Qed.

  (* the mint points push exactly the text of the buffer they close, flagged *)
  Theorem end_capture_mints fuel tpl ae depth ch ip s o c t :
    nth_error ch ip = Some EndCapture -> caps s = c :: t ->
    run W wr wd (S fuel) tpl ae depth ch ip s o =
    run W wr wd fuel tpl ae depth ch (S ip) (push (upd_caps s t) (VStr c true)) o.
  Proof. intros Hi Hc. cbn [run]. rewrite Hi, Hc. reflexivity. Qed.

  (* operations that build a new string drop the flag *)
  Theorem str_concat_is_normal fuel tpl ae depth ch ip s o a b st :
    nth_error ch ip = Some StrConcat -> stack s = b :: a :: st ->
    exists r, run W wr wd (S fuel) tpl ae depth ch ip s o =
              run W wr wd fuel tpl ae depth ch (S ip) (push (upd_stack s st) (VStr r false)) o.
  Proof. intros Hi Hs. cbn [run]. rewrite Hi. unfold pop2. rewrite Hs. eexists. reflexivity. Qed.
End Sinks.

(* index/slice keep the flag and yield a sub-multiset of the characters: origin (iv) *)
Theorem index_slice_keep_flag_sublist :
  (forall s fl item c fl', get_item_seq (VStr s fl) item = ROk (VStr c fl') -> fl' = fl /\ incl c s) /\
  (forall s fl a b st r fl', value_slice (VStr s fl) a b st = ROk (VStr r fl') -> fl' = fl /\ incl r s).
Proof.
  split.
  - intros s fl item c fl' E. cbn in E. destruct (resolve_index item _) as [[i|]|]; cbn in E; try discriminate.
    destruct (index_usize s i) eqn:Ei; [|discriminate]. inversion E; subst. split; [reflexivity|].
    intros x [<-|[]]. eapply index_usize_in, Ei.
  - intros s fl a b st r fl' E. unfold value_slice in E. destruct (_ =? 0)%Z; [discriminate|].
    destruct (slice_items s a b _) eqn:Es; [|discriminate]. inversion E; subst. split; [reflexivity|].
    eapply slice_items_incl, Es.
Qed.

(* ================================================================== part 5: autoescape by suffix *)

Lemma str_eqb_eq (a b : str) : str_eqb a b = true <-> a = b.
Proof.
  revert b. induction a as [|x a IH]; intros [|y b]; cbn; split; intros H; try discriminate; try reflexivity.
  - apply andb_prop in H. destruct H as [H1 H2]. apply N.eqb_eq in H1. apply IH in H2. subst. reflexivity.
  - inversion H; subst. rewrite N.eqb_refl. apply IH. reflexivity.
Qed.

Theorem ends_with_spec s suf : ends_with s suf = true <-> exists p, s = p ++ suf.
Proof.
  unfold ends_with. rewrite andb_true_iff, Nat.leb_le, str_eqb_eq. split.
  - intros [Hl He]. exists (firstn (length s - length suf) s).
    pose proof (firstn_skipn (length s - length suf) s) as F. rewrite He in F. symmetry. exact F.
  - intros (p & ->). rewrite app_length. split; [lia|].
    replace (length p + length suf - length suf) with (length p) by lia.
    rewrite skipn_app, skipn_all, Nat.sub_diag. reflexivity.
Qed.

Lemma set_templates_auto_escape_spec r :
  r_suffixes (set_templates_auto_escape r) = r_suffixes r /\
  map fst (r_templates (set_templates_auto_escape r)) = map fst (r_templates r) /\
  forall n t, In (n, t) (r_templates (set_templates_auto_escape r)) ->
              t_autoescape t = autoescape_of (r_suffixes r) n.
Proof.
  split; [reflexivity|]. split.
  - cbn. rewrite map_map. reflexivity.
  - intros n t Hin. cbn in Hin. apply in_map_iff in Hin. destruct Hin as ([n0 t0] & Heq & _).
    inversion Heq; subst. reflexivity.
Qed.

(* after any non-empty history of finalize / autoescape_on calls every template's flag is
   "its name ends with one of the CURRENT suffixes" *)
Theorem autoescape_flag_by_suffix : forall ops r, ops <> [] ->
  let r' := fold_left apply_op ops r in
  forall n t, In (n, t) (r_templates r') ->
    t_autoescape t = existsb (ends_with n) (r_suffixes r') /\
    (t_autoescape t = true <-> exists suf p, In suf (r_suffixes r') /\ n = p ++ suf).
Proof.
  intros ops r Hne.
  destruct (exists_last Hne) as (ops' & o & ->). rewrite fold_left_app. cbn [fold_left]. cbv zeta.
  set (r0 := fold_left apply_op ops' r). set (r' := apply_op r0 o). intros n t Hin.
  assert (H : t_autoescape t = autoescape_of (r_suffixes r') n).
  { subst r'. destruct o as [sfx|added]; cbn [apply_op] in *.
    - unfold autoescape_on in *. destruct (set_templates_auto_escape_spec {| r_suffixes := sfx; r_templates := r_templates r0 |}) as (Hs & _ & Hf).
      rewrite Hs. apply Hf, Hin.
    - unfold finalize_with in *.
      match type of Hin with In _ (r_templates (set_templates_auto_escape ?x)) =>
        destruct (set_templates_auto_escape_spec x) as (Hs & _ & Hf) end.
      rewrite Hs. apply Hf, Hin. }
  split; [exact H|]. rewrite H. unfold autoescape_of. rewrite existsb_exists. split.
  - intros (suf & Hs & He). apply ends_with_spec in He. destruct He as (p & ->). exists suf, p. auto.
  - intros (suf & p & Hs & ->). exists suf. split; [exact Hs|]. apply ends_with_spec. exists p. reflexivity.
Qed.

(* the default suffix list of Tera::default, re-extracted from tera.rs *)
Example default_suffixes_example :
  map (autoescape_of default_autoescape_suffixes)
      [[97;46;104;116;109;108]; [97;46;116;120;116]; [97;46;104;116;109;108;46;116;120;116]; [46;120;109;108]; [104;116;109;108]]%N
  = [true; false; false; true; false].
Proof. vm_compute. reflexivity. Qed.

(* ================================================================== part 6: the escaper is a parameter *)

(* ---------- (a) any escape function whose output avoids a character set ---------- *)

Section AnyEscaper.
  Variable wd : world.
  Variable ok : N -> bool.
  Hypothesis Hesc : forall s, clean ok (w_escape wd s) = true.
  Hypothesis Hfmt : forall v, value_is_safe v = true -> vok ok v = true -> clean ok (w_format wd v) = true.
  Hypothesis Hfilter : forall n v k sc r sf, w_filter wd n v k sc = Some (ROk r, sf) ->
      vok ok v = true -> kw_ok ok k = true -> scope_ok ok sc = true -> vok ok (if sf then mark_safe r else r) = true.
  Hypothesis Hfunction : forall n k sc r sf, w_function wd n k sc = Some (ROk r, sf) ->
      kw_ok ok k = true -> scope_ok ok sc = true -> vok ok (if sf then mark_safe r else r) = true.
  Hypothesis Hmath : forall i a b c, w_math wd i a b = ROk c -> vok ok a = true -> vok ok b = true -> vok ok c = true.
  Hypothesis Hnegate : forall a c, w_negate wd a = ROk c -> vok ok a = true -> vok ok c = true.
  Hypothesis Hmapget : forall m k x, w_map_get wd m k = Some x -> kw_ok ok m = true -> vok ok x = true.
  Hypothesis Hgetattr : forall v a x, w_get_attr wd v a = Some x -> vok ok v = true -> vok ok x = true.
  Hypothesis Hbuild : forall n d ch, assoc_get (w_components wd) n = Some (d, ch) ->
      forall k b c, w_build_ctx wd d k b = ROk c -> kw_ok ok k = true ->
      obody_ok ok b = true -> ctx_ok ok c = true.
  Hypothesis Hcomps : forall n d c, assoc_get (w_components wd) n = Some (d, c) ->
      chunk_ok ok c = true /\ bodies_from_capture c = true.
  Hypothesis Htpls : forall n t, assoc_get (w_templates wd) n = Some t -> tpl_ok ok t = true /\ tpl_bodies_ok t = true.

  Theorem no_raw_data_any_escaper :
    forall fuel tpl block c g,
    tpl_ok ok tpl = true -> tpl_bodies_ok tpl = true -> ctx_ok ok c = true -> ctx_ok ok g = true ->
    match render_to str wr_str wd fuel tpl block c g [] with
    | RDone _ (SinkTop out) => clean ok out = true
    | _ => True
    end.
  Proof.
    intros fuel tpl block c g Ht Htb Hc Hg.
    pose proof (render_to_inv str wr_str wd ok (fun w => clean ok w = true)
                  (plain_world_ok wd ok None Hesc Hfmt Hfilter Hfunction Hmath Hnegate Hmapget Hgetattr
                     Hbuild Htpls Hcomps)
                  (wr_str_clean ok) fuel tpl block c g [] (tpl_okP_of ok None tpl Ht Htb) Hc Hg eq_refl) as P.
    destruct (render_to str wr_str wd fuel tpl block c g []) as [s1 [out|b]| |]; auto.
  Qed.
End AnyEscaper.

(* an instance other than HTML: the JS-string escaper of the harness (xNN style) never writes a slash, a quote, an apostrophe or a newline *)
Definition ok_js (c : N) : bool := negb ((c =? 47) || (c =? 34) || (c =? 39) || (c =? 10))%N.

Theorem escape_js_clean : forall s, clean ok_js (escape_js s) = true.
Proof.
  induction s as [|c t IH]; [reflexivity|]. cbn [escape_js flat_map]. apply clean_app_intro; [|exact IH].
  unfold escape_js_char.
  destruct (c =? 92)%N eqn:E1; [reflexivity|]. destruct (c =? 47)%N eqn:E2; [reflexivity|].
  destruct (c =? 34)%N eqn:E3; [reflexivity|]. destruct (c =? 39)%N eqn:E4; [reflexivity|].
  destruct (c =? 10)%N eqn:E5; [reflexivity|]. cbn. unfold ok_js. rewrite E2, E3, E4, E5. reflexivity.
Qed.


(* ---------- (b) the marker form: the sequence of writes to the output ---------- *)

Definition allok (_ : N) : bool := true.

Lemma clean_all s : clean allok s = true.
Proof. induction s; [reflexivity|exact IHs]. Qed.

Lemma vok_all : forall v, vok allok v = true.
Proof.
  fix IH 1. intros [ | | b | r z | f | s fl | l | m | b ]; try reflexivity.
  - destruct fl; [apply clean_all|reflexivity].
  - cbn. induction l as [|x t IHl]; [reflexivity|]. rewrite (IH x). exact IHl.
  - cbn. induction m as [|[k x] t IHm]; [reflexivity|]. rewrite (IH x). exact IHm.
Qed.

Lemma forallb_all {A} (g : A -> bool) l : (forall x, g x = true) -> forallb g l = true.
Proof. intros H. induction l as [|x t IH]; [reflexivity|]. cbn. rewrite H. exact IH. Qed.

Lemma ctx_ok_all c : ctx_ok allok c = true.
Proof. apply forallb_all. intros. apply vok_all. Qed.

Lemma pair_ok_all p : pair_ok allok p = true.
Proof. unfold Taint.pair_ok. rewrite vok_all. destruct (fst p); [rewrite vok_all|]; reflexivity. Qed.

Lemma lf_ok_all f : lf_ok allok f = true.
Proof. unfold Taint.lf_ok. rewrite (forallb_all _ _ pair_ok_all), ctx_ok_all, pair_ok_all. reflexivity. Qed.

Lemma scope_ok_all : forall sc, scope_ok allok sc = true.
Proof.
  fix IH 1. intros [loops setvars parent context global]. cbn [Taint.scope_ok].
  rewrite (forallb_all _ _ lf_ok_all), !ctx_ok_all. destruct parent as [p|]; [rewrite (IH p)|];
    destruct global; cbn; try rewrite ctx_ok_all; reflexivity.
Qed.

Lemma chunk_ok_all ch : chunk_ok allok ch = true.
Proof. apply forallb_all. intros [ ]; cbn; try reflexivity; [apply vok_all|apply clean_all]. Qed.

Section Pieces.
  Variable wd : world.
  Variable ae : option bool.
  Variable Lit : str -> Prop.       (* the literal text of the templates *)

  (* one write: literal text, a safe value as formatted, or the escape function applied to the
     formatted value -- the latter for exactly the values that are not safe *)
  Definition piece (t : str) : Prop :=
    Lit t \/ (exists v, value_is_safe v = true /\ t = w_format wd v)
          \/ (exists v, value_is_safe v = false /\ t = w_escape wd (w_format wd v)).

  Definition wr_pieces (w : list str) (t : str) : option (list str) := Some (w ++ [t]).

  (* the hypotheses: only about the chunks (autoescape on, bodies minted, WriteText is literal text);
     NOTHING is assumed about the escape function, the filters or the data *)
  Hypothesis Htpls : forall n t, assoc_get (w_templates wd) n = Some t -> tpl_okP allok ae piece t.
  Hypothesis Hcomps : forall n d c, assoc_get (w_components wd) n = Some (d, c) -> chunk_okP allok piece c.

  Lemma pieces_world_ok : world_ok wd allok ae piece.
  Proof.
    constructor; intros; try apply vok_all; try apply clean_all; try apply ctx_ok_all; eauto.
  Qed.

  Lemma SInv_all s : blocks_okP allok piece (blocks s) -> SInv allok piece s.
  Proof.
    intros Hb. constructor; try exact Hb; try apply ctx_ok_all; try apply clean_all.
    - apply forallb_all, vok_all.
    - apply forallb_all, lf_ok_all.
    - apply forallb_all, clean_all.
    - destruct (parent s); [apply scope_ok_all|reflexivity].
    - destruct (global s); [apply ctx_ok_all|reflexivity].
  Qed.

  Theorem writes_are_pieces : forall fuel tpl depth ch ip s w,
    tpl_okP allok ae piece tpl -> chunk_okP allok piece ch -> cmatch (the_table ch) ip s ->
    blocks_okP allok piece (blocks s) -> Forall piece w ->
    match run (list str) wr_pieces wd fuel tpl ae depth ch ip s (SinkTop w) with
    | RDone _ (SinkTop w') => Forall piece w'
    | _ => True
    end.
  Proof.
    intros fuel tpl depth ch ip s w Ht Hc Hm Hb Hw0.
    pose proof (run_inv (list str) wr_pieces wd allok (Forall piece) ae piece pieces_world_ok) as R.
    assert (Hwr : forall w t w', wr_pieces w t = Some w' -> Forall piece w -> clean allok t = true -> piece t -> Forall piece w').
    { intros w1 t w' E H1 _ Hp. inversion E; subst. apply Forall_app. split; [exact H1|constructor; [exact Hp|constructor]]. }
    specialize (R Hwr).
    assert (Hraw : forall v, value_is_safe v = true -> piece (w_format wd v)) by (intros v Hv; right; left; eauto).
    assert (Hesc : forall v, value_is_safe v = false -> piece (w_escape wd (w_format wd v))) by (intros v Hv; right; right; eauto).
    specialize (R Hraw Hesc fuel tpl depth ch ip s (SinkTop w) Ht Hc Hm (SInv_all s Hb) Hw0).
    destruct (run (list str) wr_pieces wd fuel tpl ae depth ch ip s (SinkTop w)) as [s1 [w1|b1]| |]; try exact I. apply R.
  Qed.
End Pieces.
