(* Proofs/LexerProofs.v — byte-level scanning lemmas for Model/Lexer.v and the read-back
   theorem: the lexer model cuts `print d doc` exactly at the item boundaries of a well-formed
   document, for every accepted delimiter set. *)
From Coq Require Import Arith Wf_nat.
From TeraV Require Import Model.Value Model.Utf8Lex Model.Lexer Spec.Doc Model.LexerDoc
  Proofs.Utf8Proofs Proofs.WsFilterProofs.
Local Open Scope nat_scope.

(* ---------------------------------------------------------------- windows *)

Lemma skipn_nil' : forall (A : Type) n, skipn n (@nil A) = [].
Proof. intros A [|n]; reflexivity. Qed.

Lemma skipn_app_r : forall (A : Type) (a b : list A) n, skipn (length a + n) (a ++ b) = skipn n b.
Proof.
  intros A a b n. rewrite skipn_app, skipn_all2 by lia. cbn [app]. f_equal. lia.
Qed.

Lemma skipn_app_r0 : forall (A : Type) (a b : list A), skipn (length a) (a ++ b) = b.
Proof. intros. rewrite <- (Nat.add_0_r (length a)). now rewrite skipn_app_r. Qed.

Lemma firstn_app_l : forall (A : Type) (a b : list A), firstn (length a) (a ++ b) = a.
Proof. intros. rewrite firstn_app, Nat.sub_diag, firstn_all. cbn [firstn]. apply app_nil_r. Qed.

Lemma skipn_skipn' : forall (A : Type) (x y : nat) (l : list A), skipn x (skipn y l) = skipn (x + y) l.
Proof.
  intros A x y. induction y as [|y IH]; intro l.
  - now rewrite Nat.add_0_r.
  - rewrite Nat.add_succ_r. destruct l as [|a l]; [now rewrite !skipn_nil'|]. cbn [skipn]. apply IH.
Qed.

Lemma app_len2_nonnil : forall (x y : bytes), length x = 2 -> x ++ y <> [].
Proof. intros [|a x] y H; discriminate. Qed.

Lemma len2_inv : forall (x : bytes), length x = 2 -> exists e1 e2, x = [e1; e2].
Proof. intros [|a [|b [|c x]]] H; try discriminate. now exists a, b. Qed.

Lemma window_cons : forall b s p, window (b :: s) (S p) = window s p.
Proof. reflexivity. Qed.

Lemma window_app_l : forall a b p, p + 2 <= length a -> window (a ++ b) p = window a p.
Proof.
  intros a b p H. unfold window. rewrite skipn_app.
  replace (p - length a) with 0 by lia. cbn [skipn].
  rewrite firstn_app. rewrite skipn_length.
  replace (2 - (length a - p)) with 0 by lia. cbn [firstn]. now rewrite app_nil_r.
Qed.

Lemma window_app_r : forall a b p, window (a ++ b) (length a + p) = window b p.
Proof.
  intros a b p. unfold window. rewrite skipn_app.
  rewrite skipn_all2 by lia. replace (length a + p - length a) with p by lia. reflexivity.
Qed.

Lemma window_app_r0 : forall a b, window (a ++ b) (length a) = window b 0.
Proof. intros. rewrite <- (Nat.add_0_r (length a)) at 1. apply window_app_r. Qed.

Lemma window_len2 : forall x y, length x = 2 -> window (x ++ y) 0 = x.
Proof. intros [|a [|b [|c x]]] y H; try discriminate. reflexivity. Qed.

Lemma window_short : forall s p, length s <= p -> window s p = [].
Proof. intros s p H. unfold window. now rewrite skipn_all2. Qed.

Lemma window_length : forall s p, length (window s p) <= 2.
Proof. intros. unfold window. rewrite firstn_length. lia. Qed.

Lemma starts2_window : forall x s, length x = 2 -> (starts2 x s = true <-> window s 0 = x).
Proof.
  intros x s Hx. destruct s as [|b1 [|b2 t]]; cbn.
  - split; [discriminate|]. intro E. subst. discriminate.
  - split; [discriminate|]. intro E. subst. discriminate.
  - unfold window. cbn. apply (bytes_eqb_eq [b1; b2] x).
Qed.

Lemma starts2_false : forall x s, length x = 2 -> window s 0 <> x -> starts2 x s = false.
Proof.
  intros x s Hx H. destruct (starts2 x s) eqn:E; [|reflexivity].
  apply starts2_window in E; [contradiction|exact Hx].
Qed.

Lemma starts2_app_same : forall x y, length x = 2 -> starts2 x (x ++ y) = true.
Proof. intros x y H. apply starts2_window; [exact H|]. now apply window_len2. Qed.

Lemma starts2_app_diff : forall a x y, length a = 2 -> length x = 2 -> a <> x -> starts2 x (a ++ y) = false.
Proof. intros a x y Ha Hx N. apply starts2_false; [exact Hx|]. rewrite window_len2; assumption. Qed.

Lemma starts_with_window : forall x s, length x = 2 -> starts_with x s = bytes_eqb (window s 0) x.
Proof. intros x s H. unfold starts_with, window. rewrite H. reflexivity. Qed.

(* ---------------------------------------------------------------- memstr *)

Lemma memstr_sound : forall x s m, length x = 2 -> memstr s x = Some m ->
  window s m = x /\ forall p, p < m -> window s p <> x.
Proof.
  intros x s. induction s as [|b t IH]; intros m Hx H; [discriminate|].
  cbn [memstr] in H. rewrite starts_with_window in H by exact Hx.
  destruct (bytes_eqb (window (b :: t) 0) x) eqn:E.
  - inversion H; subst. split; [now apply bytes_eqb_eq|intros p Hp; lia].
  - destruct (memstr t x) as [m'|] eqn:M; [|discriminate]. inversion H; subst.
    destruct (IH m' Hx eq_refl) as [W1 W2]. split; [exact W1|].
    intros [|p] Hp; [now apply bytes_eqb_neq|]. rewrite window_cons. apply W2. lia.
Qed.

Lemma memstr_complete : forall x n s, length x = 2 -> window s n = x ->
  exists m, m <= n /\ memstr s x = Some m.
Proof.
  intros x n. induction n as [|n IH]; intros s Hx W.
  - destruct s as [|b t]; [subst; discriminate|].
    exists 0. split; [lia|]. cbn [memstr]. rewrite starts_with_window by exact Hx.
    rewrite W, bytes_eqb_refl. reflexivity.
  - destruct s as [|b t]; [rewrite window_short in W by (cbn; lia); subst; discriminate|].
    cbn [memstr]. destruct (starts_with x (b :: t)); [exists 0; split; [lia|reflexivity]|].
    rewrite window_cons in W. destruct (IH t Hx W) as [m [Hm M]].
    exists (S m). split; [lia|]. now rewrite M.
Qed.

Lemma memstr_first : forall x s n, length x = 2 -> window s n = x ->
  (forall p, p < n -> window s p <> x) -> memstr s x = Some n.
Proof.
  intros x s n Hx W N. destruct (memstr_complete x n s Hx W) as [m [Hm M]].
  destruct (memstr_sound x s m Hx M) as [W1 _].
  destruct (Nat.eq_dec m n) as [->|D]; [exact M|]. exfalso. apply (N m); [lia|exact W1].
Qed.

(* ---------------------------------------------------------------- ASCII whitespace, skip_tag *)

Lemma skip_ascii_ws_split : forall s, exists w, s = w ++ skip_ascii_ws s /\ all_ascii_ws w.
Proof.
  induction s as [|b t IH]; [exists []; split; [reflexivity|constructor]|].
  cbn [skip_ascii_ws]. destruct (is_ascii_ws b) eqn:E.
  - destruct IH as [w [H1 H2]]. exists (b :: w). split; [cbn; now f_equal|constructor; assumption].
  - exists []. split; [reflexivity|constructor].
Qed.

Lemma strip_prefix_sound : forall p s r, strip_prefix p s = Some r -> s = p ++ r.
Proof.
  intros p s r H. unfold strip_prefix, starts_with in H.
  destruct (bytes_eqb (firstn (length p) s) p) eqn:E; [|discriminate]. inversion H; subst.
  apply bytes_eqb_eq in E. rewrite <- E at 1. symmetry. apply firstn_skipn.
Qed.

Lemma strip_prefix_app : forall p r, strip_prefix p (p ++ r) = Some r.
Proof.
  intros p r. unfold strip_prefix, starts_with.
  rewrite firstn_app, Nat.sub_diag, firstn_all. cbn [firstn]. rewrite app_nil_r, bytes_eqb_refl.
  rewrite skipn_app, Nat.sub_diag, skipn_all. reflexivity.
Qed.

Lemma strip_dash_cases : forall (s : bytes) ow p4,
  match s with
  | b :: t => if (b =? dash)%N then (true, t) else (false, s)
  | [] => (false, s)
  end = (ow, p4) -> s = mk ow ++ p4.
Proof.
  intros [|b t] ow p4 H; [inversion H; reflexivity|].
  destruct (b =? dash)%N eqn:E; inversion H; subst; [apply N.eqb_eq in E; subst b|]; reflexivity.
Qed.

Lemma skip_tag_sound : forall s name e n o, skip_tag s name e = Some (n, o) -> tag_named name e s.
Proof.
  intros s name e n o H. unfold skip_tag in H.
  remember (match s with b :: t => if (b =? dash)%N then t else s | [] => [] end) as p0 eqn:E0.
  assert (H0 : exists m1, s = mk m1 ++ p0).
  { subst p0. destruct s as [|b t]; [exists false; reflexivity|].
    destruct (b =? dash)%N eqn:E; [apply N.eqb_eq in E; subst b; exists true|exists false]; reflexivity. }
  destruct H0 as [m1 H0]. clear E0.
  destruct (skip_ascii_ws_split p0) as [w1 [H1 A1]].
  destruct (strip_prefix name (skip_ascii_ws p0)) as [p2|] eqn:S1; [|discriminate].
  apply strip_prefix_sound in S1.
  destruct (skip_ascii_ws_split p2) as [w2 [H2 A2]].
  remember (skip_ascii_ws p2) as p3 eqn:E3. clear E3.
  destruct (match p3 with
            | b :: t => if (b =? dash)%N then (true, t) else (false, p3)
            | [] => (false, p3) end) as [ow p4] eqn:EQ.
  apply strip_dash_cases in EQ.
  destruct (strip_prefix e p4) as [p5|] eqn:S2; [|discriminate].
  apply strip_prefix_sound in S2.
  exists m1, w1, w2, ow, p5. split; [|split; assumption].
  rewrite H0, H1, S1, H2, EQ, S2. reflexivity.
Qed.

Lemma no_dash_first_app : forall a b, a <> [] -> no_dash_first a -> no_dash_first (a ++ b).
Proof. intros [|x a] b N H; [contradiction|exact H]. Qed.

(* completeness: every string of the shape `-? ws* name ws* -? end …` is recognised *)
Definition head_not_ws (s : bytes) : Prop :=
  match s with b :: _ => is_ascii_ws b = false | [] => True end.

Lemma skip_ascii_ws_app : forall w s, all_ascii_ws w -> head_not_ws s -> skip_ascii_ws (w ++ s) = s.
Proof.
  induction w as [|b w IH]; intros s A Hs.
  - destruct s as [|c s]; [reflexivity|]. cbn in *. now rewrite Hs.
  - inversion A; subst. cbn. rewrite H1. now apply IH.
Qed.

Lemma strip_dash_mk : forall m (y : bytes), (m = false -> no_dash_first y) ->
  match mk m ++ y with b :: t => if (b =? dash)%N then t else mk m ++ y | [] => [] end = y.
Proof.
  intros [|] y H; cbn.
  - reflexivity.
  - destruct y as [|b y]; [reflexivity|]. cbn in H. specialize (H eq_refl).
    apply N.eqb_neq in H. now rewrite H.
Qed.

Lemma strip_dash_mk2 : forall m (y : bytes), (m = false -> no_dash_first y) ->
  match mk m ++ y with
  | b :: t => if (b =? dash)%N then (true, t) else (false, mk m ++ y)
  | [] => (false, mk m ++ y)
  end = (m, y).
Proof.
  intros [|] y H; cbn.
  - reflexivity.
  - destruct y as [|b y]; [reflexivity|]. cbn in H. specialize (H eq_refl).
    apply N.eqb_neq in H. now rewrite H.
Qed.

Lemma skip_tag_complete : forall m1 w1 name w2 m2 e rest,
  all_ascii_ws w1 -> all_ascii_ws w2 ->
  (m1 = false -> no_dash_first (w1 ++ name)) -> head_not_ws name -> name <> [] ->
  (m2 = false -> plain_first e) -> e <> [] ->
  skip_tag (mk m1 ++ w1 ++ name ++ w2 ++ mk m2 ++ e ++ rest) name e
  = Some (length (mk m1 ++ w1 ++ name ++ w2 ++ mk m2 ++ e), m2).
Proof.
  intros m1 w1 name w2 m2 e rest A1 A2 D1 Hn Nn P2 Ne. unfold skip_tag.
  rewrite strip_dash_mk.
  2:{ intro E. specialize (D1 E). rewrite app_assoc. apply no_dash_first_app; [|exact D1].
      destruct w1; [cbn; exact Nn|discriminate]. }
  rewrite skip_ascii_ws_app; [|exact A1|destruct name; [contradiction|exact Hn]].
  rewrite strip_prefix_app.
  rewrite skip_ascii_ws_app; [|exact A2|].
  2:{ destruct m2; [reflexivity|]. cbn [mk app]. destruct e as [|c e]; [contradiction|].
      exact (proj2 (P2 eq_refl)). }
  rewrite strip_dash_mk2.
  2:{ intro E. destruct e as [|c e]; [contradiction|]. exact (proj1 (P2 E)). }
  rewrite strip_prefix_app. f_equal. f_equal. rewrite !app_length. lia.
Qed.

Lemma all_ws_sp : all_ascii_ws sp.
Proof. repeat constructor. Qed.

Lemma skip_tag_close : forall e ir r X, e <> [] -> (r = false -> plain_first e) ->
  skip_tag (mk ir ++ sp ++ kw_endraw ++ sp ++ mk r ++ e ++ X) name_endraw e
  = Some (length (mk ir ++ sp ++ kw_endraw ++ sp ++ mk r ++ e), r).
Proof.
  intros e ir r X Ne P. change name_endraw with kw_endraw.
  apply skip_tag_complete; try exact all_ws_sp; try assumption.
  - intros _. cbn. discriminate.
  - reflexivity.
  - discriminate.
Qed.

Lemma skip_tag_open : forall e il X, e <> [] -> (il = false -> plain_first e) ->
  skip_tag (sp ++ kw_raw ++ sp ++ mk il ++ e ++ X) name_raw e
  = Some (length (sp ++ kw_raw ++ sp ++ mk il ++ e), il).
Proof.
  intros e il X Ne P. change name_raw with kw_raw.
  apply (skip_tag_complete false sp kw_raw sp il e X); try exact all_ws_sp; try assumption.
  - intros _. cbn. discriminate.
  - reflexivity.
  - discriminate.
Qed.

(* ---------------------------------------------------------------- check_ws_start *)

Lemma check_ws_start_mk : forall X l y, length X = 2 -> (l = false -> no_dash_first y) ->
  check_ws_start (X ++ mk l ++ y) = (l, y).
Proof.
  intros [|x1 [|x2 [|x3 X]]] l y HX H; try discriminate.
  destruct l; unfold check_ws_start; cbn.
  - reflexivity.
  - destruct y as [|b y]; [reflexivity|]. cbn in H. specialize (H eq_refl).
    apply N.eqb_neq in H. now rewrite H.
Qed.

(* ---------------------------------------------------------------- inner tokens are not template tokens *)

Lemma lex_string_inner : forall s q t n, lex_string s q = Some (t, n) -> is_template_tok t = false.
Proof.
  intros s q t n H. unfold lex_string in H.
  destruct (str_scan (tl s) q false) as [k h].
  destruct (negb (byte_at_is s (k + 1) q)); [discriminate|].
  destruct h; [destruct (unescape _); [|discriminate]|]; inversion H; reflexivity.
Qed.

Lemma lex_number_inner : forall s t n, lex_number s = Some (t, n) -> is_template_tok t = false.
Proof.
  intros s t n H. unfold lex_number in H.
  destruct (num_scan s false) as [k f]. destruct f; [inversion H; reflexivity|].
  destruct (_ <=? _)%Z; [inversion H; reflexivity|discriminate].
Qed.

Lemma inner_token_inner : forall s t n, inner_token s = Some (t, n) -> is_template_tok t = false.
Proof.
  intros s t n H. unfold inner_token in H.
  destruct s as [|b1 t1]; [discriminate|].
  destruct (starts_with _ _); [inversion H; reflexivity|].
  destruct (match t1 with b2 :: _ => op2_of b1 b2 | [] => None end); [inversion H; reflexivity|].
  destruct (op1_of b1); [inversion H; reflexivity|].
  destruct (is_quote b1); [eapply lex_string_inner; eauto|].
  destruct (is_ascii_digit b1); [eapply lex_number_inner; eauto|].
  destruct (ident_scan (b1 :: t1) true); [discriminate|].
  destruct (_ || _); [inversion H; reflexivity|].
  destruct (_ || _); inversion H; reflexivity.
Qed.

Definition all_inner (toks : list ptok) : Prop := filter is_template_tok (map tok_of toks) = [].

Lemma scan_inside_inner : forall fuel e s toks w pre rest,
  scan_inside fuel e s = IEnd toks w pre rest -> all_inner toks.
Proof.
  induction fuel as [|f IH]; intros e s toks w pre rest H; [discriminate|].
  cbn [scan_inside] in H.
  destruct (skip_ascii_ws s) as [|b0 t0] eqn:E; [discriminate|].
  destruct ((b0 =? dash)%N && starts2 e t0); [inversion H; reflexivity|].
  destruct (starts2 e (b0 :: t0)); [inversion H; reflexivity|].
  destruct (inner_token (b0 :: t0)) as [[t len]|] eqn:T; [|discriminate].
  destruct (scan_inside f e (skipn len (b0 :: t0))) as [toks' w' pre' rest'| |] eqn:R;
    cbn [ires_cons] in H; try discriminate.
  inversion H; subst. unfold all_inner. cbn [map filter tok_of fst].
  rewrite (inner_token_inner _ _ _ T). eapply IH; eauto.
Qed.

Lemma tmpl_view_wrap : forall t1 toks t2 pt',
  all_inner toks -> is_template_tok (tok_of t1) = true -> is_template_tok (tok_of t2) = true ->
  filter is_template_tok (map tok_of ((t1 :: toks ++ [t2]) ++ pt'))
  = tok_of t1 :: tok_of t2 :: filter is_template_tok (map tok_of pt').
Proof.
  intros t1 toks t2 pt' A H1 H2. unfold all_inner in A.
  rewrite <- app_comm_cons, map_cons. cbn [filter]. rewrite H1. f_equal.
  rewrite !map_app, !filter_app, A. cbn [app map filter]. now rewrite H2.
Qed.

Lemma inner_placed_wrap : forall t1 toks t2 pt',
  all_inner toks -> is_open (tok_of t1) = true -> is_template_tok (tok_of t1) = true ->
  is_template_tok (tok_of t2) = true -> is_open (tok_of t2) = false ->
  inner_placed false (map tok_of pt') = true ->
  forall b, inner_placed b (map tok_of ((t1 :: toks ++ [t2]) ++ pt')) = true.
Proof.
  intros t1 toks t2 pt' A O1 T1 T2 O2 P b.
  rewrite <- app_comm_cons, map_cons. cbn [inner_placed]. rewrite T1, O1. rewrite <- app_assoc.
  clear O1 T1 b. induction toks as [|t toks IH].
  - cbn [app map inner_placed]. now rewrite T2, O2.
  - unfold all_inner in A. cbn [map filter] in A.
    destruct (is_template_tok (tok_of t)) eqn:E; [discriminate|].
    cbn [app map inner_placed]. rewrite E. cbn [andb]. apply IH. exact A.
Qed.

(* ---------------------------------------------------------------- one step of lex_loop *)

Section Steps.
  Variable dl : delims.

  Lemma lex_loop_nil : forall f, lex_loop (S f) dl [] = ROk [].
  Proof. reflexivity. Qed.

  Lemma lex_loop_var : forall f rest ws rest1 toks w pre rest2,
    rest <> [] -> starts2 (d_vs dl) rest = true -> check_ws_start rest = (ws, rest1) ->
    scan_inside (S (length rest1)) (d_ve dl) rest1 = IEnd toks w pre rest2 ->
    lex_loop (S f) dl rest =
      res_cons ((TVarStart ws, 0, mlen ws) :: toks ++ [(TVarEnd w, pre, mlen w)]) (lex_loop f dl rest2).
  Proof.
    intros f [|b rest] ws rest1 toks w pre rest2 N H1 H2 H3; [contradiction|].
    cbn [lex_loop]. rewrite H1, H2, H3. reflexivity.
  Qed.

  Lemma lex_loop_tag : forall f rest ws rest1 toks w pre rest2,
    rest <> [] -> starts2 (d_vs dl) rest = false -> starts2 (d_bs dl) rest = true ->
    check_ws_start rest = (ws, rest1) -> skip_tag rest1 name_raw (d_be dl) = None ->
    scan_inside (S (length rest1)) (d_be dl) rest1 = IEnd toks w pre rest2 ->
    lex_loop (S f) dl rest =
      res_cons ((TTagStart ws, 0, mlen ws) :: toks ++ [(TTagEnd w, pre, mlen w)]) (lex_loop f dl rest2).
  Proof.
    intros f [|b rest] ws rest1 toks w pre rest2 N H0 H1 H2 H3 H4; [contradiction|].
    cbn [lex_loop]. rewrite H0, H1, H2, H3, H4. reflexivity.
  Qed.

  Lemma lex_loop_raw : forall f rest ws rest1 offset il result ws_end adv,
    rest <> [] -> starts2 (d_vs dl) rest = false -> starts2 (d_bs dl) rest = true ->
    check_ws_start rest = (ws, rest1) -> skip_tag rest1 name_raw (d_be dl) = Some (offset, il) ->
    raw_loop (S (length rest1)) dl rest1 offset offset il = Some (result, ws_end, adv) ->
    lex_loop (S f) dl rest =
      res_cons [(TRaw ws result ws_end, 0, mlen ws + adv)] (lex_loop f dl (skipn adv rest1)).
  Proof.
    intros f [|b rest] ws rest1 offset il result ws_end adv N H0 H1 H2 H3 H4; [contradiction|].
    cbn [lex_loop]. rewrite H0, H1, H2, H3, H4. reflexivity.
  Qed.

  Lemma lex_loop_comment : forall f rest ws rest1 end_pos,
    rest <> [] -> starts2 (d_vs dl) rest = false -> starts2 (d_bs dl) rest = false ->
    starts2 (d_cs dl) rest = true -> check_ws_start rest = (ws, rest1) ->
    memstr rest1 (d_ce dl) = Some end_pos ->
    lex_loop (S f) dl rest =
      res_cons [(TComment ws (match end_pos with O => false | S p => byte_at_is rest1 p dash end),
                 0, mlen ws + end_pos + 2)]
               (lex_loop f dl (skipn (end_pos + 2) rest1)).
  Proof.
    intros f [|b rest] ws rest1 end_pos N H0 H1 H2 H3 H4; [contradiction|].
    cbn [lex_loop]. rewrite H0, H1, H2, H3, H4. reflexivity.
  Qed.

  Lemma lex_loop_content : forall f rest,
    rest <> [] -> starts2 (d_vs dl) rest = false -> starts2 (d_bs dl) rest = false ->
    starts2 (d_cs dl) rest = false ->
    lex_loop (S f) dl rest =
      match find_start_marker dl rest with
      | Some start => res_cons [(TContent (firstn start rest), 0, start)] (lex_loop f dl (skipn start rest))
      | None => ROk [(TContent rest, 0, length rest)]
      end.
  Proof.
    intros f [|b rest] N H0 H1 H2; [contradiction|].
    cbn [lex_loop]. rewrite H0, H1, H2. reflexivity.
  Qed.
End Steps.

Lemma last_not_dash : forall body x, length body = S x -> no_dash_last body ->
  forall y, byte_at_is (body ++ y) x dash = false.
Proof.
  intros body x L N y. destruct (exists_last (l := body)) as [b' [c E]]; [destruct body; discriminate|].
  subst body. rewrite app_length in L. cbn in L.
  unfold no_dash_last in N. rewrite rev_unit in N. cbn in N.
  unfold byte_at_is. rewrite <- app_assoc. rewrite nth_error_app2 by lia.
  replace (x - length b') with 0 by lia. cbn. now apply N.eqb_neq.
Qed.


(* ---------------------------------------------------------------- the read-back theorem *)

Section ReadBack.
  Variable dl : delims.
  Let d := spelling_of dl.
  Hypothesis Hok : spelling_ok d.

  Let Lbs : length (d_bs dl) = 2. Proof. apply Hok. Qed.
  Let Lbe : length (d_be dl) = 2. Proof. apply Hok. Qed.
  Let Lvs : length (d_vs dl) = 2. Proof. apply Hok. Qed.
  Let Lve : length (d_ve dl) = 2. Proof. apply Hok. Qed.
  Let Lcs : length (d_cs dl) = 2. Proof. apply Hok. Qed.
  Let Lce : length (d_ce dl) = 2. Proof. apply Hok. Qed.
  Let Nbv : d_bs dl <> d_vs dl. Proof. apply Hok. Qed.
  Let Nbc : d_bs dl <> d_cs dl. Proof. apply Hok. Qed.
  Let Nvc : d_vs dl <> d_cs dl. Proof. apply Hok. Qed.

  Lemma fsm_cons2 : forall b1 b2 t,
    find_start_marker dl (b1 :: b2 :: t)
    = if is_start_window dl b1 b2 then Some 0 else option_map S (find_start_marker dl (b2 :: t)).
  Proof. reflexivity. Qed.

  Lemma is_start_window_iff : forall b1 b2 t,
    is_start_window dl b1 b2 = true <-> start_at d (b1 :: b2 :: t) 0.
  Proof.
    intros b1 b2 t. unfold is_start_window, start_at, occurs.
    change (window (b1 :: b2 :: t) 0) with [b1; b2]. subst d. cbn [vs bs cs spelling_of].
    rewrite !orb_true_iff, !bytes_eqb_eq. tauto.
  Qed.

  Lemma start_at_long : forall s p, start_at d s p -> p + 2 <= length s.
  Proof.
    intros s p H.
    assert (L : length (window s p) = 2) by (destruct H as [H|[H|H]]; unfold occurs in H; rewrite H; assumption).
    unfold window in L. rewrite firstn_length, skipn_length in L. lia.
  Qed.

  Lemma start_at_cons : forall b s p, start_at d (b :: s) (S p) <-> start_at d s p.
  Proof. intros. unfold start_at, occurs. rewrite window_cons. tauto. Qed.

  Lemma fsm_first : forall n s, start_at d s n -> (forall p, p < n -> ~ start_at d s p) ->
    find_start_marker dl s = Some n.
  Proof.
    induction n as [|n IH]; intros s H N.
    - pose proof (start_at_long _ _ H) as L. destruct s as [|b1 [|b2 t]]; cbn in L; try lia.
      rewrite fsm_cons2. apply (is_start_window_iff b1 b2 t) in H. now rewrite H.
    - pose proof (start_at_long _ _ H) as L. destruct s as [|b1 [|b2 t]]; cbn in L; try lia.
      rewrite fsm_cons2.
      destruct (is_start_window dl b1 b2) eqn:E.
      + apply is_start_window_iff with (t := t) in E. exfalso. apply (N 0); [lia|exact E].
      + apply start_at_cons in H. rewrite (IH (b2 :: t) H); [reflexivity|].
        intros p Hp Q. apply (N (S p)); [lia|]. now apply start_at_cons.
  Qed.

  Lemma fsm_none : forall s, (forall p, ~ start_at d s p) -> find_start_marker dl s = None.
  Proof.
    induction s as [|b1 t IH]; intro N; [reflexivity|].
    destruct t as [|b2 t']; [reflexivity|]. rewrite fsm_cons2.
    destruct (is_start_window dl b1 b2) eqn:E.
    - apply is_start_window_iff with (t := t') in E. exfalso. exact (N 0 E).
    - rewrite IH; [reflexivity|]. intros p Q. apply (N (S p)). now apply start_at_cons.
  Qed.

  Lemma nontext_starts : forall it y, is_text it = false -> start_at d (print_item d it ++ y) 0.
  Proof.
    intros it y H. unfold start_at, occurs.
    destruct it as [s|l b r|l il b ir r|l s r|l s r]; [discriminate| | | |];
      cbn [print_item]; unfold raw_open; repeat rewrite <- app_assoc.
    - right; right. now apply window_len2.
    - right; left. now apply window_len2.
    - left. now apply window_len2.
    - right; left. now apply window_len2.
  Qed.

  (* ---- raw scanning *)

  Lemma raw_loop_ok : forall H body close tail il ir r e1 e2,
    d_be dl = [e1; e2] ->
    close = raw_close d ir r ->
    (r = false -> e1 <> dash /\ is_ascii_ws e1 = false) ->
    (forall p, p < length body -> occurs (d_bs dl) (body ++ d_bs dl) p ->
        p + 2 <= length body /\ ~ tag_named kw_endraw (d_be dl) (skipn (p + 2) (body ++ close ++ tail))) ->
    forall k o fuel, length body - o <= k -> o <= length body -> k < fuel ->
      raw_loop fuel dl (H ++ body ++ close ++ tail) (length H) (length H + o) il
      = Some (trim_end_if ir (trim_start_if il body), r, length H + length body + length close).
  Proof.
    intros H body close tail il ir r e1 e2 Ebe Eclose Hr WF.
    assert (Eclose' : close = d_bs dl ++ mk ir ++ sp ++ kw_endraw ++ sp ++ mk r ++ [e1; e2]).
    { subst close. unfold raw_close. subst d. cbn [bs be spelling_of]. now rewrite Ebe. }
    assert (Wreal : window (body ++ close ++ tail) (length body) = d_bs dl).
    { rewrite window_app_r0. rewrite Eclose'. rewrite <- app_assoc. now apply window_len2. }
    induction k as [k IH] using lt_wf_ind. intros o fuel Hk Ho Hf.
    destruct fuel as [|f]; [lia|]. cbn [raw_loop].
    rewrite skipn_app_r.
    set (T := body ++ close ++ tail) in *.
    assert (W0 : window (skipn o T) (length body - o) = d_bs dl).
    { unfold window in *. rewrite skipn_skipn'. replace (length body - o + o) with (length body) by lia. exact Wreal. }
    destruct (memstr_complete (d_bs dl) _ _ Lbs W0) as [m [Hm M]]. rewrite M.
    destruct (memstr_sound _ _ _ Lbs M) as [Wm _].
    assert (Wm' : window T (o + m) = d_bs dl).
    { unfold window in *. rewrite skipn_skipn' in Wm. now rewrite Nat.add_comm. }
    replace (length H + o + m + 2) with (length H + (o + m + 2)) by lia.
    rewrite skipn_app_r.
    destruct (Nat.eq_dec (o + m) (length body)) as [Eq|Ne].
    - (* the real closing tag *)
      assert (ST : skipn (o + m + 2) T = mk ir ++ sp ++ kw_endraw ++ sp ++ mk r ++ [e1; e2] ++ tail).
      { subst T. rewrite Eq. rewrite skipn_app, skipn_all2 by lia.
        replace (length body + 2 - length body) with 2 by lia. cbn [app].
        rewrite Eclose'. repeat rewrite <- app_assoc.
        rewrite skipn_app, Lbs, Nat.sub_diag, skipn_all2 by lia. reflexivity. }
      rewrite ST, Ebe. rewrite (skip_tag_close [e1; e2] ir r tail ltac:(discriminate) Hr).
      assert (SW : byte_at_is (H ++ T) (length H + (o + m + 2)) dash = ir).
      { unfold byte_at_is.
        rewrite nth_error_app2 by lia. replace (length H + (o + m + 2) - length H) with (o + m + 2) by lia.
        rewrite <- (firstn_skipn (o + m + 2) T) at 1.
        rewrite nth_error_app2 by (rewrite firstn_length; lia).
        rewrite firstn_length_le.
        2:{ subst T. rewrite !app_length, Eclose', !app_length, Lbs. lia. }
        rewrite Nat.sub_diag, ST. destruct ir; reflexivity. }
      rewrite SW.
      assert (SB : firstn (length H + o + m - length H) (skipn (length H) (H ++ T)) = body).
      { rewrite skipn_app, skipn_all2, Nat.sub_diag by lia. cbn [app skipn].
        replace (length H + o + m - length H) with (length body) by lia.
        subst T. rewrite firstn_app, Nat.sub_diag, firstn_all. cbn [firstn]. now rewrite app_nil_r. }
      rewrite SB. unfold trim_end_if, trim_start_if. f_equal. f_equal.
      rewrite Eclose', !app_length, Lbs. cbn [length]. lia.
    - (* a block start inside the body that is not an endraw tag *)
      assert (Lt : o + m < length body) by lia.
      assert (Occ : occurs (d_bs dl) (body ++ d_bs dl) (o + m)).
      { unfold occurs.
        assert (TT : T = (body ++ d_bs dl) ++ (mk ir ++ sp ++ kw_endraw ++ sp ++ mk r ++ [e1; e2]) ++ tail)
          by (subst T; rewrite Eclose'; repeat rewrite <- app_assoc; reflexivity).
        pose proof Wm' as Wq. rewrite TT in Wq.
        rewrite window_app_l in Wq by (rewrite app_length, Lbs; lia). exact Wq. }
      destruct (WF (o + m) Lt Occ) as [In NT].
      destruct (skip_tag (skipn (o + m + 2) T) name_endraw (d_be dl)) as [[en we]|] eqn:SK.
      { exfalso. apply NT. eapply skip_tag_sound. exact SK. }
      replace (length H + o + m + 2) with (length H + (o + m + 2)) by lia.
      apply (IH (length body - (o + m + 2))); lia.
  Qed.

  (* ---- the main induction *)

  Let ins := inside_ends_model.

  Theorem lex_print_gen : forall dc, wf_doc d ins dc -> forall fuel, length dc < fuel ->
    exists pt, lex_loop fuel dl (print d dc) = ROk pt
               /\ filter is_template_tok (map tok_of pt) = items_of dc
               /\ inner_placed false (map tok_of pt) = true.
  Proof.
    induction dc as [|it rest IH]; intros WF fuel Hf.
    { destruct fuel; [lia|]. exists []. split; [|split]; reflexivity. }
    destruct WF as [WI [ADJ WR]]. destruct fuel as [|f]; [lia|]. cbn [length] in Hf.
    destruct (IH WR f ltac:(lia)) as [pt' [LP [IT IP]]].
    cbn [print]. set (tail := print d rest) in *.
    change (items_of (it :: rest)) with (item_toks it ++ items_of rest).
    destruct it as [s|l body r|l il body ir r|l src r|l src r]; cbn [print_item item_toks].
    - (* Text *)
      destruct WI as [Ns NS].
      assert (S0 : forall x, length x = 2 -> (x = d_vs dl \/ x = d_bs dl \/ x = d_cs dl) ->
                   starts2 x (s ++ tail) = false).
      { intros x Lx Hx. apply starts2_false; [exact Lx|]. intro W.
        apply (NS 0); [destruct s; [contradiction|cbn; lia]|].
        unfold start_at, occurs. rewrite W. unfold d in *. cbn [vs bs cs spelling_of]. tauto. }
      rewrite lex_loop_content;
        [|destruct s; [contradiction|discriminate]|apply S0; auto|apply S0; auto|apply S0; auto].
      destruct rest as [|n rest'].
      + subst tail. cbn [print]. rewrite app_nil_r.
        rewrite fsm_none.
        2:{ intros p Q. destruct (Nat.lt_ge_cases p (length s)) as [Lt|Ge].
            - apply (NS p Lt). cbn [print]. now rewrite app_nil_r.
            - apply start_at_long in Q. lia. }
        exists [(TContent s, 0, length s)]. split; [|split]; reflexivity.
      + assert (NT : is_text n = false) by (apply ADJ; reflexivity).
        rewrite (fsm_first (length s)).
        2:{ unfold start_at, occurs. rewrite !window_app_r0. subst tail. cbn [print].
            apply (nontext_starts n _ NT). }
        2:{ exact NS. }
        rewrite firstn_app, Nat.sub_diag, firstn_all. cbn [firstn]. rewrite app_nil_r.
        rewrite skipn_app, Nat.sub_diag, skipn_all. cbn [skipn app].
        rewrite LP. cbn [res_cons app]. eexists. split; [reflexivity|]. split; [|exact IP].
        cbn [map filter tok_of fst is_template_tok]. now rewrite IT.
    - (* Comment *)
      destruct WI as [Wl [Wr Wc]]. unfold d in *. cbn [cs ce spelling_of] in *.
      repeat rewrite <- app_assoc.
      assert (CW : check_ws_start (d_cs dl ++ mk l ++ body ++ mk r ++ d_ce dl ++ tail)
                   = (l, body ++ mk r ++ d_ce dl ++ tail)).
      { apply check_ws_start_mk; [exact Lcs|]. intro E.
        replace (body ++ mk r ++ d_ce dl ++ tail) with ((body ++ mk r ++ d_ce dl) ++ tail)
          by (repeat rewrite <- app_assoc; reflexivity).
        apply no_dash_first_app; [|exact (Wl E)].
        intro Z. apply (f_equal (@length _)) in Z. rewrite !app_length, Lce in Z. cbn in Z. lia. }
      assert (MS : memstr (body ++ mk r ++ d_ce dl ++ tail) (d_ce dl) = Some (length (body ++ mk r))).
      { replace (body ++ mk r ++ d_ce dl ++ tail) with ((body ++ mk r) ++ d_ce dl ++ tail)
          by (repeat rewrite <- app_assoc; reflexivity).
        apply memstr_first; [exact Lce| |].
        - rewrite window_app_r0. now apply window_len2.
        - intros p Hp.
          replace ((body ++ mk r) ++ d_ce dl ++ tail) with (((body ++ mk r) ++ d_ce dl) ++ tail)
            by (repeat rewrite <- app_assoc; reflexivity).
          rewrite window_app_l by (rewrite app_length, Lce; lia).
          specialize (Wc p Hp). unfold occurs in Wc. now rewrite <- app_assoc. }
      rewrite (lex_loop_comment dl f _ l _ _ (app_len2_nonnil _ _ Lcs)
                 (starts2_app_diff _ _ _ Lcs Lvs (not_eq_sym Nvc))
                 (starts2_app_diff _ _ _ Lcs Lbs (not_eq_sym Nbc))
                 (starts2_app_same _ _ Lcs) CW MS).
      replace (skipn (length (body ++ mk r) + 2) (body ++ mk r ++ d_ce dl ++ tail)) with tail.
      2:{ replace (body ++ mk r ++ d_ce dl ++ tail) with (((body ++ mk r) ++ d_ce dl) ++ tail)
            by (repeat rewrite <- app_assoc; reflexivity).
          rewrite skipn_app, skipn_all2 by (rewrite app_length, Lce; lia).
          rewrite (app_length (body ++ mk r)), Lce, Nat.sub_diag. reflexivity. }
      rewrite LP. cbn [res_cons app]. eexists. split; [reflexivity|]. split; [|exact IP].
      cbn [map filter tok_of fst is_template_tok]. rewrite IT. f_equal. f_equal.
      destruct r; cbn [mk].
      + rewrite app_length. cbn [length]. rewrite Nat.add_1_r.
        unfold byte_at_is. rewrite nth_error_app2 by lia. rewrite Nat.sub_diag. reflexivity.
      + rewrite app_nil_r. cbn [app]. destruct (length body) as [|x] eqn:LB; [reflexivity|].
        apply last_not_dash; [exact LB|exact (Wr eq_refl)].
    - (* Raw *)
      destruct WI as [Wil [Wr Wb]]. unfold d in *. cbn [bs be spelling_of] in *.
      destruct (len2_inv _ Lbe) as [e1 [e2 Ebe]]. rewrite Ebe in Wil, Wr.
      unfold raw_open. cbn [bs be spelling_of]. rewrite Ebe. repeat rewrite <- app_assoc.
      set (close := raw_close (spelling_of dl) ir r) in *.
      set (rest1 := sp ++ kw_raw ++ sp ++ mk il ++ [e1; e2] ++ body ++ close ++ tail).
      assert (CW : check_ws_start (d_bs dl ++ mk l ++ rest1) = (l, rest1)).
      { apply check_ws_start_mk; [exact Lbs|]. intros _. subst rest1. cbn. discriminate. }
      assert (ST : skip_tag rest1 name_raw [e1; e2]
                   = Some (length (sp ++ kw_raw ++ sp ++ mk il ++ [e1; e2]), il)).
      { subst rest1. apply skip_tag_open; [discriminate|]. intro E. exact (Wil E). }
      set (H := sp ++ kw_raw ++ sp ++ mk il ++ [e1; e2]) in *.
      assert (R1 : rest1 = H ++ body ++ close ++ tail).
      { subst rest1 H. repeat rewrite <- app_assoc. reflexivity. }
      assert (RL : raw_loop (S (length rest1)) dl rest1 (length H) (length H) il
                   = Some (trim_end_if ir (trim_start_if il body), r, length H + length body + length close)).
      { rewrite R1. rewrite <- (Nat.add_0_r (length H)) at 2.
        eapply (raw_loop_ok H body close tail il ir r e1 e2 Ebe eq_refl).
        - intro E. exact (Wr E).
        - intros p Hp Occ. apply (Wb p Hp Occ).
        - apply Nat.le_refl.
        - lia.
        - rewrite !app_length. lia. }
      rewrite (lex_loop_raw dl f _ l rest1 (length H) il _ r _
                 (app_len2_nonnil _ _ Lbs)
                 (starts2_app_diff _ _ _ Lbs Lvs Nbv) (starts2_app_same _ _ Lbs) CW
                 ltac:(rewrite Ebe; exact ST) RL).
      replace (skipn (length H + length body + length close) rest1) with tail.
      2:{ rewrite R1.
          replace (H ++ body ++ close ++ tail) with ((H ++ body ++ close) ++ tail)
            by (repeat rewrite <- app_assoc; reflexivity).
          rewrite skipn_app, skipn_all2 by (rewrite !app_length; lia).
          rewrite !app_length. replace (_ - _) with 0 by lia. reflexivity. }
      rewrite LP. cbn [res_cons app]. eexists. split; [reflexivity|]. split; [|exact IP].
      cbn [map filter tok_of fst is_template_tok]. now rewrite IT.
    - (* Expr *)
      destruct WI as [Wl Wi]. unfold d in *. cbn [vs ve spelling_of] in *.
      repeat rewrite <- app_assoc.
      assert (CW : check_ws_start (d_vs dl ++ mk l ++ src ++ mk r ++ d_ve dl ++ tail)
                   = (l, src ++ mk r ++ d_ve dl ++ tail)).
      { apply check_ws_start_mk; [exact Lvs|]. intro E.
        replace (src ++ mk r ++ d_ve dl ++ tail) with ((src ++ mk r ++ d_ve dl) ++ tail)
          by (repeat rewrite <- app_assoc; reflexivity).
        apply no_dash_first_app; [|exact (Wl E)].
        intro Z. apply (f_equal (@length _)) in Z. rewrite !app_length, Lve in Z. cbn in Z. lia. }
      destruct Wi as [toks [pre SI]].
      rewrite (lex_loop_var dl f _ l _ toks r pre tail
                 (app_len2_nonnil _ _ Lvs)
                 (starts2_app_same _ _ Lvs) CW SI).
      rewrite LP. cbn [res_cons]. eexists. split; [reflexivity|]. split.
      + rewrite tmpl_view_wrap; [|exact (scan_inside_inner _ _ _ _ _ _ _ SI)|reflexivity|reflexivity].
        rewrite IT. reflexivity.
      + apply inner_placed_wrap; try reflexivity; [exact (scan_inside_inner _ _ _ _ _ _ _ SI)|exact IP].
    - (* Tag *)
      destruct WI as [Wl [Wn Wi]]. unfold d in *. cbn [bs be spelling_of] in *.
      repeat rewrite <- app_assoc.
      assert (CW : check_ws_start (d_bs dl ++ mk l ++ src ++ mk r ++ d_be dl ++ tail)
                   = (l, src ++ mk r ++ d_be dl ++ tail)).
      { apply check_ws_start_mk; [exact Lbs|]. intro E.
        replace (src ++ mk r ++ d_be dl ++ tail) with ((src ++ mk r ++ d_be dl) ++ tail)
          by (repeat rewrite <- app_assoc; reflexivity).
        apply no_dash_first_app; [|exact (Wl E)].
        intro Z. apply (f_equal (@length _)) in Z. rewrite !app_length, Lbe in Z. cbn in Z. lia. }
      assert (SK : skip_tag (src ++ mk r ++ d_be dl ++ tail) name_raw (d_be dl) = None).
      { destruct (skip_tag _ _ _) as [[n o]|] eqn:E; [|reflexivity].
        exfalso. apply Wn. eapply skip_tag_sound. exact E. }
      destruct Wi as [toks [pre SI]].
      rewrite (lex_loop_tag dl f _ l _ toks r pre tail
                 (app_len2_nonnil _ _ Lbs)
                 (starts2_app_diff _ _ _ Lbs Lvs Nbv) (starts2_app_same _ _ Lbs) CW SK SI).
      rewrite LP. cbn [res_cons]. eexists. split; [reflexivity|]. split.
      + rewrite tmpl_view_wrap; [|exact (scan_inside_inner _ _ _ _ _ _ _ SI)|reflexivity|reflexivity].
        rewrite IT. reflexivity.
      + apply inner_placed_wrap; try reflexivity; [exact (scan_inside_inner _ _ _ _ _ _ _ SI)|exact IP].
  Qed.

  Lemma print_len : forall dc, wf_doc d ins dc -> length dc <= length (print d dc).
  Proof.
    induction dc as [|it rest IH]; intro WF; [apply Nat.le_refl|].
    destruct WF as [WI [_ WR]]. specialize (IH WR). cbn [print length]. rewrite app_length.
    enough (1 <= length (print_item d it)) by lia.
    destruct it as [s|l b r|l il b ir r|l s r|l s r]; cbn [print_item]; unfold raw_open;
      unfold d; cbn [bs be vs ve cs ce spelling_of]; rewrite ?app_length, ?Lbs, ?Lvs, ?Lcs; try lia.
    destruct WI as [Ns _]. destruct s; [contradiction|cbn; lia].
  Qed.

  Theorem lex_print_ok : forall dc, wf_doc d ins dc ->
    exists pt, lex_ptoks dl (print d dc) = ROk pt
               /\ filter is_template_tok (map tok_of pt) = items_of dc
               /\ inner_placed false (map tok_of pt) = true.
  Proof.
    intros dc WF. apply lex_print_gen; [exact WF|]. pose proof (print_len dc WF). lia.
  Qed.

  Theorem lex_print_items : forall dc, wf_doc d ins dc ->
    template_items dl (print d dc) = ROk (items_of dc).
  Proof.
    intros dc WF. destruct (lex_print_ok dc WF) as [pt [L [I _]]].
    unfold template_items, lex_tokens. rewrite L. cbn [res_map]. now rewrite I.
  Qed.

  (* from the source bytes to what the parser sees, and to the rendered bytes *)
  Theorem parser_view_spec : forall dc, wf_doc d ins dc ->
    parser_view dl (print d dc) = ROk (spec_toks dc).
  Proof.
    intros dc WF. destruct (lex_print_ok dc WF) as [pt [L [I P]]].
    unfold parser_view, lex_filtered, lex_tokens. rewrite L. cbn [res_map].
    change (ws_filter (map tok_of pt)) with (wsf true false (map tok_of pt)).
    rewrite (wsf_proj true _ false false P) by discriminate.
    rewrite I. now rewrite wsf_fixed_spec.
  Qed.

  Theorem render_print_spec : forall out_of dc, wf_doc d ins dc ->
    render_source out_of dl (print d dc) = ROk (spec_render out_of dc).
  Proof.
    intros out_of dc WF. unfold render_source. rewrite (parser_view_spec dc WF). cbn [res_map].
    now rewrite render_spec_toks.
  Qed.

  (* a source without any start-delimiter window *)
  Theorem no_start_renders_itself : forall out_of src,
    (forall p, ~ start_at d src p) ->
    template_items dl src = ROk (match src with [] => [] | _ => [TContent src] end)
    /\ render_source out_of dl src = ROk src.
  Proof.
    intros out_of src N. destruct src as [|b s].
    - split; reflexivity.
    - assert (WF : wf_doc d ins [Text (b :: s)]).
      { cbn. split; [|split; [trivial|exact I]]. split; [discriminate|].
        intros p _. rewrite app_nil_r. apply N. }
      pose proof (lex_print_items _ WF) as L. pose proof (render_print_spec out_of _ WF) as R.
      cbn [print print_item] in L, R. rewrite app_nil_r in L, R. split; [exact L|].
      rewrite R. unfold spec_render, spec_out. cbn. now rewrite app_nil_r.
  Qed.
End ReadBack.

Lemma respelling_invariant : forall dl1 dl2 out_of dc,
  validate dl1 = ROk tt -> validate dl2 = ROk tt ->
  wf_doc (spelling_of dl1) inside_ends_model dc ->
  wf_doc (spelling_of dl2) inside_ends_model dc ->
  render_source out_of dl1 (print (spelling_of dl1) dc)
  = render_source out_of dl2 (print (spelling_of dl2) dc).
Proof.
  intros dl1 dl2 out_of dc V1 V2 W1 W2.
  rewrite (render_print_spec dl1 (proj1 (validate_spec_lemma dl1) V1) out_of dc W1).
  rewrite (render_print_spec dl2 (proj1 (validate_spec_lemma dl2) V2) out_of dc W2).
  reflexivity.
Qed.
