(* C09, behavioural clause at WHOLE-WORLD level on the concrete VM (Model/VM.v): rendering with
   every chunk of the world optimised (Model/OptWorld.v `opt_world`) gives the same output, or
   the same error class, as rendering with the unoptimised chunks — including the nested runs
   (include, RenderBlock, super(), components), whose callee chunks are optimised too.

   Architecture (parallels Proofs/OptimizeSim.v, but on `VM.run`):
     - per chunk, `optimize_structure` gives the position bookkeeping (group_start, rel);
     - states are related by SR: equal except the stored `lf_end_ip`s (zero iff zero, and the
       optimised one is the group whose start is the original one), the block lineages kept in
       `blocks` (mapped through `opt_chunk`), and the includer's scope (equal up to end_ips);
     - the end_ip relation is per chunk, so loop frames of a CALLER (super() and block chunks
       run on the caller's State) must not be touched by the callee: this loop discipline is the
       fourth decidable side condition, C07's validator `check_chunk` (Model/StackCheck.v), of
       which only the loop-stack part is used (`loop_disc`);
     - `plain_step`: one non-fused instruction on both sides; `fused_step`: one LoadPath /
       WritePath against the LoadName; LoadAttr*; [WriteTop] it replaces;
     - two inductions on fuel sharing these lemmas through a direction flag: original =>
       optimised with the SAME fuel, optimised => original with fuel multiplied by a bound on
       the chunk lengths. No fuel-monotonicity lemma is needed. *)
From TeraV Require Import Model.Value Model.Instr Model.Slice Model.Optimize Model.VM Model.StackCheck
  Model.OptWorld Gen.Tables Proofs.OptimizeProofs Proofs.OptimizeSim.
Local Open Scope nat_scope.

(* ------------------------------------------------------------------------------------------ *)
(* 1. side conditions                                                                          *)
(* ------------------------------------------------------------------------------------------ *)

Definition chunk_ok (c : list instr) : bool :=
  unfusedb (with_spans c) && targets_in_rangeb (with_spans c) && iterate_forwardb c && check_chunk c.
Definition tpl_ok (t : template) : bool := forallb chunk_ok (chunks_of_tpl t).
Definition world_ok (wd : world) : bool := forallb chunk_ok (world_chunks wd).

Lemma map_fst_with_spans c : map fst (with_spans c) = c.
Proof. unfold with_spans. rewrite map_map. cbn. apply map_id. Qed.

(* ---------- the loop-stack part of C07's validator ---------- *)

Definition lsucc (i : instr) (ip : nat) (lo : list (option nat)) : list (nat * list (option nat)) :=
  match i with
  | Jump t => [(t, lo)]
  | PopJumpIfFalse t | JumpIfFalseOrPop t | JumpIfTrueOrPop t => [(S ip, lo); (t, lo)]
  | StartIterate _ | StartIterateComprehension _ => [(S ip, None :: lo)]
  | Iterate t => [(S ip, Some t :: tl lo); (t, lo)]
  | Break => match lo with Some t :: _ => [(t, lo)] | _ => [] end
  | PopLoop => [(S ip, tl lo)]
  | _ => [(S ip, lo)]
  end.

Definition lneed (i : instr) (lo : list (option nat)) : Prop :=
  match i with
  | Iterate _ | PopLoop | StoreLocal _ | StoreDidNotIterate => lo <> []
  | Break => exists t r, lo = Some t :: r
  | _ => True
  end.

Definition ltable := nat -> option (list (option nat)).

(* a table of loop-stack shapes (relative to the chunk's entry) consistent with every edge; the
   loop instructions only ever touch frames the chunk itself pushed; balanced at the exit *)
Definition ltable_ok (c : list instr) (lt : ltable) : Prop :=
  (forall ip i lo, nth_error c ip = Some i -> lt ip = Some lo ->
     lneed i lo /\
     forall t lo', In (t, lo') (lsucc i ip lo) ->
       exists lo'', lt t = Some lo'' /\ all2 lp_sub lo' lo'' = true) /\
  (forall lo, lt (length c) = Some lo -> lo = []).

Definition loop_disc (c : list instr) : Prop := exists lt, ltable_ok c lt /\ lt 0 = Some [].

Ltac crack A := repeat (match type of A with
  | match (match ?x with _ => _ end) with _ => _ end = Some _ => destruct x
  | match ?x with _ => _ end = Some _ => destruct x
  end; cbn in A; try discriminate A).

Lemma astep_lsucc i ip a edges : astep i ip a = Some edges ->
  lneed i (a_loops a) /\
  forall t lo', In (t, lo') (lsucc i ip (a_loops a)) -> exists a', In (t, a') edges /\ a_loops a' = lo'.
Proof.
  intros A. destruct a as [st lo ca]. cbn [a_loops].
  destruct i; cbn in A; crack A; injection A as <-; cbn [lneed lsucc tl]; (split; [try exact I; try discriminate; eauto|]);
    intros tt0 ll0 Hin; cbn [In] in Hin;
    repeat match goal with H : _ \/ _ |- _ => destruct H end; try contradiction;
    match goal with H : (_, _) = (_, _) |- _ => injection H as <- <- end;
    eexists; (split; [cbn [In]; eauto|reflexivity]).
Qed.

Lemma all2_lp_sub_nil_l l : all2 lp_sub [] l = true -> l = [].
Proof. destruct l; [reflexivity|discriminate]. Qed.
Lemma all2_lp_sub_nil_r l : all2 lp_sub l [] = true -> l = [].
Proof. destruct l; [reflexivity|discriminate]. Qed.

Lemma nth_error_all_from tbl : forall c ip0 ip i,
  all_from tbl ip0 c = true -> nth_error c ip = Some i -> instr_ok tbl (ip0 + ip) i = true.
Proof.
  induction c as [|x c IH]; intros ip0 ip i H N; [destruct ip; discriminate|].
  cbn [all_from] in H. apply andb_prop in H. destruct H as [H1 H2].
  destruct ip as [|ip]; cbn in N.
  - injection N as <-. rewrite Nat.add_0_r. exact H1.
  - replace (ip0 + S ip) with (S ip0 + ip) by lia. exact (IH _ _ _ H2 N).
Qed.

Lemma astate_sub_loops a b : astate_sub a b = true -> all2 lp_sub (a_loops a) (a_loops b) = true.
Proof.
  unfold astate_sub. intros H. apply andb_prop in H. destruct H as [H _].
  apply andb_prop in H. exact (proj2 H).
Qed.

Lemma check_chunk_loop_disc c : check_chunk c = true -> loop_disc c.
Proof.
  unfold check_chunk, check_chunk_from. set (tbl := infer c a_empty). clearbody tbl.
  unfold check_table. intros H.
  apply andb_prop in H. destruct H as [H H4]. apply andb_prop in H. destruct H as [H H3].
  apply andb_prop in H. destruct H as [H1 H2].
  exists (fun ip => match nth_error tbl ip with Some (Some a) => Some (a_loops a) | _ => None end).
  split; [split|].
  - intros ip i lo N E. destruct (nth_error tbl ip) as [[a|]|] eqn:Et; try discriminate.
    injection E as <-.
    pose proof (nth_error_all_from tbl c 0 ip i H3 N) as HI. cbn [Nat.add] in HI.
    unfold instr_ok in HI. rewrite Et in HI.
    destruct (astep i ip a) as [edges|] eqn:A; [|discriminate].
    destruct (astep_lsucc _ _ _ _ A) as (Hn & Hs). split; [exact Hn|].
    intros t lo' Hin. destruct (Hs t lo' Hin) as (a' & Ha' & <-).
    rewrite forallb_forall in HI. specialize (HI _ Ha'). unfold edge_ok in HI. cbn [fst snd] in HI.
    destruct (nth_error tbl t) as [[b|]|]; try discriminate.
    exists (a_loops b). split; [reflexivity|exact (astate_sub_loops _ _ HI)].
  - intros lo E. destruct (nth_error tbl (length c)) as [[a|]|]; try discriminate.
    injection E as <-. apply astate_sub_loops in H4. cbn in H4. exact (all2_lp_sub_nil_r _ H4).
  - destruct (nth_error tbl 0) as [[a|]|]; try discriminate.
    apply astate_sub_loops in H2. cbn in H2. rewrite (all2_lp_sub_nil_l _ H2). reflexivity.
Qed.

(* ---------- what a chunk that passes chunk_ok gives ---------- *)

Record cgood (c : list instr) : Prop := {
  cg_unfused : forall i, In i c -> is_fused i = false;
  cg_opt : opt_chunk_opt c = Some (opt_chunk c);
  cg_rel : Forall2 (rel (opt_chunk c)) (expand (opt_chunk c)) c;
  cg_shape : forall g, In g (opt_chunk c) -> is_fused g = true -> fused_shape g;
  cg_len : length (expand (opt_chunk c)) = length c;
  cg_iter : iterate_forward c;
  cg_loops : loop_disc c }.

Lemma chunk_ok_cgood c : chunk_ok c = true -> cgood c.
Proof.
  unfold chunk_ok. intros H. apply andb_prop in H. destruct H as [H H4].
  apply andb_prop in H. destruct H as [H H3]. apply andb_prop in H. destruct H as [H1 H2].
  apply unfusedb_ok in H1. apply targets_in_rangeb_ok in H2. apply iterate_forwardb_ok in H3.
  destruct (optimize_structure _ H1 H2) as (o & Ho & Hrel & _ & Hlen & Hshape).
  assert (Eo : opt_chunk_opt c = Some (map fst o)) by (unfold opt_chunk_opt; rewrite Ho; reflexivity).
  assert (Ec : opt_chunk c = map fst o) by (unfold opt_chunk; rewrite Eo; reflexivity).
  rewrite map_fst_with_spans in Hrel. unfold with_spans in Hlen. rewrite map_length in Hlen.
  constructor.
  - intros i Hi. apply (H1 (i, [])). unfold with_spans. apply in_map_iff. exists i. auto.
  - rewrite Ec. exact Eo.
  - rewrite Ec. exact Hrel.
  - rewrite Ec. exact Hshape.
  - rewrite Ec. exact Hlen.
  - exact H3.
  - exact (check_chunk_loop_disc _ H4).
Qed.

Lemma opt_chunk_defined c : chunk_ok c = true -> opt_chunk_opt c = Some (opt_chunk c).
Proof. intros H. exact (cg_opt _ (chunk_ok_cgood _ H)). Qed.

Lemma gsize_le_expand : forall (o : list instr) g, In g o -> gsize g <= length (expand o).
Proof.
  induction o as [|x o IH]; intros g []; cbn [expand flat_map]; rewrite app_length; fold (expand o).
  - subst. unfold gsize. lia.
  - specialize (IH g H). lia.
Qed.

(* ------------------------------------------------------------------------------------------ *)
(* 2. erasing end_ips; the state relation                                                      *)
(* ------------------------------------------------------------------------------------------ *)

Definition lf_set_end (f : loop_frame) (e : nat) : loop_frame :=
  {| lf_rest := lf_rest f; lf_index0 := lf_index0 f; lf_first := lf_first f; lf_last := lf_last f;
     lf_length := lf_length f; lf_end_ip := e; lf_context := lf_context f;
     lf_value_name := lf_value_name f; lf_key_name := lf_key_name f; lf_current := lf_current f;
     lf_iterated := lf_iterated f; lf_is_comp := lf_is_comp f |}.
Definition lf_erase (f : loop_frame) : loop_frame := lf_set_end f 0.

Fixpoint scope_erase (sc : scope) : scope :=
  match sc with
  | Scope ls sv par c g =>
      Scope (map lf_erase ls) sv (match par with Some p => Some (scope_erase p) | None => None end) c g
  end.

(* filters and functions receive the State; nothing in it lets them observe a loop's end_ip
   (a private field of ForLoop). In the model the `scope` argument carries the frames, so this
   is a hypothesis on the world: *)
Definition scope_blind (wd : world) : Prop :=
  (forall n v k sc, w_filter wd n v k sc = w_filter wd n v k (scope_erase sc)) /\
  (forall n k sc, w_function wd n k sc = w_function wd n k (scope_erase sc)).

Lemma lf_get_erase f n : lf_get (lf_erase f) n = lf_get f n.
Proof. reflexivity. Qed.

Lemma loops_get_erase ls n : loops_get (map lf_erase ls) n = loops_get ls n.
Proof. induction ls as [|f t IH]; [reflexivity|]. cbn [map loops_get]. rewrite lf_get_erase, IH. reflexivity. Qed.

Lemma scope_get_erase : forall sc n, scope_get (scope_erase sc) n = scope_get sc n.
Proof.
  fix IH 1. intros [ls sv par c g] n. cbn [scope_erase scope_get]. rewrite loops_get_erase.
  destruct (loops_get ls n); [reflexivity|]. destruct (ctx_get sv n); [reflexivity|].
  destruct par as [p|]; [rewrite IH|]; reflexivity.
Qed.

(* every world whose filters and functions read the scope only through get_value is blind *)
Lemma scope_blind_of_get_value (wd : world) :
  (forall n v k sc sc', (forall x, scope_get sc x = scope_get sc' x) -> w_filter wd n v k sc = w_filter wd n v k sc') ->
  (forall n k sc sc', (forall x, scope_get sc x = scope_get sc' x) -> w_function wd n k sc = w_function wd n k sc') ->
  scope_blind wd.
Proof.
  intros H1 H2. split; intros; [apply H1|apply H2]; intros x; symmetry; apply scope_get_erase.
Qed.

Lemma erase_inv f f' : lf_erase f' = lf_erase f -> f' = lf_set_end f (lf_end_ip f').
Proof. destruct f, f'. unfold lf_erase, lf_set_end. cbn. intros H. injection H as -> -> -> -> -> -> -> -> -> -> ->. reflexivity. Qed.

Lemma erase_set_end f e : lf_erase (lf_set_end f e) = lf_erase f.
Proof. reflexivity. Qed.

Lemma erase_advance f f' e e' :
  lf_erase f' = lf_erase f -> Nat.eqb (lf_end_ip f) 0 = Nat.eqb (lf_end_ip f') 0 ->
  lf_erase (lf_advance f' e') = lf_erase (lf_advance f e).
Proof.
  intros H Hz. rewrite (erase_inv _ _ H). unfold lf_advance, lf_erase, lf_set_end. cbn.
  destruct (lf_rest f); cbn; [reflexivity|]. rewrite Hz. reflexivity.
Qed.

Lemma erase_store_local f f' n : lf_erase f' = lf_erase f ->
  lf_erase (lf_store_local f' n) = lf_erase (lf_store_local f n).
Proof.
  intros H. rewrite (erase_inv _ _ H). unfold lf_store_local, lf_erase, lf_set_end. cbn.
  destruct (lf_key_name f), (lf_value_name f); reflexivity.
Qed.

Lemma erase_store f f' n v : lf_erase f' = lf_erase f -> lf_erase (lf_store f' n v) = lf_erase (lf_store f n v).
Proof. intros H. rewrite (erase_inv _ _ H). reflexivity. Qed.

Lemma end_store_local f n : lf_end_ip (lf_store_local f n) = lf_end_ip f.
Proof. unfold lf_store_local. destruct (lf_key_name f), (lf_value_name f); reflexivity. Qed.

Lemma erase_rest f f' : lf_erase f' = lf_erase f -> lf_rest f' = lf_rest f.
Proof. intros H. rewrite (erase_inv _ _ H). reflexivity. Qed.
Lemma erase_iterated f f' : lf_erase f' = lf_erase f -> lf_iterated f' = lf_iterated f.
Proof. intros H. rewrite (erase_inv _ _ H). reflexivity. Qed.
Lemma erase_context f f' : lf_erase f' = lf_erase f -> lf_context f' = lf_context f.
Proof. intros H. rewrite (erase_inv _ _ H). reflexivity. Qed.

(* ---------- the relation on stored end_ips ---------- *)

Definition lok (e : nat) (a : option nat) : Prop := match a with None => True | Some t => e = t end.

(* es / es' : the end_ips of all frames (innermost first), original / optimised side.
   The frames pushed by the current chunk (shape lo) are related through the chunk's group
   starts; below them the caller's frames, whose end_ips are exactly bl / bl'. *)
Definition LR (oc : list instr) (bl bl' : list nat) (lo : list (option nat)) (es es' : list nat) : Prop :=
  exists fs fs', es = fs ++ bl /\ es' = fs' ++ bl' /\ Forall2 lok fs lo /\ Forall2 (end_rel oc) fs fs'.

Lemma lp_sub_lok e a b : lp_sub a b = true -> lok e a -> lok e b.
Proof.
  destruct b as [t|]; cbn; [|auto]. destruct a as [t'|]; [|discriminate].
  intros H. apply Nat.eqb_eq in H. subst. auto.
Qed.

Lemma Forall2_lok_sub : forall fs lo lo2, Forall2 lok fs lo -> all2 lp_sub lo lo2 = true -> Forall2 lok fs lo2.
Proof.
  intros fs lo lo2 H. revert lo2. induction H as [|e a fs lo He _ IH]; intros lo2 Ha.
  - destruct lo2; [constructor|discriminate].
  - destruct lo2 as [|b lo2]; [discriminate|]. cbn in Ha. apply andb_prop in Ha. destruct Ha as [H1 H2].
    constructor; [exact (lp_sub_lok _ _ _ H1 He)|exact (IH _ H2)].
Qed.

Lemma LR_sub oc bl bl' lo lo2 es es' : all2 lp_sub lo lo2 = true -> LR oc bl bl' lo es es' -> LR oc bl bl' lo2 es es'.
Proof.
  intros Hs (fs & fs' & E1 & E2 & F1 & F2). exists fs, fs'. repeat split; auto.
  exact (Forall2_lok_sub _ _ _ F1 Hs).
Qed.

Lemma LR_base oc bl bl' : LR oc bl bl' [] bl bl'.
Proof. exists [], []. repeat split; constructor. Qed.

Lemma LR_nil_inv oc bl bl' es es' : LR oc bl bl' [] es es' -> es = bl /\ es' = bl'.
Proof.
  intros (fs & fs' & E1 & E2 & F1 & F2). inversion F1; subst. inversion F2; subst. auto.
Qed.

Lemma LR_cons oc bl bl' a lo e e' es es' :
  lok e a -> end_rel oc e e' -> LR oc bl bl' lo es es' -> LR oc bl bl' (a :: lo) (e :: es) (e' :: es').
Proof.
  intros H1 H2 (fs & fs' & E1 & E2 & F1 & F2). exists (e :: fs), (e' :: fs'). subst.
  repeat split; constructor; auto.
Qed.

Lemma LR_pop oc bl bl' a lo es es' : LR oc bl bl' (a :: lo) es es' ->
  exists e e' t t', es = e :: t /\ es' = e' :: t' /\ lok e a /\ end_rel oc e e' /\ LR oc bl bl' lo t t'.
Proof.
  intros (fs & fs' & E1 & E2 & F1 & F2). inversion F1 as [|e a' fs1 lo1 He F1' Ef El]. subst.
  inversion F2 as [|e0 e' fs1' fs2' Hr F2' Ef Ef']. subst.
  exists e, e', (fs1 ++ bl), (fs2' ++ bl'). repeat split; auto. exists fs1, fs2'. auto.
Qed.

Lemma end_rel_00 oc : end_rel oc 0 0.
Proof. left. split; reflexivity. Qed.

(* ---------- the relation on states ---------- *)

Definition blk := (str * list (list instr) * nat)%type.
Definition blk_opt (e : blk) : blk := (fst (fst e), map opt_chunk (snd (fst e)), snd e).
Definition blocks_opt (b : list blk) : list blk := map blk_opt b.

Definition ends (s : state) : list nat := map lf_end_ip (loops s).

Section Rel.
  Variable good : list instr -> Prop.

  Definition blocks_good (b : list blk) : Prop := Forall (fun e => Forall good (snd (fst e))) b.

  Definition SB (s s' : state) : Prop :=
    stack s' = stack s /\ setvars s' = setvars s /\ caps s' = caps s /\
    blocks s' = blocks_opt (blocks s) /\ cur_block s' = cur_block s /\
    option_map scope_erase (parent s') = option_map scope_erase (parent s) /\
    context s' = context s /\ global s' = global s /\ capture_block s' = capture_block s /\
    block_buffer s' = block_buffer s /\
    map lf_erase (loops s') = map lf_erase (loops s) /\
    blocks_good (blocks s).

  Definition SR (oc : list instr) (bl bl' : list nat) (lo : list (option nat)) (s s' : state) : Prop :=
    SB s s' /\ LR oc bl bl' lo (ends s) (ends s').
End Rel.
