(* C06 — nesting beyond a limit is the error outcome, never "ok" (Model/ParseDepth.v).
   Local form: at the point of each check, a counter at its limit gives RErr whatever the
   remaining tokens are.  Family form: `{{ (((…` with enough parentheses is never accepted,
   whatever follows. *)
From Coq Require Import List Arith Bool ZArith Lia.
From TeraV Require Import Model.ParseDepth Proofs.ParseDepthEqs.
Import ListNotations.
Local Open Scope nat_scope.

Definition nok {A} (r : res A) : Prop := match r with ROk _ _ => False | _ => True end.

Section Limits.
Variable C : cfg.

(* ---------------- local form *)

Lemma ipe_at_limit : forall f bp s,
  c_max_rd C <= rd s -> inner_parse_expression C (S f) bp s = RErr s.
Proof.
  intros f bp s H. rewrite inner_parse_expression_eq. unfold counted. cbn [rd set_rd].
  destruct (c_max_rd C <? S (rd s)) eqn:E; [reflexivity|]. apply Nat.ltb_ge in E. lia.
Qed.

Lemma until_at_limit : forall f endp s,
  c_max_rd C <= rd s -> parse_until C (S f) endp s = RErr s.
Proof.
  intros f endp s H. rewrite parse_until_eq. unfold counted. cbn [rd set_rd].
  destruct (c_max_rd C <? S (rd s)) eqn:E; [reflexivity|]. apply Nat.ltb_ge in E. lia.
Qed.

Lemma array_at_limit : forall f s,
  c_max_ad C <= ad s -> parse_array C (S f) s = RErr (set_ad (S (ad s)) s).
Proof.
  intros f s H. rewrite parse_array_eq. unfold bind, get, upd. cbn [ad set_ad].
  destruct (c_max_ad C <? S (ad s)) eqn:E; [reflexivity|]. apply Nat.ltb_ge in E. lia.
Qed.

Lemma subscript_at_limit : forall f e s r,
  toks s = TLBracket :: r -> c_max_nb C <= nb s ->
  parse_subscript C (S f) e s = RErr (set_nb (S (nb s)) (set_toks r s)).
Proof.
  intros f e s r Ht H. rewrite parse_subscript_eq.
  unfold expect_tok, expect, bind, next_or_error, get, upd. rewrite Ht. cbn [tok_eqb ret nb set_toks set_nb].
  destruct (c_max_nb C <? S (nb s)) eqn:E; [reflexivity|]. apply Nat.ltb_ge in E. lia.
Qed.

Lemma elif_at_limit : forall A (m : M A) lim s,
  c_elif_limit C = Some lim -> lim <= el s -> elif_counted C m s = RErr (set_el (S (el s)) s).
Proof.
  intros A m lim s HL H. unfold elif_counted. rewrite HL. cbn [el set_el].
  destruct (lim <? S (el s)) eqn:E; [reflexivity|]. apply Nat.ltb_ge in E. lia.
Qed.

Lemma bump_at_limit : forall lim s,
  c_expr_limit C = Some lim -> lim <= ht s -> bump C s = RErr s.
Proof.
  intros lim s HL H. unfold bump. rewrite HL.
  destruct (lim <? S (ht s)) eqn:E; [reflexivity|]. apply Nat.ltb_ge in E. lia.
Qed.

(* consecutive unary operators are rejected without any recursion (parser.rs:717-729) *)
Lemma unary_unary_rejected : forall f bp s r t u,
  toks s = t :: u :: r ->
  (t = TMinus \/ t = TWord WNot) -> (u = TMinus \/ u = TWord WNot) ->
  parse_expr_bp C (S f) bp s = RErr (set_toks (u :: r) s).
Proof.
  intros f bp s r t u Ht [-> | ->] [-> | ->]; rewrite parse_expr_bp_eq;
    unfold bind, next_or_error, peek; rewrite Ht; reflexivity.
Qed.

(* ---------------- propagation of non-acceptance *)

Lemma nok_bind : forall A B (m : M A) (k : A -> M B) s, nok (m s) -> nok (bind m k s).
Proof. intros A B m k s H. unfold bind. destruct (m s); simpl in *; tauto. Qed.
Lemma nok_call : forall A (m : M A) s, nok (m (enter s)) -> nok (call m s).
Proof. intros A m s H. unfold call. destruct (m (enter s)); simpl in *; tauto. Qed.
Lemma nok_sub_height : forall A (m : M A) s, nok (m (set_ht 0 s)) -> nok (sub_height m s).
Proof. intros A m s H. unfold sub_height. destruct (m (set_ht 0 s)); simpl in *; tauto. Qed.
Lemma nok_counted : forall A (m : M A) s, nok (m (set_rd (S (rd s)) s)) -> nok (counted C m s).
Proof.
  intros A m s H. unfold counted. cbn [rd set_rd].
  destruct (c_max_rd C <? S (rd s)); [exact I|].
  destruct (m (set_rd (S (rd s)) s)); simpl in *; tauto.
Qed.

(* ---------------- `(((…` *)

Lemma parens_not_ok : forall n fuel bp s rest,
  toks s = repeat TLParen n ++ rest -> c_max_rd C <= rd s + n ->
  nok (inner_parse_expression C fuel bp s).
Proof.
  induction n as [|n IH]; intros fuel bp s rest Ht Hrd.
  - destruct fuel as [|f]; [exact I|]. rewrite ipe_at_limit by lia. exact I.
  - destruct fuel as [|f]; [exact I|].
    rewrite inner_parse_expression_eq. apply nok_counted, nok_sub_height, nok_call.
    destruct f as [|f]; [exact I|].
    rewrite parse_expr_bp_eq. unfold bind at 1. unfold next_or_error at 1.
    cbn [toks enter set_ht set_rd]. rewrite Ht. cbn [repeat app].
    apply nok_bind, nok_bind, nok_call.
    apply IH with (rest := rest).
    + reflexivity.
    + cbn [rd enter set_toks set_ht set_rd]. lia.
Qed.

Theorem parens_beyond_limit_rejected : forall n fuel rest,
  c_max_rd C <= n + 1 ->
  nok (parse C fuel (TVarStart :: repeat TLParen n ++ rest)).
Proof.
  intros n fuel rest H. unfold parse. apply nok_call, nok_call.
  destruct fuel as [|f]; [exact I|].
  rewrite parse_until_eq. apply nok_counted, nok_call.
  destruct f as [|f]; [exact I|].
  rewrite until_loop_eq. unfold bind at 1. unfold peek at 1. cbn [toks enter set_rd init hd_error].
  unfold bind at 1. unfold next_or_error at 1. cbn [toks enter set_rd init].
  apply nok_bind, nok_call.
  destruct f as [|f]; [exact I|].
  rewrite parse_expression_eq. apply nok_call.
  apply parens_not_ok with (n := n) (rest := rest).
  - reflexivity.
  - cbn [rd enter set_toks set_rd init]. lia.
Qed.

(* ---------------- `{% if a %}{% if a %}…`: nested tags *)

Definition if_open : list tok := [TTagStart; TWord WIf; TWord (WId 0); TTagEnd].

End Limits.
