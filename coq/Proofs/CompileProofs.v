(* C03: the compiler port (Model/Compile.v) is correct with respect to the reference interpreter
   (Spec/Stmt.v) on the concrete VM model (Model/VM.v): compile_correct.

   Method: "code at position pc" invariant + exact fuel accounting.
     steps pc s o pc' s' o'  :=  exists n m, forall k, run (n+k) .. pc s o = run (m+k) .. pc' s' o'
   is reflexive and transitive, so straight-line segments compose without a fuel-monotonicity
   lemma over the 56 instructions.  Statements are proved by induction on the statement tree
   (a nested induction on the item list for `for`), expressions by induction on the expression;
   a library of templates by induction on the library list. *)
From TeraV Require Import Model.Value Model.Instr Model.VFormat Model.Slice Model.VM Model.World0 Spec.Stmt Model.Compile Gen.Tables.
Local Open Scope nat_scope.

(* ---------- small facts ---------- *)

Lemma lookup_ctx_get c n : lookup c n = ctx_get c n.
Proof. induction c as [|[k v] t IH]; [reflexivity|]. cbn. destruct (str_eqb k n); [reflexivity|exact IH]. Qed.

Lemma mark_safe_value_eq v : mark_safe_value v = mark_safe v.
Proof. destruct v; reflexivity. Qed.

Lemma prints_raw_eq v : prints_raw v = value_is_safe v.
Proof. destruct v; reflexivity. Qed.

Lemma items_of_eq v : items_of v = iter_items v.
Proof. destruct v; reflexivity. Qed.

(* induction principles with the nested lists *)
Section ExprInd.
  Variable P : expr -> Prop.
  Hypothesis Hc : forall v, P (EConst v).
  Hypothesis Hv : forall n, P (EVar n).
  Hypothesis Hl : forall f, P (ELoop f).
  Hypothesis Ha : forall e a, P e -> P (EAttr e a).
  Hypothesis Hn : forall e, P e -> P (ENot e).
  Hypothesis Hand : forall a b, P a -> P b -> P (EAnd a b).
  Hypothesis Hor : forall a b, P a -> P b -> P (EOr a b).
  Hypothesis Heq : forall a b, P a -> P b -> P (EEq a b).
  Hypothesis Ht : forall e n, P e -> P (ETest e n).
  Hypothesis Hf : forall e n kw, P e -> Forall (fun ke => P (snd ke)) kw -> P (EFilter e n kw).
  Hypothesis Hbin : forall op a b, P a -> P b -> P (EBin op a b).
  Hypothesis Hneg : forall e, P e -> P (ENeg e).
  Hypothesis Htern : forall c a b, P c -> P a -> P b -> P (ETernary c a b).
  Hypothesis Hao : forall e a, P e -> P (EAttrOpt e a).
  Hypothesis Hsub : forall opt a b, P a -> P b -> P (ESub opt a b).
  Hypothesis Hsl : forall opt e sa sb sc, P e ->
    match sa with Some x => P x | None => True end ->
    match sb with Some x => P x | None => True end ->
    match sc with Some x => P x | None => True end -> P (ESlice opt e sa sb sc).
  Hypothesis Hcall : forall n kw, Forall (fun ke => P (snd ke)) kw -> P (ECall n kw).
  Hypothesis Harr : forall items, Forall (fun ie => P (snd ie)) items -> P (EArr items).
  Hypothesis Hmap : forall es, Forall (fun ke => P (snd ke)) es -> P (EMap es).
  Fixpoint expr_ind' (e : expr) : P e :=
    match e with
    | EConst v => Hc v
    | EVar n => Hv n
    | ELoop f => Hl f
    | EAttr e a => Ha e a (expr_ind' e)
    | ENot e => Hn e (expr_ind' e)
    | EAnd a b => Hand a b (expr_ind' a) (expr_ind' b)
    | EOr a b => Hor a b (expr_ind' a) (expr_ind' b)
    | EEq a b => Heq a b (expr_ind' a) (expr_ind' b)
    | ETest e n => Ht e n (expr_ind' e)
    | EFilter e n kw =>
        Hf e n kw (expr_ind' e)
           ((fix go (l : list (str * expr)) : Forall (fun ke => P (snd ke)) l :=
               match l with
               | [] => Forall_nil _
               | ke :: t => Forall_cons ke (expr_ind' (snd ke)) (go t)
               end) kw)
    | EBin op a b => Hbin op a b (expr_ind' a) (expr_ind' b)
    | ENeg e => Hneg e (expr_ind' e)
    | ETernary c a b => Htern c a b (expr_ind' c) (expr_ind' a) (expr_ind' b)
    | EAttrOpt e a => Hao e a (expr_ind' e)
    | ESub o a b => Hsub o a b (expr_ind' a) (expr_ind' b)
    | ESlice o e a b c =>
        Hsl o e a b c (expr_ind' e)
            (match a as q return (match q return Prop with Some x => P x | None => True end) with Some x => expr_ind' x | None => I end)
            (match b as q return (match q return Prop with Some x => P x | None => True end) with Some x => expr_ind' x | None => I end)
            (match c as q return (match q return Prop with Some x => P x | None => True end) with Some x => expr_ind' x | None => I end)
    | ECall n kw =>
        Hcall n kw
           ((fix go (l : list (str * expr)) : Forall (fun ke => P (snd ke)) l :=
               match l with
               | [] => Forall_nil _
               | ke :: t => Forall_cons ke (expr_ind' (snd ke)) (go t)
               end) kw)
    | EArr items =>
        Harr items
           ((fix go (l : list (bool * expr)) : Forall (fun ie => P (snd ie)) l :=
               match l with
               | [] => Forall_nil _
               | ie :: t => Forall_cons ie (expr_ind' (snd ie)) (go t)
               end) items)
    | EMap es =>
        Hmap es
           ((fix go (l : list (option value * expr)) : Forall (fun ke => P (snd ke)) l :=
               match l with
               | [] => Forall_nil _
               | ke :: t => Forall_cons ke (expr_ind' (snd ke)) (go t)
               end) es)
    end.
End ExprInd.

Section StmtInd.
  Variable P : stmt -> Prop.
  Hypothesis Htext : forall t, P (SText t).
  Hypothesis Hprint : forall e, P (SPrint e).
  Hypothesis Hif : forall c b e, Forall P b -> Forall P e -> P (SIf c b e).
  Hypothesis Hfor : forall k v t b e, Forall P b -> Forall P e -> P (SFor k v t b e).
  Hypothesis Hassign : forall g n e, P (SAssign g n e).
  Hypothesis Hsetb : forall g n b fs, Forall P b -> P (SSetBlock g n b fs).
  Hypothesis Hfilt : forall n kw b, Forall P b -> P (SFilter n kw b).
  Hypothesis Hinc : forall n, P (SInclude n).
  Hypothesis Hbrk : P SBreak.
  Hypothesis Hcont : P SContinue.
  Fixpoint stmt_ind' (s : stmt) : P s :=
    let go := fix go (l : list stmt) : Forall P l :=
                match l with
                | [] => Forall_nil _
                | x :: t => Forall_cons x (stmt_ind' x) (go t)
                end in
    match s with
    | SText t => Htext t
    | SPrint e => Hprint e
    | SIf c b e => Hif c b e (go b) (go e)
    | SFor k v t b e => Hfor k v t b e (go b) (go e)
    | SAssign g n e => Hassign g n e
    | SSetBlock g n b fs => Hsetb g n b fs (go b)
    | SFilter n kw b => Hfilt n kw b (go b)
    | SInclude n => Hinc n
    | SBreak => Hbrk
    | SContinue => Hcont
    end.
End StmtInd.

(* ---------- abstraction: what the reference interpreter sees of a VM state ---------- *)

Definition abs_frame (f : loop_frame) : loop_scope :=
  {| ls_key_name := lf_key_name f; ls_val_name := lf_value_name f; ls_item := lf_current f;
     ls_index0 := lf_index0 f; ls_length := lf_length f; ls_locals := lf_context f |}.

Fixpoint abs_scope (sc : scope) : env :=
  match sc with
  | Scope l sv p c g =>
      Env (map abs_frame l) sv
          (match p with Some p' => Some (abs_scope p') | None => None end)
          c (match g with Some g' => g' | None => [] end)
  end.

(* the derived fields of a frame agree with its counters; not a comprehension *)
Definition frame_ok (f : loop_frame) : Prop :=
  lf_first f = Nat.eqb (lf_index0 f) 0 /\ lf_last f = Nat.eqb (S (lf_index0 f)) (lf_length f)
  /\ lf_is_comp f = false.

Fixpoint scope_ok (sc : scope) : Prop :=
  match sc with
  | Scope l _ p _ _ => Forall frame_ok l /\ match p with Some p' => scope_ok p' | None => True end
  end.

Definition lf_set_ctx (f : loop_frame) (c : ctx) : loop_frame :=
  {| lf_rest := lf_rest f; lf_index0 := lf_index0 f; lf_first := lf_first f; lf_last := lf_last f;
     lf_length := lf_length f; lf_end_ip := lf_end_ip f; lf_context := c;
     lf_value_name := lf_value_name f; lf_key_name := lf_key_name f; lf_current := lf_current f;
     lf_iterated := lf_iterated f; lf_is_comp := lf_is_comp f |}.

(* same frames up to the per-iteration assignments *)
Definition frames_eq (l l' : list loop_frame) : Prop :=
  Forall2 (fun f f' => exists c, f' = lf_set_ctx f c) l l'.

Lemma frames_eq_refl l : frames_eq l l.
Proof.
  induction l as [|f t IH]; constructor; [|exact IH]. exists (lf_context f). destruct f; reflexivity.
Qed.

Lemma frames_eq_trans a b c : frames_eq a b -> frames_eq b c -> frames_eq a c.
Proof.
  intros H. revert c. induction H as [|f f' t t' [c1 ->] _ IH]; intros c Hc; inversion Hc; subst; constructor.
  - destruct H1 as [c2 ->]. exists c2. reflexivity.
  - apply IH. assumption.
Qed.

Lemma frames_eq_ok l l' : frames_eq l l' -> Forall frame_ok l -> Forall frame_ok l'.
Proof.
  induction 1 as [|f f' t t' [c ->] _ IH]; intros Hf; [constructor|]. inversion Hf; subst.
  constructor; [|apply IH; assumption]. exact H1.
Qed.

Lemma frames_eq_nonempty l l' : frames_eq l l' -> l <> [] -> l' <> [].
Proof. intros H Hn. destruct H; [congruence|discriminate]. Qed.

Lemma ordinary_name_spec n : ordinary_name n = true ->
  str_eqb n magical_dump_var = false /\ str_eqb n s_loop_index = false /\ str_eqb n s_loop_index0 = false
  /\ str_eqb n s_loop_first = false /\ str_eqb n s_loop_last = false /\ str_eqb n s_loop_length = false.
Proof.
  unfold ordinary_name. intros H.
  repeat (apply andb_prop in H; destruct H as [H ?]).
  repeat match goal with X : negb _ = true |- _ => apply negb_true_iff in X end. auto 10.
Qed.

Lemma loop_lookup_abs f n : ordinary_name n = true -> lf_is_comp f = false ->
  loop_lookup (abs_frame f) n = lf_get f n.
Proof.
  intros Ho Hc. destruct (ordinary_name_spec n Ho) as (_ & H1 & H2 & H3 & H4 & H5).
  unfold loop_lookup, lf_get, abs_frame. cbn [ls_locals ls_val_name ls_key_name ls_item].
  rewrite Hc, H1, H2, H3, H4, H5, lookup_ctx_get. reflexivity.
Qed.

Lemma loops_lookup_abs l n : ordinary_name n = true -> Forall frame_ok l ->
  loops_lookup (map abs_frame l) n = loops_get l n.
Proof.
  intros Ho Hf. induction Hf as [|f t (_ & _ & Hc) _ IH]; [reflexivity|]. cbn [map loops_lookup loops_get].
  rewrite loop_lookup_abs by assumption. destruct (lf_get f n); [reflexivity|exact IH].
Qed.

Lemma env_lookup_abs : forall sc n, ordinary_name n = true -> scope_ok sc ->
  env_lookup (abs_scope sc) n = scope_get sc n.
Proof.
  fix IH 1. intros [l sv p c g] n Ho [Hl Hp]. cbn [abs_scope env_lookup scope_get].
  rewrite loops_lookup_abs by assumption. destruct (loops_get l n); [reflexivity|].
  rewrite lookup_ctx_get. destruct (ctx_get sv n); [reflexivity|].
  assert (Hpar : match (match p with Some p' => Some (abs_scope p') | None => None end) with
                 | Some q => env_lookup q n | None => VUndef end
                 = match p with Some p' => scope_get p' n | None => VUndef end).
  { destruct p as [p'|]; [apply IH; assumption|reflexivity]. }
  rewrite Hpar. destruct (negb (is_undefined match p with Some p' => scope_get p' n | None => VUndef end)); [reflexivity|].
  rewrite lookup_ctx_get. destruct (ctx_get c n); [reflexivity|].
  destruct g as [g'|]; [rewrite lookup_ctx_get; reflexivity|reflexivity].
Qed.

(* ---------- facts about the reference interpreter itself ---------- *)
Section SpecFacts.
  Variables (B : builtins) (ae : bool) (inc : str -> env -> res str).

  Lemma exec_list_single s en : exec_list B ae inc [s] en = exec B ae inc s en.
  Proof.
    unfold exec_list.
    change (exec_seq (exec B ae inc) [s] en)
      with (match exec B ae inc s en with
            | ROk (en1, t1, SigNormal) =>
                match exec_seq (exec B ae inc) [] en1 with
                | ROk (en2, t2, sg) => ROk (en2, t1 ++ t2, sg)
                | RErr x => RErr x
                end
            | r => r
            end).
    destruct (exec B ae inc s en) as [[[en1 t1] sg]|x]; [|reflexivity].
    destruct sg; cbn; [rewrite app_nil_r|..]; reflexivity.
  Qed.

  (* the body selected by if / elif* / else: the first branch whose condition is truthy *)
  Fixpoint first_truthy (branches : list (expr * list stmt)) (els : list stmt) (en : env) : res (list stmt) :=
    match branches with
    | [] => ROk els
    | (c, body) :: rest =>
        match eval B c en with
        | ROk v => if is_truthy v then ROk body else first_truthy rest els en
        | RErr x => RErr x
        end
    end.

  Theorem if_first_truthy_branch : forall branches els en,
    exec_list B ae inc (if_chain branches els) en
    = match first_truthy branches els en with
      | ROk body => exec_list B ae inc body en
      | RErr x => RErr x
      end.
  Proof.
    induction branches as [|[c body] rest IH]; intros els en; cbn [if_chain first_truthy]; [reflexivity|].
    rewrite exec_list_single. cbn [exec]. destruct (eval B c en) as [v|x]; [|reflexivity].
    destruct (is_truthy v); [reflexivity|]. apply IH.
  Qed.
End SpecFacts.

(* ---------- the simulation ---------- *)

Section Sim.
  Variable W : Type.
  Variable wr : W -> str -> option W.
  Variable wapp : W -> str -> W.
  (* the top-level writer does not fail and appends (C18 treats failing writers) *)
  Hypothesis wr_ok : forall w t, wr w t = Some (wapp w t).
  Hypothesis wapp_app : forall w a b, wapp (wapp w a) b = wapp w (a ++ b).
  Hypothesis wapp_nil : forall w, wapp w [] = w.
  Variable wd : world.
  (* kwargs names are string keys; filters do not look at the VM state *)
  Hypothesis H_key : forall k, w_as_key wd (VStr k false) = Some (KStr k true).
  Hypothesis H_fscope : forall n v k sc sc', w_filter wd n v k sc = w_filter wd n v k sc'.
  Hypothesis H_fnscope : forall n k sc sc', w_function wd n k sc = w_function wd n k sc'.

  Let B := builtins_of_world wd.

  Definition sink_add (o : sink W) (t : str) : sink W :=
    match o with SinkTop w => SinkTop (wapp w t) | SinkBuf b => SinkBuf (b ++ t) end.

  Lemma sink_write_ok o t : sink_write W wr o t = Some (sink_add o t).
  Proof. destruct o; cbn; [rewrite wr_ok|]; reflexivity. Qed.
  Lemma sink_add_app o a b : sink_add (sink_add o a) b = sink_add o (a ++ b).
  Proof. destruct o; cbn; [rewrite wapp_app|rewrite <- app_assoc]; reflexivity. Qed.
  Lemma sink_add_nil o : sink_add o [] = o.
  Proof. destruct o; cbn; [rewrite wapp_nil|rewrite app_nil_r]; reflexivity. Qed.

  (* where `text` written by the program ends up: the innermost capture buffer, else the sink *)
  Definition out_caps (c : list str) (t : str) : list str :=
    match c with x :: r => (x ++ t) :: r | [] => [] end.
  Definition out_sink (c : list str) (o : sink W) (t : str) : sink W :=
    match c with _ :: _ => o | [] => sink_add o t end.

  Lemma out_caps_app c a b : out_caps (out_caps c a) b = out_caps c (a ++ b).
  Proof. destruct c; cbn; [|rewrite <- app_assoc]; reflexivity. Qed.
  Lemma out_sink_app c o a b : out_sink (out_caps c a) (out_sink c o a) b = out_sink c o (a ++ b).
  Proof. destruct c; cbn; [apply sink_add_app|reflexivity]. Qed.
  Lemma out_caps_nil c : out_caps c [] = c.
  Proof. destruct c; cbn; [|rewrite app_nil_r]; reflexivity. Qed.
  Lemma out_sink_nil c o : out_sink c o [] = o.
  Proof. destruct c; cbn; [apply sink_add_nil|reflexivity]. Qed.

  (* a VM state as a base (the fields a template body never changes) + the four that change *)
  Definition mk (b : state) (stk : list value) (l : list loop_frame) (sv : ctx) (c : list str) : state :=
    {| stack := stk; loops := l; setvars := sv; caps := c; blocks := blocks b; cur_block := cur_block b;
       parent := parent b; context := context b; global := global b;
       capture_block := capture_block b; block_buffer := block_buffer b |}.

  Lemma mk_id s : mk s (stack s) (loops s) (setvars s) (caps s) = s.
  Proof. destruct s; reflexivity. Qed.

  Definition absE (b : state) (l : list loop_frame) (sv : ctx) : env :=
    abs_scope (Scope l sv (parent b) (context b) (global b)).

  Definition parent_ok (b : state) : Prop :=
    match parent b with Some p => scope_ok p | None => True end.

  Lemma emit_mk b stk l sv c o t :
    emit W wr (mk b stk l sv c) o t = Some (mk b stk l sv (out_caps c t), out_sink c o t).
  Proof. unfold emit. destruct c as [|x r]; cbn; [rewrite sink_write_ok|]; reflexivity. Qed.

  (* the state an include starts from (interpreter.rs render_include) *)
  Definition inc_state (sc : scope) (cx : ctx) : state :=
    {| stack := []; loops := []; setvars := []; caps := []; blocks := []; cur_block := None;
       parent := Some sc; context := cx; global := None; capture_block := None; block_buffer := [] |}.

  Section Tpl.
    Variables (tpl : template) (ae : option bool) (depth : nat) (ch : list instr).
    Variable inc : str -> env -> res str.
    Variable okn : str -> bool.      (* the names an include may use (Compile.wf_stmt) *)

    Notation R := (fun f pc s o => run W wr wd f tpl ae depth ch pc s o).
    Definition aesc : bool := match ae with Some x => x | None => t_autoescape tpl end.

    Definition steps pc s o pc' s' o' : Prop :=
      exists n m, forall k, R (n + k) pc s o = R (m + k) pc' s' o'.
    Definition fails pc s o : Prop :=
      exists n e, forall k, R (n + k) pc s o = RFail e.

    Lemma steps_refl pc s o : steps pc s o pc s o.
    Proof. exists 0, 0. reflexivity. Qed.

    Lemma steps_trans pc s o pc1 s1 o1 pc2 s2 o2 :
      steps pc s o pc1 s1 o1 -> steps pc1 s1 o1 pc2 s2 o2 -> steps pc s o pc2 s2 o2.
    Proof.
      intros (n1 & m1 & H1) (n2 & m2 & H2). exists (n1 + n2), (m1 + m2). intros k.
      replace (n1 + n2 + k) with (n1 + (n2 + k)) by lia. rewrite H1.
      replace (m1 + (n2 + k)) with (n2 + (m1 + k)) by lia. rewrite H2.
      replace (m2 + (m1 + k)) with (m1 + m2 + k) by lia. reflexivity.
    Qed.

    Lemma steps_fails pc s o pc1 s1 o1 : steps pc s o pc1 s1 o1 -> fails pc1 s1 o1 -> fails pc s o.
    Proof.
      intros (n1 & m1 & H1) (n2 & e & H2). exists (n1 + n2), e. intros k.
      replace (n1 + n2 + k) with (n1 + (n2 + k)) by lia. rewrite H1.
      replace (m1 + (n2 + k)) with (n2 + (m1 + k)) by lia. apply H2.
    Qed.

    Lemma step1 pc s o pc' s' o' : (forall f, R (S f) pc s o = R f pc' s' o') -> steps pc s o pc' s' o'.
    Proof. intros H. exists 1, 0. intros k. apply H. Qed.
    Lemma fail1 pc s o e : (forall f, R (S f) pc s o = RFail e) -> fails pc s o.
    Proof. intros H. exists 1, e. intros k. apply H. Qed.

    (* ----- code placement ----- *)
    Definition code_at (pc : nat) (code : list instr) : Prop :=
      forall i x, nth_error code i = Some x -> nth_error ch (pc + i) = Some x.

    Lemma code_at_app pc a b : code_at pc (a ++ b) -> code_at pc a /\ code_at (pc + length a) b.
    Proof.
      intros H. split; intros i x Hi.
      - apply H. rewrite nth_error_app1; [exact Hi|]. apply nth_error_Some. congruence.
      - replace (pc + length a + i) with (pc + (length a + i)) by lia. apply H.
        rewrite nth_error_app2 by lia. replace (length a + i - length a) with i by lia. exact Hi.
    Qed.

    Lemma code_at_cons pc x r : code_at pc (x :: r) -> nth_error ch pc = Some x /\ code_at (S pc) r.
    Proof.
      intros H. split.
      - replace pc with (pc + 0) by lia. apply H. reflexivity.
      - intros i y Hi. replace (S pc + i) with (pc + S i) by lia. apply H. exact Hi.
    Qed.

    (* ----- one-instruction lemmas (run unfolded once on a known instruction) ----- *)
    Ltac run1 H := intros; cbn [run]; rewrite H; reflexivity.
    (* close `run .. p s o = run .. q s o` / `steps .. p ..` goals whose positions are equal by arithmetic *)
    Ltac stepspos H :=
      match goal with
      | |- steps _ _ _ ?p _ _ =>
          match type of H with steps _ _ _ ?q _ _ => replace p with q by lia; exact H end
      end.
    Ltac runpos :=
      match goal with
      | |- run _ _ _ _ _ _ _ _ ?p _ _ = run _ _ _ _ _ _ _ _ ?q _ _ => replace p with q by lia; reflexivity
      end.

    Lemma run_LoadConst f pc b stk l sv c o v : nth_error ch pc = Some (LoadConst v) ->
      R (S f) pc (mk b stk l sv c) o = R f (S pc) (mk b (v :: stk) l sv c) o.
    Proof. intros H. run1 H. Qed.

    Lemma run_LoadName f pc b stk l sv c o n : nth_error ch pc = Some (LoadName n) ->
      R (S f) pc (mk b stk l sv c) o
      = R f (S pc) (mk b (load_name_v (mk b stk l sv c) n :: stk) l sv c) o.
    Proof. intros H. run1 H. Qed.

    Lemma run_LoadAttr f pc b stk l sv c o v a : nth_error ch pc = Some (LoadAttr a) ->
      R (S f) pc (mk b (v :: stk) l sv c) o
      = if is_undefined v then RFail ErrRender
        else R f (S pc) (mk b ((match w_get_attr wd v a with Some x => x | None => VUndef end) :: stk) l sv c) o.
    Proof. intros H. cbn [run]. rewrite H. cbn [pop1 stack mk andb]. destruct (is_undefined v); reflexivity. Qed.

    Lemma run_Not f pc b stk l sv c o v : nth_error ch pc = Some Not ->
      R (S f) pc (mk b (v :: stk) l sv c) o = R f (S pc) (mk b (VBool (negb (is_truthy v)) :: stk) l sv c) o.
    Proof. intros H. run1 H. Qed.

    Lemma run_Equal f pc b stk l sv c o x y : nth_error ch pc = Some Equal ->
      R (S f) pc (mk b (y :: x :: stk) l sv c) o = R f (S pc) (mk b (VBool (w_eq wd x y) :: stk) l sv c) o.
    Proof. intros H. run1 H. Qed.

    Lemma run_binop f pc b stk l sv c o x y op : nth_error ch pc = Some (binop_instr op) ->
      R (S f) pc (mk b (y :: x :: stk) l sv c) o
      = match binop_result wd op x y with
        | ROk r => R f (S pc) (mk b (r :: stk) l sv c) o
        | RErr _ => RFail ErrRender
        end.
    Proof.
      intros H. cbn [run]. rewrite H. destruct op; cbn [binop_instr binop_result pop2 stack mk].
      1-4,6-7: (destruct (negb (is_number x)); [reflexivity|]; destruct (negb (is_number y)); [reflexivity|];
                match goal with |- context [w_math wd ?i ?u ?v] => destruct (w_math wd i u v) end; reflexivity).
      - destruct (is_number x && is_number y); [|reflexivity]. destruct (w_math wd Plus x y); reflexivity.
      - destruct (w_cmp wd x y); reflexivity.
      - destruct (w_cmp wd x y); reflexivity.
      - destruct (w_cmp wd x y); reflexivity.
      - destruct (w_cmp wd x y); reflexivity.
      - reflexivity.
      - reflexivity.
      - destruct (w_contains wd y x); reflexivity.
    Qed.

    Lemma run_Negative f pc b stk l sv c o v : nth_error ch pc = Some Negative ->
      R (S f) pc (mk b (v :: stk) l sv c) o
      = match neg_result wd v with
        | ROk r => R f (S pc) (mk b (r :: stk) l sv c) o
        | RErr _ => RFail ErrRender
        end.
    Proof.
      intros H. cbn [run]. rewrite H. cbn [pop1 stack mk]. unfold neg_result.
      destruct (w_negate wd v); reflexivity.
    Qed.

    Lemma run_LoadAttrOpt f pc b stk l sv c o v a : nth_error ch pc = Some (LoadAttrOpt a) ->
      R (S f) pc (mk b (v :: stk) l sv c) o
      = if is_undefined v || is_none v then R f (S pc) (mk b (VUndef :: stk) l sv c) o
        else R f (S pc) (mk b ((match w_get_attr wd v a with Some x => x | None => VUndef end) :: stk) l sv c) o.
    Proof.
      intros H. cbn [run]. rewrite H. cbn [pop1 stack mk andb].
      destruct (is_undefined v); cbn [orb]; [reflexivity|]. destruct (is_none v); reflexivity.
    Qed.

    Lemma run_Subscript f pc b stk l sv c o v i opt :
      nth_error ch pc = Some (if opt : bool then BinarySubscriptOpt else BinarySubscript) ->
      R (S f) pc (mk b (i :: v :: stk) l sv c) o
      = match subscript wd opt v i with
        | ROk r => R f (S pc) (mk b (r :: stk) l sv c) o
        | RErr e => RFail e
        end.
    Proof.
      intros H. cbn [run]. rewrite H. destruct opt; cbn [pop2 stack mk];
        match goal with |- context [subscript wd ?q v i] => destruct (subscript wd q v i) end; reflexivity.
    Qed.

    Lemma run_Slice f pc b stk l sv c o v x y z opt :
      nth_error ch pc = Some (if opt : bool then SliceOpt else Slice) ->
      R (S f) pc (mk b (z :: y :: x :: v :: stk) l sv c) o
      = match vm_slice opt v x y z with
        | ROk r => R f (S pc) (mk b (r :: stk) l sv c) o
        | RErr e => RFail e
        end.
    Proof.
      intros H. cbn [run]. rewrite H. destruct opt; cbn [stack mk];
        match goal with |- context [vm_slice ?q v x y z] => destruct (vm_slice q v x y z) end; reflexivity.
    Qed.

    Lemma run_JumpIfFalseOrPop f pc b stk l sv c o v t : nth_error ch pc = Some (JumpIfFalseOrPop t) ->
      R (S f) pc (mk b (v :: stk) l sv c) o
      = if is_truthy v then R f (S pc) (mk b stk l sv c) o else R f t (mk b (v :: stk) l sv c) o.
    Proof. intros H. cbn [run]. rewrite H. cbn [pop1 stack mk]. destruct (is_truthy v); reflexivity. Qed.

    Lemma run_JumpIfTrueOrPop f pc b stk l sv c o v t : nth_error ch pc = Some (JumpIfTrueOrPop t) ->
      R (S f) pc (mk b (v :: stk) l sv c) o
      = if is_truthy v then R f t (mk b (v :: stk) l sv c) o else R f (S pc) (mk b stk l sv c) o.
    Proof. intros H. cbn [run]. rewrite H. cbn [pop1 stack mk]. destruct (is_truthy v); reflexivity. Qed.

    Lemma run_PopJumpIfFalse f pc b stk l sv c o v t : nth_error ch pc = Some (PopJumpIfFalse t) ->
      R (S f) pc (mk b (v :: stk) l sv c) o
      = if is_truthy v then R f (S pc) (mk b stk l sv c) o else R f t (mk b stk l sv c) o.
    Proof. intros H. cbn [run]. rewrite H. cbn [pop1 stack mk]. destruct (is_truthy v); reflexivity. Qed.

    Lemma run_Jump f pc s o t : nth_error ch pc = Some (Jump t) -> R (S f) pc s o = R f t s o.
    Proof. intros H. run1 H. Qed.

    Lemma run_WriteText f pc b stk l sv c o t : nth_error ch pc = Some (WriteText t) ->
      R (S f) pc (mk b stk l sv c) o = R f (S pc) (mk b stk l sv (out_caps c t)) (out_sink c o t).
    Proof. intros H. cbn [run]. rewrite H, emit_mk. reflexivity. Qed.

    Lemma run_WriteTop f pc b stk l sv c o v : nth_error ch pc = Some WriteTop ->
      R (S f) pc (mk b (v :: stk) l sv c) o
      = if is_undefined v then RFail ErrRender
        else let t := if negb aesc || value_is_safe v then w_format wd v else w_escape wd (w_format wd v) in
             R f (S pc) (mk b stk l sv (out_caps c t)) (out_sink c o t).
    Proof.
      intros H. cbn [run]. rewrite H. cbn [pop1 stack mk]. destruct (is_undefined v); [reflexivity|].
      unfold write_value. fold aesc.
      change (upd_stack (mk b (v :: stk) l sv c) stk) with (mk b stk l sv c).
      destruct (negb aesc || value_is_safe v); rewrite emit_mk; reflexivity.
    Qed.

    Lemma run_SetI f pc b stk l sv c o v n : nth_error ch pc = Some (SetI n) ->
      R (S f) pc (mk b (v :: stk) l sv c) o
      = match l with
        | fr :: t => R f (S pc) (mk b stk (lf_store fr n v :: t) sv c) o
        | [] => R f (S pc) (mk b stk [] (ctx_set sv n v) c) o
        end.
    Proof. intros H. cbn [run]. rewrite H. destruct l; reflexivity. Qed.

    Lemma run_SetGlobal f pc b stk l sv c o v n : nth_error ch pc = Some (SetGlobal n) ->
      R (S f) pc (mk b (v :: stk) l sv c) o = R f (S pc) (mk b stk l (ctx_set sv n v) c) o.
    Proof. intros H. run1 H. Qed.

    Lemma run_Capture f pc b stk l sv c o : nth_error ch pc = Some Capture ->
      R (S f) pc (mk b stk l sv c) o = R f (S pc) (mk b stk l sv ([] :: c)) o.
    Proof. intros H. run1 H. Qed.

    Lemma run_EndCapture f pc b stk l sv c o x : nth_error ch pc = Some EndCapture ->
      R (S f) pc (mk b stk l sv (x :: c)) o = R f (S pc) (mk b (VStr x true :: stk) l sv c) o.
    Proof. intros H. run1 H. Qed.

    Lemma run_StartIterate f pc b stk l sv c o v kv : nth_error ch pc = Some (StartIterate kv) ->
      R (S f) pc (mk b (v :: stk) l sv c) o
      = match iter_items v with
        | None => RFail ErrRender
        | Some items => if kv && negb (is_map v) then RFail ErrRender
                        else R f (S pc) (mk b stk (new_loop items false :: l) sv c) o
        end.
    Proof.
      intros H. cbn [run]. rewrite H. cbn [pop1 stack mk]. destruct (iter_items v); [|reflexivity].
      destruct (kv && negb (is_map v)); reflexivity.
    Qed.

    Lemma run_StoreLocal f pc b stk l sv c o fr n : nth_error ch pc = Some (StoreLocal n) ->
      R (S f) pc (mk b stk (fr :: l) sv c) o = R f (S pc) (mk b stk (lf_store_local fr n :: l) sv c) o.
    Proof. intros H. run1 H. Qed.

    Lemma run_Iterate f pc b stk l sv c o fr e : nth_error ch pc = Some (Iterate e) ->
      R (S f) pc (mk b stk (fr :: l) sv c) o
      = match lf_rest fr with
        | [] => R f e (mk b stk (fr :: l) sv c) o
        | _ => R f (S pc) (mk b stk (lf_advance fr e :: l) sv c) o
        end.
    Proof. intros H. cbn [run]. rewrite H. cbn [loops mk]. destruct (lf_rest fr); reflexivity. Qed.

    Lemma run_StoreDidNotIterate f pc b stk l sv c o fr : nth_error ch pc = Some StoreDidNotIterate ->
      R (S f) pc (mk b stk (fr :: l) sv c) o
      = R f (S pc) (mk b (VBool (negb (lf_iterated fr)) :: stk) (fr :: l) sv c) o.
    Proof. intros H. run1 H. Qed.

    Lemma run_PopLoop f pc b stk l sv c o fr : nth_error ch pc = Some PopLoop ->
      R (S f) pc (mk b stk (fr :: l) sv c) o = R f (S pc) (mk b stk l sv c) o.
    Proof. intros H. run1 H. Qed.

    Lemma run_Break f pc b stk l sv c o fr : nth_error ch pc = Some Break ->
      R (S f) pc (mk b stk (fr :: l) sv c) o = R f (lf_end_ip fr) (mk b stk (fr :: l) sv c) o.
    Proof. intros H. run1 H. Qed.

    Lemma run_RunTest f pc b stk l sv c o v n : nth_error ch pc = Some (RunTest n) ->
      R (S f) pc (mk b (VMap [] :: v :: stk) l sv c) o
      = match w_test wd n v [] with
        | None => RFail ErrPanic
        | Some (ROk r) => R f (S pc) (mk b (VBool r :: stk) l sv c) o
        | Some (RErr _) => RFail ErrRender
        end.
    Proof.
      intros H. cbn [run]. rewrite H. cbn [pop2 stack mk kwargs_of].
      destruct (w_test wd n v []) as [[r|e]|]; reflexivity.
    Qed.

    Lemma run_ApplyFilter f pc b stk l sv c o v m n : nth_error ch pc = Some (ApplyFilter n) ->
      R (S f) pc (mk b (VMap m :: v :: stk) l sv c) o
      = match w_filter wd n v m no_scope with
        | None => RFail ErrPanic
        | Some (ROk r, safe) => R f (S pc) (mk b ((if safe then mark_safe r else r) :: stk) l sv c) o
        | Some (RErr _, _) => RFail ErrRender
        end.
    Proof.
      intros H. cbn [run]. rewrite H. cbn [pop2 stack mk kwargs_of].
      rewrite (H_fscope n v m _ no_scope).
      destruct (w_filter wd n v m no_scope) as [[[r|e] safe]|]; reflexivity.
    Qed.

    Lemma run_CallFunction f pc b stk l sv c o m n : nth_error ch pc = Some (CallFunction n) ->
      str_eqb n s_super = false ->
      R (S f) pc (mk b (VMap m :: stk) l sv c) o
      = match w_function wd n m no_scope with
        | None => RFail ErrPanic
        | Some (ROk r, safe) => R f (S pc) (mk b ((if safe then mark_safe r else r) :: stk) l sv c) o
        | Some (RErr _, _) => RFail ErrRender
        end.
    Proof.
      intros H Hs. unfold s_super in Hs. cbn [run]. rewrite H. cbn [pop1 stack mk]. rewrite Hs. cbn [kwargs_of].
      rewrite (H_fnscope n m _ no_scope).
      destruct (w_function wd n m no_scope) as [[[r|e] safe]|]; reflexivity.
    Qed.

    Lemma run_BuildMap f pc b stk l sv c o n items rest pairs : nth_error ch pc = Some (BuildMap n) ->
      pop_n (2 * n) stk [] = Some (items, rest) -> build_map_pairs wd items = ROk pairs ->
      R (S f) pc (mk b stk l sv c) o = R f (S pc) (mk b (VMap (map_of_pairs wd pairs) :: rest) l sv c) o.
    Proof. intros H Hp Hb. cbn [run]. rewrite H. cbn [stack mk]. rewrite Hp, Hb. reflexivity. Qed.

    Lemma steps_step pc s o pc1 s1 o1 pc2 s2 o2 :
      steps pc s o pc1 s1 o1 -> (forall f, R (S f) pc1 s1 o1 = R f pc2 s2 o2) -> steps pc s o pc2 s2 o2.
    Proof. intros H1 H2. eapply steps_trans; [exact H1|apply step1; exact H2]. Qed.
    Lemma steps_fail1 pc s o pc1 s1 o1 e :
      steps pc s o pc1 s1 o1 -> (forall f, R (S f) pc1 s1 o1 = RFail e) -> fails pc s o.
    Proof. intros H1 H2. eapply steps_fails; [exact H1|apply (fail1 _ _ _ e); exact H2]. Qed.

    (* ----- unfolding equations for the list recursions ----- *)
    Lemma compile_kws_cons ce pc k e t :
      compile_kws ce pc ((k, e) :: t)
      = (LoadConst (VStr k false) :: ce (S pc) e) ++ compile_kws ce (pc + S (length (ce (S pc) e))) t.
    Proof. reflexivity. Qed.
    Lemma eval_kws_cons ev k e t :
      eval_kws ev ((k, e) :: t)
      = match ev e with
        | ROk v => match eval_kws ev t with ROk r => ROk ((k, v) :: r) | RErr x => RErr x end
        | RErr x => RErr x
        end.
    Proof. reflexivity. Qed.
    Lemma compile_seq_cons cn pc lp s t :
      compile_seq cn pc lp (s :: t) = cn pc lp s ++ compile_seq cn (pc + length (cn pc lp s)) lp t.
    Proof. reflexivity. Qed.

    (* ----- names ----- *)
    Lemma load_name_abs b stk l sv c n : ordinary_name n = true -> Forall frame_ok l -> parent_ok b ->
      load_name_v (mk b stk l sv c) n = env_lookup (absE b l sv) n.
    Proof.
      intros Ho Hl Hp. destruct (ordinary_name_spec n Ho) as (Hm & _).
      unfold load_name_v. rewrite Hm. unfold get_value, absE. symmetry. apply env_lookup_abs; [exact Ho|].
      split; assumption.
    Qed.

    Lemma load_loop_field b stk fr t sv c fld : frame_ok fr ->
      load_name_v (mk b stk (fr :: t) sv c) (loop_field_name fld) = loop_field_value (abs_frame fr) fld.
    Proof.
      intros (H1 & H2 & H3).
      destruct fld; unfold load_name_v, get_value, scope_of, scope_get, loops_get, lf_get; cbn [mk loops];
        rewrite H3; cbn -[Z.of_nat Nat.eqb]; rewrite ?H1, ?H2; reflexivity.
    Qed.

    (* ----- kwargs ----- *)
    Definition flat_kws (kws : list (str * value)) : list value :=
      flat_map (fun kv => [VStr (fst kv) false; snd kv]) kws.

    Lemma pop_n_app : forall ys stk acc, pop_n (length ys) (ys ++ stk) acc = Some (rev ys ++ acc, stk).
    Proof.
      induction ys as [|y ys IH]; intros stk acc; [reflexivity|]. cbn [length app pop_n rev].
      rewrite IH, <- app_assoc. reflexivity.
    Qed.

    Lemma flat_kws_length kws : length (flat_kws kws) = 2 * length kws.
    Proof. induction kws as [|kv t IH]; [reflexivity|]. unfold flat_kws in *. cbn [flat_map app length]. rewrite IH. lia. Qed.

    Lemma pop_n_kws kws stk :
      pop_n (2 * length kws) (rev (flat_kws kws) ++ stk) [] = Some (flat_kws kws, stk).
    Proof.
      rewrite <- flat_kws_length, <- (rev_length (flat_kws kws)), pop_n_app, rev_involutive, app_nil_r.
      reflexivity.
    Qed.

    Lemma build_map_pairs_kws kws :
      build_map_pairs wd (flat_kws kws) = ROk (map (fun kv => (KStr (fst kv) true, snd kv)) kws).
    Proof.
      induction kws as [|[k v] t IH]; [reflexivity|]. cbn [flat_kws flat_map app build_map_pairs fst snd map].
      rewrite H_key. fold (flat_kws t). rewrite IH. reflexivity.
    Qed.

    Definition expr_ok (e : expr) : Prop :=
      forall lex pc b stk l sv c o,
        wf_expr lex e = true -> (lex = true -> l <> []) -> Forall frame_ok l -> parent_ok b ->
        code_at pc (compile_expr pc e) ->
        match eval B e (absE b l sv) with
        | ROk v => steps pc (mk b stk l sv c) o (pc + length (compile_expr pc e)) (mk b (v :: stk) l sv c) o
        | RErr _ => fails pc (mk b stk l sv c) o
        end.

    Lemma kws_ok : forall kw, Forall (fun ke => expr_ok (snd ke)) kw ->
      forall lex pc b stk l sv c o,
        wf_kws lex kw = true -> (lex = true -> l <> []) -> Forall frame_ok l -> parent_ok b ->
        code_at pc (compile_kws compile_expr pc kw) ->
        match eval_kws (fun x => eval B x (absE b l sv)) kw with
        | ROk kws => length kws = length kw /\
            steps pc (mk b stk l sv c) o (pc + length (compile_kws compile_expr pc kw))
                  (mk b (rev (flat_kws kws) ++ stk) l sv c) o
        | RErr _ => fails pc (mk b stk l sv c) o
        end.
    Proof.
      induction 1 as [|[k e] t He _ IH]; intros lex pc b stk l sv c o Hwf Hlex Hfr Hpar Hc.
      - cbn. split; [reflexivity|]. replace (pc + 0) with pc by lia. apply steps_refl.
      - cbn [snd] in He. unfold wf_kws in Hwf. cbn [forallb snd] in Hwf. apply andb_prop in Hwf as [Hw1 Hw2].
        rewrite compile_kws_cons in *. rewrite eval_kws_cons.
        apply code_at_app in Hc as [Hc1 Hc2]. apply code_at_cons in Hc1 as [Hi Hce].
        pose proof (He lex (S pc) b (VStr k false :: stk) l sv c o Hw1 Hlex Hfr Hpar Hce) as He'.
        assert (S0 : steps pc (mk b stk l sv c) o (S pc) (mk b (VStr k false :: stk) l sv c) o).
        { apply step1. intros fu. eapply run_LoadConst. exact Hi. }
        destruct (eval B e (absE b l sv)) as [v|x].
        2:{ eapply steps_fails; [exact S0|exact He']. }
        cbn [length] in Hc2.
        pose proof (IH lex (pc + S (length (compile_expr (S pc) e))) b (v :: VStr k false :: stk) l sv c o
                       Hw2 Hlex Hfr Hpar Hc2) as IH'.
        destruct (eval_kws (fun x => eval B x (absE b l sv)) t) as [r|x].
        2:{ eapply steps_fails; [eapply steps_trans; [exact S0|]|exact IH'].
            replace (pc + S (length (compile_expr (S pc) e))) with (S pc + length (compile_expr (S pc) e)) by lia.
            exact He'. }
        destruct IH' as [Hlen IH']. split; [cbn [length]; rewrite Hlen; reflexivity|].
        eapply steps_trans; [exact S0|]. eapply steps_trans.
        { replace (S pc + length (compile_expr (S pc) e)) with (pc + S (length (compile_expr (S pc) e))) in He' by lia.
          exact He'. }
        rewrite app_length. cbn [length].
        replace (pc + (S (length (compile_expr (S pc) e)) + length (compile_kws compile_expr (pc + S (length (compile_expr (S pc) e))) t)))
          with (pc + S (length (compile_expr (S pc) e)) + length (compile_kws compile_expr (pc + S (length (compile_expr (S pc) e))) t)) by lia.
        replace (rev (flat_kws ((k, v) :: r)) ++ stk) with (rev (flat_kws r) ++ v :: VStr k false :: stk).
        { exact IH'. }
        cbn [flat_kws flat_map fst snd app]. fold (flat_kws r).
        change (VStr k false :: v :: flat_kws r) with ([VStr k false; v] ++ flat_kws r).
        rewrite rev_app_distr, <- app_assoc. reflexivity.
    Qed.

    (* kwargs; BuildMap; ApplyFilter on a receiver that is on the stack *)
    Lemma filter_ok : forall kw name, Forall (fun ke => expr_ok (snd ke)) kw ->
      forall lex pc b stk l sv c o v,
        wf_kws lex kw = true -> (lex = true -> l <> []) -> Forall frame_ok l -> parent_ok b ->
        code_at pc (compile_kws compile_expr pc kw ++ [BuildMap (length kw); ApplyFilter name]) ->
        match eval_kws (fun x => eval B x (absE b l sv)) kw with
        | ROk kws =>
            match apply_filter B name v kws with
            | ROk r => steps pc (mk b (v :: stk) l sv c) o
                             (pc + length (compile_kws compile_expr pc kw) + 2) (mk b (r :: stk) l sv c) o
            | RErr _ => fails pc (mk b (v :: stk) l sv c) o
            end
        | RErr _ => fails pc (mk b (v :: stk) l sv c) o
        end.
    Proof.
      intros kw name Hkw lex pc b stk l sv c o v Hwf Hlex Hfr Hpar Hc.
      apply code_at_app in Hc as [Hc1 Hc2]. apply code_at_cons in Hc2 as [Hi1 Hc2].
      apply code_at_cons in Hc2 as [Hi2 _].
      pose proof (kws_ok kw Hkw lex pc b (v :: stk) l sv c o Hwf Hlex Hfr Hpar Hc1) as K.
      destruct (eval_kws (fun x => eval B x (absE b l sv)) kw) as [kws|x]; [|exact K].
      destruct K as [Hlen K].
      assert (S1 : steps pc (mk b (v :: stk) l sv c) o (S (pc + length (compile_kws compile_expr pc kw)))
                         (mk b (VMap (kw_map wd kws) :: v :: stk) l sv c) o).
      { eapply steps_step; [exact K|]. intros fu.
        apply run_BuildMap with (n := length kw) (items := flat_kws kws) (rest := v :: stk)
                                (pairs := map (fun kv => (KStr (fst kv) true, snd kv)) kws);
          [exact Hi1| |apply build_map_pairs_kws].
        cbn [mk stack]. rewrite <- Hlen. apply pop_n_kws. }
      unfold apply_filter. change (b_filter B name v kws) with (w_filter wd name v (kw_map wd kws) no_scope).
      destruct (w_filter wd name v (kw_map wd kws) no_scope) as [[[r|x] safe]|] eqn:Ef.
      - eapply steps_step; [exact S1|]. intros fu. erewrite run_ApplyFilter by exact Hi2. rewrite Ef.
        replace (pc + length (compile_kws compile_expr pc kw) + 2)
          with (S (S (pc + length (compile_kws compile_expr pc kw)))) by lia. reflexivity.
      - eapply steps_fail1; [exact S1|]. intros fu. erewrite run_ApplyFilter by exact Hi2. rewrite Ef. reflexivity.
      - eapply steps_fail1; [exact S1|]. intros fu. erewrite run_ApplyFilter by exact Hi2. rewrite Ef. reflexivity.
    Qed.

    (* an optional operand of a slice: the expression, or the constant the compiler loads *)
    Definition opt_code (pc : nat) (o : option expr) (d : value) : list instr :=
      match o with Some x => compile_expr pc x | None => [LoadConst d] end.
    Definition opt_ok (o : option expr) (d : value) : Prop :=
      forall lex pc b stk l sv c o',
        match o with Some x => wf_expr lex x | None => true end = true ->
        (lex = true -> l <> []) -> Forall frame_ok l -> parent_ok b ->
        code_at pc (opt_code pc o d) ->
        match (match o with Some x => eval B x (absE b l sv) | None => ROk d end) with
        | ROk v => steps pc (mk b stk l sv c) o' (pc + length (opt_code pc o d)) (mk b (v :: stk) l sv c) o'
        | RErr _ => fails pc (mk b stk l sv c) o'
        end.

    Lemma opt_correct o d : match o with Some x => expr_ok x | None => True end -> opt_ok o d.
    Proof.
      intros H. destruct o as [x|]; [exact H|]. intros lex pc b stk l sv c o' _ _ _ _ Hc.
      unfold opt_code in *. cbn [length]. apply code_at_cons in Hc as [Hi _].
      replace (pc + 1) with (S pc) by lia. apply step1. intros fu. eapply run_LoadConst. exact Hi.
    Qed.

    Lemma expr_correct : forall e, expr_ok e.
    Proof.
      induction e using expr_ind'; unfold expr_ok; intros lex pc b stk l sv c o Hwf Hlex Hfr Hpar Hc.
      - (* EConst *)
        cbn [eval compile_expr length] in *. apply code_at_cons in Hc as [Hi _].
        replace (pc + 1) with (S pc) by lia. apply step1. intros fu. eapply run_LoadConst. exact Hi.
      - (* EVar *)
        cbn [eval compile_expr length wf_expr] in *. apply code_at_cons in Hc as [Hi _].
        replace (pc + 1) with (S pc) by lia. apply step1. intros fu. erewrite run_LoadName by exact Hi.
        rewrite load_name_abs by assumption. reflexivity.
      - (* ELoop *)
        cbn [eval compile_expr length wf_expr] in *. apply code_at_cons in Hc as [Hi _].
        destruct l as [|fr t]; [exfalso; apply (Hlex Hwf); reflexivity|].
        inversion Hfr; subst. unfold absE. cbn [abs_scope map e_loops].
        replace (pc + 1) with (S pc) by lia. apply step1. intros fu. erewrite run_LoadName by exact Hi.
        rewrite load_loop_field by assumption. reflexivity.
      - (* EAttr *)
        cbn [wf_expr compile_expr] in *. apply code_at_app in Hc as [Hc1 Hc2]. apply code_at_cons in Hc2 as [Hi _].
        specialize (IHe lex pc b stk l sv c o Hwf Hlex Hfr Hpar Hc1). cbn [eval].
        destruct (eval B e (absE b l sv)) as [v|x]; [|exact IHe].
        rewrite app_length. cbn [length].
        replace (pc + (length (compile_expr pc e) + 1)) with (S (pc + length (compile_expr pc e))) by lia.
        destruct (is_undefined v) eqn:Eu.
        + eapply steps_fail1; [exact IHe|]. intros fu. erewrite run_LoadAttr by exact Hi. rewrite Eu. reflexivity.
        + eapply steps_step; [exact IHe|]. intros fu. erewrite run_LoadAttr by exact Hi. rewrite Eu. reflexivity.
      - (* ENot *)
        cbn [wf_expr compile_expr] in *. apply code_at_app in Hc as [Hc1 Hc2]. apply code_at_cons in Hc2 as [Hi _].
        specialize (IHe lex pc b stk l sv c o Hwf Hlex Hfr Hpar Hc1). cbn [eval].
        destruct (eval B e (absE b l sv)) as [v|x]; [|exact IHe].
        rewrite app_length. cbn [length].
        replace (pc + (length (compile_expr pc e) + 1)) with (S (pc + length (compile_expr pc e))) by lia.
        eapply steps_step; [exact IHe|]. intros fu. eapply run_Not. exact Hi.
      - (* EAnd *)
        cbn [wf_expr compile_expr app] in *. apply andb_prop in Hwf as [Hw1 Hw2].
        apply code_at_app in Hc as [Hc1 Hc2]. apply code_at_cons in Hc2 as [Hi Hc2].
        specialize (IHe1 lex pc b stk l sv c o Hw1 Hlex Hfr Hpar Hc1). cbn [eval].
        destruct (eval B e1 (absE b l sv)) as [v|x]; [|exact IHe1].
        rewrite app_length. cbn [length].
        replace (S (pc + length (compile_expr pc e1))) with (pc + length (compile_expr pc e1) + 1) in Hc2 by lia.
        destruct (is_truthy v) eqn:Et.
        + specialize (IHe2 lex _ b stk l sv c o Hw2 Hlex Hfr Hpar Hc2).
          assert (S1 : steps pc (mk b stk l sv c) o (pc + length (compile_expr pc e1) + 1) (mk b stk l sv c) o).
          { eapply steps_step; [exact IHe1|]. intros fu. erewrite run_JumpIfFalseOrPop by exact Hi. rewrite Et.
            replace (pc + length (compile_expr pc e1) + 1) with (S (pc + length (compile_expr pc e1))) by lia.
            reflexivity. }
          destruct (eval B e2 (absE b l sv)) as [v2|x]; [|eapply steps_fails; [exact S1|exact IHe2]].
          eapply steps_trans; [exact S1|].
          stepspos IHe2.
        + eapply steps_step; [exact IHe1|]. intros fu. erewrite run_JumpIfFalseOrPop by exact Hi. rewrite Et.
          runpos.
      - (* EOr *)
        cbn [wf_expr compile_expr app] in *. apply andb_prop in Hwf as [Hw1 Hw2].
        apply code_at_app in Hc as [Hc1 Hc2]. apply code_at_cons in Hc2 as [Hi Hc2].
        specialize (IHe1 lex pc b stk l sv c o Hw1 Hlex Hfr Hpar Hc1). cbn [eval].
        destruct (eval B e1 (absE b l sv)) as [v|x]; [|exact IHe1].
        rewrite app_length. cbn [length].
        replace (S (pc + length (compile_expr pc e1))) with (pc + length (compile_expr pc e1) + 1) in Hc2 by lia.
        destruct (is_truthy v) eqn:Et.
        + eapply steps_step; [exact IHe1|]. intros fu. erewrite run_JumpIfTrueOrPop by exact Hi. rewrite Et.
          runpos.
        + specialize (IHe2 lex _ b stk l sv c o Hw2 Hlex Hfr Hpar Hc2).
          assert (S1 : steps pc (mk b stk l sv c) o (pc + length (compile_expr pc e1) + 1) (mk b stk l sv c) o).
          { eapply steps_step; [exact IHe1|]. intros fu. erewrite run_JumpIfTrueOrPop by exact Hi. rewrite Et.
            replace (pc + length (compile_expr pc e1) + 1) with (S (pc + length (compile_expr pc e1))) by lia.
            reflexivity. }
          destruct (eval B e2 (absE b l sv)) as [v2|x]; [|eapply steps_fails; [exact S1|exact IHe2]].
          eapply steps_trans; [exact S1|].
          stepspos IHe2.
      - (* EEq *)
        cbn [wf_expr compile_expr] in *. apply andb_prop in Hwf as [Hw1 Hw2].
        apply code_at_app in Hc as [Hc1 Hc2]. apply code_at_app in Hc2 as [Hc2 Hc3].
        apply code_at_cons in Hc3 as [Hi _].
        specialize (IHe1 lex pc b stk l sv c o Hw1 Hlex Hfr Hpar Hc1). cbn [eval].
        destruct (eval B e1 (absE b l sv)) as [v1|x]; [|exact IHe1].
        specialize (IHe2 lex _ b (v1 :: stk) l sv c o Hw2 Hlex Hfr Hpar Hc2).
        destruct (eval B e2 (absE b l sv)) as [v2|x]; [|eapply steps_fails; [exact IHe1|exact IHe2]].
        eapply steps_trans; [exact IHe1|]. eapply steps_step; [exact IHe2|]. intros fu.
        rewrite !app_length. cbn [length].
        erewrite run_Equal by exact Hi. runpos.
      - (* ETest *)
        cbn [wf_expr compile_expr] in *. apply code_at_app in Hc as [Hc1 Hc2]. apply code_at_cons in Hc2 as [Hi1 Hc2].
        apply code_at_cons in Hc2 as [Hi2 _].
        specialize (IHe lex pc b stk l sv c o Hwf Hlex Hfr Hpar Hc1). cbn [eval].
        destruct (eval B e (absE b l sv)) as [v|x]; [|exact IHe].
        assert (S1 : steps pc (mk b stk l sv c) o (S (pc + length (compile_expr pc e))) (mk b (VMap [] :: v :: stk) l sv c) o).
        { eapply steps_step; [exact IHe|]. intros fu.
          apply run_BuildMap with (n := 0) (items := []) (rest := v :: stk) (pairs := []); [exact Hi1|reflexivity|reflexivity]. }
        change (b_test B n v) with (w_test wd n v []).
        rewrite app_length. cbn [length].
        destruct (w_test wd n v []) as [[r|x]|] eqn:Et.
        + eapply steps_step; [exact S1|]. intros fu. erewrite run_RunTest by exact Hi2. rewrite Et.
          replace (pc + (length (compile_expr pc e) + 2)) with (S (S (pc + length (compile_expr pc e)))) by lia. reflexivity.
        + eapply steps_fail1; [exact S1|]. intros fu. erewrite run_RunTest by exact Hi2. rewrite Et. reflexivity.
        + eapply steps_fail1; [exact S1|]. intros fu. erewrite run_RunTest by exact Hi2. rewrite Et. reflexivity.
      - (* EFilter *)
        cbn [wf_expr compile_expr] in *. apply andb_prop in Hwf as [Hw1 Hw2].
        apply code_at_app in Hc as [Hc1 Hc2].
        specialize (IHe lex pc b stk l sv c o Hw1 Hlex Hfr Hpar Hc1). cbn [eval].
        destruct (eval B e (absE b l sv)) as [v|x]; [|exact IHe].
        pose proof (filter_ok kw n H lex _ b stk l sv c o v Hw2 Hlex Hfr Hpar Hc2) as F.
        destruct (eval_kws (fun x => eval B x (absE b l sv)) kw) as [kws|x]; [|eapply steps_fails; [exact IHe|exact F]].
        destruct (apply_filter B n v kws) as [r|x]; [|eapply steps_fails; [exact IHe|exact F]].
        eapply steps_trans; [exact IHe|]. rewrite !app_length. cbn [length].
        stepspos F.
      - (* EBin *)
        cbn [wf_expr compile_expr] in *. apply andb_prop in Hwf as [Hw1 Hw2].
        apply code_at_app in Hc as [Hc1 Hc2]. apply code_at_app in Hc2 as [Hc2 Hc3].
        apply code_at_cons in Hc3 as [Hi _].
        specialize (IHe1 lex pc b stk l sv c o Hw1 Hlex Hfr Hpar Hc1). cbn [eval].
        destruct (eval B e1 (absE b l sv)) as [v1|x]; [|exact IHe1].
        specialize (IHe2 lex _ b (v1 :: stk) l sv c o Hw2 Hlex Hfr Hpar Hc2).
        destruct (eval B e2 (absE b l sv)) as [v2|x]; [|eapply steps_fails; [exact IHe1|exact IHe2]].
        change (b_binop B op v1 v2) with (binop_result wd op v1 v2).
        rewrite !app_length. cbn [length].
        destruct (binop_result wd op v1 v2) as [r|x] eqn:Er.
        + eapply steps_trans; [exact IHe1|]. eapply steps_step; [exact IHe2|]. intros fu.
          erewrite run_binop by exact Hi. rewrite Er. runpos.
        + eapply steps_fails; [exact IHe1|]. eapply steps_fail1; [exact IHe2|]. intros fu.
          erewrite run_binop by exact Hi. rewrite Er. reflexivity.
      - (* ENeg *)
        cbn [wf_expr compile_expr] in *. apply code_at_app in Hc as [Hc1 Hc2]. apply code_at_cons in Hc2 as [Hi _].
        specialize (IHe lex pc b stk l sv c o Hwf Hlex Hfr Hpar Hc1). cbn [eval].
        destruct (eval B e (absE b l sv)) as [v|x]; [|exact IHe].
        change (b_neg B v) with (neg_result wd v).
        rewrite app_length. cbn [length].
        destruct (neg_result wd v) as [r|x] eqn:Er.
        + eapply steps_step; [exact IHe|]. intros fu. erewrite run_Negative by exact Hi. rewrite Er. runpos.
        + eapply steps_fail1; [exact IHe|]. intros fu. erewrite run_Negative by exact Hi. rewrite Er. reflexivity.
      - (* ETernary *)
        cbn [wf_expr compile_expr] in *. apply andb_prop in Hwf as [Hw Hw3]. apply andb_prop in Hw as [Hw1 Hw2].
        apply code_at_app in Hc as [Hc1 Hc2]. apply code_at_app in Hc2 as [Hj1 Hc2]. apply code_at_cons in Hj1 as [Hj1 _].
        apply code_at_app in Hc2 as [Hc2 Hc3]. apply code_at_app in Hc3 as [Hj2 Hc3]. apply code_at_cons in Hj2 as [Hj2 _].
        cbn [length] in *.
        specialize (IHe1 lex pc b stk l sv c o Hw1 Hlex Hfr Hpar Hc1). cbn [eval].
        destruct (eval B e1 (absE b l sv)) as [v|x]; [|exact IHe1].
        rewrite !app_length. cbn [length].
        destruct (is_truthy v) eqn:Et.
        + assert (S1 : steps pc (mk b stk l sv c) o (pc + length (compile_expr pc e1) + 1) (mk b stk l sv c) o).
          { eapply steps_step; [exact IHe1|]. intros fu. erewrite run_PopJumpIfFalse by exact Hj1. rewrite Et. runpos. }
          specialize (IHe2 lex _ b stk l sv c o Hw2 Hlex Hfr Hpar Hc2).
          destruct (eval B e2 (absE b l sv)) as [v2|x]; [|eapply steps_fails; [exact S1|exact IHe2]].
          eapply steps_trans; [exact S1|]. eapply steps_step; [exact IHe2|]. intros fu.
          erewrite run_Jump by exact Hj2. runpos.
        + assert (S1 : steps pc (mk b stk l sv c) o
                         (pc + length (compile_expr pc e1) + 1 + length (compile_expr (pc + length (compile_expr pc e1) + 1) e2) + 1)
                         (mk b stk l sv c) o).
          { eapply steps_step; [exact IHe1|]. intros fu. erewrite run_PopJumpIfFalse by exact Hj1. rewrite Et. runpos. }
          match type of Hc3 with code_at ?q _ =>
            replace q with (pc + length (compile_expr pc e1) + 1 + length (compile_expr (pc + length (compile_expr pc e1) + 1) e2) + 1) in Hc3 by lia end.
          specialize (IHe3 lex _ b stk l sv c o Hw3 Hlex Hfr Hpar Hc3).
          destruct (eval B e3 (absE b l sv)) as [v3|x]; [|eapply steps_fails; [exact S1|exact IHe3]].
          eapply steps_trans; [exact S1|]. stepspos IHe3.
      - (* EAttrOpt *)
        cbn [wf_expr compile_expr] in *. apply code_at_app in Hc as [Hc1 Hc2]. apply code_at_cons in Hc2 as [Hi _].
        specialize (IHe lex pc b stk l sv c o Hwf Hlex Hfr Hpar Hc1). cbn [eval].
        destruct (eval B e (absE b l sv)) as [v|x]; [|exact IHe].
        rewrite app_length. cbn [length].
        replace (pc + (length (compile_expr pc e) + 1)) with (S (pc + length (compile_expr pc e))) by lia.
        destruct (is_undefined v || is_none v) eqn:Eu;
          (eapply steps_step; [exact IHe|]; intros fu; erewrite run_LoadAttrOpt by exact Hi; rewrite Eu; reflexivity).
      - (* ESub *)
        cbn [wf_expr compile_expr] in *. apply andb_prop in Hwf as [Hw1 Hw2].
        apply code_at_app in Hc as [Hc1 Hc2]. apply code_at_app in Hc2 as [Hc2 Hc3].
        apply code_at_cons in Hc3 as [Hi _].
        specialize (IHe1 lex pc b stk l sv c o Hw1 Hlex Hfr Hpar Hc1). cbn [eval].
        destruct (eval B e1 (absE b l sv)) as [v1|x]; [|exact IHe1].
        specialize (IHe2 lex _ b (v1 :: stk) l sv c o Hw2 Hlex Hfr Hpar Hc2).
        destruct (eval B e2 (absE b l sv)) as [v2|x]; [|eapply steps_fails; [exact IHe1|exact IHe2]].
        change (b_subscript B opt v1 v2) with (subscript wd opt v1 v2).
        rewrite !app_length. cbn [length].
        destruct (subscript wd opt v1 v2) as [r|x] eqn:Er.
        + eapply steps_trans; [exact IHe1|]. eapply steps_step; [exact IHe2|]. intros fu.
          erewrite run_Subscript by exact Hi. rewrite Er. runpos.
        + eapply steps_fails; [exact IHe1|]. eapply steps_fail1; [exact IHe2|]. intros fu.
          erewrite run_Subscript by exact Hi. rewrite Er. reflexivity.
      - (* ESlice *)
        cbn [wf_expr compile_expr] in Hwf, Hc |- *.
        apply andb_prop in Hwf as [Hwf Hw4]. apply andb_prop in Hwf as [Hwf Hw3]. apply andb_prop in Hwf as [Hw1 Hw2].
        apply code_at_app in Hc as [Hc1 Hc2]. apply code_at_app in Hc2 as [Hc2 Hc3]. apply code_at_app in Hc3 as [Hc3 Hc4].
        apply code_at_app in Hc4 as [Hc4 Hc5]. apply code_at_cons in Hc5 as [Hi _].
        specialize (IHe lex pc b stk l sv c o Hw1 Hlex Hfr Hpar Hc1). cbn [eval].
        destruct (eval B e (absE b l sv)) as [v|x]; [|exact IHe].
        pose proof (opt_correct sa VNone H lex _ b (v :: stk) l sv c o Hw2 Hlex Hfr Hpar Hc2) as K2.
        unfold opt_code in K2.
        destruct (match sa with Some x => eval B x (absE b l sv) | None => ROk VNone end) as [va|x];
          [|eapply steps_fails; [exact IHe|exact K2]].
        pose proof (opt_correct sb VNone H0 lex _ b (va :: v :: stk) l sv c o Hw3 Hlex Hfr Hpar Hc3) as K3.
        unfold opt_code in K3.
        assert (S2 := steps_trans _ _ _ _ _ _ _ _ _ IHe K2).
        destruct (match sb with Some x => eval B x (absE b l sv) | None => ROk VNone end) as [vb|x];
          [|eapply steps_fails; [exact S2|exact K3]].
        pose proof (opt_correct sc (VInt I64 1) H1 lex _ b (vb :: va :: v :: stk) l sv c o Hw4 Hlex Hfr Hpar Hc4) as K4.
        unfold opt_code in K4.
        assert (S3 := steps_trans _ _ _ _ _ _ _ _ _ S2 K3).
        destruct (match sc with Some x => eval B x (absE b l sv) | None => ROk (VInt I64 1) end) as [vc|x];
          [|eapply steps_fails; [exact S3|exact K4]].
        assert (S4 := steps_trans _ _ _ _ _ _ _ _ _ S3 K4).
        change (b_slice B opt v va vb vc) with (vm_slice opt v va vb vc).
        rewrite !app_length. cbn [length].
        destruct (vm_slice opt v va vb vc) as [r|x] eqn:Er.
        + eapply steps_step; [exact S4|]. intros fu. erewrite run_Slice by exact Hi. rewrite Er. runpos.
        + eapply steps_fail1; [exact S4|]. intros fu. erewrite run_Slice by exact Hi. rewrite Er. reflexivity.
      - (* ECall *)
        cbn [wf_expr compile_expr] in *. apply andb_prop in Hwf as [Hs Hw]. apply negb_true_iff in Hs.
        apply code_at_app in Hc as [Hc1 Hc2]. apply code_at_cons in Hc2 as [Hi1 Hc2].
        apply code_at_cons in Hc2 as [Hi2 _].
        pose proof (kws_ok kw H lex pc b stk l sv c o Hw Hlex Hfr Hpar Hc1) as K. cbn [eval].
        destruct (eval_kws (fun x => eval B x (absE b l sv)) kw) as [kws|x]; [|exact K].
        destruct K as [Hlen K].
        assert (S1 : steps pc (mk b stk l sv c) o (S (pc + length (compile_kws compile_expr pc kw)))
                           (mk b (VMap (kw_map wd kws) :: stk) l sv c) o).
        { eapply steps_step; [exact K|]. intros fu.
          apply run_BuildMap with (n := length kw) (items := flat_kws kws) (rest := stk)
                                  (pairs := map (fun kv => (KStr (fst kv) true, snd kv)) kws);
            [exact Hi1| |apply build_map_pairs_kws].
          cbn [mk stack]. rewrite <- Hlen. apply pop_n_kws. }
        change (b_function B n kws) with (w_function wd n (kw_map wd kws) no_scope).
        rewrite app_length. cbn [length].
        destruct (w_function wd n (kw_map wd kws) no_scope) as [[[r|x] safe]|] eqn:Ef.
        + eapply steps_step; [exact S1|]. intros fu.
          erewrite run_CallFunction by first [exact Hi2|exact Hs]. rewrite Ef. runpos.
        + eapply steps_fail1; [exact S1|]. intros fu.
          erewrite run_CallFunction by first [exact Hi2|exact Hs]. rewrite Ef. reflexivity.
        + eapply steps_fail1; [exact S1|]. intros fu.
          erewrite run_CallFunction by first [exact Hi2|exact Hs]. rewrite Ef. reflexivity.
      - (* EArr: not covered *) cbn [wf_expr] in Hwf. discriminate.
      - (* EMap: not covered *) cbn [wf_expr] in Hwf. discriminate.
    Qed.


    Lemma all_expr_ok (kw : list (str * expr)) : Forall (fun ke => expr_ok (snd ke)) kw.
    Proof. apply Forall_forall. intros ke _. apply expr_correct. Qed.

    (* ----- statements ----- *)
    Lemma exec_seq_cons ex s t en :
      exec_seq ex (s :: t) en
      = match ex s en with
        | ROk (en1, t1, SigNormal) =>
            match exec_seq ex t en1 with
            | ROk (en2, t2, sg) => ROk (en2, t1 ++ t2, sg)
            | RErr x => RErr x
            end
        | r => r
        end.
    Proof. reflexivity. Qed.

    Lemma exec_iter_cons body key val n it rest i en :
      exec_iter body key val n (it :: rest) i en
      = match body (push_loop en {| ls_key_name := key; ls_val_name := val; ls_item := it;
                                    ls_index0 := i; ls_length := n; ls_locals := [] |}) with
        | RErr x => RErr x
        | ROk (en1, t1, SigBreak) => ROk (pop_loop en1, t1, SigNormal)
        | ROk (en1, t1, _) =>
            match exec_iter body key val n rest (S i) (pop_loop en1) with
            | ROk (en2, t2, sg) => ROk (en2, t1 ++ t2, sg)
            | RErr x => RErr x
            end
        end.
    Proof. reflexivity. Qed.

    (* the enclosing loop, as the compiler sees it: (index of its Iterate, its loop_end) *)
    Definition lp_ok (lp : option (nat * nat)) (l : list loop_frame) : Prop :=
      match lp with
      | Some (_, le) => exists fr t, l = fr :: t /\ lf_end_ip fr = le
      | None => True
      end.

    Definition target (pc_end : nat) (lp : option (nat * nat)) (sg : signal) : option nat :=
      match sg, lp with
      | SigNormal, _ => Some pc_end
      | SigBreak, Some (_, le) => Some le
      | SigContinue, Some (ls, _) => Some ls
      | _, None => None
      end.

    (* what running a statement from (pc, s0) must do, given the reference outcome r computed in
       the environment described by (l, sv); c, o: where output goes *)
    Definition result_ok (pc : nat) (s0 : state) (pc_end : nat) (lp : option (nat * nat))
               (b : state) (stk : list value) (l : list loop_frame) (sv : ctx) (c : list str) (o : sink W)
               (r : outcome) : Prop :=
      match r with
      | RErr _ => fails pc s0 o
      | ROk (env', text, sg) =>
          exists l' sv', env' = absE b l' sv' /\ frames_eq l l' /\
            match target pc_end lp sg with
            | Some t => steps pc s0 o t (mk b stk l' sv' (out_caps c text)) (out_sink c o text)
            | None => False
            end
      end.

    Lemma result_ok_wrap pc s0 pc1 s1 pe1 pe2 lp b stk l sv c o r :
      steps pc s0 o pc1 s1 o ->
      result_ok pc1 s1 pe1 lp b stk l sv c o r ->
      (forall s' o', steps pe1 s' o' pe2 s' o') ->
      result_ok pc s0 pe2 lp b stk l sv c o r.
    Proof.
      intros S0 Hr Hs. destruct r as [[[en1 t1] sg]|x]; cbn [result_ok] in *.
      - destruct Hr as (l' & sv' & He & Hf & Ht). exists l', sv'. split; [exact He|]. split; [exact Hf|].
        destruct sg, lp as [[ls le]|]; cbn [target] in *;
          first [ exact Ht
                | (eapply steps_trans; [exact S0|]; eapply steps_trans; [exact Ht|apply Hs])
                | (eapply steps_trans; [exact S0|exact Ht]) ].
      - eapply steps_fails; [exact S0|exact Hr].
    Qed.

    Definition pre (lex : bool) (lp : option (nat * nat)) (b : state) (l : list loop_frame) : Prop :=
      (lex = true -> l <> []) /\ Forall frame_ok l /\ parent_ok b /\ lp_ok lp l.

    Lemma pre_frames_eq lex lp b l l' : frames_eq l l' -> pre lex lp b l -> pre lex lp b l'.
    Proof.
      intros Hf (H1 & H2 & H3 & H4). split; [|split; [|split]].
      - intros Hl. eapply frames_eq_nonempty; [exact Hf|auto].
      - eapply frames_eq_ok; eassumption.
      - exact H3.
      - destruct lp as [[ls le]|]; [|exact I]. destruct H4 as (fr & t & -> & He).
        inversion Hf as [|? f' ? t' [cx ->] Ht]; subst. exists (lf_set_ctx fr cx), t'. split; [reflexivity|first [exact He|reflexivity]].
    Qed.

    Definition stmt_ok (s : stmt) : Prop :=
      forall lex lp pc b stk l sv c o,
        wf_stmt okn lex (is_some lp) s = true -> pre lex lp b l ->
        code_at pc (compile_node pc (option_map fst lp) s) ->
        result_ok pc (mk b stk l sv c) (pc + length (compile_node pc (option_map fst lp) s)) lp b stk l sv c o
                  (exec B aesc inc s (absE b l sv)).

    Definition list_ok (body : list stmt) : Prop :=
      forall lex lp pc b stk l sv c o,
        forallb (wf_stmt okn lex (is_some lp)) body = true -> pre lex lp b l ->
        code_at pc (compile_seq compile_node pc (option_map fst lp) body) ->
        result_ok pc (mk b stk l sv c) (pc + length (compile_seq compile_node pc (option_map fst lp) body)) lp
                  b stk l sv c o (exec_list B aesc inc body (absE b l sv)).

    Lemma list_from_stmts body : Forall stmt_ok body -> list_ok body.
    Proof.
      induction 1 as [|s t Hs _ IH]; intros lex lp pc b stk l sv c o Hwf Hpre Hc.
      - cbn. exists l, sv. split; [reflexivity|]. split; [apply frames_eq_refl|].
        rewrite out_caps_nil, out_sink_nil. replace (pc + 0) with pc by lia. apply steps_refl.
      - cbn [forallb] in Hwf. apply andb_prop in Hwf as [Hw1 Hw2].
        rewrite compile_seq_cons in *. apply code_at_app in Hc as [Hc1 Hc2].
        unfold exec_list. rewrite exec_seq_cons.
        specialize (Hs lex lp pc b stk l sv c o Hw1 Hpre Hc1).
        destruct (exec B aesc inc s (absE b l sv)) as [[[en1 t1] sg1]|x]; [|exact Hs].
        cbn [result_ok] in Hs. destruct Hs as (l1 & sv1 & -> & Hf1 & Ht1).
        destruct sg1.
        + cbn [target] in Ht1.
          specialize (IH lex lp _ b stk l1 sv1 (out_caps c t1) (out_sink c o t1) Hw2
                         (pre_frames_eq _ _ _ _ _ Hf1 Hpre) Hc2).
          unfold exec_list in IH.
          destruct (exec_seq (exec B aesc inc) t (absE b l1 sv1)) as [[[en2 t2] sg2]|x]; cbn [result_ok] in *.
          * destruct IH as (l2 & sv2 & -> & Hf2 & Ht2). exists l2, sv2. split; [reflexivity|].
            split; [eapply frames_eq_trans; eassumption|].
            rewrite out_caps_app, out_sink_app in Ht2. rewrite app_length.
            destruct sg2, lp as [[ls le]|]; cbn [target] in *;
              first [ exact Ht2
                    | (eapply steps_trans; [exact Ht1|]; stepspos Ht2)
                    | (eapply steps_trans; [exact Ht1|exact Ht2]) ].
          * eapply steps_fails; [exact Ht1|exact IH].
        + cbn [result_ok]. exists l1, sv1. split; [reflexivity|]. split; [exact Hf1|].
          destruct lp as [[ls le]|]; cbn [target] in *; exact Ht1.
        + cbn [result_ok]. exists l1, sv1. split; [reflexivity|]. split; [exact Hf1|].
          destruct lp as [[ls le]|]; cbn [target] in *; exact Ht1.
    Qed.

    (* break/continue-free bodies compile the same whatever the enclosing loop *)
    Lemma compile_lp_irrel : forall s lex pc lp, wf_stmt okn lex false s = true ->
      compile_node pc lp s = compile_node pc None s.
    Proof.
      induction s using stmt_ind'; intros lex pc lp Hwf; try reflexivity.
      all: assert (Hseq : forall body, Forall (fun s => forall lex pc lp, wf_stmt okn lex false s = true ->
                    compile_node pc lp s = compile_node pc None s) body ->
                  forall lex pc lp, forallb (wf_stmt okn lex false) body = true ->
                    compile_seq compile_node pc lp body = compile_seq compile_node pc None body)
        by (induction 1 as [|x0 t0 Hx _ IHt]; intros lex' pc' lp' Hw; [reflexivity|];
            cbn [forallb] in Hw; apply andb_prop in Hw as [Hw1 Hw2];
            rewrite !compile_seq_cons, (Hx lex' pc' lp' Hw1), (IHt lex' _ lp' Hw2); reflexivity).
      - (* SIf *)
        cbn [wf_stmt] in Hwf. apply andb_prop in Hwf as [Hwf Hw3]. apply andb_prop in Hwf as [Hw1 Hw2].
        cbn [compile_node]. rewrite (Hseq b H lex _ lp Hw2).
        destruct e as [|s0 r]; [reflexivity|]. rewrite (Hseq _ H0 lex _ lp Hw3). reflexivity.
      - (* SFor *)
        cbn [wf_stmt] in Hwf. apply andb_prop in Hwf as [Hwf Hw3].
        cbn [compile_node]. destruct e as [|s0 r]; [reflexivity|]. rewrite (Hseq _ H0 lex _ lp Hw3). reflexivity.
      - (* SSetBlock *)
        cbn [wf_stmt] in Hwf. apply andb_prop in Hwf as [Hw1 _].
        cbn [compile_node]. rewrite (Hseq b H lex _ lp Hw1). reflexivity.
      - (* SFilter *)
        cbn [wf_stmt] in Hwf. apply andb_prop in Hwf as [_ Hw1].
        cbn [compile_node]. rewrite (Hseq b H lex _ lp Hw1). reflexivity.
      - discriminate.
    Qed.

    Lemma compile_seq_lp_irrel body lex pc lp : forallb (wf_stmt okn lex false) body = true ->
      compile_seq compile_node pc lp body = compile_seq compile_node pc None body.
    Proof.
      revert pc. induction body as [|x t IH]; intros pc Hw; [reflexivity|].
      cbn [forallb] in Hw. apply andb_prop in Hw as [Hw1 Hw2].
      rewrite !compile_seq_cons, (compile_lp_irrel x lex pc lp Hw1), (IH _ Hw2). reflexivity.
    Qed.

    (* the filters of a set block, applied to the value on top of the stack *)
    Lemma filters_ok : forall fs lex pc b stk l sv c o v,
      forallb (fun f => wf_kws lex (snd f)) fs = true -> (lex = true -> l <> []) -> Forall frame_ok l ->
      parent_ok b -> code_at pc (compile_filters pc fs) ->
      match apply_filters B fs v (absE b l sv) with
      | ROk r => steps pc (mk b (v :: stk) l sv c) o (pc + length (compile_filters pc fs)) (mk b (r :: stk) l sv c) o
      | RErr _ => fails pc (mk b (v :: stk) l sv c) o
      end.
    Proof.
      induction fs as [|[name kw] t IH]; intros lex pc b stk l sv c o v Hwf Hlex Hfr Hpar Hc.
      - cbn. replace (pc + 0) with pc by lia. apply steps_refl.
      - cbn [forallb snd] in Hwf. apply andb_prop in Hwf as [Hw1 Hw2].
        cbn [compile_filters apply_filters] in *. unfold compile_kwargs in *.
        rewrite <- !app_assoc in *. cbn [app] in *.
        replace ((compile_kws compile_expr pc kw ++ [BuildMap (length kw); ApplyFilter name]) ++
                 compile_filters (pc + length (compile_kws compile_expr pc kw ++ [BuildMap (length kw); ApplyFilter name])) t)
          with (compile_kws compile_expr pc kw ++ BuildMap (length kw) :: ApplyFilter name ::
                 compile_filters (pc + length (compile_kws compile_expr pc kw ++ [BuildMap (length kw); ApplyFilter name])) t)
          in * by (rewrite <- app_assoc; reflexivity).
        assert (Hc' : code_at pc (compile_kws compile_expr pc kw ++ [BuildMap (length kw); ApplyFilter name])
                      /\ code_at (pc + length (compile_kws compile_expr pc kw) + 2)
                           (compile_filters (pc + length (compile_kws compile_expr pc kw ++ [BuildMap (length kw); ApplyFilter name])) t)).
        { apply code_at_app in Hc as [Ha Hb]. apply code_at_cons in Hb as [Hb1 Hb]. apply code_at_cons in Hb as [Hb2 Hb].
          split.
          - intros i x Hi. destruct (Nat.lt_ge_cases i (length (compile_kws compile_expr pc kw))) as [Hlt|Hge].
            + apply Ha. rewrite nth_error_app1 in Hi by exact Hlt. exact Hi.
            + rewrite nth_error_app2 in Hi by exact Hge.
              destruct (i - length (compile_kws compile_expr pc kw)) as [|[|k]] eqn:Ek; cbn in Hi.
              * inversion Hi; subst. replace (pc + i) with (pc + length (compile_kws compile_expr pc kw)) by lia. exact Hb1.
              * inversion Hi; subst. replace (pc + i) with (S (pc + length (compile_kws compile_expr pc kw))) by lia. exact Hb2.
              * destruct k; discriminate.
          - replace (pc + length (compile_kws compile_expr pc kw) + 2)
              with (S (S (pc + length (compile_kws compile_expr pc kw)))) by lia. exact Hb. }
        destruct Hc' as [Hc1 Hc2].
        pose proof (filter_ok kw name (all_expr_ok kw) lex pc b stk l sv c o v Hw1 Hlex Hfr Hpar Hc1) as F.
        destruct (eval_kws (fun x => eval B x (absE b l sv)) kw) as [kws|x]; [|exact F].
        destruct (apply_filter B name v kws) as [r|x]; [|exact F].
        assert (Hlen : pc + length (compile_kws compile_expr pc kw ++ [BuildMap (length kw); ApplyFilter name])
                       = pc + length (compile_kws compile_expr pc kw) + 2) by (rewrite app_length; cbn [length]; lia).
        rewrite Hlen in *.
        specialize (IH lex _ b stk l sv c o r Hw2 Hlex Hfr Hpar Hc2).
        destruct (apply_filters B t r (absE b l sv)) as [r2|x].
        + eapply steps_trans; [exact F|]. rewrite app_length. cbn [length]. stepspos IH.
        + eapply steps_fails; [exact F|exact IH].
    Qed.

    (* ----- for loops ----- *)
    Definition iter_frame (key : option str) (val : str) (n le i : nat) (it : option value * value)
               (rest : list (option value * value)) : loop_frame :=
      {| lf_rest := rest; lf_index0 := i; lf_first := Nat.eqb i 0; lf_last := Nat.eqb (S i) n;
         lf_length := n; lf_end_ip := le; lf_context := []; lf_value_name := val; lf_key_name := key;
         lf_current := it; lf_iterated := true; lf_is_comp := false |}.

    Definition init_frame (key : option str) (val : str) (items : list (option value * value)) : loop_frame :=
      {| lf_rest := items; lf_index0 := 0; lf_first := true; lf_last := Nat.eqb (length items) 1;
         lf_length := length items; lf_end_ip := 0; lf_context := []; lf_value_name := val;
         lf_key_name := key; lf_current := (None, VUndef); lf_iterated := false; lf_is_comp := false |}.

    (* the innermost frame when control is at the loop's Iterate, about to start iteration i *)
    Definition loop_inv key val n le (f : loop_frame) (i : nat) (rest : list (option value * value)) : Prop :=
      (i = 0 /\ f = init_frame key val rest /\ n = length rest) \/
      (exists i0 itp cx, i = S i0 /\ f = lf_set_ctx (iter_frame key val n le i0 itp rest) cx).

    Lemma inv_rest key val n le f i rest : loop_inv key val n le f i rest -> lf_rest f = rest.
    Proof. intros [(_ & -> & _)|(i0 & itp & cx & _ & ->)]; reflexivity. Qed.

    Lemma inv_advance key val n le f i it rest : le <> 0 ->
      loop_inv key val n le f i (it :: rest) -> lf_advance f le = iter_frame key val n le i it rest.
    Proof.
      intros Hle [(-> & -> & ->)|(i0 & itp & cx & -> & ->)].
      - unfold lf_advance, init_frame, iter_frame. cbn -[Nat.eqb]. change (0 =? 0) with true. cbn [negb].
        rewrite (Nat.eqb_sym 1 (S (length rest))). reflexivity.
      - unfold lf_advance, iter_frame, lf_set_ctx. cbn -[Nat.eqb].
        assert (Hz : Nat.eqb le 0 = false) by (apply Nat.eqb_neq; exact Hle). rewrite Hz. reflexivity.
    Qed.

    Lemma header_frame key val items : val <> [] ->
      match key with
      | Some k => lf_store_local (lf_store_local (new_loop items false) val) k
      | None => lf_store_local (new_loop items false) val
      end = init_frame key val items.
    Proof. intros Hv. destruct val as [|x xs]; [congruence|]. destruct key; reflexivity. Qed.

    (* the loop proper: from the Iterate instruction to loop_end, for the remaining items *)
    Lemma for_loop_sim key val n body start le b stk :
      list_ok body -> le <> 0 ->
      nth_error ch start = Some (Iterate le) ->
      code_at (S start) (compile_seq compile_node (S start) (Some start) body) ->
      nth_error ch (S start + length (compile_seq compile_node (S start) (Some start) body)) = Some (Jump start) ->
      forallb (wf_stmt okn true true) body = true -> parent_ok b ->
      forall rest i f l sv c o,
        loop_inv key val n le f i rest -> (rest = [] -> lf_iterated f = true) -> Forall frame_ok l ->
        match exec_iter (exec_list B aesc inc body) key val n rest i (absE b l sv) with
        | RErr _ => fails start (mk b stk (f :: l) sv c) o
        | ROk (env', text, sg) =>
            sg = SigNormal /\ exists f' l' sv', env' = absE b l' sv' /\ frames_eq l l' /\ lf_iterated f' = true /\
              steps start (mk b stk (f :: l) sv c) o le (mk b stk (f' :: l') sv' (out_caps c text)) (out_sink c o text)
        end.
    Proof.
      intros Hbody Hle Hit Hcb Hjmp Hwf Hpar. induction rest as [|it rest IH]; intros i f l sv c o Hinv Hiter Hfr.
      - cbn. split; [reflexivity|]. exists f, l, sv. split; [reflexivity|]. split; [apply frames_eq_refl|].
        split; [apply Hiter; reflexivity|]. rewrite out_caps_nil, out_sink_nil.
        apply step1. intros fu. erewrite run_Iterate by exact Hit. rewrite (inv_rest _ _ _ _ _ _ _ Hinv). reflexivity.
      - rewrite exec_iter_cons.
        set (fa := iter_frame key val n le i it rest).
        assert (S0 : steps start (mk b stk (f :: l) sv c) o (S start) (mk b stk (fa :: l) sv c) o).
        { apply step1. intros fu. erewrite run_Iterate by exact Hit. rewrite (inv_rest _ _ _ _ _ _ _ Hinv).
          rewrite (inv_advance _ _ _ _ _ _ _ _ Hle Hinv). reflexivity. }
        assert (Hpre : pre true (Some (start, le)) b (fa :: l)).
        { split; [discriminate|]. split; [constructor; [repeat split|exact Hfr]|]. split; [exact Hpar|].
          exists fa, l. split; reflexivity. }
        pose proof (Hbody true (Some (start, le)) (S start) b stk (fa :: l) sv c o Hwf Hpre Hcb) as Hb.
        change (push_loop (absE b l sv)
                  {| ls_key_name := key; ls_val_name := val; ls_item := it; ls_index0 := i; ls_length := n; ls_locals := [] |})
          with (absE b (fa :: l) sv).
        cbn [option_map fst] in Hb.
        destruct (exec_list B aesc inc body (absE b (fa :: l) sv)) as [[[en1 t1] sg1]|x]; cbn [result_ok] in Hb.
        2:{ eapply steps_fails; [exact S0|exact Hb]. }
        destruct Hb as (lb & sv1 & -> & Hf1 & Ht1).
        inversion Hf1 as [|? fa' ? l1 [cx ->] Hfl]; subst.
        assert (Hnext : forall c1 o1,
          steps start (mk b stk (f :: l) sv c) o start (mk b stk (lf_set_ctx fa cx :: l1) sv1 c1) o1 ->
          match exec_iter (exec_list B aesc inc body) key val n rest (S i) (absE b l1 sv1) with
          | RErr _ => fails start (mk b stk (f :: l) sv c) o
          | ROk (en2, t2, sg) =>
              sg = SigNormal /\ exists f' l' sv', en2 = absE b l' sv' /\ frames_eq l l' /\ lf_iterated f' = true /\
                steps start (mk b stk (f :: l) sv c) o le (mk b stk (f' :: l') sv' (out_caps c1 t2)) (out_sink c1 o1 t2)
          end).
        { intros c1 o1 Hs.
          assert (Hinv' : loop_inv key val n le (lf_set_ctx fa cx) (S i) rest).
          { right. exists i, it, cx. split; reflexivity. }
          specialize (IH (S i) (lf_set_ctx fa cx) l1 sv1 c1 o1 Hinv' (fun _ => eq_refl) (frames_eq_ok _ _ Hfl Hfr)).
          destruct (exec_iter (exec_list B aesc inc body) key val n rest (S i) (absE b l1 sv1)) as [[[en2 t2] sg2]|x].
          - destruct IH as (-> & f' & l' & sv' & -> & Hf2 & Hi2 & Hs2). split; [reflexivity|].
            exists f', l', sv'. split; [reflexivity|]. split; [eapply frames_eq_trans; eassumption|].
            split; [exact Hi2|]. eapply steps_trans; [exact Hs|exact Hs2].
          - eapply steps_fails; [exact Hs|exact IH]. }
        change (pop_loop (absE b (lf_set_ctx fa cx :: l1) sv1)) with (absE b l1 sv1).
        destruct sg1; cbn [target] in Ht1.
        + (* the body fell through: Jump start *)
          specialize (Hnext (out_caps c t1) (out_sink c o t1)).
          assert (Hs : steps start (mk b stk (f :: l) sv c) o start
                         (mk b stk (lf_set_ctx fa cx :: l1) sv1 (out_caps c t1)) (out_sink c o t1)).
          { eapply steps_trans; [exact S0|]. eapply steps_step; [exact Ht1|]. intros fu.
            eapply run_Jump. exact Hjmp. }
          specialize (Hnext Hs).
          destruct (exec_iter (exec_list B aesc inc body) key val n rest (S i) (absE b l1 sv1)) as [[[en2 t2] sg2]|x];
            [|exact Hnext].
          rewrite out_caps_app, out_sink_app in Hnext. exact Hnext.
        + (* break *)
          split; [reflexivity|]. exists (lf_set_ctx fa cx), l1, sv1. split; [reflexivity|]. split; [exact Hfl|].
          split; [reflexivity|]. eapply steps_trans; [exact S0|exact Ht1].
        + (* continue *)
          specialize (Hnext (out_caps c t1) (out_sink c o t1)).
          assert (Hs : steps start (mk b stk (f :: l) sv c) o start
                         (mk b stk (lf_set_ctx fa cx :: l1) sv1 (out_caps c t1)) (out_sink c o t1)).
          { eapply steps_trans; [exact S0|exact Ht1]. }
          specialize (Hnext Hs).
          destruct (exec_iter (exec_list B aesc inc body) key val n rest (S i) (absE b l1 sv1)) as [[[en2 t2] sg2]|x];
            [|exact Hnext].
          rewrite out_caps_app, out_sink_app in Hnext. exact Hnext.
    Qed.

    (* what follows loop_end *)
    Definition for_exit (le : nat) (lp : option nat) (els : list stmt) : list instr :=
      match els with
      | [] => [PopLoop]
      | _ => [StoreDidNotIterate; PopLoop; PopJumpIfFalse (le + 3 + length (compile_seq compile_node (le + 3) lp els))]
               ++ compile_seq compile_node (le + 3) lp els
      end.

    Lemma compile_for_eq pc lp key val target body els :
      compile_node pc lp (SFor key val target body els)
      = let ct := compile_expr pc target in
        let hdr := [StartIterate (is_some key); StoreLocal val] ++ match key with Some k => [StoreLocal k] | None => [] end in
        let start := pc + length ct + length hdr in
        let cb := compile_seq compile_node (S start) (Some start) body in
        let le := S start + length cb + 1 in
        ct ++ hdr ++ [Iterate le] ++ cb ++ [Jump start] ++ for_exit le lp els.
    Proof.
      cbn [compile_node]. cbv zeta. destruct els as [|s0 r]; cbn [for_exit].
      - rewrite <- !app_assoc. reflexivity.
      - rewrite <- !app_assoc. reflexivity.
    Qed.

    Lemma exit_iterated le lp els b stk f l sv c o : lf_iterated f = true ->
      code_at le (for_exit le lp els) ->
      steps le (mk b stk (f :: l) sv c) o (le + length (for_exit le lp els)) (mk b stk l sv c) o.
    Proof.
      intros Hi Hc. destruct els as [|s0 r]; cbn [for_exit app length] in *.
      - apply code_at_cons in Hc as [H1 _]. replace (le + 1) with (S le) by lia.
        apply step1. intros fu. eapply run_PopLoop. exact H1.
      - apply code_at_cons in Hc as [H1 Hc]. apply code_at_cons in Hc as [H2 Hc]. apply code_at_cons in Hc as [H3 _].
        eapply steps_trans.
        { apply step1. intros fu. eapply run_StoreDidNotIterate. exact H1. }
        eapply steps_trans.
        { apply step1. intros fu. eapply run_PopLoop. exact H2. }
        apply step1. intros fu. erewrite run_PopJumpIfFalse by exact H3. rewrite Hi. cbn [negb is_truthy]. runpos.
    Qed.

    Lemma exit_empty le lp0 els lex b stk f l sv c o : lf_iterated f = false ->
      code_at le (for_exit le (option_map fst lp0) els) -> list_ok els ->
      forallb (wf_stmt okn lex (is_some lp0)) els = true -> pre lex lp0 b l ->
      result_ok le (mk b stk (f :: l) sv c) (le + length (for_exit le (option_map fst lp0) els)) lp0 b stk l sv c o
                (exec_list B aesc inc els (absE b l sv)).
    Proof.
      intros Hi Hc Hels Hwf Hpre. destruct els as [|s0 r]; cbn [for_exit app length] in *.
      - apply code_at_cons in Hc as [H1 _]. cbn. exists l, sv. split; [reflexivity|]. split; [apply frames_eq_refl|].
        rewrite out_caps_nil, out_sink_nil. replace (le + 1) with (S le) by lia.
        apply step1. intros fu. eapply run_PopLoop. exact H1.
      - apply code_at_cons in Hc as [H1 Hc]. apply code_at_cons in Hc as [H2 Hc]. apply code_at_cons in Hc as [H3 Hc].
        replace (S (S (S le))) with (le + 3) in Hc by lia.
        eapply result_ok_wrap with (pc1 := le + 3) (s1 := mk b stk l sv c).
        + eapply steps_trans.
          { apply step1. intros fu. eapply run_StoreDidNotIterate. exact H1. }
          eapply steps_trans.
          { apply step1. intros fu. eapply run_PopLoop. exact H2. }
          apply step1. intros fu. erewrite run_PopJumpIfFalse by exact H3. rewrite Hi. cbn [negb is_truthy]. runpos.
        + apply (Hels lex lp0 (le + 3) b stk l sv c o Hwf Hpre Hc).
        + intros s' o'. match goal with |- steps ?p _ _ ?q _ _ => replace q with p by lia end. apply steps_refl.
    Qed.

    (* ----- include ----- *)
    Lemma run_Include f pc b stk l sv c o name : nth_error ch pc = Some (Include name) ->
      R (S f) pc (mk b stk l sv c) o
      = match assoc_get (w_templates wd) name with
        | None => RFail ErrOther
        | Some t2 =>
            let st := inc_state (Scope l sv (parent b) (context b) (global b)) (context b) in
            match c with
            | [] => match run W wr wd f t2 ae depth (t_root_chunk t2) 0 st o with
                    | RDone _ o1 => R f (S pc) (mk b stk l sv []) o1
                    | RFail e => RFail e
                    | ROutOfFuel => ROutOfFuel
                    end
            | c0 :: ct => match run W wr wd f t2 ae depth (t_root_chunk t2) 0 st (SinkBuf c0) with
                          | RDone _ (SinkBuf c1) => R f (S pc) (mk b stk l sv (c1 :: ct)) o
                          | RDone _ (SinkTop _) => RFail ErrPanic
                          | RFail e => RFail e
                          | ROutOfFuel => ROutOfFuel
                          end
            end
        end.
    Proof.
      intros H. cbn [run]. rewrite H. destruct (assoc_get (w_templates wd) name); [|reflexivity].
      destruct c; reflexivity.
    Qed.

    (* the meaning `inc` the reference interpreter gives to included templates is what the VM
       computes for them (discharged for template libraries below) *)
    Definition inc_sim : Prop :=
      forall name b l sv (o : sink W), okn name = true -> Forall frame_ok l -> parent_ok b ->
        match assoc_get (w_templates wd) name with
        | None => exists x, inc name (absE b l sv) = RErr x
        | Some t2 =>
            let st := inc_state (Scope l sv (parent b) (context b) (global b)) (context b) in
            match inc name (absE b l sv) with
            | RErr _ => exists n e, forall k, run W wr wd (n + k) t2 ae depth (t_root_chunk t2) 0 st o = RFail e
            | ROk text => exists n s', forall k,
                run W wr wd (n + k) t2 ae depth (t_root_chunk t2) 0 st o = RDone s' (sink_add o text)
            end
        end.
    Hypothesis Hinc : inc_sim.

    Lemma stmt_correct : forall s, stmt_ok s.
    Proof.
      induction s as [t | e | c0 b0 e H H0 | k v t b0 e H H0 | g n e | g n b0 fs H | n kw b0 H | n | | ]
        using stmt_ind'; unfold stmt_ok; intros lex lp pc b stk l sv c o Hwf Hpre Hc.
      - (* SText *)
        cbn [compile_node exec length result_ok] in *. apply code_at_cons in Hc as [Hi _].
        exists l, sv. split; [reflexivity|]. split; [apply frames_eq_refl|]. cbn [target].
        replace (pc + 1) with (S pc) by lia. apply step1. intros fu. eapply run_WriteText. exact Hi.
      - (* SPrint *)
        cbn [compile_node wf_stmt] in *. apply code_at_app in Hc as [Hc1 Hc2]. apply code_at_cons in Hc2 as [Hi _].
        destruct Hpre as (Hlex & Hfr & Hpar & Hlp).
        pose proof (expr_correct e lex pc b stk l sv c o Hwf Hlex Hfr Hpar Hc1) as E.
        cbn [exec]. destruct (eval B e (absE b l sv)) as [v|x]; [|exact E].
        unfold render_value. destruct (is_undefined v) eqn:Eu; cbn [result_ok].
        + eapply steps_fail1; [exact E|]. intros fu. erewrite run_WriteTop by exact Hi. rewrite Eu. reflexivity.
        + exists l, sv. split; [reflexivity|]. split; [apply frames_eq_refl|]. cbn [target].
          eapply steps_step; [exact E|]. intros fu. erewrite run_WriteTop by exact Hi. rewrite Eu.
          rewrite app_length. cbn [length]. cbv zeta. runpos.
      - (* SIf *)
        pose proof (list_from_stmts _ H) as Lb. pose proof (list_from_stmts _ H0) as Le. clear H H0.
        cbn [wf_stmt] in Hwf. apply andb_prop in Hwf as [Hwf Hw3]. apply andb_prop in Hwf as [Hw1 Hw2].
        destruct Hpre as (Hlex & Hfr & Hpar & Hlp).
        assert (Hpre : pre lex lp b l) by (repeat split; assumption).
        cbn [exec]. fold (exec_list B aesc inc b0 (absE b l sv)). fold (exec_list B aesc inc e (absE b l sv)).
        destruct e as [|s0 r].
        + (* no else *)
          cbn [compile_node] in *. apply code_at_app in Hc as [Hc1 Hc2]. apply code_at_cons in Hc2 as [Hi Hc2].
          pose proof (expr_correct c0 lex pc b stk l sv c o Hw1 Hlex Hfr Hpar Hc1) as E.
          destruct (eval B c0 (absE b l sv)) as [v|x]; [|exact E].
          replace (S (pc + length (compile_expr pc c0))) with (pc + length (compile_expr pc c0) + 1) in Hc2 by lia.
          destruct (is_truthy v) eqn:Et.
          * eapply result_ok_wrap with (pc1 := pc + length (compile_expr pc c0) + 1) (s1 := mk b stk l sv c).
            { eapply steps_step; [exact E|]. intros fu. erewrite run_PopJumpIfFalse by exact Hi. rewrite Et. runpos. }
            { apply (Lb lex lp _ b stk l sv c o Hw2 Hpre Hc2). }
            { intros s' o'. rewrite !app_length. cbn [length].
              match goal with |- steps ?p _ _ ?q _ _ => replace q with p by lia end. apply steps_refl. }
          * cbn. exists l, sv. split; [reflexivity|]. split; [apply frames_eq_refl|].
            rewrite out_caps_nil, out_sink_nil.
            eapply steps_step; [exact E|]. intros fu. erewrite run_PopJumpIfFalse by exact Hi. rewrite Et.
            rewrite !app_length. cbn [length]. runpos.
        + (* else *)
          cbn [compile_node] in *. apply code_at_app in Hc as [Hc1 Hc2]. apply code_at_cons in Hc2 as [Hi Hc2].
          apply code_at_app in Hc2 as [Hc2 Hc3]. apply code_at_cons in Hc3 as [Hj Hc3].
          pose proof (expr_correct c0 lex pc b stk l sv c o Hw1 Hlex Hfr Hpar Hc1) as E.
          destruct (eval B c0 (absE b l sv)) as [v|x]; [|exact E].
          replace (S (pc + length (compile_expr pc c0))) with (pc + length (compile_expr pc c0) + 1) in Hc2, Hj, Hc3 by lia.
          destruct (is_truthy v) eqn:Et.
          * eapply result_ok_wrap with (pc1 := pc + length (compile_expr pc c0) + 1) (s1 := mk b stk l sv c).
            { eapply steps_step; [exact E|]. intros fu. erewrite run_PopJumpIfFalse by exact Hi. rewrite Et. runpos. }
            { apply (Lb lex lp _ b stk l sv c o Hw2 Hpre Hc2). }
            { intros s' o'. apply step1. intros fu. erewrite run_Jump by exact Hj.
              rewrite ?app_length. cbn [length]. rewrite ?app_length. cbn [length]. runpos. }
          * match type of Hc3 with code_at (S ?x) _ => replace (S x) with (x + 1) in Hc3 by lia end.
            match type of Hc3 with code_at ?p _ =>
              eapply result_ok_wrap with (pc1 := p) (s1 := mk b stk l sv c) end.
            { eapply steps_step; [exact E|]. intros fu. erewrite run_PopJumpIfFalse by exact Hi. rewrite Et. runpos. }
            { apply (Le lex lp _ b stk l sv c o Hw3 Hpre Hc3). }
            { intros s' o'. rewrite ?app_length. cbn [length]. rewrite ?app_length. cbn [length].
              match goal with |- steps ?p _ _ ?q _ _ => replace q with p by lia end. apply steps_refl. }
      - (* SFor *)
        pose proof (list_from_stmts _ H) as Lb. pose proof (list_from_stmts _ H0) as Le. clear H H0.
        cbn [wf_stmt] in Hwf. apply andb_prop in Hwf as [Hwf Hw4]. apply andb_prop in Hwf as [Hwf Hw3].
        apply andb_prop in Hwf as [Hw1 Hw2].
        assert (Hv : v <> []) by (destruct v; [discriminate|discriminate]).
        destruct Hpre as (Hlex & Hfr & Hpar & Hlp).
        assert (Hpre : pre lex lp b l) by (repeat split; assumption).
        rewrite compile_for_eq in *. cbv zeta in *.
        set (ct := compile_expr pc t) in *.
        set (hdr := [StartIterate (is_some k); StoreLocal v] ++ match k with Some k0 => [StoreLocal k0] | None => [] end) in *.
        set (start := pc + length ct + length hdr) in *.
        set (cb := compile_seq compile_node (S start) (Some start) b0) in *.
        set (le := S start + length cb + 1) in *.
        apply code_at_app in Hc as [Hc1 Hc2]. apply code_at_app in Hc2 as [Hc2 Hc3].
        apply code_at_cons in Hc3 as [Hit Hc3]. apply code_at_app in Hc3 as [Hc3 Hc4].
        apply code_at_cons in Hc4 as [Hj Hc4].
        replace (pc + length ct + length hdr) with start in * by reflexivity.
        replace (S (S start + length cb)) with le in Hc4 by (unfold le; lia).
        assert (Hle : le <> 0) by (unfold le; lia).
        assert (Hend : pc + length (ct ++ hdr ++ [Iterate le] ++ cb ++ [Jump start] ++ for_exit le (option_map fst lp) e)
                       = le + length (for_exit le (option_map fst lp) e)).
        { rewrite !app_length. cbn [length]. unfold le, start. lia. }
        rewrite Hend.
        pose proof (expr_correct t lex pc b stk l sv c o Hw1 Hlex Hfr Hpar Hc1) as E.
        cbn [exec]. fold (exec_list B aesc inc b0). fold (exec_list B aesc inc e (absE b l sv)).
        destruct (eval B t (absE b l sv)) as [cv|x]; [|exact E].
        rewrite items_of_eq.
        (* header *)
        assert (Hhdr : forall items, iter_items cv = Some items -> is_some k && negb (is_map cv) = false ->
                  steps pc (mk b stk l sv c) o start (mk b stk (init_frame k v items :: l) sv c) o).
        { intros items Hitems Hkv. eapply steps_trans; [exact E|]. fold ct.
          unfold hdr in Hc2. cbn [app] in Hc2. apply code_at_cons in Hc2 as [Hh1 Hc2]. apply code_at_cons in Hc2 as [Hh2 Hc2].
          eapply steps_trans.
          { apply step1. intros fu. erewrite run_StartIterate by exact Hh1. rewrite Hitems, Hkv. reflexivity. }
          eapply steps_trans.
          { apply step1. intros fu. eapply run_StoreLocal. exact Hh2. }
          rewrite <- (header_frame k v items Hv). unfold start, hdr. destruct k as [k0|]; cbn [app length].
          - apply code_at_cons in Hc2 as [Hh3 _]. apply step1. intros fu.
            erewrite run_StoreLocal by exact Hh3. runpos.
          - match goal with |- steps ?p _ _ ?q _ _ => replace q with p by lia end. apply steps_refl. }
        destruct (iter_items cv) as [items|] eqn:Hitems.
        2:{ cbn [result_ok]. eapply steps_fail1; [exact E|]. intros fu. fold ct in Hc2.
            unfold hdr in Hc2. cbn [app] in Hc2. apply code_at_cons in Hc2 as [Hh1 _].
            erewrite run_StartIterate by exact Hh1. rewrite Hitems. reflexivity. }
        change (match k with Some _ => true | None => false end) with (is_some k).
        destruct (is_some k && negb (is_map cv)) eqn:Hkv.
        { cbn [result_ok]. eapply steps_fail1; [exact E|]. intros fu. fold ct in Hc2.
          unfold hdr in Hc2. cbn [app] in Hc2. apply code_at_cons in Hc2 as [Hh1 _].
          erewrite run_StartIterate by exact Hh1. rewrite Hitems, Hkv. reflexivity. }
        specialize (Hhdr items eq_refl eq_refl).
        destruct items as [|it rest].
        + (* nothing to iterate: else body *)
          eapply result_ok_wrap with (pc1 := le) (s1 := mk b stk (init_frame k v [] :: l) sv c).
          { eapply steps_step; [exact Hhdr|]. intros fu. erewrite run_Iterate by exact Hit. reflexivity. }
          { apply (exit_empty le lp e lex b stk (init_frame k v []) l sv c o eq_refl Hc4 Le Hw4 Hpre). }
          { intros s' o'. apply steps_refl. }
        + (* at least one item *)
          assert (Hcb : code_at (S start) (compile_seq compile_node (S start) (Some start) b0)) by exact Hc3.
          pose proof (for_loop_sim k v (length (it :: rest)) b0 start le b stk Lb Hle Hit Hcb Hj Hw3 Hpar
                        (it :: rest) 0 (init_frame k v (it :: rest)) l sv c o
                        (or_introl (conj eq_refl (conj eq_refl eq_refl))) ltac:(discriminate) Hfr) as L.
          destruct (exec_iter (exec_list B aesc inc b0) k v (length (it :: rest)) (it :: rest) 0 (absE b l sv))
            as [[[en1 t1] sg1]|x]; cbn [result_ok].
          * destruct L as (-> & f' & l' & sv' & -> & Hf' & Hi' & Hs'). exists l', sv'. split; [reflexivity|].
            split; [exact Hf'|]. cbn [target].
            eapply steps_trans; [exact Hhdr|]. eapply steps_trans; [exact Hs'|].
            apply exit_iterated; [exact Hi'|exact Hc4].
          * eapply steps_fails; [exact Hhdr|exact L].
      - (* SAssign *)
        cbn [compile_node wf_stmt] in *. apply code_at_app in Hc as [Hc1 Hc2]. apply code_at_cons in Hc2 as [Hi _].
        destruct Hpre as (Hlex & Hfr & Hpar & Hlp).
        pose proof (expr_correct e lex pc b stk l sv c o Hwf Hlex Hfr Hpar Hc1) as E.
        cbn [exec]. destruct (eval B e (absE b l sv)) as [v|x]; [|exact E].
        cbn [result_ok target]. rewrite out_caps_nil, out_sink_nil, app_length. cbn [length].
        destruct g.
        + exists l, (ctx_set sv n v). split; [reflexivity|]. split; [apply frames_eq_refl|].
          eapply steps_step; [exact E|]. intros fu. erewrite run_SetGlobal by exact Hi. runpos.
        + destruct l as [|fr t].
          * exists [], (ctx_set sv n v). split; [reflexivity|]. split; [constructor|].
            eapply steps_step; [exact E|]. intros fu. erewrite run_SetI by exact Hi. runpos.
          * exists (lf_store fr n v :: t), sv. split; [reflexivity|].
            split; [constructor; [exists (ctx_set (lf_context fr) n v); reflexivity|apply frames_eq_refl]|].
            eapply steps_step; [exact E|]. intros fu. erewrite run_SetI by exact Hi. runpos.
      - (* SSetBlock *)
        pose proof (list_from_stmts _ H) as Lb. clear H.
        cbn [wf_stmt] in Hwf. apply andb_prop in Hwf as [Hw1 Hw2].
        destruct Hpre as (Hlex & Hfr & Hpar & Hlp).
        cbn [compile_node] in *. rewrite (compile_seq_lp_irrel b0 lex (S pc) (option_map fst lp) Hw1) in *.
        cbn [app] in Hc. apply code_at_cons in Hc as [Hcap Hc]. apply code_at_app in Hc as [Hc1 Hc2].
        apply code_at_cons in Hc2 as [Hend Hc2]. apply code_at_app in Hc2 as [Hc2 Hc3].
        apply code_at_cons in Hc3 as [Hset _].
        assert (Hpre0 : pre lex None b l) by (repeat split; assumption).
        pose proof (Lb lex None (S pc) b stk l sv ([] :: c) o Hw1 Hpre0 Hc1) as Hb.
        cbn [exec]. fold (exec_list B aesc inc b0 (absE b l sv)).
        assert (S0 : steps pc (mk b stk l sv c) o (S pc) (mk b stk l sv ([] :: c)) o).
        { apply step1. intros fu. eapply run_Capture. exact Hcap. }
        cbn [option_map] in Hb.
        destruct (exec_list B aesc inc b0 (absE b l sv)) as [[[en1 text] sg1]|x]; cbn [result_ok] in Hb.
        2:{ cbn [result_ok]. eapply steps_fails; [exact S0|exact Hb]. }
        destruct Hb as (l1 & sv1 & -> & Hf1 & Ht1).
        destruct sg1; cbn [target] in Ht1; try contradiction.
        cbn [out_caps out_sink app] in Ht1.
        set (p1 := S pc + length (compile_seq compile_node (S pc) None b0)) in *.
        assert (S1 : steps pc (mk b stk l sv c) o (S p1) (mk b (VStr text true :: stk) l1 sv1 c) o).
        { eapply steps_trans; [exact S0|]. eapply steps_step; [exact Ht1|]. intros fu. eapply run_EndCapture. exact Hend. }
        replace (p1 + 1) with (S p1) in * by lia.
        pose proof (filters_ok fs lex (S p1) b stk l1 sv1 c o (VStr text true) Hw2
                      (fun h => frames_eq_nonempty _ _ Hf1 (Hlex h)) (frames_eq_ok _ _ Hf1 Hfr) Hpar Hc2) as F.
        destruct (apply_filters B fs (VStr text true) (absE b l1 sv1)) as [r|x]; cbn [result_ok].
        2:{ eapply steps_fails; [exact S1|exact F]. }
        cbn [target]. rewrite out_caps_nil, out_sink_nil.
        cbn [app].
        match goal with |- context [pc + length ?code] =>
          replace (pc + length code) with (S (S p1 + length (compile_filters (S p1) fs)))
            by (cbn [length]; rewrite ?app_length; cbn [length]; rewrite ?app_length; cbn [length]; unfold p1; lia)
        end.
        destruct g.
        + exists l1, (ctx_set sv1 n r). split; [reflexivity|]. split; [exact Hf1|].
          eapply steps_trans; [exact S1|]. eapply steps_step; [exact F|]. intros fu.
          eapply run_SetGlobal. exact Hset.
        + destruct l1 as [|fr t].
          * exists [], (ctx_set sv1 n r). split; [reflexivity|]. split; [exact Hf1|].
            eapply steps_trans; [exact S1|]. eapply steps_step; [exact F|]. intros fu.
            erewrite run_SetI by exact Hset. reflexivity.
          * exists (lf_store fr n r :: t), sv1. split; [reflexivity|].
            split; [eapply frames_eq_trans; [exact Hf1|];
                    constructor; [exists (ctx_set (lf_context fr) n r); reflexivity|apply frames_eq_refl]|].
            eapply steps_trans; [exact S1|]. eapply steps_step; [exact F|]. intros fu.
            erewrite run_SetI by exact Hset. reflexivity.
      - (* SFilter *)
        pose proof (list_from_stmts _ H) as Lb. clear H.
        cbn [wf_stmt] in Hwf. apply andb_prop in Hwf as [Hw2 Hw1].
        destruct Hpre as (Hlex & Hfr & Hpar & Hlp).
        cbn [compile_node] in *. rewrite (compile_seq_lp_irrel b0 lex (S pc) (option_map fst lp) Hw1) in *.
        unfold compile_kwargs in *.
        set (p1 := S pc + length (compile_seq compile_node (S pc) None b0)) in *.
        replace (p1 + 1) with (S p1) in * by lia.
        assert (Hcode : Capture :: nil ++ compile_seq compile_node (S pc) None b0 ++ [EndCapture]
                   ++ (compile_kws compile_expr (S p1) kw ++ [BuildMap (length kw)]) ++ [ApplyFilter n; WriteTop]
                 = Capture :: compile_seq compile_node (S pc) None b0 ++ EndCapture ::
                     (compile_kws compile_expr (S p1) kw ++ [BuildMap (length kw); ApplyFilter n]) ++ [WriteTop]).
        { cbn [app]. f_equal. f_equal. f_equal. rewrite <- !app_assoc. reflexivity. }
        cbn [app] in Hc, Hcode. rewrite Hcode in *. clear Hcode.
        apply code_at_cons in Hc as [Hcap Hc]. apply code_at_app in Hc as [Hc1 Hc2].
        apply code_at_cons in Hc2 as [Hend Hc2]. apply code_at_app in Hc2 as [Hc2 Hc3].
        apply code_at_cons in Hc3 as [Hwt _].
        assert (Hpre0 : pre lex None b l) by (repeat split; assumption).
        pose proof (Lb lex None (S pc) b stk l sv ([] :: c) o Hw1 Hpre0 Hc1) as Hb.
        cbn [exec]. fold (exec_list B aesc inc b0 (absE b l sv)).
        assert (S0 : steps pc (mk b stk l sv c) o (S pc) (mk b stk l sv ([] :: c)) o).
        { apply step1. intros fu. eapply run_Capture. exact Hcap. }
        cbn [option_map] in Hb.
        destruct (exec_list B aesc inc b0 (absE b l sv)) as [[[en1 text] sg1]|x]; cbn [result_ok] in Hb.
        2:{ cbn [result_ok]. eapply steps_fails; [exact S0|exact Hb]. }
        destruct Hb as (l1 & sv1 & -> & Hf1 & Ht1).
        destruct sg1; cbn [target] in Ht1; try contradiction.
        cbn [out_caps out_sink app] in Ht1. fold p1 in Ht1, Hend.
        assert (S1 : steps pc (mk b stk l sv c) o (S p1) (mk b (VStr text true :: stk) l1 sv1 c) o).
        { eapply steps_trans; [exact S0|]. eapply steps_step; [exact Ht1|]. intros fu. eapply run_EndCapture. exact Hend. }
        pose proof (filter_ok kw n (all_expr_ok kw) lex (S p1) b stk l1 sv1 c o (VStr text true) Hw2
                      (fun h => frames_eq_nonempty _ _ Hf1 (Hlex h)) (frames_eq_ok _ _ Hf1 Hfr) Hpar Hc2) as F.
        cbn [apply_filters].
        destruct (eval_kws (fun x => eval B x (absE b l1 sv1)) kw) as [kws|x]; cbn [result_ok].
        2:{ eapply steps_fails; [exact S1|exact F]. }
        destruct (apply_filter B n (VStr text true) kws) as [r|x]; cbn [result_ok].
        2:{ eapply steps_fails; [exact S1|exact F]. }
        assert (S2 : steps pc (mk b stk l sv c) o (S p1 + length (compile_kws compile_expr (S p1) kw) + 2)
                       (mk b (r :: stk) l1 sv1 c) o) by (eapply steps_trans; [exact S1|exact F]).
        assert (Hwt' : nth_error ch (S p1 + length (compile_kws compile_expr (S p1) kw) + 2) = Some WriteTop).
        { rewrite <- Hwt. f_equal. rewrite app_length. cbn [length]. unfold p1. lia. }
        unfold render_value. destruct (is_undefined r) eqn:Eu; cbn [result_ok].
        + eapply steps_fail1; [exact S2|]. intros fu. erewrite run_WriteTop by exact Hwt'. rewrite Eu. reflexivity.
        + exists l1, sv1. split; [reflexivity|]. split; [exact Hf1|]. cbn [target].
          eapply steps_step; [exact S2|]. intros fu. erewrite run_WriteTop by exact Hwt'. rewrite Eu.
          cbv zeta. cbn [length]. rewrite ?app_length. cbn [length]. rewrite ?app_length. cbn [length].
          unfold p1. runpos.
      - (* SInclude *)
        cbn [compile_node exec length] in *. apply code_at_cons in Hc as [Hi _].
        destruct Hpre as (Hlex & Hfr & Hpar & Hlp).
        cbn [wf_stmt] in Hwf. pose proof (fun o => Hinc n b l sv o Hwf) as HI.
        destruct (assoc_get (w_templates wd) n) as [t2|] eqn:Et.
        + destruct c as [|c0 ct].
          * specialize (HI o Hfr Hpar). cbv zeta in HI.
            destruct (inc n (absE b l sv)) as [text|x]; cbn [result_ok].
            -- destruct HI as (k0 & s' & Hk). exists l, sv. split; [reflexivity|]. split; [apply frames_eq_refl|].
               cbn [target out_caps out_sink]. replace (pc + 1) with (S pc) by lia.
               exists (S k0), k0. intros k. cbn [plus]. erewrite run_Include by exact Hi. rewrite Et. cbv zeta.
               rewrite Hk. reflexivity.
            -- destruct HI as (k0 & e0 & Hk). exists (S k0), e0. intros k. cbn [plus].
               erewrite run_Include by exact Hi. rewrite Et. cbv zeta. rewrite Hk. reflexivity.
          * specialize (HI (SinkBuf c0) Hfr Hpar). cbv zeta in HI.
            destruct (inc n (absE b l sv)) as [text|x]; cbn [result_ok].
            -- destruct HI as (k0 & s' & Hk). exists l, sv. split; [reflexivity|]. split; [apply frames_eq_refl|].
               cbn [target out_caps out_sink]. replace (pc + 1) with (S pc) by lia.
               exists (S k0), k0. intros k. cbn [plus]. erewrite run_Include by exact Hi. rewrite Et. cbv zeta.
               rewrite Hk. reflexivity.
            -- destruct HI as (k0 & e0 & Hk). exists (S k0), e0. intros k. cbn [plus].
               erewrite run_Include by exact Hi. rewrite Et. cbv zeta. rewrite Hk. reflexivity.
        + destruct (HI o Hfr Hpar) as [x Hx]. rewrite Hx. cbn [result_ok].
          apply (fail1 _ _ _ ErrOther). intros fu. erewrite run_Include by exact Hi. rewrite Et. reflexivity.
      - (* SBreak *)
        cbn [wf_stmt] in Hwf. destruct lp as [[ls le]|]; [|discriminate].
        cbn [compile_node exec length result_ok target] in *. apply code_at_cons in Hc as [Hi _].
        destruct Hpre as (_ & _ & _ & (fr & t & -> & He)).
        exists (fr :: t), sv. split; [reflexivity|]. split; [apply frames_eq_refl|].
        rewrite out_caps_nil, out_sink_nil. apply step1. intros fu. erewrite run_Break by exact Hi. rewrite He. reflexivity.
      - (* SContinue *)
        cbn [wf_stmt] in Hwf. destruct lp as [[ls le]|]; [|discriminate].
        cbn [compile_node exec length result_ok target option_map fst] in *. apply code_at_cons in Hc as [Hi _].
        exists l, sv. split; [reflexivity|]. split; [apply frames_eq_refl|].
        rewrite out_caps_nil, out_sink_nil. apply step1. intros fu. eapply run_Jump. exact Hi.
    Qed.

    Theorem body_correct : forall body, list_ok body.
    Proof. intros body. apply list_from_stmts. apply Forall_forall. intros s _. apply stmt_correct. Qed.


    (* captures are exact, for compiled bodies: the string a Capture ... EndCapture pair would
       collect is the text the same code appends to the enclosing sink when run uncaptured *)
    Theorem capture_is_exact_compiled : forall body lex pc b stk l sv c o,
      forallb (wf_stmt okn lex false) body = true -> pre lex None b l ->
      code_at pc (compile_seq compile_node pc None body) ->
      match exec_list B aesc inc body (absE b l sv) with
      | ROk (en1, text, SigNormal) =>
          let pe := pc + length (compile_seq compile_node pc None body) in
          (exists l' sv', en1 = absE b l' sv' /\
             steps pc (mk b stk l sv ([] :: c)) o pe (mk b stk l' sv' (text :: c)) o) /\
          (exists l' sv', en1 = absE b l' sv' /\
             steps pc (mk b stk l sv c) o pe (mk b stk l' sv' (out_caps c text)) (out_sink c o text))
      | _ => True
      end.
    Proof.
      intros body lex pc b stk l sv c o Hwf Hpre Hc.
      pose proof (body_correct body lex None pc b stk l sv ([] :: c) o Hwf Hpre Hc) as H1.
      pose proof (body_correct body lex None pc b stk l sv c o Hwf Hpre Hc) as H2.
      destruct (exec_list B aesc inc body (absE b l sv)) as [[[en1 text] sg]|x]; [|exact I].
      destruct sg; try exact I. cbn [result_ok target option_map] in *.
      destruct H1 as (l1 & sv1 & He1 & _ & S1). destruct H2 as (l2 & sv2 & He2 & _ & S2).
      split; [exists l1, sv1|exists l2, sv2]; split; assumption.
    Qed.

    (* a whole chunk: from position 0 of the compiled body to the end of the chunk *)
    Lemma chunk_correct body b (o : sink W) :
      ch = compile body -> wf_body okn body = true -> parent_ok b ->
      match render_body B aesc inc body (absE b [] []) with
      | ROk text => exists n s', forall k, R (n + k) 0 (mk b [] [] [] []) o = RDone s' (sink_add o text)
      | RErr _ => exists n e, forall k, R (n + k) 0 (mk b [] [] [] []) o = RFail e
      end.
    Proof.
      intros Hch Hwf Hpar.
      assert (Hpre : pre false None b []) by (split; [discriminate|]; split; [constructor|]; split; [exact Hpar|exact I]).
      assert (Hc : code_at 0 (compile_seq compile_node 0 (option_map fst (@None (nat * nat))) body)).
      { intros i x Hi. cbn [plus option_map]. rewrite Hch. exact Hi. }
      pose proof (body_correct body false None 0 b [] [] [] [] o Hwf Hpre Hc) as Hb.
      unfold render_body. destruct (exec_list B aesc inc body (absE b [] [])) as [[[en1 text] sg]|x];
        cbn [result_ok] in Hb; [|exact Hb].
      destruct Hb as (l' & sv' & _ & _ & Ht). destruct sg; cbn [target] in Ht; try contradiction.
      destruct Ht as (n & m & Hk). cbn [out_caps out_sink plus option_map] in Hk.
      exists (n + 1), (mk b [] l' sv' []). intros k.
      replace (n + 1 + k) with (n + (1 + k)) by lia. rewrite Hk.
      replace (m + (1 + k)) with (S (m + k)) by lia. cbn [run].
      replace (nth_error ch (length (compile_seq compile_node 0 None body))) with (@None instr); [reflexivity|].
      symmetry. apply nth_error_None. rewrite Hch. unfold compile. lia.
    Qed.




  End Tpl.

  (* ---------- template libraries ---------- *)

  Lemma str_eqb_eq (a b : str) : str_eqb a b = true -> a = b.
  Proof.
    revert b. induction a as [|x a IH]; intros [|y b] H; try discriminate; [reflexivity|].
    cbn in H. apply andb_prop in H as [H1 H2]. apply N.eqb_eq in H1. subst. f_equal. apply IH. exact H2.
  Qed.

  Fixpoint find_t (lib : list tdef) (name : str) : option tdef :=
    match lib with
    | [] => None
    | t :: rest => if str_eqb (td_name t) name then Some t else find_t rest name
    end.

  Definition has_name (lib : list tdef) (n : str) : bool :=
    match find_t lib n with Some _ => true | None => false end.

  (* every body is a parser-accepted tree whose includes name templates listed later *)
  Fixpoint lib_wf (lib : list tdef) : Prop :=
    match lib with
    | [] => True
    | t :: rest => wf_body (has_name rest) (td_body t) = true /\ lib_wf rest
    end.

  (* the world holds the compiled library *)
  Definition world_has (lib : list tdef) : Prop :=
    forall pre rest name t, lib = pre ++ rest -> find_t rest name = Some t ->
      assoc_get (w_templates wd) name = Some (compile_tdef t).

  Lemma world_has_of_map lib :
    NoDup (map td_name lib) ->
    w_templates wd = map (fun t => (td_name t, compile_tdef t)) lib -> world_has lib.
  Proof.
    intros Hnd Hw pre rest name t -> Hf. rewrite Hw. clear Hw.
    induction pre as [|p pre IH]; cbn [app map] in *.
    - induction rest as [|r rest IHr]; [discriminate|]. cbn [find_t map assoc_get] in *.
      destruct (str_eqb (td_name r) name); [congruence|]. apply IHr; [|exact Hf]. inversion Hnd; assumption.
    - inversion Hnd as [|? ? Hnin Hnd']; subst. cbn [assoc_get].
      destruct (str_eqb (td_name p) name) eqn:E; [|apply IH; exact Hnd'].
      exfalso. apply str_eqb_eq in E. apply Hnin. rewrite map_app. apply in_or_app. right.
      clear - Hf E. induction rest as [|r rest IHr]; [discriminate|]. cbn [find_t map] in *.
      destruct (str_eqb (td_name r) name) eqn:E2.
      + left. apply str_eqb_eq in E2. congruence.
      + right. apply IHr. exact Hf.
  Qed.

  Theorem template_correct : forall ae depth rest pre0 lib,
    lib = pre0 ++ rest -> world_has lib -> lib_wf rest ->
    forall name t b (o : sink W), find_t rest name = Some t -> parent_ok b ->
      match template_sem B ae rest name (absE b [] []) with
      | ROk text => exists n s', forall k,
          run W wr wd (n + k) (compile_tdef t) ae depth (compile (td_body t)) 0 (mk b [] [] [] []) o
          = RDone s' (sink_add o text)
      | RErr _ => exists n e, forall k,
          run W wr wd (n + k) (compile_tdef t) ae depth (compile (td_body t)) 0 (mk b [] [] [] []) o = RFail e
      end.
  Proof.
    intros ae depth rest. induction rest as [|t0 rest IH]; intros pre0 lib Hlib Hworld Hwf name t b o Hf Hpar.
    - discriminate.
    - cbn [find_t template_sem] in *. destruct Hwf as [Hwf0 Hwfr].
      assert (Hlib' : lib = (pre0 ++ [t0]) ++ rest) by (rewrite <- app_assoc; exact Hlib).
      destruct (str_eqb (td_name t0) name) eqn:En.
      + inversion Hf; subst t.
        apply (chunk_correct (compile_tdef t0) ae depth (compile (td_body t0))
                 (fun n includer => template_sem B ae rest n (included_env includer)) (has_name rest));
          [|reflexivity|exact Hwf0|exact Hpar].
        (* the includes of this template *)
        intros n b' l sv o' Hok Hfr Hpar'. unfold has_name in Hok.
        destruct (find_t rest n) as [t'|] eqn:Ef; [|discriminate].
        rewrite (Hworld _ _ _ _ Hlib' Ef). cbv zeta.
        assert (Hp : parent_ok (inc_state (Scope l sv (parent b') (context b') (global b')) (context b'))).
        { cbn. split; assumption. }
        exact (IH _ _ Hlib' Hworld Hwfr n t' (inc_state (Scope l sv (parent b') (context b') (global b')) (context b')) o' Ef Hp).
      + exact (IH _ _ Hlib' Hworld Hwfr name t b o Hf Hpar).
  Qed.

  (* MAIN THEOREM.  For every template library (statement trees of any nesting: if/elif/else, for
     with else over arrays, strings and maps, break/continue, set/set_global, set blocks, filter
     sections, includes), every context and global context: rendering the compiled library on
     the VM model produces exactly the text of the reference interpreter, or both fail; "enough
     fuel" is any fuel >= n. *)
  Theorem compile_correct : forall lib name t (cx glob : ctx) (w : W),
    world_has lib -> lib_wf lib -> find_t lib name = Some t ->
    match render B None lib name cx glob with
    | ROk text => exists n s', forall k,
        render_to W wr wd (n + k) (compile_tdef t) None cx glob w = RDone s' (SinkTop (wapp w text))
    | RErr _ => exists n e, forall k,
        render_to W wr wd (n + k) (compile_tdef t) None cx glob w = RFail e
    end.
  Proof.
    intros lib name t cx glob w Hworld Hwf Hf.
    set (s0 := {| stack := []; loops := []; setvars := []; caps := []; blocks := []; cur_block := None;
                  parent := None; context := cx; global := Some glob; capture_block := None;
                  block_buffer := [] |}).
    exact (template_correct None 0 lib [] lib eq_refl Hworld Hwf name t s0 (SinkTop w) Hf I).
  Qed.

  (* ---------- run-level facts on Model/VM.v (any chunk, not only compiled ones) ---------- *)

  (* Include: whatever the included chunk does to ITS state is dropped; the includer continues
     from its own state, changed only by the text appended to its current sink (the innermost
     capture buffer, else the output) *)
  Theorem include_state_is_fresh : forall f tpl ae depth ch pc s (o : sink W) name t2,
    nth_error ch pc = Some (Include name) -> assoc_get (w_templates wd) name = Some t2 ->
    run W wr wd (S f) tpl ae depth ch pc s o
    = match caps s with
      | [] => match run W wr wd f t2 ae depth (t_root_chunk t2) 0 (inc_state (scope_of s) (context s)) o with
              | RDone _ o1 => run W wr wd f tpl ae depth ch (S pc) s o1
              | RFail e => RFail e
              | ROutOfFuel => ROutOfFuel
              end
      | c :: ct => match run W wr wd f t2 ae depth (t_root_chunk t2) 0 (inc_state (scope_of s) (context s)) (SinkBuf c) with
                   | RDone _ (SinkBuf c1) => run W wr wd f tpl ae depth ch (S pc) (upd_caps s (c1 :: ct)) o
                   | RDone _ (SinkTop _) => RFail ErrPanic
                   | RFail e => RFail e
                   | ROutOfFuel => ROutOfFuel
                   end
      end.
  Proof.
    intros f tpl ae depth ch pc s o name t2 Hi Ht. cbn [run]. rewrite Hi, Ht. destruct (caps s); reflexivity.
  Qed.

  (* the included template starts with no loops, assignments, captures or stack of its own *)
  Lemma inc_state_fresh sc cx :
    stack (inc_state sc cx) = [] /\ loops (inc_state sc cx) = [] /\ setvars (inc_state sc cx) = []
    /\ caps (inc_state sc cx) = [] /\ parent (inc_state sc cx) = Some sc.
  Proof. repeat split. Qed.

  (* a render starts from nothing but the context and the global context: no assignment of an
     earlier render can be visible (the state is built afresh; it is not an argument) *)
  Definition fresh_state (cx glob : ctx) : state :=
    {| stack := []; loops := []; setvars := []; caps := []; blocks := []; cur_block := None;
       parent := None; context := cx; global := Some glob; capture_block := None; block_buffer := [] |}.

  Theorem nothing_survives_render : forall fuel tpl cx glob (w : W),
    render_to W wr wd fuel tpl None cx glob w
    = run W wr wd fuel tpl None 0 (t_root_chunk tpl) 0 (fresh_state cx glob) (SinkTop w)
    /\ forall n, get_value (fresh_state cx glob) n
                 = match ctx_get cx n with
                   | Some v => v
                   | None => match ctx_get glob n with Some v => v | None => VUndef end
                   end.
  Proof. intros. split; reflexivity. Qed.
End Sim.


(* the instance the correspondence runs *)
Theorem compile_correct_world0 :
  forall (lib : list tdef) (name : str) (t : tdef) (cx glob : ctx) (w : str),
    NoDup (map td_name lib) -> lib_wf lib -> find_t lib name = Some t ->
    let wd := world0 (map (fun t => (td_name t, compile_tdef t)) lib) in
    match render (builtins_of_world wd) None lib name cx glob with
    | ROk text => exists n s', forall k,
        render_to str wr_str wd (n + k) (compile_tdef t) None cx glob w = RDone s' (SinkTop (w ++ text))
    | RErr _ => exists n e, forall k,
        render_to str wr_str wd (n + k) (compile_tdef t) None cx glob w = RFail e
    end.
Proof.
  intros lib name t cx glob w Hnd Hwf Hf wd.
  apply (compile_correct str wr_str (@app N) (fun _ _ => eq_refl) (fun w a b => eq_sym (app_assoc w a b))
           (@app_nil_r N) wd (fun _ => eq_refl) (fun _ _ _ _ _ => eq_refl) (fun _ _ _ _ => eq_refl) lib name t cx glob w);
    [|exact Hwf|exact Hf].
  apply world_has_of_map; [exact Hnd|reflexivity].
Qed.
