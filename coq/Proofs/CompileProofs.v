(* C03: the compiler port (Model/Compile.v) is correct with respect to the reference interpreter
   (Spec/Stmt.v) on the concrete VM model (Model/VM.v): compile_correct.

   Method: "code at position pc" invariant + exact fuel accounting.
     steps pc s o pc' s' o'  :=  exists n m, forall k, run (n+k) .. pc s o = run (m+k) .. pc' s' o'
   is reflexive and transitive, so straight-line segments compose without a fuel-monotonicity
   lemma over the 56 instructions.  Statements are proved by induction on the statement tree
   (a nested induction on the item list for `for`), expressions by induction on the expression;
   a library of templates by induction on the library list. *)
From TeraV Require Import Model.Value Model.Instr Model.VFormat Model.VM Spec.Stmt Model.Compile Gen.Tables.
Local Open Scope nat_scope.

(* ---------- small facts ---------- *)

Lemma lookup_ctx_get c n : lookup c n = ctx_get c n.
Proof. induction c as [|[k v] t IH]; [reflexivity|]. cbn. destruct (str_eqb k n); [reflexivity|exact IH]. Qed.

Lemma mark_safe_value_eq v : mark_safe_value v = mark_safe v.
Proof. destruct v; reflexivity. Qed.

Lemma prints_raw_eq v : prints_raw v = value_is_safe v.
Proof. destruct v; reflexivity. Qed.

Lemma items_of_eq v : items_of v = iter_items v.
Proof. destruct v; reflexivity. Qed.

(* induction principles with the nested lists *)
Section ExprInd.
  Variable P : expr -> Prop.
  Hypothesis Hc : forall v, P (EConst v).
  Hypothesis Hv : forall n, P (EVar n).
  Hypothesis Hl : forall f, P (ELoop f).
  Hypothesis Ha : forall e a, P e -> P (EAttr e a).
  Hypothesis Hn : forall e, P e -> P (ENot e).
  Hypothesis Hand : forall a b, P a -> P b -> P (EAnd a b).
  Hypothesis Hor : forall a b, P a -> P b -> P (EOr a b).
  Hypothesis Heq : forall a b, P a -> P b -> P (EEq a b).
  Hypothesis Ht : forall e n, P e -> P (ETest e n).
  Hypothesis Hf : forall e n kw, P e -> Forall (fun ke => P (snd ke)) kw -> P (EFilter e n kw).
  Fixpoint expr_ind' (e : expr) : P e :=
    match e with
    | EConst v => Hc v
    | EVar n => Hv n
    | ELoop f => Hl f
    | EAttr e a => Ha e a (expr_ind' e)
    | ENot e => Hn e (expr_ind' e)
    | EAnd a b => Hand a b (expr_ind' a) (expr_ind' b)
    | EOr a b => Hor a b (expr_ind' a) (expr_ind' b)
    | EEq a b => Heq a b (expr_ind' a) (expr_ind' b)
    | ETest e n => Ht e n (expr_ind' e)
    | EFilter e n kw =>
        Hf e n kw (expr_ind' e)
           ((fix go (l : list (str * expr)) : Forall (fun ke => P (snd ke)) l :=
               match l with
               | [] => Forall_nil _
               | ke :: t => Forall_cons ke (expr_ind' (snd ke)) (go t)
               end) kw)
    end.
End ExprInd.

Section StmtInd.
  Variable P : stmt -> Prop.
  Hypothesis Htext : forall t, P (SText t).
  Hypothesis Hprint : forall e, P (SPrint e).
  Hypothesis Hif : forall c b e, Forall P b -> Forall P e -> P (SIf c b e).
  Hypothesis Hfor : forall k v t b e, Forall P b -> Forall P e -> P (SFor k v t b e).
  Hypothesis Hassign : forall g n e, P (SAssign g n e).
  Hypothesis Hsetb : forall g n b fs, Forall P b -> P (SSetBlock g n b fs).
  Hypothesis Hfilt : forall n kw b, Forall P b -> P (SFilter n kw b).
  Hypothesis Hinc : forall n, P (SInclude n).
  Hypothesis Hbrk : P SBreak.
  Hypothesis Hcont : P SContinue.
  Fixpoint stmt_ind' (s : stmt) : P s :=
    let go := fix go (l : list stmt) : Forall P l :=
                match l with
                | [] => Forall_nil _
                | x :: t => Forall_cons x (stmt_ind' x) (go t)
                end in
    match s with
    | SText t => Htext t
    | SPrint e => Hprint e
    | SIf c b e => Hif c b e (go b) (go e)
    | SFor k v t b e => Hfor k v t b e (go b) (go e)
    | SAssign g n e => Hassign g n e
    | SSetBlock g n b fs => Hsetb g n b fs (go b)
    | SFilter n kw b => Hfilt n kw b (go b)
    | SInclude n => Hinc n
    | SBreak => Hbrk
    | SContinue => Hcont
    end.
End StmtInd.

(* ---------- abstraction: what the reference interpreter sees of a VM state ---------- *)

Definition abs_frame (f : loop_frame) : loop_scope :=
  {| ls_key_name := lf_key_name f; ls_val_name := lf_value_name f; ls_item := lf_current f;
     ls_index0 := lf_index0 f; ls_length := lf_length f; ls_locals := lf_context f |}.

Fixpoint abs_scope (sc : scope) : env :=
  match sc with
  | Scope l sv p c g =>
      Env (map abs_frame l) sv
          (match p with Some p' => Some (abs_scope p') | None => None end)
          c (match g with Some g' => g' | None => [] end)
  end.

(* the derived fields of a frame agree with its counters; not a comprehension *)
Definition frame_ok (f : loop_frame) : Prop :=
  lf_first f = Nat.eqb (lf_index0 f) 0 /\ lf_last f = Nat.eqb (S (lf_index0 f)) (lf_length f)
  /\ lf_is_comp f = false.

Fixpoint scope_ok (sc : scope) : Prop :=
  match sc with
  | Scope l _ p _ _ => Forall frame_ok l /\ match p with Some p' => scope_ok p' | None => True end
  end.

Definition lf_set_ctx (f : loop_frame) (c : ctx) : loop_frame :=
  {| lf_rest := lf_rest f; lf_index0 := lf_index0 f; lf_first := lf_first f; lf_last := lf_last f;
     lf_length := lf_length f; lf_end_ip := lf_end_ip f; lf_context := c;
     lf_value_name := lf_value_name f; lf_key_name := lf_key_name f; lf_current := lf_current f;
     lf_iterated := lf_iterated f; lf_is_comp := lf_is_comp f |}.

(* same frames up to the per-iteration assignments *)
Definition frames_eq (l l' : list loop_frame) : Prop :=
  Forall2 (fun f f' => exists c, f' = lf_set_ctx f c) l l'.

Lemma frames_eq_refl l : frames_eq l l.
Proof.
  induction l as [|f t IH]; constructor; [|exact IH]. exists (lf_context f). destruct f; reflexivity.
Qed.

Lemma frames_eq_trans a b c : frames_eq a b -> frames_eq b c -> frames_eq a c.
Proof.
  intros H. revert c. induction H as [|f f' t t' [c1 ->] _ IH]; intros c Hc; inversion Hc; subst; constructor.
  - destruct H1 as [c2 ->]. exists c2. reflexivity.
  - apply IH. assumption.
Qed.

Lemma frames_eq_ok l l' : frames_eq l l' -> Forall frame_ok l -> Forall frame_ok l'.
Proof.
  induction 1 as [|f f' t t' [c ->] _ IH]; intros Hf; [constructor|]. inversion Hf; subst.
  constructor; [|apply IH; assumption]. exact H1.
Qed.

Lemma frames_eq_nonempty l l' : frames_eq l l' -> l <> [] -> l' <> [].
Proof. intros H Hn. destruct H; [congruence|discriminate]. Qed.

Lemma ordinary_name_spec n : ordinary_name n = true ->
  str_eqb n magical_dump_var = false /\ str_eqb n s_loop_index = false /\ str_eqb n s_loop_index0 = false
  /\ str_eqb n s_loop_first = false /\ str_eqb n s_loop_last = false /\ str_eqb n s_loop_length = false.
Proof.
  unfold ordinary_name. intros H.
  repeat (apply andb_prop in H; destruct H as [H ?]).
  repeat match goal with X : negb _ = true |- _ => apply negb_true_iff in X end. auto 10.
Qed.

Lemma loop_lookup_abs f n : ordinary_name n = true -> lf_is_comp f = false ->
  loop_lookup (abs_frame f) n = lf_get f n.
Proof.
  intros Ho Hc. destruct (ordinary_name_spec n Ho) as (_ & H1 & H2 & H3 & H4 & H5).
  unfold loop_lookup, lf_get, abs_frame. cbn [ls_locals ls_val_name ls_key_name ls_item].
  rewrite Hc, H1, H2, H3, H4, H5, lookup_ctx_get. reflexivity.
Qed.

Lemma loops_lookup_abs l n : ordinary_name n = true -> Forall frame_ok l ->
  loops_lookup (map abs_frame l) n = loops_get l n.
Proof.
  intros Ho Hf. induction Hf as [|f t (_ & _ & Hc) _ IH]; [reflexivity|]. cbn [map loops_lookup loops_get].
  rewrite loop_lookup_abs by assumption. destruct (lf_get f n); [reflexivity|exact IH].
Qed.

Lemma env_lookup_abs : forall sc n, ordinary_name n = true -> scope_ok sc ->
  env_lookup (abs_scope sc) n = scope_get sc n.
Proof.
  fix IH 1. intros [l sv p c g] n Ho [Hl Hp]. cbn [abs_scope env_lookup scope_get].
  rewrite loops_lookup_abs by assumption. destruct (loops_get l n); [reflexivity|].
  rewrite lookup_ctx_get. destruct (ctx_get sv n); [reflexivity|].
  assert (Hpar : match (match p with Some p' => Some (abs_scope p') | None => None end) with
                 | Some q => env_lookup q n | None => VUndef end
                 = match p with Some p' => scope_get p' n | None => VUndef end).
  { destruct p as [p'|]; [apply IH; assumption|reflexivity]. }
  rewrite Hpar. destruct (negb (is_undefined match p with Some p' => scope_get p' n | None => VUndef end)); [reflexivity|].
  rewrite lookup_ctx_get. destruct (ctx_get c n); [reflexivity|].
  destruct g as [g'|]; [rewrite lookup_ctx_get; reflexivity|reflexivity].
Qed.

(* ---------- the simulation ---------- *)

Section Sim.
  Variable W : Type.
  Variable wr : W -> str -> option W.
  Variable wapp : W -> str -> W.
  (* the top-level writer does not fail and appends (C18 treats failing writers) *)
  Hypothesis wr_ok : forall w t, wr w t = Some (wapp w t).
  Hypothesis wapp_app : forall w a b, wapp (wapp w a) b = wapp w (a ++ b).
  Hypothesis wapp_nil : forall w, wapp w [] = w.
  Variable wd : world.
  (* kwargs names are string keys; filters do not look at the VM state *)
  Hypothesis H_key : forall k, w_as_key wd (VStr k false) = Some (KStr k true).
  Hypothesis H_fscope : forall n v k sc sc', w_filter wd n v k sc = w_filter wd n v k sc'.

  Let B := builtins_of_world wd.

  Definition sink_add (o : sink W) (t : str) : sink W :=
    match o with SinkTop w => SinkTop (wapp w t) | SinkBuf b => SinkBuf (b ++ t) end.

  Lemma sink_write_ok o t : sink_write W wr o t = Some (sink_add o t).
  Proof. destruct o; cbn; [rewrite wr_ok|]; reflexivity. Qed.
  Lemma sink_add_app o a b : sink_add (sink_add o a) b = sink_add o (a ++ b).
  Proof. destruct o; cbn; [rewrite wapp_app|rewrite <- app_assoc]; reflexivity. Qed.
  Lemma sink_add_nil o : sink_add o [] = o.
  Proof. destruct o; cbn; [rewrite wapp_nil|rewrite app_nil_r]; reflexivity. Qed.

  (* where `text` written by the program ends up: the innermost capture buffer, else the sink *)
  Definition out_caps (c : list str) (t : str) : list str :=
    match c with x :: r => (x ++ t) :: r | [] => [] end.
  Definition out_sink (c : list str) (o : sink W) (t : str) : sink W :=
    match c with _ :: _ => o | [] => sink_add o t end.

  Lemma out_caps_app c a b : out_caps (out_caps c a) b = out_caps c (a ++ b).
  Proof. destruct c; cbn; [|rewrite <- app_assoc]; reflexivity. Qed.
  Lemma out_sink_app c o a b : out_sink (out_caps c a) (out_sink c o a) b = out_sink c o (a ++ b).
  Proof. destruct c; cbn; [apply sink_add_app|reflexivity]. Qed.
  Lemma out_caps_nil c : out_caps c [] = c.
  Proof. destruct c; cbn; [|rewrite app_nil_r]; reflexivity. Qed.
  Lemma out_sink_nil c o : out_sink c o [] = o.
  Proof. destruct c; cbn; [apply sink_add_nil|reflexivity]. Qed.

  (* a VM state as a base (the fields a template body never changes) + the four that change *)
  Definition mk (b : state) (stk : list value) (l : list loop_frame) (sv : ctx) (c : list str) : state :=
    {| stack := stk; loops := l; setvars := sv; caps := c; blocks := blocks b; cur_block := cur_block b;
       parent := parent b; context := context b; global := global b;
       capture_block := capture_block b; block_buffer := block_buffer b |}.

  Lemma mk_id s : mk s (stack s) (loops s) (setvars s) (caps s) = s.
  Proof. destruct s; reflexivity. Qed.

  Definition absE (b : state) (l : list loop_frame) (sv : ctx) : env :=
    abs_scope (Scope l sv (parent b) (context b) (global b)).

  Definition parent_ok (b : state) : Prop :=
    match parent b with Some p => scope_ok p | None => True end.

  Lemma emit_mk b stk l sv c o t :
    emit W wr (mk b stk l sv c) o t = Some (mk b stk l sv (out_caps c t), out_sink c o t).
  Proof. unfold emit. destruct c as [|x r]; cbn; [rewrite sink_write_ok|]; reflexivity. Qed.

  (* the state an include starts from (interpreter.rs render_include) *)
  Definition inc_state (sc : scope) (cx : ctx) : state :=
    {| stack := []; loops := []; setvars := []; caps := []; blocks := []; cur_block := None;
       parent := Some sc; context := cx; global := None; capture_block := None; block_buffer := [] |}.

  Section Tpl.
    Variables (tpl : template) (ae : option bool) (depth : nat) (ch : list instr).
    Variable inc : str -> env -> res str.

    Notation R := (fun f pc s o => run W wr wd f tpl ae depth ch pc s o).
    Definition aesc : bool := match ae with Some x => x | None => t_autoescape tpl end.

    Definition steps pc s o pc' s' o' : Prop :=
      exists n m, forall k, R (n + k) pc s o = R (m + k) pc' s' o'.
    Definition fails pc s o : Prop :=
      exists n e, forall k, R (n + k) pc s o = RFail e.

    Lemma steps_refl pc s o : steps pc s o pc s o.
    Proof. exists 0, 0. reflexivity. Qed.

    Lemma steps_trans pc s o pc1 s1 o1 pc2 s2 o2 :
      steps pc s o pc1 s1 o1 -> steps pc1 s1 o1 pc2 s2 o2 -> steps pc s o pc2 s2 o2.
    Proof.
      intros (n1 & m1 & H1) (n2 & m2 & H2). exists (n1 + n2), (m1 + m2). intros k.
      replace (n1 + n2 + k) with (n1 + (n2 + k)) by lia. rewrite H1.
      replace (m1 + (n2 + k)) with (n2 + (m1 + k)) by lia. rewrite H2.
      replace (m2 + (m1 + k)) with (m1 + m2 + k) by lia. reflexivity.
    Qed.

    Lemma steps_fails pc s o pc1 s1 o1 : steps pc s o pc1 s1 o1 -> fails pc1 s1 o1 -> fails pc s o.
    Proof.
      intros (n1 & m1 & H1) (n2 & e & H2). exists (n1 + n2), e. intros k.
      replace (n1 + n2 + k) with (n1 + (n2 + k)) by lia. rewrite H1.
      replace (m1 + (n2 + k)) with (n2 + (m1 + k)) by lia. apply H2.
    Qed.

    Lemma step1 pc s o pc' s' o' : (forall f, R (S f) pc s o = R f pc' s' o') -> steps pc s o pc' s' o'.
    Proof. intros H. exists 1, 0. intros k. apply H. Qed.
    Lemma fail1 pc s o e : (forall f, R (S f) pc s o = RFail e) -> fails pc s o.
    Proof. intros H. exists 1, e. intros k. apply H. Qed.

    (* ----- code placement ----- *)
    Definition code_at (pc : nat) (code : list instr) : Prop :=
      forall i x, nth_error code i = Some x -> nth_error ch (pc + i) = Some x.

    Lemma code_at_app pc a b : code_at pc (a ++ b) -> code_at pc a /\ code_at (pc + length a) b.
    Proof.
      intros H. split; intros i x Hi.
      - apply H. rewrite nth_error_app1; [exact Hi|]. apply nth_error_Some. congruence.
      - replace (pc + length a + i) with (pc + (length a + i)) by lia. apply H.
        rewrite nth_error_app2 by lia. replace (length a + i - length a) with i by lia. exact Hi.
    Qed.

    Lemma code_at_cons pc x r : code_at pc (x :: r) -> nth_error ch pc = Some x /\ code_at (S pc) r.
    Proof.
      intros H. split.
      - replace pc with (pc + 0) by lia. apply H. reflexivity.
      - intros i y Hi. replace (S pc + i) with (pc + S i) by lia. apply H. exact Hi.
    Qed.

    (* ----- one-instruction lemmas (run unfolded once on a known instruction) ----- *)
    Ltac run1 H := intros; cbn [run]; rewrite H; reflexivity.
    (* close `run .. p s o = run .. q s o` / `steps .. p ..` goals whose positions are equal by arithmetic *)
    Ltac stepspos H :=
      match goal with
      | |- steps _ _ _ ?p _ _ =>
          match type of H with steps _ _ _ ?q _ _ => replace p with q by lia; exact H end
      end.
    Ltac runpos :=
      match goal with
      | |- run _ _ _ _ _ _ _ _ ?p _ _ = run _ _ _ _ _ _ _ _ ?q _ _ => replace p with q by lia; reflexivity
      end.

    Lemma run_LoadConst f pc b stk l sv c o v : nth_error ch pc = Some (LoadConst v) ->
      R (S f) pc (mk b stk l sv c) o = R f (S pc) (mk b (v :: stk) l sv c) o.
    Proof. intros H. run1 H. Qed.

    Lemma run_LoadName f pc b stk l sv c o n : nth_error ch pc = Some (LoadName n) ->
      R (S f) pc (mk b stk l sv c) o
      = R f (S pc) (mk b (load_name_v (mk b stk l sv c) n :: stk) l sv c) o.
    Proof. intros H. run1 H. Qed.

    Lemma run_LoadAttr f pc b stk l sv c o v a : nth_error ch pc = Some (LoadAttr a) ->
      R (S f) pc (mk b (v :: stk) l sv c) o
      = if is_undefined v then RFail ErrRender
        else R f (S pc) (mk b ((match w_get_attr wd v a with Some x => x | None => VUndef end) :: stk) l sv c) o.
    Proof. intros H. cbn [run]. rewrite H. cbn [pop1 stack mk andb]. destruct (is_undefined v); reflexivity. Qed.

    Lemma run_Not f pc b stk l sv c o v : nth_error ch pc = Some Not ->
      R (S f) pc (mk b (v :: stk) l sv c) o = R f (S pc) (mk b (VBool (negb (is_truthy v)) :: stk) l sv c) o.
    Proof. intros H. run1 H. Qed.

    Lemma run_Equal f pc b stk l sv c o x y : nth_error ch pc = Some Equal ->
      R (S f) pc (mk b (y :: x :: stk) l sv c) o = R f (S pc) (mk b (VBool (w_eq wd x y) :: stk) l sv c) o.
    Proof. intros H. run1 H. Qed.

    Lemma run_JumpIfFalseOrPop f pc b stk l sv c o v t : nth_error ch pc = Some (JumpIfFalseOrPop t) ->
      R (S f) pc (mk b (v :: stk) l sv c) o
      = if is_truthy v then R f (S pc) (mk b stk l sv c) o else R f t (mk b (v :: stk) l sv c) o.
    Proof. intros H. cbn [run]. rewrite H. cbn [pop1 stack mk]. destruct (is_truthy v); reflexivity. Qed.

    Lemma run_JumpIfTrueOrPop f pc b stk l sv c o v t : nth_error ch pc = Some (JumpIfTrueOrPop t) ->
      R (S f) pc (mk b (v :: stk) l sv c) o
      = if is_truthy v then R f t (mk b (v :: stk) l sv c) o else R f (S pc) (mk b stk l sv c) o.
    Proof. intros H. cbn [run]. rewrite H. cbn [pop1 stack mk]. destruct (is_truthy v); reflexivity. Qed.

    Lemma run_PopJumpIfFalse f pc b stk l sv c o v t : nth_error ch pc = Some (PopJumpIfFalse t) ->
      R (S f) pc (mk b (v :: stk) l sv c) o
      = if is_truthy v then R f (S pc) (mk b stk l sv c) o else R f t (mk b stk l sv c) o.
    Proof. intros H. cbn [run]. rewrite H. cbn [pop1 stack mk]. destruct (is_truthy v); reflexivity. Qed.

    Lemma run_Jump f pc s o t : nth_error ch pc = Some (Jump t) -> R (S f) pc s o = R f t s o.
    Proof. intros H. run1 H. Qed.

    Lemma run_WriteText f pc b stk l sv c o t : nth_error ch pc = Some (WriteText t) ->
      R (S f) pc (mk b stk l sv c) o = R f (S pc) (mk b stk l sv (out_caps c t)) (out_sink c o t).
    Proof. intros H. cbn [run]. rewrite H, emit_mk. reflexivity. Qed.

    Lemma run_WriteTop f pc b stk l sv c o v : nth_error ch pc = Some WriteTop ->
      R (S f) pc (mk b (v :: stk) l sv c) o
      = if is_undefined v then RFail ErrRender
        else let t := if negb aesc || value_is_safe v then w_format wd v else w_escape wd (w_format wd v) in
             R f (S pc) (mk b stk l sv (out_caps c t)) (out_sink c o t).
    Proof.
      intros H. cbn [run]. rewrite H. cbn [pop1 stack mk]. destruct (is_undefined v); [reflexivity|].
      unfold write_value. fold aesc.
      change (upd_stack (mk b (v :: stk) l sv c) stk) with (mk b stk l sv c).
      destruct (negb aesc || value_is_safe v); rewrite emit_mk; reflexivity.
    Qed.

    Lemma run_SetI f pc b stk l sv c o v n : nth_error ch pc = Some (SetI n) ->
      R (S f) pc (mk b (v :: stk) l sv c) o
      = match l with
        | fr :: t => R f (S pc) (mk b stk (lf_store fr n v :: t) sv c) o
        | [] => R f (S pc) (mk b stk [] (ctx_set sv n v) c) o
        end.
    Proof. intros H. cbn [run]. rewrite H. destruct l; reflexivity. Qed.

    Lemma run_SetGlobal f pc b stk l sv c o v n : nth_error ch pc = Some (SetGlobal n) ->
      R (S f) pc (mk b (v :: stk) l sv c) o = R f (S pc) (mk b stk l (ctx_set sv n v) c) o.
    Proof. intros H. run1 H. Qed.

    Lemma run_Capture f pc b stk l sv c o : nth_error ch pc = Some Capture ->
      R (S f) pc (mk b stk l sv c) o = R f (S pc) (mk b stk l sv ([] :: c)) o.
    Proof. intros H. run1 H. Qed.

    Lemma run_EndCapture f pc b stk l sv c o x : nth_error ch pc = Some EndCapture ->
      R (S f) pc (mk b stk l sv (x :: c)) o = R f (S pc) (mk b (VStr x true :: stk) l sv c) o.
    Proof. intros H. run1 H. Qed.

    Lemma run_StartIterate f pc b stk l sv c o v kv : nth_error ch pc = Some (StartIterate kv) ->
      R (S f) pc (mk b (v :: stk) l sv c) o
      = match iter_items v with
        | None => RFail ErrRender
        | Some items => if kv && negb (is_map v) then RFail ErrRender
                        else R f (S pc) (mk b stk (new_loop items false :: l) sv c) o
        end.
    Proof.
      intros H. cbn [run]. rewrite H. cbn [pop1 stack mk]. destruct (iter_items v); [|reflexivity].
      destruct (kv && negb (is_map v)); reflexivity.
    Qed.

    Lemma run_StoreLocal f pc b stk l sv c o fr n : nth_error ch pc = Some (StoreLocal n) ->
      R (S f) pc (mk b stk (fr :: l) sv c) o = R f (S pc) (mk b stk (lf_store_local fr n :: l) sv c) o.
    Proof. intros H. run1 H. Qed.

    Lemma run_Iterate f pc b stk l sv c o fr e : nth_error ch pc = Some (Iterate e) ->
      R (S f) pc (mk b stk (fr :: l) sv c) o
      = match lf_rest fr with
        | [] => R f e (mk b stk (fr :: l) sv c) o
        | _ => R f (S pc) (mk b stk (lf_advance fr e :: l) sv c) o
        end.
    Proof. intros H. cbn [run]. rewrite H. cbn [loops mk]. destruct (lf_rest fr); reflexivity. Qed.

    Lemma run_StoreDidNotIterate f pc b stk l sv c o fr : nth_error ch pc = Some StoreDidNotIterate ->
      R (S f) pc (mk b stk (fr :: l) sv c) o
      = R f (S pc) (mk b (VBool (negb (lf_iterated fr)) :: stk) (fr :: l) sv c) o.
    Proof. intros H. run1 H. Qed.

    Lemma run_PopLoop f pc b stk l sv c o fr : nth_error ch pc = Some PopLoop ->
      R (S f) pc (mk b stk (fr :: l) sv c) o = R f (S pc) (mk b stk l sv c) o.
    Proof. intros H. run1 H. Qed.

    Lemma run_Break f pc b stk l sv c o fr : nth_error ch pc = Some Break ->
      R (S f) pc (mk b stk (fr :: l) sv c) o = R f (lf_end_ip fr) (mk b stk (fr :: l) sv c) o.
    Proof. intros H. run1 H. Qed.

    Lemma run_RunTest f pc b stk l sv c o v n : nth_error ch pc = Some (RunTest n) ->
      R (S f) pc (mk b (VMap [] :: v :: stk) l sv c) o
      = match w_test wd n v [] with
        | None => RFail ErrPanic
        | Some (ROk r) => R f (S pc) (mk b (VBool r :: stk) l sv c) o
        | Some (RErr _) => RFail ErrRender
        end.
    Proof.
      intros H. cbn [run]. rewrite H. cbn [pop2 stack mk kwargs_of].
      destruct (w_test wd n v []) as [[r|e]|]; reflexivity.
    Qed.

    Lemma run_ApplyFilter f pc b stk l sv c o v m n : nth_error ch pc = Some (ApplyFilter n) ->
      R (S f) pc (mk b (VMap m :: v :: stk) l sv c) o
      = match w_filter wd n v m no_scope with
        | None => RFail ErrPanic
        | Some (ROk r, safe) => R f (S pc) (mk b ((if safe then mark_safe r else r) :: stk) l sv c) o
        | Some (RErr _, _) => RFail ErrRender
        end.
    Proof.
      intros H. cbn [run]. rewrite H. cbn [pop2 stack mk kwargs_of].
      rewrite (H_fscope n v m _ no_scope).
      destruct (w_filter wd n v m no_scope) as [[[r|e] safe]|]; reflexivity.
    Qed.

    Lemma run_BuildMap f pc b stk l sv c o n items rest pairs : nth_error ch pc = Some (BuildMap n) ->
      pop_n (2 * n) stk [] = Some (items, rest) -> build_map_pairs wd items = ROk pairs ->
      R (S f) pc (mk b stk l sv c) o = R f (S pc) (mk b (VMap (map_of_pairs wd pairs) :: rest) l sv c) o.
    Proof. intros H Hp Hb. cbn [run]. rewrite H. cbn [stack mk]. rewrite Hp, Hb. reflexivity. Qed.

    Lemma steps_step pc s o pc1 s1 o1 pc2 s2 o2 :
      steps pc s o pc1 s1 o1 -> (forall f, R (S f) pc1 s1 o1 = R f pc2 s2 o2) -> steps pc s o pc2 s2 o2.
    Proof. intros H1 H2. eapply steps_trans; [exact H1|apply step1; exact H2]. Qed.
    Lemma steps_fail1 pc s o pc1 s1 o1 e :
      steps pc s o pc1 s1 o1 -> (forall f, R (S f) pc1 s1 o1 = RFail e) -> fails pc s o.
    Proof. intros H1 H2. eapply steps_fails; [exact H1|apply (fail1 _ _ _ e); exact H2]. Qed.

    (* ----- unfolding equations for the list recursions ----- *)
    Lemma compile_kws_cons ce pc k e t :
      compile_kws ce pc ((k, e) :: t)
      = (LoadConst (VStr k false) :: ce (S pc) e) ++ compile_kws ce (pc + S (length (ce (S pc) e))) t.
    Proof. reflexivity. Qed.
    Lemma eval_kws_cons ev k e t :
      eval_kws ev ((k, e) :: t)
      = match ev e with
        | ROk v => match eval_kws ev t with ROk r => ROk ((k, v) :: r) | RErr x => RErr x end
        | RErr x => RErr x
        end.
    Proof. reflexivity. Qed.
    Lemma compile_seq_cons cn pc lp s t :
      compile_seq cn pc lp (s :: t) = cn pc lp s ++ compile_seq cn (pc + length (cn pc lp s)) lp t.
    Proof. reflexivity. Qed.

    (* ----- names ----- *)
    Lemma load_name_abs b stk l sv c n : ordinary_name n = true -> Forall frame_ok l -> parent_ok b ->
      load_name_v (mk b stk l sv c) n = env_lookup (absE b l sv) n.
    Proof.
      intros Ho Hl Hp. destruct (ordinary_name_spec n Ho) as (Hm & _).
      unfold load_name_v. rewrite Hm. unfold get_value, absE. symmetry. apply env_lookup_abs; [exact Ho|].
      split; assumption.
    Qed.

    Lemma load_loop_field b stk fr t sv c fld : frame_ok fr ->
      load_name_v (mk b stk (fr :: t) sv c) (loop_field_name fld) = loop_field_value (abs_frame fr) fld.
    Proof.
      intros (H1 & H2 & H3).
      destruct fld; unfold load_name_v, get_value, scope_of, scope_get, loops_get, lf_get; cbn [mk loops];
        rewrite H3; cbn -[Z.of_nat Nat.eqb]; rewrite ?H1, ?H2; reflexivity.
    Qed.

    (* ----- kwargs ----- *)
    Definition flat_kws (kws : list (str * value)) : list value :=
      flat_map (fun kv => [VStr (fst kv) false; snd kv]) kws.

    Lemma pop_n_app : forall ys stk acc, pop_n (length ys) (ys ++ stk) acc = Some (rev ys ++ acc, stk).
    Proof.
      induction ys as [|y ys IH]; intros stk acc; [reflexivity|]. cbn [length app pop_n rev].
      rewrite IH, <- app_assoc. reflexivity.
    Qed.

    Lemma flat_kws_length kws : length (flat_kws kws) = 2 * length kws.
    Proof. induction kws as [|kv t IH]; [reflexivity|]. unfold flat_kws in *. cbn [flat_map app length]. rewrite IH. lia. Qed.

    Lemma pop_n_kws kws stk :
      pop_n (2 * length kws) (rev (flat_kws kws) ++ stk) [] = Some (flat_kws kws, stk).
    Proof.
      rewrite <- flat_kws_length, <- (rev_length (flat_kws kws)), pop_n_app, rev_involutive, app_nil_r.
      reflexivity.
    Qed.

    Lemma build_map_pairs_kws kws :
      build_map_pairs wd (flat_kws kws) = ROk (map (fun kv => (KStr (fst kv) true, snd kv)) kws).
    Proof.
      induction kws as [|[k v] t IH]; [reflexivity|]. cbn [flat_kws flat_map app build_map_pairs fst snd map].
      rewrite H_key. fold (flat_kws t). rewrite IH. reflexivity.
    Qed.

    Definition expr_ok (e : expr) : Prop :=
      forall lex pc b stk l sv c o,
        wf_expr lex e = true -> (lex = true -> l <> []) -> Forall frame_ok l -> parent_ok b ->
        code_at pc (compile_expr pc e) ->
        match eval B e (absE b l sv) with
        | ROk v => steps pc (mk b stk l sv c) o (pc + length (compile_expr pc e)) (mk b (v :: stk) l sv c) o
        | RErr _ => fails pc (mk b stk l sv c) o
        end.

    Lemma kws_ok : forall kw, Forall (fun ke => expr_ok (snd ke)) kw ->
      forall lex pc b stk l sv c o,
        wf_kws lex kw = true -> (lex = true -> l <> []) -> Forall frame_ok l -> parent_ok b ->
        code_at pc (compile_kws compile_expr pc kw) ->
        match eval_kws (fun x => eval B x (absE b l sv)) kw with
        | ROk kws => length kws = length kw /\
            steps pc (mk b stk l sv c) o (pc + length (compile_kws compile_expr pc kw))
                  (mk b (rev (flat_kws kws) ++ stk) l sv c) o
        | RErr _ => fails pc (mk b stk l sv c) o
        end.
    Proof.
      induction 1 as [|[k e] t He _ IH]; intros lex pc b stk l sv c o Hwf Hlex Hfr Hpar Hc.
      - cbn. split; [reflexivity|]. replace (pc + 0) with pc by lia. apply steps_refl.
      - cbn [snd] in He. unfold wf_kws in Hwf. cbn [forallb snd] in Hwf. apply andb_prop in Hwf as [Hw1 Hw2].
        rewrite compile_kws_cons in *. rewrite eval_kws_cons.
        apply code_at_app in Hc as [Hc1 Hc2]. apply code_at_cons in Hc1 as [Hi Hce].
        pose proof (He lex (S pc) b (VStr k false :: stk) l sv c o Hw1 Hlex Hfr Hpar Hce) as He'.
        assert (S0 : steps pc (mk b stk l sv c) o (S pc) (mk b (VStr k false :: stk) l sv c) o).
        { apply step1. intros fu. eapply run_LoadConst. exact Hi. }
        destruct (eval B e (absE b l sv)) as [v|x].
        2:{ eapply steps_fails; [exact S0|exact He']. }
        cbn [length] in Hc2.
        pose proof (IH lex (pc + S (length (compile_expr (S pc) e))) b (v :: VStr k false :: stk) l sv c o
                       Hw2 Hlex Hfr Hpar Hc2) as IH'.
        destruct (eval_kws (fun x => eval B x (absE b l sv)) t) as [r|x].
        2:{ eapply steps_fails; [eapply steps_trans; [exact S0|]|exact IH'].
            replace (pc + S (length (compile_expr (S pc) e))) with (S pc + length (compile_expr (S pc) e)) by lia.
            exact He'. }
        destruct IH' as [Hlen IH']. split; [cbn [length]; rewrite Hlen; reflexivity|].
        eapply steps_trans; [exact S0|]. eapply steps_trans.
        { replace (S pc + length (compile_expr (S pc) e)) with (pc + S (length (compile_expr (S pc) e))) in He' by lia.
          exact He'. }
        rewrite app_length. cbn [length].
        replace (pc + (S (length (compile_expr (S pc) e)) + length (compile_kws compile_expr (pc + S (length (compile_expr (S pc) e))) t)))
          with (pc + S (length (compile_expr (S pc) e)) + length (compile_kws compile_expr (pc + S (length (compile_expr (S pc) e))) t)) by lia.
        replace (rev (flat_kws ((k, v) :: r)) ++ stk) with (rev (flat_kws r) ++ v :: VStr k false :: stk).
        { exact IH'. }
        cbn [flat_kws flat_map fst snd app]. fold (flat_kws r).
        change (VStr k false :: v :: flat_kws r) with ([VStr k false; v] ++ flat_kws r).
        rewrite rev_app_distr, <- app_assoc. reflexivity.
    Qed.

    (* kwargs; BuildMap; ApplyFilter on a receiver that is on the stack *)
    Lemma filter_ok : forall kw name, Forall (fun ke => expr_ok (snd ke)) kw ->
      forall lex pc b stk l sv c o v,
        wf_kws lex kw = true -> (lex = true -> l <> []) -> Forall frame_ok l -> parent_ok b ->
        code_at pc (compile_kws compile_expr pc kw ++ [BuildMap (length kw); ApplyFilter name]) ->
        match eval_kws (fun x => eval B x (absE b l sv)) kw with
        | ROk kws =>
            match apply_filter B name v kws with
            | ROk r => steps pc (mk b (v :: stk) l sv c) o
                             (pc + length (compile_kws compile_expr pc kw) + 2) (mk b (r :: stk) l sv c) o
            | RErr _ => fails pc (mk b (v :: stk) l sv c) o
            end
        | RErr _ => fails pc (mk b (v :: stk) l sv c) o
        end.
    Proof.
      intros kw name Hkw lex pc b stk l sv c o v Hwf Hlex Hfr Hpar Hc.
      apply code_at_app in Hc as [Hc1 Hc2]. apply code_at_cons in Hc2 as [Hi1 Hc2].
      apply code_at_cons in Hc2 as [Hi2 _].
      pose proof (kws_ok kw Hkw lex pc b (v :: stk) l sv c o Hwf Hlex Hfr Hpar Hc1) as K.
      destruct (eval_kws (fun x => eval B x (absE b l sv)) kw) as [kws|x]; [|exact K].
      destruct K as [Hlen K].
      assert (S1 : steps pc (mk b (v :: stk) l sv c) o (S (pc + length (compile_kws compile_expr pc kw)))
                         (mk b (VMap (kw_map wd kws) :: v :: stk) l sv c) o).
      { eapply steps_step; [exact K|]. intros fu.
        apply run_BuildMap with (n := length kw) (items := flat_kws kws) (rest := v :: stk)
                                (pairs := map (fun kv => (KStr (fst kv) true, snd kv)) kws);
          [exact Hi1| |apply build_map_pairs_kws].
        cbn [mk stack]. rewrite <- Hlen. apply pop_n_kws. }
      unfold apply_filter. change (b_filter B name v kws) with (w_filter wd name v (kw_map wd kws) no_scope).
      destruct (w_filter wd name v (kw_map wd kws) no_scope) as [[[r|x] safe]|] eqn:Ef.
      - eapply steps_step; [exact S1|]. intros fu. erewrite run_ApplyFilter by exact Hi2. rewrite Ef.
        replace (pc + length (compile_kws compile_expr pc kw) + 2)
          with (S (S (pc + length (compile_kws compile_expr pc kw)))) by lia. reflexivity.
      - eapply steps_fail1; [exact S1|]. intros fu. erewrite run_ApplyFilter by exact Hi2. rewrite Ef. reflexivity.
      - eapply steps_fail1; [exact S1|]. intros fu. erewrite run_ApplyFilter by exact Hi2. rewrite Ef. reflexivity.
    Qed.

    Lemma expr_correct : forall e, expr_ok e.
    Proof.
      induction e using expr_ind'; unfold expr_ok; intros lex pc b stk l sv c o Hwf Hlex Hfr Hpar Hc.
      - (* EConst *)
        cbn [eval compile_expr length] in *. apply code_at_cons in Hc as [Hi _].
        replace (pc + 1) with (S pc) by lia. apply step1. intros fu. eapply run_LoadConst. exact Hi.
      - (* EVar *)
        cbn [eval compile_expr length wf_expr] in *. apply code_at_cons in Hc as [Hi _].
        replace (pc + 1) with (S pc) by lia. apply step1. intros fu. erewrite run_LoadName by exact Hi.
        rewrite load_name_abs by assumption. reflexivity.
      - (* ELoop *)
        cbn [eval compile_expr length wf_expr] in *. apply code_at_cons in Hc as [Hi _].
        destruct l as [|fr t]; [exfalso; apply (Hlex Hwf); reflexivity|].
        inversion Hfr; subst. unfold absE. cbn [abs_scope map e_loops].
        replace (pc + 1) with (S pc) by lia. apply step1. intros fu. erewrite run_LoadName by exact Hi.
        rewrite load_loop_field by assumption. reflexivity.
      - (* EAttr *)
        cbn [wf_expr compile_expr] in *. apply code_at_app in Hc as [Hc1 Hc2]. apply code_at_cons in Hc2 as [Hi _].
        specialize (IHe lex pc b stk l sv c o Hwf Hlex Hfr Hpar Hc1). cbn [eval].
        destruct (eval B e (absE b l sv)) as [v|x]; [|exact IHe].
        rewrite app_length. cbn [length].
        replace (pc + (length (compile_expr pc e) + 1)) with (S (pc + length (compile_expr pc e))) by lia.
        destruct (is_undefined v) eqn:Eu.
        + eapply steps_fail1; [exact IHe|]. intros fu. erewrite run_LoadAttr by exact Hi. rewrite Eu. reflexivity.
        + eapply steps_step; [exact IHe|]. intros fu. erewrite run_LoadAttr by exact Hi. rewrite Eu. reflexivity.
      - (* ENot *)
        cbn [wf_expr compile_expr] in *. apply code_at_app in Hc as [Hc1 Hc2]. apply code_at_cons in Hc2 as [Hi _].
        specialize (IHe lex pc b stk l sv c o Hwf Hlex Hfr Hpar Hc1). cbn [eval].
        destruct (eval B e (absE b l sv)) as [v|x]; [|exact IHe].
        rewrite app_length. cbn [length].
        replace (pc + (length (compile_expr pc e) + 1)) with (S (pc + length (compile_expr pc e))) by lia.
        eapply steps_step; [exact IHe|]. intros fu. eapply run_Not. exact Hi.
      - (* EAnd *)
        cbn [wf_expr compile_expr app] in *. apply andb_prop in Hwf as [Hw1 Hw2].
        apply code_at_app in Hc as [Hc1 Hc2]. apply code_at_cons in Hc2 as [Hi Hc2].
        specialize (IHe1 lex pc b stk l sv c o Hw1 Hlex Hfr Hpar Hc1). cbn [eval].
        destruct (eval B e1 (absE b l sv)) as [v|x]; [|exact IHe1].
        rewrite app_length. cbn [length].
        replace (S (pc + length (compile_expr pc e1))) with (pc + length (compile_expr pc e1) + 1) in Hc2 by lia.
        destruct (is_truthy v) eqn:Et.
        + specialize (IHe2 lex _ b stk l sv c o Hw2 Hlex Hfr Hpar Hc2).
          assert (S1 : steps pc (mk b stk l sv c) o (pc + length (compile_expr pc e1) + 1) (mk b stk l sv c) o).
          { eapply steps_step; [exact IHe1|]. intros fu. erewrite run_JumpIfFalseOrPop by exact Hi. rewrite Et.
            replace (pc + length (compile_expr pc e1) + 1) with (S (pc + length (compile_expr pc e1))) by lia.
            reflexivity. }
          destruct (eval B e2 (absE b l sv)) as [v2|x]; [|eapply steps_fails; [exact S1|exact IHe2]].
          eapply steps_trans; [exact S1|].
          stepspos IHe2.
        + eapply steps_step; [exact IHe1|]. intros fu. erewrite run_JumpIfFalseOrPop by exact Hi. rewrite Et.
          runpos.
      - (* EOr *)
        cbn [wf_expr compile_expr app] in *. apply andb_prop in Hwf as [Hw1 Hw2].
        apply code_at_app in Hc as [Hc1 Hc2]. apply code_at_cons in Hc2 as [Hi Hc2].
        specialize (IHe1 lex pc b stk l sv c o Hw1 Hlex Hfr Hpar Hc1). cbn [eval].
        destruct (eval B e1 (absE b l sv)) as [v|x]; [|exact IHe1].
        rewrite app_length. cbn [length].
        replace (S (pc + length (compile_expr pc e1))) with (pc + length (compile_expr pc e1) + 1) in Hc2 by lia.
        destruct (is_truthy v) eqn:Et.
        + eapply steps_step; [exact IHe1|]. intros fu. erewrite run_JumpIfTrueOrPop by exact Hi. rewrite Et.
          runpos.
        + specialize (IHe2 lex _ b stk l sv c o Hw2 Hlex Hfr Hpar Hc2).
          assert (S1 : steps pc (mk b stk l sv c) o (pc + length (compile_expr pc e1) + 1) (mk b stk l sv c) o).
          { eapply steps_step; [exact IHe1|]. intros fu. erewrite run_JumpIfTrueOrPop by exact Hi. rewrite Et.
            replace (pc + length (compile_expr pc e1) + 1) with (S (pc + length (compile_expr pc e1))) by lia.
            reflexivity. }
          destruct (eval B e2 (absE b l sv)) as [v2|x]; [|eapply steps_fails; [exact S1|exact IHe2]].
          eapply steps_trans; [exact S1|].
          stepspos IHe2.
      - (* EEq *)
        cbn [wf_expr compile_expr] in *. apply andb_prop in Hwf as [Hw1 Hw2].
        apply code_at_app in Hc as [Hc1 Hc2]. apply code_at_app in Hc2 as [Hc2 Hc3].
        apply code_at_cons in Hc3 as [Hi _].
        specialize (IHe1 lex pc b stk l sv c o Hw1 Hlex Hfr Hpar Hc1). cbn [eval].
        destruct (eval B e1 (absE b l sv)) as [v1|x]; [|exact IHe1].
        specialize (IHe2 lex _ b (v1 :: stk) l sv c o Hw2 Hlex Hfr Hpar Hc2).
        destruct (eval B e2 (absE b l sv)) as [v2|x]; [|eapply steps_fails; [exact IHe1|exact IHe2]].
        eapply steps_trans; [exact IHe1|]. eapply steps_step; [exact IHe2|]. intros fu.
        rewrite !app_length. cbn [length].
        erewrite run_Equal by exact Hi. runpos.
      - (* ETest *)
        cbn [wf_expr compile_expr] in *. apply code_at_app in Hc as [Hc1 Hc2]. apply code_at_cons in Hc2 as [Hi1 Hc2].
        apply code_at_cons in Hc2 as [Hi2 _].
        specialize (IHe lex pc b stk l sv c o Hwf Hlex Hfr Hpar Hc1). cbn [eval].
        destruct (eval B e (absE b l sv)) as [v|x]; [|exact IHe].
        assert (S1 : steps pc (mk b stk l sv c) o (S (pc + length (compile_expr pc e))) (mk b (VMap [] :: v :: stk) l sv c) o).
        { eapply steps_step; [exact IHe|]. intros fu.
          apply run_BuildMap with (n := 0) (items := []) (rest := v :: stk) (pairs := []); [exact Hi1|reflexivity|reflexivity]. }
        change (b_test B n v) with (w_test wd n v []).
        rewrite app_length. cbn [length].
        destruct (w_test wd n v []) as [[r|x]|] eqn:Et.
        + eapply steps_step; [exact S1|]. intros fu. erewrite run_RunTest by exact Hi2. rewrite Et.
          replace (pc + (length (compile_expr pc e) + 2)) with (S (S (pc + length (compile_expr pc e)))) by lia. reflexivity.
        + eapply steps_fail1; [exact S1|]. intros fu. erewrite run_RunTest by exact Hi2. rewrite Et. reflexivity.
        + eapply steps_fail1; [exact S1|]. intros fu. erewrite run_RunTest by exact Hi2. rewrite Et. reflexivity.
      - (* EFilter *)
        cbn [wf_expr compile_expr] in *. apply andb_prop in Hwf as [Hw1 Hw2].
        apply code_at_app in Hc as [Hc1 Hc2].
        specialize (IHe lex pc b stk l sv c o Hw1 Hlex Hfr Hpar Hc1). cbn [eval].
        destruct (eval B e (absE b l sv)) as [v|x]; [|exact IHe].
        pose proof (filter_ok kw n H lex _ b stk l sv c o v Hw2 Hlex Hfr Hpar Hc2) as F.
        destruct (eval_kws (fun x => eval B x (absE b l sv)) kw) as [kws|x]; [|eapply steps_fails; [exact IHe|exact F]].
        destruct (apply_filter B n v kws) as [r|x]; [|eapply steps_fails; [exact IHe|exact F]].
        eapply steps_trans; [exact IHe|]. rewrite !app_length. cbn [length].
        stepspos F.
    Qed.

(*PARTC*)
  End Tpl.
End Sim.
