(* Proofs for C14: the Rust slice/index algorithms (Model/Slice.v) meet the Python
   specification (Spec/PySlice.v) for every length and every i128 start/stop/step. *)
From TeraV Require Import Model.Value Model.Slice Spec.PySlice.
From Coq Require Import ZifyBool.
Ltac Zify.zify_post_hook ::= Z.div_mod_to_equations.

Definition opt_in_i128 (o : option Z) : Prop :=
  match o with None => True | Some z => i128_min <= z <= i128_max end.

Ltac unfold_consts :=
  unfold i128_min, i128_max, two127 in *.

(* ---------- sat_add ---------- *)

Lemma sat_add_exact a b :
  i128_min <= a + b <= i128_max -> sat_add a b = a + b.
Proof. unfold sat_add. lia. Qed.

Lemma sat_add_hi a b : i128_max <= a + b -> sat_add a b = i128_max.
Proof. unfold sat_add. unfold_consts. lia. Qed.

Lemma sat_add_lo a b : a + b <= i128_min -> sat_add a b = i128_min.
Proof. unfold sat_add. unfold_consts. lia. Qed.

(* ---------- the clamp's precondition (std asserts lo <= hi) ---------- *)

Lemma lo_le_hi len step : 0 <= len -> fst (bounds len step) <= snd (bounds len step).
Proof. unfold bounds. destruct (0 <? step) eqn:?; simpl; lia. Qed.

(* ---------- bounds resolution = PySlice_AdjustIndices ---------- *)

Lemma resolve_start_is_py len start step :
  0 <= len <= i128_max -> opt_in_i128 start -> step <> 0 ->
  resolve_param len (fst (bounds len step)) (snd (bounds len step)) start
    (if 0 <? step then fst (bounds len step) else snd (bounds len step))
  = py_adjust len step start true.
Proof.
  intros Hlen Hs Hstep. unfold resolve_param, py_adjust, bounds, clamp.
  destruct start as [p|]; simpl in Hs.
  - destruct (0 <? step) eqn:E1; simpl;
    destruct (p <? 0) eqn:E2.
    + rewrite sat_add_exact by (unfold_consts; lia).
      destruct (p + len <? 0) eqn:?; destruct (step <? 0) eqn:?;
      destruct (len <? p + len) eqn:?; try lia.
    + destruct (p <? 0) eqn:?; try lia.
      destruct (len <? p) eqn:?; destruct (len <=? p) eqn:?; destruct (step <? 0) eqn:?; lia.
    + rewrite sat_add_exact by (unfold_consts; lia).
      destruct (p + len <? -1) eqn:?; destruct (p + len <? 0) eqn:?;
      destruct (step <? 0) eqn:?; destruct (len - 1 <? p + len) eqn:?; try lia.
    + destruct (p <? -1) eqn:?; try lia.
      destruct (len - 1 <? p) eqn:?; destruct (len <=? p) eqn:?; destruct (step <? 0) eqn:?; lia.
  - destruct (0 <? step) eqn:?; destruct (step <? 0) eqn:?; simpl; lia.
Qed.

Lemma resolve_stop_is_py len stop step :
  0 <= len <= i128_max -> opt_in_i128 stop -> step <> 0 ->
  resolve_param len (fst (bounds len step)) (snd (bounds len step)) stop
    (if 0 <? step then snd (bounds len step) else fst (bounds len step))
  = py_adjust len step stop false.
Proof.
  intros Hlen Hs Hstep. unfold resolve_param, py_adjust, bounds, clamp.
  destruct stop as [p|]; simpl in Hs.
  - destruct (0 <? step) eqn:E1; simpl;
    destruct (p <? 0) eqn:E2.
    + rewrite sat_add_exact by (unfold_consts; lia).
      destruct (p + len <? 0) eqn:?; destruct (step <? 0) eqn:?;
      destruct (len <? p + len) eqn:?; try lia.
    + destruct (p <? 0) eqn:?; try lia.
      destruct (len <? p) eqn:?; destruct (len <=? p) eqn:?; destruct (step <? 0) eqn:?; lia.
    + rewrite sat_add_exact by (unfold_consts; lia).
      destruct (p + len <? -1) eqn:?; destruct (p + len <? 0) eqn:?;
      destruct (step <? 0) eqn:?; destruct (len - 1 <? p + len) eqn:?; try lia.
    + destruct (p <? -1) eqn:?; try lia.
      destruct (len - 1 <? p) eqn:?; destruct (len <=? p) eqn:?; destruct (step <? 0) eqn:?; lia.
  - destruct (0 <? step) eqn:?; destruct (step <? 0) eqn:?; simpl; lia.
Qed.

Lemma py_adjust_range len step b is_start :
  0 <= len -> -1 <= py_adjust len step b is_start <= len.
Proof.
  intros. unfold py_adjust. destruct b as [p|]; destruct is_start;
  repeat match goal with |- context [if ?c then _ else _] => destruct c eqn:? end; lia.
Qed.

Lemma py_adjust_range_pos len step b is_start :
  0 <= len -> 0 < step -> 0 <= py_adjust len step b is_start <= len.
Proof.
  intros. unfold py_adjust. destruct b as [p|]; destruct is_start;
  repeat match goal with |- context [if ?c then _ else _] => destruct c eqn:? end; lia.
Qed.

Lemma py_adjust_range_neg len step b is_start :
  0 <= len -> step < 0 -> -1 <= py_adjust len step b is_start <= len - 1.
Proof.
  intros. unfold py_adjust. destruct b as [p|]; destruct is_start;
  repeat match goal with |- context [if ?c then _ else _] => destruct c eqn:? end; lia.
Qed.

(* ---------- range(start, stop, step), unrolled ---------- *)

Lemma seq_shift_map {A} (f : nat -> A) n :
  map f (seq 1 n) = map (fun k => f (S k)) (seq 0 n).
Proof. rewrite <- seq_shift, map_map. reflexivity. Qed.

Lemma py_range_nil start stop step :
  (if 0 <? step then stop <= start else start <= stop) -> py_range start stop step = [].
Proof.
  intros H. unfold py_range, py_range_len.
  destruct (0 <? step) eqn:?.
  - destruct (start <? stop) eqn:?; [lia|reflexivity].
  - destruct (stop <? start) eqn:?; [lia|reflexivity].
Qed.

Lemma py_range_len_nonneg start stop step : step <> 0 -> 0 <= py_range_len start stop step.
Proof.
  intros. unfold py_range_len.
  destruct (0 <? step) eqn:?; [destruct (start <? stop) eqn:?|destruct (stop <? start) eqn:?]; try lia.
  - assert (0 <= (stop - start - 1) / step) by (apply Z.div_pos; lia). lia.
  - assert (0 <= (start - stop - 1) / (- step)) by (apply Z.div_pos; lia). lia.
Qed.

Lemma py_range_len_step_pos start stop step :
  0 < step -> start < stop ->
  py_range_len start stop step = py_range_len (start + step) stop step + 1.
Proof.
  intros Hs Hlt. unfold py_range_len.
  destruct (0 <? step) eqn:?; try lia.
  destruct (start <? stop) eqn:?; try lia.
  destruct (start + step <? stop) eqn:E.
  - replace (stop - start - 1) with ((stop - (start + step) - 1) + 1 * step) by lia.
    rewrite Z.div_add by lia. lia.
  - rewrite Z.div_small by lia. lia.
Qed.

Lemma py_range_len_step_neg start stop step :
  step < 0 -> stop < start ->
  py_range_len start stop step = py_range_len (start + step) stop step + 1.
Proof.
  intros Hs Hlt. unfold py_range_len.
  destruct (0 <? step) eqn:?; try lia.
  destruct (stop <? start) eqn:?; try lia.
  destruct (stop <? start + step) eqn:E.
  - replace (start - stop - 1) with ((start + step - stop - 1) + 1 * (- step)) by lia.
    rewrite Z.div_add by lia. lia.
  - rewrite Z.div_small by lia. lia.
Qed.

Lemma py_range_cons start stop step :
  step <> 0 -> (if 0 <? step then start < stop else stop < start) ->
  py_range start stop step = start :: py_range (start + step) stop step.
Proof.
  intros Hnz H. unfold py_range.
  assert (Hl : py_range_len start stop step = py_range_len (start + step) stop step + 1).
  { destruct (0 <? step) eqn:?; [apply py_range_len_step_pos|apply py_range_len_step_neg]; lia. }
  rewrite Hl.
  pose proof (py_range_len_nonneg (start + step) stop step Hnz) as Hn.
  rewrite Z2Nat.inj_add by lia. rewrite Nat.add_comm.
  change (Z.to_nat 1) with 1%nat. cbn [Nat.add seq map].
  f_equal; [cbn; lia|].
  rewrite seq_shift_map. apply map_ext. intros k. lia.
Qed.

(* ---------- the while loop computes range(start, stop, step) ---------- *)

Lemma slice_loop_stop fuel i e step :
  (if 0 <? step then e <= i else i <= e) -> slice_loop fuel i e step = [].
Proof.
  intros H. destruct fuel; [reflexivity|]. cbn [slice_loop].
  destruct (0 <? step) eqn:?.
  - destruct (i <? e) eqn:?; [lia|reflexivity].
  - destruct (e <? i) eqn:?; [lia|reflexivity].
Qed.

Lemma slice_loop_is_range_pos fuel : forall i e step,
  0 < step -> step <= i128_max -> i128_min <= i -> e <= i128_max ->
  e - i <= Z.of_nat fuel ->
  slice_loop fuel i e step = py_range i e step.
Proof.
  induction fuel as [|f IH]; intros i e step Hs Hsm Hi He Hf.
  - cbn [slice_loop]. symmetry. apply py_range_nil. destruct (0 <? step) eqn:?; lia.
  - cbn [slice_loop]. destruct (0 <? step) eqn:E; [|lia].
    destruct (i <? e) eqn:Hlt.
    + rewrite py_range_cons by (rewrite ?E; lia). f_equal.
      destruct (Z_le_gt_dec (i + step) i128_max) as [Hle|Hgt].
      * rewrite sat_add_exact by (unfold_consts; lia).
        apply IH; try lia.
      * rewrite sat_add_hi by lia.
        rewrite slice_loop_stop by (rewrite E; lia).
        symmetry. apply py_range_nil. rewrite E. lia.
    + symmetry. apply py_range_nil. rewrite E. lia.
Qed.

Lemma slice_loop_is_range_neg fuel : forall i e step,
  step < 0 -> i128_min <= step -> i <= i128_max -> i128_min <= e ->
  i - e <= Z.of_nat fuel ->
  slice_loop fuel i e step = py_range i e step.
Proof.
  induction fuel as [|f IH]; intros i e step Hs Hsm Hi He Hf.
  - cbn [slice_loop]. symmetry. apply py_range_nil. destruct (0 <? step) eqn:?; lia.
  - cbn [slice_loop]. destruct (0 <? step) eqn:E; [lia|].
    destruct (e <? i) eqn:Hlt.
    + rewrite py_range_cons by (rewrite ?E; lia). f_equal.
      destruct (Z_le_gt_dec i128_min (i + step)) as [Hle|Hgt].
      * rewrite sat_add_exact by (unfold_consts; lia).
        apply IH; try lia.
      * rewrite sat_add_lo by lia.
        rewrite slice_loop_stop by (rewrite E; lia).
        symmetry. apply py_range_nil. rewrite E. lia.
    + symmetry. apply py_range_nil. rewrite E. lia.
Qed.

(* ---------- main theorem on indices ---------- *)

Theorem slice_indices_is_python len start stop step :
  0 <= len <= i128_max -> opt_in_i128 start -> opt_in_i128 stop ->
  i128_min <= step <= i128_max -> step <> 0 ->
  slice_indices len start stop step = py_slice_indices len start stop step.
Proof.
  intros Hlen Hs He Hst Hnz. unfold slice_indices, py_slice_indices.
  pose proof (resolve_start_is_py len start step Hlen Hs Hnz) as R1.
  pose proof (resolve_stop_is_py len stop step Hlen He Hnz) as R2.
  destruct (bounds len step) as [lo hi] eqn:Hb. cbn [fst snd] in R1, R2.
  rewrite R1, R2.
  destruct (Z_lt_ge_dec 0 step) as [Hpos|Hneg].
  - pose proof (py_adjust_range_pos len step start true ltac:(lia) Hpos).
    pose proof (py_adjust_range_pos len step stop false ltac:(lia) Hpos).
    apply slice_loop_is_range_pos; try (unfold_consts; lia).
    all: rewrite Nat2Z.inj_succ, Z2Nat.id by lia; lia.
  - pose proof (py_adjust_range_neg len step start true ltac:(lia) ltac:(lia)).
    pose proof (py_adjust_range_neg len step stop false ltac:(lia) ltac:(lia)).
    apply slice_loop_is_range_neg; try (unfold_consts; lia).
    all: rewrite Nat2Z.inj_succ, Z2Nat.id by lia; lia.
Qed.

(* ---------- every index Python's range yields here is inside [0, len) ---------- *)

Lemma py_range_bounds_pos start stop step x :
  0 < step -> In x (py_range start stop step) -> start <= x < stop.
Proof.
  intros Hs. unfold py_range. rewrite in_map_iff. intros [k [Hk Hin]].
  apply in_seq in Hin. unfold py_range_len in Hin.
  destruct (0 <? step) eqn:?; [|lia].
  destruct (start <? stop) eqn:?; [|simpl in Hin; lia].
  assert (Z.of_nat k <= (stop - start - 1) / step).
  { assert (0 <= (stop - start - 1) / step) by (apply Z.div_pos; lia). lia. }
  assert (step * ((stop - start - 1) / step) <= stop - start - 1) by (apply Z.mul_div_le; lia).
  nia.
Qed.

Lemma py_range_bounds_neg start stop step x :
  step < 0 -> In x (py_range start stop step) -> stop < x <= start.
Proof.
  intros Hs. unfold py_range. rewrite in_map_iff. intros [k [Hk Hin]].
  apply in_seq in Hin. unfold py_range_len in Hin.
  destruct (0 <? step) eqn:?; [lia|].
  destruct (stop <? start) eqn:?; [|simpl in Hin; lia].
  assert (Z.of_nat k <= (start - stop - 1) / (- step)).
  { assert (0 <= (start - stop - 1) / (- step)) by (apply Z.div_pos; lia). lia. }
  assert ((- step) * ((start - stop - 1) / (- step)) <= start - stop - 1) by (apply Z.mul_div_le; lia).
  nia.
Qed.

Lemma py_slice_indices_in_bounds len start stop step x :
  0 <= len -> step <> 0 -> In x (py_slice_indices len start stop step) -> 0 <= x < len.
Proof.
  intros Hlen Hnz Hin. unfold py_slice_indices in Hin.
  destruct (Z_lt_ge_dec 0 step) as [Hpos|Hneg].
  - apply py_range_bounds_pos in Hin; [|lia].
    pose proof (py_adjust_range_pos len step start true Hlen Hpos).
    pose proof (py_adjust_range_pos len step stop false Hlen Hpos). lia.
  - apply py_range_bounds_neg in Hin; [|lia].
    pose proof (py_adjust_range_neg len step start true Hlen ltac:(lia)).
    pose proof (py_adjust_range_neg len step stop false Hlen ltac:(lia)). lia.
Qed.

(* ---------- element level: no out-of-bounds access, result = Python's ---------- *)

Lemma collect_in_bounds {A} (items : list A) idx :
  (forall x, In x idx -> 0 <= x < Z.of_nat (length items)) ->
  collect items idx =
    Some (flat_map (fun i => match nth_error items (Z.to_nat i) with Some x => [x] | None => [] end) idx).
Proof.
  induction idx as [|i t IH]; intros H; [reflexivity|].
  cbn [collect flat_map]. rewrite IH by (intros; apply H; right; assumption).
  assert (Hi : 0 <= i < Z.of_nat (length items)) by (apply H; left; reflexivity).
  unfold index_usize. destruct (i <? 0) eqn:?; [lia|].
  destruct (nth_error items (Z.to_nat i)) eqn:E.
  - reflexivity.
  - apply nth_error_None in E. lia.
Qed.

Theorem slice_items_is_python {A} (items : list A) start stop step :
  Z.of_nat (length items) <= i128_max -> opt_in_i128 start -> opt_in_i128 stop ->
  i128_min <= step <= i128_max -> step <> 0 ->
  slice_items items start stop step = Some (py_slice items start stop step).
Proof.
  intros Hlen Hs He Hst Hnz. unfold slice_items, py_slice.
  rewrite slice_indices_is_python by (try assumption; lia).
  apply collect_in_bounds. intros x Hx.
  eapply py_slice_indices_in_bounds; eauto. lia.
Qed.

(* termination bound: the loop yields at most len elements *)
Lemma py_slice_length {A} (items : list A) start stop step :
  step <> 0 -> (length (py_slice items start stop step) <= length items)%nat.
Proof.
  intros Hnz. unfold py_slice.
  set (len := Z.of_nat (length items)).
  assert (Hlen : 0 <= len) by lia.
  (* every selected index is in range and indices are strictly monotone: bounded by len *)
  assert (Hcount : (length (py_slice_indices len start stop step) <= length items)%nat).
  { unfold py_slice_indices, py_range. rewrite map_length, seq_length.
    unfold py_range_len.
    destruct (Z_lt_ge_dec 0 step) as [Hpos|Hneg].
    - pose proof (py_adjust_range_pos len step start true Hlen Hpos).
      pose proof (py_adjust_range_pos len step stop false Hlen Hpos).
      destruct (0 <? step) eqn:?; [|lia].
      set (a := py_adjust len step start true) in *. set (b := py_adjust len step stop false) in *.
      destruct (a <? b) eqn:?; [|simpl; lia].
      assert ((b - a - 1) / step <= b - a - 1) by (apply Z.div_le_upper_bound; nia).
      subst len. lia.
    - pose proof (py_adjust_range_neg len step start true Hlen ltac:(lia)).
      pose proof (py_adjust_range_neg len step stop false Hlen ltac:(lia)).
      destruct (0 <? step) eqn:?; [lia|].
      set (a := py_adjust len step start true) in *. set (b := py_adjust len step stop false) in *.
      destruct (b <? a) eqn:?; [|simpl; lia].
      assert ((a - b - 1) / (- step) <= a - b - 1) by (apply Z.div_le_upper_bound; nia).
      subst len. lia. }
  etransitivity; [|exact Hcount].
  clear Hcount. induction (py_slice_indices len start stop step) as [|i t IH]; [simpl; lia|].
  cbn [flat_map]. rewrite app_length. destruct (nth_error items (Z.to_nat i)); simpl; lia.
Qed.

(* ---------- x[i] ---------- *)

Definition int_value (v : value) : Prop :=
  match v with VInt r z => rep_ok r z = true | _ => False end.

Definition int_val (v : value) : Z := match v with VInt _ z => z | _ => 0 end.

Lemma resolve_index_spec v len :
  int_value v -> 0 <= len <= i128_max ->
  resolve_index v len =
    ROk (let i := int_val v in
         if (0 <=? i) && (i <? len) then Some i
         else if (- len <=? i) && (i <? 0) then Some (i + len) else None).
Proof.
  intros Hv Hlen. destruct v; try contradiction. cbn [int_value int_val] in *.
  unfold resolve_index, as_i128, is_u128.
  destruct (in_i128 z) eqn:Hin.
  - cbn zeta. destruct (z <? 0) eqn:?;
    repeat match goal with |- context [if ?c then _ else _] => destruct c eqn:? end;
      try reflexivity; try lia.
  - (* only a u128 above i128::MAX fails as_i128 *)
    cbn zeta.
    destruct r; unfold rep_ok, in_u64, in_i64, in_u128, in_i128 in *;
      unfold two64, two63, u128_max, two128 in *; unfold_consts; try lia.
    repeat match goal with |- context [if ?c then _ else _] => destruct c eqn:? end;
      try reflexivity; try lia.
Qed.

Theorem index_array_is_python l v :
  int_value v -> Z.of_nat (length l) <= i128_max ->
  get_item_seq (VArr l) v =
    ROk (match py_index l (int_val v) with Some x => x | None => VUndef end).
Proof.
  intros Hv Hlen. cbn [get_item_seq]. rewrite resolve_index_spec by (auto; lia).
  cbn [res_bind]. unfold py_index. set (i := int_val v). set (len := Z.of_nat (length l)).
  destruct ((0 <=? i) && (i <? len)) eqn:E1.
  - unfold index_usize. destruct (i <? 0) eqn:?; [lia|].
    destruct (nth_error l (Z.to_nat i)) eqn:E; [reflexivity|].
    apply nth_error_None in E. lia.
  - destruct ((- len <=? i) && (i <? 0)) eqn:E2; [|reflexivity].
    unfold index_usize. destruct (i + len <? 0) eqn:?; [lia|].
    destruct (nth_error l (Z.to_nat (i + len))) eqn:E; [reflexivity|].
    apply nth_error_None in E. lia.
Qed.

Theorem index_string_is_python s safe v :
  int_value v -> Z.of_nat (length s) <= i128_max ->
  get_item_seq (VStr s safe) v =
    ROk (match py_index s (int_val v) with Some c => VStr [c] safe | None => VUndef end).
Proof.
  intros Hv Hlen. cbn [get_item_seq]. rewrite resolve_index_spec by (auto; lia).
  cbn [res_bind]. unfold py_index. set (i := int_val v). set (len := Z.of_nat (length s)).
  destruct ((0 <=? i) && (i <? len)) eqn:E1.
  - unfold index_usize. destruct (i <? 0) eqn:?; [lia|].
    destruct (nth_error s (Z.to_nat i)) eqn:E; [reflexivity|].
    apply nth_error_None in E. lia.
  - destruct ((- len <=? i) && (i <? 0)) eqn:E2; [|reflexivity].
    unfold index_usize. destruct (i + len <? 0) eqn:?; [lia|].
    destruct (nth_error s (Z.to_nat (i + len))) eqn:E; [reflexivity|].
    apply nth_error_None in E. lia.
Qed.

(* ---------- value level ---------- *)

Definition step_of (o : option Z) : Z := match o with None => 1 | Some s => s end.

Theorem value_slice_array l start stop step :
  Z.of_nat (length l) <= i128_max -> opt_in_i128 start -> opt_in_i128 stop -> opt_in_i128 step ->
  value_slice (VArr l) start stop step =
    if step_of step =? 0 then RErr ErrMsg else ROk (VArr (py_slice l start stop (step_of step))).
Proof.
  intros Hl Hs He Hst. unfold value_slice. fold (step_of step).
  destruct (step_of step =? 0) eqn:E; [reflexivity|].
  rewrite slice_items_is_python; auto; try lia.
  destruct step; cbn in *; unfold_consts; lia.
Qed.

Theorem value_slice_string s safe start stop step :
  Z.of_nat (length s) <= i128_max -> opt_in_i128 start -> opt_in_i128 stop -> opt_in_i128 step ->
  value_slice (VStr s safe) start stop step =
    if step_of step =? 0 then RErr ErrMsg else ROk (VStr (py_slice s start stop (step_of step)) safe).
Proof.
  intros Hl Hs He Hst. unfold value_slice. fold (step_of step).
  destruct (step_of step =? 0) eqn:E; [reflexivity|].
  rewrite slice_items_is_python; auto; try lia.
  destruct step; cbn in *; unfold_consts; lia.
Qed.

(* ---------- strings stay valid text: only characters of the input, never a split one ---------- *)

Lemma py_slice_incl {A} (items : list A) start stop step : incl (py_slice items start stop step) items.
Proof.
  unfold py_slice. intros x Hx. apply in_flat_map in Hx. destruct Hx as [i [_ Hi]].
  destruct (nth_error items (Z.to_nat i)) eqn:E; [|contradiction].
  destruct Hi as [<-|[]]. eapply nth_error_In; eauto.
Qed.

Lemma py_index_in {A} (items : list A) i x : py_index items i = Some x -> In x items.
Proof.
  unfold py_index. repeat match goal with |- context [if ?c then _ else _] => destruct c end;
    try discriminate; apply nth_error_In.
Qed.

(* ---------- VM level: integer operands of any width ---------- *)

Definition slice_arg (v : value) : Prop := v = VNone \/ int_value v.
Definition arg_val (v : value) : option Z := match v with VInt _ z => Some z | _ => None end.
Definition clip (o : option Z) : option Z :=
  match o with Some z => Some (if i128_max <? z then i128_max else z) | None => None end.

Lemma int_value_range v : int_value v -> i128_min <= int_val v <= u128_max.
Proof.
  destruct v; try contradiction. cbn [int_value int_val]. intros H.
  destruct r; unfold rep_ok, in_u64, in_i64, in_u128, in_i128 in H;
    unfold two64, two63, u128_max, two128 in *; unfold_consts; lia.
Qed.

Lemma slice_operand_spec v :
  slice_arg v -> slice_operand v = ROk (clip (arg_val v)) /\ opt_in_i128 (clip (arg_val v)).
Proof.
  intros [->|Hv]; [split; [reflexivity|exact I]|].
  pose proof (int_value_range v Hv) as Hr.
  destruct v; try contradiction. cbn [int_value int_val arg_val clip opt_in_i128] in *.
  unfold slice_operand. cbn [is_none is_undefined as_i128].
  destruct (in_i128 z) eqn:Hin.
  - unfold in_i128 in Hin. destruct (i128_max <? z) eqn:?; split; try reflexivity; try lia.
  - assert (Hbig : i128_max < z) by (unfold in_i128 in Hin; lia).
    destruct r; unfold rep_ok, in_u64, in_i64, in_u128, in_i128 in *;
      unfold two64, two63, u128_max, two128 in *; unfold_consts; try lia.
    cbn [is_u128]. destruct (_ <? z) eqn:?; split; try reflexivity; lia.
Qed.

Lemma py_adjust_clip len step b is_start :
  0 <= len <= i128_max -> py_adjust len step (clip b) is_start = py_adjust len step b is_start.
Proof.
  intros Hlen. destruct b as [z|]; [|reflexivity]. cbn [clip].
  destruct (i128_max <? z) eqn:E; [|reflexivity].
  unfold py_adjust.
  assert (Hz : (z <? 0) = false) by (unfold_consts; lia).
  assert (Hm : (i128_max <? 0) = false) by (unfold_consts; lia).
  assert (Hlz : (len <=? z) = true) by (unfold_consts; lia).
  assert (Hlm : (len <=? i128_max) = true) by lia.
  rewrite Hz, Hm, Hlz, Hlm. reflexivity.
Qed.

Lemma py_adjust_sign len step step' b is_start :
  (step <? 0) = (step' <? 0) -> py_adjust len step b is_start = py_adjust len step' b is_start.
Proof. intros H. unfold py_adjust. rewrite H. reflexivity. Qed.

Lemma py_range_big_step a b step step' :
  0 <= a -> b - a <= step -> b - a <= step' -> 0 < step -> 0 < step' ->
  py_range a b step = py_range a b step'.
Proof.
  intros Ha H1 H2 Hs Hs'. unfold py_range, py_range_len.
  destruct (0 <? step) eqn:?; destruct (0 <? step') eqn:?; try lia.
  destruct (a <? b) eqn:?; [|reflexivity].
  rewrite !Z.div_small by lia. change (Z.to_nat (0 + 1)) with 1%nat.
  cbn [seq map]. f_equal.
Qed.

Lemma py_slice_indices_clip len start stop step :
  0 <= len <= i128_max -> step <> 0 ->
  py_slice_indices len (clip start) (clip stop) (step_of (clip (Some step)))
  = py_slice_indices len start stop step.
Proof.
  intros Hlen Hnz. unfold py_slice_indices. cbn [clip step_of].
  rewrite !py_adjust_clip by assumption.
  destruct (i128_max <? step) eqn:E; [|reflexivity].
  rewrite (py_adjust_sign len i128_max step start true), (py_adjust_sign len i128_max step stop false)
    by (unfold_consts; destruct (_ <? 0) eqn:?; destruct (step <? 0) eqn:?; lia).
  pose proof (py_adjust_range_pos len step start true ltac:(lia) ltac:(unfold_consts; lia)).
  pose proof (py_adjust_range_pos len step stop false ltac:(lia) ltac:(unfold_consts; lia)).
  apply py_range_big_step; unfold_consts; lia.
Qed.

Lemma py_slice_clip {A} (items : list A) start stop step :
  Z.of_nat (length items) <= i128_max -> step <> 0 ->
  py_slice items (clip start) (clip stop) (step_of (clip (Some step))) = py_slice items start stop step.
Proof.
  intros Hlen Hnz. unfold py_slice. rewrite py_slice_indices_clip by lia. reflexivity.
Qed.

Lemma step_of_clip o : (step_of (clip o) =? 0) = (step_of o =? 0).
Proof.
  destruct o as [z|]; [|reflexivity]. cbn [clip step_of].
  destruct (i128_max <? z) eqn:?; [|reflexivity]. unfold_consts. lia.
Qed.

Lemma py_slice_clip_opt {A} (items : list A) start stop step :
  Z.of_nat (length items) <= i128_max -> step_of step <> 0 ->
  py_slice items (clip start) (clip stop) (step_of (clip step)) = py_slice items start stop (step_of step).
Proof.
  intros Hlen Hnz. destruct step as [z|].
  - apply py_slice_clip; assumption.
  - cbn [clip step_of]. unfold py_slice, py_slice_indices.
    rewrite !py_adjust_clip by lia. reflexivity.
Qed.

Theorem vm_slice_is_python opt l start stop step :
  Z.of_nat (length l) <= i128_max ->
  slice_arg start -> slice_arg stop -> slice_arg step ->
  vm_slice opt (VArr l) start stop step =
    if step_of (arg_val step) =? 0 then RErr ErrRender
    else ROk (VArr (py_slice l (arg_val start) (arg_val stop) (step_of (arg_val step)))).
Proof.
  intros Hl Ha Hb Hc. unfold vm_slice. cbn [is_undefined is_none orb]. rewrite andb_false_r.
  destruct (slice_operand_spec _ Ha) as [-> Ia], (slice_operand_spec _ Hb) as [-> Ib],
           (slice_operand_spec _ Hc) as [-> Ic].
  cbn [res_bind]. rewrite value_slice_array by assumption. rewrite step_of_clip.
  destruct (step_of (arg_val step) =? 0) eqn:E; [reflexivity|].
  rewrite py_slice_clip_opt by (try assumption; lia). reflexivity.
Qed.

Theorem vm_slice_string_is_python opt s safe start stop step :
  Z.of_nat (length s) <= i128_max ->
  slice_arg start -> slice_arg stop -> slice_arg step ->
  vm_slice opt (VStr s safe) start stop step =
    if step_of (arg_val step) =? 0 then RErr ErrRender
    else ROk (VStr (py_slice s (arg_val start) (arg_val stop) (step_of (arg_val step))) safe).
Proof.
  intros Hl Ha Hb Hc. unfold vm_slice. cbn [is_undefined is_none orb]. rewrite andb_false_r.
  destruct (slice_operand_spec _ Ha) as [-> Ia], (slice_operand_spec _ Hb) as [-> Ib],
           (slice_operand_spec _ Hc) as [-> Ic].
  cbn [res_bind]. rewrite value_slice_string by assumption. rewrite step_of_clip.
  destruct (step_of (arg_val step) =? 0) eqn:E; [reflexivity|].
  rewrite py_slice_clip_opt by (try assumption; lia). reflexivity.
Qed.
