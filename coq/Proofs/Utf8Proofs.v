(* Proofs/Utf8Proofs.v — algebra of the White_Space trimming functions of Model/Utf8.v on
   arbitrary byte lists: idempotence, commutation, prefix/suffix shape. *)
From Coq Require Import Arith Wf_nat.
From TeraV Require Import Model.Utf8Lex.
Local Open Scope N_scope.

Lemma bytes_eqb_refl : forall a, bytes_eqb a a = true.
Proof. induction a as [|x a IH]; cbn; [reflexivity|]. now rewrite N.eqb_refl, IH. Qed.

Lemma bytes_eqb_eq : forall a b, bytes_eqb a b = true <-> a = b.
Proof.
  induction a as [|x a IH]; intros [|y b]; cbn; split; intro H; try reflexivity; try discriminate.
  - apply andb_true_iff in H as [H1 H2]. apply N.eqb_eq in H1. apply IH in H2. now subst.
  - inversion H; subst. now rewrite N.eqb_refl, bytes_eqb_refl.
Qed.

Lemma bytes_eqb_neq : forall a b, bytes_eqb a b = false <-> a <> b.
Proof.
  intros a b. split; intro H.
  - intro E. apply bytes_eqb_eq in E. congruence.
  - destruct (bytes_eqb a b) eqn:E; [|reflexivity]. apply bytes_eqb_eq in E. contradiction.
Qed.

(* ---------------------------------------------------------------- ws_strip *)

Lemma ws_strip_app : forall s p r, ws_strip s = Some (p, r) -> s = p ++ r /\ p <> [].
Proof.
  intros s p r H. unfold ws_strip in H.
  destruct s as [|b1 t1]; [discriminate|].
  destruct (is_ws1 b1); [inversion H; subst; split; [reflexivity|discriminate]|].
  destruct t1 as [|b2 t2]; [discriminate|].
  destruct (is_ws2 b1 b2); [inversion H; subst; split; [reflexivity|discriminate]|].
  destruct t2 as [|b3 t3]; [discriminate|].
  destruct (is_ws3 b1 b2 b3); [inversion H; subst; split; [reflexivity|discriminate]|discriminate].
Qed.

Lemma ws_strip_len : forall s p r, ws_strip s = Some (p, r) -> (length r < length s)%nat.
Proof.
  intros s p r H. apply ws_strip_app in H as [-> Hp]. rewrite app_length.
  destruct p; [contradiction|cbn; lia].
Qed.

(* the match only looks at the bytes it strips *)
Lemma ws_strip_ext : forall s p r x, ws_strip s = Some (p, r) -> ws_strip (p ++ x) = Some (p, x).
Proof.
  intros s p r x H. unfold ws_strip in H.
  destruct s as [|b1 t1]; [discriminate|].
  destruct (is_ws1 b1) eqn:E1.
  { inversion H; subst. cbn. now rewrite E1. }
  destruct t1 as [|b2 t2]; [discriminate|].
  destruct (is_ws2 b1 b2) eqn:E2.
  { inversion H; subst. cbn. now rewrite E1, E2. }
  destruct t2 as [|b3 t3]; [discriminate|].
  destruct (is_ws3 b1 b2 b3) eqn:E3; [|discriminate].
  inversion H; subst. cbn. now rewrite E1, E2, E3.
Qed.

Lemma ws_strip_none_prefix : forall a b, ws_strip (a ++ b) = None -> ws_strip a = None.
Proof.
  intros a b H. unfold ws_strip in *.
  destruct a as [|b1 a1]; [reflexivity|]. cbn in H.
  destruct (is_ws1 b1); [discriminate|].
  destruct a1 as [|b2 a2]; [reflexivity|]. cbn in H.
  destruct (is_ws2 b1 b2); [discriminate|].
  destruct a2 as [|b3 a3]; [reflexivity|]. cbn in H.
  destruct (is_ws3 b1 b2 b3); [discriminate|reflexivity].
Qed.

(* ---------------------------------------------------------------- unfolding equations *)

Lemma trim_start_eq : forall s,
  trim_start s = match ws_strip s with Some (_, r) => trim_start r | None => s end.
Proof.
  intros [|b1 [|b2 [|b3 t3]]]; cbn; try reflexivity.
  - destruct (is_ws1 b1); reflexivity.
  - destruct (is_ws1 b1); [reflexivity|]. destruct (is_ws2 b1 b2); reflexivity.
  - destruct (is_ws1 b1); [reflexivity|]. destruct (is_ws2 b1 b2); [reflexivity|].
    destruct (is_ws3 b1 b2 b3); reflexivity.
Qed.

Lemma trim_end_eq : forall s,
  trim_end s = match ws_strip s with
               | Some (p, r) => keep_if_more p (trim_end r)
               | None => match s with [] => [] | b :: t => b :: trim_end t end
               end.
Proof.
  intros [|b1 [|b2 [|b3 t3]]]; cbn; try reflexivity.
  - destruct (is_ws1 b1); reflexivity.
  - destruct (is_ws1 b1); [reflexivity|]. destruct (is_ws2 b1 b2); reflexivity.
  - destruct (is_ws1 b1); [reflexivity|]. destruct (is_ws2 b1 b2); [reflexivity|].
    destruct (is_ws3 b1 b2 b3); reflexivity.
Qed.

Lemma len_ind : forall (P : bytes -> Prop),
  (forall s, (forall t, (length t < length s)%nat -> P t) -> P s) -> forall s, P s.
Proof.
  intros P H s. remember (length s) as n eqn:E. revert s E.
  induction n as [n IH] using lt_wf_ind. intros s ->. apply H. intros t Ht. now apply (IH (length t)).
Qed.

(* ---------------------------------------------------------------- shape *)

(* trim_end keeps a prefix, trim_start a suffix *)
Lemma trim_end_prefix : forall s, exists x, s = trim_end s ++ x.
Proof.
  induction s as [s IH] using len_ind. rewrite trim_end_eq.
  destruct (ws_strip s) as [[p r]|] eqn:E.
  - pose proof (ws_strip_len _ _ _ E) as L. apply ws_strip_app in E as [-> _].
    destruct (IH r L) as [x Hx]. unfold keep_if_more.
    destruct (trim_end r) as [|c tr] eqn:Er.
    + exists (p ++ r). reflexivity.
    + exists x. rewrite <- app_assoc. f_equal. exact Hx.
  - destruct s as [|b t]; [exists []; reflexivity|].
    destruct (IH t) as [x Hx]; [cbn; lia|]. exists x. cbn. f_equal. exact Hx.
Qed.

Lemma trim_start_suffix : forall s, exists x, s = x ++ trim_start s.
Proof.
  induction s as [s IH] using len_ind. rewrite trim_start_eq.
  destruct (ws_strip s) as [[p r]|] eqn:E.
  - pose proof (ws_strip_len _ _ _ E) as L. apply ws_strip_app in E as [-> _].
    destruct (IH r L) as [x Hx]. exists (p ++ x). rewrite <- app_assoc. f_equal. exact Hx.
  - exists []. reflexivity.
Qed.

Lemma trim_start_fix : forall s, ws_strip s = None -> trim_start s = s.
Proof. intros s H. rewrite trim_start_eq, H. reflexivity. Qed.

Lemma trim_start_no_ws : forall s, ws_strip (trim_start s) = None.
Proof.
  induction s as [s IH] using len_ind. rewrite trim_start_eq.
  destruct (ws_strip s) as [[p r]|] eqn:E; [|exact E].
  apply IH. eapply ws_strip_len; eauto.
Qed.

(* ---------------------------------------------------------------- algebra *)

Lemma trim_start_idem : forall s, trim_start (trim_start s) = trim_start s.
Proof. intro s. apply trim_start_fix, trim_start_no_ws. Qed.

Lemma trim_end_idem : forall s, trim_end (trim_end s) = trim_end s.
Proof.
  induction s as [s IH] using len_ind. rewrite (trim_end_eq s).
  destruct (ws_strip s) as [[p r]|] eqn:E.
  - pose proof (ws_strip_len _ _ _ E) as L.
    unfold keep_if_more. destruct (trim_end r) as [|c tr] eqn:Er; [reflexivity|].
    rewrite trim_end_eq. rewrite (ws_strip_ext _ _ _ (c :: tr) E).
    rewrite <- Er, (IH r L), Er. reflexivity.
  - destruct s as [|b t]; [reflexivity|].
    destruct (trim_end_prefix t) as [x Hx].
    assert (N : ws_strip (b :: trim_end t) = None).
    { apply (ws_strip_none_prefix _ x). cbn. rewrite <- Hx. exact E. }
    rewrite trim_end_eq, N. f_equal. apply IH. cbn; lia.
Qed.

Lemma trim_start_end_comm : forall s, trim_start (trim_end s) = trim_end (trim_start s).
Proof.
  induction s as [s IH] using len_ind.
  rewrite (trim_end_eq s), (trim_start_eq s).
  destruct (ws_strip s) as [[p r]|] eqn:E.
  - pose proof (ws_strip_len _ _ _ E) as L. rewrite <- (IH r L).
    unfold keep_if_more. destruct (trim_end r) as [|c tr] eqn:Er; [reflexivity|].
    rewrite trim_start_eq, (ws_strip_ext _ _ _ (c :: tr) E). reflexivity.
  - rewrite (trim_end_eq s), E.
    destruct s as [|b t]; [reflexivity|].
    destruct (trim_end_prefix t) as [x Hx].
    apply trim_start_fix. apply (ws_strip_none_prefix _ x). cbn. rewrite <- Hx. exact E.
Qed.

Lemma trim_nil_l : trim_start [] = []. Proof. reflexivity. Qed.
Lemma trim_nil_r : trim_end [] = []. Proof. reflexivity. Qed.

(* ---------------------------------------------------------------- what is removed is White_Space *)

(* a concatenation of encoded White_Space characters *)
Inductive ws_run : bytes -> Prop :=
| ws_run_nil : ws_run []
| ws_run_cons : forall p w, ws_strip p = Some (p, []) -> ws_run w -> ws_run (p ++ w).

Lemma ws_strip_self : forall s p r, ws_strip s = Some (p, r) -> ws_strip p = Some (p, []).
Proof. intros s p r H. pose proof (ws_strip_ext _ _ _ [] H) as G. now rewrite app_nil_r in G. Qed.

Lemma trim_start_removes_ws : forall s, exists w, ws_run w /\ s = w ++ trim_start s.
Proof.
  induction s as [s IH] using len_ind. rewrite trim_start_eq.
  destruct (ws_strip s) as [[p r]|] eqn:E.
  - pose proof (ws_strip_len _ _ _ E) as L. destruct (IH r L) as [w [Hw Hr]].
    exists (p ++ w). split.
    + apply ws_run_cons; [eapply ws_strip_self; eauto|exact Hw].
    + apply ws_strip_app in E as [-> _]. rewrite <- app_assoc. f_equal. exact Hr.
  - exists []. split; [constructor|reflexivity].
Qed.

Lemma trim_end_removes_ws : forall s, exists w, ws_run w /\ s = trim_end s ++ w.
Proof.
  induction s as [s IH] using len_ind. rewrite trim_end_eq.
  destruct (ws_strip s) as [[p r]|] eqn:E.
  - pose proof (ws_strip_len _ _ _ E) as L. destruct (IH r L) as [w [Hw Hr]].
    pose proof E as E'. apply ws_strip_app in E' as [-> _].
    unfold keep_if_more. destruct (trim_end r) as [|c tr] eqn:Er.
    + exists (p ++ w). split; [apply ws_run_cons; [eapply ws_strip_self; eauto|exact Hw]|]. cbn in Hr. now rewrite <- Hr.
    + exists w. split; [exact Hw|]. rewrite <- app_assoc. f_equal. exact Hr.
  - destruct s as [|b t]; [exists []; split; [constructor|reflexivity]|].
    destruct (IH t) as [w [Hw Ht]]; [cbn; lia|]. exists w. split; [exact Hw|]. cbn. f_equal. exact Ht.
Qed.

(* the byte patterns are exactly the encodings of the 25 White_Space code points *)
Lemma ws_patterns_are_white_space : forall cp, (cp <? 0x3100) = true ->
  is_ws_cp cp = match ws_strip (utf8_encode_cp cp) with Some (_, []) => true | _ => false end.
Proof.
  intros cp H.
  assert (G : forallb (fun cp => Bool.eqb (is_ws_cp cp)
      (match ws_strip (utf8_encode_cp cp) with Some (_, []) => true | _ => false end))
      (map N.of_nat (seq 0 (N.to_nat 0x3100))) = true) by (vm_compute; reflexivity).
  rewrite forallb_forall in G. specialize (G cp).
  apply Bool.eqb_prop. apply G.
  apply N.ltb_lt in H. replace cp with (N.of_nat (N.to_nat cp)) by apply N2Nat.id.
  apply in_map. apply in_seq. lia.
Qed.
