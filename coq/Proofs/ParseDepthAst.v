(* C06 — the depth of the AST returned by the modelled parser is bounded by the limits alone
   (Model/ParseDepth.v with both repair limits present).  Forward reasoning on accepted runs:
   every component's Ok-result is related to its start state by TR (counters restored, height
   only grows, and never beyond E + remaining nesting budget) and carries a depth bound. *)
From Coq Require Import List Arith Bool ZArith Lia.
From TeraV Require Import Model.ParseDepth Proofs.ParseDepthEqs.
Import ListNotations.
Local Open Scope nat_scope.

Lemma dl_eq : forall cs,
  (fix dl (l : list tree) : nat := match l with [] => 0 | c :: r => Nat.max (ast_depth c) (dl r) end) cs
  = depth_list cs.
Proof. induction cs as [|c r IH]; simpl; [reflexivity | rewrite IH; reflexivity]. Qed.
Lemma ast_depth_T : forall k cs, ast_depth (T k cs) = S (depth_list cs).
Proof. intros. simpl. rewrite dl_eq. reflexivity. Qed.
Lemma depth_list_app : forall a b, depth_list (a ++ b) = Nat.max (depth_list a) (depth_list b).
Proof. induction a as [|x a IH]; intro b; simpl; [reflexivity | rewrite IH; lia]. Qed.
Lemma depth_list_cons : forall x a, depth_list (x :: a) = Nat.max (ast_depth x) (depth_list a).
Proof. reflexivity. Qed.
Lemma depth_list_nil : depth_list [] = 0. Proof. reflexivity. Qed.

(* ---------------- inversion of accepted runs *)

Lemma bind_ok : forall A B (m : M A) (k : A -> M B) s b s2,
  bind m k s = ROk b s2 -> exists a s1, m s = ROk a s1 /\ k a s1 = ROk b s2.
Proof. intros A B m k s b s2 H. unfold bind in H. destruct (m s) as [a s1| | |]; try discriminate. eauto. Qed.
Lemma ret_ok : forall A (a b : A) s s2, ret a s = ROk b s2 -> a = b /\ s = s2.
Proof. intros A a b s s2 H. inversion H. auto. Qed.
Lemma call_ok : forall A (m : M A) s a s2,
  call m s = ROk a s2 -> exists s1, m (enter s) = ROk a s1 /\ s2 = leave s1.
Proof. intros A m s a s2 H. unfold call in H. destruct (m (enter s)) as [x s1| | |]; inversion H. eauto. Qed.
Lemma peek_ok : forall s o s2, peek s = ROk o s2 -> s2 = s.
Proof. intros s o s2 H. inversion H. reflexivity. Qed.
Lemma peek2_ok : forall s o s2, peek2 s = ROk o s2 -> s2 = s.
Proof. intros s o s2 H. inversion H. reflexivity. Qed.
Lemma next_ok : forall s t s2, next_or_error s = ROk t s2 -> exists r, s2 = set_toks r s.
Proof.
  intros s t s2 H. unfold next_or_error in H. destruct (toks s) as [|u r]; [discriminate|].
  destruct u; inversion H; eauto.
Qed.
Lemma expect_ok : forall p s t s2, expect p s = ROk t s2 -> exists r, s2 = set_toks r s.
Proof.
  intros p s t s2 H. unfold expect in H. apply bind_ok in H. destruct H as (a & s1 & H1 & H2).
  apply next_ok in H1. destruct (p a); [|discriminate]. inversion H2. subst. exact H1.
Qed.
Lemma expect_ident_ok : forall s w s2, expect_ident s = ROk w s2 -> exists r, s2 = set_toks r s.
Proof.
  intros s w s2 H. unfold expect_ident in H. apply bind_ok in H. destruct H as (a & s1 & H1 & H2).
  apply next_ok in H1. destruct a; try discriminate. inversion H2. subst. exact H1.
Qed.
Lemma next_is_ok : forall t s b s2, next_is t s = ROk b s2 -> s2 = s.
Proof. intros t s b s2 H. inversion H. reflexivity. Qed.
Lemma get_ok : forall A (f : st -> A) s a s2, get f s = ROk a s2 -> s2 = s.
Proof. intros A f s a s2 H. inversion H. reflexivity. Qed.
Lemma upd_ok : forall f s u s2, upd f s = ROk u s2 -> s2 = f s.
Proof. intros f s u s2 H. inversion H. reflexivity. Qed.

Section Ast.
Variable C : cfg.
Variables E L : nat.
Hypothesis HE : c_expr_limit C = Some E.
Hypothesis HL : c_elif_limit C = Some L.

Definition MAXR := c_max_rd C.
(* the height a level may reach: the chain limit plus one per nesting level still available *)
Definition hb (s : st) : nat := E + (MAXR - rd s).
Definition ED : nat := E + MAXR.
Definition NB (s : st) : nat := ED + 3 + (MAXR - rd s) + (L - el s).
Definition XB (s : st) : nat := ED + 2 + (MAXR - rd s) + (L - el s).

Definition TR (s s' : st) : Prop :=
  rd s' = rd s /\ el s' = el s /\ ht s <= ht s' /\ ht s' <= Nat.max (ht s) (hb s).

Lemma bump_ok : forall s u s2, bump C s = ROk u s2 -> S (ht s) <= E /\ s2 = set_ht (S (ht s)) s.
Proof.
  intros s u s2 H. unfold bump in H. rewrite HE in H.
  destruct (E <? S (ht s)) eqn:Hc; [discriminate|]. apply Nat.ltb_ge in Hc. inversion H. auto.
Qed.
Lemma counted_ok : forall A (m : M A) s a s2,
  counted C m s = ROk a s2 ->
  S (rd s) <= MAXR /\ exists s1, m (set_rd (S (rd s)) s) = ROk a s1 /\ s2 = set_rd (pred (rd s1)) s1.
Proof.
  intros A m s a s2 H. unfold counted in H. cbn [rd set_rd] in H.
  destruct (c_max_rd C <? S (rd s)) eqn:Hc; [discriminate|]. apply Nat.ltb_ge in Hc.
  destruct (m (set_rd (S (rd s)) s)) as [x s1| | |]; inversion H. split; [exact Hc | eauto].
Qed.
Lemma sub_height_ok : forall A (m : M A) s a s2,
  sub_height m s = ROk a s2 ->
  exists s1, m (set_ht 0 s) = ROk a s1 /\ s2 = set_ht (Nat.max (ht s) (S (ht s1))) s1.
Proof.
  intros A m s a s2 H. unfold sub_height in H.
  destruct (m (set_ht 0 s)) as [x s1| | |]; inversion H. eauto.
Qed.
Lemma elif_counted_ok : forall A (m : M A) s a s2,
  elif_counted C m s = ROk a s2 ->
  S (el s) <= L /\ exists s1, m (set_el (S (el s)) s) = ROk a s1 /\ s2 = set_el (pred (el s1)) s1.
Proof.
  intros A m s a s2 H. unfold elif_counted in H. rewrite HL in H. cbn [el set_el] in H.
  destruct (L <? S (el s)) eqn:Hc; [discriminate|]. apply Nat.ltb_ge in Hc.
  destruct (m (set_el (S (el s)) s)) as [x s1| | |]; inversion H. split; [exact Hc | eauto].
Qed.

Record specs (f : nat) : Prop := {
  s_ipe : forall bp s t s', inner_parse_expression C f bp s = ROk t s' -> TR s s' /\ ast_depth t <= ht s';
  s_pe : forall bp s t s', parse_expression C f bp s = ROk t s' -> TR s s' /\ ast_depth t <= ht s';
  s_peb : forall bp s t s', parse_expr_bp C f bp s = ROk t s' -> TR s s' /\ ast_depth t <= ht s' + 1;
  s_bpl : forall bp n lhs s t s', bp_loop C f bp n lhs s = ROk t s' -> ast_depth lhs <= ht s + 1 ->
            TR s s' /\ ast_depth t <= ht s' + 1;
  s_pi : forall s t s', parse_ident C f s = ROk t s' -> TR s s' /\ ast_depth t <= ht s' + 1;
  s_il : forall e s t s', ident_loop C f e s = ROk t s' -> ast_depth e <= ht s + 1 ->
            TR s s' /\ ast_depth t <= ht s' + 1;
  s_ps : forall e s t s', parse_subscript C f e s = ROk t s' -> ast_depth e <= ht s + 1 ->
            TR s s' /\ ast_depth t <= ht s' + 1;
  s_pk : forall s l s', parse_kwargs C f s = ROk l s' -> TR s s' /\ depth_list l <= ht s';
  s_kl : forall ns acc s l s', kwargs_loop C f ns acc s = ROk l s' -> depth_list acc <= ht s ->
            TR s s' /\ depth_list l <= ht s';
  s_pf : forall e s t s', parse_filter C f e s = ROk t s' ->
            TR s s' /\ ast_depth t <= Nat.max (ast_depth e) (ht s') + 1;
  s_pm : forall s t s', parse_map C f s = ROk t s' -> TR s s' /\ ast_depth t <= ht s' + 1;
  s_ml : forall b acc s t s', map_loop C f b acc s = ROk t s' -> depth_list acc <= ht s ->
            TR s s' /\ ast_depth t <= ht s' + 1;
  s_pa : forall s t s', parse_array C f s = ROk t s' -> TR s s' /\ ast_depth t <= ht s' + 1;
  s_al : forall b acc s t s', array_loop C f b acc s = ROk t s' -> depth_list acc <= ht s ->
            TR s s' /\ ast_depth t <= ht s' + 1;
  s_plc : forall e s t s', parse_list_comprehension C f e s = ROk t s' -> ast_depth e <= ht s ->
            TR s s' /\ ast_depth t <= ht s' + 1;
  s_pu : forall endp s l s', parse_until C f endp s = ROk l s' -> ht s <= ED ->
            TR s s' /\ depth_list l <= XB s;
  s_ul : forall endp acc s l s', until_loop C f endp acc s = ROk l s' -> ht s <= ED -> depth_list acc <= NB s ->
            TR s s' /\ depth_list l <= NB s;
  s_pt : forall s l s', parse_tag C f s = ROk l s' -> ht s <= ED -> TR s s' /\ depth_list l <= NB s;
  s_pfor : forall s t s', parse_for_loop C f s = ROk t s' -> ht s <= ED -> TR s s' /\ ast_depth t <= NB s;
  s_pif : forall s t s', parse_if C f s = ROk t s' -> ht s <= ED -> TR s s' /\ ast_depth t <= NB s;
  s_pset : forall s t s', parse_set C f s = ROk t s' -> ht s <= ED -> TR s s' /\ ast_depth t <= NB s;
  s_sfl : forall acc s l s', set_filters_loop C f acc s = ROk l s' -> ht s <= ED -> depth_list acc <= ED + 2 ->
            TR s s' /\ depth_list l <= ED + 2 }.

Lemma specs_0 : specs 0.
Proof. constructor; intros; discriminate. Qed.

Ltac norm :=
  cbn [rd el ht enter leave set_toks set_rd set_ht set_el set_ad set_nb set_ctxs set_blocks opt_list app] in *.

Ltac arith :=
  repeat match goal with |- context [if ?b then _ else _] => destruct b end;
  unfold TR, hb, NB, XB, ED, MAXR in *; norm;
  repeat first [ rewrite ast_depth_T in * | rewrite depth_list_app in * | rewrite depth_list_cons in *
               | rewrite depth_list_nil in * ];
  lia.

Ltac use_ih :=
  match goal with
  | IH : specs ?f, H : inner_parse_expression C ?f _ _ = ROk _ _ |- _ => apply (s_ipe f IH) in H; destruct H as [? ?]
  | IH : specs ?f, H : parse_expression C ?f _ _ = ROk _ _ |- _ => apply (s_pe f IH) in H; destruct H as [? ?]
  | IH : specs ?f, H : parse_expr_bp C ?f _ _ = ROk _ _ |- _ => apply (s_peb f IH) in H; destruct H as [? ?]
  | IH : specs ?f, H : bp_loop C ?f _ _ _ _ = ROk _ _ |- _ => apply (s_bpl f IH) in H; [destruct H as [? ?] | arith]
  | IH : specs ?f, H : parse_ident C ?f _ = ROk _ _ |- _ => apply (s_pi f IH) in H; destruct H as [? ?]
  | IH : specs ?f, H : ident_loop C ?f _ _ = ROk _ _ |- _ => apply (s_il f IH) in H; [destruct H as [? ?] | arith]
  | IH : specs ?f, H : parse_subscript C ?f _ _ = ROk _ _ |- _ => apply (s_ps f IH) in H; [destruct H as [? ?] | arith]
  | IH : specs ?f, H : parse_kwargs C ?f _ = ROk _ _ |- _ => apply (s_pk f IH) in H; destruct H as [? ?]
  | IH : specs ?f, H : kwargs_loop C ?f _ _ _ = ROk _ _ |- _ => apply (s_kl f IH) in H; [destruct H as [? ?] | arith]
  | IH : specs ?f, H : parse_filter C ?f _ _ = ROk _ _ |- _ => apply (s_pf f IH) in H; destruct H as [? ?]
  | IH : specs ?f, H : parse_map C ?f _ = ROk _ _ |- _ => apply (s_pm f IH) in H; destruct H as [? ?]
  | IH : specs ?f, H : map_loop C ?f _ _ _ = ROk _ _ |- _ => apply (s_ml f IH) in H; [destruct H as [? ?] | arith]
  | IH : specs ?f, H : parse_array C ?f _ = ROk _ _ |- _ => apply (s_pa f IH) in H; destruct H as [? ?]
  | IH : specs ?f, H : array_loop C ?f _ _ _ = ROk _ _ |- _ => apply (s_al f IH) in H; [destruct H as [? ?] | arith]
  | IH : specs ?f, H : parse_list_comprehension C ?f _ _ = ROk _ _ |- _ => apply (s_plc f IH) in H; [destruct H as [? ?] | arith]
  | IH : specs ?f, H : parse_until C ?f _ _ = ROk _ _ |- _ => apply (s_pu f IH) in H; [destruct H as [? ?] | arith]
  | IH : specs ?f, H : until_loop C ?f _ _ _ = ROk _ _ |- _ => apply (s_ul f IH) in H; [destruct H as [? ?] | arith | arith]
  | IH : specs ?f, H : parse_tag C ?f _ = ROk _ _ |- _ => apply (s_pt f IH) in H; [destruct H as [? ?] | arith]
  | IH : specs ?f, H : parse_for_loop C ?f _ = ROk _ _ |- _ => apply (s_pfor f IH) in H; [destruct H as [? ?] | arith]
  | IH : specs ?f, H : parse_if C ?f _ = ROk _ _ |- _ => apply (s_pif f IH) in H; [destruct H as [? ?] | arith]
  | IH : specs ?f, H : parse_set C ?f _ = ROk _ _ |- _ => apply (s_pset f IH) in H; [destruct H as [? ?] | arith]
  | IH : specs ?f, H : set_filters_loop C ?f _ _ = ROk _ _ |- _ => apply (s_sfl f IH) in H; [destruct H as [? ?] | arith | arith]
  end.

Ltac inv1 :=
  match goal with
  | H : bind _ _ _ = ROk _ _ |- _ => apply bind_ok in H; destruct H as (? & ? & ? & H)
  | H : ret _ _ = ROk _ _ |- _ => apply ret_ok in H; destruct H as [? ?]; subst
  | H : err _ = ROk _ _ |- _ => discriminate H
  | H : panic _ = ROk _ _ |- _ => discriminate H
  | H : call _ _ = ROk _ _ |- _ => apply call_ok in H; destruct H as (? & H & ?); subst
  | H : counted C _ _ = ROk _ _ |- _ => apply counted_ok in H; destruct H as (? & ? & H & ?); subst
  | H : sub_height _ _ = ROk _ _ |- _ => apply sub_height_ok in H; destruct H as (? & H & ?); subst
  | H : elif_counted C _ _ = ROk _ _ |- _ => apply elif_counted_ok in H; destruct H as (? & ? & H & ?); subst
  | H : bump C _ = ROk _ _ |- _ => apply bump_ok in H; destruct H as [? ?]; subst
  | H : peek _ = ROk _ _ |- _ => apply peek_ok in H; subst
  | H : peek2 _ = ROk _ _ |- _ => apply peek2_ok in H; subst
  | H : next_is _ _ = ROk _ _ |- _ => apply next_is_ok in H; subst
  | H : next_or_error _ = ROk _ _ |- _ => apply next_ok in H; destruct H as [? ?]; subst
  | H : expect_tok _ _ = ROk _ _ |- _ => apply expect_ok in H; destruct H as [? ?]; subst
  | H : expect _ _ = ROk _ _ |- _ => apply expect_ok in H; destruct H as [? ?]; subst
  | H : expect_ident _ = ROk _ _ |- _ => apply expect_ident_ok in H; destruct H as [? ?]; subst
  | H : get _ _ = ROk _ _ |- _ => apply get_ok in H; subst
  | H : upd _ _ = ROk _ _ |- _ => apply upd_ok in H; subst
  | H : push_ctx _ _ = ROk _ _ |- _ => apply upd_ok in H; subst
  | H : pop_ctx _ = ROk _ _ |- _ => apply upd_ok in H; subst
  | _ => use_ih
  | H : (if ?b then _ else _) _ = ROk _ _ |- _ => destruct b eqn:?
  | H : (match ?x with _ => _ end) _ = ROk _ _ |- _ => destruct x eqn:?
  end.

Ltac fwd := repeat inv1; try (split; arith).

Lemma specs_S : forall f, specs f -> specs (S f).
Proof.
  intros f IH.
  constructor.
  - intros bp s t s' H. rewrite inner_parse_expression_eq in H. fwd.
  - intros bp s t s' H. rewrite parse_expression_eq in H. fwd.
  - intros bp s t s' H. rewrite parse_expr_bp_eq in H. fwd.
  - intros bp n lhs s t s' H Hp. rewrite bp_loop_eq in H. fwd.
  - intros s t s' H. rewrite parse_ident_eq in H. fwd.
  - intros e s t s' H Hp. rewrite ident_loop_eq in H. fwd.
  - intros e s t s' H Hp. rewrite parse_subscript_eq in H. fwd.
  - intros s l s' H. rewrite parse_kwargs_eq in H. fwd.
  - intros ns acc s l s' H Hp. rewrite kwargs_loop_eq in H. fwd.
  - intros e s t s' H. rewrite parse_filter_eq in H. fwd.
  - intros s t s' H. rewrite parse_map_eq in H. fwd.
  - intros b acc s t s' H Hp. rewrite map_loop_eq in H. cbv zeta in H. fwd.
  - intros s t s' H. rewrite parse_array_eq in H. fwd.
  - intros b acc s t s' H Hp. rewrite array_loop_eq in H. cbv zeta in H. fwd.
  - intros e s t s' H Hp. rewrite parse_list_comprehension_eq in H. fwd.
  - intros endp s l s' H Hp. rewrite parse_until_eq in H. fwd.
  - intros endp acc s l s' H Hp Hq. rewrite until_loop_eq in H. fwd.
  - intros s l s' H Hp. rewrite parse_tag_eq in H. fwd.
  - intros s t s' H Hp. rewrite parse_for_loop_eq in H. fwd.
  - intros s t s' H Hp. rewrite parse_if_eq in H. fwd.
  - intros s t s' H Hp. rewrite parse_set_eq in H. fwd.
  - intros acc s l s' H Hp Hq. rewrite set_filters_loop_eq in H. fwd.
Qed.

Lemma specs_any : forall f, specs f.
Proof. induction f; [apply specs_0 | apply specs_S; assumption]. Qed.

(* every node list the parser accepts is at most E + 2 * MAX_RECURSION_DEPTH + L + 2 deep *)
Theorem ast_depth_bounded : forall fuel ts nodes s,
  parse C fuel ts = ROk nodes s -> depth_list nodes <= E + 2 * c_max_rd C + L + 2.
Proof.
  intros fuel ts nodes s H. unfold parse in H.
  apply call_ok in H. destruct H as (s1 & H & _).
  apply call_ok in H. destruct H as (s2 & H & _).
  apply (s_pu _ (specs_any fuel)) in H.
  - destruct H as [_ H]. unfold XB, ED, MAXR in H. cbn [rd el enter init] in H. lia.
  - unfold ED. cbn [ht enter init]. lia.
Qed.

End Ast.
