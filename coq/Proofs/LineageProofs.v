(* C04 — the lineage passes of finalize_templates against the specification, for every
   iteration order of the maps involved. *)
From Coq Require Import List NArith Bool Arith Lia Permutation.
From TeraV Require Import Model.Lineage Spec.Inherit Proofs.LineageRender.
Import ListNotations.

(* ------------------------------------------------------------------ association lists *)

Lemma alookup_ainsert : forall V k k' (v : V) m,
  alookup k (ainsert k' v m) = if N.eqb k k' then Some v else alookup k m.
Proof.
  induction m as [|[k0 v0] m IH]; cbn.
  - destruct (N.eqb k k'); auto.
  - destruct (N.eqb k' k0) eqn:E0; cbn.
    + apply N.eqb_eq in E0. subst k0. destruct (N.eqb k k'); auto.
    + destruct (N.eqb k k0) eqn:E1.
      * apply N.eqb_eq in E1. subst k0. rewrite N.eqb_sym, E0. reflexivity.
      * exact IH.
Qed.

Lemma keys_ainsert_in : forall V k (v : V) m x,
  In x (map fst (ainsert k v m)) <-> x = k \/ In x (map fst m).
Proof.
  induction m as [|[k0 v0] m IH]; cbn; intros x.
  - intuition.
  - destruct (N.eqb k k0) eqn:E; cbn.
    + apply N.eqb_eq in E. subst. intuition.
    + rewrite IH. intuition.
Qed.

Lemma nodup_ainsert : forall V k (v : V) m, NoDup (map fst m) -> NoDup (map fst (ainsert k v m)).
Proof.
  induction m as [|[k0 v0] m IH]; cbn; intros H.
  - constructor; [intros []|constructor].
  - inversion H; subst. destruct (N.eqb k k0) eqn:E; cbn.
    + apply N.eqb_eq in E. subst. constructor; auto.
    + constructor; auto. rewrite keys_ainsert_in. intros [->|Hin]; auto.
      rewrite N.eqb_refl in E. discriminate.
Qed.

Lemma alookup_aor_insert : forall V k k' (v : V) m,
  alookup k (aor_insert k' v m) =
  match alookup k m with Some x => Some x | None => if N.eqb k k' then Some v else None end.
Proof.
  intros. unfold aor_insert, amem. destruct (alookup k' m) eqn:E.
  - destruct (alookup k m) eqn:E2; auto. destruct (N.eqb k k') eqn:E3; auto.
    apply N.eqb_eq in E3. subst. congruence.
  - rewrite alookup_ainsert. destruct (N.eqb k k') eqn:E3.
    + apply N.eqb_eq in E3. subst. now rewrite E.
    + destruct (alookup k m); auto.
Qed.

Lemma nodup_aor_insert : forall V k (v : V) m, NoDup (map fst m) -> NoDup (map fst (aor_insert k v m)).
Proof.
  intros. unfold aor_insert. destruct (amem k m); auto. now apply nodup_ainsert.
Qed.

Lemma alookup_merge : forall pb child k,
  alookup k (merge_blocks child pb) =
  match alookup k child with Some x => Some x | None => alookup k pb end.
Proof.
  unfold merge_blocks. induction pb as [|[b l] pb IH]; intros child k; cbn.
  - destruct (alookup k child); auto.
  - rewrite IH, alookup_aor_insert.
    destruct (alookup k child); auto. destruct (N.eqb k b); auto.
Qed.

Lemma nodup_merge : forall pb child, NoDup (map fst child) -> NoDup (map fst (merge_blocks child pb)).
Proof.
  unfold merge_blocks. induction pb as [|[b l] pb IH]; intros child H; cbn; auto.
  apply IH. now apply nodup_aor_insert.
Qed.

Lemma alookup_in : forall V (m : list (name * V)) k v, alookup k m = Some v -> In (k, v) m.
Proof.
  induction m as [|[k0 v0] m IH]; cbn; intros k v H; [discriminate|].
  destruct (N.eqb k k0) eqn:E.
  - apply N.eqb_eq in E. inversion H; subst. auto.
  - right. auto.
Qed.

Lemma in_alookup : forall V (m : list (name * V)) k v,
  NoDup (map fst m) -> In (k, v) m -> alookup k m = Some v.
Proof.
  induction m as [|[k0 v0] m IH]; cbn; intros k v Hnd Hin; [contradiction|].
  inversion Hnd; subst. destruct Hin as [Heq|Hin].
  - inversion Heq; subst. now rewrite N.eqb_refl.
  - destruct (N.eqb k k0) eqn:E.
    + apply N.eqb_eq in E. subst. exfalso. apply H1. apply (in_map fst) in Hin. exact Hin.
    + auto.
Qed.

Lemma alookup_perm : forall V (m m' : list (name * V)) k,
  NoDup (map fst m) -> Permutation m' m -> alookup k m' = alookup k m.
Proof.
  intros V m m' k Hnd Hp.
  assert (Hnd' : NoDup (map fst m')).
  { eapply Permutation_NoDup; [|exact Hnd]. apply Permutation_map. now apply Permutation_sym. }
  destruct (alookup k m) eqn:E.
  - apply alookup_in in E. apply in_alookup; auto. eapply Permutation_in; [|exact E]. now apply Permutation_sym.
  - destruct (alookup k m') eqn:E'; auto.
    apply alookup_in in E'. eapply Permutation_in in E'; [|exact Hp].
    apply in_alookup in E'; auto. congruence.
Qed.

Lemma alookup_none_keys : forall V (m : list (name * V)) k, alookup k m = None <-> ~ In k (map fst m).
Proof.
  induction m as [|[k0 v0] m IH]; cbn; intros k.
  - intuition.
  - destruct (N.eqb k k0) eqn:E.
    + apply N.eqb_eq in E. subst. split; [discriminate|]. intros H. exfalso. auto.
    + rewrite IH. apply N.eqb_neq in E. intuition.
Qed.

Lemma alookup_app : forall V (a b : list (name * V)) k,
  alookup k (a ++ b) = match alookup k a with Some x => Some x | None => alookup k b end.
Proof.
  induction a as [|[k0 v0] a IH]; cbn; intros; auto. destruct (N.eqb k k0); auto.
Qed.

Lemma alookup_map : forall V W (g : V -> W) (m : list (name * V)) k,
  alookup k (map (fun '(b, x) => (b, g x)) m) = option_map g (alookup k m).
Proof.
  induction m as [|[k0 v0] m IH]; cbn; intros; auto. destruct (N.eqb k k0); auto.
Qed.

Lemma nodupb_NoDup : forall l, nodupb l = true -> NoDup l.
Proof.
  induction l; cbn; intros H; [constructor|].
  apply andb_true_iff in H. destruct H as [H1 H2]. constructor; auto.
  intros Hin. apply negb_true_iff in H1.
  assert (existsb (N.eqb a) l = true); [|congruence].
  apply existsb_exists. exists a. split; auto. apply N.eqb_refl.
Qed.

(* ------------------------------------------------------------------ registry facts *)

Definition names (reg : list ctemplate) : list name := map c_name reg.

Lemma get_tpl_some : forall reg n t, get_tpl reg n = Some t -> In t reg /\ c_name t = n.
Proof.
  induction reg as [|c reg IH]; cbn; intros n t H; [discriminate|].
  destruct (N.eqb n (c_name c)) eqn:E.
  - apply N.eqb_eq in E. inversion H; subst. auto.
  - apply IH in H. intuition.
Qed.

Lemma get_tpl_in : forall reg t, NoDup (names reg) -> In t reg -> get_tpl reg (c_name t) = Some t.
Proof.
  induction reg as [|c reg IH]; cbn; intros t Hnd Hin; [contradiction|].
  inversion Hnd; subst. destruct Hin as [->|Hin].
  - now rewrite N.eqb_refl.
  - destruct (N.eqb (c_name t) (c_name c)) eqn:E.
    + apply N.eqb_eq in E. exfalso. apply H1. rewrite <- E. now apply in_map.
    + auto.
Qed.

(* nearest-first ancestor names of the template called n *)
Inductive anc_names (reg : list ctemplate) : name -> list name -> Prop :=
| AN_root : forall t n, get_tpl reg n = Some t -> c_extends t = None -> anc_names reg n []
| AN_step : forall t n p l, get_tpl reg n = Some t -> c_extends t = Some p ->
                            anc_names reg p l -> anc_names reg n (p :: l).

Lemma an_det : forall reg n l, anc_names reg n l -> forall l', anc_names reg n l' -> l = l'.
Proof.
  induction 1; intros l' H'; inversion H'; subst; try congruence.
  assert (t0 = t) by congruence. subst. assert (p0 = p) by congruence. subst.
  f_equal. auto.
Qed.

Lemma an_tail : forall reg n p l, anc_names reg n (p :: l) -> anc_names reg p l.
Proof. intros. inversion H; subst. auto. Qed.

Lemma an_resolves : forall reg n l, anc_names reg n l ->
  Forall (fun p => exists pt, get_tpl reg p = Some pt) l.
Proof.
  induction 1; constructor; auto. inversion H1; subst; eauto.
Qed.

Lemma an_self : forall reg n l, anc_names reg n l -> exists t, get_tpl reg n = Some t.
Proof. intros. inversion H; eauto. Qed.

Lemma find_parents_ok : forall f reg start t acc ps,
  find_parents f reg start t acc = Ok ps ->
  get_tpl reg (c_name t) = Some t ->
  exists l, anc_names reg (c_name t) l /\ ps = rev (acc ++ l) /\ ~ In start l.
Proof.
  induction f as [|f IH]; cbn; intros reg start t acc ps H Hg; [discriminate|].
  destruct (c_extends t) as [p|] eqn:Ee.
  - destruct (get_tpl reg p) as [parent|] eqn:Ep; [|discriminate].
    destruct (N.eqb p start || existsb (N.eqb p) acc) eqn:Ec; [discriminate|].
    apply orb_false_iff in Ec. destruct Ec as [Ec _]. apply N.eqb_neq in Ec.
    destruct (get_tpl_some _ _ _ Ep) as [_ Hn].
    apply IH in H; [|now rewrite Hn].
    destruct H as (l & Ha & Hps & Hni). rewrite Hn in Ha.
    exists (p :: l). split; [|split].
    + eapply AN_step; eauto.
    + rewrite Hps, Hn, <- app_assoc. reflexivity.
    + intros [He|Hi]; auto.
  - inversion H; subst. exists []. split; [|split].
    + eapply AN_root; eauto.
    + now rewrite app_nil_r.
    + intros [].
Qed.

(* nearest-first ancestors as recorded in tpl_parents *)
Definition ancl (P : list (name * list name)) (n : name) : list name :=
  match alookup n P with Some ps => rev ps | None => [] end.

Definition parents_ok (reg : list ctemplate) (P : list (name * list name)) : Prop :=
  NoDup (map fst P) /\
  (forall t, In t reg -> alookup (c_name t) P <> None /\
                         anc_names reg (c_name t) (ancl P (c_name t)) /\
                         ~ In (c_name t) (ancl P (c_name t))) /\
  (forall n, In n (map fst P) -> In n (names reg)).

Lemma loop1_ok : forall reg todo P,
  NoDup (names reg) -> incl todo reg -> loop1 reg todo = Ok P ->
  NoDup (map fst P) /\
  (forall n, In n (map fst P) <-> In n (names todo)) /\
  (forall t, In t todo -> exists l, alookup (c_name t) P = Some (rev l) /\
                                    anc_names reg (c_name t) l /\ ~ In (c_name t) l).
Proof.
  intros reg todo. induction todo as [|t todo IH]; cbn [loop1]; intros P Hnd Hincl H.
  - inversion H; subst. cbn. split; [constructor|]. split; [intuition|]. intros t [].
  - destruct (find_parents (S (length reg)) reg (c_name t) t []) as [ps|] eqn:Ef; [|discriminate].
    cbn [rbind] in H. destruct (loop1 reg todo) as [m|] eqn:El; [|discriminate]. cbn [rbind] in H.
    inversion H; subst. clear H.
    assert (Hincl' : incl todo reg) by (intros x Hx; apply Hincl; now right).
    destruct (IH m Hnd Hincl' eq_refl) as (Hk & Hkeys & Hall).
    split; [now apply nodup_ainsert|]. split.
    + intros n. rewrite keys_ainsert_in, Hkeys. cbn. split; intros [Hx|Hx]; auto.
    + intros t' [->|Hin].
      * assert (Hg : get_tpl reg (c_name t') = Some t') by (apply get_tpl_in; auto; apply Hincl; now left).
        destruct (find_parents_ok _ _ _ _ _ _ Ef Hg) as (l & Ha & Hps & Hni).
        exists l. rewrite alookup_ainsert, N.eqb_refl. cbn in Hps. subst ps. auto.
      * destruct (Hall t' Hin) as (l & Hl & Ha & Hni).
        rewrite alookup_ainsert. destruct (N.eqb (c_name t') (c_name t)) eqn:E; eauto.
        (* same name: same template *)
        apply N.eqb_eq in E.
        assert (t' = t).
        { assert (G1 := get_tpl_in reg t' Hnd (Hincl' _ Hin)).
          assert (G2 := get_tpl_in reg t Hnd (Hincl _ (or_introl eq_refl))).
          rewrite E in G1. congruence. }
        subst t'.
        assert (Hg : get_tpl reg (c_name t) = Some t) by (apply get_tpl_in; auto; apply Hincl; now left).
        destruct (find_parents_ok _ _ _ _ _ _ Ef Hg) as (l2 & Ha2 & Hps & Hni2).
        exists l2. cbn in Hps. subst ps. auto.
Qed.

Lemma loop1_parents_ok : forall reg P,
  NoDup (names reg) -> loop1 reg reg = Ok P -> parents_ok reg P.
Proof.
  intros reg P Hnd H. destruct (loop1_ok reg reg P Hnd (incl_refl _) H) as (Hk & Hkeys & Hall).
  split; auto. split.
  - intros t Hin. destruct (Hall t Hin) as (l & Hl & Ha & Hni).
    unfold ancl. rewrite Hl, rev_involutive. split; [congruence|]. auto.
  - intros n. apply Hkeys.
Qed.

(* ------------------------------------------------------------------ lineage along a name list *)

Fixpoint clin (reg : list ctemplate) (l : list name) (b : name) : list code :=
  match l with
  | [] => []
  | p :: l' =>
      match get_tpl reg p with
      | None => []
      | Some pt =>
          match alookup b (c_blocks pt) with
          | Some c => c :: (if calls_super c then clin reg l' b else [])
          | None => clin reg l' b
          end
      end
  end.

Definition own (reg : list ctemplate) (t : ctemplate) (l : list name) (b : name) : option (list code) :=
  match alookup b (c_blocks t) with
  | Some c => Some (c :: (if calls_super c then clin reg l b else []))
  | None => None
  end.

Lemma clin_cons : forall reg n t l b, get_tpl reg n = Some t ->
  nonempty (clin reg (n :: l) b) =
  match own reg t l b with Some x => Some x | None => nonempty (clin reg l b) end.
Proof.
  intros. cbn. rewrite H. unfold own. destruct (alookup b (c_blocks t)); auto.
Qed.

Lemma walk_parents_clin : forall reg l b,
  Forall (fun p => exists pt, get_tpl reg p = Some pt) l ->
  walk_parents reg l b = Ok (clin reg l b).
Proof.
  induction 1 as [|p l [pt Hp] _ IH]; cbn; auto.
  rewrite Hp. destruct (alookup b (c_blocks pt)) as [c|]; auto.
  destruct (calls_super c); auto. now rewrite IH.
Qed.

Lemma own_lineage_ok : forall reg parents bl,
  Forall (fun p => exists pt, get_tpl reg p = Some pt) (rev parents) ->
  exists m, own_lineage reg parents bl = Ok m /\ NoDup (map fst m) /\
            forall b, alookup b m =
                      match alookup b bl with
                      | Some c => Some (c :: (if calls_super c then clin reg (rev parents) b else []))
                      | None => None
                      end.
Proof.
  intros reg parents bl HF. induction bl as [|[b0 c0] bl IH]; cbn.
  - exists []. split; auto. split; [constructor|]. auto.
  - destruct IH as (m & Hm & Hnd & Hl). rewrite Hm.
    assert (Hr : (if calls_super c0 then walk_parents reg (rev parents) b0 else Ok []) =
                 Ok (if calls_super c0 then clin reg (rev parents) b0 else [])).
    { destruct (calls_super c0); auto. now apply walk_parents_clin. }
    rewrite Hr. cbn. eexists. split; [reflexivity|]. split; [now apply nodup_ainsert|].
    intros b. rewrite alookup_ainsert. destruct (N.eqb b b0) eqn:E.
    + apply N.eqb_eq in E. subst. reflexivity.
    + apply Hl.
Qed.

(* ------------------------------------------------------------------ orders *)

Definition orders_ok (ord : orders) : Prop :=
  (forall l, Permutation (o_loop2 ord l) l) /\
  (forall n l, Permutation (o_blocks ord n l) l) /\
  (forall l, Permutation (o_inherit ord l) l) /\
  (forall n p l, Permutation (o_pblocks ord n p l) l).

Lemma id_orders_ok : orders_ok id_orders.
Proof. repeat split; intros; apply Permutation_refl. Qed.

Definition reg_wf (reg : list ctemplate) : Prop :=
  NoDup (names reg) /\ forall t, In t reg -> NoDup (map fst (c_blocks t)).

(* ------------------------------------------------------------------ second loop *)

Definition orphans_of (reg : list ctemplate) (P : list (name * list name)) (t : ctemplate) : list name :=
  match alookup (c_name t) P with Some ps => orphan_blocks reg ps t | None => [] end.

Lemma loop2_ok : forall ord reg P todo,
  orders_ok ord -> reg_wf reg -> parents_ok reg P -> incl todo reg -> NoDup (names todo) ->
  exists orph tb,
    loop2 ord reg P todo = Ok (orph, tb) /\
    orph = flat_map (orphans_of reg P) todo /\
    NoDup (map fst tb) /\
    (forall n, In n (map fst tb) <-> In n (names todo)) /\
    (forall t, In t todo -> exists m, alookup (c_name t) tb = Some m /\ NoDup (map fst m) /\
                                      forall b, alookup b m = own reg t (ancl P (c_name t)) b).
Proof.
  intros ord reg P todo Hord [Hnd Hbl] HP. induction todo as [|t todo IH]; intros Hincl Hndt.
  - exists [], []. cbn. repeat split; auto; try constructor; intuition.
  - cbn [loop2].
    assert (Hin : In t reg) by (apply Hincl; now left).
    destruct HP as (HPk & HPall & HPkeys).
    destruct (HPall t Hin) as (Hsome & Hanc & Hni).
    destruct (alookup (c_name t) P) as [ps|] eqn:EP; [|congruence].
    assert (Hl : ancl P (c_name t) = rev ps) by (unfold ancl; now rewrite EP).
    assert (HF : Forall (fun p => exists pt, get_tpl reg p = Some pt) (rev ps)).
    { rewrite <- Hl. eapply an_resolves; eauto. }
    destruct (own_lineage_ok reg ps (o_blocks ord (c_name t) (c_blocks t)) HF) as (m & Hm & Hmnd & Hml).
    rewrite Hm. cbn [rbind].
    inversion Hndt; subst.
    destruct IH as (orph & tb & Hr & Ho & Htnd & Htk & Htall).
    { intros x Hx. apply Hincl. now right. } { auto. }
    rewrite Hr. cbn [rbind fst snd].
    eexists _, _. split; [reflexivity|]. split.
    { cbn. unfold orphans_of at 1. rewrite EP. now rewrite Ho. }
    split; [now apply nodup_ainsert|]. split.
    { intros n. rewrite keys_ainsert_in, Htk. cbn. split; intros [Hx|Hx]; auto. }
    intros t' [->|Hin'].
    + exists m. rewrite alookup_ainsert, N.eqb_refl. split; auto. split; auto.
      intros b. rewrite Hml. unfold own. rewrite Hl.
      destruct Hord as (_ & Hob & _).
      rewrite (alookup_perm _ (c_blocks t')); auto.
    + destruct (Htall t' Hin') as (m' & Hm' & Hnd' & Hl').
      exists m'. rewrite alookup_ainsert.
      destruct (N.eqb (c_name t') (c_name t)) eqn:E; auto.
      apply N.eqb_eq in E. exfalso. apply H1. rewrite <- E. now apply in_map.
Qed.

(* ------------------------------------------------------------------ inherit pass *)

Fixpoint first_some (ps : list name) (b : name) (tb : list (name * list (name * list code)))
  : option (list code) :=
  match ps with
  | [] => None
  | p :: ps' =>
      match alookup p tb with
      | Some pb => match alookup b pb with Some x => Some x | None => first_some ps' b tb end
      | None => first_some ps' b tb
      end
  end.

Lemma first_some_ext : forall ps b tb tb',
  (forall p, In p ps -> alookup p tb' = alookup p tb) -> first_some ps b tb' = first_some ps b tb.
Proof.
  induction ps as [|p ps IH]; cbn; intros b tb tb' H; auto.
  rewrite H by auto. rewrite (IH b tb tb') by auto. reflexivity.
Qed.

Definition maps_nodup (tb : list (name * list (name * list code))) : Prop :=
  forall n m, alookup n tb = Some m -> NoDup (map fst m).

Lemma inherit_one_ok : forall ord n ps tb cb,
  orders_ok ord -> ~ In n ps -> alookup n tb = Some cb -> NoDup (map fst tb) -> maps_nodup tb ->
  exists tb' cb',
    inherit_one ord n ps tb = Ok tb' /\ alookup n tb' = Some cb' /\
    (forall m, m <> n -> alookup m tb' = alookup m tb) /\
    NoDup (map fst tb') /\ maps_nodup tb' /\
    (forall x, In x (map fst tb') <-> In x (map fst tb)) /\
    forall b, alookup b cb' = match alookup b cb with Some x => Some x | None => first_some ps b tb end.
Proof.
  intros ord n ps. induction ps as [|p ps IH]; intros tb cb Hord Hni Hn Hnd Hmn.
  - exists tb, cb. cbn. repeat split; auto; try tauto. intros b. destruct (alookup b cb); auto.
  - cbn [inherit_one first_some].
    assert (Hpn : p <> n) by (intros ->; apply Hni; now left).
    assert (Hni' : ~ In n ps) by (intros H; apply Hni; now right).
    destruct (alookup p tb) as [pb|] eqn:Ep.
    + rewrite Hn.
      set (cb1 := merge_blocks cb (o_pblocks ord n p pb)).
      set (tb1 := ainsert n cb1 tb).
      assert (Hn1 : alookup n tb1 = Some cb1) by (unfold tb1; now rewrite alookup_ainsert, N.eqb_refl).
      assert (Hoth : forall m, m <> n -> alookup m tb1 = alookup m tb).
      { intros m Hm. unfold tb1. rewrite alookup_ainsert. apply N.eqb_neq in Hm. now rewrite Hm. }
      assert (Hcb : NoDup (map fst cb)) by (eapply Hmn; eauto).
      assert (Hmn1 : maps_nodup tb1).
      { intros x mx Hx. unfold tb1 in Hx. rewrite alookup_ainsert in Hx.
        destruct (N.eqb x n); [|eapply Hmn; eauto]. inversion Hx; subst. now apply nodup_merge. }
      destruct (IH tb1 cb1 Hord Hni' Hn1 (nodup_ainsert _ _ _ _ Hnd) Hmn1)
        as (tb' & cb' & Hr & Hn' & Hoth' & Hnd' & Hmn' & Hkeys' & Hl').
      exists tb', cb'. split; auto. split; auto. split.
      { intros m Hm. rewrite Hoth' by auto. now apply Hoth. }
      split; auto. split; auto. split.
      { intros x. rewrite Hkeys'. unfold tb1. rewrite keys_ainsert_in. split; [|tauto].
        intros [->|H]; auto. apply alookup_in in Hn. apply (in_map fst) in Hn. exact Hn. }
      intros b. rewrite Hl'. unfold cb1. rewrite alookup_merge.
      destruct (alookup b cb); auto.
      destruct Hord as (_ & _ & _ & Hop).
      rewrite (alookup_perm _ pb) by (auto; eapply Hmn; eauto).
      rewrite (first_some_ext ps b tb tb1).
      2:{ intros q Hq. apply Hoth. intros ->. auto. }
      reflexivity.
    + destruct (IH tb cb Hord Hni' Hn Hnd Hmn) as (tb' & cb' & Hr & Hn' & Hoth' & Hnd' & Hmn' & Hk' & Hl').
      exists tb', cb'. repeat split; auto; apply Hk'.
Qed.

(* state of tpl_blocks while the inherit pass runs: templates in [done] carry their full
   lineage map, the others still their own *)
Definition tb_inv (reg : list ctemplate) (P : list (name * list name)) (done : list name)
           (tb : list (name * list (name * list code))) : Prop :=
  NoDup (map fst tb) /\ maps_nodup tb /\
  forall t, In t reg ->
    exists m, alookup (c_name t) tb = Some m /\
      forall b, alookup b m =
                if existsb (N.eqb (c_name t)) done
                then nonempty (clin reg (c_name t :: ancl P (c_name t)) b)
                else own reg t (ancl P (c_name t)) b.

Lemma first_some_clin : forall reg P done tb,
  NoDup (names reg) -> parents_ok reg P -> tb_inv reg P done tb ->
  forall l n, anc_names reg n l -> forall b, first_some l b tb = nonempty (clin reg l b).
Proof.
  intros reg P done tb Hnd HP (Htnd & Htm & Hall) l. induction l as [|p l IH]; intros n Ha b; cbn [first_some]; auto.
  assert (Hap := an_tail _ _ _ _ Ha).
  destruct (an_self _ _ _ Hap) as [pt Hpt].
  destruct (get_tpl_some _ _ _ Hpt) as [Hin Hname].
  destruct (Hall pt Hin) as (m & Hm & Hl). rewrite Hname in *.
  rewrite Hm, Hl.
  assert (Hancl : ancl P p = l).
  { destruct HP as (_ & HPall & _). destruct (HPall pt Hin) as (_ & Ha' & _). rewrite Hname in Ha'.
    eapply an_det; eauto. }
  rewrite Hancl. rewrite (clin_cons reg p pt l b Hpt).
  rewrite (IH p Hap b).
  destruct (existsb (N.eqb p) done).
  - destruct (own reg pt l b); auto.
    destruct (nonempty (clin reg l b)); auto.
  - destruct (own reg pt l b); auto.
Qed.

Lemma inherit_pass_ok : forall ord reg P todo done tb,
  orders_ok ord -> NoDup (names reg) -> parents_ok reg P ->
  (forall n ps, In (n, ps) todo -> alookup n P = Some ps) ->
  NoDup (map fst todo) -> (forall n, In n (map fst todo) -> ~ In n done) ->
  tb_inv reg P done tb ->
  exists tb', inherit_pass ord todo tb = Ok tb' /\ tb_inv reg P (map fst todo ++ done) tb'.
Proof.
  intros ord reg P todo. induction todo as [|[n ps] todo IH]; intros done tb Hord Hnd HP Htodo Hndt Hdis Hinv.
  - exists tb. split; auto.
  - cbn [inherit_pass].
    assert (HnP : alookup n P = Some ps) by (apply Htodo; now left).
    destruct HP as (HPk & HPall & HPkeys).
    assert (Hnreg : In n (names reg)).
    { apply HPkeys. apply alookup_in in HnP. apply (in_map fst) in HnP. exact HnP. }
    apply in_map_iff in Hnreg. destruct Hnreg as (t & Htn & Htin). subst n.
    destruct (HPall t Htin) as (_ & Hanc & Hni).
    assert (Hl : ancl P (c_name t) = rev ps) by (unfold ancl; now rewrite HnP).
    destruct Hinv as (Htnd & Htm & Hall).
    destruct (Hall t Htin) as (cb & Hcb & Hcbl).
    destruct (inherit_one_ok ord (c_name t) (rev ps) tb cb Hord) as
        (tb1 & cb1 & Hr & Hn1 & Hoth & Hnd1 & Hmn1 & Hk1 & Hl1); auto.
    { now rewrite <- Hl. }
    rewrite Hr. cbn [rbind].
    inversion Hndt; subst.
    assert (Hnotdone : existsb (N.eqb (c_name t)) done = false).
    { destruct (existsb (N.eqb (c_name t)) done) eqn:E; auto.
      apply existsb_exists in E. destruct E as (x & Hx & Hxe). apply N.eqb_eq in Hxe. subst x.
      exfalso. eapply Hdis; eauto. now left. }
    assert (Hinv1 : tb_inv reg P (c_name t :: done) tb1).
    { split; auto. split; auto. intros t' Hin'.
      destruct (N.eq_dec (c_name t') (c_name t)) as [E|E].
      - assert (t' = t).
        { assert (G1 := get_tpl_in reg t' Hnd Hin'). assert (G2 := get_tpl_in reg t Hnd Htin).
          rewrite E in G1. congruence. }
        subst t'. exists cb1. split; auto. intros b.
        cbn [existsb]. rewrite N.eqb_refl. cbn [orb].
        rewrite Hl1, Hcbl, Hnotdone.
        rewrite (clin_cons reg (c_name t) t _ b (get_tpl_in reg t Hnd Htin)).
        destruct (own reg t (ancl P (c_name t)) b); auto.
        rewrite <- Hl.
        apply (first_some_clin reg P done tb Hnd (conj HPk (conj HPall HPkeys))
                               (conj Htnd (conj Htm Hall)) _ (c_name t) Hanc b).
      - destruct (Hall t' Hin') as (m' & Hm' & Hl').
        exists m'. rewrite Hoth by auto. split; auto.
        intros b. rewrite Hl'. cbn [existsb].
        apply N.eqb_neq in E. rewrite E. reflexivity. }
    destruct (IH (c_name t :: done) tb1 Hord Hnd (conj HPk (conj HPall HPkeys))) as (tb' & Hr' & Hinv'); auto.
    { intros n0 ps0 H0. apply Htodo. now right. }
    { intros n0 Hn0 [Heq|Hd].
      - subst n0. auto.
      - eapply Hdis; eauto. now right. }
    exists tb'. split; auto.
    destruct Hinv' as (A & B & C). split; auto. split; auto.
    intros t' Hin'. destruct (C t' Hin') as (m' & Hm' & Hl'). exists m'. split; auto.
    intros b. rewrite Hl'. cbn [map fst app existsb].
    rewrite !existsb_app. cbn [existsb].
    destruct (N.eqb (c_name t') (c_name t)); cbn [orb]; rewrite ?orb_true_l, ?orb_true_r; reflexivity.
Qed.

(* ------------------------------------------------------------------ finalize *)

Lemma orphans_perm : forall reg P l l',
  Permutation l l' -> flat_map (orphans_of reg P) l = [] -> flat_map (orphans_of reg P) l' = [].
Proof.
  intros reg P l l' Hp H.
  assert (forall x, In x l -> orphans_of reg P x = []).
  { intros x Hx. destruct (orphans_of reg P x) eqn:E; auto.
    assert (In n (flat_map (orphans_of reg P) l)).
    { apply in_flat_map. exists x. split; auto. rewrite E. now left. }
    rewrite H in H0. contradiction. }
  destruct (flat_map (orphans_of reg P) l') eqn:E; auto.
  assert (Hin : In n (flat_map (orphans_of reg P) l')) by (rewrite E; now left).
  apply in_flat_map in Hin. destruct Hin as (x & Hx & Hxn).
  rewrite H0 in Hxn; [contradiction|]. eapply Permutation_in; [|exact Hx]. now apply Permutation_sym.
Qed.

Theorem finalize_ok : forall ord reg fr,
  orders_ok ord -> reg_wf reg -> finalize ord reg = Ok fr ->
  f_tpls fr = reg /\ parents_ok reg (f_parents fr) /\
  flat_map (orphans_of reg (f_parents fr)) reg = [] /\
  cycle_pass reg (f_lineage fr) = Ok [] /\
  forall t, In t reg -> forall b,
    lineage_of fr (c_name t) b = nonempty (clin reg (c_name t :: ancl (f_parents fr) (c_name t)) b).
Proof.
  intros ord reg fr Hord Hwf H. unfold finalize in H.
  destruct (loop1 reg reg) as [P|] eqn:E1; [|discriminate]. cbn [rbind] in H.
  destruct Hwf as [Hnd Hbl].
  assert (HP := loop1_parents_ok reg P Hnd E1).
  destruct Hord as (Ho2 & Hob & Hoi & Hop).
  assert (Hord : orders_ok ord) by (repeat split; auto).
  destruct (loop2_ok ord reg P (o_loop2 ord reg) Hord (conj Hnd Hbl) HP) as (orph & tb & Hr & Ho & Htnd & Htk & Htall).
  { intros x Hx. eapply Permutation_in; [apply Ho2|exact Hx]. }
  { eapply Permutation_NoDup; [|exact Hnd]. apply Permutation_map. apply Permutation_sym. apply Ho2. }
  rewrite Hr in H. cbn [rbind fst snd] in H.
  assert (Hinv0 : tb_inv reg P [] tb).
  { split; auto. split.
    - intros n m Hm.
      assert (Hn : In n (names (o_loop2 ord reg))).
      { apply Htk. apply alookup_in in Hm. apply (in_map fst) in Hm. exact Hm. }
      apply in_map_iff in Hn. destruct Hn as (t & Htn & Hti). subst n.
      destruct (Htall t Hti) as (m' & Hm' & Hnd' & _). congruence.
    - intros t Hin. assert (Hin' : In t (o_loop2 ord reg)).
      { eapply Permutation_in; [apply Permutation_sym; apply Ho2|exact Hin]. }
      destruct (Htall t Hin') as (m & Hm & _ & Hl). exists m. split; auto. }
  destruct HP as (HPk & HPall & HPkeys).
  destruct (inherit_pass_ok ord reg P (o_inherit ord P) [] tb Hord Hnd (conj HPk (conj HPall HPkeys))) as (tb' & Hr' & Hinv'); auto.
  { intros n ps Hin. apply in_alookup; auto. eapply Permutation_in; [apply Hoi|exact Hin]. }
  { eapply Permutation_NoDup; [|exact HPk]. apply Permutation_map. apply Permutation_sym. apply Hoi. }
  rewrite Hr' in H. cbn [rbind] in H.
  destruct orph as [|o orph]; [|discriminate].
  destruct (cycle_pass reg tb') as [cyc|] eqn:Ec; [|discriminate]. cbn [rbind] in H.
  destruct cyc; [|discriminate]. inversion H; subst. cbn [f_tpls f_parents f_lineage].
  split; auto. split; [exact (conj HPk (conj HPall HPkeys))|]. split.
  { eapply orphans_perm; [apply Ho2|]. symmetry. exact Ho. }
  split; auto.
  intros t Hin b. unfold lineage_of. cbn [f_lineage].
  destruct Hinv' as (_ & _ & Hall). destruct (Hall t Hin) as (m & Hm & Hl).
  rewrite Hm, Hl.
  assert (Hd : existsb (N.eqb (c_name t)) (map fst (o_inherit ord P) ++ []) = true).
  { apply existsb_exists. exists (c_name t). split; [|apply N.eqb_refl].
    rewrite app_nil_r. eapply Permutation_in; [apply Permutation_map; apply Permutation_sym; apply Hoi|].
    destruct (HPall t Hin) as (Hs & _). destruct (alookup (c_name t) P) eqn:E; [|congruence].
    apply alookup_in in E. apply (in_map fst) in E. exact E. }
  now rewrite Hd.
Qed.
