(* C04 — a finite render never activates a block inside its own activation: an activation of b
   does not depend on its context, so it would have to contain itself. *)
From Coq Require Import List NArith Bool Arith Lia.
From TeraV Require Import Model.Lineage Spec.Inherit Proofs.LineageRender.
Import ListNotations.

Section NoNest.
  Variable ch : chain.

  (* what an activation of b produces with fuel f, wherever it happens *)
  Definition blk (f : nat) (b : name) : rres (list otree) :=
    match resolve ch b with
    | None => Err ENoLineage
    | Some (body, anc) => spec_sub f ch (Some (b, anc)) body
    end.

  (* ---------------------------------------------------------------- more fuel, same result *)

  Lemma list_bind_mono : forall (g1 g2 : node -> rres (list otree)) l r,
    Forall (fun n => forall tr, g1 n = Ok tr -> g2 n = Ok tr) l ->
    list_bind g1 l = Ok r -> list_bind g2 l = Ok r.
  Proof.
    intros g1 g2 l. induction l as [|x l IH]; intros r HF H.
    - exact H.
    - inversion HF as [|? ? Hx Hl]; subst. rewrite list_bind_cons in *.
      destruct (g1 x) as [a|] eqn:E1; [|discriminate]. cbn [rbind] in H.
      destruct (list_bind g1 l) as [r1|] eqn:E2; [|discriminate]. cbn [rbind] in H.
      rewrite (Hx a eq_refl). cbn [rbind]. rewrite (IH r1 Hl eq_refl). exact H.
  Qed.

  Definition mono (f : nat) : Prop :=
    forall cur n tr, spec_node f ch cur n = Ok tr -> spec_node (S f) ch cur n = Ok tr.

  Lemma sub_mono_step : forall f, mono f -> forall cur body r,
    spec_sub f ch cur body = Ok r -> spec_sub (S f) ch cur body = Ok r.
  Proof.
    intros f Hm cur body r H. destruct f; [discriminate|]. cbn [spec_sub] in *.
    eapply list_bind_mono; [|exact H]. apply Forall_forall. intros n _ tr. apply Hm.
  Qed.

  Lemma mono_all : forall f, mono f.
  Proof.
    induction f as [|f IH]; unfold mono.
    - intros cur n tr H. discriminate.
    - intros cur n. revert cur.
      induction n as [i| |b bd _|k body IHb] using node_ind'; intros cur tr H.
      + exact H.
      + rewrite spec_node_super in *. destruct cur as [[b anc]|]; auto.
        destruct (resolve anc b) as [[body anc']|]; auto. now apply sub_mono_step.
      + rewrite spec_node_block in *. destruct (resolve ch b) as [[body anc]|]; auto.
        destruct (spec_sub f ch (Some (b, anc)) body) as [r|] eqn:E; [|discriminate].
        rewrite (sub_mono_step f IH _ _ _ E). exact H.
      + rewrite spec_node_filter in *.
        destruct (list_bind (spec_node (S f) ch cur) body) as [r|] eqn:E; [|discriminate].
        rewrite (list_bind_mono (spec_node (S f) ch cur) (spec_node (S (S f)) ch cur) body r); auto.
        eapply Forall_impl; [|exact IHb]. intros n Hn tr'. apply Hn.
  Qed.

  Lemma blk_mono : forall f f' b r, f <= f' -> blk f b = Ok r -> blk f' b = Ok r.
  Proof.
    intros f f' b r Hle. induction Hle; auto. intros H. specialize (IHHle H).
    unfold blk in *. destruct (resolve ch b) as [[body anc]|]; auto.
    apply sub_mono_step; auto. apply mono_all.
  Qed.

  (* ---------------------------------------------------------------- every TBlock is an activation *)

  Fixpoint prov (t : otree) : Prop :=
    match t with
    | TBlock b r =>
        (exists f, blk f b = Ok r) /\
        (fix all (l : list otree) : Prop := match l with [] => True | x :: l' => prov x /\ all l' end) r
    | _ => True
    end.
  Fixpoint prov_all (l : list otree) : Prop :=
    match l with [] => True | x :: l' => prov x /\ prov_all l' end.

  Lemma prov_block : forall b r, prov (TBlock b r) <-> (exists f, blk f b = Ok r) /\ prov_all r.
  Proof.
    intros. split; intros H; exact H.
  Qed.

  Lemma prov_all_app : forall a b, prov_all (a ++ b) <-> prov_all a /\ prov_all b.
  Proof. induction a; cbn; intros; [tauto|]. rewrite IHa. tauto. Qed.

  Lemma prov_twrap : forall k r, prov_all r -> prov_all (twrap k r).
  Proof.
    intros [] r H; cbn; auto. split; auto. apply prov_all_app. cbn. auto.
  Qed.

  Lemma list_bind_prov : forall (g : node -> rres (list otree)) l r,
    Forall (fun n => forall tr, g n = Ok tr -> prov_all tr) l ->
    list_bind g l = Ok r -> prov_all r.
  Proof.
    intros g l. induction l as [|x l IH]; intros r HF H.
    - inversion H; subst. exact I.
    - inversion HF as [|? ? Hx Hl]; subst. rewrite list_bind_cons in H.
      destruct (g x) as [a|] eqn:E1; [|discriminate]. cbn [rbind] in H.
      destruct (list_bind g l) as [r1|] eqn:E2; [|discriminate]. cbn [rbind] in H.
      inversion H; subst. apply prov_all_app. split; auto.
  Qed.

  Definition provf (f : nat) : Prop :=
    forall cur n tr, spec_node f ch cur n = Ok tr -> prov_all tr.

  Lemma sub_prov : forall f, provf f -> forall cur body r, spec_sub f ch cur body = Ok r -> prov_all r.
  Proof.
    intros f Hp cur body r H. destruct f; [discriminate|]. cbn [spec_sub] in H.
    eapply list_bind_prov; [|exact H]. apply Forall_forall. intros n _ tr. apply Hp.
  Qed.

  Lemma prov_all_f : forall f, provf f.
  Proof.
    induction f as [|f IH]; unfold provf.
    - intros cur n tr H. discriminate.
    - intros cur n. revert cur.
      induction n as [i| |b bd _|k body IHb] using node_ind'; intros cur tr H.
      + rewrite spec_node_text in H. inversion H; subst. cbn. auto.
      + rewrite spec_node_super in H. destruct cur as [[b anc]|]; [|discriminate].
        destruct (resolve anc b) as [[body anc']|]; [|discriminate]. eapply sub_prov; eauto.
      + rewrite spec_node_block in H. destruct (resolve ch b) as [[body anc]|] eqn:Er; [|discriminate].
        destruct (spec_sub f ch (Some (b, anc)) body) as [r|] eqn:E; [|discriminate].
        cbn [rbind] in H. inversion H; subst. cbn [prov_all]. split; auto.
        apply prov_block. split; [|eapply sub_prov; eauto].
        exists f. unfold blk. now rewrite Er.
      + rewrite spec_node_filter in H.
        destruct (list_bind (spec_node (S f) ch cur) body) as [r|] eqn:E; [|discriminate].
        cbn [rbind] in H. inversion H; subst. apply prov_twrap.
        eapply list_bind_prov; [|exact E].
        eapply Forall_impl; [|exact IHb]. intros n Hn tr'. apply Hn.
  Qed.

  (* ---------------------------------------------------------------- size *)

  Fixpoint tsize (t : otree) : nat :=
    match t with
    | TBlock _ r => S ((fix sz (l : list otree) := match l with [] => 0 | x :: l' => tsize x + sz l' end) r)
    | _ => 1
    end.
  Fixpoint lsize (l : list otree) : nat := match l with [] => 0 | x :: l' => tsize x + lsize l' end.

  Lemma tsize_block : forall b r, tsize (TBlock b r) = S (lsize r).
  Proof. intros. reflexivity. Qed.

  Lemma lsize_in : forall x l, In x l -> tsize x <= lsize l.
  Proof. induction l; cbn; intros H; [contradiction|]. destruct H as [->|H]; [lia|]. apply IHl in H. lia. Qed.

  Lemma prov_all_in : forall l x, prov_all l -> In x l -> prov x.
  Proof. induction l; cbn; intros x H Hin; [contradiction|]. destruct H. destruct Hin as [->|Hin]; auto. Qed.

  (* an activation of b somewhere inside t *)
  Lemma contains_activation : forall b t,
    prov t -> self_nested_node true b t = true ->
    exists r', (exists f, blk f b = Ok r') /\ lsize r' < tsize t.
  Proof.
    intros b. induction t as [i| | |b' body IH] using otree_ind'; intros Hp Hc; try discriminate.
    apply prov_block in Hp. destruct Hp as [Hb Hall]. rewrite tsize_block.
    cbn [self_nested_node] in Hc. destruct (N.eqb b b') eqn:E.
    - apply N.eqb_eq in E. subst b'. exists body. split; auto.
    - apply existsb_exists in Hc. destruct Hc as (x & Hx & Hcx).
      rewrite Forall_forall in IH.
      destruct (IH x Hx (prov_all_in _ _ Hall Hx) Hcx) as (r' & Hr' & Hlt).
      exists r'. split; auto. assert (Hle := lsize_in x body Hx). lia.
  Qed.

  Lemma no_self_nesting_node : forall b t, prov t -> self_nested_node false b t = false.
  Proof.
    intros b. induction t as [i| | |b' body IH] using otree_ind'; intros Hp; auto.
    apply prov_block in Hp. destruct Hp as [[f Hb] Hall].
    cbn [self_nested_node]. rewrite Forall_forall in IH. destruct (N.eqb b b') eqn:E.
    - apply N.eqb_eq in E. subst b'. cbn [orb].
      destruct (existsb (self_nested_node true b) body) eqn:Ex; auto. exfalso.
      apply existsb_exists in Ex. destruct Ex as (x & Hx & Hcx).
      destruct (contains_activation b x (prov_all_in _ _ Hall Hx) Hcx) as (r' & [f' Hr'] & Hlt).
      assert (H1 := blk_mono f (max f f') b body (Nat.le_max_l _ _) Hb).
      assert (H2 := blk_mono f' (max f f') b r' (Nat.le_max_r _ _) Hr').
      assert (body = r') by congruence. subst r'.
      assert (Hle := lsize_in x body Hx). lia.
    - destruct (existsb (self_nested_node false b) body) eqn:Ex; auto. exfalso.
      apply existsb_exists in Ex. destruct Ex as (x & Hx & Hcx).
      rewrite (IH x Hx (prov_all_in _ _ Hall Hx)) in Hcx. discriminate.
  Qed.

  Theorem no_self_nesting : forall fuel b tr, spec_render fuel ch = Ok tr -> self_nested b tr = false.
  Proof.
    intros fuel b tr H. unfold spec_render in H. rewrite <- spec_sub_list in H.
    assert (Hp : prov_all tr) by (eapply sub_prov; [apply prov_all_f|exact H]).
    unfold self_nested. destruct (existsb (self_nested_node false b) tr) eqn:Ex; auto. exfalso.
    apply existsb_exists in Ex. destruct Ex as (x & Hx & Hcx).
    rewrite (no_self_nesting_node b x (prov_all_in _ _ Hp Hx)) in Hcx. discriminate.
  Qed.
End NoNest.
