(* C09, behavioural half: on an abstract VM in which every instruction other than the ones the
   fusion pass touches has ARBITRARY deterministic semantics, running a chunk and running its
   fused form are equivalent: same final value stack, same loop frames (stored end_ips mapped
   through the index map), same opaque state (output, captures, variables), and one fails
   exactly when the other does.

   Semantics ported from vm/interpreter.rs: LoadName (state.load_name), LoadAttr, WriteTop,
   LoadPath, WritePath (with the undefined check of commit f1cc69d), Jump, PopJumpIfFalse,
   JumpIfFalseOrPop, JumpIfTrueOrPop, Iterate (is_over / advance / end_ip store, incl. the
   `end_ip != 0` test of ForLoop::advance), Break, and the loop-stack effect of StartIterate*
   and PopLoop. Everything else goes through the section variable `other`. *)
From TeraV Require Import Model.Value Model.Instr Model.Optimize Gen.Tables Proofs.OptimizeProofs.
Local Open Scope nat_scope.

Section AbstractVM.
  Variable V : Type.            (* values *)
  Variable S : Type.            (* everything but the value stack and the stored end_ips *)
  Variable undef : V.
  Variable is_undef : V -> bool.
  Hypothesis is_undef_undef : is_undef undef = true.
  Variable get_value : S -> str -> V.      (* State::get_value *)
  Variable dump : S -> V.                   (* State::dump_context *)
  Variable get_attr : V -> str -> option V. (* Value::get_attr *)
  Hypothesis get_attr_undef : forall v a, is_undef v = true -> get_attr v a = None.
  Variable write : V -> S -> option S.      (* format/escape into the current sink; None = io error *)
  Variable truthy : V -> bool.
  Variable is_over : S -> bool.             (* ForLoop::is_over of the innermost loop *)
  Variable advance : S -> bool -> S.        (* ForLoop::advance; the flag is `end_ip != 0` *)
  Variable other : instr -> list V -> S -> option (list V * S).

  Inductive sres :=
  | Next (st : list V) (ends : list nat) (s : S)
  | Goto (t : nat) (st : list V) (ends : list nat) (s : S)
  | Failed.

  Definition load_name (s : S) (n : str) : V := if is_magic n then dump s else get_value s n.
  Definition attr_or_undef (v : V) (a : str) : V :=
    match get_attr v a with Some x => x | None => undef end.

  (* the `for (k, attr) in path[1..]` loop of LoadPath *)
  Fixpoint path_walk (cur : V) (attrs : list str) : option V :=
    match attrs with
    | [] => Some cur
    | a :: r =>
        if is_undef cur then None
        else match get_attr cur a with
             | Some next => path_walk next r
             | None => match r with [] => Some undef | _ => None end
             end
    end.

  Definition load_path (s : S) (path : list str) : option V :=
    match path with
    | [] => None  (* path.len() - 1 underflows: never constructed *)
    | n :: attrs =>
        let val := match attrs with [] => if is_magic n then dump s else get_value s n
                                  | _ => get_value s n end in
        match attrs with
        | [] => Some val
        | _ => if is_undef val then None else path_walk val attrs
        end
    end.

  (* the loop of WritePath: any missing attribute is an error *)
  Fixpoint write_walk (cur : V) (attrs : list str) : option V :=
    match attrs with
    | [] => Some cur
    | a :: r => match get_attr cur a with Some next => write_walk next r | None => None end
    end.

  Definition write_path (s : S) (path : list str) : option S :=
    match path with
    | [] => None
    | n :: attrs =>
        let root := match attrs with [] => if is_magic n then dump s else get_value s n
                                   | _ => get_value s n end in
        if is_undef root then None
        else match write_walk root attrs with
             | Some v => if is_undef v then None else write v s
             | None => None
             end
    end.

  Definition exec (i : instr) (st : list V) (ends : list nat) (s : S) : sres :=
    match i with
    | LoadName n => Next (load_name s n :: st) ends s
    | LoadAttr a =>
        match st with
        | v :: st' => if is_undef v then Failed else Next (attr_or_undef v a :: st') ends s
        | [] => Failed
        end
    | WriteTop =>
        match st with
        | v :: st' => if is_undef v then Failed
                      else match write v s with Some s' => Next st' ends s' | None => Failed end
        | [] => Failed
        end
    | Jump t => Goto t st ends s
    | PopJumpIfFalse t =>
        match st with
        | v :: st' => if truthy v then Next st' ends s else Goto t st' ends s
        | [] => Failed
        end
    | JumpIfFalseOrPop t =>
        match st with
        | v :: st' => if truthy v then Next st' ends s else Goto t st ends s
        | [] => Failed
        end
    | JumpIfTrueOrPop t =>
        match st with
        | v :: st' => if truthy v then Goto t st ends s else Next st' ends s
        | [] => Failed
        end
    | Iterate e =>
        match ends with
        | [] => Next st ends s
        | e0 :: ends' =>
            if is_over s then Goto e st ends s
            else Next st (e :: ends') (advance s (negb (Nat.eqb e0 0)))
        end
    | Break => match ends with e :: _ => Goto e st ends s | [] => Next st ends s end
    | StartIterate _ | StartIterateComprehension _ =>
        match other i st s with Some (st', s') => Next st' (0 :: ends) s' | None => Failed end
    | PopLoop =>
        match other i st s with Some (st', s') => Next st' (tl ends) s' | None => Failed end
    | LoadPath path =>
        match load_path s path with Some v => Next (v :: st) ends s | None => Failed end
    | WritePath path =>
        match write_path s path with Some s' => Next st ends s' | None => Failed end
    | _ => match other i st s with Some (st', s') => Next st' ends s' | None => Failed end
    end.

  Inductive outcome :=
  | Done (st : list V) (ends : list nat) (s : S)
  | Fail
  | OutOfFuel.

  (* `while let Some(instr) = chunk.get(ip)` *)
  Fixpoint run (fuel : nat) (p : list instr) (pc : nat) (st : list V) (ends : list nat) (s : S) : outcome :=
    match fuel with
    | O => OutOfFuel
    | Datatypes.S fu =>
        match nth_error p pc with
        | None => Done st ends s
        | Some i =>
            match exec i st ends s with
            | Next st' ends' s' => run fu p (Datatypes.S pc) st' ends' s'
            | Goto t st' ends' s' => run fu p t st' ends' s'
            | Failed => Fail
            end
        end
    end.

  (* ---------- the unfused chain ---------- *)

  Fixpoint chain (v : V) (attrs : list str) : option V :=
    match attrs with
    | [] => Some v
    | a :: r => if is_undef v then None else chain (attr_or_undef v a) r
    end.

  Lemma chain_undef r : r <> [] -> chain undef r = None.
  Proof. destruct r; [congruence|]. intros _. cbn. rewrite is_undef_undef. reflexivity. Qed.

  Lemma path_walk_chain : forall attrs v, path_walk v attrs = chain v attrs.
  Proof.
    induction attrs as [|a r IH]; intros v; [reflexivity|]. cbn [path_walk chain].
    destruct (is_undef v) eqn:Ev; [reflexivity|].
    unfold attr_or_undef. destruct (get_attr v a) as [next|] eqn:Eg; [apply IH|].
    destruct r as [|b r']; [reflexivity|]. symmetry. apply chain_undef. discriminate.
  Qed.

  Lemma load_path_chain s n attrs :
    is_magic n = false -> load_path s (n :: attrs) = chain (load_name s n) attrs.
  Proof.
    intros Hm. unfold load_path, load_name. rewrite Hm. destruct attrs as [|a r]; [reflexivity|].
    rewrite path_walk_chain. cbn [chain].
    destruct (is_undef (get_value s n)); reflexivity.
  Qed.

  (* chain followed by WriteTop's undefined test = WritePath's walk *)
  Lemma write_walk_chain : forall attrs v,
    is_undef v = false ->
    match write_walk v attrs with Some x => if is_undef x then None else Some x | None => None end
    = match chain v attrs with Some x => if is_undef x then None else Some x | None => None end.
  Proof.
    induction attrs as [|a r IH]; intros v Hv; [reflexivity|]. cbn [write_walk chain]. rewrite Hv.
    unfold attr_or_undef. destruct (get_attr v a) as [next|] eqn:Eg.
    - destruct (is_undef next) eqn:En; [|apply IH; exact En].
      (* an Undefined stored in a map: both sides fail *)
      destruct r as [|b r'].
      + cbn. rewrite En. reflexivity.
      + cbn [write_walk chain]. rewrite (get_attr_undef _ _ En), En. reflexivity.
    - destruct r as [|b r'].
      + cbn. rewrite is_undef_undef. reflexivity.
      + rewrite chain_undef by discriminate. reflexivity.
  Qed.

  Lemma write_path_chain s n attrs :
    is_magic n = false ->
    write_path s (n :: attrs) =
      match chain (load_name s n) attrs with
      | Some v => if is_undef v then None else write v s
      | None => None
      end.
  Proof.
    intros Hm. unfold write_path, load_name. rewrite Hm.
    assert (Hroot : (match attrs with [] => get_value s n | _ :: _ => get_value s n end) = get_value s n)
      by (destruct attrs; reflexivity).
    rewrite Hroot. destruct (is_undef (get_value s n)) eqn:Er.
    - destruct attrs as [|a r]; cbn [chain]; rewrite Er; reflexivity.
    - pose proof (write_walk_chain attrs _ Er) as H.
      destruct (write_walk (get_value s n) attrs) as [x|], (chain (get_value s n) attrs) as [y|];
        try (destruct (is_undef x) eqn:?); try (destruct (is_undef y) eqn:?);
        try discriminate; try reflexivity; inversion H; subst; try congruence; reflexivity.
  Qed.

  (* ---------- running straight-line code ---------- *)

  Lemma run_fuel_mono : forall fuel p pc st ends s d,
    run fuel p pc st ends s <> OutOfFuel -> run (fuel + d) p pc st ends s = run fuel p pc st ends s.
  Proof.
    induction fuel as [|fu IH]; intros p pc st ends s d H; [cbn in H; congruence|].
    cbn [run Nat.add] in *. destruct (nth_error p pc) as [i|]; [|reflexivity].
    destruct (exec i st ends s); try reflexivity; apply IH; exact H.
  Qed.

  (* p holds `code` at positions pc, pc+1, ... *)
  Definition code_at (p : list instr) (pc : nat) (code : list instr) : Prop :=
    forall k i, nth_error code k = Some i -> nth_error p (pc + k) = Some i.

  Lemma code_at_tail p pc i code : code_at p pc (i :: code) -> code_at p (Datatypes.S pc) code.
  Proof. intros H k j Hk. replace (Datatypes.S pc + k) with (pc + Datatypes.S k) by lia. apply H. exact Hk. Qed.

  Lemma code_at_head p pc i code : code_at p pc (i :: code) -> nth_error p pc = Some i.
  Proof. intros H. rewrite <- (Nat.add_0_r pc). apply H. reflexivity. Qed.

  Lemma run_attrs : forall attrs p pc v st ends s fuel,
    code_at p pc (map LoadAttr attrs) ->
    run (length attrs + fuel) p pc (v :: st) ends s =
      match chain v attrs with
      | Some v' => run fuel p (pc + length attrs) (v' :: st) ends s
      | None => Fail
      end.
  Proof.
    induction attrs as [|a r IH]; intros p pc v st ends s fuel Hc.
    - cbn. rewrite Nat.add_0_r. reflexivity.
    - cbn [length Nat.add run map]. rewrite (code_at_head _ _ _ _ Hc). cbn [exec chain].
      destruct (is_undef v); [reflexivity|].
      rewrite IH by (eapply code_at_tail; eauto).
      replace (Datatypes.S pc + length r) with (pc + Datatypes.S (length r)) by lia. reflexivity.
  Qed.

  (* ---------- the relation between the two runs ---------- *)

  Variable p o : list instr.
  Hypothesis Hrel : Forall2 (rel o) (expand o) p.
  (* fused groups never start with the magic variable, and a LoadPath has at least one attribute *)
  Hypothesis Hfused : forall g, In g o -> is_fused g = true -> fused_shape g.
  Hypothesis Hiter : forall j t, nth_error p j = Some (Iterate t) -> j < t.

  Definition end_rel (e e' : nat) : Prop :=
    (e = 0 /\ e' = 0) \/ (e <> 0 /\ e' <> 0 /\ e' <= length o /\ group_start o e' = e).
  Definition ends_rel := Forall2 end_rel.

  Lemma end_rel_zero e e' : end_rel e e' -> Nat.eqb e 0 = Nat.eqb e' 0.
  Proof.
    intros [[-> ->]|(H1 & H2 & _)]; [reflexivity|].
    destruct (Nat.eqb_spec e 0), (Nat.eqb_spec e' 0); congruence.
  Qed.

  (* position bookkeeping: group n of o occupies p[group_start n, group_start n + gsize) *)
  Lemma expand_nth_group : forall (o0 : list instr) n g,
    nth_error o0 n = Some g ->
    forall k i, nth_error (expand1 g) k = Some i ->
    nth_error (expand o0) (group_start o0 n + k) = Some i.
  Proof.
    induction o0 as [|g0 o0 IH]; intros n g Hn k i Hk; [destruct n; discriminate|].
    destruct n as [|n].
    - inversion Hn; subst. rewrite group_start_0. cbn [Nat.add expand flat_map].
      rewrite nth_error_app1; [exact Hk|]. apply nth_error_Some. congruence.
    - rewrite group_start_S. cbn [expand flat_map]. fold (expand o0).
      rewrite <- Nat.add_assoc. unfold gsize.
      rewrite nth_error_app2 by lia.
      replace (length (expand1 g0) + (group_start o0 n + k) - length (expand1 g0)) with (group_start o0 n + k) by lia.
      eapply IH; eauto.
  Qed.

  Lemma Forall2_nth {A B} (R : A -> B -> Prop) l l' : Forall2 R l l' ->
    forall k a, nth_error l k = Some a -> exists b, nth_error l' k = Some b /\ R a b.
  Proof.
    induction 1 as [|x y l l' Hxy Hl IH]; intros k a Hk; [destruct k; discriminate|].
    destruct k; [inversion Hk; subst; exists y; auto|]. apply IH. exact Hk.
  Qed.

  (* original instruction at offset k of group n *)
  Lemma group_instr n g k i' :
    nth_error o n = Some g -> nth_error (expand1 g) k = Some i' ->
    exists i, nth_error p (group_start o n + k) = Some i /\ rel o i' i.
  Proof.
    intros Hn Hk. eapply Forall2_nth; [exact Hrel|]. eapply expand_nth_group; eauto.
  Qed.

  Lemma rel_no_target i' i : rel o i' i -> target_of i' = None -> i = i'.
  Proof.
    unfold rel. destruct (target_of i) as [t|] eqn:Et; [|intros ->; reflexivity].
    intros (t' & -> & _) H. destruct i; cbn in *; discriminate.
  Qed.

  Lemma rel_inv i' i : rel o i' i ->
    (target_of i = None /\ i' = i) \/
    (exists t t', target_of i = Some t /\ i' = set_target i t' /\ t' <= length o /\ group_start o t' = t).
  Proof.
    unfold rel. destruct (target_of i) as [t|] eqn:Et.
    - intros (t' & H1 & H2 & H3). right. exists t, t'. auto.
    - intros ->. left. auto.
  Qed.

  Lemma group_start_succ n g : nth_error o n = Some g -> group_start o (Datatypes.S n) = group_start o n + gsize g.
  Proof.
    clear Hrel Hfused Hiter. revert n. generalize o as o0.
    induction o0 as [|g0 o0 IH]; intros n Hn; [destruct n; discriminate|].
    destruct n as [|n].
    - inversion Hn; subst. rewrite group_start_S, !group_start_0. lia.
    - rewrite !group_start_S. rewrite (IH n Hn). lia.
  Qed.

  Lemma group_start_len_p : group_start o (length o) = length p.
  Proof. rewrite group_start_all. eapply Forall2_length'; eauto. Qed.

  Lemma group_start_mono : forall (o0 : list instr) a b, a <= b -> group_start o0 a <= group_start o0 b.
  Proof.
    intros o0 a b Hab. unfold group_start.
    replace (firstn b o0) with (firstn a (firstn b o0) ++ skipn a (firstn b o0)) by apply firstn_skipn.
    rewrite firstn_firstn, Nat.min_l by lia. rewrite expand_app, app_length. lia.
  Qed.

  (* the instruction of a non-fused group, seen from p *)
  Lemma plain_group n g :
    nth_error o n = Some g -> is_fused g = false ->
    exists i, nth_error p (group_start o n) = Some i /\ rel o g i /\ gsize g = 1.
  Proof.
    intros Hn Hf.
    assert (Hex : expand1 g = [g]) by (destruct g; cbn in *; try reflexivity; discriminate).
    destruct (group_instr n g 0 g Hn) as (i & Hi & Hr); [rewrite Hex; reflexivity|].
    rewrite Nat.add_0_r in Hi. exists i. repeat split; auto. unfold gsize. rewrite Hex. reflexivity.
  Qed.

  (* the p-side code of a fused group *)
  Lemma fused_group_code n g name attrs w :
    nth_error o n = Some g ->
    expand1 g = LoadName name :: map LoadAttr attrs ++ w ->
    Forall (fun e => target_of e = None) w ->
    code_at p (group_start o n) (LoadName name :: map LoadAttr attrs ++ w).
  Proof.
    intros Hn Hex Hw k i Hk.
    destruct (group_instr n g k i Hn) as (i0 & Hi0 & Hr); [rewrite Hex; exact Hk|].
    rewrite Hi0. f_equal. apply rel_no_target; [exact Hr|].
    destruct k; [inversion Hk; reflexivity|]. cbn in Hk.
    destruct (Nat.lt_ge_cases k (length (map LoadAttr attrs))) as [Hlt|Hge].
    - rewrite nth_error_app1 in Hk by exact Hlt.
      destruct (nth_error attrs k) eqn:E; rewrite nth_error_map, E in Hk; inversion Hk. reflexivity.
    - rewrite nth_error_app2 in Hk by exact Hge. rewrite Forall_forall in Hw.
      apply Hw. eapply nth_error_In; eauto.
  Qed.

  Lemma code_at_app p0 pc a b : code_at p0 pc (a ++ b) -> code_at p0 pc a /\ code_at p0 (pc + length a) b.
  Proof.
    intros H. split; intros k i Hk.
    - apply H. rewrite nth_error_app1; [exact Hk|]. apply nth_error_Some. congruence.
    - rewrite <- Nat.add_assoc. apply H. rewrite nth_error_app2 by lia.
      replace (length a + k - length a) with k by lia. exact Hk.
  Qed.

  (* ---------- one optimised step = gsize original steps ---------- *)

  Inductive step_match : sres -> nat -> nat -> list V -> list nat -> S -> Prop :=
  | SM_next n st ends ends' s fuelk g :
      nth_error o n = Some g -> ends_rel ends ends' ->
      step_match (Next st ends' s) n fuelk st ends s
  | SM_goto t' n st ends ends' s fuelk :
      t' <= length o -> ends_rel ends ends' ->
      step_match (Goto t' st ends' s) n fuelk st ends s.

  (* result of running group n on the p side, as a function of the o-side step result *)
  Definition group_sim (n : nat) (g : instr) (st : list V) (ends ends' : list nat) (s : S) : Prop :=
    match exec g st ends' s with
    | Failed => forall fuel, run (gsize g + fuel) p (group_start o n) st ends s = Fail
    | Next st2 ends2' s2 =>
        exists ends2, ends_rel ends2 ends2' /\
          forall fuel, run (gsize g + fuel) p (group_start o n) st ends s =
                       run fuel p (group_start o (Datatypes.S n)) st2 ends2 s2
    | Goto t' st2 ends2' s2 =>
        exists ends2, ends_rel ends2 ends2' /\ t' <= length o /\
          forall fuel, run (gsize g + fuel) p (group_start o n) st ends s =
                       run fuel p (group_start o t') st2 ends2 s2
    end.

  Lemma ends_rel_refl_tl ends ends' : ends_rel ends ends' -> ends_rel (tl ends) (tl ends').
  Proof. intros H. destruct H; [constructor|assumption]. Qed.

  Lemma group_sim_holds n g st ends ends' s :
    nth_error o n = Some g -> ends_rel ends ends' -> group_sim n g st ends ends' s.
  Proof.
    intros Hn Hends. unfold group_sim.
    destruct (is_fused g) eqn:Ef.
    - (* fused group *)
      destruct (Hfused g (nth_error_In _ _ Hn) Ef) as (name & attrs & Hm & [-> | ->]).
      + (* LoadPath *)
        cbn [exec]. rewrite (load_path_chain s name attrs Hm).
        assert (Hcode : code_at p (group_start o n) (LoadName name :: map LoadAttr attrs ++ [])).
        { eapply fused_group_code; eauto; try (cbn; rewrite app_nil_r; reflexivity). }
        rewrite app_nil_r in Hcode.
        assert (Hgs : gsize (LoadPath (name :: attrs)) = Datatypes.S (length attrs))
          by (unfold gsize; cbn; rewrite map_length; reflexivity).
        assert (Hrun : forall fuel, run (gsize (LoadPath (name :: attrs)) + fuel) p (group_start o n) st ends s =
                  match chain (load_name s name) attrs with
                  | Some v' => run fuel p (group_start o n + Datatypes.S (length attrs)) (v' :: st) ends s
                  | None => Fail end).
        { intros fuel. rewrite Hgs. cbn [Nat.add run]. rewrite (code_at_head _ _ _ _ Hcode). cbn [exec].
          rewrite run_attrs by (eapply code_at_tail; eauto).
          destruct (chain (load_name s name) attrs); [|reflexivity].
          f_equal. lia. }
        destruct (chain (load_name s name) attrs) as [v'|] eqn:Ec.
        * exists ends. split; [exact Hends|]. intros fuel. rewrite Hrun.
          rewrite (group_start_succ n _ Hn), Hgs. reflexivity.
        * exact Hrun.
      + (* WritePath *)
        cbn [exec]. rewrite (write_path_chain s name attrs Hm).
        assert (Hcode : code_at p (group_start o n) (LoadName name :: map LoadAttr attrs ++ [WriteTop])).
        { eapply fused_group_code; eauto; try (repeat constructor). }
        assert (Hgs : gsize (WritePath (name :: attrs)) = Datatypes.S (Datatypes.S (length attrs)))
          by (unfold gsize; cbn; rewrite app_length, map_length; cbn; lia).
        pose proof (code_at_tail _ _ _ _ Hcode) as Hc1.
        destruct (code_at_app _ _ _ _ Hc1) as [Hca Hcw]. rewrite map_length in Hcw.
        assert (Hw : nth_error p (Datatypes.S (group_start o n) + length attrs) = Some WriteTop)
          by (rewrite <- (Nat.add_0_r (_ + _)); apply Hcw; reflexivity).
        assert (Hrun : forall fuel, run (gsize (WritePath (name :: attrs)) + fuel) p (group_start o n) st ends s =
                  match chain (load_name s name) attrs with
                  | Some v => if is_undef v then Fail
                              else match write v s with
                                   | Some s' => run fuel p (group_start o n + Datatypes.S (Datatypes.S (length attrs))) st ends s'
                                   | None => Fail end
                  | None => Fail end).
        { intros fuel. rewrite Hgs.
          replace (Datatypes.S (Datatypes.S (length attrs)) + fuel)
            with (Datatypes.S (length attrs + Datatypes.S fuel)) by lia.
          cbn [run]. rewrite (code_at_head _ _ _ _ Hcode). cbn [exec].
          rewrite run_attrs by exact Hca.
          destruct (chain (load_name s name) attrs) as [v|]; [|reflexivity].
          cbn [run]. rewrite Hw. cbn [exec]. destruct (is_undef v); [reflexivity|].
          destruct (write v s); [|reflexivity]. f_equal. lia. }
        destruct (chain (load_name s name) attrs) as [v|] eqn:Ec; [|exact Hrun].
        destruct (is_undef v) eqn:Eu; [exact Hrun|].
        destruct (write v s) as [s'|] eqn:Ew; [|exact Hrun].
        exists ends. split; [exact Hends|]. intros fuel. rewrite Hrun.
        rewrite (group_start_succ n _ Hn), Hgs. reflexivity.
    - (* plain instruction: same instruction on both sides, jumps re-pointed *)
      destruct (plain_group n g Hn Ef) as (i & Hi & Hr & Hg1).
      assert (Hstep : forall fuel, run (gsize g + fuel) p (group_start o n) st ends s =
                match exec i st ends s with
                | Next st' e' s' => run fuel p (Datatypes.S (group_start o n)) st' e' s'
                | Goto t st' e' s' => run fuel p t st' e' s'
                | Failed => Fail end).
      { intros fuel. rewrite Hg1. cbn [Nat.add run]. rewrite Hi. reflexivity. }
      assert (Hsucc : Datatypes.S (group_start o n) = group_start o (Datatypes.S n))
        by (rewrite (group_start_succ n g Hn), Hg1; lia).
      destruct (rel_inv _ _ Hr) as [[Hnt ->] | (t & t' & Ht & -> & Htl & Hgt)].
      + (* no target: identical instruction; only Break/Iterate/loop-stack ops look at ends *)
        destruct i; cbn [target_of] in Hnt; try discriminate;
          cbn [exec] in *;
          try (match goal with
               | |- context [other ?i ?st ?s] =>
                   destruct (other i st s) as [[st2 s2]|]; [|exact Hstep]
               end);
          try (match goal with
               | |- context [match ?st with [] => _ | _ :: _ => _ end] =>
                   destruct st as [|v st']; [exact Hstep|]
               end);
          try (match goal with |- context [is_undef ?v] => destruct (is_undef v); [exact Hstep|] end);
          try (match goal with |- context [write ?v ?s] => destruct (write v s); [|exact Hstep] end);
          try (match goal with |- context [load_path ?s ?pa] => destruct (load_path s pa); [|exact Hstep] end);
          try (match goal with |- context [write_path ?s ?pa] => destruct (write_path s pa); [|exact Hstep] end);
          try (eexists; split; [eassumption|]; intros fuel; rewrite Hstep, Hsucc; reflexivity);
          try (eexists; split; [apply ends_rel_refl_tl; eassumption|]; intros fuel; rewrite Hstep, Hsucc; reflexivity);
          try (eexists; split; [constructor; [left; split; reflexivity|eassumption]|]; intros fuel; rewrite Hstep, Hsucc; reflexivity).
        (* Break *)
        destruct Hends as [|e e' ends0 ends0' He Hrest].
        * exists []. split; [constructor|]. intros fuel. rewrite Hstep, Hsucc. reflexivity.
        * exists (e :: ends0). split; [constructor; assumption|].
          destruct He as [[-> ->]|(H1 & H2 & H3 & H4)].
          -- split; [lia|]. intros fuel. rewrite Hstep. rewrite group_start_0. reflexivity.
          -- split; [exact H3|]. intros fuel. rewrite Hstep, H4. reflexivity.
      + (* a jump, re-pointed: group_start o t' = t *)
        subst t.
        destruct i; cbn [target_of] in Ht; try discriminate; inversion Ht; subst; cbn [set_target exec] in *.
        * (* Jump *)
          exists ends. repeat split; auto; try (intros fuel; rewrite Hstep; reflexivity).
        * (* PopJumpIfFalse *)
          destruct st as [|v st']; [exact Hstep|]. destruct (truthy v).
          -- exists ends. split; [exact Hends|]. intros fuel. rewrite Hstep, Hsucc. reflexivity.
          -- exists ends. repeat split; auto; try (intros fuel; rewrite Hstep; reflexivity).
        * (* JumpIfFalseOrPop *)
          destruct st as [|v st']; [exact Hstep|]. destruct (truthy v).
          -- exists ends. split; [exact Hends|]. intros fuel. rewrite Hstep, Hsucc. reflexivity.
          -- exists ends. repeat split; auto; try (intros fuel; rewrite Hstep; reflexivity).
        * (* JumpIfTrueOrPop *)
          destruct st as [|v st']; [exact Hstep|]. destruct (truthy v).
          -- exists ends. repeat split; auto; try (intros fuel; rewrite Hstep; reflexivity).
          -- exists ends. split; [exact Hends|]. intros fuel. rewrite Hstep, Hsucc. reflexivity.
        * (* Iterate *)
          destruct Hends as [|e e' ends0 ends0' He Hrest].
          -- exists []. split; [constructor|]. intros fuel. rewrite Hstep, Hsucc. reflexivity.
          -- destruct (is_over s).
             ++ exists (e :: ends0). split; [constructor; assumption|]. split; [exact Htl|].
                intros fuel. rewrite Hstep. reflexivity.
             ++ exists (group_start o t' :: ends0). split.
                ** constructor; [|exact Hrest]. right.
                   pose proof (Hiter _ _ Hi) as Hfw.
                   repeat split; try lia; auto.
                   intros ->. rewrite group_start_0 in Hfw. lia.
                ** intros fuel. rewrite Hstep, Hsucc. rewrite (end_rel_zero _ _ He). reflexivity.
  Qed.

  (* ---------- the two simulations ---------- *)

  Definition out_rel (a b : outcome) : Prop :=
    match a, b with
    | Done st ends s, Done st' ends' s' => st = st' /\ s = s' /\ ends_rel ends ends'
    | Fail, Fail => True
    | _, _ => False
    end.

  Lemma run_at_end fuel st ends s : run (Datatypes.S fuel) p (group_start o (length o)) st ends s = Done st ends s.
  Proof.
    cbn [run]. rewrite group_start_len_p.
    assert (nth_error p (length p) = None) as -> by (apply nth_error_None; lia). reflexivity.
  Qed.

  (* optimised run terminates (Done/Fail)  ==>  the original run terminates the same way *)
  Lemma sim_o_to_p : forall fuel' n st ends ends' s r',
    n <= length o -> ends_rel ends ends' ->
    run fuel' o n st ends' s = r' -> r' <> OutOfFuel ->
    exists fuel, out_rel (run fuel p (group_start o n) st ends s) r'.
  Proof.
    induction fuel' as [|fu IH]; intros n st ends ends' s r' Hn He Hr Hne; [cbn in Hr; congruence|].
    cbn [run] in Hr. destruct (nth_error o n) as [g|] eqn:Eg.
    - pose proof (group_sim_holds n g st ends ends' s Eg He) as Hsim. unfold group_sim in Hsim.
      destruct (exec g st ends' s) as [st2 ends2' s2|t' st2 ends2' s2|] eqn:Ex.
      + destruct Hsim as (ends2 & He2 & Hrun).
        assert (Hn' : Datatypes.S n <= length o) by (apply nth_error_Some; congruence).
        destruct (IH _ _ _ _ _ _ Hn' He2 Hr Hne) as (fuel & Hout).
        exists (gsize g + fuel). rewrite Hrun. exact Hout.
      + destruct Hsim as (ends2 & He2 & Htl & Hrun).
        destruct (IH _ _ _ _ _ _ Htl He2 Hr Hne) as (fuel & Hout).
        exists (gsize g + fuel). rewrite Hrun. exact Hout.
      + exists (gsize g + 0). rewrite Hsim. subst r'. exact I.
    - assert (n = length o) by (apply nth_error_None in Eg; lia). subst n r'.
      exists 1. rewrite run_at_end. cbn. auto.
  Qed.

  (* original run terminates  ==>  the optimised run terminates the same way.
     The original run is only observed at group boundaries, so we follow the optimised run and
     use determinism of the original one. *)
  Lemma run_deterministic_fuel : forall f1 f2 pc st ends s,
    run f1 p pc st ends s <> OutOfFuel -> run f2 p pc st ends s <> OutOfFuel ->
    run f1 p pc st ends s = run f2 p pc st ends s.
  Proof.
    intros f1 f2 pc st ends s H1 H2.
    destruct (Nat.le_ge_cases f1 f2) as [Hle|Hle].
    - replace f2 with (f1 + (f2 - f1)) by lia. symmetry. apply run_fuel_mono. exact H1.
    - replace f1 with (f2 + (f1 - f2)) by lia. apply run_fuel_mono. exact H2.
  Qed.

  Lemma sim_p_to_o : forall fuel n st ends ends' s,
    n <= length o -> ends_rel ends ends' ->
    run fuel p (group_start o n) st ends s <> OutOfFuel ->
    exists fuel', out_rel (run fuel p (group_start o n) st ends s) (run fuel' o n st ends' s).
  Proof.
    induction fuel as [fuel IH] using lt_wf_ind. intros n st ends ends' s Hn He Hne.
    destruct (nth_error o n) as [g|] eqn:Eg.
    - pose proof (group_sim_holds n g st ends ends' s Eg He) as Hsim. unfold group_sim in Hsim.
      pose proof (gsize_pos g) as Hgp.
      (* the original run needs at least gsize g units of fuel to leave the group or fail *)
      destruct (exec g st ends' s) as [st2 ends2' s2|t' st2 ends2' s2|] eqn:Ex.
      + destruct Hsim as (ends2 & He2 & Hrun).
        destruct (Nat.lt_ge_cases fuel (gsize g)) as [Hlt|Hge].
        * (* not enough fuel to finish the group: the run must have failed inside it, impossible
             because with more fuel it continues past the group *)
          exfalso. apply Hne.
          assert (Hmore : run (fuel + (gsize g - fuel)) p (group_start o n) st ends s =
                          run fuel p (group_start o n) st ends s) by (apply run_fuel_mono; exact Hne).
          replace (fuel + (gsize g - fuel)) with (gsize g + 0) in Hmore by lia.
          rewrite Hrun in Hmore. cbn in Hmore. congruence.
        * replace fuel with (gsize g + (fuel - gsize g)) in * by lia.
          rewrite Hrun in *.
          assert (Hn' : Datatypes.S n <= length o) by (apply nth_error_Some; congruence).
          destruct (IH (fuel - gsize g) ltac:(lia) _ _ _ _ _ Hn' He2 Hne) as (fuel' & Hout).
          exists (Datatypes.S fuel'). cbn [run]. rewrite Eg, Ex. exact Hout.
      + destruct Hsim as (ends2 & He2 & Htl & Hrun).
        destruct (Nat.lt_ge_cases fuel (gsize g)) as [Hlt|Hge].
        * exfalso. apply Hne.
          assert (Hmore : run (fuel + (gsize g - fuel)) p (group_start o n) st ends s =
                          run fuel p (group_start o n) st ends s) by (apply run_fuel_mono; exact Hne).
          replace (fuel + (gsize g - fuel)) with (gsize g + 0) in Hmore by lia.
          rewrite Hrun in Hmore. cbn in Hmore. congruence.
        * replace fuel with (gsize g + (fuel - gsize g)) in * by lia.
          rewrite Hrun in *.
          destruct (IH (fuel - gsize g) ltac:(lia) _ _ _ _ _ Htl He2 Hne) as (fuel' & Hout).
          exists (Datatypes.S fuel'). cbn [run]. rewrite Eg, Ex. exact Hout.
      + exists 1. cbn [run]. rewrite Eg, Ex.
        assert (Hf : run (gsize g + 0) p (group_start o n) st ends s = Fail) by apply Hsim.
        rewrite (run_deterministic_fuel fuel (gsize g + 0)); [rewrite Hf; exact I|exact Hne|rewrite Hf; discriminate].
    - assert (n = length o) by (apply nth_error_None in Eg; lia). subst n.
      destruct fuel as [|fuel]; [cbn in Hne; congruence|].
      exists 1. rewrite run_at_end. cbn [run]. rewrite Eg. cbn. auto.
  Qed.

End AbstractVM.

(* ---------- the pass itself ---------- *)

Definition iterate_forward (p : list instr) : Prop :=
  forall j t, nth_error p j = Some (Iterate t) -> j < t.

Fixpoint iterate_forwardb_from (j : nat) (p : list instr) : bool :=
  match p with
  | [] => true
  | Iterate t :: r => Nat.ltb j t && iterate_forwardb_from (S j) r
  | _ :: r => iterate_forwardb_from (S j) r
  end.
Definition iterate_forwardb (p : list instr) : bool := iterate_forwardb_from 0 p.

Lemma iterate_forwardb_from_ok : forall p j0, iterate_forwardb_from j0 p = true ->
  forall j t, nth_error p j = Some (Iterate t) -> j0 + j < t.
Proof.
  induction p as [|i p IH]; intros j0 H j t Hj; [destruct j; discriminate|].
  destruct j as [|j].
  - cbn in Hj. inversion Hj; subst. cbn in H. apply andb_prop in H. destruct H as [H _].
    apply Nat.ltb_lt in H. lia.
  - cbn in Hj. replace (j0 + S j) with (S j0 + j) by lia. apply IH; [|exact Hj].
    destruct i; cbn in H; try exact H. apply andb_prop in H. destruct H. assumption.
Qed.

Lemma iterate_forwardb_ok p : iterate_forwardb p = true -> iterate_forward p.
Proof. intros H j t Hj. apply (iterate_forwardb_from_ok p 0 H j t Hj). Qed.

(* Behaviour preservation. For every abstract VM (any value type, any opaque state, any
   semantics of the instructions the pass does not touch), every chunk p without fused
   instructions whose jump targets are in range and whose Iterate targets point forward, every
   value stack, every opaque state and every pair of related loop-frame lists: the run of p
   and the run of optimize p terminate together, with the same stack and opaque state (hence the
   same output bytes and captures) and related loop frames, or fail together. *)
Theorem optimize_correct
  (V S : Type) (undef : V) (is_undef : V -> bool) (Hu : is_undef undef = true)
  (get_value : S -> str -> V) (dump : S -> V) (get_attr : V -> str -> option V)
  (Hga : forall v a, is_undef v = true -> get_attr v a = None)
  (write : V -> S -> option S) (truthy : V -> bool) (is_over : S -> bool)
  (advance : S -> bool -> S) (other : instr -> list V -> S -> option (list V * S))
  (p : chunk) :
  unfused p -> targets_in_range p -> iterate_forward (map fst p) ->
  exists o, optimize p = Some o /\
    let runP := run V S undef is_undef get_value dump get_attr write truthy is_over advance other in
    let P := map fst p in let O := map fst o in
    forall st ends ends' s, ends_rel O ends ends' ->
      (forall fuel, runP fuel P 0 st ends s <> OutOfFuel V S ->
         exists fuel', out_rel V S O (runP fuel P 0 st ends s) (runP fuel' O 0 st ends' s)) /\
      (forall fuel', runP fuel' O 0 st ends' s <> OutOfFuel V S ->
         exists fuel, out_rel V S O (runP fuel P 0 st ends s) (runP fuel' O 0 st ends' s)).
Proof.
  intros Hunf Hrange Hit.
  destruct (optimize_structure p Hunf Hrange) as (o & Ho & Hrel & _ & _ & Hshape).
  exists o. split; [exact Ho|]. cbn zeta. intros st ends ends' s He. split.
  - intros fuel Hne.
    pose proof (sim_p_to_o V S undef is_undef Hu get_value dump get_attr Hga write truthy is_over advance
                  other (map fst p) (map fst o) Hrel Hshape Hit fuel 0 st ends ends' s
                  ltac:(lia) He) as H.
    rewrite group_start_0 in H. apply H. exact Hne.
  - intros fuel' Hne.
    pose proof (sim_o_to_p V S undef is_undef Hu get_value dump get_attr Hga write truthy is_over advance
                  other (map fst p) (map fst o) Hrel Hshape Hit fuel' 0 st ends ends' s _
                  ltac:(lia) He eq_refl Hne) as H.
    rewrite group_start_0 in H. exact H.
Qed.
