(* The two decimal printers (VFormat.z_to_str: division loop; Format.dec: Coq's Z.to_int) print
   the same numeral, hence Value::format as modelled by VFormat.v (World0) and by Format.v with
   World1's oracles agree on float-free, bytes-free values with well-formed keys. *)
From Coq Require Import List ZArith NArith Bool Lia Decimal DecimalFacts DecimalPos.
From TeraV Require Import Model.Value.
From TeraV Require Model.VFormat Model.Format Model.Order Model.World1 Proofs.OrderProofs Proofs.World1Proofs.
Import ListNotations.

Open Scope N_scope.

Definition mk (d : N) (u : uint) : uint :=
  match d with
  | 0 => D0 u | 1 => D1 u | 2 => D2 u | 3 => D3 u | 4 => D4 u
  | 5 => D5 u | 6 => D6 u | 7 => D7 u | 8 => D8 u | _ => D9 u
  end.

Lemma digit_cases d : d < 10 ->
  d = 0 \/ d = 1 \/ d = 2 \/ d = 3 \/ d = 4 \/ d = 5 \/ d = 6 \/ d = 7 \/ d = 8 \/ d = 9.
Proof. lia. Qed.

Lemma str_of_uint_mk d u : d < 10 -> Format.str_of_uint (mk d u) = (48 + d) :: Format.str_of_uint u.
Proof.
  intros H. destruct (digit_cases d H) as [->|[->|[->|[->|[->|[->|[->|[->|[->| ->]]]]]]]]]; reflexivity.
Qed.

Lemma of_lu_mk d u : d < 10 -> Unsigned.of_lu (mk d u) = d + 10 * Unsigned.of_lu u.
Proof.
  intros H. destruct (digit_cases d H) as [->|[->|[->|[->|[->|[->|[->|[->|[->| ->]]]]]]]]]; cbn [mk Unsigned.of_lu]; lia.
Qed.

Lemma revapp_mk d u v : revapp (mk d u) v = revapp u (mk d v).
Proof. unfold mk. destruct d as [|p]; [reflexivity|]. do 4 (destruct p; try reflexivity). Qed.

(* little-endian digits of n, as the division loop produces them *)
Fixpoint lu (fuel : nat) (n : N) : uint :=
  match fuel with
  | O => Nil
  | S f => mk (n mod 10) (if n / 10 =? 0 then Nil else lu f (n / 10))
  end.

Lemma log2_div10 n : 10 <= n -> N.log2 (n / 10) < N.log2 n.
Proof.
  intros H.
  assert (H2 : n / 10 <= n / 2).
  { apply N.div_le_lower_bound; [lia|]. pose proof (N.mul_div_le n 10 ltac:(lia)). nia. }
  assert (L : N.log2 (n / 2) < N.log2 n).
  { replace (n / 2) with (N.div2 n) by (rewrite N.div2_div; reflexivity).
    rewrite N.div2_spec, N.log2_shiftr, N.sub_1_r. apply N.lt_pred_l.
    intro Z. assert (N.log2 n > 0) by (pose proof (N.log2_le_mono 2 n ltac:(lia)); cbn in *; lia). lia. }
  pose proof (N.log2_le_mono _ _ H2). lia.
Qed.

Lemma of_lu_lu fuel : forall n, N.log2 n < N.of_nat fuel -> Unsigned.of_lu (lu fuel n) = n.
Proof.
  induction fuel as [|f IH]; intros n Hf; [lia|].
  cbn [lu]. rewrite of_lu_mk by (apply N.mod_lt; lia).
  pose proof (N.div_mod n 10 ltac:(lia)) as DM.
  destruct (n / 10 =? 0) eqn:Q.
  - apply N.eqb_eq in Q. cbn [Unsigned.of_lu]. lia.
  - apply N.eqb_neq in Q. rewrite IH; [lia|].
    assert (10 <= n) by (destruct (N.le_gt_cases 10 n); trivial; rewrite N.div_small in Q; lia).
    pose proof (log2_div10 n H). lia.
Qed.

(* the loop of VFormat.v is the reversal of those digits *)
Lemma pos_digits_lu fuel : forall n u,
  VFormat.pos_digits fuel n (Format.str_of_uint u) = Format.str_of_uint (revapp (lu fuel n) u).
Proof.
  induction fuel as [|f IH]; intros n u; [reflexivity|].
  cbn [VFormat.pos_digits lu]. rewrite revapp_mk.
  assert (Hd : n mod 10 < 10) by (apply N.mod_lt; lia).
  destruct (n / 10 =? 0).
  - cbn [revapp]. rewrite str_of_uint_mk by exact Hd. reflexivity.
  - rewrite <- IH, str_of_uint_mk by exact Hd. reflexivity.
Qed.

(* the most significant digit is not 0 *)
Lemma revapp_lu_head fuel : forall n u, n <> 0 -> N.log2 n < N.of_nat fuel ->
  exists d v, 1 <= d < 10 /\ revapp (lu fuel n) u = mk d v.
Proof.
  induction fuel as [|f IH]; intros n u Hn Hf; [lia|].
  cbn [lu]. rewrite revapp_mk.
  pose proof (N.div_mod n 10 ltac:(lia)) as DM.
  assert (Hd : n mod 10 < 10) by (apply N.mod_lt; lia).
  destruct (n / 10 =? 0) eqn:Q.
  - apply N.eqb_eq in Q. cbn [revapp]. exists (n mod 10), u. split; [lia|reflexivity].
  - apply N.eqb_neq in Q. apply IH; [exact Q|].
    assert (10 <= n) by (destruct (N.le_gt_cases 10 n); trivial; rewrite N.div_small in Q; lia).
    pose proof (log2_div10 n H). lia.
Qed.

Lemma unorm_mk d v : 1 <= d < 10 -> unorm (mk d v) = mk d v.
Proof.
  intros H. assert (d < 10) by lia.
  destruct (digit_cases d H0) as [->|[->|[->|[->|[->|[->|[->|[->|[->| ->]]]]]]]]]; try lia; reflexivity.
Qed.

Lemma n_to_str_to_uint p : VFormat.n_to_str (Npos p) = Format.str_of_uint (Pos.to_uint p).
Proof.
  unfold VFormat.n_to_str.
  set (fuel := S (N.to_nat (N.log2 (Npos p)))).
  assert (Hf : N.log2 (Npos p) < N.of_nat fuel) by (unfold fuel; lia).
  change (@nil N) with (Format.str_of_uint Nil). rewrite pos_digits_lu.
  change (revapp (lu fuel (Npos p)) Nil) with (Decimal.rev (lu fuel (Npos p))).
  f_equal.
  change (Pos.to_uint p) with (N.to_uint (Npos p)).
  rewrite <- (of_lu_lu fuel (Npos p) Hf) at 2.
  rewrite <- Unsigned.of_lu_rev, Unsigned.to_of.
  destruct (revapp_lu_head fuel (Npos p) Nil ltac:(discriminate) Hf) as [d [v [Hd E]]].
  change (revapp (lu fuel (Npos p)) Nil) with (Decimal.rev (lu fuel (Npos p))) in E.
  rewrite E, unorm_mk by exact Hd. reflexivity.
Qed.

Close Scope N_scope.

Theorem dec_z_to_str z : Format.dec z = VFormat.z_to_str z.
Proof.
  destruct z as [|p|p]; unfold Format.dec; cbn [Z.to_int Format.str_of_int VFormat.z_to_str].
  - reflexivity.
  - symmetry. apply n_to_str_to_uint.
  - f_equal. symmetry. apply n_to_str_to_uint.
Qed.

(* ================================================================== Value::format *)

(* no float and no byte string anywhere *)
Fixpoint plain (v : value) : bool :=
  match v with
  | VFloat _ | VBytes _ => false
  | VArr l => (fix go (l : list value) := match l with [] => true | x :: t => plain x && go t end) l
  | VMap m => (fix go (m : list (key * value)) := match m with [] => true | kv :: t => plain (snd kv) && go t end) m
  | _ => true
  end.

Lemma plain_arr l : plain (VArr l) = true <-> Forall (fun x => plain x = true) l.
Proof.
  cbn. induction l as [|x t IH]; [split; constructor|].
  rewrite andb_true_iff, IH. split; [intros [A B]; constructor; trivial|intros H; inversion H; auto].
Qed.
Lemma plain_map m : plain (VMap m) = true <-> Forall (fun kv : key * value => plain (snd kv) = true) m.
Proof.
  cbn. induction m as [|x t IH]; [split; constructor|].
  rewrite andb_true_iff, IH. split; [intros [A B]; constructor; trivial|intros H; inversion H; auto].
Qed.

Definition inner1 (x : value) : str :=
  match x with VStr s _ => VFormat.debug_str s | _ => World1.format1 x end.
Definition elemV (x : value) : str :=
  match x with VStr s _ => VFormat.debug_str s | _ => VFormat.format_value x end.

Lemma format1_arr l :
  World1.format1 (VArr l) = [91%N] ++ Format.join Format.s_comma (map inner1 l) ++ [93%N].
Proof. reflexivity. Qed.
Lemma format_value_arr l :
  VFormat.format_value (VArr l) = [91%N] ++ VFormat.join_with VFormat.s_comma_sp (map elemV l) ++ [93%N].
Proof. reflexivity. Qed.

Lemma format1_map m :
  World1.format1 (VMap m) =
  [123%N] ++ Format.join Format.s_comma
               (map (fun e : key * str => Format.fmt_key VFormat.debug_str (fst e) ++ Format.s_colon ++ snd e)
                    (Format.ksort (map (fun e : key * value => (fst e, inner1 (snd e))) m)))
          ++ [125%N].
Proof. reflexivity. Qed.

Definition entriesV : list (key * value) -> list (key * str) :=
  fix entries (es : list (key * value)) : list (key * str) :=
    match es with
    | [] => []
    | (k, x) :: t => (k, elemV x) :: entries t
    end.

Lemma format_value_map m :
  VFormat.format_value (VMap m) =
  [123%N] ++ VFormat.join_with VFormat.s_comma_sp
               (map (fun kx : key * str => VFormat.format_key (fst kx) ++ VFormat.s_colon_sp ++ snd kx)
                    (VFormat.sort_entries (entriesV m)))
          ++ [125%N].
Proof. reflexivity. Qed.

Lemma entriesV_map m : entriesV m = map (fun e : key * value => (fst e, elemV (snd e))) m.
Proof. induction m as [|[k x] t IH]; cbn; [reflexivity|rewrite IH; reflexivity]. Qed.

Lemma join_eq sep l : Format.join sep l = VFormat.join_with sep l.
Proof. induction l as [|x t IH]; cbn; trivial. all: try (destruct t; trivial; rewrite IH; reflexivity). Qed.

Lemma fmt_key_eq k : Format.fmt_key VFormat.debug_str k = VFormat.format_key k.
Proof. destruct k; cbn; trivial. apply dec_z_to_str. Qed.

Lemma kinsert_eq {A} (e : key * A) l : Order.key_wf (fst e) = true ->
  Forall (fun x => Order.key_wf (fst x) = true) l -> Format.kinsert e l = VFormat.insert_entry e l.
Proof.
  intros He Hl. induction Hl as [|x t Hx _ IH]; cbn; trivial.
  rewrite (World1Proofs.key_cmp_format _ _ He Hx), <- (World1Proofs.key_cmp_vformat _ _ He Hx), IH.
  reflexivity.
Qed.

Lemma insert_entry_wf {A} (e : key * A) l : Order.key_wf (fst e) = true ->
  Forall (fun x => Order.key_wf (fst x) = true) l ->
  Forall (fun x => Order.key_wf (fst x) = true) (VFormat.insert_entry e l).
Proof.
  intros He Hl. induction Hl as [|x t Hx Ht IH]; cbn; [constructor; trivial|].
  destruct (VFormat.key_cmp (fst e) (fst x)); repeat (constructor; trivial).
Qed.

Lemma ksort_eq {A} (l : list (key * A)) : Forall (fun x => Order.key_wf (fst x) = true) l ->
  Format.ksort l = VFormat.sort_entries l /\
  Forall (fun x => Order.key_wf (fst x) = true) (VFormat.sort_entries l).
Proof.
  intros Hl. induction Hl as [|x t Hx _ [IH1 IH2]]; cbn; [split; [reflexivity|constructor]|].
  unfold Format.ksort, VFormat.sort_entries in *. cbn [fold_right]. rewrite IH1. split.
  - apply kinsert_eq; trivial.
  - apply insert_entry_wf; trivial.
Qed.

Theorem format1_format_value : forall v, Order.wf v -> plain v = true ->
  World1.format1 v = VFormat.format_value v.
Proof.
  apply (OrderProofs.value_ind' (fun v => Order.wf v -> plain v = true -> World1.format1 v = VFormat.format_value v)).
  - reflexivity.
  - reflexivity.
  - reflexivity.
  - intros r z _ _. apply dec_z_to_str.
  - discriminate.
  - reflexivity.
  - intros l IH W P. rewrite format1_arr, format_value_arr.
    apply OrderProofs.wf_arr in W. apply plain_arr in P.
    change Format.s_comma with VFormat.s_comma_sp. rewrite join_eq.
    assert (E : map inner1 l = map elemV l).
    { induction l as [|x t IHt]; cbn [map]; trivial.
      inversion IH; inversion W; inversion P; subst.
      assert (Hx : inner1 x = elemV x) by (destruct x; trivial; apply H1; trivial).
      rewrite Hx, IHt; trivial. }
    rewrite E. reflexivity.
  - intros m IH W P. rewrite format1_map, format_value_map, entriesV_map.
    pose proof (World1Proofs.kwf_of_wf _ W) as K.
    apply OrderProofs.wf_map in W as [_ [_ Vw]]. apply plain_map in P.
    change Format.s_comma with VFormat.s_comma_sp. rewrite join_eq.
    assert (E : map (fun e : key * value => (fst e, inner1 (snd e))) m
                = map (fun e : key * value => (fst e, elemV (snd e))) m).
    { clear K. induction m as [|[k x] t IHt]; cbn [map]; trivial.
      inversion IH; inversion Vw; inversion P; subst. cbn [fst snd] in *.
      assert (Hx : inner1 x = elemV x) by (destruct x; trivial; apply H1; trivial).
      rewrite Hx, IHt; trivial. }
    rewrite E.
    assert (K' : Forall (fun x : key * str => Order.key_wf (fst x) = true)
                        (map (fun e : key * value => (fst e, elemV (snd e))) m)).
    { unfold World1Proofs.kwf in K. rewrite Forall_map. exact K. }
    destruct (ksort_eq _ K') as [S _]. rewrite S.
    do 3 f_equal.
    apply map_ext. intros [k x]. cbn [fst snd]. rewrite fmt_key_eq. reflexivity.
  - discriminate.
Qed.
