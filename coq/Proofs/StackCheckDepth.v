(* C07: the component recursion guard in the concrete VM model (interpreter.rs render_component
   / render_include). `depth` is run's component_recursion_depth parameter:
   - Include passes it on unchanged (the included template's VM keeps the counter), so recursion
     that alternates component calls and includes is still counted;
   - a component call runs its chunk at `S depth`, and only when `S depth <= w_max_depth`;
   hence no nested run ever has depth > w_max_depth, and unbounded component recursion ends in
   the error value ErrMsg. The abstract counterpart over call/include event traces is
   C05_depth_bounded / C05_include_keeps_depth. *)
From TeraV Require Import Model.Value Model.Instr Model.VM.
Local Open Scope nat_scope.

Section Depth.
  Variable W : Type.
  Variable wr : W -> str -> option W.
  Variable wd : world.

  Definition include_state (s : state) : state :=
    {| stack := []; loops := []; setvars := []; caps := []; blocks := []; cur_block := None;
       parent := Some (scope_of s); context := context s; global := None; capture_block := None;
       block_buffer := [] |}.

  (* Include: the nested run has the SAME depth *)
  Lemma include_keeps_depth f tpl ae depth ch ip s o n t2 :
    nth_error ch ip = Some (Include n) -> assoc_get (w_templates wd) n = Some t2 -> caps s = [] ->
    run W wr wd (S f) tpl ae depth ch ip s o =
    match run W wr wd f t2 ae depth (t_root_chunk t2) 0 (include_state s) o with
    | RDone _ o1 => run W wr wd f tpl ae depth ch (S ip) s o1
    | RFail e => RFail e
    | ROutOfFuel => ROutOfFuel
    end.
  Proof. intros H1 H2 H3. cbn [run]. rewrite H1, H2, H3. reflexivity. Qed.

  Lemma include_keeps_depth_captured f tpl ae depth ch ip s o n t2 c ct :
    nth_error ch ip = Some (Include n) -> assoc_get (w_templates wd) n = Some t2 -> caps s = c :: ct ->
    run W wr wd (S f) tpl ae depth ch ip s o =
    match run W wr wd f t2 ae depth (t_root_chunk t2) 0 (include_state s) (SinkBuf c) with
    | RDone _ (SinkBuf c1) => run W wr wd f tpl ae depth ch (S ip) (upd_caps s (c1 :: ct)) o
    | RDone _ (SinkTop _) => RFail ErrPanic
    | RFail e => RFail e
    | ROutOfFuel => ROutOfFuel
    end.
  Proof. intros H1 H2 H3. cbn [run]. rewrite H1, H2, H3. reflexivity. Qed.

  (* a component call at the limit never starts a nested run: it fails with an error value *)
  Lemma component_guard f tpl ae depth ch ip s o i n :
    nth_error ch ip = Some i -> i = RenderInlineComponent n \/ i = RenderBodyComponent n ->
    w_max_depth wd < S depth ->
    exists e, run W wr wd (S f) tpl ae depth ch ip s o = RFail e.
  Proof.
    intros H1 Hi Hd. apply Nat.ltb_lt in Hd. cbn [run]. rewrite H1. unfold fail.
    destruct Hi as [-> | ->].
    - destruct (pop1 s) as [[kw s1]|]; [|eauto]. destruct (kwargs_of kw); [|eauto].
      destruct (assoc_get (w_components wd) n) as [[def c]|]; [|eauto].
      destruct (w_build_ctx wd def k None); [|eauto]. rewrite Hd. eauto.
    - destruct (pop1 s) as [[kw s1]|]; [|eauto]. destruct (kwargs_of kw); [|eauto].
      destruct (assoc_get (w_components wd) n) as [[def c]|]; [|eauto].
      destruct (pop1 s1) as [[b s2]|]; [|eauto].
      destruct (w_build_ctx wd def k (Some (mark_safe b))); [|eauto]. rewrite Hd. eauto.
  Qed.

  (* below the limit the component chunk runs at exactly S depth (inline form) *)
  Lemma component_increases_depth f tpl ae depth ch ip s o n kw s1 k def c cctx :
    nth_error ch ip = Some (RenderInlineComponent n) -> pop1 s = Some (kw, s1) -> kwargs_of kw = Some k ->
    assoc_get (w_components wd) n = Some (def, c) -> w_build_ctx wd def k None = ROk cctx ->
    S depth <= w_max_depth wd ->
    run W wr wd (S f) tpl ae depth ch ip s o =
    match run W wr wd f tpl ae (S depth) c 0 (new_state cctx) (SinkBuf []) with
    | ROutOfFuel => ROutOfFuel
    | RFail e => RFail e
    | RDone _ (SinkTop _) => RFail ErrPanic
    | RDone _ (SinkBuf text) => run W wr wd f tpl ae depth ch (S ip) (push s1 (VStr text true)) o
    end.
  Proof.
    intros H1 H2 H3 H4 H5 Hd. cbn [run]. rewrite H1, H2, H3, H4. cbv beta iota. rewrite H5.
    assert (E : (w_max_depth wd <? S depth) = false) by (apply Nat.ltb_ge; exact Hd). rewrite E. reflexivity.
  Qed.
End Depth.
