(* Proofs for C19 (Model/Serde.v): round trip through both entry points, refusal of bad keys,
   agreement of the Context construction paths. *)
From TeraV Require Import Model.Value Model.Format Model.Serde Proofs.FormatProofs.
From Coq Require Import Permutation.

(* ------------------------------------------------------------------ induction on types *)

Section TyInd.
  Variable P : ty -> Prop.
  Hypothesis HUnit : P TUnit.
  Hypothesis HUnitStruct : P TUnitStruct.
  Hypothesis HBool : P TBool.
  Hypothesis HInt : forall sg bits, P (TInt sg bits).
  Hypothesis HFloat : forall bits, P (TFloat bits).
  Hypothesis HChar : P TChar.
  Hypothesis HString : P TString.
  Hypothesis HOption : forall t, P t -> P (TOption t).
  Hypothesis HNewtype : forall t, P t -> P (TNewtype t).
  Hypothesis HSeq : forall t, P t -> P (TSeq t).
  Hypothesis HTuple : forall ts, Forall P ts -> P (TTuple ts).
  Hypothesis HMap : forall k v, P k -> P v -> P (TMap k v).
  Hypothesis HStruct : forall fs, Forall (fun f => P (snd f)) fs -> P (TStruct fs).
  Hypothesis HEnum : forall vs, Forall (fun vr => P (snd (snd vr))) vs -> P (TEnum vs).

  Fixpoint ty_ind' (t : ty) : P t :=
    match t with
    | TUnit => HUnit | TUnitStruct => HUnitStruct | TBool => HBool
    | TInt sg bits => HInt sg bits | TFloat bits => HFloat bits
    | TChar => HChar | TString => HString
    | TOption t' => HOption t' (ty_ind' t')
    | TNewtype t' => HNewtype t' (ty_ind' t')
    | TSeq t' => HSeq t' (ty_ind' t')
    | TTuple ts =>
        HTuple ts ((fix go (l : list ty) : Forall P l :=
                      match l with
                      | [] => Forall_nil _
                      | x :: l' => Forall_cons x (ty_ind' x) (go l')
                      end) ts)
    | TMap k v => HMap k v (ty_ind' k) (ty_ind' v)
    | TStruct fs =>
        HStruct fs ((fix go (l : list (str * ty)) : Forall (fun f => P (snd f)) l :=
                       match l with
                       | [] => Forall_nil _
                       | x :: l' => Forall_cons x (ty_ind' (snd x)) (go l')
                       end) fs)
    | TEnum vs =>
        HEnum vs ((fix go (l : list (str * (vkind * ty))) : Forall (fun vr => P (snd (snd vr))) l :=
                     match l with
                     | [] => Forall_nil _
                     | x :: l' => Forall_cons x (ty_ind' (snd (snd x))) (go l')
                     end) vs)
    end.
End TyInd.

(* ------------------------------------------------------------------ small facts *)

Lemma str_eqb_refl : forall s, str_eqb s s = true.
Proof.
  induction s as [|c s IH]; cbn; [reflexivity|].
  rewrite N.eqb_refl, IH. reflexivity.
Qed.

Lemma str_eqb_eq : forall a b, str_eqb a b = true -> a = b.
Proof.
  induction a as [|x a IH]; destruct b as [|y b]; cbn; intro H; try discriminate; [reflexivity|].
  apply andb_true_iff in H. destruct H as [H1 H2].
  apply N.eqb_eq in H1. subst. f_equal. apply IH. exact H2.
Qed.

Lemma str_eqb_neq : forall a b, a <> b -> str_eqb a b = false.
Proof.
  intros a b H. destruct (str_eqb a b) eqn:E; [|reflexivity].
  exfalso. apply H. apply str_eqb_eq. exact E.
Qed.

Lemma sf_eqb_syn_eq : forall a b, sf_eqb_syn a b = true -> a = b.
Proof.
  intros a b H. destruct a, b; cbn in H; try discriminate; try reflexivity.
  - apply Bool.eqb_prop in H. subst. reflexivity.
  - apply Bool.eqb_prop in H. subst. reflexivity.
  - apply andb_true_iff in H. destruct H as [H H3].
    apply andb_true_iff in H. destruct H as [H1 H2].
    apply Bool.eqb_prop in H1. apply Pos.eqb_eq in H2. apply Z.eqb_eq in H3. subst. reflexivity.
Qed.

Lemma res_bind_ok : forall {A B} (r : res A) (f : A -> res B) b,
  res_bind r f = ROk b -> exists a, r = ROk a /\ f a = ROk b.
Proof. intros A B [a|e] f b H; cbn in H; [eauto|discriminate]. Qed.

(* map_res *)
Lemma map_res_forall2 : forall {A B} (f : A -> res B) l out,
  map_res f l = ROk out -> Forall2 (fun a b => f a = ROk b) l out.
Proof.
  intros A B f. induction l as [|a l IH]; cbn; intros out H.
  - inversion H. constructor.
  - apply res_bind_ok in H. destruct H as (b & Hb & H).
    apply res_bind_ok in H. destruct H as (bs & Hbs & H). inversion H; subst.
    constructor; [exact Hb|]. apply IH. exact Hbs.
Qed.

Lemma forall2_map_res : forall {A B} (f : A -> res B) l out,
  Forall2 (fun a b => f a = ROk b) l out -> map_res f l = ROk out.
Proof.
  intros A B f l out H. induction H as [|a b l out Hab _ IH]; cbn; [reflexivity|].
  rewrite Hab. cbn. rewrite IH. reflexivity.
Qed.

Lemma map_res_err : forall {A B} (f : A -> res B) l e,
  (forall a e', f a = RErr e' -> e' = e) -> forall e', map_res f l = RErr e' -> e' = e.
Proof.
  intros A B f l e Hf. induction l as [|a l IH]; cbn; intros e' H; [discriminate|].
  destruct (f a) eqn:Ea; cbn in H.
  - destruct (map_res f l) eqn:El; cbn in H; [discriminate|]. inversion H; subst. apply IH. reflexivity.
  - inversion H; subst. eapply Hf. exact Ea.
Qed.

Lemma map_res_in_err : forall {A B} (f : A -> res B) l a e,
  In a l -> f a = RErr e -> exists e', map_res f l = RErr e'.
Proof.
  intros A B f. induction l as [|h l IH]; cbn; intros a e Hin Ha; [contradiction|].
  destruct Hin as [->|Hin].
  - rewrite Ha. cbn. eauto.
  - destruct (f h); cbn; [|eauto].
    destruct (IH a e Hin Ha) as (e' & ->). cbn. eauto.
Qed.

(* ------------------------------------------------------------------ ty_all *)

Lemma ty_all_here : forall p t, ty_all p t = true -> p t = true.
Proof. intros p t H. destruct t; cbn in H; apply andb_true_iff in H; tauto. Qed.

Lemma ty_all_option : forall p t, ty_all p (TOption t) = true -> ty_all p t = true.
Proof. intros p t H. cbn in H. apply andb_true_iff in H. tauto. Qed.
Lemma ty_all_newtype : forall p t, ty_all p (TNewtype t) = true -> ty_all p t = true.
Proof. intros p t H. cbn in H. apply andb_true_iff in H. tauto. Qed.
Lemma ty_all_seq : forall p t, ty_all p (TSeq t) = true -> ty_all p t = true.
Proof. intros p t H. cbn in H. apply andb_true_iff in H. tauto. Qed.
Lemma ty_all_map : forall p k v, ty_all p (TMap k v) = true -> ty_all p k = true /\ ty_all p v = true.
Proof. intros p k v H. cbn in H. apply andb_true_iff in H. destruct H as [_ H]. apply andb_true_iff in H. exact H. Qed.
Lemma ty_all_tuple : forall p ts, ty_all p (TTuple ts) = true -> Forall (fun t => ty_all p t = true) ts.
Proof.
  intros p ts H. cbn in H. apply andb_true_iff in H. destruct H as [_ H].
  apply Forall_forall. intros t Hin. rewrite forallb_forall in H. apply (H t Hin).
Qed.
Lemma ty_all_struct : forall p fs, ty_all p (TStruct fs) = true -> Forall (fun f => ty_all p (snd f) = true) fs.
Proof.
  intros p fs H. cbn in H. apply andb_true_iff in H. destruct H as [_ H].
  apply Forall_forall. intros t Hin. rewrite forallb_forall in H. apply (H t Hin).
Qed.
Lemma ty_all_enum : forall p vs, ty_all p (TEnum vs) = true -> Forall (fun vr => ty_all p (snd (snd vr)) = true) vs.
Proof.
  intros p vs H. cbn in H. apply andb_true_iff in H. destruct H as [_ H].
  apply Forall_forall. intros t Hin. rewrite forallb_forall in H. apply (H t Hin).
Qed.

(* ------------------------------------------------------------------ serialisation facts *)

(* the only error of the serialiser is the refusal of a key *)
Lemma ser_key_err : forall k e, ser_key k = RErr e -> e = ErrMsg.
Proof.
  fix IH 1. intros k e H. destruct k; cbn in H; try (inversion H; reflexivity); try discriminate.
  - eapply IH; exact H.
  - eapply IH; exact H.
  - destruct k; inversion H; reflexivity.
Qed.

(* what a key is read back from is what the value serialiser would have produced *)
Lemma ser_key_ser : forall k kk, ser_key k = ROk kk -> ser k = ROk (key_as_value kk).
Proof.
  fix IH 1. intros k kk H. destruct k; cbn in H; try discriminate;
    try (inversion H; subst; reflexivity).
  - cbn. apply IH. exact H.
  - cbn. apply IH. exact H.
  - destruct k; try discriminate. inversion H; subst. reflexivity.
Qed.

Lemma ser_key_admissible : forall k, admissible_key k = true <-> exists kk, ser_key k = ROk kk.
Proof.
  fix IH 1. intro k. destruct k; cbn; try (split; [discriminate|intros (kk & H); discriminate]);
    try (split; [eauto|reflexivity]).
  - apply IH.
  - apply IH.
  - destruct k; cbn; try (split; [discriminate|intros (kk & H); discriminate]). split; [eauto|reflexivity].
Qed.

(* a value of a type that is not none-like is never written as none *)
Lemma ser_not_none : forall t v x,
  has_type v t -> none_like t = false -> ser v = ROk x -> x <> VNone /\ x <> VUndef.
Proof.
  induction t using ty_ind'; intros v x Hty Hnl Hser; cbn in Hnl; try discriminate;
    inversion Hty; subst; cbn in Hser.
  - inversion Hser; subst. split; discriminate.
  - inversion Hser; subst. split; discriminate.
  - inversion Hser; subst. split; discriminate.
  - inversion Hser; subst. split; discriminate.
  - inversion Hser; subst. split; discriminate.
  - eapply IHt; eauto.
  - apply res_bind_ok in Hser. destruct Hser as (ys & _ & Hx). inversion Hx; subst. split; discriminate.
  - apply res_bind_ok in Hser. destruct Hser as (ys & _ & Hx). inversion Hx; subst. split; discriminate.
  - apply res_bind_ok in Hser. destruct Hser as (ys & _ & Hx). inversion Hx; subst. split; discriminate.
  - apply res_bind_ok in Hser. destruct Hser as (ys & _ & Hx). inversion Hx; subst. split; discriminate.
  - destruct k.
    + inversion Hser; subst. split; discriminate.
    + apply res_bind_ok in Hser. destruct Hser as (ys & _ & Hx). inversion Hx; subst. split; discriminate.
    + apply res_bind_ok in Hser. destruct Hser as (ys & _ & Hx). inversion Hx; subst. split; discriminate.
    + apply res_bind_ok in Hser. destruct Hser as (ys & _ & Hx). inversion Hx; subst. split; discriminate.
Qed.

(* ------------------------------------------------------------------ maps without equal keys *)

Definition fresh_key (k : key) (acc : list (key * value)) : Prop :=
  Forall (fun a => fkey_eqb (fst a) k = false) acc.

Lemma map_insert_fresh : forall k x acc, fresh_key k acc -> map_insert k x acc = acc ++ [(k, x)].
Proof.
  intros k x acc H. induction H as [|[k' x'] acc Hk _ IH]; cbn; [reflexivity|].
  cbn in Hk. rewrite Hk, IH. reflexivity.
Qed.

(* earlier entries never equal later ones *)
Inductive distinct_keys : list (key * value) -> Prop :=
| DK_nil : distinct_keys []
| DK_cons e l : Forall (fun b => fkey_eqb (fst e) (fst b) = false) l -> distinct_keys l -> distinct_keys (e :: l).

Lemma build_map_from : forall es acc,
  distinct_keys es -> Forall (fun a => fresh_key (fst a) acc) es ->
  fold_left (fun acc e => map_insert (fst e) (snd e) acc) es acc = acc ++ es.
Proof.
  induction es as [|e es IH]; intros acc Hd Hf; cbn.
  - rewrite app_nil_r. reflexivity.
  - inversion Hd as [|e' l' Hhead Htail]; subst. inversion Hf as [|e' l' Hfe Hfes]; subst.
    rewrite map_insert_fresh by exact Hfe.
    rewrite IH.
    + rewrite <- app_assoc. destruct e. reflexivity.
    + exact Htail.
    + rewrite Forall_forall in *. intros b Hb. unfold fresh_key. apply Forall_app. split.
      * apply Hfes. exact Hb.
      * constructor; [|constructor]. destruct e. cbn in *. apply Hhead. exact Hb.
Qed.

Lemma build_map_distinct : forall es, distinct_keys es -> build_map es = es.
Proof.
  intros es H. unfold build_map. rewrite build_map_from; [reflexivity|exact H|].
  apply Forall_forall. intros a _. constructor.
Qed.

(* distinct keys of one key type are serialised to distinct keys *)
Lemma ser_key_inj : forall t k1 k2 a b,
  has_type k1 t -> has_type k2 t -> ser_key k1 = ROk a -> ser_key k2 = ROk b ->
  fkey_eqb a b = true -> k1 = k2.
Proof.
  induction t using ty_ind'; intros k1 k2 a b H1 H2 Ha Hb Heq;
    inversion H1; subst; inversion H2; subst; cbn in Ha, Hb; try discriminate.
  - inversion Ha; inversion Hb; subst. cbn in Heq. apply Bool.eqb_prop in Heq. subst. reflexivity.
  - inversion Ha; inversion Hb; subst. cbn in Heq. apply Z.eqb_eq in Heq. subst. reflexivity.
  - inversion Ha; inversion Hb; subst. cbn in Heq. apply andb_true_iff in Heq. destruct Heq as [Heq _].
    apply N.eqb_eq in Heq. subst. reflexivity.
  - inversion Ha; inversion Hb; subst. cbn in Heq. apply str_eqb_eq in Heq. subst. reflexivity.
  - f_equal. eapply IHt; eauto.
  - f_equal. eapply IHt; eauto.
  - destruct k; try discriminate. destruct k0; try discriminate.
    inversion Ha; inversion Hb; subst. cbn in Heq. apply str_eqb_eq in Heq. subst.
    match goal with Hu : VKUnit = VKUnit -> p = SUnit |- _ => rewrite (Hu eq_refl) end.
    match goal with Hu : VKUnit = VKUnit -> p0 = SUnit |- _ => rewrite (Hu eq_refl) end.
    reflexivity.
Qed.

Lemma forall2_in_r : forall {A B} (R : A -> B -> Prop) l l' b,
  Forall2 R l l' -> In b l' -> exists a, In a l /\ R a b.
Proof.
  intros A B R l l' b H. induction H as [|x y l l' Hxy _ IH]; cbn; intro Hin; [contradiction|].
  destruct Hin as [->|Hin]; [eauto|]. destruct (IH Hin) as (a & Ha & Hr). eauto.
Qed.

Lemma ser_entries_distinct : forall kt m es,
  Forall (fun e : sval * sval => has_type (fst e) kt) m -> NoDup (map fst m) ->
  Forall2 (fun (e : sval * sval) (o : key * value) => ser_key (fst e) = ROk (fst o)) m es ->
  distinct_keys es.
Proof.
  intros kt m es Hty Hnd H. induction H as [|e o m es Heo Hrest IH]; [constructor|].
  inversion Hty as [|e' m' Hte Htm]; subst. cbn in Hnd. inversion Hnd as [|k' l' Hnotin Hnd']; subst.
  constructor; [|apply IH; assumption].
  apply Forall_forall. intros b Hb.
  destruct (forall2_in_r _ _ _ _ Hrest Hb) as (a & Ha & Hab).
  destruct (fkey_eqb (fst o) (fst b)) eqn:E; [|reflexivity]. exfalso.
  apply Hnotin. rewrite Forall_forall in Htm.
  rewrite (ser_key_inj kt (fst e) (fst a) (fst o) (fst b) Hte (Htm a Ha) Heo Hab E).
  apply in_map. exact Ha.
Qed.

(* ------------------------------------------------------------------ struct fields *)

Definition mk_field_key (n : str) : key := KStr n false.

Lemma names_distinct_keys : forall es names,
  map fst es = map mk_field_key names -> str_nodupb names = true -> distinct_keys es.
Proof.
  induction es as [|e es IH]; intros names Hm Hnd; [constructor|].
  destruct names as [|n names]; [discriminate|]. cbn in Hm. inversion Hm as [[Hk Hrest]].
  cbn in Hnd. apply andb_true_iff in Hnd. destruct Hnd as [Hn Hnd].
  constructor; [|eapply IH; eauto].
  apply Forall_forall. intros b Hb. rewrite Hk. cbn.
  assert (Hin : In (fst b) (map mk_field_key names)) by (rewrite <- Hrest; apply in_map; exact Hb).
  apply in_map_iff in Hin. destruct Hin as (n' & Hn' & Hin'). rewrite <- Hn'. cbn.
  apply negb_true_iff in Hn.
  destruct (str_eqb n n') eqn:E; [|reflexivity].
  exfalso.
  assert (existsb (str_eqb n) names = true) by (apply existsb_exists; eauto).
  congruence.
Qed.

Lemma filter_field_none : forall es names n j,
  map fst es = map mk_field_key names -> existsb (str_eqb n) names = false ->
  filter (fun e : key * value => key_names (fst e) n j) es = [].
Proof.
  induction es as [|e es IH]; intros names n j Hm Hn; [reflexivity|].
  destruct names as [|n0 names]; [discriminate|]. cbn in Hm. inversion Hm as [[Hk Hrest]].
  cbn in Hn. apply orb_false_iff in Hn. destruct Hn as [Hn0 Hn].
  cbn. rewrite Hk. cbn.
  assert (str_eqb n0 n = false) as ->.
  { destruct (str_eqb n0 n) eqn:E; [|reflexivity]. apply str_eqb_eq in E. subst.
    rewrite str_eqb_refl in Hn0. discriminate. }
  eapply IH; eauto.
Qed.

Lemma filter_field_one : forall es names n xx j,
  map fst es = map mk_field_key names -> str_nodupb names = true ->
  In (mk_field_key n, xx) es ->
  filter (fun e : key * value => key_names (fst e) n j) es = [(mk_field_key n, xx)].
Proof.
  induction es as [|e es IH]; intros names n xx j Hm Hnd Hin; [contradiction|].
  destruct names as [|n0 names]; [discriminate|]. cbn in Hm. inversion Hm as [[Hk Hrest]].
  cbn in Hnd. apply andb_true_iff in Hnd. destruct Hnd as [Hn0 Hnd]. apply negb_true_iff in Hn0.
  destruct Hin as [He|Hin].
  - subst e. cbn in Hk. inversion Hk; subst n0. cbn. rewrite str_eqb_refl.
    f_equal. eapply filter_field_none; eauto.
  - assert (Hinn : In n names).
    { assert (In (mk_field_key n) (map mk_field_key names)) as H
        by (rewrite <- Hrest; change (mk_field_key n) with (fst (mk_field_key n, xx)); apply in_map; exact Hin).
      apply in_map_iff in H. destruct H as (n' & Hn' & Hin'). inversion Hn'; subst. exact Hin'. }
    cbn. rewrite Hk. cbn.
    assert (str_eqb n0 n = false) as ->.
    { destruct (str_eqb n0 n) eqn:E; [|reflexivity]. apply str_eqb_eq in E. subst.
      assert (existsb (str_eqb n) names = true) by (apply existsb_exists; exists n; split; [exact Hinn|apply str_eqb_refl]).
      congruence. }
    eapply IH; eauto.
Qed.

(* ------------------------------------------------------------------ enum variants *)

Lemma find_res_variant : forall {C} (f : str * (vkind * ty) -> res C) vs n kp j,
  find_variant n vs = Some kp ->
  exists n', str_eqb n n' = true /\ In (n', kp) vs /\
             find_res (fun (_ : Z) (vr : str * (vkind * ty)) => str_eqb n (fst vr)) f j vs = f (n', kp).
Proof.
  intros C f. induction vs as [|vr vs IH]; intros n kp j H; cbn in H; [discriminate|].
  cbn. destruct (str_eqb n (fst vr)) eqn:E.
  - inversion H; subst. exists (fst vr). destruct vr as [n' kp']. cbn in *. auto.
  - destruct (IH n kp (j + 1) H) as (n' & Hn & Hin & Hf). exists n'. auto.
Qed.

(* ------------------------------------------------------------------ round trip *)

Lemma zip_res_rt : forall (g : ty -> value -> res sval) l ts xs,
  Forall2 (fun v t => forall x, ser v = ROk x -> g t x = ROk v) l ts ->
  Forall2 (fun v x => ser v = ROk x) l xs ->
  zip_res g ts xs = ROk l.
Proof.
  intros g l ts xs H. revert xs. induction H as [|v t l ts Hvt _ IH]; intros xs Hs; inversion Hs; subst; cbn.
  - reflexivity.
  - rewrite (Hvt _ H1). cbn. rewrite (IH _ H3). reflexivity.
Qed.

Lemma map_res_rt : forall {A B} (f : A -> res B) (g : B -> res A) l xs,
  Forall (fun a => forall b, f a = ROk b -> g b = ROk a) l -> map_res f l = ROk xs -> map_res g xs = ROk l.
Proof.
  intros A B f g l xs H Hs. apply map_res_forall2 in Hs. apply forall2_map_res.
  induction Hs as [|a b l xs Hab _ IH]; [constructor|].
  inversion H; subst. constructor; auto.
Qed.

Lemma Forall2_impl' : forall {A B} (R R' : A -> B -> Prop) l l',
  (forall a b, R a b -> R' a b) -> Forall2 R l l' -> Forall2 R' l l'.
Proof. intros A B R R' l l' Hi H. induction H; constructor; auto. Qed.

Definition ty_ok (t : ty) : Prop := no_none_like_under_option t = true /\ names_ok t = true.

Definition rt_at (t : ty) : Prop :=
  forall v d x, no_none_like_under_option t = true -> names_ok t = true ->
                has_type v t -> ser v = ROk x -> de Fixed t d x = ROk v.

Lemma int_rep_wide : forall sg bits,
  (match int_rep sg bits with U128 | I128 => true | _ => false end) && negb (bits =? 128)%N = false.
Proof. intros sg bits. unfold int_rep. destruct (bits =? 128)%N, sg; reflexivity. Qed.

Lemma own_option_enum_fixed : forall d, own_option_enum Fixed d = true.
Proof. destruct d; reflexivity. Qed.

Lemma fields_ser_in : forall xs fs es,
  Forall2 (fun (xf : str * sval) (f : str * ty) => fst xf = fst f /\ has_type (snd xf) (snd f)) xs fs ->
  Forall2 (fun (a : str * sval) (o : key * value) =>
             res_bind (ser (snd a)) (fun x => ROk (KStr (fst a) false, x)) = ROk o) xs es ->
  Forall2 (fun (xf : str * sval) (f : str * ty) =>
             fst xf = fst f /\ has_type (snd xf) (snd f) /\
             exists y, In (mk_field_key (fst f), y) es /\ ser (snd xf) = ROk y) xs fs.
Proof.
  intros xs fs es H. revert es. induction H as [|xf f xs fs [Hn Ht] _ IH]; intros es Hes; [constructor|].
  inversion Hes as [|a o xs' es' Hao Hes']; subst.
  apply res_bind_ok in Hao. destruct Hao as (sv & Hsv & Hao). inversion Hao; subst.
  constructor.
  - split; [exact Hn|]. split; [exact Ht|]. exists sv. split; [left; rewrite Hn; reflexivity|exact Hsv].
  - eapply Forall2_impl'; [|apply IH; exact Hes'].
    intros a b (H1 & H2 & y & Hy & Hs). split; [exact H1|]. split; [exact H2|]. exists y. split; [right; exact Hy|exact Hs].
Qed.

Lemma mapi_fields_rt : forall es names,
  map fst es = map mk_field_key names -> str_nodupb names = true ->
  forall xs fs,
  Forall2 (fun (xf : str * sval) (f : str * ty) =>
             fst xf = fst f /\ has_type (snd xf) (snd f) /\
             exists y, In (mk_field_key (fst f), y) es /\ ser (snd xf) = ROk y) xs fs ->
  Forall (fun f : str * ty => rt_at (snd f)) fs ->
  Forall (fun f : str * ty => no_none_like_under_option (snd f) = true) fs ->
  Forall (fun f : str * ty => names_ok (snd f) = true) fs ->
  forall j,
  mapi_res (fun (j : Z) (f : str * ty) =>
              match filter (fun e : key * value => key_names (fst e) (fst f) j) es with
              | [] => if is_option (snd f) then ROk (fst f, SNone) else RErr ErrMsg
              | [e] => res_bind (de Fixed (snd f) DInner (snd e)) (fun x => ROk (fst f, x))
              | _ => RErr ErrMsg
              end) j fs = ROk xs.
Proof.
  intros es names Hkeys Hnames xs fs H. induction H as [|xf f xs fs (Hn & Ht & y & Hin & Hs) _ IH];
    intros HP Hno Hnm j; cbn [mapi_res]; [reflexivity|].
  inversion HP; subst. inversion Hno; subst. inversion Hnm; subst.
  rewrite (filter_field_one es names (fst f) y j Hkeys Hnames Hin).
  cbn. match goal with Hr : rt_at (snd f) |- _ => rewrite (Hr (snd xf) DInner y) by assumption end.
  cbn. rewrite IH by assumption. rewrite <- Hn. destruct xf; reflexivity.
Qed.

Theorem de_ser_roundtrip_strong : forall t, rt_at t.
Proof.
  induction t using ty_ind'; unfold rt_at; intros v d x Hno Hnm Hty Hser;
    inversion Hty; subst; cbn [ser] in Hser.
  - (* unit *) inversion Hser; subst. reflexivity.
  - inversion Hser; subst. reflexivity.
  - inversion Hser; subst. reflexivity.
  - (* int *) inversion Hser; subst. cbn [de de_int]. rewrite int_rep_wide.
    match goal with H : int_fits _ _ _ = true |- _ => rewrite H end. reflexivity.
  - (* float *) inversion Hser; subst. cbn [de de_float].
    match goal with H : float_fits _ _ = true |- _ => unfold float_fits in H end.
    destruct (bits =? 32)%N; [|reflexivity].
    match goal with H : sf_eqb_syn _ _ = true |- _ => apply sf_eqb_syn_eq in H; rewrite H end. reflexivity.
  - inversion Hser; subst. reflexivity.
  - inversion Hser; subst. reflexivity.
  - (* None *) inversion Hser; subst. reflexivity.
  - (* Some *)
    pose proof (ty_all_here _ _ Hno) as Hnl. cbn in Hnl. apply negb_true_iff in Hnl.
    match goal with H : has_type v0 t |- _ => destruct (ser_not_none t v0 x H Hnl Hser) as [Hn1 Hn2] end.
    cbn [de]. rewrite own_option_enum_fixed.
    rewrite (IHt v0 DInner x (ty_all_option _ _ Hno) (ty_all_option _ _ Hnm)) by assumption.
    destruct x; try reflexivity; congruence.
  - (* newtype *)
    cbn [de own_newtype].
    rewrite (IHt v0 DInner x (ty_all_newtype _ _ Hno) (ty_all_newtype _ _ Hnm)) by assumption. reflexivity.
  - (* seq *)
    apply res_bind_ok in Hser. destruct Hser as (xs & Hxs & Hx). inversion Hx; subst. cbn [de].
    rewrite (map_res_rt ser (de Fixed t DInner) l xs); [reflexivity| |exact Hxs].
    match goal with H : Forall _ l |- _ => rename H into Hl end.
    rewrite Forall_forall in *. intros a Ha b Hb.
    apply IHt; auto using ty_all_seq.
  - (* tuple *)
    apply res_bind_ok in Hser. destruct Hser as (xs & Hxs & Hx). inversion Hx; subst. cbn [de].
    rewrite (zip_res_rt (fun t' y => de Fixed t' DInner y) l ts xs); [reflexivity| |apply map_res_forall2; exact Hxs].
    pose proof (ty_all_tuple _ _ Hno) as Hno'. pose proof (ty_all_tuple _ _ Hnm) as Hnm'.
    match goal with H : Forall2 has_type l ts |- _ => rename H into Hl end.
    clear - H Hno' Hnm' Hl.
    induction Hl as [|a t0 l ts Hat _ IH]; [constructor|].
    inversion H; subst. inversion Hno'; subst. inversion Hnm'; subst.
    constructor; [|apply IH; assumption].
    intros y Hy. match goal with Hr : rt_at t0 |- _ => apply Hr; assumption end.
  - (* map *)
    apply res_bind_ok in Hser. destruct Hser as (es & Hes & Hx). inversion Hx; subst. clear Hx.
    destruct (ty_all_map _ _ _ Hno) as [Hnok Hnov]. destruct (ty_all_map _ _ _ Hnm) as [Hnmk Hnmv].
    apply map_res_forall2 in Hes.
    match goal with H : Forall _ m |- _ => rename H into Hm end.
    match goal with H : NoDup _ |- _ => rename H into Hnd end.
    assert (Hd : distinct_keys es).
    { eapply (ser_entries_distinct t1 m es); [| exact Hnd |].
      - eapply Forall_impl; [|exact Hm]. cbn. tauto.
      - eapply Forall2_impl'; [|exact Hes]. intros e o Heo. cbn in Heo.
        apply res_bind_ok in Heo. destruct Heo as (k & Hk & Heo).
        apply res_bind_ok in Heo. destruct Heo as (y & Hy & Heo). inversion Heo; subst. exact Hk. }
    rewrite (build_map_distinct es Hd). cbn [de].
    match goal with |- res_bind ?r _ = _ => assert (r = ROk m) as -> end; [|reflexivity].
    apply forall2_map_res.
    clear Hd Hnd Hty. revert Hm. induction Hes as [|e o m es Heo _ IH]; intro Hm; [constructor|].
    inversion Hm as [|e' m' [Hek Hev] Hm']; subst.
    constructor; [|apply IH; assumption].
    cbn in Heo. apply res_bind_ok in Heo. destruct Heo as (k & Hk & Heo).
    apply res_bind_ok in Heo. destruct Heo as (y & Hy & Heo). inversion Heo; subst. cbn.
    rewrite (IHt1 (fst e) DInner (key_as_value k) Hnok Hnmk Hek (ser_key_ser _ _ Hk)). cbn.
    rewrite (IHt2 (snd e) DInner y Hnov Hnmv Hev Hy). cbn. destruct e; reflexivity.
  - (* struct *)
    apply res_bind_ok in Hser. destruct Hser as (es & Hes & Hx). inversion Hx; subst. clear Hx.
    apply map_res_forall2 in Hes.
    pose proof (ty_all_here _ _ Hnm) as Hnames. cbn in Hnames.
    pose proof (ty_all_struct _ _ Hno) as Hno'. pose proof (ty_all_struct _ _ Hnm) as Hnm'.
    match goal with Hx : Forall2 _ xs fs |- _ => rename Hx into Hxf end.
    (* the serialised entries are (field name, serialised field) in declaration order *)
    assert (Hkeys : map fst es = map mk_field_key (map fst fs)).
    { clear - Hes Hxf. revert fs Hxf. induction Hes as [|a o xs es Hao _ IH]; intros fs Hxf; inversion Hxf; subst; [reflexivity|].
      cbn in Hao. apply res_bind_ok in Hao. destruct Hao as (sv & Hsv & Hao). inversion Hao; subst.
      cbn. match goal with Hf : _ /\ _ |- _ => destruct Hf as [-> _] end. f_equal. apply IH. assumption. }
    rewrite (build_map_distinct es (names_distinct_keys _ _ Hkeys Hnames)).
    cbn [de].
    assert (Hid : forallb (fun e : key * value => ident_key_ok (fst e)) es = true).
    { apply forallb_forall. intros e He. apply (in_map fst) in He. rewrite Hkeys in He.
      apply in_map_iff in He. destruct He as (n & <- & _). reflexivity. }
    rewrite Hid.
    match goal with |- res_bind ?r _ = _ => assert (r = ROk xs) as -> end; [|reflexivity].
    eapply mapi_fields_rt; eauto using fields_ser_in.
  - (* enum *)
    pose proof (ty_all_here _ _ Hnm) as Hshape. cbn in Hshape.
    pose proof (ty_all_enum _ _ Hno) as Hno'. pose proof (ty_all_enum _ _ Hnm) as Hnm'.
    match goal with Hf : find_variant n vs = Some _ |- _ => rename Hf into Hfind end.
    match goal with Hq : has_type p pt |- _ => rename Hq into Hp end.
    cbn [de]. rewrite own_option_enum_fixed.
    destruct k.
    + (* unit variant *)
      inversion Hser; subst. cbn.
      destruct (find_res_variant
        (fun vr : str * (vkind * ty) =>
           match fst (snd vr) with
           | VKUnit => ROk (SVariant (fst vr) VKUnit SUnit)
           | _ => RErr ErrMsg
           end) vs n _ 0 Hfind) as (n' & Hn & _ & Hf).
      apply str_eqb_eq in Hn. subst n'.
      match goal with Hu : VKUnit = VKUnit -> p = SUnit |- _ => rewrite (Hu eq_refl) end.
      etransitivity; [|exact Hf]. reflexivity.
    + (* newtype variant *)
      apply res_bind_ok in Hser. destruct Hser as (y & Hy & Hx). inversion Hx; subst. cbn.
      match goal with |- find_res ?pp ?ff 0 vs = _ =>
        destruct (find_res_variant ff vs n _ 0 Hfind) as (n' & Hn & Hin & Hf) end.
      apply str_eqb_eq in Hn. subst n'.
      etransitivity; [exact Hf|]. cbn.
      rewrite Forall_forall in H, Hno', Hnm'.
      pose proof (H _ Hin p DValue y (Hno' _ Hin) (Hnm' _ Hin) Hp Hy) as Hr. cbn in Hr. rewrite Hr. reflexivity.
    + (* tuple variant *)
      apply res_bind_ok in Hser. destruct Hser as (y & Hy & Hx). inversion Hx; subst. cbn.
      match goal with |- find_res ?pp ?ff 0 vs = _ =>
        destruct (find_res_variant ff vs n _ 0 Hfind) as (n' & Hn & Hin & Hf) end.
      apply str_eqb_eq in Hn. subst n'.
      etransitivity; [exact Hf|]. cbn.
      rewrite forallb_forall in Hshape. pose proof (Hshape _ Hin) as Hs. cbn in Hs.
      destruct pt; try discriminate. inversion Hp; subst. cbn [ser] in Hy.
      apply res_bind_ok in Hy. destruct Hy as (ys & Hys & Hy). inversion Hy; subst.
      rewrite Forall_forall in H, Hno', Hnm'.
      assert (Hy' : ser (STuple l) = ROk (VArr ys)) by (cbn [ser]; rewrite Hys; reflexivity).
      pose proof (H _ Hin (STuple l) DInner (VArr ys) (Hno' _ Hin) (Hnm' _ Hin) Hp Hy') as Hr.
      cbn [fst snd] in Hr. rewrite Hr. reflexivity.
    + (* struct variant *)
      apply res_bind_ok in Hser. destruct Hser as (y & Hy & Hx). inversion Hx; subst. cbn.
      match goal with |- find_res ?pp ?ff 0 vs = _ =>
        destruct (find_res_variant ff vs n _ 0 Hfind) as (n' & Hn & Hin & Hf) end.
      apply str_eqb_eq in Hn. subst n'.
      etransitivity; [exact Hf|]. cbn.
      rewrite forallb_forall in Hshape. pose proof (Hshape _ Hin) as Hs. cbn in Hs.
      destruct pt; try discriminate. inversion Hp; subst. cbn [ser] in Hy.
      apply res_bind_ok in Hy. destruct Hy as (ys & Hys & Hy). inversion Hy; subst.
      rewrite Forall_forall in H, Hno', Hnm'.
      assert (Hy' : ser (SStruct xs) = ROk (VMap (build_map ys))) by (cbn [ser]; rewrite Hys; reflexivity).
      pose proof (H _ Hin (SStruct xs) DInner (VMap (build_map ys)) (Hno' _ Hin) (Hnm' _ Hin) Hp Hy') as Hr.
      cbn [fst snd] in Hr. rewrite Hr. reflexivity.
Qed.

(* the statement in the form of the design: both entry points *)
Theorem de_ser_roundtrip_ok : forall e t v x,
  has_type v t -> no_none_like_under_option t = true -> names_ok t = true ->
  ser v = ROk x -> de_entry Fixed e t x = ROk v.
Proof. intros e t v x Hty Hno Hnm Hs. unfold de_entry. apply de_ser_roundtrip_strong; assumption. Qed.

(* ------------------------------------------------------------------ serialisation succeeds *)

Lemma map_res_total : forall {A B} (f : A -> res B) l,
  Forall (fun a => exists b, f a = ROk b) l -> exists out, map_res f l = ROk out.
Proof.
  intros A B f l H. induction H as [|a l (b & Hb) _ (out & IH)]; cbn; [eauto|].
  rewrite Hb, IH. cbn. eauto.
Qed.

Lemma find_variant_in : forall vs n kp, find_variant n vs = Some kp -> exists n', In (n', kp) vs.
Proof.
  induction vs as [|vr vs IH]; cbn; intros n kp H; [discriminate|].
  destruct (str_eqb n (fst vr)).
  - inversion H; subst. exists (fst vr). left. destruct vr; reflexivity.
  - destruct (IH _ _ H) as (n' & Hin). eauto.
Qed.

Lemma key_ser_ok : forall kt k, key_ty_ok kt = true -> has_type k kt -> exists kk, ser_key k = ROk kk.
Proof.
  induction kt using ty_ind'; intros k Hok Hty; cbn in Hok; try discriminate; inversion Hty; subst; cbn; eauto.
  match goal with Hf : find_variant _ _ = Some _ |- _ => destruct (find_variant_in _ _ _ Hf) as (n' & Hin) end.
  rewrite forallb_forall in Hok. specialize (Hok _ Hin). cbn in Hok.
  destruct k0; try discriminate. eauto.
Qed.

Theorem ser_total : forall t v, keys_ok t = true -> has_type v t -> exists x, ser v = ROk x.
Proof.
  induction t using ty_ind'; intros v Hk Hty; inversion Hty; subst; cbn [ser]; eauto.
  - destruct (map_res_total ser l) as (out & ->); [|cbn; eauto].
    rewrite Forall_forall in *. intros a Ha. apply IHt; [eapply ty_all_seq; eauto|auto].
  - destruct (map_res_total ser l) as (out & ->); [|cbn; eauto].
    pose proof (ty_all_tuple _ _ Hk) as Hk'. clear Hty Hk.
    match goal with Hl : Forall2 has_type l ts |- _ => induction Hl as [|a t0 l ts Hat _ IH] end; [constructor|].
    inversion H; subst. inversion Hk'; subst. constructor; auto.
  - pose proof (ty_all_here _ _ Hk) as Hkey. cbn in Hkey. destruct (ty_all_map _ _ _ Hk) as [Hk1 Hk2].
    match goal with |- exists x, res_bind (map_res ?F m) _ = _ => destruct (map_res_total F m) as (out & ->) end; [|cbn; eauto].
    match goal with Hm : Forall _ m |- _ => eapply Forall_impl; [|exact Hm] end.
    intros [k x] [Hkt Hvt]. cbn in *.
    destruct (key_ser_ok _ _ Hkey Hkt) as (kk & ->). destruct (IHt2 _ Hk2 Hvt) as (y & ->). cbn. eauto.
  - match goal with |- exists x, res_bind (map_res ?F xs) _ = _ => destruct (map_res_total F xs) as (out & ->) end; [|cbn; eauto].
    pose proof (ty_all_struct _ _ Hk) as Hk'. clear Hty Hk.
    match goal with Hl : Forall2 _ xs fs |- _ => induction Hl as [|a f xs fs [Hn Hat] _ IH] end; [constructor|].
    inversion H; subst. inversion Hk'; subst. constructor; [|auto].
    match goal with Hr : forall v, _ -> has_type v (snd f) -> _ |- _ => destruct (Hr (snd a)) as (y & ->); auto end.
    cbn. eauto.
  - destruct k; [eauto| | |];
      (match goal with Hf : find_variant n vs = Some _ |- _ => destruct (find_variant_in _ _ _ Hf) as (n' & Hin) end;
       pose proof (ty_all_enum _ _ Hk) as Hk'; rewrite Forall_forall in H, Hk';
       match goal with Hp : has_type p pt |- _ => destruct (H _ Hin p (Hk' _ Hin) Hp) as (y & ->) end; cbn; eauto).
Qed.

(* C19, first sentence, in the design's form *)
Theorem de_ser_roundtrip : forall e t v,
  has_type v t -> no_none_like_under_option t = true -> names_ok t = true -> keys_ok t = true ->
  res_bind (ser v) (de_entry Fixed e t) = ROk v.
Proof.
  intros e t v Hty Hno Hnm Hk. destruct (ser_total t v Hk Hty) as (x & Hx). rewrite Hx. cbn.
  eapply de_ser_roundtrip_ok; eauto.
Qed.

(* ------------------------------------------------------------------ bad keys *)

Theorem bad_key_refused : forall m k x,
  In (k, x) m -> admissible_key k = false -> exists e, ser (SMap m) = RErr e.
Proof.
  intros m k x Hin Hbad. cbn [ser].
  assert (Hk : exists e, ser_key k = RErr e).
  { destruct (ser_key k) eqn:E; [|eauto]. exfalso.
    assert (admissible_key k = true) by (apply ser_key_admissible; eauto). congruence. }
  destruct Hk as (e & Hk).
  match goal with |- exists e0, res_bind (map_res ?F m) _ = _ =>
    destruct (map_res_in_err F m (k, x) e Hin) as (e' & ->) end; [|cbn; eauto].
  cbn. rewrite Hk. reflexivity.
Qed.

Lemma bad_key_type_inadmissible : forall kt k, key_ty_bad kt = true -> has_type k kt -> admissible_key k = false.
Proof.
  induction kt using ty_ind'; intros k Hb Hty; cbn in Hb; try discriminate; inversion Hty; subst; cbn; try reflexivity; auto.
  match goal with Hf : find_variant _ _ = Some _ |- _ => destruct (find_variant_in _ _ _ Hf) as (n' & Hin) end.
  rewrite forallb_forall in Hb. specialize (Hb _ Hin). cbn in Hb.
  destruct k0; [discriminate|reflexivity|reflexivity|reflexivity].
Qed.

(* a non-empty map whose key type is a float, unit, sequence, tuple, map, struct (or a wrapper
   of one, or an enum without unit variants) is refused *)
Theorem bad_key_type_refused : forall m kt vt,
  has_type (SMap m) (TMap kt vt) -> key_ty_bad kt = true -> m <> [] -> exists e, ser (SMap m) = RErr e.
Proof.
  intros m kt vt Hty Hb Hne. destruct m as [|[k x] m]; [congruence|].
  inversion Hty; subst. inversion H2 as [|e l [Hk _] _]; subst.
  eapply (bad_key_refused _ k x); [left; reflexivity|].
  eapply bad_key_type_inadmissible; eauto.
Qed.

(* never an altered value: whatever ser returns for a map with an inadmissible key, it is not Ok *)
Corollary bad_key_never_ok : forall m k x y,
  In (k, x) m -> admissible_key k = false -> ser (SMap m) <> ROk y.
Proof. intros m k x y Hin Hb H. destruct (bad_key_refused m k x Hin Hb) as (e & He). congruence. Qed.

(* ------------------------------------------------------------------ Context paths *)

Fixpoint insert_all (xs : list (str * sval)) (c : ctx) : res ctx :=
  match xs with
  | [] => ROk c
  | f :: t => res_bind (insert (fst f) (snd f) c) (insert_all t)
  end.
Definition insert_value_all (es : list (str * value)) (c : ctx) : ctx :=
  fold_left (fun acc e => insert_value (fst e) (snd e) acc) es c.

Definition ser_fields (xs : list (str * sval)) : res (list (str * value)) :=
  map_res (fun f : str * sval => res_bind (ser (snd f)) (fun x => ROk (fst f, x))) xs.

Lemma ser_fields_keys : forall xs es,
  ser_fields xs = ROk es ->
  map_res (fun e : str * sval => res_bind (ser (snd e)) (fun x => ROk (KStr (fst e) false, x))) xs
  = ROk (map (fun e : str * value => (mk_field_key (fst e), snd e)) es)
  /\ map fst es = map fst xs.
Proof.
  unfold ser_fields. induction xs as [|f xs IH]; cbn; intros es H.
  - inversion H; subst. split; reflexivity.
  - apply res_bind_ok in H. destruct H as (b & Hb & H). apply res_bind_ok in H. destruct H as (bs & Hbs & H).
    inversion H; subst. apply res_bind_ok in Hb. destruct Hb as (y & Hy & Hb). inversion Hb; subst.
    destruct (IH _ Hbs) as [IH1 IH2]. rewrite Hy. cbn. rewrite IH1. cbn. split; [reflexivity|]. f_equal. exact IH2.
Qed.

Lemma ctx_of_field_entries : forall es c,
  ctx_of_entries (map (fun e : str * value => (mk_field_key (fst e), snd e)) es) c = insert_value_all es c.
Proof.
  unfold ctx_of_entries, insert_value_all. induction es as [|e es IH]; intro c; cbn; [reflexivity|]. apply IH.
Qed.

Lemma insert_all_fields : forall xs es c, ser_fields xs = ROk es -> insert_all xs c = ROk (insert_value_all es c).
Proof.
  unfold ser_fields. induction xs as [|f xs IH]; cbn; intros es c H.
  - inversion H; subst. reflexivity.
  - apply res_bind_ok in H. destruct H as (b & Hb & H). apply res_bind_ok in H. destruct H as (bs & Hbs & H).
    inversion H; subst. apply res_bind_ok in Hb. destruct Hb as (y & Hy & Hb). inversion Hb; subst.
    unfold insert. rewrite Hy. cbn. apply IH. exact Hbs.
Qed.

(* from_serialize of a struct = insert of each field = insert_value of each converted field *)
Theorem context_paths_agree : forall xs es,
  str_nodupb (map fst xs) = true -> ser_fields xs = ROk es ->
  from_serialize (SStruct xs) = ROk (insert_value_all es [])
  /\ insert_all xs [] = ROk (insert_value_all es []).
Proof.
  intros xs es Hnd Hs. split; [|apply insert_all_fields; exact Hs].
  destruct (ser_fields_keys xs es Hs) as [Hk Hn].
  unfold from_serialize. cbn [ser]. rewrite Hk. cbn.
  rewrite build_map_distinct.
  - rewrite ctx_of_field_entries. reflexivity.
  - eapply names_distinct_keys; [|exact Hnd]. rewrite <- Hn. rewrite !map_map. reflexivity.
Qed.

(* a value that is not written as a map is refused by from_serialize, not altered *)
Lemma from_serialize_needs_map : forall v x,
  ser v = ROk x -> (forall m, x <> VMap m) -> from_serialize v = RErr ErrMsg.
Proof. intros v x Hs Hm. unfold from_serialize. rewrite Hs. cbn. destruct x; try reflexivity. exfalso. eapply Hm; reflexivity. Qed.

(* ------------------------------------------------------------------ the pinned code (before D7, D14) *)

(* D7: by reference, Some(3u8) is an error *)
Lemma D7_pinned_byref_refuted :
  exists t v x, has_type v t /\ no_none_like_under_option t = true /\ names_ok t = true /\ keys_ok t = true /\
                ser v = ROk x /\ de_entry Pinned Owned t x = ROk v /\ de_entry Pinned ByRef t x = RErr ErrMsg.
Proof.
  exists (TOption (TInt false 8)), (SSome (SInt false 8 3)), (VInt U64 3).
  repeat split; try reflexivity. constructor. constructor; reflexivity.
Qed.

(* D7: by reference, every enum shape is an error *)
Lemma D7_pinned_byref_enum_refuted : forall n,
  de_entry Pinned ByRef (TEnum [VUnit n]) (VStr n false) = RErr ErrMsg
  /\ de_entry Fixed ByRef (TEnum [VUnit n]) (VStr n false) = ROk (SVariant n VKUnit SUnit).
Proof. intro n. split; [reflexivity|]. cbn. rewrite str_eqb_refl. reflexivity. Qed.

(* D14: a newtype struct around [[]] comes back ALTERED through either entry point *)
Lemma D14_pinned_newtype_refuted :
  exists t v x w, has_type v t /\ no_none_like_under_option t = true /\ names_ok t = true /\ keys_ok t = true /\
                  ser v = ROk x /\ de_entry Pinned Owned t x = ROk w /\ de_entry Pinned ByRef t x = ROk w /\ w <> v.
Proof.
  exists (TNewtype (TSeq (TSeq (TInt false 8)))), (SNewtype (SSeq [SSeq []])), (VArr [VArr []]), (SNewtype (SSeq [])).
  repeat split; try reflexivity.
  - repeat constructor.
  - discriminate.
Qed.

(* ------------------------------------------------------------------ integers print exactly *)

Theorem print_integers_exact : forall ffmt sdbg blossy sg bits z,
  (exists x, ser (SInt sg bits z) = ROk x /\ format ffmt sdbg blossy x = dec z)
  /\ parse_dec (dec z) = Some z.
Proof.
  intros. split; [|apply parse_dec_dec].
  exists (VInt (int_rep sg bits) z). split; reflexivity.
Qed.
