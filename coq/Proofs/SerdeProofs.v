From TeraV Require Import Model.Value Model.Format Model.Serde.
