(* C19: a converted Value sent through serde again (`impl Serialize for Value` / `for Key`,
   Model/Serde.v `reser`) comes back as itself. *)
From TeraV Require Import Model.Value Model.Format Model.Serde Proofs.FormatProofs Proofs.SerdeProofs.

(* ------------------------------------------------------------------ keys *)

Lemma fkey_eqb_rekey : forall a b, fkey_eqb (rekey a) (rekey b) = fkey_eqb a b.
Proof. destruct a as [x|r x|s o], b as [y|r' y|t o']; reflexivity. Qed.

Lemma key_same_rekey : forall k, key_same (rekey k) k = true.
Proof.
  destruct k as [x|r x|s o]; cbn.
  - destruct x; reflexivity.
  - rewrite Z.eqb_refl. destruct r; reflexivity.
  - apply str_eqb_refl.
Qed.

Lemma distinct_keys_map : forall (g : key * value -> key * value) l,
  (forall a b, fkey_eqb (fst (g a)) (fst (g b)) = fkey_eqb (fst a) (fst b)) ->
  distinct_keys l -> distinct_keys (map g l).
Proof.
  intros g l Hg H. induction H as [|e l Hf _ IH]; cbn; constructor; [|exact IH].
  apply Forall_map. eapply Forall_impl; [|exact Hf]. intros b Hb. cbn. rewrite Hg. exact Hb.
Qed.

(* build_map never leaves two equal keys, whatever it is given *)
Lemma map_insert_fst : forall (Q : key -> Prop) k x m,
  Forall (fun b : key * value => Q (fst b)) m -> Q k -> Forall (fun b : key * value => Q (fst b)) (map_insert k x m).
Proof.
  intros Q k x. induction m as [|[k' x'] t IH]; intros Hm Hk; cbn.
  - constructor; [exact Hk|constructor].
  - inversion Hm; subst. destruct (fkey_eqb k' k); constructor; auto.
Qed.

Lemma map_insert_distinct : forall k x m, distinct_keys m -> distinct_keys (map_insert k x m).
Proof.
  intros k x. induction m as [|[k' x'] t IH]; intro H; cbn.
  - constructor; constructor.
  - inversion H as [|e l Hf Ht]; subst. destruct (fkey_eqb k' k) eqn:E.
    + constructor; assumption.
    + constructor; [|apply IH; exact Ht].
      apply (map_insert_fst (fun kk => fkey_eqb k' kk = false)); [exact Hf|exact E].
Qed.

Lemma map_insert_snd : forall (P : value -> Prop) k x m,
  Forall (fun b : key * value => P (snd b)) m -> P x -> Forall (fun b : key * value => P (snd b)) (map_insert k x m).
Proof.
  intros P k x. induction m as [|[k' x'] t IH]; intros Hm Hx; cbn.
  - constructor; [exact Hx|constructor].
  - inversion Hm; subst. destruct (fkey_eqb k' k); constructor; auto.
Qed.

Lemma build_map_inv : forall (P : value -> Prop) es,
  Forall (fun b : key * value => P (snd b)) es ->
  distinct_keys (build_map es) /\ Forall (fun b : key * value => P (snd b)) (build_map es).
Proof.
  intros P es H. unfold build_map.
  assert (G : forall acc, distinct_keys acc -> Forall (fun b : key * value => P (snd b)) acc ->
            distinct_keys (fold_left (fun acc e => map_insert (fst e) (snd e) acc) es acc)
            /\ Forall (fun b : key * value => P (snd b)) (fold_left (fun acc e => map_insert (fst e) (snd e) acc) es acc)).
  { induction H as [|e es He _ IH]; intros acc Hd Hp; cbn; [auto|].
    apply IH; [apply map_insert_distinct; exact Hd|apply map_insert_snd; assumption]. }
  apply G; constructor.
Qed.

(* ------------------------------------------------------------------ well-formed values *)

(* what a Map can hold: no two equal keys, at any depth *)
Inductive wfv : value -> Prop :=
| WF_undef : wfv VUndef | WF_none : wfv VNone | WF_bool b : wfv (VBool b) | WF_int r z : wfv (VInt r z)
| WF_float f : wfv (VFloat f) | WF_str s f : wfv (VStr s f) | WF_bytes b : wfv (VBytes b)
| WF_arr l : Forall wfv l -> wfv (VArr l)
| WF_map m : distinct_keys m -> Forall (fun e => wfv (snd e)) m -> wfv (VMap m).

(* every well-formed value (bytes, 128-bit integers, undefined, safe strings, every key kind
   included) is re-serialised without error, to `renorm` of itself *)
Theorem reser_renorm : forall v, wfv v -> reser v = ROk (renorm v).
Proof.
  induction v using value_ind'; intro Hwf; try reflexivity.
  - inversion Hwf as [| | | | | | |l' Hl|]; subst. cbn [reser renorm].
    assert (map_res reser l = ROk (map renorm l)) as ->; [|reflexivity].
    apply forall2_map_res. clear Hwf. induction H as [|a l Ha _ IH]; cbn; [constructor|].
    inversion Hl; subst. constructor; auto.
  - inversion Hwf as [| | | | | | | |m' Hd Hm]; subst. cbn [reser renorm].
    match goal with |- res_bind (map_res ?F m) _ = _ =>
      assert (map_res F m = ROk (map (fun e : key * value => (rekey (fst e), renorm (snd e))) m)) as -> end.
    { apply forall2_map_res. clear Hwf Hd. induction H as [|a l Ha _ IH]; cbn; [constructor|].
      inversion Hm; subst. constructor; [|auto]. rewrite Ha by assumption. reflexivity. }
    cbn. rewrite build_map_distinct; [reflexivity|].
    apply distinct_keys_map; [|exact Hd]. intros a b. cbn. apply fkey_eqb_rekey.
Qed.

(* the kinds that are NOT fixed points, exactly: undefined (becomes none), safe strings (the flag is
   dropped), borrowed string keys (become owned keys — the same key for Eq/Hash/Ord/Display) *)
Inductive fixedv : value -> Prop :=
| FX_none : fixedv VNone | FX_bool b : fixedv (VBool b) | FX_int r z : fixedv (VInt r z)
| FX_float f : fixedv (VFloat f) | FX_str s : fixedv (VStr s false) | FX_bytes b : fixedv (VBytes b)
| FX_arr l : Forall fixedv l -> fixedv (VArr l)
| FX_map m : Forall (fun e => rekey (fst e) = fst e /\ fixedv (snd e)) m -> fixedv (VMap m).

Lemma renorm_fixed : forall v, fixedv v -> renorm v = v.
Proof.
  induction v using value_ind'; intro Hf; inversion Hf; subst; try reflexivity; cbn [renorm]; f_equal.
  - rewrite <- (map_id l) at 2. apply map_ext_in. intros a Ha. rewrite Forall_forall in *. auto.
  - rewrite <- (map_id m) at 2. apply map_ext_in. intros [k x] Ha. rewrite Forall_forall in *.
    destruct (H1 _ Ha) as [Hk Hx]. cbn in *. rewrite Hk. f_equal. apply (H _ Ha). exact Hx.
Qed.

Theorem reser_fixed_point : forall v, wfv v -> fixedv v -> reser v = ROk v.
Proof. intros v Hw Hf. rewrite reser_renorm by exact Hw. rewrite renorm_fixed by exact Hf. reflexivity. Qed.

Example reser_undefined : reser VUndef = ROk VNone. Proof. reflexivity. Qed.
Example reser_safe_string : forall s, reser (VStr s true) = ROk (VStr s false). Proof. reflexivity. Qed.
Example reser_bytes : forall b, reser (VBytes b) = ROk (VBytes b). Proof. reflexivity. Qed.
Example reser_bool_key : forall b x, reser (VMap [(KBool b, VInt U128 x)]) = ROk (VMap [(KBool b, VInt U128 x)]).
Proof. reflexivity. Qed.

(* ------------------------------------------------------------------ the image of `ser` *)

(* converted values: no undefined, no safe string, no bytes, no two equal keys *)
Inductive imgv : value -> Prop :=
| IM_none : imgv VNone | IM_bool b : imgv (VBool b) | IM_int r z : imgv (VInt r z)
| IM_float f : imgv (VFloat f) | IM_str s : imgv (VStr s false)
| IM_arr l : Forall imgv l -> imgv (VArr l)
| IM_map m : distinct_keys m -> Forall (fun e => imgv (snd e)) m -> imgv (VMap m).

Section SvalInd.
  Variable P : sval -> Prop.
  Hypothesis H0 : P SUnit.
  Hypothesis H1 : P SUnitStruct.
  Hypothesis H2 : forall b, P (SBool b).
  Hypothesis H3 : forall sg bits z, P (SInt sg bits z).
  Hypothesis H4 : forall bits f, P (SFloat bits f).
  Hypothesis H5 : forall c, P (SChar c).
  Hypothesis H6 : forall s, P (SStr s).
  Hypothesis H7 : P SNone.
  Hypothesis H8 : forall v, P v -> P (SSome v).
  Hypothesis H9 : forall v, P v -> P (SNewtype v).
  Hypothesis H10 : forall l, Forall P l -> P (SSeq l).
  Hypothesis H11 : forall l, Forall P l -> P (STuple l).
  Hypothesis H12 : forall m, Forall (fun e => P (fst e) /\ P (snd e)) m -> P (SMap m).
  Hypothesis H13 : forall fs, Forall (fun e => P (snd e)) fs -> P (SStruct fs).
  Hypothesis H14 : forall n k p, P p -> P (SVariant n k p).

  Fixpoint sval_ind' (v : sval) : P v :=
    let go := fix go (l : list sval) : Forall P l :=
      match l with [] => Forall_nil _ | x :: l' => Forall_cons x (sval_ind' x) (go l') end in
    match v with
    | SUnit => H0 | SUnitStruct => H1 | SBool b => H2 b | SInt sg bits z => H3 sg bits z
    | SFloat bits f => H4 bits f | SChar c => H5 c | SStr s => H6 s | SNone => H7
    | SSome x => H8 x (sval_ind' x) | SNewtype x => H9 x (sval_ind' x)
    | SSeq l => H10 l (go l) | STuple l => H11 l (go l)
    | SMap m =>
        H12 m ((fix gm (l : list (sval * sval)) : Forall (fun e => P (fst e) /\ P (snd e)) l :=
                  match l with
                  | [] => Forall_nil _
                  | x :: l' => Forall_cons x (conj (sval_ind' (fst x)) (sval_ind' (snd x))) (gm l')
                  end) m)
    | SStruct fs =>
        H13 fs ((fix gf (l : list (str * sval)) : Forall (fun e => P (snd e)) l :=
                   match l with
                   | [] => Forall_nil _
                   | x :: l' => Forall_cons x (sval_ind' (snd x)) (gf l')
                   end) fs)
    | SVariant n k p => H14 n k p (sval_ind' p)
    end.
End SvalInd.

Lemma map_res_forall_out : forall {A B} (f : A -> res B) (P : A -> Prop) (Q : B -> Prop) l out,
  Forall P l -> (forall a b, P a -> f a = ROk b -> Q b) -> map_res f l = ROk out -> Forall Q out.
Proof.
  intros A B f P Q l out HP Hpq Hm. apply map_res_forall2 in Hm.
  induction Hm as [|a b l out Hab _ IH]; [constructor|]. inversion HP; subst. constructor; eauto.
Qed.

(* whatever type it came from (typed or not), a converted value is well-formed and clean *)
Theorem ser_image : forall sv x, ser sv = ROk x -> imgv x.
Proof.
  induction sv using sval_ind'; intros x Hs; cbn [ser] in Hs;
    try (inversion Hs; subst; constructor; fail).
  - auto.
  - auto.
  - apply res_bind_ok in Hs. destruct Hs as (xs & Hxs & Hx). inversion Hx; subst. constructor.
    eapply (map_res_forall_out ser _ imgv); [exact H| |exact Hxs]. cbn. auto.
  - apply res_bind_ok in Hs. destruct Hs as (xs & Hxs & Hx). inversion Hx; subst. constructor.
    eapply (map_res_forall_out ser _ imgv); [exact H| |exact Hxs]. cbn. auto.
  - apply res_bind_ok in Hs. destruct Hs as (es & Hes & Hx). inversion Hx; subst.
    assert (Hall : Forall (fun b : key * value => imgv (snd b)) es).
    { eapply (map_res_forall_out _ _ (fun b : key * value => imgv (snd b))); [exact H| |exact Hes].
      cbn. intros a b [_ Ha] Hab. apply res_bind_ok in Hab. destruct Hab as (k & _ & Hab).
      apply res_bind_ok in Hab. destruct Hab as (y & Hy & Hab). inversion Hab; subst. cbn. auto. }
    destruct (build_map_inv imgv es Hall). constructor; assumption.
  - apply res_bind_ok in Hs. destruct Hs as (es & Hes & Hx). inversion Hx; subst.
    assert (Hall : Forall (fun b : key * value => imgv (snd b)) es).
    { eapply (map_res_forall_out _ _ (fun b : key * value => imgv (snd b))); [exact H| |exact Hes].
      cbn. intros a b Ha Hab. apply res_bind_ok in Hab. destruct Hab as (y & Hy & Hab). inversion Hab; subst. cbn. auto. }
    destruct (build_map_inv imgv es Hall). constructor; assumption.
  - destruct k.
    + inversion Hs; subst. constructor.
    + apply res_bind_ok in Hs. destruct Hs as (y & Hy & Hx). inversion Hx; subst.
      constructor; [repeat constructor|]. constructor; [cbn; auto|constructor].
    + apply res_bind_ok in Hs. destruct Hs as (y & Hy & Hx). inversion Hx; subst.
      constructor; [repeat constructor|]. constructor; [cbn; auto|constructor].
    + apply res_bind_ok in Hs. destruct Hs as (y & Hy & Hx). inversion Hx; subst.
      constructor; [repeat constructor|]. constructor; [cbn; auto|constructor].
Qed.

Lemma imgv_wfv : forall v, imgv v -> wfv v.
Proof.
  induction v using value_ind'; intro Hi; inversion Hi; subst; constructor; auto.
  - rewrite Forall_forall in *. auto.
  - rewrite Forall_forall in *. auto.
Qed.

Lemma all2v_refl_map : forall {A} (g : A -> A) (f : A -> A -> bool) l,
  Forall (fun a => f (g a) a = true) l -> all2v f (map g l) l = true.
Proof. intros A g f l H. induction H as [|a l Ha _ IH]; cbn; [reflexivity|]. rewrite Ha, IH. reflexivity. Qed.

Lemma value_same_refl_leaf : forall s, str_eqb s s = true.
Proof. exact str_eqb_refl. Qed.

Lemma sf_eqb_syn_refl : forall f, sf_eqb_syn f f = true.
Proof.
  destruct f; cbn; try reflexivity; try (destruct s; reflexivity).
  rewrite Pos.eqb_refl, Z.eqb_refl. destruct s; reflexivity.
Qed.

(* on a converted value re-serialisation changes nothing but String-vs-Str of keys *)
Lemma renorm_same : forall v, imgv v -> value_same (renorm v) v = true.
Proof.
  induction v using value_ind'; intro Hi; inversion Hi; subst; cbn [renorm value_same]; try reflexivity.
  - destruct b; reflexivity.
  - rewrite Z.eqb_refl. destruct r; reflexivity.
  - apply sf_eqb_syn_refl.
  - rewrite str_eqb_refl. reflexivity.
  - apply all2v_refl_map. rewrite Forall_forall in *. auto.
  - apply (all2v_refl_map (fun e : key * value => (rekey (fst e), renorm (snd e)))).
    rewrite Forall_forall in *. intros a Ha. cbn. rewrite key_same_rekey. cbn. auto.
Qed.

(* C19: a converted value sent through serde again is the same value *)
Theorem reserialize_identity : forall sv x,
  ser sv = ROk x -> exists y, reser x = ROk y /\ value_same y x = true.
Proof.
  intros sv x Hs. pose proof (ser_image sv x Hs) as Hi.
  exists (renorm x). split; [apply reser_renorm, imgv_wfv; exact Hi|apply renorm_same; exact Hi].
Qed.

(* ... so `insert(k, &converted)` and `insert_value(k, converted)` store the same thing *)
Theorem insert_eq_insert_value : forall sv x k c,
  ser sv = ROk x ->
  exists y, insert_reser k x c = ROk (insert_value k y c) /\ value_same y x = true.
Proof.
  intros sv x k c Hs. destruct (reserialize_identity sv x Hs) as (y & Hy & Hsame).
  exists y. split; [|exact Hsame]. unfold insert_reser. rewrite Hy. reflexivity.
Qed.

(* value_same is invisible to printing *)
Lemma key_same_fmt : forall sd a b, key_same a b = true -> fmt_key sd a = fmt_key sd b /\ fkey_cmp a = fkey_cmp b.
Proof.
  intros sd a b H. destruct a as [x|r x|s o], b as [y|r' y|t o']; cbn in H; try discriminate.
  - apply Bool.eqb_prop in H. subst. auto.
  - apply andb_true_iff in H. destruct H as [_ H]. apply Z.eqb_eq in H. subst. auto.
  - apply str_eqb_eq in H. subst. auto.
Qed.

(* ------------------------------------------------------------------ reser is `ser` of what Value emits *)

Inductive bytes_free : value -> Prop :=
| BF_undef : bytes_free VUndef | BF_none : bytes_free VNone | BF_bool b : bytes_free (VBool b)
| BF_int r z : rep_ok r z = true -> bytes_free (VInt r z)
| BF_float f : bytes_free (VFloat f) | BF_str s f : bytes_free (VStr s f)
| BF_arr l : Forall bytes_free l -> bytes_free (VArr l)
| BF_map m : Forall (fun e => bytes_free (snd e)) m -> bytes_free (VMap m).

Lemma ser_irep : forall r z, ser (irep_sval r z) = ROk (VInt r z).
Proof. destruct r; reflexivity. Qed.
Lemma ser_key_of_key : forall k, ser_key (key_to_sval k) = ROk (rekey k).
Proof. destruct k as [x|r x|s o]; try reflexivity. destruct r; reflexivity. Qed.

Theorem reser_is_ser : forall v, bytes_free v -> reser v = ser (to_sval v).
Proof.
  induction v using value_ind'; intro Hb; inversion Hb; subst; try reflexivity.
  - cbn [to_sval reser]. rewrite ser_irep. reflexivity.
  - cbn [to_sval reser ser]. f_equal. clear Hb.
    induction H as [|a l Ha _ IH]; cbn; [reflexivity|]. inversion H1; subst.
    rewrite Ha by assumption. rewrite IH by assumption. reflexivity.
  - cbn [to_sval reser ser]. f_equal. clear Hb.
    induction H as [|a l Ha _ IH]; cbn; [reflexivity|]. inversion H1; subst.
    rewrite ser_key_of_key. cbn. rewrite Ha by assumption. rewrite IH by assumption. reflexivity.
Qed.
