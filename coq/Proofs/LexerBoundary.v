(* Proofs/LexerBoundary.v — every offset at which the lexer cuts its input (Model/LexerSlices.v)
   is a character boundary of the source, for every delimiter set accepted by validate whose six
   strings are valid UTF-8 (they are Rust `str`s) and every valid UTF-8 source.

   The argument is the self-synchronisation of UTF-8 (Spec/Utf8Chars.v): in a valid string a byte
   that announces a k-byte character (lead_len b = Some k) really is the first byte of one, so the
   position k bytes later is a boundary (boundary_after_lead); a continuation byte announces
   nothing.  Hence an occurrence of a valid 2-byte needle - two ASCII bytes or one 2-byte character -
   anywhere in a valid haystack starts and ends on boundaries (match_boundary_nth), and so does
   any run that ends in an ASCII byte.  No invariant "the current position is a boundary" is
   needed: each cut is justified by the bytes next to it. *)
From Coq Require Import Arith Lia List.
From TeraV Require Import Model.Value Model.Utf8Lex Model.Lexer Model.LexerSlices Spec.Doc
  Proofs.Utf8Proofs Proofs.WsFilterProofs Proofs.LexerProofs Proofs.LexerSpans.
From TeraV Require Spec.Utf8Chars Model.Report Proofs.ReportProofs.
Local Open Scope nat_scope.

Notation valid := Utf8Chars.valid_utf8.
Definition bnd (s : bytes) (n : nat) : Prop := Report.is_char_boundary s n = true.
Definition ascii (b : byte) : Prop := (b < 128)%N.

(* ---------------------------------------------------------------- UTF-8 self-synchronisation *)

Lemma noncont_boundary : forall s i b,
  nth_error s i = Some b -> Utf8Chars.is_cont b = false -> bnd s i.
Proof.
  intros s i b H C. unfold bnd, Report.is_char_boundary.
  destruct (Nat.eqb i 0); [reflexivity|]. rewrite H, C. reflexivity.
Qed.

Lemma lead_len_pos : forall b k, Utf8Chars.lead_len b = Some k -> 1 <= k.
Proof.
  intros b k H. unfold Utf8Chars.lead_len in H.
  destruct (N.ltb b 128); [inversion H; lia|].
  destruct (N.ltb b 194); [discriminate|].
  destruct (N.ltb b 224); [inversion H; lia|].
  destruct (N.ltb b 240); [inversion H; lia|].
  destruct (N.ltb b 245); [inversion H; lia|discriminate].
Qed.

Lemma forallb_nth : forall (cs : bytes) j b,
  forallb Utf8Chars.is_cont cs = true -> nth_error cs j = Some b -> Utf8Chars.is_cont b = true.
Proof.
  intros cs j b H N. apply nth_error_In in N. rewrite forallb_forall in H. apply H. exact N.
Qed.

(* a byte that announces a k-byte character, anywhere in a valid string, is followed k bytes
   later by a character boundary *)
Lemma boundary_after_lead : forall s, valid s -> forall i b k,
  nth_error s i = Some b -> Utf8Chars.lead_len b = Some k -> bnd s (i + k).
Proof.
  intros s H. induction H as [|c rest Hc Hr IH]; intros i b k N L.
  - destruct i; discriminate.
  - pose proof Hc as Hc'. apply ReportProofs.wf_char_inv in Hc'.
    destruct Hc' as (b0 & cs & -> & Hl & Hcs & Hb0).
    destruct (Nat.lt_ge_cases i (length (b0 :: cs))) as [Hlt|Hge].
    + destruct i as [|j].
      * cbn [app nth_error] in N. inversion N; subst b. rewrite Hl in L. inversion L; subst k.
        change (0 + S (length cs)) with (length (b0 :: cs)).
        apply ReportProofs.boundary_app. exact Hr.
      * exfalso. cbn [length] in Hlt. cbn [app nth_error] in N.
        rewrite nth_error_app1 in N by lia.
        apply (forallb_nth _ _ _ Hcs) in N. apply ReportProofs.lead_len_not_cont in L. congruence.
    + rewrite nth_error_app2 in N by exact Hge.
      pose proof (lead_len_pos _ _ L) as Kp.
      specialize (IH _ _ _ N L). unfold bnd in *.
      replace (i + k) with (length (b0 :: cs) + (i - length (b0 :: cs) + k)) by lia.
      rewrite ReportProofs.boundary_app_shift by lia. exact IH.
Qed.

Lemma ascii_next : forall s i b, valid s -> nth_error s i = Some b -> ascii b -> bnd s (i + 1).
Proof.
  intros s i b V N A. eapply boundary_after_lead; [exact V|exact N|].
  apply ReportProofs.lead_len_ascii. exact A.
Qed.

(* a valid 2-byte string is two ASCII characters or one 2-byte character *)
Lemma valid2_cases : forall d, valid d -> length d = 2 ->
  exists a1 a2, d = [a1; a2] /\
    ((Utf8Chars.lead_len a1 = Some 1 /\ Utf8Chars.lead_len a2 = Some 1)
     \/ Utf8Chars.lead_len a1 = Some 2).
Proof.
  intros d H L. inversion H as [E|c rest Hc Hr E]; subst; [discriminate|].
  apply ReportProofs.wf_char_inv in Hc. destruct Hc as (b0 & cs & -> & Hl & _ & _).
  rewrite app_length in L. cbn [length] in L.
  destruct cs as [|c1 [|c2 cs]]; cbn [length] in *.
  - inversion Hr as [E|c' rest' Hc' Hr' E]; subst; [discriminate|].
    apply ReportProofs.wf_char_inv in Hc'. destruct Hc' as (b1 & cs' & -> & Hl' & _ & _).
    rewrite app_length in L. cbn [length] in L.
    destruct cs' as [|x cs']; [|cbn [length] in L; lia].
    destruct rest' as [|y rest']; [|cbn [length] in L; lia].
    exists b0, b1. split; [reflexivity|]. left. split; assumption.
  - destruct rest as [|y rest]; [|cbn [length] in L; lia].
    exists b0, c1. split; [reflexivity|]. right. exact Hl.
  - lia.
Qed.

(* an occurrence of a valid 2-byte needle in a valid string starts and ends on boundaries *)
Lemma match_boundary_nth : forall s a1 a2 m, valid s -> valid [a1; a2] ->
  nth_error s m = Some a1 -> nth_error s (m + 1) = Some a2 -> bnd s m /\ bnd s (m + 2).
Proof.
  intros s a1 a2 m Vs Vd N1 N2.
  destruct (valid2_cases _ Vd eq_refl) as (x1 & x2 & E & C). inversion E; subst x1 x2. clear E.
  split.
  - apply (noncont_boundary s m a1 N1).
    destruct C as [[C _]|C]; eapply ReportProofs.lead_len_not_cont; exact C.
  - destruct C as [[_ C]|C].
    + replace (m + 2) with (m + 1 + 1) by lia. eapply boundary_after_lead; eauto.
    + eapply boundary_after_lead; eauto.
Qed.

Lemma bnd_le : forall s n, bnd s n -> n <= length s.
Proof.
  intros s n H. unfold bnd, Report.is_char_boundary in H.
  destruct (Nat.eqb n 0) eqn:E; [apply Nat.eqb_eq in E; lia|].
  destruct (nth_error s n) eqn:N.
  - assert (n < length s) by (apply nth_error_Some; congruence). lia.
  - apply Nat.eqb_eq in H. lia.
Qed.

(* ---------------------------------------------------------------- `rest` as a suffix of src *)

(* `rest` is what the source holds from offset o on *)
Definition at_off (src : bytes) (o : nat) (rest : bytes) : Prop :=
  forall i, nth_error rest i = nth_error src (o + i).

Lemma nth_error_skipn' : forall (s : bytes) k i, nth_error (skipn k s) i = nth_error s (k + i).
Proof.
  intros s k. revert s. induction k as [|k IH]; intros s i; [reflexivity|].
  destruct s as [|b s]; [cbn; destruct i; reflexivity|]. cbn [skipn plus nth_error]. apply IH.
Qed.

Lemma at_off_skipn : forall src o rest k, at_off src o rest -> at_off src (o + k) (skipn k rest).
Proof.
  intros src o rest k H i. rewrite nth_error_skipn', H. f_equal. lia.
Qed.

Lemma at_off_refl : forall src, at_off src 0 src.
Proof. intros src i. reflexivity. Qed.

Lemma at_off_end : forall src o rest, at_off src o rest -> rest <> [] -> o + length rest = length src.
Proof.
  intros src o rest H NE.
  assert (L1 : length src <= o + length rest).
  { apply nth_error_None. rewrite <- H. apply nth_error_None. lia. }
  assert (L2 : o + (length rest - 1) < length src).
  { apply nth_error_Some. rewrite <- H. apply nth_error_Some.
    destruct rest; [contradiction|cbn [length]; lia]. }
  destruct rest; [contradiction|cbn [length] in *; lia].
Qed.

Lemma window_nth : forall s m a1 a2, window s m = [a1; a2] ->
  nth_error s m = Some a1 /\ nth_error s (m + 1) = Some a2.
Proof.
  intros s m a1 a2 W. unfold window in W.
  rewrite <- (Nat.add_0_r m) at 1. rewrite <- !nth_error_skipn'.
  destruct (skipn m s) as [|x [|y r]]; try discriminate. inversion W; subst. split; reflexivity.
Qed.

Lemma starts2_nth : forall d s, starts2 d s = true ->
  exists a1 a2, d = [a1; a2] /\ nth_error s 0 = Some a1 /\ nth_error s 1 = Some a2.
Proof.
  intros d [|b1 [|b2 t]] H; try discriminate. cbn [starts2] in H. apply bytes_eqb_eq in H.
  exists b1, b2. split; [symmetry; exact H|split; reflexivity].
Qed.

(* a byte-level match of a delimiter at offset m of `rest` = a cut-safe range of the source *)
Lemma delim_at : forall src o rest d m, valid src -> valid d -> length d = 2 ->
  at_off src o rest -> window rest m = d -> bnd src (o + m) /\ bnd src (o + m + 2).
Proof.
  intros src o rest d m Vs Vd Ld A W.
  destruct (len2_inv d Ld) as (a1 & a2 & ->).
  apply window_nth in W. destruct W as [N1 N2]. rewrite A in N1, N2.
  apply (match_boundary_nth src a1 a2 (o + m) Vs Vd N1).
  rewrite <- N2. f_equal. lia.
Qed.

Lemma starts2_at : forall src o rest d, valid src -> valid d -> length d = 2 ->
  at_off src o rest -> starts2 d rest = true -> bnd src o /\ bnd src (o + 2).
Proof.
  intros src o rest d Vs Vd Ld A S. apply starts2_window in S; [|exact Ld].
  destruct (delim_at src o rest d 0 Vs Vd Ld A S) as [H1 H2].
  rewrite Nat.add_0_r in H1, H2. split; assumption.
Qed.

(* ---------------------------------------------------------------- ASCII classes *)

Ltac nb := repeat match goal with
  | H : (_ || _)%bool = true |- _ => apply orb_true_iff in H; destruct H
  | H : (_ && _)%bool = true |- _ => apply andb_true_iff in H; destruct H
  | H : (_ =? _)%N = true |- _ => apply N.eqb_eq in H
  | H : (_ <=? _)%N = true |- _ => apply N.leb_le in H
  | H : (_ <? _)%N = true |- _ => apply N.ltb_lt in H
  end.

Lemma ascii_ws_ascii : forall b, is_ascii_ws b = true -> ascii b.
Proof. intros b H. unfold is_ascii_ws in H. unfold ascii. nb; subst; lia. Qed.

Lemma ascii_digit_ascii : forall b, is_ascii_digit b = true -> ascii b.
Proof. intros b H. unfold is_ascii_digit in H. unfold ascii. nb; lia. Qed.

Lemma ascii_alnum_ascii : forall b, is_ascii_alnum b = true -> ascii b.
Proof.
  intros b H. unfold is_ascii_alnum, is_ascii_alpha, is_ascii_digit in H. unfold ascii. nb; lia.
Qed.

Lemma ascii_alpha_ascii : forall b, is_ascii_alpha b = true -> ascii b.
Proof. intros b H. unfold is_ascii_alpha in H. unfold ascii. nb; lia. Qed.

Lemma quote_ascii : forall b, is_quote b = true -> ascii b.
Proof. intros b H. unfold is_quote in H. unfold ascii. nb; subst; lia. Qed.

Lemma op1_ascii : forall b o, op1_of b = Some o -> ascii b.
Proof.
  intros b o H. unfold op1_of in H. unfold ascii.
  repeat match type of H with
         | (if ?c then _ else _) = _ => destruct c eqn:?; [nb; subst; lia|]
         end.
  discriminate.
Qed.

Lemma op2_ascii : forall b1 b2 o, op2_of b1 b2 = Some o -> ascii b2.
Proof.
  intros b1 b2 o H. unfold op2_of in H. unfold ascii.
  repeat match type of H with
         | (if ?c then _ else _) = _ => destruct c eqn:?; [nb; subst; lia|]
         end.
  discriminate.
Qed.

(* ---------------------------------------------------------------- scanners end on an ASCII byte *)

Lemma ws_run_last : forall w x, all_ascii_ws w -> w <> [] ->
  exists b, nth_error (w ++ x) (length w - 1) = Some b /\ ascii b.
Proof.
  intros w x A NE. destruct (exists_last NE) as (w' & b & ->).
  exists b. rewrite app_length. cbn [length]. replace (length w' + 1 - 1) with (length w') by lia.
  rewrite <- app_assoc. rewrite nth_error_app2 by lia. rewrite Nat.sub_diag. split; [reflexivity|].
  apply ascii_ws_ascii. unfold all_ascii_ws in A. rewrite Forall_forall in A. apply A.
  apply in_or_app. right. left. reflexivity.
Qed.

Lemma ident_scan_last : forall s f n, ident_scan s f = S n ->
  exists b, nth_error s n = Some b /\ ascii b.
Proof.
  induction s as [|c t IH]; intros f n H; [discriminate|]. cbn [ident_scan] in H.
  destruct ((c =? 95)%N || (if f then is_ascii_alpha c else is_ascii_alnum c)) eqn:C; [|discriminate].
  injection H as H1. destruct n as [|n].
  - exists c. split; [reflexivity|]. apply orb_true_iff in C. destruct C as [C|C].
    + apply N.eqb_eq in C. subst c. unfold ascii. lia.
    + destruct f; [apply ascii_alpha_ascii|apply ascii_alnum_ascii]; exact C.
  - cbn [nth_error]. apply (IH false). exact H1.
Qed.

Lemma num_scan_last : forall s f n, fst (num_scan s f) = S n ->
  exists b, nth_error s n = Some b /\ ascii b.
Proof.
  induction s as [|c t IH]; intros f n H; [discriminate|]. cbn [num_scan] in H.
  destruct (negb f && (c =? 46)%N) eqn:D.
  - destruct (num_scan t true) as [k g] eqn:E. cbn [fst] in H. injection H as H1.
    destruct n as [|n].
    + exists c. split; [reflexivity|]. apply andb_true_iff in D. destruct D as [_ D].
      apply N.eqb_eq in D. subst c. unfold ascii. lia.
    + cbn [nth_error]. apply (IH true). rewrite E. exact H1.
  - destruct (is_ascii_digit c) eqn:G; [|discriminate].
    destruct (num_scan t f) as [k g] eqn:E. cbn [fst] in H. injection H as H1.
    destruct n as [|n].
    + exists c. split; [reflexivity|]. apply ascii_digit_ascii. exact G.
    + cbn [nth_error]. apply (IH f). rewrite E. exact H1.
Qed.

Lemma skip_ascii_ws_skipn : forall s,
  skip_ascii_ws s = skipn (length s - length (skip_ascii_ws s)) s.
Proof.
  intro s. destruct (skip_ascii_ws_split s) as (w & E & _).
  remember (skip_ascii_ws s) as r eqn:Hr. clear Hr. subst s. rewrite app_length.
  replace (length w + length r - length r) with (length w) by lia.
  rewrite skipn_app_r0. reflexivity.
Qed.

(* the whitespace skipped inside a tag ends on a boundary *)
Lemma ws_pre_boundary : forall src o rest, valid src -> at_off src o rest ->
  length rest - length (skip_ascii_ws rest) <> 0 ->
  bnd src (o + (length rest - length (skip_ascii_ws rest))).
Proof.
  intros src o rest Vs A NZ. destruct (skip_ascii_ws_split rest) as (w & E & AW).
  assert (Lw : length rest - length (skip_ascii_ws rest) = length w).
  { rewrite E at 1. rewrite app_length. lia. }
  rewrite Lw in *. assert (NE : w <> []) by (destruct w; [cbn in NZ; lia|discriminate]).
  destruct (ws_run_last w (skip_ascii_ws rest) AW NE) as (b & N & Ab).
  rewrite <- E in N. rewrite A in N.
  replace (o + length w) with (o + (length w - 1) + 1) by lia.
  eapply ascii_next; eauto.
Qed.

(* ---------------------------------------------------------------- one token inside a tag *)

Lemma starts_with3_nth : forall (a b c : byte) (s : bytes), starts_with [a; b; c] s = true ->
  nth_error s 2 = Some c.
Proof.
  intros a b c s H. unfold starts_with in H. cbn [length] in H. apply bytes_eqb_eq in H.
  destruct s as [|x [|y [|z s]]]; try discriminate. cbn [firstn] in H. inversion H. reflexivity.
Qed.

Lemma inner_slices_boundary : forall src o rest, valid src -> at_off src o rest ->
  forall n, In n (inner_slices rest) -> bnd src (o + n).
Proof.
  intros src o rest Vs A n H. unfold inner_slices in H.
  destruct rest as [|b1 t1]; [contradiction|]. remember (b1 :: t1) as rest eqn:ER in *.
  assert (N0 : nth_error rest 0 = Some b1) by (rewrite ER; reflexivity).
  destruct (starts_with _ rest) eqn:SW.
  { destruct H as [<-|[]]. apply starts_with3_nth in SW.
    rewrite A in SW. replace (o + 3) with (o + 2 + 1) by lia.
    eapply ascii_next; [exact Vs|exact SW|]. unfold ascii. lia. }
  destruct (match t1 with b2 :: _ => op2_of b1 b2 | [] => None end) as [op|] eqn:O2.
  { destruct H as [<-|[]]. destruct t1 as [|b2 t2]; [discriminate|].
    apply op2_ascii in O2.
    assert (N1 : nth_error rest 1 = Some b2) by (rewrite ER; reflexivity).
    rewrite A in N1. replace (o + 2) with (o + 1 + 1) by lia. eapply ascii_next; eauto. }
  destruct (op1_of b1) as [op|] eqn:O1.
  { destruct H as [<-|[]]. apply op1_ascii in O1. rewrite A in N0. rewrite Nat.add_0_r in N0.
    eapply ascii_next; eauto. }
  destruct (is_quote b1) eqn:Q.
  { apply quote_ascii in Q.
    destruct (str_scan (tl rest) b1 false) as [k h].
    destruct (byte_at_is rest (k + 1) b1) eqn:BA; cbn [negb] in H; [|contradiction].
    unfold byte_at_is in BA. destruct (nth_error rest (k + 1)) as [x|] eqn:NK; [|discriminate].
    apply N.eqb_eq in BA. subst x. rewrite A in NK.
    destruct H as [<-|[<-|[<-|[]]]].
    - replace (o + (k + 2)) with (o + (k + 1) + 1) by lia. eapply ascii_next; eauto.
    - rewrite A in N0. rewrite Nat.add_0_r in N0. eapply ascii_next; eauto.
    - apply (noncont_boundary src _ b1 NK). eapply ReportProofs.lead_len_not_cont.
      apply ReportProofs.lead_len_ascii. exact Q. }
  destruct (is_ascii_digit b1) eqn:D.
  { destruct H as [<-|[]]. destruct (fst (num_scan rest false)) as [|m] eqn:NS.
    - exfalso. rewrite ER in NS. cbn [num_scan negb andb] in NS.
      destruct (b1 =? 46)%N; [destruct (num_scan t1 true); discriminate|].
      rewrite D in NS. destruct (num_scan t1 false); discriminate.
    - destruct (num_scan_last _ _ _ NS) as (b & N & Ab). rewrite A in N.
      replace (o + S m) with (o + m + 1) by lia. eapply ascii_next; eauto. }
  destruct (ident_scan rest true) as [|m] eqn:IS; [contradiction|].
  destruct H as [<-|[]]. destruct (ident_scan_last _ _ _ IS) as (b & N & Ab). rewrite A in N.
  replace (o + S m) with (o + m + 1) by lia. eapply ascii_next; eauto.
Qed.

(* ---------------------------------------------------------------- inside {{ }} / {% %} *)

Lemma inside_slices_boundary : forall src e, valid src -> valid e -> length e = 2 ->
  forall fuel rest o, at_off src o rest ->
  forall n, In n (inside_slices fuel e rest o) -> bnd src n.
Proof.
  intros src e Vs Ve Le. induction fuel as [|f IH]; intros rest o A n H; [contradiction|].
  cbn [inside_slices] in H. apply in_app_or in H. destruct H as [H|H].
  { destruct (Nat.eqb (length rest - length (skip_ascii_ws rest)) 0) eqn:Z; [contradiction|].
    destruct H as [<-|[]]. apply Nat.eqb_neq in Z. apply ws_pre_boundary; assumption. }
  set (pre := length rest - length (skip_ascii_ws rest)) in *.
  assert (A1 : at_off src (o + pre) (skip_ascii_ws rest)).
  { rewrite (skip_ascii_ws_skipn rest). apply at_off_skipn. exact A. }
  destruct (skip_ascii_ws rest) as [|b0 t0] eqn:E1; [contradiction|]. rewrite <- E1 in *.
  destruct ((b0 =? dash)%N && starts2 e t0) eqn:D.
  { destruct H as [<-|[]]. apply andb_true_iff in D. destruct D as [_ D].
    assert (A2 : at_off src (o + pre + 1) t0).
    { replace t0 with (skipn 1 (skip_ascii_ws rest)) by (rewrite E1; reflexivity).
      apply at_off_skipn. exact A1. }
    destruct (starts2_at src _ t0 e Vs Ve Le A2 D) as [_ B2].
    replace (o + pre + 3) with (o + pre + 1 + 2) by lia. exact B2. }
  destruct (starts2 e (skip_ascii_ws rest)) eqn:D2.
  { destruct H as [<-|[]]. destruct (starts2_at src _ _ e Vs Ve Le A1 D2) as [_ B2]. exact B2. }
  apply in_app_or in H. destruct H as [H|H].
  { apply in_map_iff in H. destruct H as (m & <- & Hm).
    eapply inner_slices_boundary; eauto. }
  destruct (inner_token (skip_ascii_ws rest)) as [[t len]|]; [|contradiction].
  eapply IH; [|exact H]. apply at_off_skipn. exact A1.
Qed.

(* what scan_inside leaves is a suffix of what it was given *)
Lemma scan_inside_suffix : forall fuel e s toks w pre r,
  scan_inside fuel e s = IEnd toks w pre r -> r = skipn (length s - length r) s /\ length r <= length s.
Proof.
  induction fuel as [|f IH]; intros e s toks w pre r H; [discriminate|].
  cbn [scan_inside] in H. pose proof (skip_ascii_ws_skipn s) as SK.
  pose proof (skip_ascii_ws_len s) as SL.
  set (p := length s - length (skip_ascii_ws s)) in *.
  assert (G : forall k, skipn k (skip_ascii_ws s) = skipn (length s - length (skipn k (skip_ascii_ws s))) s
                        /\ length (skipn k (skip_ascii_ws s)) <= length s).
  { intro k. rewrite skipn_length. split; [|lia].
    destruct (Nat.le_gt_cases k (length (skip_ascii_ws s))) as [Hk|Hk].
    - rewrite SK at 1. rewrite skipn_skipn'. f_equal. unfold p. lia.
    - rewrite skipn_all2 by lia. replace (length (skip_ascii_ws s) - k) with 0 by lia.
      rewrite Nat.sub_0_r. symmetry. apply skipn_all. }
  destruct (skip_ascii_ws s) as [|b0 t0] eqn:E1; [discriminate|]. rewrite <- E1 in *.
  destruct ((b0 =? dash)%N && starts2 e t0); [inversion H; subst; exact (G 3)|].
  destruct (starts2 e (skip_ascii_ws s)); [inversion H; subst; exact (G 2)|].
  destruct (inner_token (skip_ascii_ws s)) as [[t len]|]; [|discriminate].
  destruct (scan_inside f e (skipn len (skip_ascii_ws s))) as [toks' w' pre' r'| |] eqn:R; try discriminate.
  cbn [ires_cons] in H. inversion H; subst. apply IH in R. destruct R as [R1 R2].
  destruct (G len) as [G1 G2]. remember (skipn len (skip_ascii_ws s)) as X eqn:EX. clear EX.
  split; [|lia].
  transitivity (skipn (length X - length r) (skipn (length s - length X) s));
    [rewrite <- G1; exact R1|].
  rewrite skipn_skipn'. f_equal. lia.
Qed.

(* ---------------------------------------------------------------- skip_tag, raw blocks *)

Lemma skip_tag_end : forall s name e n w, skip_tag s name e = Some (n, w) ->
  exists x p5, s = x ++ e ++ p5 /\ n = length x + length e.
Proof.
  intros s name e n w H. unfold skip_tag in H.
  remember (match s with b :: t => if (b =? dash)%N then t else s | [] => [] end) as p0 eqn:E0.
  assert (H0 : exists m1, s = mk m1 ++ p0).
  { subst p0. destruct s as [|b t]; [exists false; reflexivity|].
    destruct (b =? dash)%N eqn:E; [apply N.eqb_eq in E; subst b; exists true|exists false]; reflexivity. }
  destruct H0 as [m1 H0]. clear E0.
  destruct (skip_ascii_ws_split p0) as [w1 [H1 _]].
  destruct (strip_prefix name (skip_ascii_ws p0)) as [p2|] eqn:S1; [|discriminate].
  apply strip_prefix_sound in S1.
  destruct (skip_ascii_ws_split p2) as [w2 [H2 _]].
  remember (skip_ascii_ws p2) as p3 eqn:E3. clear E3.
  destruct (match p3 with
            | b :: t => if (b =? dash)%N then (true, t) else (false, p3)
            | [] => (false, p3) end) as [ow p4] eqn:EQ.
  apply strip_dash_cases in EQ.
  destruct (strip_prefix e p4) as [p5|] eqn:S2; [|discriminate].
  apply strip_prefix_sound in S2. inversion H; subst n w.
  exists (mk m1 ++ w1 ++ name ++ w2 ++ mk ow), p5.
  assert (ES : s = (mk m1 ++ w1 ++ name ++ w2 ++ mk ow) ++ e ++ p5).
  { rewrite H0, H1, S1, H2, EQ, S2. rewrite <- !app_assoc. reflexivity. }
  split; [exact ES|]. rewrite ES at 1. rewrite !app_length. lia.
Qed.

Lemma skip_tag_boundary : forall src o s name e n w, valid src -> valid e -> length e = 2 ->
  at_off src o s -> skip_tag s name e = Some (n, w) -> bnd src (o + n).
Proof.
  intros src o s name e n w Vs Ve Le A H. apply skip_tag_end in H.
  destruct H as (x & p5 & ES & ->).
  assert (W : window s (length x) = e).
  { rewrite ES. rewrite window_app_r0. apply window_len2. exact Le. }
  destruct (delim_at src o s e (length x) Vs Ve Le A W) as [_ B2].
  rewrite Le. replace (o + (length x + 2)) with (o + length x + 2) by lia. exact B2.
Qed.

Lemma raw_slices_boundary : forall src dl, valid src ->
  valid (d_bs dl) -> length (d_bs dl) = 2 -> valid (d_be dl) -> length (d_be dl) = 2 ->
  forall fuel rest bstart off o, at_off src o rest ->
  bnd src (o + bstart) -> bnd src (o + off) ->
  forall n, In n (raw_slices fuel dl rest bstart off o) -> bnd src n.
Proof.
  intros src dl Vs Vb Lb Ve Le. induction fuel as [|f IH]; intros rest bstart off o A Bs Bo n H;
    [contradiction|].
  cbn [raw_slices] in H. destruct H as [<-|H]; [exact Bo|].
  destruct (memstr (skipn off rest) (d_bs dl)) as [block|] eqn:M; [|contradiction].
  apply memstr_sound in M; [|exact Lb]. destruct M as [W _].
  pose proof (at_off_skipn src o rest off A) as A2.
  destruct (delim_at src _ _ _ block Vs Vb Lb A2 W) as [B1 B2].
  replace (o + off + block) with (o + (off + block)) in B1 by lia.
  replace (o + off + block + 2) with (o + (off + block + 2)) in B2 by lia.
  destruct H as [<-|H]; [exact B2|].
  destruct (skip_tag (skipn (off + block + 2) rest) name_endraw (d_be dl)) as [[en we]|] eqn:ST.
  - pose proof (at_off_skipn src o rest (off + block + 2) A) as A3.
    pose proof (skip_tag_boundary src _ _ _ _ _ _ Vs Ve Le A3 ST) as B3.
    destruct H as [<-|[<-|[<-|[]]]]; [exact Bs|exact B1|].
    replace (o + (off + block + 2 + en)) with (o + (off + block + 2) + en) by lia. exact B3.
  - eapply IH; [exact A|exact Bs|exact B2|exact H].
Qed.

(* ---------------------------------------------------------------- check_ws_start!, text *)

Lemma check_ws_boundary : forall src o rest d ws rest1, valid src -> valid d -> length d = 2 ->
  at_off src o rest -> starts2 d rest = true -> check_ws_start rest = (ws, rest1) ->
  bnd src (o + mlen ws) /\ at_off src (o + mlen ws) rest1.
Proof.
  intros src o rest d ws rest1 Vs Vd Ld A S H.
  destruct (starts2_at src o rest d Vs Vd Ld A S) as [_ B2].
  unfold check_ws_start in H. destruct (nth_error rest 2) as [b|] eqn:N2.
  - destruct (b =? dash)%N eqn:E; inversion H; subst ws rest1; cbn [mlen].
    + split; [|exact (at_off_skipn src o rest 3 A)]. apply N.eqb_eq in E. subst b. rewrite A in N2.
      replace (o + 3) with (o + 2 + 1) by lia. eapply ascii_next; [exact Vs|exact N2|].
      unfold ascii, dash. lia.
    + split; [exact B2|exact (at_off_skipn src o rest 2 A)].
  - inversion H; subst ws rest1; cbn [mlen]. split; [exact B2|exact (at_off_skipn src o rest 2 A)].
Qed.

Lemma find_start_marker_nth : forall dl s n, find_start_marker dl s = Some n ->
  exists b1 b2, nth_error s n = Some b1 /\ nth_error s (n + 1) = Some b2 /\
                is_start_window dl b1 b2 = true.
Proof.
  intros dl. induction s as [|b1 t IH]; intros n H; [discriminate|].
  destruct t as [|b2 t']; [discriminate|]. rewrite fsm_cons2 in H.
  destruct (is_start_window dl b1 b2) eqn:W.
  - inversion H; subst. exists b1, b2. split; [reflexivity|split; [reflexivity|exact W]].
  - destruct (find_start_marker dl (b2 :: t')) as [m|] eqn:F; [|discriminate].
    inversion H; subst. destruct (IH m eq_refl) as (x1 & x2 & N1 & N2 & W2).
    exists x1, x2. split; [exact N1|split; [exact N2|exact W2]].
Qed.

(* ---------------------------------------------------------------- the whole run *)

Record delims_ok (dl : delims) : Prop := mk_delims_ok {
  ok_bs : valid (d_bs dl) /\ length (d_bs dl) = 2;
  ok_be : valid (d_be dl) /\ length (d_be dl) = 2;
  ok_vs : valid (d_vs dl) /\ length (d_vs dl) = 2;
  ok_ve : valid (d_ve dl) /\ length (d_ve dl) = 2;
  ok_cs : valid (d_cs dl) /\ length (d_cs dl) = 2;
  ok_ce : valid (d_ce dl) /\ length (d_ce dl) = 2 }.

Lemma delims_ok_of : forall dl, validate dl = ROk tt -> delims_utf8 dl -> delims_ok dl.
Proof.
  intros dl V U. apply validate_spec_lemma in V.
  destruct V as (L1 & L2 & L3 & L4 & L5 & L6 & _).
  destruct U as (U1 & U2 & U3 & U4 & U5 & U6).
  constructor; split; assumption.
Qed.

Lemma loop_slices_boundary : forall src dl, valid src -> delims_ok dl ->
  forall fuel rest o, at_off src o rest ->
  forall n, In n (loop_slices fuel dl rest o) -> bnd src n.
Proof.
  intros src dl Vs [[Vb Lb] [Ve Le] [Vv Lv] [Vx Lx] [Vc Lc] [Vz Lz]].
  induction fuel as [|f IH]; intros rest o A n H; [contradiction|].
  destruct rest as [|b0 rest0] eqn:ER; [contradiction|]. rewrite <- ER in *.
  assert (NE : rest <> []) by (rewrite ER; discriminate).
  cbn [loop_slices] in H. rewrite ER in H at 1. cbv beta iota in H.
  (* the part shared by {{ }} and a non-raw {% %} *)
  assert (INS : forall e rest1 o1, valid e -> length e = 2 -> at_off src o1 rest1 ->
            In n (inside_slices (S (length rest1)) e rest1 o1 ++
                  match scan_inside (S (length rest1)) e rest1 with
                  | IEnd _ _ _ rest2 => loop_slices f dl rest2 (o1 + (length rest1 - length rest2))
                  | _ => []
                  end) -> bnd src n).
  { intros e rest1 o1 Ve' Le' A1 H1. apply in_app_or in H1. destruct H1 as [H1|H1].
    - exact (inside_slices_boundary src e Vs Ve' Le' _ _ _ A1 n H1).
    - destruct (scan_inside (S (length rest1)) e rest1) as [toks w pre rest2| |] eqn:SI;
        try contradiction.
      apply scan_inside_suffix in SI. destruct SI as [SI _].
      eapply IH; [|exact H1]. rewrite SI at 2. apply at_off_skipn. exact A1. }
  destruct (starts2 (d_vs dl) rest) eqn:SV.
  { destruct (check_ws_start rest) as [ws rest1] eqn:CW.
    destruct (check_ws_boundary src o rest _ ws rest1 Vs Vv Lv A SV CW) as [B1 A1].
    destruct H as [<-|H]; [exact B1|]. exact (INS _ _ _ Vx Lx A1 H). }
  destruct (starts2 (d_bs dl) rest) eqn:SB.
  { destruct (check_ws_start rest) as [ws rest1] eqn:CW.
    destruct (check_ws_boundary src o rest _ ws rest1 Vs Vb Lb A SB CW) as [B1 A1].
    destruct H as [<-|H]; [exact B1|].
    destruct (skip_tag rest1 name_raw (d_be dl)) as [[off w]|] eqn:ST.
    - pose proof (skip_tag_boundary src _ _ _ _ _ _ Vs Ve Le A1 ST) as B2.
      apply in_app_or in H. destruct H as [H|H].
      + exact (raw_slices_boundary src dl Vs Vb Lb Ve Le _ _ _ _ _ A1 B2 B2 n H).
      + destruct (raw_loop (S (length rest1)) dl rest1 off off w) as [[[body we] adv]|]; [|contradiction].
        eapply IH; [|exact H]. apply at_off_skipn. exact A1.
    - exact (INS _ _ _ Ve Le A1 H). }
  destruct (starts2 (d_cs dl) rest) eqn:SC.
  { destruct (check_ws_start rest) as [ws rest1] eqn:CW.
    destruct (check_ws_boundary src o rest _ ws rest1 Vs Vc Lc A SC CW) as [B1 A1].
    destruct H as [<-|H]; [exact B1|].
    destruct (memstr rest1 (d_ce dl)) as [ep|] eqn:M; [|contradiction].
    apply memstr_sound in M; [|exact Lz]. destruct M as [W _].
    destruct (delim_at src _ _ _ ep Vs Vz Lz A1 W) as [_ B2].
    destruct H as [<-|H].
    - replace (o + mlen ws + (ep + 2)) with (o + mlen ws + ep + 2) by lia. exact B2.
    - eapply IH; [|exact H]. apply at_off_skipn. exact A1. }
  destruct (find_start_marker dl rest) as [st|] eqn:F.
  - destruct H as [<-|H].
    + destruct (find_start_marker_nth _ _ _ F) as (x1 & x2 & N1 & N2 & W).
      rewrite A in N1, N2. replace (o + (st + 1)) with (o + st + 1) in N2 by lia.
      unfold is_start_window in W.
      apply orb_true_iff in W. destruct W as [W|W]; [apply orb_true_iff in W; destruct W as [W|W]|];
        apply bytes_eqb_eq in W.
      * rewrite <- W in Vv. exact (proj1 (match_boundary_nth src x1 x2 _ Vs Vv N1 N2)).
      * rewrite <- W in Vb. exact (proj1 (match_boundary_nth src x1 x2 _ Vs Vb N1 N2)).
      * rewrite <- W in Vc. exact (proj1 (match_boundary_nth src x1 x2 _ Vs Vc N1 N2)).
    + eapply IH; [|exact H]. apply at_off_skipn. exact A.
  - destruct H as [<-|[]]. rewrite (at_off_end src o rest A NE).
    apply ReportProofs.boundary_len.
Qed.

(* EVERY OFFSET THE LEXER CUTS AT IS A CHARACTER BOUNDARY OF THE SOURCE *)
Theorem slice_offsets_on_boundaries : forall dl src,
  validate dl = ROk tt -> delims_utf8 dl -> valid src ->
  forall n, In n (slice_offsets dl src) -> Report.is_char_boundary src n = true.
Proof.
  intros dl src V U Vs n H. unfold slice_offsets in H.
  exact (loop_slices_boundary src dl Vs (delims_ok_of dl V U) _ _ _ (at_off_refl src) n H).
Qed.

(* ---------------------------------------------------------------- consequences for advance! *)

(* a cut at a listed offset, seen from the position the lexer is at (p = what was consumed) *)
Theorem advance_at_boundaries : forall src p rest k st, valid src -> src = p ++ rest ->
  Report.is_char_boundary src (length p) = true ->
  Report.is_char_boundary src (length p + k) = true ->
  exists st', Report.advance st rest k = Some (st', firstn k rest, skipn k rest) /\
    valid (firstn k rest) /\ valid (skipn k rest) /\ valid rest.
Proof.
  intros src p rest k st Vs E Bp Bk. subst src.
  assert (Vr : valid rest).
  { destruct (ReportProofs.split_valid _ Vs (length p)) as [_ V2];
      [rewrite app_length; lia|exact Bp|]. rewrite skipn_app_r0 in V2. exact V2. }
  assert (Br : Report.is_char_boundary rest k = true).
  { destruct (Nat.eq_dec k 0) as [->|NZ]; [reflexivity|].
    rewrite <- (ReportProofs.boundary_app_shift p rest k NZ). exact Bk. }
  assert (Lk : k <= length rest) by (apply bnd_le; exact Br).
  destruct (ReportProofs.advance_ok st rest k Vr Lk Br) as (st' & H1 & H2 & H3 & _).
  exists st'. repeat split; assumption.
Qed.

(* `rest.get(a..a+2) == Some(delim)` (the checked slice) is the byte comparison of Model/Lexer.v *)
Theorem get2_is_window : forall s d a, valid s -> valid d -> length d = 2 ->
  (get2 s a = Some d <-> window s a = d).
Proof.
  intros s d a Vs Vd Ld. unfold get2, Report.str_slice. split.
  - intro H. destruct (_ && _)%bool; [|discriminate]. inversion H as [H1].
    unfold window. replace (a + 2 - a) with 2 by lia. reflexivity.
  - intro W. destruct (delim_at s 0 s d a Vs Vd Ld (at_off_refl s) W) as [B1 B2].
    cbn [plus] in B1, B2. unfold bnd in B1, B2. rewrite B1, B2.
    assert (L : a + 2 <= length s).
    { apply (f_equal (@length _)) in W. unfold window in W.
      rewrite firstn_length, skipn_length in W. lia. }
    replace (a <=? a + 2) with true by (symmetry; apply Nat.leb_le; lia).
    replace (a + 2 <=? length s) with true by (symmetry; apply Nat.leb_le; exact L).
    cbn [andb]. replace (a + 2 - a) with 2 by lia. f_equal. exact W.
Qed.

(* the statement of Props/C06.v: termination and in-bounds ranges (LexerSpans), every cut on a
   boundary, advance! total between two cuts and panicking off a boundary (ReportProofs) *)
Theorem lexer_total_and_boundary_safe :
  (forall dl src, validate dl = ROk tt -> lex_ptoks dl src <> RErr ErrPanic) /\
  (forall dl src pt s e, validate dl = ROk tt -> lex_ptoks dl src = ROk pt ->
     In (s, e) (offsets 0 pt) -> s <= e /\ e <= length src) /\
  (forall dl src, validate dl = ROk tt -> delims_utf8 dl -> valid src ->
     forall n, In n (slice_offsets dl src) -> Report.is_char_boundary src n = true) /\
  (forall src p rest k st, valid src -> src = p ++ rest ->
     Report.is_char_boundary src (length p) = true ->
     Report.is_char_boundary src (length p + k) = true ->
     exists st', Report.advance st rest k = Some (st', firstn k rest, skipn k rest) /\
       valid (firstn k rest) /\ valid (skipn k rest) /\ valid rest) /\
  (forall st rest n, Report.is_char_boundary rest n = false -> Report.advance st rest n = None).
Proof.
  split; [exact lex_ptoks_total|].
  split; [exact token_ranges_in_source|].
  split; [exact slice_offsets_on_boundaries|].
  split; [exact advance_at_boundaries|exact ReportProofs.advance_panics].
Qed.

(* with a "delimiter" that is not a string - the last byte of one character and the first of the
   next - the model's run does cut inside a character: the UTF-8 hypothesis on the delimiters
   (the type invariant of the Rust fields) is used *)
Theorem boundary_needs_utf8_delimiters :
  exists dl src, validate dl = ROk tt /\ valid src /\
    exists n, In n (slice_offsets dl src) /\ Report.is_char_boundary src n = false.
Proof.
  exists (mkDelims [0x7B; 0x25] [0x25; 0x7D] [0xA9; 0xC3] [0x7D; 0x7D] [0x7B; 0x23] [0x23; 0x7D])%N.
  exists [0xC3; 0xA9; 0xC3; 0xA9]%N.
  split; [reflexivity|]. split.
  - change [0xC3; 0xA9; 0xC3; 0xA9]%N with ([0xC3; 0xA9] ++ [0xC3; 0xA9] ++ [])%N.
    repeat (constructor; [cbn; split; reflexivity|]). constructor.
  - exists 1. split; [vm_compute; left; reflexivity|reflexivity].
Qed.

(* the ranges cut with two ends are ordered (lex_string!: 1 <= len - 1; raw: start <= end) is
   immediate from the definitions: 1 <= str_len + 1, body_start <= offset <= offset + block *)
