(* Proofs about Model/RegistryGlob.v (load_from_glob / full_reload), for C10. *)
From Coq Require Import List NArith Bool Arith Lia.
From TeraV Require Import Model.Registry Model.RegistryGlob Spec.Graph Proofs.RegistryProofs.
Import ListNotations.

(* ------------------------------------------------------------------ sorted maps and filter *)

Lemma msorted_cons {V} k (v : V) m :
  msorted m -> (forall k', In k' (mkeys m) -> name_cmp k k' = Lt) -> msorted ((k, v) :: m).
Proof.
  intros Hs H. destruct m as [|[k1 v1] m]; simpl; split; auto.
  apply H. simpl. auto.
Qed.

Lemma mkeys_filter_In {V} (p : name * V -> bool) m k :
  In k (mkeys (filter p m)) -> In k (mkeys m).
Proof.
  unfold mkeys. rewrite !in_map_iff. intros [x [Hx Hin]].
  apply filter_In in Hin. destruct Hin as [Hin _]. exists x. auto.
Qed.

Lemma msorted_filter {V} (p : name * V -> bool) m : msorted m -> msorted (filter p m).
Proof.
  induction m as [|[k v] m IH]; intros Hs; [exact I|].
  pose proof (msorted_tail _ _ _ Hs) as Ht. cbn [filter].
  destruct (p (k, v)); [|auto].
  apply msorted_cons; [auto|].
  intros k' Hin. apply (msorted_above _ _ _ Hs). eapply mkeys_filter_In; eauto.
Qed.

Lemma drop_globbed_sorted gl m : msorted m -> msorted (drop_globbed gl m).
Proof. apply msorted_filter. Qed.

(* ------------------------------------------------------------------ the glob loop *)

(* once a file has failed the loop reports failure, whatever comes after *)
Lemma glob_insert_failed fs : forall m marked b m1 mk,
  glob_insert m fs true marked = (b, m1, mk) -> b = true.
Proof.
  induction fs as [|f fs IH]; intros m marked b m1 mk H; cbn [glob_insert] in H.
  - injection H as <- _ _. reflexivity.
  - destruct (add_file m f) as [[kp|e] m']; eapply IH; eauto.
Qed.

(* a loop that reports no failure read and parsed every file, and is the raw insertion loop on
   `files_batch fs`; the marked keys are the keys of all entries *)
Lemma glob_insert_as_batch fs : forall m failed marked m1 mk,
  glob_insert m fs failed marked = (false, m1, mk) ->
  failed = false /\ files_first_err fs = None /\
  mk = fold_left (fun acc f => ninsert (fe_key f) acc) fs marked /\
  forall log, exists log', insert_all m (files_batch fs) log = (true, m1, log').
Proof.
  induction fs as [|f fs IH]; intros m failed marked m1 mk H;
    cbn [glob_insert files_first_err files_batch fold_left] in *.
  - injection H as -> <- <-. repeat split; auto. intros log. exists log. reflexivity.
  - unfold add_file in H. destruct (fe_read f) as [ | | |[t|]];
      try (apply glob_insert_failed in H; discriminate).
    cbn [fst] in H. apply IH in H. destruct H as [H1 [H2 [H3 H4]]].
    repeat split; auto. intros log. cbn [insert_all]. apply H4.
Qed.

(* ------------------------------------------------------------------ failure is the identity *)

Theorem load_glob_err_is_identity ev g pat r e g' :
  load_glob ev g pat r = (Err e, g') -> g' = g.
Proof.
  unfold load_glob. destruct r as [|fs]; [intros H; injection H as _ <-; reflexivity|].
  destruct (glob_insert _ fs false []) as [[failed m1] mk].
  destruct failed; [intros H; injection H as _ <-; reflexivity|].
  destruct (finalize ev _); intros H; [discriminate|]. injection H as _ <-. reflexivity.
Qed.

Theorem full_reload_err_is_identity ev g r e g' :
  full_reload ev g r = (Err e, g') -> g' = g.
Proof.
  unfold full_reload. destruct (gs_glob g).
  - apply load_glob_err_is_identity.
  - intros H. injection H as _ <-. reflexivity.
Qed.

Lemma step_err_is_identity ev s c e s' :
  msorted (st_tpls s) -> step ev s c = (Err e, s') -> s' = s.
Proof.
  intros Hs H. destruct c as [b|sufs|fs]; cbn [step] in H.
  - eapply add_err_is_identity; eauto.
  - discriminate.
  - eapply add_files_err_is_identity; eauto.
Qed.

Lemma gstate_eta g : {| gs_st := gs_st g; gs_globbed := gs_globbed g; gs_glob := gs_glob g |} = g.
Proof. destruct g; reflexivity. Qed.

Theorem lift_call_err_is_identity ev g c e g' :
  msorted (st_tpls (gs_st g)) -> lift_call ev g c = (Err e, g') -> g' = g.
Proof.
  intros Hs H. unfold lift_call in H.
  destruct (step ev (gs_st g) c) as [[u|e0] s1] eqn:E; [discriminate|].
  injection H as _ <-. apply step_err_is_identity in E; auto. subst s1. apply gstate_eta.
Qed.

(* every failing call of every kind -- raw batch, files, glob, reload -- leaves templates with
   all their derived fields, the component table, the suffixes, the from_glob marks and the
   remembered glob exactly as they were *)
Theorem gstep_err_is_identity ev g c e g' :
  msorted (st_tpls (gs_st g)) -> gstep ev g c = (Err e, g') -> g' = g.
Proof.
  intros Hs H. destruct c as [c|pat r|r]; cbn [gstep] in H.
  - eapply lift_call_err_is_identity; eauto.
  - eapply load_glob_err_is_identity; eauto.
  - eapply full_reload_err_is_identity; eauto.
Qed.

(* ------------------------------------------------------------------ success *)

(* the instance a glob load starts from: the manually added templates only *)
Definition manual_part (g : gstate) : state :=
  with_tpls (gs_st g) (drop_globbed (gs_globbed g) (st_tpls (gs_st g))).

Lemma glob_keys_eq fs : glob_keys fs = fold_left (fun acc f => ninsert (fe_key f) acc) fs [].
Proof. reflexivity. Qed.

(* a successful glob load is add_raw_templates of the matched files on the manual part *)
Lemma load_glob_ok ev g pat fs g' :
  load_glob ev g pat (GFiles fs) = (Ok tt, g') ->
  files_first_err fs = None /\
  gs_glob g' = Some pat /\ gs_globbed g' = glob_keys fs /\
  add_batch ev (manual_part g) (files_batch fs) = (Ok tt, gs_st g').
Proof.
  unfold load_glob. intros H.
  destruct (glob_insert _ fs false []) as [[failed m1] mk] eqn:E.
  destruct failed; [discriminate|].
  destruct (finalize ev (with_tpls (gs_st g) m1)) as [s'|e] eqn:F; [|discriminate].
  injection H as <-. cbn [gs_glob gs_globbed gs_st].
  apply glob_insert_as_batch in E. destruct E as [_ [E1 [E2 E3]]].
  repeat split; auto.
  unfold add_batch, manual_part. cbn [st_tpls with_tpls].
  destruct (E3 []) as [log' ->].
  replace (with_tpls (with_tpls (gs_st g) _) m1) with (with_tpls (gs_st g) m1) by reflexivity.
  rewrite F. reflexivity.
Qed.

(* success: the templates that came from the previous glob are gone, the manual ones are kept,
   the matched files are added (replacing manual templates of the same name), and the instance
   is exactly the one a FRESH instance reaches when given that (name, source) set in one raw
   batch -- or through one glob load whose matched files describe that set *)
Theorem load_glob_ok_equals_fresh ev g pat fs g' :
  msorted (st_tpls (gs_st g)) ->
  load_glob ev g pat (GFiles fs) = (Ok tt, g') ->
  files_first_err fs = None /\
  gs_glob g' = Some pat /\ gs_globbed g' = glob_keys fs /\
  sources (st_tpls (gs_st g')) =
    override (sources (drop_globbed (gs_globbed g) (st_tpls (gs_st g)))) (files_batch fs) /\
  (forall b' m' log',
     insert_all [] b' [] = (true, m', log') -> sources m' = sources (st_tpls (gs_st g')) ->
     add_batch ev (init (st_sufs (gs_st g))) b' = (Ok tt, gs_st g')) /\
  (forall pat' fs' m' mk',
     glob_insert [] fs' false [] = (false, m', mk') -> sources m' = sources (st_tpls (gs_st g')) ->
     load_glob ev (ginit (st_sufs (gs_st g))) pat' (GFiles fs') =
     (Ok tt, {| gs_st := gs_st g'; gs_globbed := glob_keys fs'; gs_glob := Some pat' |})).
Proof.
  intros Hs H. apply load_glob_ok in H. destruct H as [H1 [H2 [H3 H4]]].
  assert (msorted (st_tpls (manual_part g))) as Hm by (apply drop_globbed_sorted; exact Hs).
  destruct (add_ok_equals_fresh _ _ _ _ Hm H4) as [Hsrc Hfresh].
  repeat split; auto.
  intros pat' fs' m' mk' E Hsm.
  pose proof (glob_insert_as_batch _ _ _ _ _ _ E) as [_ [_ [Hmk Hb]]].
  destruct (Hb []) as [log' Hins].
  specialize (Hfresh _ _ _ Hins Hsm).
  unfold load_glob, ginit. cbn [gs_st gs_globbed st_tpls init drop_globbed filter].
  rewrite E. unfold add_batch in Hfresh. cbn [st_tpls init] in Hfresh. rewrite Hins in Hfresh.
  cbn [manual_part with_tpls st_sufs gs_st] in Hfresh.
  destruct (finalize ev (with_tpls (init (st_sufs (gs_st g))) m')) as [s1|e1]; [|discriminate].
  injection Hfresh as ->. rewrite Hmk. reflexivity.
Qed.

(* ------------------------------------------------------------------ histories *)

Lemma step_canonical ev s c : canonical ev s -> canonical ev (snd (step ev s c)).
Proof.
  intros IH. destruct c as [b|sufs|fs]; cbn [step].
  - destruct (add_batch ev s b) as [[[]|e] s'] eqn:E; cbn [snd].
    + eapply add_ok_canonical; eauto. apply IH.
    + apply add_err_is_identity in E; [|apply IH]. subst. exact IH.
  - apply autoescape_canonical. exact IH.
  - destruct (add_files ev s fs) as [[[]|e] s'] eqn:E; cbn [snd].
    + eapply add_files_ok_canonical; eauto. apply IH.
    + apply add_files_err_is_identity in E; [|apply IH]. subst. exact IH.
Qed.

Inductive greachable (ev : env) : gstate -> Prop :=
| grch_init : forall sufs, greachable ev (ginit sufs)
| grch_step : forall g c, greachable ev g -> greachable ev (snd (gstep ev g c)).

Lemma load_glob_canonical ev g pat r :
  canonical ev (gs_st g) -> canonical ev (gs_st (snd (load_glob ev g pat r))).
Proof.
  intros Hc. destruct (load_glob ev g pat r) as [[[]|e] g'] eqn:E; cbn [snd].
  - destruct r as [|fs]; [unfold load_glob in E; discriminate|].
    apply load_glob_ok in E. destruct E as [_ [_ [_ E]]].
    eapply add_ok_canonical; [|exact E]. apply drop_globbed_sorted. apply Hc.
  - apply load_glob_err_is_identity in E. subst. exact Hc.
Qed.

(* over arbitrary histories of raw adds, file adds, glob loads, reloads, failing calls of every
   kind and autoescape_on: every derived field is `finalize` of the current set *)
Theorem greachable_inv ev g : greachable ev g -> canonical ev (gs_st g).
Proof.
  induction 1 as [sufs | g c Hr IH].
  - apply canonical_init.
  - destruct c as [c|pat r|r]; cbn [gstep].
    + unfold lift_call. pose proof (step_canonical ev (gs_st g) c IH) as Hc.
      destruct (step ev (gs_st g) c) as [[u|e] s1]; exact Hc.
    + apply load_glob_canonical. exact IH.
    + unfold full_reload. destruct (gs_glob g); [apply load_glob_canonical|]; exact IH.
Qed.

Lemma grun_reachable ev h : forall g, greachable ev g -> greachable ev (snd (grun ev g h)).
Proof.
  induction h as [|c h IH]; intros g Hr; cbn [grun]; auto.
  destruct (gstep ev g c) as [r g1] eqn:E.
  specialize (IH g1). destruct (grun ev g1 h) as [rs g2] eqn:E2. cbn [snd] in *.
  apply IH. replace g1 with (snd (gstep ev g c)) by (rewrite E; reflexivity).
  constructor. exact Hr.
Qed.

(* two histories of any shape over all call kinds that end with the same (name, source) set and
   the same suffixes end with the same templates (all derived fields) and component table;
   what may differ is what records the history on purpose: which names came from the glob *)
Theorem gorder_and_grouping_irrelevant ev sufs1 sufs2 h1 h2 :
  let s1 := gs_st (snd (grun ev (ginit sufs1) h1)) in
  let s2 := gs_st (snd (grun ev (ginit sufs2) h2)) in
  st_sufs s1 = st_sufs s2 -> sources (st_tpls s1) = sources (st_tpls s2) -> s1 = s2.
Proof.
  intros s1 s2 Hsufs Hsrc.
  assert (canonical ev s1) as [_ F1] by (apply greachable_inv, grun_reachable, grch_init).
  assert (canonical ev s2) as [_ F2] by (apply greachable_inv, grun_reachable, grch_init).
  unfold finalize in F1, F2. rewrite Hsufs, Hsrc in F1. rewrite F1 in F2. congruence.
Qed.

(* histories without glob calls are the histories of Model.Registry *)
Lemma grun_lift ev h : forall g,
  fst (grun ev g (map GCall h)) = fst (run ev (gs_st g) h) /\
  gs_st (snd (grun ev g (map GCall h))) = snd (run ev (gs_st g) h).
Proof.
  induction h as [|c h IH]; intros g; cbn [map grun run]; [auto|].
  cbn [gstep]. unfold lift_call.
  destruct (step ev (gs_st g) c) as [[u|e] s1] eqn:E.
  - specialize (IH {| gs_st := s1; gs_globbed := unmark (call_keys c) (gs_globbed g); gs_glob := gs_glob g |}).
    cbn [gs_st] in IH.
    destruct (grun ev _ (map GCall h)) as [rs g2]. destruct (run ev s1 h) as [rs' s2].
    cbn [fst snd] in *. destruct IH as [-> ->]. auto.
  - specialize (IH {| gs_st := s1; gs_globbed := gs_globbed g; gs_glob := gs_glob g |}).
    cbn [gs_st] in IH.
    destruct (grun ev _ (map GCall h)) as [rs g2]. destruct (run ev s1 h) as [rs' s2].
    cbn [fst snd] in *. destruct IH as [-> ->]. auto.
Qed.
