(* compile_correct (Proofs/CompileProofs.v) instantiated at the full world Model/World1.v: its two
   hypotheses on the world hold there -- as_key turns a string into an owned string key
   (Order.as_key), and no built-in filter reads the VM state (World1.filter1 ignores the scope:
   every registered filter of tera.rs 432-467 takes `_: &State`). *)
From TeraV Require Import Model.Value Model.Instr Model.VFormat Model.VM Spec.Stmt Model.Compile
  Proofs.VMProofs Proofs.CompileProofs.
From TeraV Require Model.World1.
Local Open Scope nat_scope.

Lemma world1_as_key_str tpls comps k :
  w_as_key (World1.world1 tpls comps) (VStr k false) = Some (KStr k true).
Proof. reflexivity. Qed.

Lemma world1_filters_ignore_state tpls comps n v k sc sc' :
  w_filter (World1.world1 tpls comps) n v k sc = w_filter (World1.world1 tpls comps) n v k sc'.
Proof. reflexivity. Qed.

Lemma world1_functions_ignore_state tpls comps n k sc sc' :
  w_function (World1.world1 tpls comps) n k sc = w_function (World1.world1 tpls comps) n k sc'.
Proof. reflexivity. Qed.

Theorem compile_correct_world1 :
  forall (lib : list tdef) (comps : list (str * (comp_def * list instr)))
         (name : str) (t : tdef) (cx glob : ctx) (w : str),
    NoDup (map td_name lib) -> lib_wf lib -> find_t lib name = Some t ->
    let wd := World1.world1 (map (fun t => (td_name t, compile_tdef t)) lib) comps in
    match render (builtins_of_world wd) None lib name cx glob with
    | ROk text => exists n s', forall k,
        render_to str World1.wr_str1 wd (n + k) (compile_tdef t) None cx glob w = RDone s' (SinkTop (w ++ text))
    | RErr _ => exists n e, forall k,
        render_to str World1.wr_str1 wd (n + k) (compile_tdef t) None cx glob w = RFail e
    end.
Proof.
  intros lib comps name t cx glob w Hnd Hwf Hf wd.
  apply (compile_correct str World1.wr_str1 (@app N) (fun _ _ => eq_refl) (fun w a b => eq_sym (app_assoc w a b))
           (@app_nil_r N) wd (world1_as_key_str _ comps) (world1_filters_ignore_state _ comps)
           (world1_functions_ignore_state _ comps)
           lib name t cx glob w);
    [|exact Hwf|exact Hf].
  apply world_has_of_map; [exact Hnd|reflexivity].
Qed.
