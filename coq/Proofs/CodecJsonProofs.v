(* Proofs for the JSON part of C20: the reference reader (Spec/Codec.v) reads back what the model
   writer (Model/Codec.v json_write, compact and pretty) produces. *)
From TeraV Require Import Model.Value Model.Utf8 Gen.CodecTables Model.Codec Spec.Codec Proofs.CodecProofs.
From Coq Require Import Lia ZArith NArith List Bool.
Import ListNotations.
Open Scope N_scope.
Ltac Zify.zify_post_hook ::= Z.to_euclidean_division_equations.

(* ---- generic list scanning *)
Definition stops (p : N -> bool) (rest : list N) : Prop :=
  match rest with [] => True | c :: _ => p c = false end.

Lemma span_all p l rest :
  Forall (fun c => p c = true) l -> stops p rest -> span p (l ++ rest) = (l, rest).
Proof.
  intros Hl Hr. induction Hl as [|c l Hc Hl IH].
  - cbn [app]. destruct rest as [|c r]; [reflexivity|]. cbn in Hr |- *. now rewrite Hr.
  - cbn [app span]. rewrite Hc, IH. reflexivity.
Qed.

Lemma skip_ws_app ws l : Forall (fun c => is_ws c = true) ws -> skip_ws (ws ++ l) = skip_ws l.
Proof. intros H. induction H as [|c ws Hc Hws IH]; [reflexivity|]. cbn [app skip_ws]. now rewrite Hc. Qed.

Lemma skip_ws_nonws c l : is_ws c = false -> skip_ws (c :: l) = c :: l.
Proof. intros H. cbn [skip_ws]. now rewrite H. Qed.

Lemma indent_ws pretty lvl : Forall (fun c => is_ws c = true) (indent pretty lvl).
Proof.
  unfold indent. destruct pretty; [|constructor]. constructor; [reflexivity|].
  induction (2 * lvl)%nat; cbn [repeat]; constructor; auto.
Qed.

(* ---- decimal digits *)
Lemma dec_rev_S f n :
  dec_rev (S f) n = if n <? 10 then [48 + n] else (48 + n mod 10) :: dec_rev f (n / 10).
Proof. reflexivity. Qed.

Lemma dec_rev_spec fuel n :
  n < 2 ^ N.of_nat (S fuel) ->
  Forall (fun c => is_digit c = true) (dec_rev (S fuel) n) /\
  fold_right (fun d acc => acc * 10 + (d - 48)) 0 (dec_rev (S fuel) n) = n /\
  dec_rev (S fuel) n <> [] /\
  (10 <= n -> last (dec_rev (S fuel) n) 0 <> 48).
Proof.
  revert n. induction fuel as [|f IH]; intros n Hn.
  - change (2 ^ N.of_nat 1) with 2 in Hn. rewrite dec_rev_S.
    replace (n <? 10) with true by (symmetry; apply N.ltb_lt; lia). repeat split.
    + constructor; [|constructor]. unfold is_digit, in_range.
      apply andb_true_iff. split; apply N.leb_le; lia.
    + cbn [fold_right]. lia.
    + discriminate.
    + lia.
  - remember (S f) as f1. rewrite dec_rev_S. destruct (N.ltb_spec n 10) as [Hlt|Hge].
    + repeat split.
      * constructor; [|constructor]. unfold is_digit, in_range.
        apply andb_true_iff. split; apply N.leb_le; lia.
      * cbn [fold_right]. lia.
      * discriminate.
      * lia.
    + assert (Hq : n / 10 < 2 ^ N.of_nat f1).
      { rewrite Nat2N.inj_succ, N.pow_succ_r' in Hn. lia. }
      subst f1. destruct (IH _ Hq) as (H1 & H2 & H3 & H4). repeat split.
      * constructor; [|exact H1]. unfold is_digit, in_range.
        apply andb_true_iff. split; apply N.leb_le; lia.
      * cbn [fold_right]. rewrite H2. lia.
      * discriminate.
      * intros _. destruct (dec_rev (S f) (n / 10)) as [|d ds] eqn:E; [contradiction|].
        change (last (48 + n mod 10 :: d :: ds) 0) with (last (d :: ds) 0).
        destruct (N.ltb_spec (n / 10) 10) as [Hs|Hs].
        -- rewrite dec_rev_S in E.
           replace (n / 10 <? 10) with true in E by (symmetry; apply N.ltb_lt; lia).
           rewrite <- E. cbn [last]. lia.
        -- now apply H4.
Qed.

Lemma log2_bound n : n < 2 ^ N.of_nat (S (N.to_nat (N.log2 n))).
Proof.
  rewrite Nat2N.inj_succ, N2Nat.id. destruct n as [|p]; [cbn; lia|].
  apply N.log2_spec. lia.
Qed.

Lemma digits_val_rev l : digits_val (rev l) = fold_right (fun d acc => acc * 10 + (d - 48)) 0 l.
Proof. unfold digits_val. rewrite <- (rev_involutive l) at 2. now rewrite fold_left_rev_right. Qed.

Lemma dec_digits_spec n :
  Forall (fun c => is_digit c = true) (dec_digits n) /\ digits_val (dec_digits n) = n /\
  dec_digits n <> [] /\ (forall t, dec_digits n = 48 :: t -> t = []).
Proof.
  unfold dec_digits. destruct (dec_rev_spec _ n (log2_bound n)) as (H1 & H2 & H3 & H4).
  set (r := dec_rev (S (N.to_nat (N.log2 n))) n) in *. repeat split.
  - now apply Forall_rev.
  - now rewrite digits_val_rev.
  - intros E. apply H3. destruct r; [reflexivity|]. cbn in E. destruct (rev r); discriminate.
  - intros t E. destruct (N.ltb_spec n 10) as [Hlt|Hge].
    + subst r. rewrite dec_rev_S in E. replace (n <? 10) with true in E by (symmetry; apply N.ltb_lt; lia).
      cbn in E. now injection E.
    + exfalso. apply (H4 Hge). rewrite <- hd_rev. rewrite E. reflexivity.
Qed.

(* ---- integers as number tokens *)
Lemma digit_facts c : is_digit c = true -> 48 <= c <= 57.
Proof.
  unfold is_digit, in_range. intros H. apply andb_true_iff in H. destruct H as [H1 H2].
  apply N.leb_le in H1, H2. lia.
Qed.

Lemma parse_digits_tok D (neg : bool) :
  Forall (fun c => is_digit c = true) D -> D <> [] -> (forall t, D = 48 :: t -> t = []) ->
  parse_number_tok ((if neg then [45] else []) ++ D) = Some (JN neg (digits_val D) 0 true).
Proof.
  intros HD Hne Hz. destruct D as [|d D']; [contradiction|].
  assert (Hd : 48 <= d <= 57) by (apply digit_facts; now inversion HD).
  unfold parse_number_tok.
  assert (E0 : match (if neg then [45] else []) ++ d :: D' with
               | c :: r => if c =? 45 then (true, r) else (false, (if neg then [45] else []) ++ d :: D')
               | [] => (false, (if neg then [45] else []) ++ d :: D')
               end = (neg, d :: D')).
  { destruct neg; cbn [app]; [reflexivity|].
    replace (d =? 45) with false by (symmetry; apply N.eqb_neq; lia). reflexivity. }
  rewrite E0.
  rewrite <- (app_nil_r (d :: D')). rewrite (span_all is_digit (d :: D') []) by (auto; exact I).
  cbn [is_nil orb].
  assert (E1 : match d :: D' with c :: _ :: _ => c =? 48 | _ => false end = false).
  { destruct D' as [|e D'']; [reflexivity|]. apply N.eqb_neq. intros ->.
    specialize (Hz _ eq_refl). discriminate. }
  rewrite E1. cbn. rewrite app_nil_r. reflexivity.
Qed.

Lemma parse_int_tok z : parse_number_tok (json_int z) = Some (JN (z <? 0)%Z (Z.abs_N z) 0 true).
Proof.
  unfold json_int. destruct (Z.ltb_spec z 0) as [Hneg|Hpos].
  - destruct (dec_digits_spec (Z.abs_N z)) as (H1 & H2 & H3 & H4).
    change (45 :: dec_digits (Z.abs_N z)) with ((if true then [45] else []) ++ dec_digits (Z.abs_N z)).
    rewrite parse_digits_tok by assumption. now rewrite H2.
  - destruct (dec_digits_spec (Z.to_N z)) as (H1 & H2 & H3 & H4).
    change (dec_digits (Z.to_N z)) with ((if false then [45] else []) ++ dec_digits (Z.to_N z)).
    rewrite parse_digits_tok by assumption. rewrite H2. do 2 f_equal. lia.
Qed.

Lemma json_int_numchars z : Forall (fun c => is_numchar c = true) (json_int z) /\ json_int z <> [].
Proof.
  unfold json_int.
  assert (Hd : forall n, Forall (fun c => is_numchar c = true) (dec_digits n)).
  { intros n. destruct (dec_digits_spec n) as (H1 & _). eapply Forall_impl; [|exact H1].
    intros c Hc. unfold is_numchar. now rewrite Hc. }
  destruct (z <? 0)%Z.
  - split; [constructor; [reflexivity | apply Hd] | discriminate].
  - split; [apply Hd|]. destruct (dec_digits_spec (Z.to_N z)) as (_ & _ & H3 & _). exact H3.
Qed.

(* ---- parse_value on a number token *)
Lemma numchar_not_other c :
  is_numchar c = true ->
  is_ws c = false /\ (c =? 110) = false /\ (c =? 116) = false /\ (c =? 102) = false /\
  (c =? 34) = false /\ (c =? 91) = false /\ (c =? 123) = false /\ (c =? 93) = false /\ (c =? 125) = false.
Proof.
  intros H.
  assert (Hc : 48 <= c <= 57 \/ c = 45 \/ c = 43 \/ c = 46 \/ c = 101 \/ c = 69).
  { unfold is_numchar in H. repeat (apply orb_true_iff in H; destruct H as [H|H]);
      try (apply N.eqb_eq in H; subst; tauto). left. now apply digit_facts. }
  unfold is_ws. repeat split; try (apply N.eqb_neq; lia).
  repeat (apply orb_false_iff; split); apply N.eqb_neq; lia.
Qed.

Lemma parse_value_number fuel tok n rest :
  Forall (fun c => is_numchar c = true) tok -> parse_number_tok tok = Some n ->
  stops is_numchar rest ->
  parse_value (S fuel) (tok ++ rest) = Some (JNum n, rest).
Proof.
  intros Ht Hp Hr. destruct tok as [|c t]; [cbn in Hp; discriminate|].
  assert (Hc : is_numchar c = true) by now inversion Ht.
  destruct (numchar_not_other c Hc) as (W & A1 & A2 & A3 & A4 & A5 & A6 & _).
  cbn [parse_value app]. rewrite skip_ws_nonws by assumption.
  rewrite A1, A2, A3, A4, A5, A6.
  change (c :: t ++ rest) with ((c :: t) ++ rest). rewrite (span_all is_numchar (c :: t) rest) by assumption.
  now rewrite Hp.
Qed.

(* ---- strings *)
Lemma parse_string_escape b l :
  parse_string_body (json_escape_byte b ++ l) =
  match parse_string_body l with Some (s, r) => Some (b :: s, r) | None => None end.
Proof.
  unfold json_escape_byte.
  destruct (N.eqb_spec b 34) as [->|N34]; [reflexivity|].
  destruct (N.eqb_spec b 92) as [->|N92]; [reflexivity|].
  destruct (N.ltb_spec b 32) as [Hlt|Hge].
  - destruct (N.eqb_spec b 8) as [->|N8]; [reflexivity|].
    destruct (N.eqb_spec b 9) as [->|N9]; [reflexivity|].
    destruct (N.eqb_spec b 10) as [->|N10]; [reflexivity|].
    destruct (N.eqb_spec b 12) as [->|N12]; [reflexivity|].
    destruct (N.eqb_spec b 13) as [->|N13]; [reflexivity|].
    assert (Hin : In b (below 32)) by (apply below_complete; exact Hlt).
    cbn in Hin.
    repeat (destruct Hin as [<-|Hin]; [first [congruence | reflexivity]|]). contradiction.
  - cbn [app parse_string_body].
    replace (b =? 34) with false by (symmetry; now apply N.eqb_neq).
    replace (b =? 92) with false by (symmetry; now apply N.eqb_neq).
    replace (b <? 32) with false by (symmetry; apply N.ltb_ge; lia). reflexivity.
Qed.

Lemma parse_string_ok bs rest :
  parse_string_body (flat_map json_escape_byte bs ++ 34 :: rest) = Some (bs, rest).
Proof.
  induction bs as [|b bs IH]; [reflexivity|].
  cbn [flat_map]. rewrite <- app_assoc, parse_string_escape, IH. reflexivity.
Qed.

Lemma parse_value_string fuel bs rest :
  parse_value (S fuel) (json_string bs ++ rest) = Some (JStr bs, rest).
Proof.
  unfold json_string. cbn [parse_value app]. rewrite skip_ws_nonws by reflexivity.
  change (34 =? 110) with false. change (34 =? 116) with false. change (34 =? 102) with false.
  change (34 =? 34) with true. cbv iota. rewrite <- app_assoc. cbn [app].
  now rewrite parse_string_ok.
Qed.

Lemma parse_value_lit fuel rest :
  parse_value (S fuel) (lit_null ++ rest) = Some (JNull, rest) /\
  parse_value (S fuel) (lit_true ++ rest) = Some (JBool true, rest) /\
  parse_value (S fuel) (lit_false ++ rest) = Some (JBool false, rest).
Proof. repeat split; reflexivity. Qed.

(* ---- containers *)
Lemma parse_value_skip fuel ws l :
  Forall (fun c => is_ws c = true) ws -> parse_value fuel (ws ++ l) = parse_value fuel l.
Proof. intros H. destruct fuel; [reflexivity|]. cbn [parse_value]. now rewrite skip_ws_app. Qed.

Lemma parse_elems_S f l :
  parse_elems (S f) l =
  match parse_value f l with
  | None => None
  | Some (x, r) =>
      match skip_ws r with
      | [] => None
      | d :: r' =>
          if d =? 44 then match parse_elems f r' with Some (xs, r'') => Some (x :: xs, r'') | None => None end
          else if d =? 93 then Some ([x], r') else None
      end
  end.
Proof. reflexivity. Qed.

Lemma parse_members_S f l :
  parse_members (S f) l =
  match skip_ws l with
  | [] => None
  | q :: r0 =>
      if negb (q =? 34) then None else
      match parse_string_body r0 with
      | None => None
      | Some (k, r1) =>
          match skip_ws r1 with
          | [] => None
          | cl :: r2 =>
              if negb (cl =? 58) then None else
              match parse_value f r2 with
              | None => None
              | Some (x, r3) =>
                  match skip_ws r3 with
                  | [] => None
                  | d :: r4 =>
                      if d =? 44 then
                        match parse_members f r4 with
                        | Some (ms, r5) => Some ((k, x) :: ms, r5) | None => None end
                      else if d =? 125 then Some ([(k, x)], r4)
                      else None
                  end
              end
          end
      end
  end.
Proof. reflexivity. Qed.

Definition vstart (w : list N) : Prop :=
  exists c t, w = c :: t /\ is_ws c = false /\ (c =? 93) = false /\ (c =? 125) = false.

(* a text w that parse_value reads back as j with any fuel above n, whatever delimiter follows *)
Definition item_ok (n : nat) (w : list N) (j : json) : Prop :=
  vstart w /\
  forall fuel rest, (n < fuel)%nat -> stops is_numchar rest -> parse_value fuel (w ++ rest) = Some (j, rest).

Fixpoint esize (ns : list nat) : nat :=
  match ns with [] => 0%nat | n :: t => S (S (n + esize t)) end.

Lemma stops_indent pretty lvl c rest :
  is_numchar c = false -> stops is_numchar (indent pretty lvl ++ c :: rest).
Proof. intros H. unfold indent. destruct pretty; cbn; [reflexivity | exact H]. Qed.

Lemma elems_ok pretty lvl lvl0 rest (its : list (nat * list N * json)) :
  Forall (fun it => item_ok (fst (fst it)) (snd (fst it)) (snd it)) its ->
  forall n w j fuel,
  item_ok n w j ->
  (esize (n :: map (fun it => fst (fst it)) its) < fuel)%nat ->
  parse_elems fuel (indent pretty lvl ++ w ++ join_items pretty lvl false (map (fun it => snd (fst it)) its)
                    ++ indent pretty lvl0 ++ 93 :: rest)
  = Some (j :: map snd its, rest).
Proof.
  intros Hits. induction Hits as [|[[n2 w2] j2] its H2 Hits IH]; intros n w j fuel [Hv Hw] Hf.
  - destruct fuel as [|f]; [cbn in Hf; lia|]. cbn [esize map] in Hf.
    rewrite parse_elems_S, parse_value_skip by apply indent_ws.
    cbn [map join_items app].
    rewrite Hw by (try lia; now apply stops_indent).
    rewrite skip_ws_app by apply indent_ws. rewrite skip_ws_nonws by reflexivity.
    reflexivity.
  - destruct fuel as [|f]; [cbn in Hf; lia|]. cbn [esize map fst snd] in Hf.
    rewrite parse_elems_S, parse_value_skip by apply indent_ws.
    cbn [map join_items app fst snd]. rewrite <- !app_assoc. cbn [app].
    rewrite Hw by (try lia; reflexivity).
    rewrite skip_ws_nonws by reflexivity. change (44 =? 44) with true. cbv iota.
    rewrite (IH n2 w2 j2 f H2) by (cbn [esize]; lia). reflexivity.
Qed.

Lemma members_ok pretty lvl lvl0 rest (its : list (nat * (list N * list N) * json)) :
  Forall (fun it => item_ok (fst (fst it)) (snd (snd (fst it))) (snd it)) its ->
  forall n k w j fuel,
  item_ok n w j ->
  (esize (n :: map (fun it => fst (fst it)) its) < fuel)%nat ->
  parse_members fuel (indent pretty lvl ++ (json_string k ++ colon pretty ++ w)
                      ++ join_items pretty lvl false
                           (map (fun it => json_string (fst (snd (fst it))) ++ colon pretty ++ snd (snd (fst it))) its)
                      ++ indent pretty lvl0 ++ 125 :: rest)
  = Some ((k, j) :: map (fun it => (fst (snd (fst it)), snd it)) its, rest).
Proof.
  intros Hits.
  induction Hits as [|[[n2 [k2 w2]] j2] its H2 Hits IH]; intros n k w j fuel [Hv Hw] Hf.
  - destruct fuel as [|f]; [cbn in Hf; lia|]. cbn [esize map] in Hf.
    rewrite parse_members_S. rewrite skip_ws_app by apply indent_ws.
    unfold json_string at 1. rewrite <- !app_assoc. cbn [app]. rewrite skip_ws_nonws by reflexivity.
    change (negb (34 =? 34)) with false. cbv iota.
    rewrite <- !app_assoc. cbn [app]. rewrite parse_string_ok.
    assert (Hc : forall X, skip_ws (colon pretty ++ X) = 58 :: (if pretty then [32] else []) ++ X)
      by (intros X; destruct pretty; reflexivity).
    rewrite Hc. change (negb (58 =? 58)) with false. cbv iota.
    rewrite parse_value_skip by (destruct pretty; repeat constructor).
    cbn [map join_items app].
    rewrite Hw by (try lia; now apply stops_indent).
    rewrite skip_ws_app by apply indent_ws. rewrite skip_ws_nonws by reflexivity.
    reflexivity.
  - destruct fuel as [|f]; [cbn in Hf; lia|]. cbn [esize map fst snd] in Hf.
    rewrite parse_members_S. rewrite skip_ws_app by apply indent_ws.
    unfold json_string at 1. rewrite <- !app_assoc. cbn [app]. rewrite skip_ws_nonws by reflexivity.
    change (negb (34 =? 34)) with false. cbv iota.
    rewrite <- !app_assoc. cbn [app]. rewrite parse_string_ok.
    assert (Hc : forall X, skip_ws (colon pretty ++ X) = 58 :: (if pretty then [32] else []) ++ X)
      by (intros X; destruct pretty; reflexivity).
    rewrite Hc. change (negb (58 =? 58)) with false. cbv iota.
    rewrite parse_value_skip by (destruct pretty; repeat constructor).
    cbn [map join_items app fst snd]. rewrite <- !app_assoc. cbn [app].
    rewrite Hw by (try lia; reflexivity).
    rewrite skip_ws_nonws by reflexivity. change (44 =? 44) with true. cbv iota.
    assert (Hf' : (esize (n2 :: map (fun it => fst (fst it)) its) < f)%nat) by (cbn [esize]; lia).
    pose proof (IH n2 k2 w2 j2 f H2 Hf') as IH'. rewrite <- !app_assoc in IH'.
    rewrite IH'. reflexivity.
Qed.

Lemma open_array f r c t' :
  skip_ws r = c :: t' -> (c =? 93) = false ->
  parse_value (S f) (91 :: r) =
  match parse_elems f r with Some (xs, r'') => Some (JArr xs, r'') | None => None end.
Proof.
  intros H1 H2. cbn [parse_value]. rewrite skip_ws_nonws by reflexivity.
  change (91 =? 110) with false. change (91 =? 116) with false. change (91 =? 102) with false.
  change (91 =? 34) with false. change (91 =? 91) with true. cbv iota. now rewrite H1, H2.
Qed.

Lemma open_object f r c t' :
  skip_ws r = c :: t' -> (c =? 125) = false ->
  parse_value (S f) (123 :: r) =
  match parse_members f r with Some (ms, r'') => Some (JObj ms, r'') | None => None end.
Proof.
  intros H1 H2. cbn [parse_value]. rewrite skip_ws_nonws by reflexivity.
  change (123 =? 110) with false. change (123 =? 116) with false. change (123 =? 102) with false.
  change (123 =? 34) with false. change (123 =? 91) with false. change (123 =? 123) with true.
  cbv iota. now rewrite H1, H2.
Qed.

Lemma array_item pretty lvl (its : list (nat * list N * json)) :
  Forall (fun it => item_ok (fst (fst it)) (snd (fst it)) (snd it)) its ->
  item_ok (S (esize (map (fun it => fst (fst it)) its)))
          (wrap pretty 91 93 lvl (map (fun it => snd (fst it)) its)) (JArr (map snd its)).
Proof.
  intros Hits. destruct Hits as [|[[n w] j] its Hit Hits].
  - split; [exists 91, [93]; repeat split; reflexivity|].
    intros fuel rest Hf _. destruct fuel as [|f]; [lia|]. reflexivity.
  - split; [cbn [map wrap]; eexists 91, _; repeat split; reflexivity|].
    intros fuel rest Hf Hr. destruct fuel as [|f]; [lia|].
    cbn [map fst snd wrap join_items app]. cbn [map fst snd] in Hf.
    rewrite <- !app_assoc. cbn [app].
    cbn [fst snd] in Hit. destruct Hit as [(c & t & Ew & Hc1 & Hc2 & Hc3) Hw]. subst w.
    erewrite open_array; [| rewrite skip_ws_app by apply indent_ws; cbn [app]; apply skip_ws_nonws, Hc1 | exact Hc2].
    rewrite (elems_ok pretty (S lvl) lvl rest its Hits n (c :: t) j f).
    + reflexivity.
    + split; [exists c, t; auto | exact Hw].
    + lia.
Qed.

Lemma object_item pretty lvl (its : list (nat * (list N * list N) * json)) :
  Forall (fun it => item_ok (fst (fst it)) (snd (snd (fst it))) (snd it)) its ->
  item_ok (S (esize (map (fun it => fst (fst it)) its)))
          (wrap pretty 123 125 lvl
                (map (fun it => json_string (fst (snd (fst it))) ++ colon pretty ++ snd (snd (fst it))) its))
          (JObj (map (fun it => (fst (snd (fst it)), snd it)) its)).
Proof.
  intros Hits. destruct Hits as [|[[n [k w]] j] its Hit Hits].
  - split; [exists 123, [125]; repeat split; reflexivity|].
    intros fuel rest Hf _. destruct fuel as [|f]; [lia|]. reflexivity.
  - split; [cbn [map wrap]; eexists 123, _; repeat split; reflexivity|].
    intros fuel rest Hf Hr. destruct fuel as [|f]; [lia|].
    cbn [map fst snd wrap join_items app]. cbn [map fst snd] in Hf.
    rewrite <- !app_assoc. cbn [app].
    erewrite open_object; [| rewrite skip_ws_app by apply indent_ws; unfold json_string; cbn [app];
                             apply skip_ws_nonws; reflexivity | reflexivity].
    cbn [fst snd] in Hit.
    pose proof (members_ok pretty (S lvl) lvl rest its Hits n k w j f Hit) as HM.
    rewrite <- !app_assoc in HM. rewrite HM by lia. reflexivity.
Qed.

(* ---- the value tree *)
Lemma value_ind' (P : value -> Prop) :
  P VUndef -> P VNone -> (forall b, P (VBool b)) -> (forall r z, P (VInt r z)) ->
  (forall f, P (VFloat f)) -> (forall s b, P (VStr s b)) ->
  (forall l, Forall P l -> P (VArr l)) ->
  (forall m, Forall (fun kv : key * value => P (snd kv)) m -> P (VMap m)) ->
  (forall b, P (VBytes b)) -> forall v, P v.
Proof.
  intros H1 H2 H3 H4 H5 H6 H7 H8 H9. fix IH 1. intros [ | | b | r z | f | s b | l | m | b].
  - exact H1. - exact H2. - apply H3. - apply H4. - apply H5. - apply H6.
  - apply H7. revert l. fix IHl 1. intros [|x t]; constructor; [apply IH | apply IHl].
  - apply H8. revert m. fix IHm 1. intros [|[k x] t]; constructor; [apply IH | apply IHm].
  - apply H9.
Qed.

Fixpoint vsize (v : value) : nat :=
  match v with
  | VArr l => S (esize (map vsize l))
  | VMap m => S (esize (map (fun kv : key * value => vsize (snd kv)) m))
  | VBytes b => S (esize (map (fun _ => 0%nat) b))
  | _ => 0%nat
  end.

Fixpoint floats_of (v : value) : list spec_float :=
  match v with
  | VFloat f => [f]
  | VArr l => flat_map floats_of l
  | VMap m => flat_map (fun kv : key * value => floats_of (snd kv)) m
  | _ => []
  end.

(* the hypothesis on the float-text oracle: only for the finite floats that occur in v *)
Definition floats_ok (ft : spec_float -> list N) (v : value) : Prop :=
  Forall (fun f => sf_finite f = true -> float_text_ok (ft f) f = true) (floats_of v).

Lemma int_item z : item_ok 0 (json_int z) (JNum (JN (z <? 0)%Z (Z.abs_N z) 0 true)).
Proof.
  destruct (json_int_numchars z) as [Hn Hne]. split.
  - destruct (json_int z) as [|c t]; [contradiction|]. exists c, t.
    destruct (numchar_not_other c) as (W & _ & _ & _ & _ & _ & _ & A7 & A8); [now inversion Hn|]. auto.
  - intros fuel rest Hf Hr. destruct fuel as [|f]; [lia|].
    apply parse_value_number; auto. apply parse_int_tok.
Qed.

Lemma write_item ft pretty v :
  floats_ok ft v -> forall lvl, item_ok (vsize v) (json_write ft pretty lvl v) (canon ft v).
Proof.
  induction v as [ | | b | r z | f | s b | l IH | m IH | b] using value_ind'; intros Hfl lvl.
  - split; [exists 110, [117; 108; 108]; repeat split; reflexivity|].
    intros [|fuel] rest Hf _; [lia|]. apply parse_value_lit.
  - split; [exists 110, [117; 108; 108]; repeat split; reflexivity|].
    intros [|fuel] rest Hf _; [lia|]. apply parse_value_lit.
  - destruct b.
    + split; [exists 116, [114; 117; 101]; repeat split; reflexivity|].
      intros [|fuel] rest Hf _; [lia|]. apply parse_value_lit.
    + split; [exists 102, [97; 108; 115; 101]; repeat split; reflexivity|].
      intros [|fuel] rest Hf _; [lia|]. apply parse_value_lit.
  - apply int_item.
  - cbn [json_write canon vsize]. destruct (sf_finite f) eqn:Ef.
    + inversion_clear Hfl as [|? ? Hok _]. specialize (Hok Ef). unfold float_text_ok in Hok.
      apply andb_true_iff in Hok. destruct Hok as [Hn Hp].
      rewrite forallb_forall in Hn. destruct (parse_number_tok (ft f)) as [d|] eqn:Ed; [|discriminate].
      assert (HF : Forall (fun c => is_numchar c = true) (ft f)) by (apply Forall_forall; exact Hn).
      split.
      * destruct (ft f) as [|c t]; [cbn in Ed; discriminate|]. exists c, t.
        destruct (numchar_not_other c) as (W & _ & _ & _ & _ & _ & _ & A7 & A8); [now inversion HF|]. auto.
      * intros [|fuel] rest Hf Hr; [lia|]. now apply parse_value_number.
    + split; [exists 110, [117; 108; 108]; repeat split; reflexivity|].
      intros [|fuel] rest Hf _; [lia|]. apply parse_value_lit.
  - split; [unfold json_write, json_string; eexists 34, _; repeat split; reflexivity|].
    intros [|fuel] rest Hf _; [lia|]. apply parse_value_string.
  - (* arrays *)
    pose (its := map (fun x => (vsize x, json_write ft pretty (S lvl) x, canon ft x)) l).
    assert (Hits : Forall (fun it => item_ok (fst (fst it)) (snd (fst it)) (snd it)) its).
    { subst its. apply Forall_forall. intros it Hin. apply in_map_iff in Hin.
      destruct Hin as (x & <- & Hx). cbn [fst snd]. rewrite Forall_forall in IH. apply IH; [exact Hx|].
      unfold floats_ok in *. cbn [floats_of] in Hfl. rewrite Forall_forall in Hfl |- *.
      intros f Hf. apply Hfl. apply in_flat_map. eauto. }
    pose proof (array_item pretty lvl its Hits) as HA. subst its.
    rewrite !map_map in HA. cbn [fst snd] in HA. exact HA.
  - (* maps *)
    pose (its := map (fun kv : key * value =>
                        (vsize (snd kv), (key_text (fst kv), json_write ft pretty (S lvl) (snd kv)),
                         canon ft (snd kv))) m).
    assert (Hits : Forall (fun it => item_ok (fst (fst it)) (snd (snd (fst it))) (snd it)) its).
    { subst its. apply Forall_forall. intros it Hin. apply in_map_iff in Hin.
      destruct Hin as (x & <- & Hx). cbn [fst snd]. rewrite Forall_forall in IH. apply IH; [exact Hx|].
      unfold floats_ok in *. cbn [floats_of] in Hfl. rewrite Forall_forall in Hfl |- *.
      intros f Hf. apply Hfl. apply in_flat_map. eauto. }
    pose proof (object_item pretty lvl its Hits) as HA. subst its.
    rewrite !map_map in HA. cbn [fst snd] in HA. exact HA.
  - (* bytes: an array of small integers *)
    pose (its := map (fun x : N => (0%nat, json_int (Z.of_N x), JNum (JN false x 0 true))) b).
    assert (Hits : Forall (fun it => item_ok (fst (fst it)) (snd (fst it)) (snd it)) its).
    { subst its. apply Forall_forall. intros it Hin. apply in_map_iff in Hin.
      destruct Hin as (x & <- & Hx). cbn [fst snd].
      pose proof (int_item (Z.of_N x)) as Hi.
      replace (Z.of_N x <? 0)%Z with false in Hi by (symmetry; apply Z.ltb_ge; lia).
      now rewrite N2Z.inj_abs_N, N2Z.id in Hi || (replace (Z.abs_N (Z.of_N x)) with x in Hi by lia; exact Hi). }
    pose proof (array_item pretty lvl its Hits) as HA. subst its.
    rewrite !map_map in HA. cbn [fst snd] in HA. exact HA.
Qed.

(* ---- enough fuel: two units per byte of text *)
Fixpoint sumlen (ws : list (list N)) : nat :=
  match ws with [] => 0%nat | w :: t => S (length w + sumlen t) end.

Lemma join_len pretty lvl items :
  (sumlen items <= length (join_items pretty lvl false items))%nat /\
  (sumlen items <= S (length (join_items pretty lvl true items)))%nat.
Proof.
  induction items as [|w t [IH1 IH2]]; [cbn; lia|].
  cbn [sumlen join_items]. rewrite !app_length. cbn [length]. lia.
Qed.

Lemma wrap_len pretty o c lvl items : (S (sumlen items) <= length (wrap pretty o c lvl items))%nat.
Proof.
  unfold wrap. destruct items as [|w t]; [cbn; lia|].
  destruct (join_len pretty (S lvl) (w :: t)) as [_ H].
  cbn [length]. rewrite !app_length. cbn [length]. lia.
Qed.

Lemma esize_bound (its : list (nat * list N)) :
  Forall (fun it => (fst it <= 2 * length (snd it))%nat) its ->
  (esize (map fst its) <= 2 * sumlen (map snd its))%nat.
Proof.
  intros H. induction H as [|[n w] t Hn Ht IH]; [cbn; lia|].
  cbn [map esize sumlen fst snd] in *. lia.
Qed.

Lemma write_len ft pretty v lvl : (vsize v <= 2 * length (json_write ft pretty lvl v))%nat.
Proof.
  revert lvl. induction v as [ | | b | r z | f | s b | l IH | m IH | b] using value_ind'; intros lvl;
    try (cbn [vsize]; lia).
  - cbn [vsize json_write].
    pose (its := map (fun x => (vsize x, json_write ft pretty (S lvl) x)) l).
    assert (H : Forall (fun it => (fst it <= 2 * length (snd it))%nat) its).
    { subst its. apply Forall_forall. intros it Hin. apply in_map_iff in Hin.
      destruct Hin as (x & <- & Hx). cbn [fst snd]. rewrite Forall_forall in IH. now apply IH. }
    apply esize_bound in H. subst its. rewrite !map_map in H. cbn [fst snd] in H.
    match goal with |- (S ?a <= 2 * length (wrap ?p ?o ?c ?lv ?items))%nat =>
      change (a <= 2 * sumlen items)%nat in H; pose proof (wrap_len p o c lv items) end. lia.
  - cbn [vsize json_write].
    pose (its := map (fun kv : key * value =>
                        (vsize (snd kv), json_string (key_text (fst kv)) ++ colon pretty ++ json_write ft pretty (S lvl) (snd kv))) m).
    assert (H : Forall (fun it => (fst it <= 2 * length (snd it))%nat) its).
    { subst its. apply Forall_forall. intros it Hin. apply in_map_iff in Hin.
      destruct Hin as (x & <- & Hx). cbn [fst snd]. rewrite Forall_forall in IH.
      specialize (IH _ Hx (S lvl)). rewrite !app_length. lia. }
    apply esize_bound in H. subst its. rewrite !map_map in H. cbn [fst snd] in H.
    match goal with |- (S ?a <= 2 * length (wrap ?p ?o ?c ?lv ?items))%nat =>
      change (a <= 2 * sumlen items)%nat in H; pose proof (wrap_len p o c lv items) end. lia.
  - cbn [vsize json_write].
    pose (its := map (fun x : N => (0%nat, json_int (Z.of_N x))) b).
    assert (H : Forall (fun it => (fst it <= 2 * length (snd it))%nat) its).
    { subst its. apply Forall_forall. intros it Hin. apply in_map_iff in Hin.
      destruct Hin as (x & <- & Hx). cbn [fst snd]. lia. }
    apply esize_bound in H. subst its. rewrite !map_map in H. cbn [fst snd] in H.
    match goal with |- (S ?a <= 2 * length (wrap ?p ?o ?c ?lv ?items))%nat =>
      change (a <= 2 * sumlen items)%nat in H; pose proof (wrap_len p o c lv items) end. lia.
Qed.

Lemma json_roundtrip_gen ft pretty v :
  floats_ok ft v -> json_read (json_write ft pretty 0 v) = Some (canon ft v).
Proof.
  intros Hf. unfold json_read.
  destruct (write_item ft pretty v Hf 0) as [_ Hw].
  specialize (Hw (S (2 * length (json_write ft pretty 0 v))) []).
  rewrite app_nil_r in Hw. rewrite Hw; [reflexivity | | exact I].
  pose proof (write_len ft pretty v 0). lia.
Qed.

Lemma json_filter_roundtrip ft p v :
  floats_ok ft v ->
  exists text, json_encode_filter ft p v = ROk text /\ json_read text = Some (canon ft v).
Proof.
  intros Hf. unfold json_encode_filter.
  destruct p; cbn [lookup_bool json_pretty_table Bool.eqb]; eexists; (split; [reflexivity|]);
    now apply json_roundtrip_gen.
Qed.

(* ---- objects as data: member lookup by name is faithful exactly when the stringified keys are
   pairwise distinct *)
Definition member_names (m : list (key * value)) : list (list N) := map (fun kv => key_text (fst kv)) m.

Lemma json_object_faithful ft m :
  NoDup (member_names m) ->
  forall k x, In (k, x) m ->
  exists ms, canon ft (VMap m) = JObj ms /\ In (key_text k, canon ft x) ms /\
             forall j, In (key_text k, j) ms -> j = canon ft x.
Proof.
  intros Hnd k x Hin. cbn [canon]. eexists. split; [reflexivity|]. split.
  - apply in_map_iff. exists (k, x). auto.
  - induction m as [|[k' x'] m IH]; [contradiction|].
    cbn [member_names map fst snd] in Hnd. inversion_clear Hnd as [|? ? Hn Hnd'].
    intros j Hj. cbn [map fst snd] in Hj. destruct Hin as [E|Hin], Hj as [Ej|Hj].
    + injection E as -> ->. now injection Ej.
    + injection E as -> ->. exfalso. apply Hn. apply in_map_iff in Hj. destruct Hj as ([k2 x2] & E2 & H2).
      injection E2 as E2 _. cbn [fst] in E2. unfold member_names. apply in_map_iff. exists (k2, x2). auto.
    + injection Ej as Ej _. exfalso. apply Hn. rewrite Ej. unfold member_names. apply in_map_iff.
      exists (k, x). auto.
    + now apply IH.
Qed.

Lemma json_key_collision_refuted :
  exists m : list (key * value), NoDup (map fst m) /\ ~ NoDup (member_names m).
Proof.
  exists [(KInt U64 1, VNone); (KStr [49] false, VNone)]. split.
  - repeat constructor; cbn; intuition discriminate.
  - intros H. inversion_clear H as [|? ? Hn _]. apply Hn. now left.
Qed.
