(* C07: indexing and slicing in the VM model never reach their out-of-bounds arms (the Rust
   `items[i as usize]` can not panic), for sequences of any length and operands of any kind. *)
From TeraV Require Import Model.Value Model.Instr Model.Slice Model.VM Model.StackCheck.
Local Open Scope nat_scope.

(* ---------- indexing and slicing never hit the out-of-bounds arms ---------- *)

Lemma index_usize_in_range {A} (l : list A) i :
  (0 <= i < Z.of_nat (length l))%Z -> index_usize l i <> None.
Proof.
  intros [H0 H1]. unfold index_usize. destruct (i <? 0)%Z eqn:E; [apply Z.ltb_lt in E; lia|].
  apply nth_error_Some. lia.
Qed.

Lemma resolve_index_range item len r i :
  resolve_index item len = ROk r -> r = Some i -> (0 <= i < len)%Z.
Proof.
  unfold resolve_index. destruct (as_i128 item) as [idx|].
  - intros H ->. injection H as H.
    destruct ((0 <=? (if (idx <? 0)%Z then (idx + len)%Z else idx))%Z
              && ((if (idx <? 0)%Z then (idx + len)%Z else idx) <? len)%Z) eqn:E; [|discriminate].
    injection H as <-. apply andb_prop in E. destruct E as [E1 E2].
    apply Z.leb_le in E1. apply Z.ltb_lt in E2. lia.
  - destruct (is_u128 item); intros H ->; discriminate.
Qed.

Lemma get_item_seq_no_panic v item : get_item_seq v item <> RErr ErrPanic.
Proof.
  unfold get_item_seq. destruct v; try discriminate; try (destruct item; discriminate).
  - destruct (resolve_index item (Z.of_nat (length s))) as [[i|]|e] eqn:E; cbn [res_bind]; try discriminate.
    + pose proof (resolve_index_range _ _ _ i E eq_refl) as Hr.
      destruct (index_usize s i) eqn:Ei; [discriminate|]. exfalso. exact (index_usize_in_range s i Hr Ei).
    + unfold resolve_index in E. destruct (as_i128 item); [discriminate|]. destruct (is_u128 item); [discriminate|].
      injection E as <-. discriminate.
  - destruct (resolve_index item (Z.of_nat (length l))) as [[i|]|e] eqn:E; cbn [res_bind]; try discriminate.
    + pose proof (resolve_index_range _ _ _ i E eq_refl) as Hr.
      destruct (index_usize l i) eqn:Ei; [discriminate|]. exfalso. exact (index_usize_in_range l i Hr Ei).
    + unfold resolve_index in E. destruct (as_i128 item); [discriminate|]. destruct (is_u128 item); [discriminate|].
      injection E as <-. discriminate.
Qed.

(* the `while` loop of Value::slice only visits indices inside the sequence, whatever the
   operands and however long the sequence (no bound on len needed) *)
Lemma slice_loop_pos_range fuel : forall i e step x,
  (0 < step)%Z -> (0 <= i)%Z -> In x (slice_loop fuel i e step) -> (0 <= x < e)%Z.
Proof.
  induction fuel as [|f IH]; intros i e step x Hs Hi Hin; [destruct Hin|].
  cbn [slice_loop] in Hin. destruct (0 <? step)%Z eqn:Es; [|apply Z.ltb_ge in Es; lia].
  destruct (i <? e)%Z eqn:Ei; [|destruct Hin]. apply Z.ltb_lt in Ei.
  destruct Hin as [<-|Hin]; [lia|].
  apply (IH (sat_add i step) e step x Hs); [|exact Hin].
  unfold sat_add, i128_min, i128_max, two127. lia.
Qed.

Lemma slice_loop_neg_range fuel : forall i e step x hi,
  (step <= 0)%Z -> (-1 <= e)%Z -> (i <= hi)%Z -> (-1 <= hi)%Z ->
  In x (slice_loop fuel i e step) -> (0 <= x <= hi)%Z.
Proof.
  induction fuel as [|f IH]; intros i e step x hi Hs He Hi Hhi Hin; [destruct Hin|].
  cbn [slice_loop] in Hin. destruct (0 <? step)%Z eqn:Es; [apply Z.ltb_lt in Es; lia|].
  destruct (e <? i)%Z eqn:Ei; [|destruct Hin]. apply Z.ltb_lt in Ei.
  destruct Hin as [<-|Hin]; [lia|].
  apply (IH (sat_add i step) e step x hi Hs He); [|exact Hhi|exact Hin].
  unfold sat_add, i128_min, i128_max, two127. lia.
Qed.

Lemma collect_total {A} (items : list A) idx :
  (forall x, In x idx -> (0 <= x < Z.of_nat (length items))%Z) -> collect items idx <> None.
Proof.
  induction idx as [|i t IH]; intros H; [discriminate|]. cbn [collect].
  destruct (index_usize items i) eqn:Ei.
  - destruct (collect items t) eqn:Ec; [discriminate|]. exfalso. apply IH; [|reflexivity].
    intros x Hx. apply H. right. exact Hx.
  - exfalso. exact (index_usize_in_range items i (H i (or_introl eq_refl)) Ei).
Qed.

Lemma clamp_range x lo hi : (lo <= hi)%Z -> (lo <= clamp x lo hi <= hi)%Z.
Proof.
  intros H. unfold clamp. destruct (x <? lo)%Z eqn:E1; [lia|]. apply Z.ltb_ge in E1.
  destruct (hi <? x)%Z eqn:E2; [lia|]. apply Z.ltb_ge in E2. lia.
Qed.

Lemma slice_items_total {A} (items : list A) start stop step : step <> 0%Z ->
  slice_items items start stop step <> None.
Proof.
  intros Hstep. unfold slice_items. apply collect_total. intros x Hx.
  set (len := Z.of_nat (length items)) in *. assert (Hlen : (0 <= len)%Z) by (unfold len; lia).
  unfold slice_indices, bounds in Hx.
  destruct (0 <? step)%Z eqn:Es.
  - apply Z.ltb_lt in Es.
    assert (Hr : forall p d, (0 <= d <= len)%Z -> (0 <= resolve_param len 0 len p d <= len)%Z).
    { intros p d Hd. unfold resolve_param. destruct p as [p|]; [|exact Hd]. apply clamp_range. lia. }
    pose proof (Hr start 0%Z ltac:(lia)) as H1. pose proof (Hr stop len ltac:(lia)) as H2.
    pose proof (slice_loop_pos_range _ _ _ _ x Es (proj1 H1) Hx). lia.
  - apply Z.ltb_ge in Es.
    assert (Hr : forall p d, (-1 <= d <= len - 1)%Z -> (-1 <= resolve_param len (-1) (len - 1) p d <= len - 1)%Z).
    { intros p d Hd. unfold resolve_param. destruct p as [p|]; [|exact Hd]. apply clamp_range. lia. }
    pose proof (Hr start (len - 1)%Z ltac:(lia)) as H1. pose proof (Hr stop (-1)%Z ltac:(lia)) as H2.
    pose proof (slice_loop_neg_range _ _ _ _ x (len - 1)%Z Es (proj1 H2) (proj2 H1) ltac:(lia) Hx). lia.
Qed.

Lemma value_slice_no_panic v s e st : value_slice v s e st <> RErr ErrPanic.
Proof.
  unfold value_slice. set (step := match st with Some x => x | None => 1%Z end).
  destruct (step =? 0)%Z eqn:E; [discriminate|]. apply Z.eqb_neq in E.
  destruct v; try discriminate.
  - destruct (slice_items s0 s e step) eqn:Es; [discriminate|]. exfalso. exact (slice_items_total s0 s e step E Es).
  - destruct (slice_items l s e step) eqn:Es; [discriminate|]. exfalso. exact (slice_items_total l s e step E Es).
Qed.

Lemma slice_operand_no_panic v : slice_operand v <> RErr ErrPanic.
Proof.
  unfold slice_operand. destruct (is_none v); [discriminate|]. destruct (is_undefined v); [discriminate|].
  destruct (as_i128 v); [discriminate|]. destruct (is_u128 v); discriminate.
Qed.

Lemma vm_slice_no_panic opt v a b c : vm_slice opt v a b c <> RErr ErrPanic.
Proof.
  unfold vm_slice. destruct (opt && (is_undefined v || is_none v)); [discriminate|].
  destruct (is_undefined v); [discriminate|].
  destruct (slice_operand a) as [x|e1] eqn:E1; cbn [res_bind]; [|intros H; injection H as ->; exact (slice_operand_no_panic a E1)].
  destruct (slice_operand b) as [y|e2] eqn:E2; cbn [res_bind]; [|intros H; injection H as ->; exact (slice_operand_no_panic b E2)].
  destruct (slice_operand c) as [z|e3] eqn:E3; cbn [res_bind]; [|intros H; injection H as ->; exact (slice_operand_no_panic c E3)].
  destruct (value_slice v x y z) as [r|e] eqn:Ev; [discriminate|].
  destruct e; try discriminate. exfalso. exact (value_slice_no_panic v x y z Ev).
Qed.
