(* Proofs for the string half of C14 (Model/StrOps.v). *)
From TeraV Require Import Model.Value Model.Slice Model.StrOps Spec.PySlice Proofs.SliceProofs.

(* a Unicode scalar value: below 0x110000 and not a surrogate *)
Definition valid_scalar (c : N) : Prop := (c < 55296 \/ 57343 < c /\ c < 1114112)%N.
Definition valid_text (s : str) : Prop := Forall valid_scalar s.
Definition value_valid_text (v : value) : Prop :=
  match v with VStr s _ => valid_text s | _ => True end.

Lemma valid_text_incl s t : incl s t -> valid_text t -> valid_text s.
Proof. unfold valid_text. rewrite !Forall_forall. auto. Qed.

Lemma firstn_In {A} n (l : list A) x : In x (firstn n l) -> In x l.
Proof.
  revert l. induction n as [|n IH]; intros [|y l] H; cbn in *; try contradiction.
  destruct H as [->|H]; [left; reflexivity|right; auto].
Qed.

Lemma str_iter_from_valid s i len :
  valid_text s -> Forall (fun p => value_valid_text (fst p)) (str_iter_from s i len).
Proof.
  revert i. induction s as [|c t IH]; intros i H; cbn [str_iter_from]; constructor.
  - cbn. inversion H; subst. constructor; auto.
  - apply IH. inversion H; assumption.
Qed.

Theorem string_ops_valid_text s safe start stop step n e v :
  valid_text s -> valid_text (match e with Some e => e | None => ellipsis end) ->
  value_valid_text (str_reverse s) /\
  value_valid_text (str_truncate s n e) /\
  Forall (fun p => value_valid_text (fst p)) (str_iter s) /\
  value_valid_text (VStr (py_slice s start stop step) safe) /\
  (forall c, py_index s v = Some c -> valid_text [c]).
Proof.
  intros Hs He. repeat split.
  - cbn. eapply valid_text_incl; [|exact Hs]. intros x Hx. apply in_rev. assumption.
  - unfold str_truncate. destruct (Nat.ltb n (length s)); cbn; [|assumption].
    unfold valid_text. apply Forall_app. split; [|assumption].
    eapply valid_text_incl; [|exact Hs]. intros x Hx. eapply firstn_In. eassumption.
  - apply str_iter_from_valid. assumption.
  - cbn. eapply valid_text_incl; [apply py_slice_incl|assumption].
  - intros c Hc. apply py_index_in in Hc. constructor; [|constructor].
    unfold valid_text in Hs. rewrite Forall_forall in Hs. auto.
Qed.

Lemma str_iter_from_concat s i len :
  concat (map (fun p => match fst p with VStr c _ => c | _ => [] end) (str_iter_from s i len)) = s.
Proof. revert i. induction s as [|c t IH]; intros i; cbn; [reflexivity|]. rewrite IH. reflexivity. Qed.

Lemma str_iter_from_meta s i len :
  map (fun p => snd p) (str_iter_from s i len) =
  map (fun i => (i, len, Nat.eqb i 0, Nat.eqb (S i) len)) (seq i (length s)).
Proof. revert i. induction s as [|c t IH]; intros i; cbn; [reflexivity|]. rewrite IH. reflexivity. Qed.

Theorem string_ops_by_chars s n e :
  str_length s = VInt U64 (Z.of_nat (length s)) /\
  (exists r, str_reverse s = VStr r false /\ rev r = s) /\
  (str_truncate s n e =
     if Nat.ltb n (length s)
     then VStr (firstn n s ++ match e with Some e => e | None => ellipsis end) false
     else VStr s false) /\
  concat (map (fun p => match fst p with VStr c _ => c | _ => [] end) (str_iter s)) = s /\
  map (fun p => snd p) (str_iter s) =
    map (fun i => (i, length s, Nat.eqb i 0, Nat.eqb (S i) (length s))) (seq 0 (length s)).
Proof.
  repeat split.
  - exists (rev s). split; [reflexivity|apply rev_involutive].
  - apply str_iter_from_concat.
  - apply str_iter_from_meta.
Qed.
