(* Proofs/LexerLocal.v — the interior scanner is local: when `scan_inside` finds the end
   delimiter of an expression/tag, it finds the same end (same tokens, same marker) whatever
   follows.  Consequently the `inside_ends` side condition of wf_doc can be checked on an item
   alone, by running the model on `src ++ marker ++ end delimiter`. *)
From Coq Require Import Arith Wf_nat.
From TeraV Require Import Model.Value Model.Utf8Lex Model.Lexer Spec.Doc Model.LexerDoc
  Proofs.Utf8Proofs Proofs.LexerProofs Proofs.LexerSpans.
Local Open Scope nat_scope.

Lemma skip_ascii_ws_app_cons : forall s b t x,
  skip_ascii_ws s = b :: t -> skip_ascii_ws (s ++ x) = (b :: t) ++ x.
Proof.
  induction s as [|c s IH]; intros b t x H; [discriminate|].
  cbn [skip_ascii_ws app] in *. destruct (is_ascii_ws c); [now apply IH|].
  inversion H; subst. reflexivity.
Qed.

Lemma starts2_app_long : forall d s x, 2 <= length s -> starts2 d (s ++ x) = starts2 d s.
Proof. intros d [|a [|b s]] x H; cbn in H; try lia. reflexivity. Qed.

Lemma firstn_app_le : forall (A : Type) n (s x : list A), n <= length s -> firstn n (s ++ x) = firstn n s.
Proof.
  intros A n s x H. rewrite firstn_app. replace (n - length s) with 0 by lia.
  cbn [firstn]. apply app_nil_r.
Qed.

Lemma starts_with_app_long : forall p s x, length p <= length s ->
  starts_with p (s ++ x) = starts_with p s.
Proof. intros p s x H. unfold starts_with. now rewrite firstn_app_le. Qed.

Lemma byte_at_is_app : forall s i b x, byte_at_is s i b = true -> byte_at_is (s ++ x) i b = true.
Proof.
  intros s i b x H. pose proof (byte_at_is_lt _ _ _ H) as L.
  unfold byte_at_is in *. now rewrite nth_error_app1.
Qed.

Lemma str_scan_app : forall a q e x, fst (str_scan a q e) < length a ->
  str_scan (a ++ x) q e = str_scan a q e.
Proof.
  induction a as [|c t IH]; intros q e x H; [cbn in H; lia|].
  cbn [app str_scan] in *. destruct e.
  - destruct (str_scan t q false) as [n h] eqn:E. cbn [fst length] in H.
    rewrite IH by (rewrite E; cbn; lia). now rewrite E.
  - destruct (c =? backslash)%N.
    + destruct (str_scan t q true) as [n h] eqn:E. cbn [fst length] in H.
      rewrite IH by (rewrite E; cbn; lia). now rewrite E.
    + destruct (c =? q)%N; [reflexivity|].
      destruct (str_scan t q false) as [n h] eqn:E. cbn [fst length] in H.
      rewrite IH by (rewrite E; cbn; lia). now rewrite E.
Qed.

Lemma num_scan_app : forall a f x, fst (num_scan a f) < length a ->
  num_scan (a ++ x) f = num_scan a f.
Proof.
  induction a as [|c t IH]; intros f x H; [cbn in H; lia|].
  cbn [app num_scan] in *. destruct (negb f && (c =? 46)%N).
  - destruct (num_scan t true) as [n h] eqn:E. cbn [fst length] in H.
    rewrite IH by (rewrite E; cbn; lia). now rewrite E.
  - destruct (is_ascii_digit c); [|reflexivity].
    destruct (num_scan t f) as [n h] eqn:E. cbn [fst length] in H.
    rewrite IH by (rewrite E; cbn; lia). now rewrite E.
Qed.

Lemma ident_scan_app : forall a f x, ident_scan a f < length a ->
  ident_scan (a ++ x) f = ident_scan a f.
Proof.
  induction a as [|c t IH]; intros f x H; [cbn in H; lia|].
  cbn [app ident_scan] in *.
  destruct ((c =? 95)%N || (if f then is_ascii_alpha c else is_ascii_alnum c)); [|reflexivity].
  cbn [length] in H. rewrite IH by lia. reflexivity.
Qed.

(* a token that is followed by at least two more bytes is read the same whatever comes after *)
Lemma inner_token_app : forall s t n x, inner_token s = Some (t, n) -> n + 2 <= length s ->
  inner_token (s ++ x) = Some (t, n).
Proof.
  intros s t n x H L. pose proof (inner_token_len _ _ _ H) as [N1 _].
  unfold inner_token in *. destruct s as [|b1 t1]; [discriminate|]. cbn [app].
  change (b1 :: t1 ++ x) with ((b1 :: t1) ++ x).
  rewrite starts_with_app_long by (cbn [length] in *; lia).
  destruct (starts_with _ (b1 :: t1)); [exact H|].
  destruct t1 as [|b2 t2]; [cbn [length] in L; lia|]. cbn [app].
  destruct (op2_of b1 b2); [exact H|].
  destruct (op1_of b1); [exact H|].
  destruct (is_quote b1).
  { unfold lex_string in *. cbn [tl app] in *.
    change (b2 :: t2 ++ x) with ((b2 :: t2) ++ x).
    destruct (str_scan (b2 :: t2) b1 false) as [k h] eqn:E.
    destruct (byte_at_is (b1 :: b2 :: t2) (k + 1) b1) eqn:B; [|discriminate].
    pose proof (byte_at_is_lt _ _ _ B) as BL. cbn [length] in BL.
    rewrite str_scan_app by (rewrite E; cbn [fst length]; lia). rewrite E.
    change (b1 :: (b2 :: t2) ++ x) with ((b1 :: b2 :: t2) ++ x).
    rewrite (byte_at_is_app _ _ _ x B). cbn [negb] in *.
    rewrite firstn_app_le by (cbn [length]; lia). exact H. }
  destruct (is_ascii_digit b1).
  { unfold lex_number in *. change (b1 :: b2 :: t2 ++ x) with ((b1 :: b2 :: t2) ++ x).
    destruct (num_scan (b1 :: b2 :: t2) false) as [k f] eqn:E.
    assert (K : k = n).
    { destruct f; [inversion H; reflexivity|]. destruct (_ <=? _)%Z; [inversion H; reflexivity|discriminate]. }
    rewrite num_scan_app by (rewrite E; cbn [fst]; lia). rewrite E.
    rewrite firstn_app_le by lia. exact H. }
  change (b1 :: b2 :: t2 ++ x) with ((b1 :: b2 :: t2) ++ x).
  destruct (ident_scan (b1 :: b2 :: t2) true) as [|k] eqn:E; [discriminate|].
  assert (K : S k = n).
  { destruct (_ || _); [inversion H; reflexivity|]. destruct (_ || _); inversion H; reflexivity. }
  rewrite ident_scan_app by (rewrite E; lia). rewrite E.
  rewrite firstn_app_le by lia. exact H.
Qed.

(* more fuel does not change a run that found the end *)
Lemma scan_inside_mono : forall f e s toks w pre rest,
  scan_inside f e s = IEnd toks w pre rest -> scan_inside (S f) e s = IEnd toks w pre rest.
Proof.
  induction f as [|f IH]; intros e s toks w pre rest H; [discriminate|].
  cbn [scan_inside] in H. remember (S f) as f1. cbn [scan_inside]. subst f1.
  destruct (skip_ascii_ws s) as [|b0 t0]; [discriminate|].
  destruct ((b0 =? dash)%N && starts2 e t0); [exact H|].
  destruct (starts2 e (b0 :: t0)); [exact H|].
  destruct (inner_token (b0 :: t0)) as [[t len]|]; [|discriminate].
  destruct (scan_inside f e (skipn len (b0 :: t0))) as [toks' w' pre' rest'| |] eqn:R;
    cbn [ires_cons] in H; try discriminate.
  rewrite (IH _ _ _ _ _ _ R). exact H.
Qed.

Lemma scan_inside_mono_le : forall f f' e s toks w pre rest, f <= f' ->
  scan_inside f e s = IEnd toks w pre rest -> scan_inside f' e s = IEnd toks w pre rest.
Proof.
  intros f f' e s toks w pre rest L H. induction L; [exact H|]. now apply scan_inside_mono.
Qed.

Lemma scan_inside_app : forall f e s toks w pre rest x, length e = 2 -> e <> [dash; dash] ->
  scan_inside f e s = IEnd toks w pre rest -> scan_inside f e (s ++ x) = IEnd toks w pre (rest ++ x).
Proof.
  induction f as [|f IH]; intros e s toks w pre rest x Le Ne H; [discriminate|].
  pose proof (scan_inside_consumed (S f) e s) as C. rewrite H in C.
  cbn [scan_inside] in *.
  destruct (skip_ascii_ws s) as [|b0 t0] eqn:E; [discriminate|].
  rewrite (skip_ascii_ws_app_cons _ _ _ x E). cbn [app].
  pose proof (skip_ascii_ws_len s) as SL. rewrite E in SL.
  assert (PRE : length (s ++ x) - length (b0 :: t0 ++ x) = length s - length (b0 :: t0)).
  { rewrite app_length. cbn [length]. rewrite app_length. cbn [length] in SL. lia. }
  rewrite PRE.
  destruct ((b0 =? dash)%N && starts2 e t0) eqn:D.
  { apply andb_true_iff in D as [D1 D2]. rewrite D1. cbn [andb].
    pose proof (starts2_len _ _ D2) as L2.
    rewrite starts2_app_long by exact L2. rewrite D2.
    inversion H; subst.
    change (b0 :: t0 ++ x) with ((b0 :: t0) ++ x).
    rewrite skipn_app. replace (3 - length (b0 :: t0)) with 0 by (cbn [length]; lia). reflexivity. }
  destruct (starts2 e (b0 :: t0)) eqn:D2.
  { pose proof (starts2_len _ _ D2) as L2.
    assert (D' : (b0 =? dash)%N && starts2 e (t0 ++ x) = false).
    { destruct (b0 =? dash)%N eqn:B; [|reflexivity]. cbn [andb] in *.
      (* e starts with `-`: the first test failed on t0, which is long enough or not *)
      destruct t0 as [|c1 [|c2 t0']].
      - cbn in L2. lia.
      - (* e = [`-`; c1]: the `-`+end test on the longer input looks at [c1; first of x] *)
        cbn [starts2] in D2. apply bytes_eqb_eq in D2.
        destruct x as [|y x']; [reflexivity|]. cbn [app starts2].
        apply bytes_eqb_neq. intro Q. rewrite <- D2 in Q. inversion Q; subst.
        apply N.eqb_eq in B. subst. apply Ne. reflexivity.
      - rewrite starts2_app_long by (cbn [length]; lia). exact D. }
    rewrite D'. change (b0 :: t0 ++ x) with ((b0 :: t0) ++ x).
    rewrite starts2_app_long by exact L2. rewrite D2. inversion H; subst.
    rewrite skipn_app. replace (2 - length (b0 :: t0)) with 0 by lia. reflexivity. }
  destruct (inner_token (b0 :: t0)) as [[t len]|] eqn:T; [|discriminate].
  destruct (scan_inside f e (skipn len (b0 :: t0))) as [toks' w' pre' rest'| |] eqn:R;
    cbn [ires_cons] in H; try discriminate.
  inversion H; subst. cbn [consumed] in C.
  pose proof (scan_inside_consumed f e (skipn len (b0 :: t0))) as C2. rewrite R in C2.
  rewrite skipn_length in C2.
  pose proof (inner_token_len _ _ _ T) as [T1 T2].
  assert (LL : len + 2 <= length (b0 :: t0)) by (destruct w; cbn [mlen] in *; lia).
  assert (D' : (b0 =? dash)%N && starts2 e (t0 ++ x) = false).
  { destruct (b0 =? dash)%N; [|reflexivity]. cbn [andb] in *.
    rewrite starts2_app_long by (cbn [length] in LL; lia). exact D. }
  rewrite D'.
  change (b0 :: t0 ++ x) with ((b0 :: t0) ++ x).
  rewrite starts2_app_long by lia. rewrite D2.
  rewrite (inner_token_app _ _ _ x T LL).
  rewrite skipn_app. replace (len - length (b0 :: t0)) with 0 by lia. cbn [skipn].
  rewrite (IH _ _ _ _ _ _ x Le Ne R). reflexivity.
Qed.

(* the side condition of wf_doc for an expression / a tag can be established on the item alone *)
Theorem inside_ends_local : forall e s r rest x, length e = 2 -> e <> [dash; dash] ->
  inside_ends_model e s r rest -> inside_ends_model e (s ++ x) r (rest ++ x).
Proof.
  intros e s r rest x Le Ne [toks [pre H]]. exists toks, pre.
  apply (scan_inside_app _ _ _ _ _ _ _ x Le Ne) in H.
  eapply scan_inside_mono_le; [|exact H]. rewrite app_length. lia.
Qed.

Corollary inside_ends_by_item : forall e src r tail, length e = 2 -> e <> [dash; dash] ->
  inside_ends_model e (src ++ mk r ++ e) r [] ->
  inside_ends_model e (src ++ mk r ++ e ++ tail) r tail.
Proof.
  intros e src r tail Le Ne H. apply (inside_ends_local _ _ _ _ tail Le Ne) in H.
  repeat rewrite <- app_assoc in H. exact H.
Qed.
