(* Characterisation lemmas of the reference evaluator (C02, evaluation half). *)
From TeraV Require Import Model.Value Model.Pratt Spec.ExprSem.
From Coq Require Import String.
Open Scope Z_scope.

Lemma eval_and : forall g a b,
  eval g (EBin OAnd a b) = bind (eval g a) (fun v => if is_truthy v then eval g b else Val v).
Proof. reflexivity. Qed.
Lemma eval_or : forall g a b,
  eval g (EBin OOr a b) = bind (eval g a) (fun v => if is_truthy v then Val v else eval g b).
Proof. reflexivity. Qed.
Lemma eval_tern : forall g c t f,
  eval g (ETern c t f) = bind (eval g c) (fun v => if is_truthy v then eval g t else eval g f).
Proof. reflexivity. Qed.

(* and/or stop at the deciding operand and yield it: the other operand is irrelevant — it may
   be an error (`throw(..)`), undefined, anything *)
Theorem short_circuit_and_or : forall g a v,
  eval g a = Val v ->
  (is_truthy v = false -> forall b, eval g (EBin OAnd a b) = Val v) /\
  (is_truthy v = true -> forall b, eval g (EBin OOr a b) = Val v) /\
  (is_truthy v = true -> forall b, eval g (EBin OAnd a b) = eval g b) /\
  (is_truthy v = false -> forall b, eval g (EBin OOr a b) = eval g b).
Proof.
  intros g a v H. repeat split; intros Ht b; rewrite ?eval_and, ?eval_or, H; cbn [bind]; rewrite Ht; reflexivity.
Qed.

(* an error in the left operand is an error; nothing to the right is looked at *)
Theorem and_or_left_error : forall g a b,
  eval g a = Err -> eval g (EBin OAnd a b) = Err /\ eval g (EBin OOr a b) = Err.
Proof. intros g a b H. rewrite eval_and, eval_or, H. split; reflexivity. Qed.

Theorem ternary_lazy : forall g c v,
  eval g c = Val v ->
  (is_truthy v = true -> forall t f f', eval g (ETern c t f) = eval g t /\ eval g (ETern c t f) = eval g (ETern c t f')) /\
  (is_truthy v = false -> forall t t' f, eval g (ETern c t f) = eval g f /\ eval g (ETern c t f) = eval g (ETern c t' f)).
Proof.
  intros g c v H. split; intros Ht; intros; rewrite !eval_tern, H; cbn [bind]; rewrite Ht; split; reflexivity.
Qed.

Definition arith_op (o : bop) : bool :=
  match o with OPlus | OMinus | OMul | ODiv | OFloorDiv | OMod | OPower => true | _ => false end.
Definition order_op (o : bop) : bool :=
  match o with OLt | OLe | OGt | OGe => true | _ => false end.

Lemma eval_bin_strict : forall g o a b,
  (match o with OAnd | OOr => false | _ => true end) = true ->
  eval g (EBin o a b) = bind (eval g a) (fun x => bind (eval g b) (fun y => binop o x y)).
Proof. intros g o a b H. destruct o; try discriminate; reflexivity. Qed.

(* exactly one level of undefined: an expression whose value is undefined (a missing variable, a
   missing last field, an optional chain that stopped) may be tested, negated, or-ed, defaulted
   and optionally chained; printing it, arithmetic on it, or a further lookup is an error *)
Theorem one_level_undefined : forall g e,
  eval g e = Val VUndef ->
  (* tolerated *)
  eval g (ETest e (s_ "defined") []) = Val (VBool false) /\
  eval g (ETest e (s_ "undefined") []) = Val (VBool true) /\
  eval g (EUn UNot e) = Val (VBool true) /\
  (forall b, eval g (EBin OOr e b) = eval g b) /\
  (forall b, eval g (EBin OAnd e b) = Val VUndef) /\
  (forall t f, eval g (ETern e t f) = eval g f) /\
  (forall d dv, eval g d = Val dv -> eval g (EFilter e (s_ "default") [(s_ "value", d)]) = Val dv) /\
  (forall a, eval g (EAttr e a true) = Val VUndef) /\
  (forall i iv, eval g i = Val iv -> eval g (EItem e i true) = Val VUndef) /\
  (* errors *)
  printed (eval g e) = Err /\
  (forall a, eval g (EAttr e a false) = Err) /\
  (forall i iv, eval g i = Val iv -> eval g (EItem e i false) = Err) /\
  (forall b iv, eval g b = Val (VArr iv) -> eval g (EItem b e false) = Err) /\
  eval g (EUn UMinus e) = Err /\
  (forall o b bv, arith_op o = true -> eval g b = Val bv ->
     eval g (EBin o e b) = Err /\ eval g (EBin o b e) = Err) /\
  (forall b bv, eval g b = Val bv -> eval g (EBin OIn b e) = Err) /\
  eval g (EFilter e (s_ "length") []) = Err.
Proof.
  intros g e H.
  repeat match goal with |- _ /\ _ => split end; intros.
  - cbn [eval]. rewrite H. reflexivity.
  - cbn [eval]. rewrite H. reflexivity.
  - cbn [eval]. rewrite H. reflexivity.
  - rewrite eval_or, H. reflexivity.
  - rewrite eval_and, H. reflexivity.
  - rewrite eval_tern, H. reflexivity.
  - cbn [eval]. rewrite H. cbn [bind]. rewrite H0. reflexivity.
  - cbn [eval]. rewrite H. reflexivity.
  - cbn [eval]. rewrite H. cbn [bind is_undefined orb andb]. rewrite H0. reflexivity.
  - rewrite H. reflexivity.
  - cbn [eval]. rewrite H. reflexivity.
  - cbn [eval]. rewrite H. cbn [bind is_undefined is_none orb andb]. rewrite H0. reflexivity.
  - cbn [eval]. rewrite H0. cbn [bind is_undefined is_none orb andb]. rewrite H. reflexivity.
  - cbn [eval]. rewrite H. reflexivity.
  - split; rewrite eval_bin_strict by (destruct o; try discriminate; reflexivity); rewrite H, H1; cbn [bind];
      destruct o; try discriminate; cbn [binop arith]; try reflexivity; destruct bv; reflexivity.
  - rewrite eval_bin_strict by reflexivity. rewrite H, H0. reflexivity.
  - cbn [eval]. rewrite H. reflexivity.
Qed.

(* where the undefined comes from: a missing variable, a missing last field *)
Theorem undefined_sources : forall g x m a,
  (forall v, ~ In (x, v) g) -> lookup_var x g = VUndef ->
  eval g (EVar x) = Val VUndef /\
  (forall b, eval g b = Val (VMap m) -> map_get m a = VUndef -> eval g (EAttr b a false) = Val VUndef) /\
  (forall b, eval g b = Val VNone -> eval g (EAttr b a true) = Val VUndef).
Proof.
  intros g x m a _ Hl. repeat split; intros.
  - cbn [eval]. rewrite Hl. reflexivity.
  - cbn [eval]. rewrite H. cbn. rewrite H0. reflexivity.
  - cbn [eval]. rewrite H. reflexivity.
Qed.

Lemma str_eqb_true : forall a b : str, str_eqb a b = true -> a = b.
Proof.
  unfold str_eqb. induction a as [|x a IH]; destruct b as [|y b]; cbn; intros H; try reflexivity; try discriminate.
  apply andb_prop in H. destruct H as [H1 H2]. apply N.eqb_eq in H1. apply IH in H2. congruence.
Qed.

Lemma lookup_unbound : forall x g, (forall v, ~ In (x, v) g) -> lookup_var x g = VUndef.
Proof.
  intros x g. induction g as [|[y v] r IH]; intros H; [reflexivity|].
  cbn [lookup_var]. destruct (str_eqb x y) eqn:E.
  - exfalso. apply (H v). left. apply str_eqb_true in E. subst. reflexivity.
  - apply IH. intros v' Hin. apply (H v'). right. exact Hin.
Qed.

(* no coercion: operations on unsupported operand kinds are errors, never a converted result *)
Theorem no_coercion : forall a b,
  (forall o, arith_op o = true -> (is_number a && is_number b = false) -> binop o a b = Err) /\
  (forall o, order_op o = true -> N.eqb (kind_class a) (kind_class b) = false -> binop o a b = Err) /\
  (match b with VArr _ | VStr _ _ | VMap _ => False | _ => True end -> binop OIn a b = Err) /\
  (match b with VInt _ _ | VStr _ _ | VUndef => False | VBool _ => (match a with VMap _ => False | _ => True end) | _ => True end ->
   a <> VUndef -> get_item a b false = Err) /\
  (match a with VInt _ _ | VFloat _ => False | _ => True end ->
   forall g e, eval g e = Val a -> eval g (EUn UMinus e) = Err).
Proof.
  intros a b. repeat split.
  - intros o Ho Hn. destruct o; try discriminate; cbn [binop arith];
      destruct a; try reflexivity; destruct b; try reflexivity; cbn in Hn; discriminate.
  - intros o Ho Hk. destruct o; try discriminate; cbn [binop order];
      destruct a; destruct b; try reflexivity; cbn in Hk; try discriminate.
  - intros Hb. cbn [binop contains]. destruct b; try reflexivity; contradiction.
  - intros Hb Ha. unfold get_item. cbn [andb].
    destruct a; try congruence; destruct b; try reflexivity; contradiction.
  - intros Ha g e He. cbn [eval]. rewrite He. cbn [bind]. destruct a; try reflexivity; contradiction.
Qed.

(* ------------------------------------------------------------------ list comprehensions *)
(* the loop of `eval` on EComp over an array, named *)
Section CompGo.
Variables (g : env) (e : expr) (v : str) (cond : option expr).
Fixpoint comp_go (l : list value) : ev :=
  match l with
  | [] => Val (VArr [])
  | x :: r =>
      let g' := (v, x) :: g in
      bind (match cond with Some c => eval g' c | None => Val (VBool true) end) (fun cv =>
        if is_truthy cv then
          bind (eval g' e) (fun y =>
            match y with
            | VUndef => Unspec
            | _ => bind (comp_go r) (fun rest =>
                     match rest with VArr rl => Val (VArr (y :: rl)) | _ => Unspec end)
            end)
        else comp_go r)
  end.
End CompGo.

Lemma eval_comp_arr : forall g e v target cond l,
  eval g target = Val (VArr l) ->
  eval g (EComp e None v target cond) = comp_go g e v cond l.
Proof. intros g e v target cond l H. cbn [eval]. rewrite H. cbn [bind]. reflexivity. Qed.

(* a comprehension over an array is `map f (filter p ..)`: the condition is evaluated for every
   element with the loop variable bound to it (shadowing), the element expression only for the
   elements the condition keeps (for the others it may be `throw(..)`), in order *)
Theorem comprehension_filter_map : forall g e v target cond l (f : value -> value) (p : value -> bool),
  eval g target = Val (VArr l) ->
  (forall x, In x l ->
     match cond with
     | Some c => exists cv, eval ((v, x) :: g) c = Val cv /\ is_truthy cv = p x
     | None => p x = true
     end) ->
  (forall x, In x l -> p x = true -> eval ((v, x) :: g) e = Val (f x) /\ f x <> VUndef) ->
  eval g (EComp e None v target cond) = Val (VArr (map f (filter p l))).
Proof.
  intros g e v target cond l f p Ht Hc He. rewrite (eval_comp_arr g e v target cond l Ht).
  clear Ht. induction l as [|x r IH]; [reflexivity|].
  assert (IH' := IH (fun y Hy => Hc y (or_intror Hy)) (fun y Hy => He y (or_intror Hy))). clear IH.
  specialize (Hc x (or_introl eq_refl)). specialize (He x (or_introl eq_refl)).
  cbn [comp_go filter]. cbv zeta.
  assert (Hcv : exists cv, (match cond with Some c => eval ((v, x) :: g) c | None => Val (VBool true) end) = Val cv
                           /\ is_truthy cv = p x).
  { destruct cond as [c|]; [exact Hc|]. exists (VBool true). split; [reflexivity|]. rewrite Hc. reflexivity. }
  destruct Hcv as (cv & E1 & E2). rewrite E1. cbn [bind]. rewrite E2.
  destruct (p x) eqn:Ep.
  - destruct (He eq_refl) as [E3 Hne]. rewrite E3. cbn [bind map].
    rewrite IH'. cbn [bind]. destruct (f x); try reflexivity. congruence.
  - exact IH'.
Qed.

(* the first failing condition / element ends the evaluation with an error *)
Theorem comprehension_error : forall g e v target cond x r,
  eval g target = Val (VArr (x :: r)) ->
  (match cond with Some c => eval ((v, x) :: g) c = Err
                 | None => eval ((v, x) :: g) e = Err end) ->
  eval g (EComp e None v target cond) = Err.
Proof.
  intros g e v target cond x r Ht H. rewrite (eval_comp_arr g e v target cond (x :: r) Ht).
  cbn [comp_go]. cbv zeta. destruct cond as [c|]; [rewrite H; reflexivity|].
  cbn [bind]. change (is_truthy (VBool true)) with true. cbv iota. rewrite H. reflexivity.
Qed.
