(* Basic facts about the concrete VM model (Model/VM.v) used by C03 and later by C01/C07/C18. *)
From TeraV Require Import Model.Value Model.Instr Model.VFormat Model.VM.
Local Open Scope nat_scope.

(* ---------- scope chain ---------- *)

(* independent statement of the lookup order: the first source that binds the name wins *)
Definition first_some {A} (l : list (option A)) : option A :=
  fold_right (fun o acc => match o with Some x => Some x | None => acc end) None l.

Definition defined_opt (v : value) : option value := if is_undefined v then None else Some v.

Definition lookup_spec (loops : list loop_frame) (setvars : ctx) (from_parent : value)
           (context : ctx) (global : option ctx) (n : str) : value :=
  match first_some (map (fun f => lf_get f n) loops
                    ++ [ctx_get setvars n; defined_opt from_parent; ctx_get context n;
                        match global with Some g => ctx_get g n | None => None end]) with
  | Some v => v
  | None => VUndef
  end.

Lemma first_some_app {A} (a b : list (option A)) :
  first_some (a ++ b) = match first_some a with Some x => Some x | None => first_some b end.
Proof.
  induction a as [|o a IH]; [reflexivity|]. cbn. destruct o; [reflexivity|exact IH].
Qed.

Lemma loops_get_first_some ls n : loops_get ls n = first_some (map (fun f => lf_get f n) ls).
Proof. induction ls as [|f t IH]; [reflexivity|]. cbn. destruct (lf_get f n); [reflexivity|exact IH]. Qed.

Theorem scope_chain : forall loops setvars parent context global n,
  scope_get (Scope loops setvars parent context global) n =
  lookup_spec loops setvars (match parent with Some p => scope_get p n | None => VUndef end)
              context global n.
Proof.
  intros. cbn [scope_get]. unfold lookup_spec. rewrite first_some_app, <- loops_get_first_some.
  destruct (loops_get loops n); [reflexivity|]. cbn [first_some fold_right].
  destruct (ctx_get setvars n); [reflexivity|].
  unfold defined_opt.
  destruct (is_undefined (match parent with Some p => scope_get p n | None => VUndef end)) eqn:E;
    cbn [negb].
  - destruct (ctx_get context n); [reflexivity|]. destruct global as [g|]; [|reflexivity].
    destruct (ctx_get g n); reflexivity.
  - reflexivity.
Qed.

(* ---------- loop counters (ForLoop::advance and the `end_ip != 0` convention) ---------- *)

(* the frame after k >= 1 executions of Iterate e on a fresh loop over `items` *)
Fixpoint advance_n (k : nat) (f : loop_frame) (e : nat) : loop_frame :=
  match k with O => f | S k' => advance_n k' (lf_advance f e) e end.

Lemma advance_n_S k f e : advance_n (S k) f e = lf_advance (advance_n k f e) e.
Proof. revert f. induction k as [|k IH]; intros f; [reflexivity|]. cbn [advance_n] in *. rewrite IH. reflexivity. Qed.

Theorem loop_counters : forall items comp e k,
  e <> 0 -> 1 <= k <= length items ->
  let f := advance_n k (new_loop items comp) e in
  lf_index0 f = k - 1 /\
  lf_first f = Nat.eqb k 1 /\
  lf_last f = Nat.eqb k (length items) /\
  lf_length f = length items /\
  nth_error items (k - 1) = Some (lf_current f) /\
  lf_rest f = skipn k items /\
  lf_iterated f = true /\
  lf_end_ip f = e /\
  (2 <= k -> lf_context f = []).
Proof.
  intros items comp e k He. induction k as [|k IH]; intros [Hk1 Hk2]; [lia|].
  destruct (Nat.eq_dec k 0) as [->|Hk0].
  - (* first Iterate: nothing is bumped because end_ip was still 0 *)
    cbn [advance_n]. unfold lf_advance, new_loop. cbn [lf_rest lf_end_ip].
    destruct items as [|x items']; [cbn in Hk2; lia|].
    cbn. repeat split; try reflexivity; try (intros; lia); try apply Nat.eqb_sym.
  - cbn zeta in *. rewrite advance_n_S.
    destruct (IH ltac:(lia)) as (I0 & I1 & I2 & I3 & I4 & I5 & I6 & I7 & I8).
    set (f := advance_n k (new_loop items comp) e) in *.
    assert (Hrest : exists x r, lf_rest f = x :: r /\ nth_error items k = Some x /\ skipn (S k) items = r).
    { rewrite I5. clear - Hk2. revert k Hk2. induction items as [|y items IHi]; intros k Hk2; [cbn in Hk2; lia|].
      destruct k; [exists y, items; auto|]. cbn [skipn nth_error]. apply IHi. cbn in Hk2. lia. }
    destruct Hrest as (x & r & Hr & Hx & Hs).
    unfold lf_advance. rewrite Hr, I7.
    assert (Hne : Nat.eqb e 0 = false) by (apply Nat.eqb_neq; exact He).
    rewrite Hne. cbn [negb lf_index0 lf_first lf_last lf_length lf_current lf_rest lf_iterated lf_end_ip lf_context].
    rewrite I0, I3. replace (S (k - 1)) with k by lia. replace (S k - 1) with k by lia.
    repeat split; auto.
    + destruct k; [lia|]. reflexivity.
Qed.

(* without the convention the counters would never move: this is why e <> 0 matters *)
Theorem loop_counters_need_nonzero_end_ip : forall items comp k,
  lf_index0 (advance_n k (new_loop items comp) 0) = 0.
Proof.
  intros items comp k.
  assert (H : forall f, lf_index0 f = 0 -> lf_end_ip f = 0 -> lf_index0 (advance_n k f 0) = 0).
  { induction k as [|k IH]; intros f H0 He; [exact H0|]. cbn [advance_n]. apply IH.
    - unfold lf_advance. destruct (lf_rest f); cbn; [exact H0|]. rewrite He. cbn. exact H0.
    - unfold lf_advance. destruct (lf_rest f); reflexivity. }
  apply H; reflexivity.
Qed.

(* a `set` inside a loop body lives in the frame's per-iteration context ... *)
Theorem store_local_in_loop : forall s f t n v,
  loops s = f :: t ->
  loops (store_local s n v) = lf_store f n v :: t /\ setvars (store_local s n v) = setvars s.
Proof. intros s f t n v H. unfold store_local. rewrite H. split; reflexivity. Qed.

(* ... which the next iteration clears and PopLoop drops; outside loops it is a global *)
Theorem store_local_outside_loop : forall s n v,
  loops s = [] -> store_local s n v = store_global s n v.
Proof. intros s n v H. unfold store_local. rewrite H. reflexivity. Qed.

Lemma str_eqb_refl (s : str) : str_eqb s s = true.
Proof. induction s as [|c s IH]; [reflexivity|]. cbn. rewrite N.eqb_refl. exact IH. Qed.

Lemma ctx_get_set_same c n v : ctx_get (ctx_set c n v) n = Some v.
Proof. unfold ctx_set. cbn [ctx_get]. rewrite str_eqb_refl. reflexivity. Qed.

Theorem set_global_persists : forall s n v, get_value (store_global s n v) n = v \/ exists f, In f (loops s) /\ lf_get f n <> None.
Proof.
  intros s n v. unfold get_value, scope_of, store_global. cbn [loops setvars upd_setvars scope_get].
  destruct (loops_get (loops s) n) eqn:E.
  - right. clear - E. induction (loops s) as [|f t IH]; [discriminate|]. cbn in E.
    destruct (lf_get f n) eqn:Ef; [exists f; split; [left; reflexivity|congruence]|].
    destruct (IH E) as (g & Hg & Hn). exists g. split; [right; exact Hg|exact Hn].
  - left. rewrite ctx_get_set_same. reflexivity.
Qed.
