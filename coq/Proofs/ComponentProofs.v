(* Lemmas for C05 (components). *)
From Coq Require Import Permutation.
From TeraV Require Import Model.Value Gen.Tables Gen.TypeTables Model.Component Spec.ComponentSpec.

(* ------------------------------------------------------------------ strings *)

Lemma str_eqb_refl : forall a, str_eqb a a = true.
Proof.
  unfold str_eqb. induction a as [|x a IH]; cbn [list_eqb]; [reflexivity|].
  rewrite N.eqb_refl, IH. reflexivity.
Qed.

Lemma str_eqb_eq : forall a b, str_eqb a b = true <-> a = b.
Proof.
  unfold str_eqb.
  induction a as [|x a IH]; intros [|y b]; cbn [list_eqb]; split; intros H;
    try reflexivity; try discriminate.
  - apply andb_true_iff in H. destruct H as [H1 H2]. apply N.eqb_eq in H1.
    apply IH in H2. subst. reflexivity.
  - inversion H; subst. rewrite N.eqb_refl. apply IH. reflexivity.
Qed.

Lemma str_eqb_neq : forall a b, str_eqb a b = false <-> a <> b.
Proof.
  intros a b. split; intros H.
  - intros E. apply str_eqb_eq in E. congruence.
  - destruct (str_eqb a b) eqn:E; [|reflexivity]. apply str_eqb_eq in E. contradiction.
Qed.

Lemma str_eqb_sym : forall a b, str_eqb a b = str_eqb b a.
Proof.
  intros a b. destruct (str_eqb a b) eqn:E.
  - apply str_eqb_eq in E. subst. symmetry. apply str_eqb_refl.
  - symmetry. apply str_eqb_neq. apply str_eqb_neq in E. congruence.
Qed.

Lemma str_eq_dec : forall a b : str, {a = b} + {a <> b}.
Proof.
  intros a b. destruct (str_eqb a b) eqn:E.
  - left. apply str_eqb_eq. exact E.
  - right. apply str_eqb_neq. exact E.
Qed.

(* ------------------------------------------------------------------ types *)

(* the generated arms agree with the documented meaning of the type names *)
Lemma type_matches_doc : forall t v, type_matches t v = doc_matches t v.
Proof.
  intros t v. destruct t; destruct v as [| |b|r z|f|s sf|l|m|bs]; try destruct r; reflexivity.
Qed.

Lemma type_from_value_doc : forall v, type_from_value v = doc_infer v.
Proof.
  intros v. destruct v as [| |b|r z|f|s sf|l|m|bs]; try destruct r; reflexivity.
Qed.

Lemma effective_type_spec : forall p, effective_type p = spec_type p.
Proof.
  intros p. unfold effective_type, spec_type.
  destruct (p_declared p); [reflexivity|].
  destruct (p_default p); [apply type_from_value_doc|reflexivity].
Qed.

(* an inferred type always admits the default it was inferred from *)
Lemma inferred_type_admits_default : forall v t, type_from_value v = Some t -> type_matches t v = true.
Proof.
  intros v t. destruct v as [| |b|r z|f|s sf|l|m|bs]; try destruct r; cbn; intros H;
    inversion H; subst; reflexivity.
Qed.

Lemma arg_type_matches_spec : forall p v,
  arg_type_matches p v = true <-> (forall t, spec_type p = Some t -> doc_matches t v = true).
Proof.
  intros p v. unfold arg_type_matches. rewrite effective_type_spec.
  destruct (spec_type p) as [t|].
  - rewrite type_matches_doc. split.
    + intros H t' E. inversion E; subst. exact H.
    + intros H. apply H. reflexivity.
  - split; [intros _ t E; discriminate|reflexivity].
Qed.

(* ------------------------------------------------------------------ Context as a finite map *)

Lemma ctx_get_lookup : forall c k, ctx_get c k = lookup c k.
Proof. induction c as [|[k' v] c IH]; intros k; cbn; [reflexivity|]. rewrite IH. reflexivity. Qed.

Lemma ctx_get_remove_same : forall k c, ctx_get (ctx_remove k c) k = None.
Proof.
  intros k. induction c as [|[k' v] c IH]; cbn; [reflexivity|].
  destruct (str_eqb k' k) eqn:E; [exact IH|]. cbn. rewrite E. exact IH.
Qed.

Lemma ctx_get_remove_other : forall k k' c, k <> k' -> ctx_get (ctx_remove k c) k' = ctx_get c k'.
Proof.
  intros k k' c Hne. induction c as [|[k0 v] c IH]; cbn; [reflexivity|].
  destruct (str_eqb k0 k) eqn:E.
  - apply str_eqb_eq in E. subst k0.
    destruct (str_eqb k k') eqn:E2; [apply str_eqb_eq in E2; contradiction|]. exact IH.
  - cbn. destruct (str_eqb k0 k'); [reflexivity|exact IH].
Qed.

Lemma ctx_get_insert_same : forall k v c, ctx_get (ctx_insert k v c) k = Some v.
Proof. intros. unfold ctx_insert. cbn. rewrite str_eqb_refl. reflexivity. Qed.

Lemma ctx_get_insert_other : forall k v c k', k <> k' -> ctx_get (ctx_insert k v c) k' = ctx_get c k'.
Proof.
  intros k v c k' Hne. unfold ctx_insert. cbn.
  destruct (str_eqb k k') eqn:E; [apply str_eqb_eq in E; contradiction|].
  apply ctx_get_remove_other. exact Hne.
Qed.

Lemma ctx_get_insert : forall k v c k',
  ctx_get (ctx_insert k v c) k' = if str_eqb k k' then Some v else ctx_get c k'.
Proof.
  intros. destruct (str_eqb k k') eqn:E.
  - apply str_eqb_eq in E. subst. apply ctx_get_insert_same.
  - apply ctx_get_insert_other. apply str_eqb_neq. exact E.
Qed.

Lemma ctx_get_some_in : forall c k v, ctx_get c k = Some v -> In k (ctx_keys c).
Proof.
  induction c as [|[k' v'] c IH]; cbn; intros k v H; [discriminate|].
  destruct (str_eqb k' k) eqn:E.
  - left. apply str_eqb_eq. exact E.
  - right. eapply IH. exact H.
Qed.

Lemma ctx_get_in_some : forall c k, In k (ctx_keys c) -> ctx_get c k <> None.
Proof.
  induction c as [|[k' v'] c IH]; cbn; intros k H; [contradiction|].
  destruct (str_eqb k' k) eqn:E; [discriminate|].
  destruct H as [H|H]; [subst; rewrite str_eqb_refl in E; discriminate|]. apply IH. exact H.
Qed.

Lemma ctx_remove_keys_subset : forall k c x, In x (ctx_keys (ctx_remove k c)) -> In x (ctx_keys c) /\ x <> k.
Proof.
  intros k. induction c as [|[k' v] c IH]; cbn; intros x H; [contradiction|].
  destruct (str_eqb k' k) eqn:E.
  - destruct (IH x H) as [H1 H2]. split; [right; exact H1|exact H2].
  - cbn in H. destruct H as [H|H].
    + subst. split; [left; reflexivity|]. apply str_eqb_neq. exact E.
    + destruct (IH x H) as [H1 H2]. split; [right; exact H1|exact H2].
Qed.

Lemma ctx_remove_nodup : forall k c, NoDup (ctx_keys c) -> NoDup (ctx_keys (ctx_remove k c)).
Proof.
  intros k. induction c as [|[k' v] c IH]; cbn; intros H; [constructor|].
  inversion H as [|? ? Hn Hd]; subst.
  destruct (str_eqb k' k); [apply IH; exact Hd|].
  cbn. constructor; [|apply IH; exact Hd].
  intros Hin. apply ctx_remove_keys_subset in Hin. destruct Hin as [Hin _]. contradiction.
Qed.

Lemma ctx_insert_nodup : forall k v c, NoDup (ctx_keys c) -> NoDup (ctx_keys (ctx_insert k v c)).
Proof.
  intros k v c H. unfold ctx_insert. cbn. constructor.
  - intros Hin. apply ctx_remove_keys_subset in Hin. destruct Hin as [_ Hne]. congruence.
  - apply ctx_remove_nodup. exact H.
Qed.

(* ------------------------------------------------------------------ value::Map keys *)

(* what Key equality looks at *)
Definition kn (k : key) : bool + (Z + str) :=
  match k with KBool b => inl b | KInt _ z => inr (inl z) | KStr s _ => inr (inr s) end.

Lemma key_eqb_kn : forall a b, key_eqb a b = true <-> kn a = kn b.
Proof.
  intros [x|r x|s o] [y|r' y|s' o']; cbn; split; intros H; try discriminate; try congruence.
  - apply eqb_prop in H. subst. reflexivity.
  - inversion H; subst. apply eqb_reflx.
  - apply Z.eqb_eq in H. subst. reflexivity.
  - inversion H; subst. apply Z.eqb_refl.
  - apply str_eqb_eq in H. subst. reflexivity.
  - inversion H; subst. apply str_eqb_refl.
Qed.

Lemma key_eqb_kn_false : forall a b, key_eqb a b = false <-> kn a <> kn b.
Proof.
  intros a b. split; intros H.
  - intros E. apply key_eqb_kn in E. congruence.
  - destruct (key_eqb a b) eqn:E; [|reflexivity]. apply key_eqb_kn in E. contradiction.
Qed.

Lemma kmap_get_kn : forall m a b, kn a = kn b -> kmap_get m a = kmap_get m b.
Proof.
  induction m as [|[k v] m IH]; intros a b H; cbn; [reflexivity|].
  destruct (key_eqb k a) eqn:E1; destruct (key_eqb k b) eqn:E2.
  - reflexivity.
  - apply key_eqb_kn in E1. apply key_eqb_kn_false in E2. congruence.
  - apply key_eqb_kn in E2. apply key_eqb_kn_false in E1. congruence.
  - apply IH. exact H.
Qed.

Lemma kmap_get_app : forall m1 m2 k,
  kmap_get (m1 ++ m2) k = match kmap_get m1 k with Some v => Some v | None => kmap_get m2 k end.
Proof.
  induction m1 as [|[k' v] m1 IH]; intros m2 k; cbn; [reflexivity|].
  destruct (key_eqb k' k); [reflexivity|apply IH].
Qed.

Lemma kmap_get_remove : forall k m k',
  kmap_get (kmap_remove k m) k' = if key_eqb k k' then None else kmap_get m k'.
Proof.
  intros k. induction m as [|[k0 v] m IH]; intros k'; cbn.
  - destruct (key_eqb k k'); reflexivity.
  - destruct (key_eqb k0 k) eqn:E0.
    + rewrite IH. destruct (key_eqb k k') eqn:E; [reflexivity|].
      destruct (key_eqb k0 k') eqn:E1; [|reflexivity].
      apply key_eqb_kn in E0. apply key_eqb_kn in E1. apply key_eqb_kn_false in E. congruence.
    + cbn. rewrite IH. destruct (key_eqb k k') eqn:E.
      * destruct (key_eqb k0 k') eqn:E1; [|reflexivity].
        apply key_eqb_kn in E. apply key_eqb_kn in E1. apply key_eqb_kn_false in E0. congruence.
      * reflexivity.
Qed.

Lemma kmap_get_insert : forall k v m k',
  kmap_get (kmap_insert k v m) k' = if key_eqb k k' then Some v else kmap_get m k'.
Proof.
  intros. unfold kmap_insert. rewrite kmap_get_app, kmap_get_remove. cbn.
  destruct (key_eqb k k'); [reflexivity|]. destruct (kmap_get m k'); reflexivity.
Qed.

Definition kmap_names (m : kmap) : list str := map (fun kv => key_name (fst kv)) m.
Definition kmap_all_str (m : kmap) : Prop := forall kv, In kv m -> key_is_str (fst kv).

Lemma kmap_remove_in : forall k m kv, In kv (kmap_remove k m) -> In kv m /\ key_eqb (fst kv) k = false.
Proof.
  intros k. induction m as [|[k0 v] m IH]; cbn; intros kv H; [contradiction|].
  destruct (key_eqb k0 k) eqn:E.
  - destruct (IH kv H). split; [right|]; assumption.
  - cbn in H. destruct H as [H|H].
    + subst. split; [left; reflexivity|exact E].
    + destruct (IH kv H). split; [right|]; assumption.
Qed.

Lemma kmap_remove_names_nodup : forall k m, NoDup (kmap_names m) -> NoDup (kmap_names (kmap_remove k m)).
Proof.
  intros k. induction m as [|[k0 v] m IH]; cbn; intros H; [constructor|].
  inversion H as [|? ? Hn Hd]; subst.
  destruct (key_eqb k0 k); [apply IH; exact Hd|].
  cbn. constructor; [|apply IH; exact Hd].
  intros Hin. apply Hn. unfold kmap_names in *. apply in_map_iff in Hin.
  destruct Hin as [kv [E Hin]]. apply kmap_remove_in in Hin. destruct Hin as [Hin _].
  apply in_map_iff. exists kv. split; assumption.
Qed.

Lemma kmap_insert_str_wf : forall s o v m,
  kmap_all_str m -> NoDup (kmap_names m) ->
  kmap_all_str (kmap_insert (KStr s o) v m) /\ NoDup (kmap_names (kmap_insert (KStr s o) v m)).
Proof.
  intros s o v m Hs Hd. unfold kmap_insert. split.
  - intros kv Hin. apply in_app_or in Hin. destruct Hin as [Hin|Hin].
    + apply kmap_remove_in in Hin. apply Hs. apply Hin.
    + destruct Hin as [Hin|[]]. subst. exact I.
  - unfold kmap_names. rewrite map_app. cbn.
    assert (Hr := kmap_remove_names_nodup (KStr s o) m Hd). unfold kmap_names in Hr.
    apply Permutation_NoDup with (l := s :: map (fun kv => key_name (fst kv)) (kmap_remove (KStr s o) m)).
    + apply Permutation_cons_append.
    + constructor; [|exact Hr].
      intros Hin. apply in_map_iff in Hin. destruct Hin as [[k0 v0] [E Hin]]. cbn in E.
      apply kmap_remove_in in Hin. destruct Hin as [Hin Hk]. cbn in Hk.
      specialize (Hs _ Hin). cbn in Hs. destruct k0 as [| |s0 o0]; try contradiction.
      cbn in E. subst s0. cbn in Hk. rewrite str_eqb_refl in Hk. discriminate.
Qed.

(* in a map with string keys and distinct names, lookup and membership coincide *)
Lemma kmap_get_in : forall m k v,
  kmap_all_str m -> NoDup (kmap_names m) ->
  (kmap_get m (KStr k false) = Some v <-> exists o, In (KStr k o, v) m).
Proof.
  induction m as [|[k0 v0] m IH]; intros k v Hs Hd; cbn.
  - split; [discriminate|intros [o []]].
  - assert (Hs' : kmap_all_str m) by (intros kv Hin; apply Hs; right; exact Hin).
    inversion Hd as [|? ? Hn Hd']; subst.
    assert (H0 := Hs (k0, v0) (or_introl eq_refl)). cbn in H0.
    destruct k0 as [| |s0 o0]; try contradiction. cbn in Hn. cbn [key_eqb].
    destruct (str_eqb s0 k) eqn:E.
    + apply str_eqb_eq in E. subst s0. split.
      * intros H. inversion H; subst. exists o0. left. reflexivity.
      * intros [o [H|H]]; [inversion H; subst; reflexivity|].
        exfalso. apply Hn. unfold kmap_names. apply in_map_iff. exists (KStr k o, v). split; [reflexivity|exact H].
    + rewrite (IH k v Hs' Hd'). split.
      * intros [o H]. exists o. right. exact H.
      * intros [o [H|H]]; [inversion H; subst; rewrite str_eqb_refl in E; discriminate|].
        exists o. exact H.
Qed.

(* ------------------------------------------------------------------ build_context *)

Lemma declared_iff : forall d k, declared d k = true <-> is_param d k.
Proof.
  unfold declared, is_param. intros d k. rewrite existsb_exists. split.
  - intros [p [Hin E]]. apply str_eqb_eq in E. subst. apply in_map. exact Hin.
  - intros H. apply in_map_iff in H. destruct H as [p [E Hin]]. exists p.
    split; [exact Hin|subst; apply str_eqb_refl].
Qed.

Lemma declared_false_iff : forall d k, declared d k = false <-> ~ is_param d k.
Proof.
  intros d k. split; intros H.
  - intros P. apply declared_iff in P. congruence.
  - destruct (declared d k) eqn:E; [|reflexivity]. apply declared_iff in E. contradiction.
Qed.

Lemma existsb_str_in : forall k l, existsb (str_eqb k) l = true <-> In k l.
Proof.
  intros k l. rewrite existsb_exists. split.
  - intros [x [Hin E]]. apply str_eqb_eq in E. subst. exact Hin.
  - intros H. exists k. split; [exact H|apply str_eqb_refl].
Qed.

Definition bound (get : str -> option value) (p : param) : option value :=
  match get (p_name p) with Some v => Some v | None => p_default p end.

Lemma bind_params_ok : forall ps get c0 c,
  bind_params ps get c0 = ROk c -> NoDup (map p_name ps) ->
  (forall p, In p ps -> ctx_get c (p_name p) = bound get p /\ bound get p <> None /\
                        (forall v, get (p_name p) = Some v -> arg_type_matches p v = true)) /\
  (forall n, ~ In n (map p_name ps) -> ctx_get c n = ctx_get c0 n) /\
  (NoDup (ctx_keys c0) -> NoDup (ctx_keys c)).
Proof.
  induction ps as [|p t IH]; intros get c0 c H Hnd.
  - cbn in H. inversion H; subst. split; [intros p []|]. split; [reflexivity|auto].
  - cbn [map] in Hnd. inversion Hnd as [|? ? Hnotin Hnd']; subst.
    cbn [bind_params] in H.
    destruct (get (p_name p)) as [v|] eqn:G.
    + destruct (arg_type_matches p v) eqn:T; [|discriminate].
      destruct (IH _ _ _ H Hnd') as [H1 [H2 H3]]. split; [|split].
      * intros q [Hq|Hq]; [|apply H1; exact Hq]. subst q. unfold bound. rewrite G.
        split; [|split].
        -- rewrite (H2 _ Hnotin). apply ctx_get_insert_same.
        -- discriminate.
        -- intros v' E. inversion E; subst. exact T.
      * intros n Hn. rewrite H2 by (intros X; apply Hn; right; exact X).
        apply ctx_get_insert_other. intros E. apply Hn. left. exact E.
      * intros Hd. apply H3. apply ctx_insert_nodup. exact Hd.
    + destruct (p_default p) as [dv|] eqn:D; [|discriminate].
      destruct (IH _ _ _ H Hnd') as [H1 [H2 H3]]. split; [|split].
      * intros q [Hq|Hq]; [|apply H1; exact Hq]. subst q. unfold bound. rewrite G, D.
        split; [|split].
        -- rewrite (H2 _ Hnotin). apply ctx_get_insert_same.
        -- discriminate.
        -- intros v' E. discriminate.
      * intros n Hn. rewrite H2 by (intros X; apply Hn; right; exact X).
        apply ctx_get_insert_other. intros E. apply Hn. left. exact E.
      * intros Hd. apply H3. apply ctx_insert_nodup. exact Hd.
Qed.

Definition param_fine (get : str -> option value) (p : param) : Prop :=
  match get (p_name p) with
  | Some v => arg_type_matches p v = true
  | None => p_default p <> None
  end.

Lemma bind_params_complete : forall ps get c0,
  (forall p, In p ps -> param_fine get p) -> exists c, bind_params ps get c0 = ROk c.
Proof.
  induction ps as [|p t IH]; intros get c0 H.
  - exists c0. reflexivity.
  - cbn [bind_params]. assert (Hp := H p (or_introl eq_refl)). unfold param_fine in Hp.
    destruct (get (p_name p)) as [v|].
    + rewrite Hp. apply IH. intros q Hq. apply H. right. exact Hq.
    + destruct (p_default p) as [dv|]; [|congruence]. apply IH. intros q Hq. apply H. right. exact Hq.
Qed.

Lemma bind_params_ok_fine : forall ps get c0 c,
  bind_params ps get c0 = ROk c -> forall p, In p ps -> param_fine get p.
Proof.
  induction ps as [|q t IH]; intros get c0 c B p Hp; [contradiction|].
  cbn [bind_params] in B. destruct Hp as [Hp|Hp].
  - subst q. unfold param_fine. destruct (get (p_name p)) as [v|].
    + destruct (arg_type_matches p v); [reflexivity|discriminate].
    + destruct (p_default p); [discriminate|discriminate].
  - destruct (get (p_name q)) as [v|].
    + destruct (arg_type_matches q v); [|discriminate]. eapply IH; eassumption.
    + destruct (p_default q); [|discriminate]. eapply IH; eassumption.
Qed.

Lemma bind_params_err : forall ps get c0 e, bind_params ps get c0 = RErr e -> e = ErrOther.
Proof.
  induction ps as [|p t IH]; intros get c0 e H; cbn [bind_params] in H; [discriminate|].
  destruct (get (p_name p)) as [v|].
  - destruct (arg_type_matches p v); [eapply IH; exact H|inversion H; reflexivity].
  - destruct (p_default p); [eapply IH; exact H|inversion H; reflexivity].
Qed.

Lemma collect_norest : forall d keys get rm u, def_rest d = None ->
  collect_unknown d keys get rm u = ROk (rm, rev (filter (fun k => negb (declared d k)) keys) ++ u).
Proof.
  intros d keys get rm u Hr. revert u. induction keys as [|k t IH]; intros u; cbn [collect_unknown filter].
  - reflexivity.
  - destruct (declared d k) eqn:Dk; cbn [negb].
    + apply IH.
    + rewrite Hr. rewrite IH. cbn [rev]. rewrite <- app_assoc. reflexivity.
Qed.

Lemma collect_rest : forall d r keys get rm u, def_rest d = Some r ->
  (forall k, In k keys -> get k <> None) ->
  kmap_all_str rm -> NoDup (kmap_names rm) ->
  exists rm', collect_unknown d keys get rm u = ROk (rm', u) /\ kmap_all_str rm' /\ NoDup (kmap_names rm') /\
    forall k, kmap_get rm' (KStr k false) =
              if negb (declared d k) && existsb (str_eqb k) keys then get k else kmap_get rm (KStr k false).
Proof.
  intros d r keys get rm u Hr. revert rm. induction keys as [|k t IH]; intros rm Hget Hs Hd.
  - exists rm. cbn. split; [reflexivity|]. split; [exact Hs|]. split; [exact Hd|].
    intros k. rewrite andb_false_r. reflexivity.
  - cbn [collect_unknown]. destruct (declared d k) eqn:Dk.
    + destruct (IH rm) as [rm' [E [Hs' [Hd' Hf]]]]; try assumption.
      { intros k0 Hk0. apply Hget. right. exact Hk0. }
      exists rm'. split; [exact E|]. split; [exact Hs'|]. split; [exact Hd'|].
      intros k0. rewrite Hf. cbn [existsb].
      destruct (str_eqb k0 k) eqn:E0; [|reflexivity].
      apply str_eqb_eq in E0. subst k0. rewrite Dk. reflexivity.
    + rewrite Hr. destruct (get k) as [v|] eqn:G.
      2:{ exfalso. apply (Hget k); [left; reflexivity|exact G]. }
      destruct (kmap_insert_str_wf k true v rm Hs Hd) as [Hs1 Hd1].
      destruct (IH (kmap_insert (KStr k true) v rm)) as [rm' [E [Hs' [Hd' Hf]]]]; try assumption.
      { intros k0 Hk0. apply Hget. right. exact Hk0. }
      exists rm'. split; [exact E|]. split; [exact Hs'|]. split; [exact Hd'|].
      intros k0. rewrite Hf. rewrite kmap_get_insert. cbn [existsb key_eqb].
      rewrite (str_eqb_sym k0 k).
      destruct (str_eqb k k0) eqn:E0.
      * apply str_eqb_eq in E0. subst k0. rewrite Dk. cbn [negb andb orb].
        destruct (existsb (str_eqb k) t); [reflexivity|symmetry; exact G].
      * cbn [orb]. reflexivity.
Qed.

(* what the context is, given the three intermediate results *)
Lemma build_context_unfold : forall d keys get body,
  build_context d keys get body =
  match collect_unknown d keys get [] [] with
  | RErr e => RErr e
  | ROk (rest_map, unknown) =>
      match unknown with
      | _ :: _ => RErr ErrOther
      | [] =>
          match bind_params (def_params d) get [] with
          | RErr e => RErr e
          | ROk c =>
              ROk (let c1 := match def_rest d with Some r => ctx_insert r (VMap rest_map) c | None => c end in
                   match body with Some b => ctx_insert body_name b c1 | None => c1 end)
          end
      end
  end.
Proof. reflexivity. Qed.

Lemma filter_undeclared_nil : forall d keys,
  filter (fun k => negb (declared d k)) keys = [] <-> (forall k, In k keys -> is_param d k).
Proof.
  intros d. induction keys as [|k t IH]; cbn [filter].
  - split; [intros _ k []|reflexivity].
  - destruct (declared d k) eqn:Dk; cbn [negb].
    + rewrite IH. split.
      * intros H k0 [E|Hin]; [subst; apply declared_iff; exact Dk|apply H; exact Hin].
      * intros H k0 Hin. apply H. right. exact Hin.
    + split; [discriminate|]. intros H. exfalso.
      apply declared_false_iff in Dk. apply Dk. apply H. left. reflexivity.
Qed.

Lemma rev_app_nil : forall (A : Type) (l : list A), rev l ++ [] = [] <-> l = [].
Proof.
  intros A l. rewrite app_nil_r. split; intros H.
  - destruct l as [|x l]; [reflexivity|]. cbn in H. destruct (rev l); discriminate.
  - subst. reflexivity.
Qed.

Lemma param_fine_spec : forall s p,
  param_fine (ctx_get s) p <->
  ((p_default p = None -> In (p_name p) (map fst s)) /\
   (forall v t, lookup s (p_name p) = Some v -> spec_type p = Some t -> doc_matches t v = true)).
Proof.
  intros s p. unfold param_fine. rewrite ctx_get_lookup.
  destruct (lookup s (p_name p)) as [v|] eqn:L.
  - rewrite arg_type_matches_spec. split.
    + intros H. split.
      * intros _. rewrite <- ctx_get_lookup in L. apply ctx_get_some_in in L. exact L.
      * intros v' t E. inversion E; subst. apply H.
    + intros [_ H] t E. apply (H v t eq_refl E).
  - split.
    + intros H. split; [intros D; contradiction|intros v t E; discriminate].
    + intros [H _] D. specialize (H D). apply (ctx_get_in_some s) in H.
      rewrite ctx_get_lookup in H. contradiction.
Qed.

(* ---- acceptance: build_context succeeds exactly on the calls the specification accepts *)
Lemma build_context_accepts : forall d s body,
  (exists c, build_context_of d s body = ROk c) <-> accepts d s.
Proof.
  intros d s body. unfold build_context_of. rewrite build_context_unfold. unfold accepts.
  assert (Hget : forall k, In k (ctx_keys s) -> ctx_get s k <> None) by (intros k; apply ctx_get_in_some).
  assert (Hall : (forall p, In p (def_params d) -> param_fine (ctx_get s) p) <->
                 ((forall p, In p (def_params d) -> p_default p = None -> In (p_name p) (map fst s)) /\
                  (forall p v t, In p (def_params d) -> lookup s (p_name p) = Some v ->
                                 spec_type p = Some t -> doc_matches t v = true))).
  { split.
    - intros H. split.
      + intros p Hp. apply (proj1 (param_fine_spec s p) (H p Hp)).
      + intros p v t Hp. apply (proj1 (param_fine_spec s p) (H p Hp)).
    - intros [H1 H2] p Hp. apply param_fine_spec. split; [apply H1; exact Hp|intros v t; apply H2; exact Hp]. }
  destruct (def_rest d) as [r|] eqn:Hr.
  - destruct (collect_rest d r (ctx_keys s) (ctx_get s) [] [] Hr Hget) as [rm [E _]];
      [intros kv []|constructor|]. rewrite E.
    split.
    + intros [c H]. split; [right; discriminate|]. apply Hall.
      intros p Hp. destruct (bind_params (def_params d) (ctx_get s) []) as [c'|e] eqn:B; [|discriminate].
      eapply bind_params_ok_fine; eassumption.
    + intros [_ H]. assert (H' := proj2 Hall H). clear H. rename H' into H.
      destruct (bind_params_complete (def_params d) (ctx_get s) [] H) as [c B]. rewrite B.
      eexists. reflexivity.
  - rewrite (collect_norest d (ctx_keys s) (ctx_get s) [] [] Hr).
    destruct (rev (filter (fun k => negb (declared d k)) (ctx_keys s)) ++ []) as [|u0 us] eqn:U.
    + apply (proj1 (rev_app_nil _ _)) in U. assert (U' := proj1 (filter_undeclared_nil _ _) U). clear U. rename U' into U.
      split.
      * intros [c H]. split; [left; exact U|]. apply Hall.
        intros p Hp. destruct (bind_params (def_params d) (ctx_get s) []) as [c'|e] eqn:B; [|discriminate].
        eapply bind_params_ok_fine; eassumption.
      * intros [_ H]. assert (H' := proj2 Hall H). clear H. rename H' into H.
        destruct (bind_params_complete (def_params d) (ctx_get s) [] H) as [c B]. rewrite B.
        eexists. reflexivity.
    + split.
      * intros [c H]. discriminate.
      * intros [[H|H] _]; [|congruence]. exfalso.
        assert (H' := proj2 (filter_undeclared_nil _ _) H). unfold ctx_keys in U. rewrite H' in U. discriminate.
Qed.

(* a rejected call is a String error, never the unreachable!() *)
Lemma build_context_of_err : forall d s body e, build_context_of d s body = RErr e -> e = ErrOther.
Proof.
  intros d s body e. unfold build_context_of. rewrite build_context_unfold.
  assert (Hget : forall k, In k (ctx_keys s) -> ctx_get s k <> None) by (intros k; apply ctx_get_in_some).
  destruct (def_rest d) as [r|] eqn:Hr.
  - destruct (collect_rest d r (ctx_keys s) (ctx_get s) [] [] Hr Hget) as [rm [E _]];
      [intros kv []|constructor|]. rewrite E.
    destruct (bind_params (def_params d) (ctx_get s) []) eqn:B; [discriminate|].
    intros H. inversion H; subst. eapply bind_params_err. exact B.
  - rewrite (collect_norest d (ctx_keys s) (ctx_get s) [] [] Hr).
    destruct (rev (filter (fun k => negb (declared d k)) (ctx_keys s)) ++ []); [|intros H; inversion H; reflexivity].
    destruct (bind_params (def_params d) (ctx_get s) []) eqn:B; [discriminate|].
    intros H. inversion H; subst. eapply bind_params_err. exact B.
Qed.

(* ---- binding: what the built context contains *)

Definition finish_ctx (d : comp_def) (rm : kmap) (body : option value) (c0 : ctx) : ctx :=
  let c1 := match def_rest d with Some r => ctx_insert r (VMap rm) c0 | None => c0 end in
  match body with Some b => ctx_insert body_name b c1 | None => c1 end.

Lemma build_context_shape : forall d s body c,
  build_context_of d s body = ROk c ->
  exists rm c0,
    bind_params (def_params d) (ctx_get s) [] = ROk c0 /\ c = finish_ctx d rm body c0 /\
    (forall r, def_rest d = Some r ->
       kmap_all_str rm /\ NoDup (kmap_names rm) /\
       forall k, kmap_get rm (KStr k false) =
                 if negb (declared d k) && existsb (str_eqb k) (ctx_keys s) then ctx_get s k else None).
Proof.
  intros d s body c. unfold build_context_of. rewrite build_context_unfold.
  assert (Hget : forall k, In k (ctx_keys s) -> ctx_get s k <> None) by (intros k; apply ctx_get_in_some).
  destruct (def_rest d) as [r|] eqn:Hr.
  - destruct (collect_rest d r (ctx_keys s) (ctx_get s) [] [] Hr Hget) as [rm [E [Hs [Hd Hf]]]];
      [intros kv []|constructor|]. rewrite E.
    destruct (bind_params (def_params d) (ctx_get s) []) as [c0|] eqn:B; [|discriminate].
    intros H. inversion H; subst. exists rm, c0. split; [reflexivity|].
    split; [unfold finish_ctx; rewrite Hr; reflexivity|].
    intros r' _. split; [exact Hs|]. split; [exact Hd|]. exact Hf.
  - rewrite (collect_norest d (ctx_keys s) (ctx_get s) [] [] Hr).
    destruct (rev (filter (fun k => negb (declared d k)) (ctx_keys s)) ++ []); [|discriminate].
    destruct (bind_params (def_params d) (ctx_get s) []) as [c0|] eqn:B; [|discriminate].
    intros H. inversion H; subst. exists [], c0. split; [reflexivity|].
    split; [unfold finish_ctx; rewrite Hr; reflexivity|]. intros r' E. discriminate.
Qed.

Lemma bound_is_bound_value : forall s p, bound (ctx_get s) p = bound_value s p.
Proof. intros. unfold bound, bound_value. rewrite ctx_get_lookup. reflexivity. Qed.

Lemma build_context_binds : forall d s body c,
  wf_def d -> build_context_of d s body = ROk c ->
  (forall p, In p (def_params d) -> ctx_get c (p_name p) = bound_value s p) /\
  (forall r, def_rest d = Some r -> exists m, ctx_get c r = Some (VMap m) /\ is_rest_map d s m) /\
  ctx_get c body_name = body /\
  (forall n, ctx_get c n <> None <-> visible d body n) /\
  NoDup (ctx_keys c).
Proof.
  intros d s body c [Hnd [Hnb [Hrb Hrp]]] H.
  destruct (build_context_shape _ _ _ _ H) as [rm [c0 [B [Ec Hrm]]]].
  destruct (bind_params_ok _ _ _ _ B Hnd) as [P1 [P2 P3]].
  assert (Hc0 : NoDup (ctx_keys c0)) by (apply P3; constructor).
  (* lookups in the finished context *)
  assert (G : forall n, ctx_get c n =
                match body with
                | Some b => if str_eqb body_name n then Some b else
                              match def_rest d with
                              | Some r => if str_eqb r n then Some (VMap rm) else ctx_get c0 n
                              | None => ctx_get c0 n
                              end
                | None => match def_rest d with
                          | Some r => if str_eqb r n then Some (VMap rm) else ctx_get c0 n
                          | None => ctx_get c0 n
                          end
                end).
  { intros n. subst c. unfold finish_ctx. destruct body as [b|].
    - rewrite ctx_get_insert. destruct (str_eqb body_name n); [reflexivity|].
      destruct (def_rest d); [apply ctx_get_insert|reflexivity].
    - destruct (def_rest d); [apply ctx_get_insert|reflexivity]. }
  assert (Hparam : forall p, In p (def_params d) -> ctx_get c (p_name p) = bound_value s p).
  { intros p Hp. rewrite G.
    assert (Np : is_param d (p_name p)) by (apply in_map; exact Hp).
    assert (E1 : str_eqb body_name (p_name p) = false).
    { apply str_eqb_neq. intros E. apply Hnb. rewrite E. exact Np. }
    assert (E2 : forall r, def_rest d = Some r -> str_eqb r (p_name p) = false).
    { intros r Hr. apply str_eqb_neq. intros E. apply (Hrp r Hr). rewrite E. exact Np. }
    rewrite <- bound_is_bound_value. destruct (P1 p Hp) as [Q _].
    assert (R : match def_rest d with
                | Some r => if str_eqb r (p_name p) then Some (VMap rm) else ctx_get c0 (p_name p)
                | None => ctx_get c0 (p_name p)
                end = bound (ctx_get s) p).
    { destruct (def_rest d) as [r|] eqn:Hr; [rewrite (E2 r eq_refl)|]; exact Q. }
    destruct body; [rewrite E1|]; exact R. }
  assert (Hnotparam : forall n, ~ is_param d n -> ctx_get c0 n = None).
  { intros n Hn. rewrite (P2 n Hn). reflexivity. }
  assert (Hbody : ctx_get c body_name = body).
  { rewrite G. destruct body as [b|]; [rewrite str_eqb_refl; reflexivity|].
    destruct (def_rest d) as [r|] eqn:Hr; [|apply Hnotparam; exact Hnb].
    destruct (str_eqb r body_name) eqn:E; [apply str_eqb_eq in E; subst; congruence|].
    apply Hnotparam. exact Hnb. }
  assert (Hrest : forall r, def_rest d = Some r -> ctx_get c r = Some (VMap rm)).
  { intros r Hr. rewrite G. rewrite Hr. rewrite str_eqb_refl.
    destruct body as [b|]; [|reflexivity].
    destruct (str_eqb body_name r) eqn:E; [|reflexivity].
    apply str_eqb_eq in E. subst r. congruence. }
  split; [exact Hparam|]. split; [|split; [exact Hbody|split]].
  - intros r Hr. exists rm. split; [apply Hrest; exact Hr|].
    destruct (Hrm r Hr) as [Hs [Hd Hf]]. split; [exact Hs|]. split; [exact Hd|].
    intros k v. rewrite <- (kmap_get_in rm k v Hs Hd). rewrite Hf. change (lookup s k) with (ctx_get s k).
    destruct (declared d k) eqn:Dk; cbn [negb andb].
    + split; [discriminate|]. intros [_ Hn]. apply declared_iff in Dk. contradiction.
    + apply declared_false_iff in Dk.
      destruct (existsb (str_eqb k) (ctx_keys s)) eqn:Ex.
      * split; [intros E; split; [exact E|exact Dk]|intros [E _]; exact E].
      * split; [discriminate|]. intros [E _]. apply ctx_get_some_in in E.
        apply existsb_str_in in E. congruence.
  - intros n. unfold visible. split.
    + intros Hn. destruct (str_eq_dec n body_name) as [Eb|Eb].
      * right. right. split; [exact Eb|]. subst n. rewrite Hbody in Hn. exact Hn.
      * destruct (in_dec str_eq_dec n (map p_name (def_params d))) as [Hp|Hp]; [left; exact Hp|].
        right. left. rewrite G in Hn.
        assert (E1 : str_eqb body_name n = false) by (apply str_eqb_neq; congruence).
        destruct (def_rest d) as [r|] eqn:Hr.
        -- destruct (str_eqb r n) eqn:E; [apply str_eqb_eq in E; subst; reflexivity|].
           exfalso. destruct body; rewrite ?E1 in Hn; rewrite (Hnotparam n Hp) in Hn; congruence.
        -- exfalso. destruct body; rewrite ?E1 in Hn; rewrite (Hnotparam n Hp) in Hn; congruence.
    + intros [Hp|[Hr|[Eb Hb]]].
      * unfold is_param in Hp. apply in_map_iff in Hp. destruct Hp as [p [E Hp]]. subst n.
        rewrite (Hparam p Hp). rewrite <- bound_is_bound_value. apply (P1 p Hp).
      * rewrite (Hrest n Hr). discriminate.
      * subst n. rewrite Hbody. exact Hb.
  - subst c. unfold finish_ctx.
    assert (Hc1 : NoDup (ctx_keys (match def_rest d with Some r => ctx_insert r (VMap rm) c0 | None => c0 end))).
    { destruct (def_rest d); [apply ctx_insert_nodup|]; exact Hc0. }
    destruct body; [apply ctx_insert_nodup|]; exact Hc1.
Qed.

(* ------------------------------------------------------------------ the callee's state *)

Definition ctx_value (c : ctx) (n : str) : value :=
  match ctx_get c n with Some v => v | None => VUndef end.

(* State::new_with_chunk(&context, chunk): a name resolves to what the context holds, nothing else *)
Lemma get_value_state_new : forall c n, get_value (state_new c) n = ctx_value c n.
Proof.
  intros c n. unfold state_new, ctx_value. cbn. destruct (ctx_get c n); reflexivity.
Qed.

(* a template included from the component body sees the component's context and nothing more *)
Lemma get_value_include_of_new : forall c n, get_value (state_include (state_new c)) n = ctx_value c n.
Proof.
  intros c n. unfold state_include, state_new, ctx_value. cbn.
  destruct (ctx_get c n) as [v|]; [|reflexivity].
  destruct (is_undefined v) eqn:U; cbn; [|reflexivity].
  destruct v; try discriminate. reflexivity.
Qed.

Lemma ctx_extend_get : forall over base n,
  NoDup (ctx_keys over) ->
  ctx_get (ctx_extend base over) n = match ctx_get over n with Some v => Some v | None => ctx_get base n end.
Proof.
  unfold ctx_extend. induction over as [|[k v] over IH]; intros base n Hd; cbn [fold_left ctx_get fst snd].
  - reflexivity.
  - cbn [ctx_keys map fst] in Hd. inversion Hd as [|? ? Hn Hd']; subst.
    rewrite (IH _ _ Hd'). rewrite ctx_get_insert.
    destruct (str_eqb k n) eqn:E.
    + apply str_eqb_eq in E. subst k.
      destruct (ctx_get over n) eqn:G; [|reflexivity].
      exfalso. apply Hn. eapply ctx_get_some_in. exact G.
    + reflexivity.
Qed.

(* `{{ __tera_context }}` inside a component shows exactly the built context *)
Lemma dump_context_state_new : forall c n,
  NoDup (ctx_keys c) -> ctx_get (dump_context (state_new c)) n = ctx_get c n.
Proof.
  intros c n Hd. unfold state_new, dump_context. cbn [fold_left].
  change (ctx_extend (ctx_extend [] c) []) with (ctx_extend [] c).
  rewrite (ctx_extend_get c [] n Hd). destruct (ctx_get c n); reflexivity.
Qed.

(* a component body (and a template it includes) sees a defined value only under a parameter
   name, the rest name or `body` *)
Lemma callee_sees_only_visible : forall d s body c,
  wf_def d -> build_context_of d s body = ROk c ->
  forall n, (get_value (state_new c) n <> VUndef \/ get_value (state_include (state_new c)) n <> VUndef) ->
            visible d body n.
Proof.
  intros d s body c W H n Hn.
  destruct (build_context_binds d s body c W H) as [_ [_ [_ [Hv _]]]].
  apply Hv. rewrite get_value_state_new, get_value_include_of_new in Hn. unfold ctx_value in Hn.
  destruct (ctx_get c n); [discriminate|]. destruct Hn as [Hn|Hn]; contradiction.
Qed.

(* ------------------------------------------------------------------ component table by priority *)

Section Prio.
Context {A : Type}.
Notation entry := (str * nat * A)%type.

Lemma ct_get_remove_same : forall n (t : ctable A), ct_get (ct_remove n t) n = None.
Proof.
  intros n. induction t as [|[n' x] t IH]; cbn; [reflexivity|].
  destruct (str_eqb n' n) eqn:E; [exact IH|]. cbn. rewrite E. exact IH.
Qed.

Lemma ct_get_remove_other : forall n n' (t : ctable A), n <> n' -> ct_get (ct_remove n t) n' = ct_get t n'.
Proof.
  intros n n' t Hne. induction t as [|[n0 x] t IH]; cbn; [reflexivity|].
  destruct (str_eqb n0 n) eqn:E.
  - apply str_eqb_eq in E. subst n0.
    destruct (str_eqb n n') eqn:E2; [apply str_eqb_eq in E2; contradiction|]. exact IH.
  - cbn. destruct (str_eqb n0 n'); [reflexivity|exact IH].
Qed.

Lemma ct_get_insert_same : forall n x (t : ctable A), ct_get (ct_insert n x t) n = Some x.
Proof. intros. unfold ct_insert. cbn. rewrite str_eqb_refl. reflexivity. Qed.

Lemma ct_get_insert_other : forall n x (t : ctable A) n', n <> n' -> ct_get (ct_insert n x t) n' = ct_get t n'.
Proof.
  intros n x t n' Hne. unfold ct_insert. cbn.
  destruct (str_eqb n n') eqn:E; [apply str_eqb_eq in E; contradiction|].
  apply ct_get_remove_other. exact Hne.
Qed.

Definition count_np (n : str) (p : nat) (l : list entry) : nat :=
  length (filter (fun e : entry => str_eqb (fst (fst e)) n && Nat.eqb (snd (fst e)) p) l).

Lemma count_np_cons : forall n p n0 p0 a0 (l : list entry),
  count_np n p ((n0, p0, a0) :: l) = ((if str_eqb n0 n && Nat.eqb p0 p then 1 else 0) + count_np n p l)%nat.
Proof.
  intros. unfold count_np. cbn [filter fst snd]. destruct (str_eqb n0 n && Nat.eqb p0 p); reflexivity.
Qed.

Lemma count_np_app : forall n p (l1 l2 : list entry),
  count_np n p (l1 ++ l2) = (count_np n p l1 + count_np n p l2)%nat.
Proof. intros. unfold count_np. rewrite filter_app, app_length. reflexivity. Qed.

Lemma count_np_zero : forall n p (l : list entry), (forall a, ~ In (n, p, a) l) -> count_np n p l = 0%nat.
Proof.
  intros n p. induction l as [|[[n0 p0] a0] l IH]; intros H; [reflexivity|].
  rewrite count_np_cons. destruct (str_eqb n0 n && Nat.eqb p0 p) eqn:E.
  - apply andb_true_iff in E. destruct E as [E1 E2]. apply str_eqb_eq in E1. apply Nat.eqb_eq in E2.
    subst. exfalso. apply (H a0). left. reflexivity.
  - cbn. apply IH. intros a Hin. apply (H a). right. exact Hin.
Qed.

Lemma count_np_in : forall n p a (l : list entry), In (n, p, a) l -> (1 <= count_np n p l)%nat.
Proof.
  intros n p a. induction l as [|[[n0 p0] a0] l IH]; intros H; [contradiction|].
  rewrite count_np_cons. destruct H as [H|H].
  - inversion H; subst. rewrite str_eqb_refl, Nat.eqb_refl. cbn. lia.
  - specialize (IH H). lia.
Qed.

Lemma count_np_perm : forall n p (l l' : list entry), Permutation l l' -> count_np n p l = count_np n p l'.
Proof.
  intros n p l l' H. induction H as [|[[n0 p0] a0] l l' H IH|[[n0 p0] a0] [[n1 p1] a1] l|l l' l'' H1 IH1 H2 IH2].
  - reflexivity.
  - rewrite !count_np_cons, IH. reflexivity.
  - rewrite !count_np_cons. lia.
  - congruence.
Qed.

Lemma count_one_unique : forall n p a a' (l : list entry),
  count_np n p l = 1%nat -> In (n, p, a) l -> In (n, p, a') l -> a = a'.
Proof.
  intros n p a a' l Hc H1 H2. apply in_split in H1. destruct H1 as [l1 [l2 E]]. subst l.
  rewrite count_np_app, count_np_cons, str_eqb_refl, Nat.eqb_refl in Hc. cbn [andb] in Hc.
  apply in_app_or in H2. destruct H2 as [H2|[H2|H2]].
  - apply count_np_in in H2. lia.
  - inversion H2. reflexivity.
  - apply count_np_in in H2. lia.
Qed.

(* what the table says about the entries met so far *)
Definition tbl_inv (done : list entry) (t : ctable A) : Prop :=
  forall n, match ct_get t n with
            | None => forall p a, ~ In (n, p, a) done
            | Some (a, p) =>
                In (n, p, a) done /\ (forall p' a', In (n, p', a') done -> (p <= p')%nat) /\
                count_np n p done = 1%nat
            end.

Lemma tbl_inv_perm : forall d d' t, Permutation d d' -> tbl_inv d t -> tbl_inv d' t.
Proof.
  intros d d' t P H n. specialize (H n). destruct (ct_get t n) as [[a p]|].
  - destruct H as [H1 [H2 H3]]. split; [eapply Permutation_in; eassumption|]. split.
    + intros p' a' Hin. apply (H2 p' a'). eapply Permutation_in; [apply Permutation_sym; exact P|exact Hin].
    + rewrite <- (count_np_perm n p d d' P). exact H3.
  - intros p a Hin. apply (H p a). eapply Permutation_in; [apply Permutation_sym; exact P|exact Hin].
Qed.

Lemma select_step_inv : forall done t e t',
  tbl_inv done t -> select_step t e = ROk t' -> tbl_inv (e :: done) t'.
Proof.
  intros done t [[n0 p0] a0] t' Hinv Hs n. unfold select_step in Hs.
  destruct (str_eq_dec n0 n) as [En|En].
  - subst n0. specialize (Hinv n). destruct (ct_get t n) as [[a p]|] eqn:G.
    + destruct Hinv as [Hin [Hmin Hc]]. destruct (p0 <? p)%nat eqn:L1.
      * apply Nat.ltb_lt in L1. inversion Hs; subst t'. rewrite ct_get_insert_same.
        split; [left; reflexivity|]. split.
        -- intros p' a' [E|H']; [inversion E; lia|]. specialize (Hmin _ _ H'). lia.
        -- rewrite count_np_cons, str_eqb_refl, Nat.eqb_refl. cbn [andb].
           rewrite count_np_zero; [reflexivity|]. intros a' H'. specialize (Hmin _ _ H'). lia.
      * destruct (p <? p0)%nat eqn:L2; [|discriminate]. apply Nat.ltb_lt in L2.
        inversion Hs; subst t'. rewrite G. split; [right; exact Hin|]. split.
        -- intros p' a' [E|H']; [inversion E; lia|]. apply (Hmin _ _ H').
        -- rewrite count_np_cons, str_eqb_refl. cbn [andb].
           destruct (Nat.eqb p0 p) eqn:E; [apply Nat.eqb_eq in E; lia|]. exact Hc.
    + inversion Hs; subst t'. rewrite ct_get_insert_same. split; [left; reflexivity|]. split.
      * intros p' a' [E|H']; [inversion E; lia|]. exfalso. apply (Hinv _ _ H').
      * rewrite count_np_cons, str_eqb_refl, Nat.eqb_refl. cbn [andb].
        rewrite count_np_zero; [reflexivity|]. intros a' H'. apply (Hinv _ _ H').
  - assert (Eg : ct_get t' n = ct_get t n).
    { destruct (ct_get t n0) as [[a1 p1]|].
      - destruct (p0 <? p1)%nat.
        + inversion Hs; subst. apply ct_get_insert_other. exact En.
        + destruct (p1 <? p0)%nat; [inversion Hs; subst; reflexivity|discriminate].
      - inversion Hs; subst. apply ct_get_insert_other. exact En. }
    rewrite Eg. specialize (Hinv n). destruct (ct_get t n) as [[a p]|].
    + destruct Hinv as [Hin [Hmin Hc]]. split; [right; exact Hin|]. split.
      * intros p' a' [E|H']; [inversion E; subst; contradiction|]. apply (Hmin _ _ H').
      * rewrite count_np_cons. destruct (str_eqb n0 n) eqn:E; [apply str_eqb_eq in E; contradiction|].
        cbn [andb]. exact Hc.
    + intros p a [E|H']; [inversion E; subst; contradiction|]. apply (Hinv _ _ H').
Qed.

Lemma select_from_inv : forall l done t t',
  tbl_inv done t -> select_from l t = ROk t' -> tbl_inv (rev l ++ done) t'.
Proof.
  induction l as [|e l IH]; intros done t t' Hinv H; cbn [select_from] in H.
  - inversion H; subst. exact Hinv.
  - destruct (select_step t e) as [t1|] eqn:S; [|discriminate].
    cbn [rev]. rewrite <- app_assoc. cbn [app]. eapply IH; [|exact H].
    eapply select_step_inv; eassumption.
Qed.

Lemma select_components_inv : forall l t, select_components l = ROk t -> tbl_inv l t.
Proof.
  intros l t H. unfold select_components in H.
  assert (I0 : tbl_inv [] ([] : ctable A)) by (intros n p a; cbn; auto).
  assert (I := select_from_inv l [] ([] : ctable A) t I0 H). rewrite app_nil_r in I.
  eapply tbl_inv_perm; [|exact I]. apply Permutation_sym. apply Permutation_rev.
Qed.

Lemma select_from_err : forall l t e, @select_from A l t = RErr e -> e = ErrMsg.
Proof.
  induction l as [|[[n0 p0] a0] l IH]; intros t e H; cbn [select_from] in H; [discriminate|].
  destruct (select_step t (n0, p0, a0)) as [t1|e1] eqn:S; [eapply IH; exact H|].
  inversion H; subst. unfold select_step in S.
  destruct (ct_get t n0) as [[a1 p1]|]; [|discriminate].
  destruct (p0 <? p1)%nat; [discriminate|]. destruct (p1 <? p0)%nat; [discriminate|].
  inversion S. reflexivity.
Qed.

(* accepted: per name the kept definition is one that was offered, has minimal priority index,
   is the only one at that index; names never offered are absent *)
Lemma priority_selection_ok : forall (l : list entry) (t : ctable A),
  select_components l = ROk t ->
  forall n,
    match ct_get t n with
    | Some (a, p) =>
        In (n, p, a) l /\ (forall p' a', In (n, p', a') l -> (p <= p')%nat) /\
        (forall a', In (n, p, a') l -> a' = a) /\ count_np n p l = 1%nat
    | None => forall p a, ~ In (n, p, a) l
    end.
Proof.
  intros l t H n. assert (I := select_components_inv l t H n).
  destruct (ct_get t n) as [[a p]|]; [|exact I].
  destruct I as [H1 [H2 H3]]. split; [exact H1|]. split; [exact H2|]. split; [|exact H3].
  intros a' H'. eapply count_one_unique; eassumption.
Qed.

(* the table does not depend on the order in which the definitions are met *)
Lemma priority_order_independent : forall (l l' : list entry) (t t' : ctable A),
  Permutation l l' -> select_components l = ROk t -> select_components l' = ROk t' ->
  forall n, ct_get t n = ct_get t' n.
Proof.
  intros l l' t t' P H H' n.
  assert (I := select_components_inv l t H n).
  assert (I' := tbl_inv_perm l' l t' (Permutation_sym P) (select_components_inv l' t' H') n).
  destruct (ct_get t n) as [[a p]|]; destruct (ct_get t' n) as [[a' p']|].
  - destruct I as [H1 [H2 H3]]. destruct I' as [H1' [H2' H3']].
    assert (p = p') by (specialize (H2 _ _ H1'); specialize (H2' _ _ H1); lia). subst p'.
    rewrite (count_one_unique n p a a' l H3 H1 H1'). reflexivity.
  - destruct I as [H1 _]. exfalso. apply (I' _ _ H1).
  - destruct I' as [H1 _]. exfalso. apply (I _ _ H1).
  - reflexivity.
Qed.

(* two definitions of one name at its best priority: rejected, wherever they stand in the list *)
Lemma priority_duplicate_rejected : forall (l : list entry) n p a a' l1 l2 l3,
  l = l1 ++ (n, p, a) :: l2 ++ (n, p, a') :: l3 ->
  (forall p' x, In (n, p', x) l -> (p <= p')%nat) ->
  @select_components A l = RErr ErrMsg.
Proof.
  intros l n p a a' l1 l2 l3 E Hmin.
  destruct (select_components l) as [t|e] eqn:S.
  - exfalso. assert (I := select_components_inv l t S n).
    assert (Hin : In (n, p, a) l) by (subst l; apply in_or_app; right; left; reflexivity).
    destruct (ct_get t n) as [[a0 p0]|]; [|apply (I _ _ Hin)].
    destruct I as [H1 [H2 H3]].
    assert (p0 = p) by (specialize (Hmin _ _ H1); specialize (H2 _ _ Hin); lia). subst p0.
    subst l. rewrite count_np_app, count_np_cons, count_np_app, count_np_cons in H3.
    rewrite str_eqb_refl, Nat.eqb_refl in H3. cbn [andb] in H3. lia.
  - f_equal. eapply select_from_err. exact S.
Qed.

(* a call site, in whatever template it stands and whatever that template defines itself, runs
   the table's entry when the table has the name *)
Lemma lookup_component_table : forall (t : ctable A) local n a p,
  ct_get t n = Some (a, p) -> lookup_component t local n = ROk a.
Proof. intros t local n a p H. unfold lookup_component. rewrite H. reflexivity. Qed.

Lemma lookup_component_fallback : forall (t : ctable A) local n,
  ct_get t n = None ->
  lookup_component t local n = match local_get local n with Some a => ROk a | None => RErr ErrPanic end.
Proof. intros t local n H. unfold lookup_component. rewrite H. reflexivity. Qed.

(* ... hence the unique best-priority definition among those offered, independently of the
   calling template's own (possibly lower-priority) definition of the same name *)
Lemma call_site_runs_best_priority : forall (l : list entry) (t : ctable A) local n p0 a0,
  select_components l = ROk t -> In (n, p0, a0) l ->
  exists a p, lookup_component t local n = ROk a /\ In (n, p, a) l /\
              (forall p' a', In (n, p', a') l -> (p <= p')%nat) /\ (forall a', In (n, p, a') l -> a' = a).
Proof.
  intros l t local n p0 a0 H Hin. assert (I := priority_selection_ok l t H n).
  destruct (ct_get t n) as [[a p]|] eqn:G.
  - destruct I as [H1 [H2 [H3 _]]]. exists a, p. split; [eapply lookup_component_table; exact G|].
    split; [exact H1|]. split; [exact H2|exact H3].
  - exfalso. apply (I _ _ Hin).
Qed.

End Prio.

(* Whether a set with two equal-priority definitions SHADOWED by a better one is rejected depends
   on the visiting order (finalize_templates visits templates in sorted name order, so it
   depends on how the names sort): rejection is not a function of the set of definitions. *)
Lemma priority_rejection_depends_on_order :
  exists l l' : list (str * nat * nat),
    Permutation l l' /\ (exists t, select_components l = ROk t) /\ select_components l' = RErr ErrMsg.
Proof.
  exists [([88]%N, 0, 0); ([88]%N, 1, 1); ([88]%N, 1, 2)]%nat,
         [([88]%N, 1, 1); ([88]%N, 1, 2); ([88]%N, 0, 0)]%nat.
  split.
  - apply Permutation_trans with (l' := [([88]%N, 1, 1); ([88]%N, 0, 0); ([88]%N, 1, 2)]%nat).
    + apply perm_swap.
    + apply perm_skip. apply perm_swap.
  - split; [eexists; vm_compute; reflexivity|vm_compute; reflexivity].
Qed.

(* get_template_priority: 0 when no prefix matches, else 1 + the index of the first that does *)
Lemma priority_from_spec : forall prefixes name i0,
  match priority_from prefixes name i0 with
  | O => forall p, In p prefixes -> starts_with name p = false
  | S k => exists j p, k = (i0 + j)%nat /\ nth_error prefixes j = Some p /\ starts_with name p = true /\
                       forall j' p', (j' < j)%nat -> nth_error prefixes j' = Some p' -> starts_with name p' = false
  end.
Proof.
  induction prefixes as [|q t IH]; intros name i0; cbn [priority_from].
  - intros p [].
  - destruct (starts_with name q) eqn:E.
    + exists 0%nat, q. split; [lia|]. split; [reflexivity|]. split; [exact E|]. intros j' p' Hlt. lia.
    + specialize (IH name (S i0)). destruct (priority_from t name (S i0)) as [|k].
      * intros p [Hp|Hp]; [subst; exact E|apply IH; exact Hp].
      * destruct IH as [j [p [Ek [Hn [Hs Hb]]]]]. exists (S j), p. split; [lia|]. split; [exact Hn|].
        split; [exact Hs|]. intros [|j'] p' Hlt Hn'.
        -- cbn in Hn'. inversion Hn'; subst. exact E.
        -- cbn in Hn'. apply (Hb j' p'); [lia|exact Hn'].
Qed.

(* ------------------------------------------------------------------ recursion depth *)

Definition depth_of (st : list frame) : nat := match st with (_, d) :: _ => d | [] => 0%nat end.

Inductive wf_stack (api : bool) : list frame -> Prop :=
| wf_nil : wf_stack api []
| wf_root : wf_stack api (init_stack api)
| wf_comp : forall d st, wf_stack api st -> st <> [] -> depth_of st = d -> (S d <= max_depth)%nat ->
                         wf_stack api ((FComp, S d) :: st)
| wf_incl : forall d st, wf_stack api st -> st <> [] -> depth_of st = d -> wf_stack api ((FIncl, d) :: st).

Lemma wf_stack_tail : forall api f st, wf_stack api (f :: st) -> wf_stack api st.
Proof.
  intros api f st H. inversion H; subst; try assumption. constructor.
Qed.

Lemma step_wf : forall api st e st', wf_stack api st -> step st e = ROk st' -> wf_stack api st'.
Proof.
  intros api st e st' W H. destruct st as [|[k d] rest]; [discriminate|].
  destruct e; cbn [step] in H.
  - unfold enter_component in H. destruct (max_depth <? d + 1)%nat eqn:L; [discriminate|].
    inversion H; subst. apply Nat.ltb_ge in L. replace (d + 1)%nat with (S d) by lia.
    apply wf_comp; [exact W|discriminate|reflexivity|lia].
  - inversion H; subst. apply wf_incl; [exact W|discriminate|reflexivity].
  - inversion H; subst. eapply wf_stack_tail. exact W.
Qed.

Lemma run_wf : forall api evs st st', wf_stack api st -> run st evs = ROk st' -> wf_stack api st'.
Proof.
  induction evs as [|e evs IH]; intros st st' W H; cbn [run] in H.
  - inversion H; subst. exact W.
  - destruct (step st e) as [st1|] eqn:S; [|discriminate]. eapply IH; [|exact H]. eapply step_wf; eassumption.
Qed.

(* the counter of the running frame is the number of live called-component frames *)
Lemma wf_depth : forall api st, wf_stack api st ->
  depth_of st = live_calls st /\ (live_calls st <= max_depth)%nat /\
  live_components st = (live_calls st + (if api then (match st with [] => 0 | _ => 1 end) else 0))%nat.
Proof.
  intros api st W. induction W as [| |d st W IH Hne Hd Hle|d st W IH Hne Hd].
  - cbn. split; [reflexivity|]. split; [lia|]. destruct api; reflexivity.
  - unfold init_stack. destruct api; cbn; (split; [reflexivity|]; split; [lia|reflexivity]).
  - destruct IH as [I1 [I2 I3]]. unfold live_calls, live_components in *. cbn [filter is_called_frame is_component_frame fst length depth_of].
    split; [rewrite <- I1, Hd; reflexivity|]. split; [rewrite <- I1, Hd; exact Hle|].
    rewrite I3. destruct st; [contradiction|]. destruct api; lia.
  - destruct IH as [I1 [I2 I3]]. unfold live_calls, live_components in *. cbn [filter is_called_frame is_component_frame fst length depth_of].
    split; [rewrite <- I1; symmetry; exact Hd|]. split; [exact I2|].
    rewrite I3. destruct st; [contradiction|]. destruct api; lia.
Qed.

Lemma depth_bounded_run : forall api evs st,
  run (init_stack api) evs = ROk st ->
  (live_calls st <= max_depth)%nat /\
  (live_components st <= max_depth + (if api then 1 else 0))%nat /\
  depth_of st = live_calls st.
Proof.
  intros api evs st H.
  assert (W : wf_stack api st) by (eapply run_wf; [apply wf_root|exact H]).
  destruct (wf_depth api st W) as [I1 [I2 I3]]. split; [exact I2|]. split; [|exact I1].
  rewrite I3. destruct api; destruct st; lia.
Qed.

(* at the limit the next call is the error; below it the call goes through with the counter + 1 *)
Lemma call_at_limit : forall api evs st,
  run (init_stack api) evs = ROk st -> st <> [] ->
  step st ECall = if (live_calls st <? max_depth)%nat then ROk ((FComp, S (live_calls st)) :: st) else RErr ErrMsg.
Proof.
  intros api evs st H Hne. destruct (depth_bounded_run api evs st H) as [I1 [_ I3]].
  destruct st as [|[k d] rest]; [contradiction|]. cbn [depth_of] in I3.
  rewrite <- I3. clear I3 I1 H Hne. rename d into n.
  cbn [step]. unfold enter_component.
  destruct (n <? max_depth)%nat eqn:L.
  - apply Nat.ltb_lt in L. destruct (max_depth <? n + 1)%nat eqn:L2.
    + apply Nat.ltb_lt in L2. lia.
    + replace (n + 1)%nat with (S n) by lia. reflexivity.
  - apply Nat.ltb_ge in L. destruct (max_depth <? n + 1)%nat eqn:L2; [reflexivity|].
    apply Nat.ltb_ge in L2. lia.
Qed.

(* an include keeps the counter; a return gives back the caller's stack *)
Lemma include_keeps_depth : forall k d rest,
  step ((k, d) :: rest) EInclude = ROk ((FIncl, d) :: (k, d) :: rest).
Proof. reflexivity. Qed.

Lemma return_restores : forall f st, step (f :: st) EReturn = ROk st.
Proof. intros [k d] st. reflexivity. Qed.

Definition count_calls (evs : list event) : nat :=
  length (filter (fun e => match e with ECall => true | _ => false end) evs).
Definition no_return (evs : list event) : Prop := forall e, In e evs -> e <> EReturn.

(* nesting deeper than the limit — through calls and includes in any mixture — is an error *)
Lemma nesting_over_limit_fails : forall evs k d rest,
  no_return evs -> (max_depth < d + count_calls evs)%nat -> (d <= max_depth)%nat ->
  run ((k, d) :: rest) evs = RErr ErrMsg.
Proof.
  induction evs as [|e evs IH]; intros k d rest Hnr Hlt Hd.
  - unfold count_calls in Hlt. cbn [filter length] in Hlt. lia.
  - assert (Hnr' : no_return evs) by (intros x Hx; apply Hnr; right; exact Hx).
    destruct e.
    + cbn [run step]. unfold enter_component. destruct (max_depth <? d + 1)%nat eqn:L; [reflexivity|].
      apply Nat.ltb_ge in L. apply IH; [exact Hnr'| |lia].
      unfold count_calls in *. cbn [filter length] in Hlt. lia.
    + cbn [run step]. unfold enter_include. apply IH; [exact Hnr'| |exact Hd].
      unfold count_calls in *. cbn [filter] in Hlt. exact Hlt.
    + exfalso. apply (Hnr EReturn); [left; reflexivity|reflexivity].
Qed.

(* ------------------------------------------------------------------ API entry vs call site *)

Lemma collect_unknown_ext : forall d keys g1 g2 rm u,
  (forall k, g1 k = g2 k) -> collect_unknown d keys g1 rm u = collect_unknown d keys g2 rm u.
Proof.
  intros d. induction keys as [|k t IH]; intros g1 g2 rm u H; cbn [collect_unknown]; [reflexivity|].
  destruct (declared d k); [apply IH; exact H|].
  destruct (def_rest d); [|apply IH; exact H].
  rewrite (H k). destruct (g2 k); [apply IH; exact H|reflexivity].
Qed.

Lemma bind_params_ext : forall ps g1 g2 c,
  (forall k, g1 k = g2 k) -> bind_params ps g1 c = bind_params ps g2 c.
Proof.
  induction ps as [|p t IH]; intros g1 g2 c H; cbn [bind_params]; [reflexivity|].
  rewrite (H (p_name p)). destruct (g2 (p_name p)) as [v|].
  - destruct (arg_type_matches p v); [apply IH; exact H|reflexivity].
  - destruct (p_default p); [apply IH; exact H|reflexivity].
Qed.

Lemma build_context_ext : forall d keys g1 g2 body,
  (forall k, g1 k = g2 k) -> build_context d keys g1 body = build_context d keys g2 body.
Proof.
  intros. unfold build_context.
  rewrite (collect_unknown_ext d keys g1 g2 [] [] H), (bind_params_ext (def_params d) g1 g2 [] H). reflexivity.
Qed.

(* the kwargs map a call site builds from plain name=value attributes *)
Definition kwargs_of (o : bool) (s : ctx) : kmap := map (fun kv => (KStr (fst kv) o, snd kv)) s.

Lemma str_keys_kwargs_of : forall o s, str_keys (kwargs_of o s) = ctx_keys s.
Proof. intros o. induction s as [|[k v] s IH]; cbn; [reflexivity|]. f_equal. exact IH. Qed.

Lemma kw_get_kwargs_of : forall o s k, kw_get (kwargs_of o s) k = ctx_get s k.
Proof.
  intros o. induction s as [|[k0 v] s IH]; intros k; cbn; [reflexivity|].
  destruct (str_eqb k0 k); [reflexivity|apply IH].
Qed.

Lemma api_equals_call_lemma : forall (A : Type) d (ch : A) supplied body depth ovr ae o,
  match api_component_call d ch supplied body ae,
        vm_component_call d ch (VMap (kwargs_of o supplied)) (option_map (fun s => VStr s false) body) depth ovr with
  | ROk fa, ROk fv =>
      fr_ctx fa = fr_ctx fv /\ fr_chunk fa = fr_chunk fv /\
      fr_depth fa = 0%nat /\ fr_depth fv = S depth /\ fr_override fa = Some ae /\ fr_override fv = ovr
  | ROk _, RErr e => e = ErrMsg /\ (max_depth < S depth)%nat     (* only the depth check separates them *)
  | RErr ea, RErr ev => ea = ErrMsg /\ ev = ErrRender            (* the arguments were rejected *)
  | RErr _, ROk _ => False
  end.
Proof.
  intros A d ch supplied body depth ovr ae o. unfold api_component_call, vm_component_call.
  rewrite str_keys_kwargs_of.
  rewrite (build_context_ext d (ctx_keys supplied) (kw_get (kwargs_of o supplied)) (ctx_get supplied) _
             (kw_get_kwargs_of o supplied)).
  replace (option_map mark_safe (option_map (fun s => VStr s false) body))
    with (option_map (fun s => VStr s true) body) by (destruct body; reflexivity).
  fold (build_context_of d supplied (option_map (fun s => VStr s true) body)).
  destruct (build_context_of d supplied (option_map (fun s => VStr s true) body)) as [c|e] eqn:B.
  - cbn [wrap_err]. unfold enter_component. destruct (max_depth <? depth + 1)%nat eqn:L.
    + split; [reflexivity|]. apply Nat.ltb_lt in L. lia.
    + cbn. replace (depth + 1)%nat with (S depth) by lia. repeat split; reflexivity.
  - apply build_context_of_err in B. subst e. cbn. split; reflexivity.
Qed.

(* ------------------------------------------------------------------ compiled call sites *)

From TeraV Require Import Model.Instr Corr.CorrC05.

Lemma back_to_endcapture_spec : forall rp,
  back_to_endcapture rp = true ->
  exists pre post, rp = pre ++ EndCapture :: post /\ forall i, In i pre -> is_output_instr i = false.
Proof.
  induction rp as [|i rp IH]; intros H; [discriminate|].
  destruct (instr_eqb i EndCapture) eqn:E.
  - assert (i = EndCapture) by (destruct i; try discriminate; reflexivity). subst i.
    exists [], rp. split; [reflexivity|intros i []].
  - assert (H' : is_output_instr i = false /\ back_to_endcapture rp = true).
    { destruct i; cbn in H; try discriminate; try (split; [reflexivity|exact H]). }
    destruct H' as [Ho Hb]. destruct (IH Hb) as [pre [post [Erp Hpre]]].
    exists (i :: pre), post. split; [cbn; rewrite Erp; reflexivity|].
    intros j [Hj|Hj]; [subst; exact Ho|apply Hpre; exact Hj].
Qed.

Lemma body_sites_ok_spec : forall rest rp,
  body_sites_ok rp rest = true ->
  forall l1 n l2, rest = l1 ++ RenderBodyComponent n :: l2 -> back_to_endcapture (rev l1 ++ rp) = true.
Proof.
  induction rest as [|i rest IH]; intros rp H l1 n l2 E.
  - destruct l1; discriminate.
  - destruct l1 as [|j l1].
    + cbn in E. inversion E; subst. cbn in H. apply andb_true_iff in H. apply H.
    + cbn in E. inversion E; subst. cbn [rev]. rewrite <- app_assoc. cbn [app].
      eapply IH; [|reflexivity].
      destruct j; cbn in H; try exact H. apply andb_true_iff in H. apply H.
Qed.

Lemma capture_before_endcapture : forall a b k,
  captures_balanced (a ++ EndCapture :: b) k = true -> k = 0%nat -> In Capture a.
Proof.
  induction a as [|i a IH]; intros b k H Hk; subst k.
  - cbn in H. discriminate.
  - destruct (instr_eqb i Capture) eqn:E.
    + left. destruct i; try discriminate; reflexivity.
    + right. destruct i; cbn in H; try discriminate; try (eapply IH; [exact H|reflexivity]).
Qed.

(* what the decidable check means: every call with a body is preceded, in the same chunk, by an
   EndCapture with only expression instructions in between (the attribute map), and a Capture
   opens before that EndCapture: the body is compiled inline in the caller's chunk *)
Lemma call_sites_ok_spec : forall c,
  call_sites_ok c = true ->
  forall l1 n l2, map fst c = l1 ++ RenderBodyComponent n :: l2 ->
  exists a b, l1 = a ++ EndCapture :: b /\ (forall i, In i b -> is_output_instr i = false) /\ In Capture a.
Proof.
  intros c H l1 n l2 E. unfold call_sites_ok in H. apply andb_true_iff in H. destruct H as [Hb Hs].
  assert (B := body_sites_ok_spec _ _ Hs l1 n l2 E). rewrite app_nil_r in B.
  destruct (back_to_endcapture_spec _ B) as [pre [post [Er Hpre]]].
  assert (El : l1 = rev post ++ EndCapture :: rev pre).
  { rewrite <- (rev_involutive l1), Er, rev_app_distr. cbn [rev]. rewrite <- app_assoc. reflexivity. }
  exists (rev post), (rev pre). split; [exact El|]. split.
  - intros i Hi. apply Hpre. apply in_rev. exact Hi.
  - rewrite E, El in Hb. rewrite <- app_assoc in Hb. cbn [app] in Hb.
    eapply capture_before_endcapture; [exact Hb|reflexivity].
Qed.

(* ------------------------------------------------------------------ the call-site path is build_context_of *)

(* the string-keyed entries of the popped kwargs map, as supplied arguments *)
Fixpoint str_entries (m : kmap) : ctx :=
  match m with
  | [] => []
  | (KStr s _, v) :: t => (s, v) :: str_entries t
  | _ :: t => str_entries t
  end.

Lemma str_keys_entries : forall m, str_keys m = ctx_keys (str_entries m).
Proof.
  induction m as [|[k v] m IH]; [reflexivity|]. destruct k; cbn; [exact IH|exact IH|f_equal; exact IH].
Qed.

Lemma kw_get_entries : forall m k, kw_get m k = ctx_get (str_entries m) k.
Proof.
  unfold kw_get. induction m as [|[k0 v] m IH]; intros k; [reflexivity|].
  destruct k0 as [b|r z|s o]; cbn; [apply IH|apply IH|].
  destruct (str_eqb s k); [reflexivity|apply IH].
Qed.

(* what a call site hands to build_context is build_context_of on the string-keyed entries:
   entries under non-string keys (possible through a spread) are dropped *)
Lemma vm_call_is_build_context_of : forall d m body,
  build_context d (str_keys m) (kw_get m) body = build_context_of d (str_entries m) body.
Proof.
  intros d m body. unfold build_context_of. rewrite str_keys_entries.
  apply build_context_ext. apply kw_get_entries.
Qed.
