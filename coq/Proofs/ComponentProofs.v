(* Lemmas for C05 (components). *)
From Coq Require Import Permutation.
From TeraV Require Import Model.Value Gen.Tables Gen.TypeTables Model.Component Spec.ComponentSpec.

(* ------------------------------------------------------------------ strings *)

Lemma str_eqb_refl : forall a, str_eqb a a = true.
Proof.
  unfold str_eqb. induction a as [|x a IH]; cbn [list_eqb]; [reflexivity|].
  rewrite N.eqb_refl, IH. reflexivity.
Qed.

Lemma str_eqb_eq : forall a b, str_eqb a b = true <-> a = b.
Proof.
  unfold str_eqb.
  induction a as [|x a IH]; intros [|y b]; cbn [list_eqb]; split; intros H;
    try reflexivity; try discriminate.
  - apply andb_true_iff in H. destruct H as [H1 H2]. apply N.eqb_eq in H1.
    apply IH in H2. subst. reflexivity.
  - inversion H; subst. rewrite N.eqb_refl. apply IH. reflexivity.
Qed.

Lemma str_eqb_neq : forall a b, str_eqb a b = false <-> a <> b.
Proof.
  intros a b. split; intros H.
  - intros E. apply str_eqb_eq in E. congruence.
  - destruct (str_eqb a b) eqn:E; [|reflexivity]. apply str_eqb_eq in E. contradiction.
Qed.

Lemma str_eqb_sym : forall a b, str_eqb a b = str_eqb b a.
Proof.
  intros a b. destruct (str_eqb a b) eqn:E.
  - apply str_eqb_eq in E. subst. symmetry. apply str_eqb_refl.
  - symmetry. apply str_eqb_neq. apply str_eqb_neq in E. congruence.
Qed.

Lemma str_eq_dec : forall a b : str, {a = b} + {a <> b}.
Proof.
  intros a b. destruct (str_eqb a b) eqn:E.
  - left. apply str_eqb_eq. exact E.
  - right. apply str_eqb_neq. exact E.
Qed.

(* ------------------------------------------------------------------ types *)

(* the generated arms agree with the documented meaning of the type names *)
Lemma type_matches_doc : forall t v, type_matches t v = doc_matches t v.
Proof.
  intros t v. destruct t; destruct v as [| |b|r z|f|s sf|l|m|bs]; try destruct r; reflexivity.
Qed.

Lemma type_from_value_doc : forall v, type_from_value v = doc_infer v.
Proof.
  intros v. destruct v as [| |b|r z|f|s sf|l|m|bs]; try destruct r; reflexivity.
Qed.

Lemma effective_type_spec : forall p, effective_type p = spec_type p.
Proof.
  intros p. unfold effective_type, spec_type.
  destruct (p_declared p); [reflexivity|].
  destruct (p_default p); [apply type_from_value_doc|reflexivity].
Qed.

(* an inferred type always admits the default it was inferred from *)
Lemma inferred_type_admits_default : forall v t, type_from_value v = Some t -> type_matches t v = true.
Proof.
  intros v t. destruct v as [| |b|r z|f|s sf|l|m|bs]; try destruct r; cbn; intros H;
    inversion H; subst; reflexivity.
Qed.

Lemma arg_type_matches_spec : forall p v,
  arg_type_matches p v = true <-> (forall t, spec_type p = Some t -> doc_matches t v = true).
Proof.
  intros p v. unfold arg_type_matches. rewrite effective_type_spec.
  destruct (spec_type p) as [t|].
  - rewrite type_matches_doc. split.
    + intros H t' E. inversion E; subst. exact H.
    + intros H. apply H. reflexivity.
  - split; [intros _ t E; discriminate|reflexivity].
Qed.

(* ------------------------------------------------------------------ Context as a finite map *)

Lemma ctx_get_lookup : forall c k, ctx_get c k = lookup c k.
Proof. induction c as [|[k' v] c IH]; intros k; cbn; [reflexivity|]. rewrite IH. reflexivity. Qed.

Lemma ctx_get_remove_same : forall k c, ctx_get (ctx_remove k c) k = None.
Proof.
  intros k. induction c as [|[k' v] c IH]; cbn; [reflexivity|].
  destruct (str_eqb k' k) eqn:E; [exact IH|]. cbn. rewrite E. exact IH.
Qed.

Lemma ctx_get_remove_other : forall k k' c, k <> k' -> ctx_get (ctx_remove k c) k' = ctx_get c k'.
Proof.
  intros k k' c Hne. induction c as [|[k0 v] c IH]; cbn; [reflexivity|].
  destruct (str_eqb k0 k) eqn:E.
  - apply str_eqb_eq in E. subst k0.
    destruct (str_eqb k k') eqn:E2; [apply str_eqb_eq in E2; contradiction|]. exact IH.
  - cbn. destruct (str_eqb k0 k'); [reflexivity|exact IH].
Qed.

Lemma ctx_get_insert_same : forall k v c, ctx_get (ctx_insert k v c) k = Some v.
Proof. intros. unfold ctx_insert. cbn. rewrite str_eqb_refl. reflexivity. Qed.

Lemma ctx_get_insert_other : forall k v c k', k <> k' -> ctx_get (ctx_insert k v c) k' = ctx_get c k'.
Proof.
  intros k v c k' Hne. unfold ctx_insert. cbn.
  destruct (str_eqb k k') eqn:E; [apply str_eqb_eq in E; contradiction|].
  apply ctx_get_remove_other. exact Hne.
Qed.

Lemma ctx_get_insert : forall k v c k',
  ctx_get (ctx_insert k v c) k' = if str_eqb k k' then Some v else ctx_get c k'.
Proof.
  intros. destruct (str_eqb k k') eqn:E.
  - apply str_eqb_eq in E. subst. apply ctx_get_insert_same.
  - apply ctx_get_insert_other. apply str_eqb_neq. exact E.
Qed.

Lemma ctx_get_some_in : forall c k v, ctx_get c k = Some v -> In k (ctx_keys c).
Proof.
  induction c as [|[k' v'] c IH]; cbn; intros k v H; [discriminate|].
  destruct (str_eqb k' k) eqn:E.
  - left. apply str_eqb_eq. exact E.
  - right. eapply IH. exact H.
Qed.

Lemma ctx_get_in_some : forall c k, In k (ctx_keys c) -> ctx_get c k <> None.
Proof.
  induction c as [|[k' v'] c IH]; cbn; intros k H; [contradiction|].
  destruct (str_eqb k' k) eqn:E; [discriminate|].
  destruct H as [H|H]; [subst; rewrite str_eqb_refl in E; discriminate|]. apply IH. exact H.
Qed.

Lemma ctx_remove_keys_subset : forall k c x, In x (ctx_keys (ctx_remove k c)) -> In x (ctx_keys c) /\ x <> k.
Proof.
  intros k. induction c as [|[k' v] c IH]; cbn; intros x H; [contradiction|].
  destruct (str_eqb k' k) eqn:E.
  - destruct (IH x H) as [H1 H2]. split; [right; exact H1|exact H2].
  - cbn in H. destruct H as [H|H].
    + subst. split; [left; reflexivity|]. apply str_eqb_neq. exact E.
    + destruct (IH x H) as [H1 H2]. split; [right; exact H1|exact H2].
Qed.

Lemma ctx_remove_nodup : forall k c, NoDup (ctx_keys c) -> NoDup (ctx_keys (ctx_remove k c)).
Proof.
  intros k. induction c as [|[k' v] c IH]; cbn; intros H; [constructor|].
  inversion H as [|? ? Hn Hd]; subst.
  destruct (str_eqb k' k); [apply IH; exact Hd|].
  cbn. constructor; [|apply IH; exact Hd].
  intros Hin. apply ctx_remove_keys_subset in Hin. destruct Hin as [Hin _]. contradiction.
Qed.

Lemma ctx_insert_nodup : forall k v c, NoDup (ctx_keys c) -> NoDup (ctx_keys (ctx_insert k v c)).
Proof.
  intros k v c H. unfold ctx_insert. cbn. constructor.
  - intros Hin. apply ctx_remove_keys_subset in Hin. destruct Hin as [_ Hne]. congruence.
  - apply ctx_remove_nodup. exact H.
Qed.

(* ------------------------------------------------------------------ value::Map keys *)

(* what Key equality looks at *)
Definition kn (k : key) : bool + (Z + str) :=
  match k with KBool b => inl b | KInt _ z => inr (inl z) | KStr s _ => inr (inr s) end.

Lemma key_eqb_kn : forall a b, key_eqb a b = true <-> kn a = kn b.
Proof.
  intros [x|r x|s o] [y|r' y|s' o']; cbn; split; intros H; try discriminate; try congruence.
  - apply eqb_prop in H. subst. reflexivity.
  - inversion H; subst. apply eqb_reflx.
  - apply Z.eqb_eq in H. subst. reflexivity.
  - inversion H; subst. apply Z.eqb_refl.
  - apply str_eqb_eq in H. subst. reflexivity.
  - inversion H; subst. apply str_eqb_refl.
Qed.

Lemma key_eqb_kn_false : forall a b, key_eqb a b = false <-> kn a <> kn b.
Proof.
  intros a b. split; intros H.
  - intros E. apply key_eqb_kn in E. congruence.
  - destruct (key_eqb a b) eqn:E; [|reflexivity]. apply key_eqb_kn in E. contradiction.
Qed.

Lemma kmap_get_kn : forall m a b, kn a = kn b -> kmap_get m a = kmap_get m b.
Proof.
  induction m as [|[k v] m IH]; intros a b H; cbn; [reflexivity|].
  destruct (key_eqb k a) eqn:E1; destruct (key_eqb k b) eqn:E2.
  - reflexivity.
  - apply key_eqb_kn in E1. apply key_eqb_kn_false in E2. congruence.
  - apply key_eqb_kn in E2. apply key_eqb_kn_false in E1. congruence.
  - apply IH. exact H.
Qed.

Lemma kmap_get_app : forall m1 m2 k,
  kmap_get (m1 ++ m2) k = match kmap_get m1 k with Some v => Some v | None => kmap_get m2 k end.
Proof.
  induction m1 as [|[k' v] m1 IH]; intros m2 k; cbn; [reflexivity|].
  destruct (key_eqb k' k); [reflexivity|apply IH].
Qed.

Lemma kmap_get_remove : forall k m k',
  kmap_get (kmap_remove k m) k' = if key_eqb k k' then None else kmap_get m k'.
Proof.
  intros k. induction m as [|[k0 v] m IH]; intros k'; cbn.
  - destruct (key_eqb k k'); reflexivity.
  - destruct (key_eqb k0 k) eqn:E0.
    + rewrite IH. destruct (key_eqb k k') eqn:E; [reflexivity|].
      destruct (key_eqb k0 k') eqn:E1; [|reflexivity].
      apply key_eqb_kn in E0. apply key_eqb_kn in E1. apply key_eqb_kn_false in E. congruence.
    + cbn. rewrite IH. destruct (key_eqb k k') eqn:E.
      * destruct (key_eqb k0 k') eqn:E1; [|reflexivity].
        apply key_eqb_kn in E. apply key_eqb_kn in E1. apply key_eqb_kn_false in E0. congruence.
      * reflexivity.
Qed.

Lemma kmap_get_insert : forall k v m k',
  kmap_get (kmap_insert k v m) k' = if key_eqb k k' then Some v else kmap_get m k'.
Proof.
  intros. unfold kmap_insert. rewrite kmap_get_app, kmap_get_remove. cbn.
  destruct (key_eqb k k'); [reflexivity|]. destruct (kmap_get m k'); reflexivity.
Qed.

Definition kmap_names (m : kmap) : list str := map (fun kv => key_name (fst kv)) m.
Definition kmap_all_str (m : kmap) : Prop := forall kv, In kv m -> key_is_str (fst kv).

Lemma kmap_remove_in : forall k m kv, In kv (kmap_remove k m) -> In kv m /\ key_eqb (fst kv) k = false.
Proof.
  intros k. induction m as [|[k0 v] m IH]; cbn; intros kv H; [contradiction|].
  destruct (key_eqb k0 k) eqn:E.
  - destruct (IH kv H). split; [right|]; assumption.
  - cbn in H. destruct H as [H|H].
    + subst. split; [left; reflexivity|exact E].
    + destruct (IH kv H). split; [right|]; assumption.
Qed.

Lemma kmap_remove_names_nodup : forall k m, NoDup (kmap_names m) -> NoDup (kmap_names (kmap_remove k m)).
Proof.
  intros k. induction m as [|[k0 v] m IH]; cbn; intros H; [constructor|].
  inversion H as [|? ? Hn Hd]; subst.
  destruct (key_eqb k0 k); [apply IH; exact Hd|].
  cbn. constructor; [|apply IH; exact Hd].
  intros Hin. apply Hn. unfold kmap_names in *. apply in_map_iff in Hin.
  destruct Hin as [kv [E Hin]]. apply kmap_remove_in in Hin. destruct Hin as [Hin _].
  apply in_map_iff. exists kv. split; assumption.
Qed.

Lemma kmap_insert_str_wf : forall s o v m,
  kmap_all_str m -> NoDup (kmap_names m) ->
  kmap_all_str (kmap_insert (KStr s o) v m) /\ NoDup (kmap_names (kmap_insert (KStr s o) v m)).
Proof.
  intros s o v m Hs Hd. unfold kmap_insert. split.
  - intros kv Hin. apply in_app_or in Hin. destruct Hin as [Hin|Hin].
    + apply kmap_remove_in in Hin. apply Hs. apply Hin.
    + destruct Hin as [Hin|[]]. subst. exact I.
  - unfold kmap_names. rewrite map_app. cbn.
    assert (Hr := kmap_remove_names_nodup (KStr s o) m Hd). unfold kmap_names in Hr.
    apply Permutation_NoDup with (l := s :: map (fun kv => key_name (fst kv)) (kmap_remove (KStr s o) m)).
    + apply Permutation_cons_append.
    + constructor; [|exact Hr].
      intros Hin. apply in_map_iff in Hin. destruct Hin as [[k0 v0] [E Hin]]. cbn in E.
      apply kmap_remove_in in Hin. destruct Hin as [Hin Hk]. cbn in Hk.
      specialize (Hs _ Hin). cbn in Hs. destruct k0 as [| |s0 o0]; try contradiction.
      cbn in E. subst s0. cbn in Hk. rewrite str_eqb_refl in Hk. discriminate.
Qed.

(* in a map with string keys and distinct names, lookup and membership coincide *)
Lemma kmap_get_in : forall m k v,
  kmap_all_str m -> NoDup (kmap_names m) ->
  (kmap_get m (KStr k false) = Some v <-> exists o, In (KStr k o, v) m).
Proof.
  induction m as [|[k0 v0] m IH]; intros k v Hs Hd; cbn.
  - split; [discriminate|intros [o []]].
  - assert (Hs' : kmap_all_str m) by (intros kv Hin; apply Hs; right; exact Hin).
    inversion Hd as [|? ? Hn Hd']; subst.
    assert (H0 := Hs (k0, v0) (or_introl eq_refl)). cbn in H0.
    destruct k0 as [| |s0 o0]; try contradiction. cbn in Hn. cbn [key_eqb].
    destruct (str_eqb s0 k) eqn:E.
    + apply str_eqb_eq in E. subst s0. split.
      * intros H. inversion H; subst. exists o0. left. reflexivity.
      * intros [o [H|H]]; [inversion H; subst; reflexivity|].
        exfalso. apply Hn. unfold kmap_names. apply in_map_iff. exists (KStr k o, v). split; [reflexivity|exact H].
    + rewrite (IH k v Hs' Hd'). split.
      * intros [o H]. exists o. right. exact H.
      * intros [o [H|H]]; [inversion H; subst; rewrite str_eqb_refl in E; discriminate|].
        exists o. exact H.
Qed.

(* ------------------------------------------------------------------ build_context *)

Lemma declared_iff : forall d k, declared d k = true <-> is_param d k.
Proof.
  unfold declared, is_param. intros d k. rewrite existsb_exists. split.
  - intros [p [Hin E]]. apply str_eqb_eq in E. subst. apply in_map. exact Hin.
  - intros H. apply in_map_iff in H. destruct H as [p [E Hin]]. exists p.
    split; [exact Hin|subst; apply str_eqb_refl].
Qed.

Lemma declared_false_iff : forall d k, declared d k = false <-> ~ is_param d k.
Proof.
  intros d k. split; intros H.
  - intros P. apply declared_iff in P. congruence.
  - destruct (declared d k) eqn:E; [|reflexivity]. apply declared_iff in E. contradiction.
Qed.

Lemma existsb_str_in : forall k l, existsb (str_eqb k) l = true <-> In k l.
Proof.
  intros k l. rewrite existsb_exists. split.
  - intros [x [Hin E]]. apply str_eqb_eq in E. subst. exact Hin.
  - intros H. exists k. split; [exact H|apply str_eqb_refl].
Qed.

Definition bound (get : str -> option value) (p : param) : option value :=
  match get (p_name p) with Some v => Some v | None => p_default p end.

Lemma bind_params_ok : forall ps get c0 c,
  bind_params ps get c0 = ROk c -> NoDup (map p_name ps) ->
  (forall p, In p ps -> ctx_get c (p_name p) = bound get p /\ bound get p <> None /\
                        (forall v, get (p_name p) = Some v -> arg_type_matches p v = true)) /\
  (forall n, ~ In n (map p_name ps) -> ctx_get c n = ctx_get c0 n) /\
  (NoDup (ctx_keys c0) -> NoDup (ctx_keys c)).
Proof.
  induction ps as [|p t IH]; intros get c0 c H Hnd.
  - cbn in H. inversion H; subst. split; [intros p []|]. split; [reflexivity|auto].
  - cbn [map] in Hnd. inversion Hnd as [|? ? Hnotin Hnd']; subst.
    cbn [bind_params] in H.
    destruct (get (p_name p)) as [v|] eqn:G.
    + destruct (arg_type_matches p v) eqn:T; [|discriminate].
      destruct (IH _ _ _ H Hnd') as [H1 [H2 H3]]. split; [|split].
      * intros q [Hq|Hq]; [|apply H1; exact Hq]. subst q. unfold bound. rewrite G.
        split; [|split].
        -- rewrite (H2 _ Hnotin). apply ctx_get_insert_same.
        -- discriminate.
        -- intros v' E. inversion E; subst. exact T.
      * intros n Hn. rewrite H2 by (intros X; apply Hn; right; exact X).
        apply ctx_get_insert_other. intros E. apply Hn. left. exact E.
      * intros Hd. apply H3. apply ctx_insert_nodup. exact Hd.
    + destruct (p_default p) as [dv|] eqn:D; [|discriminate].
      destruct (IH _ _ _ H Hnd') as [H1 [H2 H3]]. split; [|split].
      * intros q [Hq|Hq]; [|apply H1; exact Hq]. subst q. unfold bound. rewrite G, D.
        split; [|split].
        -- rewrite (H2 _ Hnotin). apply ctx_get_insert_same.
        -- discriminate.
        -- intros v' E. discriminate.
      * intros n Hn. rewrite H2 by (intros X; apply Hn; right; exact X).
        apply ctx_get_insert_other. intros E. apply Hn. left. exact E.
      * intros Hd. apply H3. apply ctx_insert_nodup. exact Hd.
Qed.

Definition param_fine (get : str -> option value) (p : param) : Prop :=
  match get (p_name p) with
  | Some v => arg_type_matches p v = true
  | None => p_default p <> None
  end.

Lemma bind_params_complete : forall ps get c0,
  (forall p, In p ps -> param_fine get p) -> exists c, bind_params ps get c0 = ROk c.
Proof.
  induction ps as [|p t IH]; intros get c0 H.
  - exists c0. reflexivity.
  - cbn [bind_params]. assert (Hp := H p (or_introl eq_refl)). unfold param_fine in Hp.
    destruct (get (p_name p)) as [v|].
    + rewrite Hp. apply IH. intros q Hq. apply H. right. exact Hq.
    + destruct (p_default p) as [dv|]; [|congruence]. apply IH. intros q Hq. apply H. right. exact Hq.
Qed.

Lemma bind_params_ok_fine : forall ps get c0 c,
  bind_params ps get c0 = ROk c -> forall p, In p ps -> param_fine get p.
Proof.
  induction ps as [|q t IH]; intros get c0 c B p Hp; [contradiction|].
  cbn [bind_params] in B. destruct Hp as [Hp|Hp].
  - subst q. unfold param_fine. destruct (get (p_name p)) as [v|].
    + destruct (arg_type_matches p v); [reflexivity|discriminate].
    + destruct (p_default p); [discriminate|discriminate].
  - destruct (get (p_name q)) as [v|].
    + destruct (arg_type_matches q v); [|discriminate]. eapply IH; eassumption.
    + destruct (p_default q); [|discriminate]. eapply IH; eassumption.
Qed.

Lemma bind_params_err : forall ps get c0 e, bind_params ps get c0 = RErr e -> e = ErrOther.
Proof.
  induction ps as [|p t IH]; intros get c0 e H; cbn [bind_params] in H; [discriminate|].
  destruct (get (p_name p)) as [v|].
  - destruct (arg_type_matches p v); [eapply IH; exact H|inversion H; reflexivity].
  - destruct (p_default p); [eapply IH; exact H|inversion H; reflexivity].
Qed.

Lemma collect_norest : forall d keys get rm u, def_rest d = None ->
  collect_unknown d keys get rm u = ROk (rm, rev (filter (fun k => negb (declared d k)) keys) ++ u).
Proof.
  intros d keys get rm u Hr. revert u. induction keys as [|k t IH]; intros u; cbn [collect_unknown filter].
  - reflexivity.
  - destruct (declared d k) eqn:Dk; cbn [negb].
    + apply IH.
    + rewrite Hr. rewrite IH. cbn [rev]. rewrite <- app_assoc. reflexivity.
Qed.

Lemma collect_rest : forall d r keys get rm u, def_rest d = Some r ->
  (forall k, In k keys -> get k <> None) ->
  kmap_all_str rm -> NoDup (kmap_names rm) ->
  exists rm', collect_unknown d keys get rm u = ROk (rm', u) /\ kmap_all_str rm' /\ NoDup (kmap_names rm') /\
    forall k, kmap_get rm' (KStr k false) =
              if negb (declared d k) && existsb (str_eqb k) keys then get k else kmap_get rm (KStr k false).
Proof.
  intros d r keys get rm u Hr. revert rm. induction keys as [|k t IH]; intros rm Hget Hs Hd.
  - exists rm. cbn. split; [reflexivity|]. split; [exact Hs|]. split; [exact Hd|].
    intros k. rewrite andb_false_r. reflexivity.
  - cbn [collect_unknown]. destruct (declared d k) eqn:Dk.
    + destruct (IH rm) as [rm' [E [Hs' [Hd' Hf]]]]; try assumption.
      { intros k0 Hk0. apply Hget. right. exact Hk0. }
      exists rm'. split; [exact E|]. split; [exact Hs'|]. split; [exact Hd'|].
      intros k0. rewrite Hf. cbn [existsb].
      destruct (str_eqb k0 k) eqn:E0; [|reflexivity].
      apply str_eqb_eq in E0. subst k0. rewrite Dk. reflexivity.
    + rewrite Hr. destruct (get k) as [v|] eqn:G.
      2:{ exfalso. apply (Hget k); [left; reflexivity|exact G]. }
      destruct (kmap_insert_str_wf k true v rm Hs Hd) as [Hs1 Hd1].
      destruct (IH (kmap_insert (KStr k true) v rm)) as [rm' [E [Hs' [Hd' Hf]]]]; try assumption.
      { intros k0 Hk0. apply Hget. right. exact Hk0. }
      exists rm'. split; [exact E|]. split; [exact Hs'|]. split; [exact Hd'|].
      intros k0. rewrite Hf. rewrite kmap_get_insert. cbn [existsb key_eqb].
      rewrite (str_eqb_sym k0 k).
      destruct (str_eqb k k0) eqn:E0.
      * apply str_eqb_eq in E0. subst k0. rewrite Dk. cbn [negb andb orb].
        destruct (existsb (str_eqb k) t); [reflexivity|symmetry; exact G].
      * cbn [orb]. reflexivity.
Qed.

(* what the context is, given the three intermediate results *)
Lemma build_context_unfold : forall d keys get body,
  build_context d keys get body =
  match collect_unknown d keys get [] [] with
  | RErr e => RErr e
  | ROk (rest_map, unknown) =>
      match unknown with
      | _ :: _ => RErr ErrOther
      | [] =>
          match bind_params (def_params d) get [] with
          | RErr e => RErr e
          | ROk c =>
              ROk (let c1 := match def_rest d with Some r => ctx_insert r (VMap rest_map) c | None => c end in
                   match body with Some b => ctx_insert body_name b c1 | None => c1 end)
          end
      end
  end.
Proof. reflexivity. Qed.

Lemma filter_undeclared_nil : forall d keys,
  filter (fun k => negb (declared d k)) keys = [] <-> (forall k, In k keys -> is_param d k).
Proof.
  intros d. induction keys as [|k t IH]; cbn [filter].
  - split; [intros _ k []|reflexivity].
  - destruct (declared d k) eqn:Dk; cbn [negb].
    + rewrite IH. split.
      * intros H k0 [E|Hin]; [subst; apply declared_iff; exact Dk|apply H; exact Hin].
      * intros H k0 Hin. apply H. right. exact Hin.
    + split; [discriminate|]. intros H. exfalso.
      apply declared_false_iff in Dk. apply Dk. apply H. left. reflexivity.
Qed.

Lemma rev_app_nil : forall (A : Type) (l : list A), rev l ++ [] = [] <-> l = [].
Proof.
  intros A l. rewrite app_nil_r. split; intros H.
  - destruct l as [|x l]; [reflexivity|]. cbn in H. destruct (rev l); discriminate.
  - subst. reflexivity.
Qed.

Lemma param_fine_spec : forall s p,
  param_fine (ctx_get s) p <->
  ((p_default p = None -> In (p_name p) (map fst s)) /\
   (forall v t, lookup s (p_name p) = Some v -> spec_type p = Some t -> doc_matches t v = true)).
Proof.
  intros s p. unfold param_fine. rewrite ctx_get_lookup.
  destruct (lookup s (p_name p)) as [v|] eqn:L.
  - rewrite arg_type_matches_spec. split.
    + intros H. split.
      * intros _. rewrite <- ctx_get_lookup in L. apply ctx_get_some_in in L. exact L.
      * intros v' t E. inversion E; subst. apply H.
    + intros [_ H] t E. apply (H v t eq_refl E).
  - split.
    + intros H. split; [intros D; contradiction|intros v t E; discriminate].
    + intros [H _] D. specialize (H D). apply (ctx_get_in_some s) in H.
      rewrite ctx_get_lookup in H. contradiction.
Qed.

(* ---- acceptance: build_context succeeds exactly on the calls the specification accepts *)
Lemma build_context_accepts : forall d s body,
  (exists c, build_context_of d s body = ROk c) <-> accepts d s.
Proof.
  intros d s body. unfold build_context_of. rewrite build_context_unfold. unfold accepts.
  assert (Hget : forall k, In k (ctx_keys s) -> ctx_get s k <> None) by (intros k; apply ctx_get_in_some).
  assert (Hall : (forall p, In p (def_params d) -> param_fine (ctx_get s) p) <->
                 ((forall p, In p (def_params d) -> p_default p = None -> In (p_name p) (map fst s)) /\
                  (forall p v t, In p (def_params d) -> lookup s (p_name p) = Some v ->
                                 spec_type p = Some t -> doc_matches t v = true))).
  { split.
    - intros H. split.
      + intros p Hp. apply (proj1 (param_fine_spec s p) (H p Hp)).
      + intros p v t Hp. apply (proj1 (param_fine_spec s p) (H p Hp)).
    - intros [H1 H2] p Hp. apply param_fine_spec. split; [apply H1; exact Hp|intros v t; apply H2; exact Hp]. }
  destruct (def_rest d) as [r|] eqn:Hr.
  - destruct (collect_rest d r (ctx_keys s) (ctx_get s) [] [] Hr Hget) as [rm [E _]];
      [intros kv []|constructor|]. rewrite E.
    split.
    + intros [c H]. split; [right; discriminate|]. apply Hall.
      intros p Hp. destruct (bind_params (def_params d) (ctx_get s) []) as [c'|e] eqn:B; [|discriminate].
      eapply bind_params_ok_fine; eassumption.
    + intros [_ H]. assert (H' := proj2 Hall H). clear H. rename H' into H.
      destruct (bind_params_complete (def_params d) (ctx_get s) [] H) as [c B]. rewrite B.
      eexists. reflexivity.
  - rewrite (collect_norest d (ctx_keys s) (ctx_get s) [] [] Hr).
    destruct (rev (filter (fun k => negb (declared d k)) (ctx_keys s)) ++ []) as [|u0 us] eqn:U.
    + apply (proj1 (rev_app_nil _ _)) in U. assert (U' := proj1 (filter_undeclared_nil _ _) U). clear U. rename U' into U.
      split.
      * intros [c H]. split; [left; exact U|]. apply Hall.
        intros p Hp. destruct (bind_params (def_params d) (ctx_get s) []) as [c'|e] eqn:B; [|discriminate].
        eapply bind_params_ok_fine; eassumption.
      * intros [_ H]. assert (H' := proj2 Hall H). clear H. rename H' into H.
        destruct (bind_params_complete (def_params d) (ctx_get s) [] H) as [c B]. rewrite B.
        eexists. reflexivity.
    + split.
      * intros [c H]. discriminate.
      * intros [[H|H] _]; [|congruence]. exfalso.
        assert (H' := proj2 (filter_undeclared_nil _ _) H). unfold ctx_keys in U. rewrite H' in U. discriminate.
Qed.

(* a rejected call is a String error, never the unreachable!() *)
Lemma build_context_of_err : forall d s body e, build_context_of d s body = RErr e -> e = ErrOther.
Proof.
  intros d s body e. unfold build_context_of. rewrite build_context_unfold.
  assert (Hget : forall k, In k (ctx_keys s) -> ctx_get s k <> None) by (intros k; apply ctx_get_in_some).
  destruct (def_rest d) as [r|] eqn:Hr.
  - destruct (collect_rest d r (ctx_keys s) (ctx_get s) [] [] Hr Hget) as [rm [E _]];
      [intros kv []|constructor|]. rewrite E.
    destruct (bind_params (def_params d) (ctx_get s) []) eqn:B; [discriminate|].
    intros H. inversion H; subst. eapply bind_params_err. exact B.
  - rewrite (collect_norest d (ctx_keys s) (ctx_get s) [] [] Hr).
    destruct (rev (filter (fun k => negb (declared d k)) (ctx_keys s)) ++ []); [|intros H; inversion H; reflexivity].
    destruct (bind_params (def_params d) (ctx_get s) []) eqn:B; [discriminate|].
    intros H. inversion H; subst. eapply bind_params_err. exact B.
Qed.

(* ---- binding: what the built context contains *)

Definition finish_ctx (d : comp_def) (rm : kmap) (body : option value) (c0 : ctx) : ctx :=
  let c1 := match def_rest d with Some r => ctx_insert r (VMap rm) c0 | None => c0 end in
  match body with Some b => ctx_insert body_name b c1 | None => c1 end.

Lemma build_context_shape : forall d s body c,
  build_context_of d s body = ROk c ->
  exists rm c0,
    bind_params (def_params d) (ctx_get s) [] = ROk c0 /\ c = finish_ctx d rm body c0 /\
    (forall r, def_rest d = Some r ->
       kmap_all_str rm /\ NoDup (kmap_names rm) /\
       forall k, kmap_get rm (KStr k false) =
                 if negb (declared d k) && existsb (str_eqb k) (ctx_keys s) then ctx_get s k else None).
Proof.
  intros d s body c. unfold build_context_of. rewrite build_context_unfold.
  assert (Hget : forall k, In k (ctx_keys s) -> ctx_get s k <> None) by (intros k; apply ctx_get_in_some).
  destruct (def_rest d) as [r|] eqn:Hr.
  - destruct (collect_rest d r (ctx_keys s) (ctx_get s) [] [] Hr Hget) as [rm [E [Hs [Hd Hf]]]];
      [intros kv []|constructor|]. rewrite E.
    destruct (bind_params (def_params d) (ctx_get s) []) as [c0|] eqn:B; [|discriminate].
    intros H. inversion H; subst. exists rm, c0. split; [reflexivity|].
    split; [unfold finish_ctx; rewrite Hr; reflexivity|].
    intros r' _. split; [exact Hs|]. split; [exact Hd|]. exact Hf.
  - rewrite (collect_norest d (ctx_keys s) (ctx_get s) [] [] Hr).
    destruct (rev (filter (fun k => negb (declared d k)) (ctx_keys s)) ++ []); [|discriminate].
    destruct (bind_params (def_params d) (ctx_get s) []) as [c0|] eqn:B; [|discriminate].
    intros H. inversion H; subst. exists [], c0. split; [reflexivity|].
    split; [unfold finish_ctx; rewrite Hr; reflexivity|]. intros r' E. discriminate.
Qed.

Lemma bound_is_bound_value : forall s p, bound (ctx_get s) p = bound_value s p.
Proof. intros. unfold bound, bound_value. rewrite ctx_get_lookup. reflexivity. Qed.

Lemma build_context_binds : forall d s body c,
  wf_def d -> build_context_of d s body = ROk c ->
  (forall p, In p (def_params d) -> ctx_get c (p_name p) = bound_value s p) /\
  (forall r, def_rest d = Some r -> exists m, ctx_get c r = Some (VMap m) /\ is_rest_map d s m) /\
  ctx_get c body_name = body /\
  (forall n, ctx_get c n <> None <-> visible d body n) /\
  NoDup (ctx_keys c).
Proof.
  intros d s body c [Hnd [Hnb [Hrb Hrp]]] H.
  destruct (build_context_shape _ _ _ _ H) as [rm [c0 [B [Ec Hrm]]]].
  destruct (bind_params_ok _ _ _ _ B Hnd) as [P1 [P2 P3]].
  assert (Hc0 : NoDup (ctx_keys c0)) by (apply P3; constructor).
  (* lookups in the finished context *)
  assert (G : forall n, ctx_get c n =
                match body with
                | Some b => if str_eqb body_name n then Some b else
                              match def_rest d with
                              | Some r => if str_eqb r n then Some (VMap rm) else ctx_get c0 n
                              | None => ctx_get c0 n
                              end
                | None => match def_rest d with
                          | Some r => if str_eqb r n then Some (VMap rm) else ctx_get c0 n
                          | None => ctx_get c0 n
                          end
                end).
  { intros n. subst c. unfold finish_ctx. destruct body as [b|].
    - rewrite ctx_get_insert. destruct (str_eqb body_name n); [reflexivity|].
      destruct (def_rest d); [apply ctx_get_insert|reflexivity].
    - destruct (def_rest d); [apply ctx_get_insert|reflexivity]. }
  assert (Hparam : forall p, In p (def_params d) -> ctx_get c (p_name p) = bound_value s p).
  { intros p Hp. rewrite G.
    assert (Np : is_param d (p_name p)) by (apply in_map; exact Hp).
    assert (E1 : str_eqb body_name (p_name p) = false).
    { apply str_eqb_neq. intros E. apply Hnb. rewrite E. exact Np. }
    assert (E2 : forall r, def_rest d = Some r -> str_eqb r (p_name p) = false).
    { intros r Hr. apply str_eqb_neq. intros E. apply (Hrp r Hr). rewrite E. exact Np. }
    rewrite <- bound_is_bound_value. destruct (P1 p Hp) as [Q _].
    assert (R : match def_rest d with
                | Some r => if str_eqb r (p_name p) then Some (VMap rm) else ctx_get c0 (p_name p)
                | None => ctx_get c0 (p_name p)
                end = bound (ctx_get s) p).
    { destruct (def_rest d) as [r|] eqn:Hr; [rewrite (E2 r eq_refl)|]; exact Q. }
    destruct body; [rewrite E1|]; exact R. }
  assert (Hnotparam : forall n, ~ is_param d n -> ctx_get c0 n = None).
  { intros n Hn. rewrite (P2 n Hn). reflexivity. }
  assert (Hbody : ctx_get c body_name = body).
  { rewrite G. destruct body as [b|]; [rewrite str_eqb_refl; reflexivity|].
    destruct (def_rest d) as [r|] eqn:Hr; [|apply Hnotparam; exact Hnb].
    destruct (str_eqb r body_name) eqn:E; [apply str_eqb_eq in E; subst; congruence|].
    apply Hnotparam. exact Hnb. }
  assert (Hrest : forall r, def_rest d = Some r -> ctx_get c r = Some (VMap rm)).
  { intros r Hr. rewrite G. rewrite Hr. rewrite str_eqb_refl.
    destruct body as [b|]; [|reflexivity].
    destruct (str_eqb body_name r) eqn:E; [|reflexivity].
    apply str_eqb_eq in E. subst r. congruence. }
  split; [exact Hparam|]. split; [|split; [exact Hbody|split]].
  - intros r Hr. exists rm. split; [apply Hrest; exact Hr|].
    destruct (Hrm r Hr) as [Hs [Hd Hf]]. split; [exact Hs|]. split; [exact Hd|].
    intros k v. rewrite <- (kmap_get_in rm k v Hs Hd). rewrite Hf. change (lookup s k) with (ctx_get s k).
    destruct (declared d k) eqn:Dk; cbn [negb andb].
    + split; [discriminate|]. intros [_ Hn]. apply declared_iff in Dk. contradiction.
    + apply declared_false_iff in Dk.
      destruct (existsb (str_eqb k) (ctx_keys s)) eqn:Ex.
      * split; [intros E; split; [exact E|exact Dk]|intros [E _]; exact E].
      * split; [discriminate|]. intros [E _]. apply ctx_get_some_in in E.
        apply existsb_str_in in E. congruence.
  - intros n. unfold visible. split.
    + intros Hn. destruct (str_eq_dec n body_name) as [Eb|Eb].
      * right. right. split; [exact Eb|]. subst n. rewrite Hbody in Hn. exact Hn.
      * destruct (in_dec str_eq_dec n (map p_name (def_params d))) as [Hp|Hp]; [left; exact Hp|].
        right. left. rewrite G in Hn.
        assert (E1 : str_eqb body_name n = false) by (apply str_eqb_neq; congruence).
        destruct (def_rest d) as [r|] eqn:Hr.
        -- destruct (str_eqb r n) eqn:E; [apply str_eqb_eq in E; subst; reflexivity|].
           exfalso. destruct body; rewrite ?E1 in Hn; rewrite (Hnotparam n Hp) in Hn; congruence.
        -- exfalso. destruct body; rewrite ?E1 in Hn; rewrite (Hnotparam n Hp) in Hn; congruence.
    + intros [Hp|[Hr|[Eb Hb]]].
      * unfold is_param in Hp. apply in_map_iff in Hp. destruct Hp as [p [E Hp]]. subst n.
        rewrite (Hparam p Hp). rewrite <- bound_is_bound_value. apply (P1 p Hp).
      * rewrite (Hrest n Hr). discriminate.
      * subst n. rewrite Hbody. exact Hb.
  - subst c. unfold finish_ctx.
    assert (Hc1 : NoDup (ctx_keys (match def_rest d with Some r => ctx_insert r (VMap rm) c0 | None => c0 end))).
    { destruct (def_rest d); [apply ctx_insert_nodup|]; exact Hc0. }
    destruct body; [apply ctx_insert_nodup|]; exact Hc1.
Qed.

(* ------------------------------------------------------------------ the callee's state *)

Definition ctx_value (c : ctx) (n : str) : value :=
  match ctx_get c n with Some v => v | None => VUndef end.

(* State::new_with_chunk(&context, chunk): a name resolves to what the context holds, nothing else *)
Lemma get_value_state_new : forall c n, get_value (state_new c) n = ctx_value c n.
Proof.
  intros c n. unfold state_new, ctx_value. cbn. destruct (ctx_get c n); reflexivity.
Qed.

(* a template included from the component body sees the component's context and nothing more *)
Lemma get_value_include_of_new : forall c n, get_value (state_include (state_new c)) n = ctx_value c n.
Proof.
  intros c n. unfold state_include, state_new, ctx_value. cbn.
  destruct (ctx_get c n) as [v|]; [|reflexivity].
  destruct (is_undefined v) eqn:U; cbn; [|reflexivity].
  destruct v; try discriminate. reflexivity.
Qed.

Lemma ctx_extend_get : forall over base n,
  NoDup (ctx_keys over) ->
  ctx_get (ctx_extend base over) n = match ctx_get over n with Some v => Some v | None => ctx_get base n end.
Proof.
  unfold ctx_extend. induction over as [|[k v] over IH]; intros base n Hd; cbn [fold_left ctx_get fst snd].
  - reflexivity.
  - cbn [ctx_keys map fst] in Hd. inversion Hd as [|? ? Hn Hd']; subst.
    rewrite (IH _ _ Hd'). rewrite ctx_get_insert.
    destruct (str_eqb k n) eqn:E.
    + apply str_eqb_eq in E. subst k.
      destruct (ctx_get over n) eqn:G; [|reflexivity].
      exfalso. apply Hn. eapply ctx_get_some_in. exact G.
    + reflexivity.
Qed.

(* `{{ __tera_context }}` inside a component shows exactly the built context *)
Lemma dump_context_state_new : forall c n,
  NoDup (ctx_keys c) -> ctx_get (dump_context (state_new c)) n = ctx_get c n.
Proof.
  intros c n Hd. unfold state_new, dump_context. cbn [fold_left].
  change (ctx_extend (ctx_extend [] c) []) with (ctx_extend [] c).
  rewrite (ctx_extend_get c [] n Hd). destruct (ctx_get c n); reflexivity.
Qed.
