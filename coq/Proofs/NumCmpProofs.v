(* Lemmas for C13, part 2: numeric equality and ordering of Model/Number.v (the ports of
   cmp_f64_to_i128 / cmp_f64_to_u128 and of the numeric arms of PartialEq / PartialOrd) against
   the exact order `xcmp` of Spec/Arith.v.  Everything is done in Z; no reals, no axioms. *)
From TeraV Require Import Model.Value Model.Number Spec.Arith Proofs.NumberProofs.

(* ---------------------------------------------------------------- powers of two *)

Lemma pow2_pos : forall k, 0 <= k -> 0 < 2 ^ k.
Proof. intros. apply Z.pow_pos_nonneg; lia. Qed.

Lemma pow2_split : forall a b, 0 <= a -> 0 <= b -> 2 ^ (a + b) = 2 ^ a * 2 ^ b.
Proof. intros. apply Z.pow_add_r; assumption. Qed.

(* ---------------------------------------------------------------- dy_cmp *)

Lemma dy_cmp_scale : forall m1 e1 m2 e2 k,
  k <= e1 -> k <= e2 ->
  dy_cmp m1 e1 m2 e2 = (m1 * 2 ^ (e1 - k) ?= m2 * 2 ^ (e2 - k)).
Proof.
  intros m1 e1 m2 e2 k H1 H2. unfold dy_cmp.
  set (k0 := Z.min e1 e2).
  assert (Hk : k <= k0) by (unfold k0; lia).
  assert (Hk1 : k0 <= e1) by (unfold k0; lia).
  assert (Hk2 : k0 <= e2) by (unfold k0; lia).
  replace (e1 - k) with ((e1 - k0) + (k0 - k)) by lia.
  replace (e2 - k) with ((e2 - k0) + (k0 - k)) by lia.
  rewrite !pow2_split by lia. rewrite !Z.mul_assoc.
  apply Zmult_compare_compat_r. pose proof (pow2_pos (k0 - k)). lia.
Qed.

Lemma dy_cmp_refl : forall m e, dy_cmp m e m e = Eq.
Proof. intros. unfold dy_cmp. apply Z.compare_refl. Qed.

Lemma dy_cmp_antisym : forall m1 e1 m2 e2,
  dy_cmp m2 e2 m1 e1 = CompOpp (dy_cmp m1 e1 m2 e2).
Proof. intros. unfold dy_cmp. rewrite (Z.min_comm e2 e1). apply Z.compare_antisym. Qed.

(* values that compare Eq are interchangeable on either side *)
Lemma dy_cmp_eq_l : forall a ea b eb c ec,
  dy_cmp a ea b eb = Eq -> dy_cmp a ea c ec = dy_cmp b eb c ec.
Proof.
  intros a ea b eb c ec H.
  set (k := Z.min ea (Z.min eb ec)).
  rewrite (dy_cmp_scale a ea b eb k) in H by (unfold k; lia).
  rewrite (dy_cmp_scale a ea c ec k) by (unfold k; lia).
  rewrite (dy_cmp_scale b eb c ec k) by (unfold k; lia).
  apply Z.compare_eq in H. rewrite H. reflexivity.
Qed.

Lemma dy_cmp_eq_r : forall a ea b eb c ec,
  dy_cmp b eb c ec = Eq -> dy_cmp a ea b eb = dy_cmp a ea c ec.
Proof.
  intros a ea b eb c ec H.
  rewrite (dy_cmp_antisym b eb a ea), (dy_cmp_antisym c ec a ea).
  f_equal. apply dy_cmp_eq_l. exact H.
Qed.

Lemma dy_cmp_trans : forall r a ea b eb c ec,
  dy_cmp a ea b eb = r -> dy_cmp b eb c ec = r -> dy_cmp a ea c ec = r.
Proof.
  intros r a ea b eb c ec H1 H2.
  set (k := Z.min ea (Z.min eb ec)).
  rewrite (dy_cmp_scale a ea b eb k) in H1 by (unfold k; lia).
  rewrite (dy_cmp_scale b eb c ec k) in H2 by (unfold k; lia).
  rewrite (dy_cmp_scale a ea c ec k) by (unfold k; lia).
  destruct r.
  - apply Z.compare_eq in H1. apply Z.compare_eq in H2. apply Z.compare_eq_iff. congruence.
  - apply Z.compare_lt_iff in H1. apply Z.compare_lt_iff in H2. apply Z.compare_lt_iff.
    eapply Z.lt_trans; eassumption.
  - apply Z.compare_gt_iff in H1. apply Z.compare_gt_iff in H2. apply Z.compare_gt_iff.
    eapply Z.lt_trans; eassumption.
Qed.

Lemma dy_cmp_int : forall a b, dy_cmp a 0 b 0 = (a ?= b).
Proof. intros. unfold dy_cmp. cbn [Z.min Z.sub Z.pow]. rewrite !Z.mul_1_r. reflexivity. Qed.

Lemma dy_cmp_lt_signs : forall m1 e1 m2 e2,
  (m1 < 0 /\ 0 <= m2) \/ (m1 <= 0 /\ 0 < m2) -> dy_cmp m1 e1 m2 e2 = Lt.
Proof.
  intros m1 e1 m2 e2 H. unfold dy_cmp. apply Z.compare_lt_iff.
  pose proof (pow2_pos (e1 - Z.min e1 e2) ltac:(lia)) as P1.
  pose proof (pow2_pos (e2 - Z.min e1 e2) ltac:(lia)) as P2.
  destruct H as [[H1 H2]|[H1 H2]]; nia.
Qed.

Lemma dy_cmp_gt_signs : forall m1 e1 m2 e2,
  (m2 < 0 /\ 0 <= m1) \/ (m2 <= 0 /\ 0 < m1) -> dy_cmp m1 e1 m2 e2 = Gt.
Proof.
  intros. rewrite dy_cmp_antisym, (dy_cmp_lt_signs m2 e2 m1 e1) by assumption. reflexivity.
Qed.

Lemma dy_cmp_opp : forall m1 e1 m2 e2,
  dy_cmp (- m1) e1 (- m2) e2 = CompOpp (dy_cmp m1 e1 m2 e2).
Proof.
  intros. unfold dy_cmp. rewrite !Z.mul_opp_l, Z.compare_opp. apply Z.compare_antisym.
Qed.

(* ---------------------------------------------------------------- xcmp is a total order *)

Lemma xcmp_refl : forall a, xcmp a a = Eq.
Proof. destruct a; cbn; auto using dy_cmp_refl. Qed.

Lemma xcmp_antisym : forall a b, xcmp b a = CompOpp (xcmp a b).
Proof. destruct a, b; cbn; auto using dy_cmp_antisym. Qed.

Lemma xcmp_trans : forall r a b c, xcmp a b = r -> xcmp b c = r -> xcmp a c = r.
Proof.
  intros r a b c H1 H2.
  destruct a, b, c; cbn in *; try congruence; eauto using dy_cmp_trans.
Qed.

Lemma xcmp_eq_l : forall a b c, xcmp a b = Eq -> xcmp a c = xcmp b c.
Proof.
  intros a b c H.
  destruct a, b, c; cbn in *; try congruence; eauto using dy_cmp_eq_l.
Qed.

Lemma xcmp_eq_r : forall a b c, xcmp b c = Eq -> xcmp a b = xcmp a c.
Proof.
  intros a b c H. rewrite (xcmp_antisym b a), (xcmp_antisym c a). f_equal.
  apply xcmp_eq_l. exact H.
Qed.

(* ---------------------------------------------------------------- binary64 validity *)

Definition valid64 (f : spec_float) : Prop := valid_binary 53 1024 f = true.

Lemma digits2_pos_bounds : forall p,
  2 ^ (Zpos (digits2_pos p) - 1) <= Zpos p < 2 ^ Zpos (digits2_pos p).
Proof.
  induction p as [p IH|p IH|]; cbn [digits2_pos].
  - rewrite Pos2Z.inj_succ, (Pos2Z.inj_xI p).
    replace (Z.succ (Zpos (digits2_pos p)) - 1) with (Z.succ (Zpos (digits2_pos p) - 1)) by lia.
    rewrite !Z.pow_succ_r by lia. lia.
  - rewrite Pos2Z.inj_succ, (Pos2Z.inj_xO p).
    replace (Z.succ (Zpos (digits2_pos p)) - 1) with (Z.succ (Zpos (digits2_pos p) - 1)) by lia.
    rewrite !Z.pow_succ_r by lia. lia.
  - cbn. lia.
Qed.

Lemma digits2_pos_unique : forall p n,
  2 ^ (n - 1) <= Zpos p < 2 ^ n -> Zpos (digits2_pos p) = n.
Proof.
  intros p n [Hlo Hhi]. pose proof (digits2_pos_bounds p) as [Dlo Dhi].
  set (d := Zpos (digits2_pos p)) in *.
  assert (Hd : 0 < d) by (unfold d; lia).
  assert (Hn : 0 < n).
  { destruct (Z_lt_le_dec 0 n); [assumption|].
    rewrite (Z.pow_neg_r 2 (n - 1)) in Hlo by lia.
    destruct (Z.eq_dec n 0) as [->|]; [cbn in Hhi; lia|].
    rewrite (Z.pow_neg_r 2 n) in Hhi by lia. lia. }
  destruct (Z_lt_le_dec d n) as [Hlt|Hge].
  - (* 2^d <= 2^(n-1) <= p < 2^d *)
    assert (2 ^ d <= 2 ^ (n - 1)) by (apply Z.pow_le_mono_r; lia). lia.
  - destruct (Z.eq_dec d n); [assumption|].
    assert (2 ^ n <= 2 ^ (d - 1)) by (apply Z.pow_le_mono_r; lia). lia.
Qed.

Lemma valid64_finite : forall s m e,
  valid64 (S754_finite s m e) ->
  Zpos (digits2_pos m) <= 53 /\ -1074 <= e <= 971 /\ (Zpos (digits2_pos m) = 53 \/ e = -1074).
Proof.
  intros s m e H. unfold valid64, valid_binary, bounded, canonical_mantissa, fexp, emin in H.
  apply andb_true_iff in H. destruct H as [H1 H2].
  apply Zeq_bool_eq in H1. apply Zle_bool_imp_le in H2. lia.
Qed.

Lemma valid64_finite_intro : forall s m e,
  Zpos (digits2_pos m) <= 53 -> -1074 <= e <= 971 -> (Zpos (digits2_pos m) = 53 \/ e = -1074) ->
  valid64 (S754_finite s m e).
Proof.
  intros s m e H1 H2 H3. unfold valid64, valid_binary, bounded, canonical_mantissa, fexp, emin.
  apply andb_true_iff. split.
  - apply Zeq_is_eq_bool. lia.
  - apply Zle_imp_le_bool. lia.
Qed.

(* mantissa bounds of a valid float *)
Lemma valid64_mantissa : forall s m e,
  valid64 (S754_finite s m e) ->
  Zpos m < 2 ^ 53 /\ (-1074 < e -> 2 ^ 52 <= Zpos m).
Proof.
  intros s m e H. apply valid64_finite in H. destruct H as [Hd [He Hc]].
  pose proof (digits2_pos_bounds m) as [Dlo Dhi].
  split.
  - apply Z.lt_le_trans with (2 ^ Zpos (digits2_pos m)); [assumption|].
    apply Z.pow_le_mono_r; lia.
  - intro He'. destruct Hc as [Hc|Hc]; [|lia]. rewrite Hc in Dlo. exact Dlo.
Qed.

(* ---------------------------------------------------------------- SFcompare is exact *)

Lemma pos_cmp_exact : forall s1 m1 e1 s2 m2 e2,
  valid64 (S754_finite s1 m1 e1) -> valid64 (S754_finite s2 m2 e2) ->
  match e1 ?= e2 with Lt => Lt | Gt => Gt | Eq => Pos.compare_cont Eq m1 m2 end =
  dy_cmp (Zpos m1) e1 (Zpos m2) e2.
Proof.
  intros s1 m1 e1 s2 m2 e2 V1 V2.
  pose proof (valid64_mantissa _ _ _ V1) as [U1 L1].
  pose proof (valid64_mantissa _ _ _ V2) as [U2 L2].
  apply valid64_finite in V1. apply valid64_finite in V2.
  change (2 ^ 53) with 9007199254740992 in *. change (2 ^ 52) with 4503599627370496 in *.
  destruct (Z.compare_spec e1 e2) as [E|E|E].
  - subst. unfold dy_cmp. rewrite Z.min_id, Z.sub_diag. cbn [Z.pow]. rewrite !Z.mul_1_r.
    reflexivity.
  - symmetry. rewrite (dy_cmp_scale _ _ _ _ e1) by lia. rewrite Z.sub_diag. cbn [Z.pow].
    rewrite Z.mul_1_r. apply Z.compare_lt_iff.
    assert (2 <= 2 ^ (e2 - e1)).
    { change 2 with (2 ^ 1) at 1. apply Z.pow_le_mono_r; lia. }
    specialize (L2 ltac:(lia)). nia.
  - symmetry. rewrite (dy_cmp_scale _ _ _ _ e2) by lia. rewrite Z.sub_diag. cbn [Z.pow].
    rewrite Z.mul_1_r. apply Z.compare_gt_iff.
    assert (2 <= 2 ^ (e1 - e2)).
    { change 2 with (2 ^ 1) at 1. apply Z.pow_le_mono_r; lia. }
    specialize (L1 ltac:(lia)). nia.
Qed.

Definition not_nan (f : spec_float) : Prop := f <> S754_nan.

Lemma SFcompare_exact : forall x y,
  valid64 x -> valid64 y -> not_nan x -> not_nan y ->
  SFcompare x y = Some (xcmp (xval_float x) (xval_float y)).
Proof.
  intros x y Vx Vy Nx Ny. unfold not_nan in *.
  destruct x as [sx|sx| |sx mx ex]; try congruence;
  destruct y as [sy|sy| |sy my ey]; try congruence; cbn [SFcompare xval_float xcmp].
  - rewrite dy_cmp_refl. reflexivity.
  - destruct sy; reflexivity.
  - f_equal. destruct sy; symmetry.
    + apply dy_cmp_gt_signs. left. lia.
    + apply dy_cmp_lt_signs. right. lia.
  - destruct sx; reflexivity.
  - destruct sx, sy; reflexivity.
  - destruct sx; reflexivity.
  - f_equal. destruct sx; symmetry.
    + apply dy_cmp_lt_signs. left. lia.
    + apply dy_cmp_gt_signs. right. lia.
  - destruct sx, sy; reflexivity.
  - f_equal. destruct sx, sy.
    + (* both negative *)
      change (Zneg mx) with (- Zpos mx). change (Zneg my) with (- Zpos my).
      rewrite dy_cmp_opp, <- (pos_cmp_exact true mx ex true my ey Vx Vy).
      destruct (ex ?= ey); reflexivity.
    + symmetry. apply dy_cmp_lt_signs. left. lia.
    + symmetry. apply dy_cmp_gt_signs. left. lia.
    + apply (pos_cmp_exact false mx ex false my ey Vx Vy).
Qed.

Lemma f_lt_exact : forall x y, valid64 x -> valid64 y -> not_nan x -> not_nan y ->
  f_lt x y = match xcmp (xval_float x) (xval_float y) with Lt => true | _ => false end.
Proof. intros. unfold f_lt, SFltb. rewrite SFcompare_exact by assumption. reflexivity. Qed.

Lemma f_ge_exact : forall x y, valid64 x -> valid64 y -> not_nan x -> not_nan y ->
  f_ge x y = match xcmp (xval_float x) (xval_float y) with Lt => false | _ => true end.
Proof.
  intros. unfold f_ge, SFleb. rewrite SFcompare_exact by assumption.
  rewrite (xcmp_antisym (xval_float x) (xval_float y)).
  destruct (xcmp (xval_float x) (xval_float y)); reflexivity.
Qed.

Lemma f_gt_exact : forall x y, valid64 x -> valid64 y -> not_nan x -> not_nan y ->
  f_gt x y = match xcmp (xval_float x) (xval_float y) with Gt => true | _ => false end.
Proof.
  intros. unfold f_gt, SFltb. rewrite SFcompare_exact by assumption.
  rewrite (xcmp_antisym (xval_float x) (xval_float y)).
  destruct (xcmp (xval_float x) (xval_float y)); reflexivity.
Qed.

(* ---------------------------------------------------------------- floor *)

(* the signed mantissa and the mathematical floor of a finite float *)
Definition smant (s : bool) (m : positive) : Z := if s then Zneg m else Zpos m.
Definition floorZ (s : bool) (m : positive) (e : Z) : Z :=
  if 0 <=? e then smant s m * 2 ^ e else smant s m / 2 ^ (- e).

Lemma norm_int_props : forall s p,
  Zpos p < 2 ^ 53 ->
  valid64 (norm_int s p) /\
  xcmp (xval_float (norm_int s p)) (XFin (smant s p) 0) = Eq /\
  f_trunc_Z (norm_int s p) = Some (smant s p).
Proof.
  intros s p Hp. unfold norm_int.
  pose proof (digits2_pos_bounds p) as [Dlo Dhi].
  set (d := Zpos (digits2_pos p)) in *.
  assert (Hd1 : 1 <= d) by (unfold d; lia).
  assert (Hd : d <= 53).
  { destruct (Z_lt_le_dec 53 d); [|assumption].
    assert (2 ^ 53 <= 2 ^ (d - 1)) by (apply Z.pow_le_mono_r; lia). lia. }
  set (j := 53 - d) in *.
  pose proof (pow2_pos j ltac:(unfold j; lia)) as Pj.
  destruct (Zpos p * 2 ^ j) as [|m'|m'] eqn:Em; try lia.
  assert (Hdig : Zpos (digits2_pos m') = 53).
  { apply digits2_pos_unique. rewrite <- Em. split.
    - replace (53 - 1) with ((d - 1) + j) by (unfold j; lia).
      rewrite pow2_split by (unfold j; lia). apply Z.mul_le_mono_nonneg_r; lia.
    - replace 53 with (d + j) by (unfold j; lia).
      rewrite pow2_split by (unfold j; lia). apply Z.mul_lt_mono_pos_r; lia. }
  replace (d - 53) with (- j) by (unfold j; lia).
  split; [|split].
  - apply valid64_finite_intro; unfold j; lia.
  - cbn [xval_float xcmp]. fold (smant s m').
    assert (Es : smant s m' = smant s p * 2 ^ j).
    { unfold smant. destruct s.
      - change (Zneg m') with (- Zpos m'). change (Zneg p) with (- Zpos p). lia.
      - lia. }
    rewrite (dy_cmp_scale _ _ _ _ (- j)) by (unfold j; lia).
    rewrite Z.sub_diag. replace (0 - - j) with j by lia. cbn [Z.pow].
    rewrite Z.mul_1_r, Es. apply Z.compare_refl.
  - unfold f_trunc_Z.
    assert (Ea : (if 0 <=? - j then Zpos m' * 2 ^ (- j) else Z.shiftr (Zpos m') (- - j)) = Zpos p).
    { destruct (0 <=? - j) eqn:E0.
      - apply Z.leb_le in E0. assert (j = 0) by (unfold j in *; lia).
        replace (- j) with 0 by lia. cbn [Z.pow]. rewrite Z.mul_1_r.
        rewrite <- Em. replace j with 0 by lia. cbn [Z.pow]. lia.
      - rewrite Z.opp_involutive, Z.shiftr_div_pow2 by (unfold j; lia).
        rewrite <- Em. apply Z.div_mul. lia. }
    rewrite Ea. unfold smant. destruct s; reflexivity.
Qed.

Lemma floorZ_neg_exp : forall (m : positive) P,
  0 < P ->
  let q := Zpos m / P in
  Zneg m / P = - (if q * P =? Zpos m then q else q + 1).
Proof.
  intros m P HP q.
  pose proof (Z.div_mod (Zpos m) P ltac:(lia)) as Hdm.
  pose proof (Z.mod_pos_bound (Zpos m) P HP) as Hm. fold q in Hdm.
  change (Zneg m) with (- Zpos m).
  destruct (q * P =? Zpos m) eqn:E.
  - apply Z.eqb_eq in E. symmetry. apply Z.div_unique_pos with 0; lia.
  - apply Z.eqb_neq in E. symmetry.
    apply Z.div_unique_pos with (P - Zpos m mod P); lia.
Qed.

Lemma f_floor_props : forall s m e,
  valid64 (S754_finite s m e) ->
  let fl := f_floor (S754_finite s m e) in
  valid64 fl /\ not_nan fl /\
  xcmp (xval_float fl) (XFin (floorZ s m e) 0) = Eq /\
  f_trunc_Z fl = Some (floorZ s m e).
Proof.
  intros s m e V fl. unfold fl, f_floor, floorZ.
  pose proof (valid64_mantissa _ _ _ V) as [Um _].
  destruct (0 <=? e) eqn:E0.
  - apply Z.leb_le in E0. split; [exact V|]. split; [discriminate|]. split.
    + cbn [xval_float xcmp]. fold (smant s m).
      rewrite (dy_cmp_scale _ _ _ _ 0) by lia. rewrite !Z.sub_0_r. cbn [Z.pow].
      rewrite Z.mul_1_r. apply Z.compare_refl.
    + unfold f_trunc_Z. replace (0 <=? e) with true by (symmetry; apply Z.leb_le; lia).
      unfold smant. destruct s; [|reflexivity].
      f_equal. change (Zneg m) with (- Zpos m). lia.
  - apply Z.leb_gt in E0.
    set (P := 2 ^ (- e)).
    assert (HP : 2 <= P).
    { unfold P. change 2 with (2 ^ 1) at 1. apply Z.pow_le_mono_r; lia. }
    rewrite Z.shiftr_div_pow2 by lia. fold P.
    set (q := Zpos m / P).
    rewrite Z.shiftl_mul_pow2 by lia. fold P.
    pose proof (Z.div_mod (Zpos m) P ltac:(lia)) as Hdm. fold q in Hdm.
    pose proof (Z.mod_pos_bound (Zpos m) P ltac:(lia)) as Hm.
    assert (Hq0 : 0 <= q) by (apply Z.div_pos; lia).
    assert (Hq : 2 * q <= Zpos m) by nia.
    set (k := if s then if q * P =? Zpos m then q else q + 1 else q).
    assert (Hk0 : 0 <= k) by (unfold k; destruct s; [destruct (q * P =? Zpos m)|]; lia).
    assert (Hk : k < 2 ^ 53).
    { change (2 ^ 53) with 9007199254740992 in *.
      unfold k; destruct s; [destruct (q * P =? Zpos m)|]; lia. }
    assert (Hfl : smant s m / P = if s then - k else k).
    { unfold smant, k. destruct s; [|reflexivity].
      apply (floorZ_neg_exp m P ltac:(lia)). }
    rewrite Hfl.
    destruct k as [|p|p] eqn:Ek; try lia.
    + (* floor = 0 *)
      split; [reflexivity|]. split; [discriminate|].
      destruct s; cbn; auto.
    + pose proof (norm_int_props s p Hk) as [N1 [N2 N3]].
      assert (Es : smant s p = if s then - Zpos p else Zpos p) by (destruct s; reflexivity).
      rewrite <- Es. split; [exact N1|]. split; [|split; assumption].
      unfold norm_int. destruct (Zpos p * 2 ^ (53 - Zpos (digits2_pos p))) eqn:Em;
        try discriminate.
      * exfalso. unfold valid64 in N1. unfold norm_int in N2. rewrite Em in N2. discriminate.
      * exfalso. unfold norm_int in N2. rewrite Em in N2. discriminate.
Qed.

(* the comparison of cmp_f64_to_{i,u}128 once the cast is known to be exact *)
Lemma floor_cmp_exact : forall s m e n,
  valid64 (S754_finite s m e) ->
  let x := S754_finite s m e in
  match floorZ s m e ?= n with
  | Eq => if f_gt x (f_floor x) then Gt else Eq
  | o => o
  end = xcmp (xval_float x) (XFin n 0).
Proof.
  intros s m e n V x.
  pose proof (f_floor_props s m e V) as [Vf [Nf [Ef _]]]. fold x in Vf, Nf, Ef.
  rewrite (f_gt_exact x (f_floor x) V Vf ltac:(discriminate) Nf).
  rewrite (xcmp_eq_r (xval_float x) _ _ Ef).
  unfold x. cbn [xval_float xcmp]. fold (smant s m).
  set (M := smant s m). unfold floorZ. fold M.
  destruct (0 <=? e) eqn:E0.
  - apply Z.leb_le in E0.
    rewrite !(dy_cmp_scale M e _ 0 0) by lia. rewrite !Z.sub_0_r. cbn [Z.pow].
    rewrite !Z.mul_1_r, Z.compare_refl.
    destruct (M * 2 ^ e ?= n); reflexivity.
  - apply Z.leb_gt in E0.
    set (P := 2 ^ (- e)).
    assert (HP : 0 < P) by (apply pow2_pos; lia).
    rewrite !(dy_cmp_scale M e _ 0 e) by lia. rewrite Z.sub_diag.
    replace (0 - e) with (- e) by lia. fold P. cbn [Z.pow]. rewrite Z.mul_1_r.
    pose proof (Z.div_mod M P ltac:(lia)) as Hdm.
    pose proof (Z.mod_pos_bound M P HP) as Hm.
    set (k := M / P) in *.
    destruct (Z.compare_spec k n) as [C|C|C].
    + subst n. destruct (Z.compare_spec M (k * P)); try reflexivity; nia.
    + symmetry. apply Z.compare_lt_iff. nia.
    + symmetry. apply Z.compare_gt_iff. nia.
Qed.

(* ---------------------------------------------------------------- the two cmp functions *)

Lemma xval_i128_min : xcmp (xval_float f64_i128_min) (XFin i128_min 0) = Eq.
Proof. vm_compute. reflexivity. Qed.
Lemma xval_i128_max : xcmp (xval_float f64_i128_max) (XFin two127 0) = Eq.
Proof. vm_compute. reflexivity. Qed.
Lemma xval_u128_max : xcmp (xval_float f64_u128_max) (XFin two128 0) = Eq.
Proof. vm_compute. reflexivity. Qed.
Lemma valid_consts : valid64 f64_i128_min /\ valid64 f64_i128_max /\ valid64 f64_u128_max.
Proof. vm_compute. auto. Qed.

Lemma f_as_int_of_trunc : forall lo hi x k,
  not_nan x -> f_trunc_Z x = Some k -> lo <= k <= hi -> f_as_int lo hi x = k.
Proof.
  intros lo hi x k Nx Ht Hr. unfold f_as_int.
  destruct x; try discriminate; try (exfalso; apply Nx; reflexivity);
    rewrite Ht; lia.
Qed.

(* the shape shared by cmp_f64_to_i128 and cmp_f64_to_u128, on integers *)
Definition cmpk (g : bool) (k n : Z) : comparison :=
  match k ?= n with Eq => if g then Gt else Eq | o => o end.

Lemma guard_logic : forall g k n lo hi c,
  lo <= n < hi -> (lo <= k < hi -> c = k) ->
  (if match cmpk g k lo with Lt => true | _ => false end then Lt
   else if match cmpk g k hi with Lt => false | _ => true end then Gt
   else match c ?= n with Eq => if g then Gt else Eq | o => o end) = cmpk g k n.
Proof.
  intros g k n lo hi c Hn Hc. unfold cmpk.
  destruct (Z.compare_spec k lo) as [E1|E1|E1].
  - destruct g.
    + destruct (Z.compare_spec k hi); try lia. rewrite Hc by lia. reflexivity.
    + destruct (Z.compare_spec k hi); try lia. rewrite Hc by lia. reflexivity.
  - destruct (Z.compare_spec k n); try lia. reflexivity.
  - destruct (Z.compare_spec k hi) as [E2|E2|E2].
    + destruct g; destruct (Z.compare_spec k n); try lia; reflexivity.
    + rewrite Hc by lia. reflexivity.
    + destruct (Z.compare_spec k n); try lia; reflexivity.
Qed.

Lemma cmp_finite_generic : forall s m e n lo hi flo fhi,
  let x := S754_finite s m e in
  valid64 x -> valid64 flo -> valid64 fhi -> not_nan flo -> not_nan fhi ->
  xcmp (xval_float flo) (XFin lo 0) = Eq -> xcmp (xval_float fhi) (XFin hi 0) = Eq ->
  lo <= n < hi ->
  (if f_lt x flo then Lt
   else if f_ge x fhi then Gt
   else match f_as_int lo (hi - 1) (f_floor x) ?= n with
        | Eq => if f_gt x (f_floor x) then Gt else Eq
        | o => o
        end) = xcmp (xval_float x) (XFin n 0).
Proof.
  intros s m e n lo hi flo fhi x V Vlo Vhi Nlo Nhi Elo Ehi Hn.
  assert (Nx : not_nan x) by discriminate.
  rewrite (f_lt_exact x flo V Vlo Nx Nlo), (f_ge_exact x fhi V Vhi Nx Nhi).
  rewrite (xcmp_eq_r _ _ _ Elo), (xcmp_eq_r _ _ _ Ehi).
  pose proof (floor_cmp_exact s m e lo V) as Flo.
  pose proof (floor_cmp_exact s m e hi V) as Fhi.
  pose proof (floor_cmp_exact s m e n V) as Fn.
  cbv zeta in Flo, Fhi, Fn. fold x in Flo, Fhi, Fn.
  rewrite <- Flo, <- Fhi, <- Fn.
  pose proof (f_floor_props s m e V) as [Vf [Nf [_ Tf]]]. fold x in Vf, Nf, Tf.
  apply (guard_logic (f_gt x (f_floor x)) (floorZ s m e) n lo hi); [exact Hn|].
  intro Hk. apply (f_as_int_of_trunc _ _ _ _ Nf Tf). lia.
Qed.

Lemma cmp_f64_to_i128_exact : forall x n,
  valid64 x -> fits_i128 n ->
  cmp_f64_to_i128 x n = xcmp (xval_float x) (XFin n 0).
Proof.
  intros x n V Hn. destruct valid_consts as [Vmin [Vmax _]].
  destruct x as [s|s| |s m e].
  - unfold cmp_f64_to_i128. cbn [f_is_nan].
    replace (f_lt (S754_zero s) f64_i128_min) with false by (destruct s; reflexivity).
    replace (f_ge (S754_zero s) f64_i128_max) with false by (destruct s; reflexivity).
    cbn [f_floor]. replace (f_as_i128 (S754_zero s)) with 0 by (destruct s; reflexivity).
    replace (f_gt (S754_zero s) (S754_zero s)) with false by (destruct s; reflexivity).
    cbn [xval_float xcmp]. rewrite dy_cmp_int. destruct (0 ?= n); reflexivity.
  - destruct s; reflexivity.
  - reflexivity.
  - unfold cmp_f64_to_i128. cbn [f_is_nan]. unfold f_as_i128.
    change i128_max with (two127 - 1).
    apply (cmp_finite_generic s m e n i128_min two127 f64_i128_min f64_i128_max V Vmin Vmax);
      try discriminate.
    + exact xval_i128_min.
    + exact xval_i128_max.
    + range_unfold. lia.
Qed.

Lemma cmp_f64_to_u128_exact : forall x n,
  valid64 x -> 0 <= n <= u128_max ->
  cmp_f64_to_u128 x n = xcmp (xval_float x) (XFin n 0).
Proof.
  intros x n V Hn. destruct valid_consts as [_ [_ Vmax]].
  destruct x as [s|s| |s m e].
  - unfold cmp_f64_to_u128. cbn [f_is_nan].
    replace (f_lt (S754_zero s) f64_zero) with false by (destruct s; reflexivity).
    replace (f_ge (S754_zero s) f64_u128_max) with false by (destruct s; reflexivity).
    cbn [f_floor]. replace (f_as_u128 (S754_zero s)) with 0 by (destruct s; reflexivity).
    replace (f_gt (S754_zero s) (S754_zero s)) with false by (destruct s; reflexivity).
    cbn [xval_float xcmp]. rewrite dy_cmp_int. destruct (0 ?= n); reflexivity.
  - destruct s; reflexivity.
  - reflexivity.
  - unfold cmp_f64_to_u128. cbn [f_is_nan]. unfold f_as_u128.
    change u128_max with (two128 - 1).
    apply (cmp_finite_generic s m e n 0 two128 f64_zero f64_u128_max V (eq_refl : valid64 f64_zero) Vmax);
      try discriminate.
    + reflexivity.
    + exact xval_u128_max.
    + range_unfold. lia.
Qed.

(* ---------------------------------------------------------------- values *)

(* a number as the engine can hold it: the integer is within the range of its tag, the double
   is a binary64 value *)
Definition wf_num (v : value) : Prop :=
  match v with
  | VInt r z => rep_ok r z = true
  | VFloat f => valid64 f
  | _ => False
  end.

(* exact mathematical value of a number *)
Definition xval (v : value) : xreal :=
  match v with
  | VInt _ z => xval_int z
  | VFloat f => xval_float f
  | _ => XNaN
  end.

Lemma rep_ok_range : forall r z, rep_ok r z = true -> i128_min <= z <= u128_max.
Proof.
  intros r z H. destruct r; unfold rep_ok, in_u64, in_i64, in_u128, in_i128 in H;
    apply andb_true_iff in H; destruct H as [H1 H2];
    rewrite ?Z.leb_le, ?Z.ltb_lt in *; unfold two64, two63 in *; range_unfold; lia.
Qed.

Lemma cmp_f64_to_number_exact : forall x r z,
  valid64 x -> rep_ok r z = true ->
  cmp_f64_to_number x (VInt r z) = Some (xcmp (xval_float x) (XFin z 0)).
Proof.
  intros x r z V H. apply rep_ok_range in H. unfold cmp_f64_to_number. cbn [as_i128 as_u128].
  destruct (in_i128 z) eqn:Ei.
  - f_equal. apply cmp_f64_to_i128_exact; [assumption|]. apply in_i128_fits. assumption.
  - assert (Eu : in_u128 z = true).
    { apply in_i128_false in Ei. range_unfold. apply andb_true_iff.
      rewrite !Z.leb_le. lia. }
    rewrite Eu. f_equal. apply cmp_f64_to_u128_exact; [assumption|].
    range_unfold. apply andb_true_iff in Eu. rewrite !Z.leb_le in Eu. lia.
Qed.

Lemma int_int_cmp_exact : forall ra a rb b,
  rep_ok ra a = true -> rep_ok rb b = true ->
  num_partial_cmp (VInt ra a) (VInt rb b) = Some (a ?= b) /\
  num_eq (VInt ra a) (VInt rb b) = (a =? b).
Proof.
  intros ra a rb b Ha Hb. apply rep_ok_range in Ha. apply rep_ok_range in Hb.
  unfold num_partial_cmp, num_eq. cbn [as_u128 as_i128].
  assert (Hau : in_u128 a = (0 <=? a)).
  { range_unfold. destruct (0 <=? a); cbn [andb]; [apply Z.leb_le; lia|reflexivity]. }
  assert (Hbu : in_u128 b = (0 <=? b)).
  { range_unfold. destruct (0 <=? b); cbn [andb]; [apply Z.leb_le; lia|reflexivity]. }
  rewrite Hau, Hbu.
  destruct (0 <=? a) eqn:Ea; destruct (0 <=? b) eqn:Eb;
    rewrite ?Z.leb_le, ?Z.leb_gt in *.
  - split; reflexivity.
  - split.
    + f_equal. symmetry. apply Z.compare_gt_iff. lia.
    + symmetry. apply Z.eqb_neq. lia.
  - split.
    + f_equal. symmetry. apply Z.compare_lt_iff. lia.
    + symmetry. apply Z.eqb_neq. lia.
  - assert (Hai : in_i128 a = true) by (range_unfold; apply andb_true_iff; rewrite !Z.leb_le; lia).
    assert (Hbi : in_i128 b = true) by (range_unfold; apply andb_true_iff; rewrite !Z.leb_le; lia).
    rewrite Hai, Hbi. split; reflexivity.
Qed.

Lemma is_eq_some : forall c, is_eq (Some c) = true <-> c = Eq.
Proof. destruct c; cbn; split; congruence. Qed.

Theorem num_cmp_exact : forall a b,
  wf_num a -> wf_num b ->
  num_partial_cmp a b = Some (xcmp (xval a) (xval b)) /\
  (num_eq a b = true <-> xeq (xval a) (xval b)).
Proof.
  intros a b Wa Wb. unfold xeq.
  destruct a as [| | |ra za|fa| | | |]; try contradiction;
  destruct b as [| | |rb zb|fb| | | |]; try contradiction; cbn [wf_num xval] in *; unfold xval_int in *.
  - (* int, int *)
    destruct (int_int_cmp_exact ra za rb zb Wa Wb) as [H1 H2].
    rewrite H1, H2. cbn [xcmp]. rewrite dy_cmp_int. split; [reflexivity|].
    rewrite Z.eqb_eq. symmetry. apply Z.compare_eq_iff.
  - (* int, float *)
    unfold num_partial_cmp, num_eq.
    rewrite (cmp_f64_to_number_exact fb ra za Wb Wa). cbn [option_map].
    rewrite <- xcmp_antisym. split; [reflexivity|].
    rewrite is_eq_some, (xcmp_antisym (XFin za 0) (xval_float fb)).
    destruct (xcmp (XFin za 0) (xval_float fb)); cbn; split; congruence.
  - (* float, int *)
    unfold num_partial_cmp, num_eq.
    rewrite (cmp_f64_to_number_exact fa rb zb Wa Wb).
    split; [reflexivity|]. apply is_eq_some.
  - (* float, float *)
    unfold num_partial_cmp, num_eq, f_eq, SFeqb.
    destruct fa as [sa|sa| |sa ma ea] eqn:Efa; destruct fb as [sb|sb| |sb mb eb] eqn:Efb;
      try (cbn; split; [reflexivity|split; congruence]);
      try (rewrite (SFcompare_exact _ _ Wa Wb ltac:(discriminate) ltac:(discriminate));
           cbn [f_is_nan andb orb]; split; [reflexivity|];
           match goal with |- context [xcmp ?u ?v] => destruct (xcmp u v) end;
           split; congruence).
    all: try (destruct sa; cbn; (split; [reflexivity|split; congruence])).
    all: try (destruct sb; cbn; (split; [reflexivity|split; congruence])).
Qed.

(* ---------------------------------------------------------------- corollaries *)

Definition is_Eq (c : comparison) : bool := match c with Eq => true | _ => false end.

Lemma num_eq_exact : forall a b, wf_num a -> wf_num b ->
  num_eq a b = is_Eq (xcmp (xval a) (xval b)).
Proof.
  intros a b Wa Wb. destruct (num_cmp_exact a b Wa Wb) as [_ H]. unfold xeq in H.
  destruct (num_eq a b); destruct (xcmp (xval a) (xval b)); cbn; try reflexivity;
    try (destruct H as [H1 H2]; (discriminate (H1 eq_refl) || discriminate (H2 eq_refl))).
Qed.

Lemma num_partial_cmp_exact : forall a b, wf_num a -> wf_num b ->
  num_partial_cmp a b = Some (xcmp (xval a) (xval b)).
Proof. intros a b Wa Wb. apply (num_cmp_exact a b Wa Wb). Qed.

(* the answer of each comparison operator, read off the exact order *)
Definition spec_test (op : cmpop) (c : comparison) : bool :=
  match op with
  | OpEq => is_Eq c
  | OpNe => negb (is_Eq c)
  | OpLt => match c with Lt => true | _ => false end
  | OpLe => match c with Gt => false | _ => true end
  | OpGt => match c with Gt => true | _ => false end
  | OpGe => match c with Lt => false | _ => true end
  end.

Lemma vm_cmp_exact : forall op a b, wf_num a -> wf_num b ->
  vm_cmp op a b = ROk (VBool (spec_test op (xcmp (xval a) (xval b)))).
Proof.
  intros op a b Wa Wb. unfold vm_cmp.
  rewrite (num_eq_exact a b Wa Wb), (num_partial_cmp_exact a b Wa Wb).
  destruct op; cbn [spec_test]; try reflexivity;
    destruct (xcmp (xval a) (xval b)); reflexivity.
Qed.

Lemma num_cmp_refl : forall a, wf_num a ->
  num_partial_cmp a a = Some Eq /\ num_eq a a = true.
Proof.
  intros a W. rewrite (num_partial_cmp_exact a a W W), (num_eq_exact a a W W), xcmp_refl.
  split; reflexivity.
Qed.

Lemma num_cmp_antisym : forall a b, wf_num a -> wf_num b ->
  num_partial_cmp b a = option_map CompOpp (num_partial_cmp a b) /\ num_eq b a = num_eq a b.
Proof.
  intros a b Wa Wb.
  rewrite (num_partial_cmp_exact a b Wa Wb), (num_partial_cmp_exact b a Wb Wa),
    (num_eq_exact a b Wa Wb), (num_eq_exact b a Wb Wa), (xcmp_antisym (xval a) (xval b)).
  split; [reflexivity|]. destruct (xcmp (xval a) (xval b)); reflexivity.
Qed.

Lemma num_cmp_trans : forall r a b c, wf_num a -> wf_num b -> wf_num c ->
  num_partial_cmp a b = Some r -> num_partial_cmp b c = Some r -> num_partial_cmp a c = Some r.
Proof.
  intros r a b c Wa Wb Wc.
  rewrite (num_partial_cmp_exact a b Wa Wb), (num_partial_cmp_exact b c Wb Wc),
    (num_partial_cmp_exact a c Wa Wc).
  intros H1 H2. f_equal. apply (xcmp_trans r _ (xval b)); congruence.
Qed.

Lemma num_eq_trans : forall a b c, wf_num a -> wf_num b -> wf_num c ->
  num_eq a b = true -> num_eq b c = true -> num_eq a c = true.
Proof.
  intros a b c Wa Wb Wc.
  rewrite (num_eq_exact a b Wa Wb), (num_eq_exact b c Wb Wc), (num_eq_exact a c Wa Wc).
  intros H1 H2.
  assert (E1 : xcmp (xval a) (xval b) = Eq) by (destruct (xcmp (xval a) (xval b)); try discriminate; reflexivity).
  assert (E2 : xcmp (xval b) (xval c) = Eq) by (destruct (xcmp (xval b) (xval c)); try discriminate; reflexivity).
  rewrite (xcmp_trans Eq _ _ _ E1 E2). reflexivity.
Qed.

(* == is exactly "the ordering says Equal" *)
Lemma num_eq_iff_cmp_eq : forall a b, wf_num a -> wf_num b ->
  (num_eq a b = true <-> num_partial_cmp a b = Some Eq).
Proof.
  intros a b Wa Wb. rewrite (num_eq_exact a b Wa Wb), (num_partial_cmp_exact a b Wa Wb).
  destruct (xcmp (xval a) (xval b)); cbn; split; congruence.
Qed.

(* numbers that are == are interchangeable in every comparison: the result never depends on
   the representation *)
Lemma num_cmp_rep_independent : forall a a' b, wf_num a -> wf_num a' -> wf_num b ->
  num_eq a a' = true ->
  num_partial_cmp a b = num_partial_cmp a' b /\ num_eq a b = num_eq a' b /\
  num_partial_cmp b a = num_partial_cmp b a' /\ num_eq b a = num_eq b a'.
Proof.
  intros a a' b Wa Wa' Wb.
  rewrite (num_eq_exact a a' Wa Wa'). intro H.
  assert (E : xcmp (xval a) (xval a') = Eq) by (destruct (xcmp (xval a) (xval a')); try discriminate; reflexivity).
  rewrite (num_partial_cmp_exact a b Wa Wb), (num_partial_cmp_exact a' b Wa' Wb),
    (num_partial_cmp_exact b a Wb Wa), (num_partial_cmp_exact b a' Wb Wa'),
    (num_eq_exact a b Wa Wb), (num_eq_exact a' b Wa' Wb), (num_eq_exact b a Wb Wa),
    (num_eq_exact b a' Wb Wa').
  rewrite (xcmp_eq_l _ _ (xval b) E), (xcmp_eq_r (xval b) _ _ E). auto.
Qed.

(* same integer in two representations *)
Lemma same_int_any_rep : forall ra rb z b, rep_ok ra z = true -> rep_ok rb z = true -> wf_num b ->
  num_partial_cmp (VInt ra z) b = num_partial_cmp (VInt rb z) b /\
  num_eq (VInt ra z) b = num_eq (VInt rb z) b.
Proof.
  intros ra rb z b Ha Hb Wb.
  assert (E : num_eq (VInt ra z) (VInt rb z) = true).
  { rewrite (num_eq_exact (VInt ra z) (VInt rb z) Ha Hb). cbn [xval]. rewrite xcmp_refl. reflexivity. }
  destruct (num_cmp_rep_independent (VInt ra z) (VInt rb z) b Ha Hb Wb E) as [H1 [H2 _]].
  auto.
Qed.

Lemma nan_is_greatest : forall b, wf_num b ->
  num_partial_cmp (VFloat S754_nan) b =
    Some (match b with VFloat S754_nan => Eq | _ => Gt end) /\
  num_eq (VFloat S754_nan) (VFloat S754_nan) = true.
Proof.
  intros b Wb. split; [|reflexivity].
  rewrite (num_partial_cmp_exact (VFloat S754_nan) b (eq_refl : wf_num (VFloat S754_nan)) Wb).
  destruct b as [| | |r z|f| | | |]; try contradiction; cbn; [reflexivity|].
  destruct f as [s|s| |s m e]; try reflexivity; destruct s; reflexivity.
Qed.

Lemma zeros_equal : forall r, 
  num_eq (VFloat (S754_zero true)) (VFloat (S754_zero false)) = true /\
  num_eq (VFloat (S754_zero true)) (VInt r 0) = true /\
  num_eq (VInt r 0) (VFloat (S754_zero false)) = true /\
  num_partial_cmp (VFloat (S754_zero true)) (VInt r 0) = Some Eq.
Proof. intro r. vm_compute. auto. Qed.

(* ---------------------------------------------------------------- explicit clauses: ±0, NaN *)

(* -0.0, +0.0 and the integer 0 (any tag): every operator answers as for equal operands —
   == <= >= true, != < > false — in every pairing and in both operand orders *)
Lemma signed_zero_clause : forall sa sb r op,
  vm_cmp op (VFloat (S754_zero sa)) (VFloat (S754_zero sb)) = ROk (VBool (spec_test op Eq)) /\
  vm_cmp op (VFloat (S754_zero sa)) (VInt r 0) = ROk (VBool (spec_test op Eq)) /\
  vm_cmp op (VInt r 0) (VFloat (S754_zero sa)) = ROk (VBool (spec_test op Eq)) /\
  num_partial_cmp (VFloat (S754_zero sa)) (VFloat (S754_zero sb)) = Some Eq /\
  num_eq (VFloat (S754_zero sa)) (VFloat (S754_zero sb)) = true.
Proof. intros sa sb r op. destruct sa, sb, op; vm_compute; auto. Qed.

Lemma xval_nan_iff : forall b, wf_num b -> (xval b = XNaN <-> b = VFloat S754_nan).
Proof.
  intros b W. destruct b as [| | |r z|f| | | |]; try contradiction; cbn.
  - split; discriminate.
  - destruct f as [s|s| |s m e]; try (destruct s); cbn; split; congruence.
Qed.

(* NaN: equal to itself, and after every other number, whichever side it is on *)
Lemma nan_clause : forall b op, wf_num b -> b <> VFloat S754_nan ->
  vm_cmp op (VFloat S754_nan) b = ROk (VBool (spec_test op Gt)) /\
  vm_cmp op b (VFloat S754_nan) = ROk (VBool (spec_test op Lt)) /\
  vm_cmp op (VFloat S754_nan) (VFloat S754_nan) = ROk (VBool (spec_test op Eq)).
Proof.
  intros b op W Hb.
  assert (Wn : wf_num (VFloat S754_nan)) by reflexivity.
  rewrite (vm_cmp_exact op _ _ Wn W), (vm_cmp_exact op _ _ W Wn), (vm_cmp_exact op _ _ Wn Wn).
  assert (Hx : xval b <> XNaN) by (intro E; apply Hb; apply (xval_nan_iff b W); exact E).
  cbn [xval xval_float].
  destruct (xval b) eqn:E; try congruence; cbn; auto.
Qed.
