(* The pinned tree (before D7, D14): where exactly the round trip holds there. *)
From TeraV Require Import Model.Value Model.Format Model.Serde Proofs.FormatProofs Proofs.SerdeProofs.

(* ------------------------------------------------------------------ the pinned tree, exactly *)

Definition no_newtype : ty -> bool :=
  ty_all (fun t => match t with TNewtype _ => false | _ => true end).

Lemma map_res_ext : forall {A B} (f g : A -> res B) l, (forall a, f a = g a) -> map_res f l = map_res g l.
Proof. intros A B f g l H. induction l as [|a l IH]; cbn; [reflexivity|]. rewrite H, IH. reflexivity. Qed.

Lemma zip_res_ext : forall {A B C} (f g : A -> B -> res C) la lb,
  Forall (fun a => forall b, f a b = g a b) la -> zip_res f la lb = zip_res g la lb.
Proof.
  intros A B C f g la lb H. revert lb. induction H as [|a la Ha _ IH]; intro lb; cbn; [reflexivity|].
  destruct lb as [|b lb]; [reflexivity|]. rewrite Ha, IH. reflexivity.
Qed.

Lemma mapi_res_ext : forall {A B} (f g : Z -> A -> res B) l j,
  Forall (fun a => forall j, f j a = g j a) l -> mapi_res f j l = mapi_res g j l.
Proof.
  intros A B f g l j H. revert j. induction H as [|a l Ha _ IH]; intro j; cbn; [reflexivity|].
  rewrite Ha, IH. reflexivity.
Qed.

Lemma find_res_ext : forall {A C} (p : Z -> A -> bool) (f g : A -> res C) l j,
  Forall (fun a => f a = g a) l -> find_res p f j l = find_res p g j l.
Proof.
  intros A C p f g l j H. revert j. induction H as [|a l Ha _ IH]; intro j; cbn; [reflexivity|].
  rewrite Ha, IH. reflexivity.
Qed.

(* away from newtype structs and from the `&Value` entry point the two code versions coincide *)
Lemma pinned_eq_fixed : forall t, no_newtype t = true ->
  forall d x, d <> DRef -> de Pinned t d x = de Fixed t d x.
Proof.
  induction t using ty_ind'; intros Hnn d x Hd; try reflexivity.
  - (* option *)
    cbn [de]. replace (own_option_enum Pinned d) with true by (destruct d; [reflexivity|congruence|reflexivity]).
    rewrite own_option_enum_fixed. rewrite IHt; [reflexivity|eapply ty_all_option; eauto|discriminate].
  - (* newtype: excluded *)
    apply ty_all_here in Hnn. discriminate.
  - cbn [de]. destruct x; try reflexivity.
    rewrite (map_res_ext (de Pinned t DInner) (de Fixed t DInner)); [reflexivity|].
    intro a. apply IHt; [eapply ty_all_seq; eauto|discriminate].
  - cbn [de]. destruct x; try reflexivity.
    rewrite (zip_res_ext (fun t' y => de Pinned t' DInner y) (fun t' y => de Fixed t' DInner y)); [reflexivity|].
    pose proof (ty_all_tuple _ _ Hnn) as Hnn'. clear Hnn.
    induction H as [|t0 ts Ht _ IH]; [constructor|]. inversion Hnn'; subst.
    constructor; [|auto]. intro b. apply Ht; [assumption|discriminate].
  - destruct (ty_all_map _ _ _ Hnn) as [Hk Hv]. cbn [de]. destruct x; try reflexivity.
    match goal with |- res_bind (map_res ?F m) _ = res_bind (map_res ?G m) _ => rewrite (map_res_ext F G) end; [reflexivity|].
    intro a. rewrite IHt1, IHt2; auto; discriminate.
  - pose proof (ty_all_struct _ _ Hnn) as Hnn'. cbn [de]. destruct x; try reflexivity.
    + match goal with |- res_bind (zip_res ?F fs l) _ = res_bind (zip_res ?G fs l) _ => rewrite (zip_res_ext F G) end; [reflexivity|].
      clear Hnn. induction H as [|f fs Hf _ IH]; [constructor|]. inversion Hnn'; subst.
      constructor; [|auto]. intro b. rewrite Hf; [reflexivity|assumption|discriminate].
    + destruct (forallb _ m); [|reflexivity].
      match goal with |- res_bind (mapi_res ?F 0 fs) _ = res_bind (mapi_res ?G 0 fs) _ => rewrite (mapi_res_ext F G) end; [reflexivity|].
      clear Hnn. induction H as [|f fs Hf _ IH]; [constructor|]. inversion Hnn'; subst.
      constructor; [|auto]. intro j. destruct (filter _ m) as [|e [|e' r]]; try reflexivity.
      rewrite Hf; [reflexivity|assumption|discriminate].
  - pose proof (ty_all_enum _ _ Hnn) as Hnn'. cbn [de].
    replace (own_option_enum Pinned d) with true by (destruct d; [reflexivity|congruence|reflexivity]).
    rewrite own_option_enum_fixed.
    assert (Hext : forall params : option value,
      Forall (fun vr : str * (vkind * ty) =>
        match fst (snd vr), params with
        | VKUnit, None => ROk (SVariant (fst vr) VKUnit SUnit)
        | VKUnit, Some p => res_bind (de_unit SUnit p) (fun _ => ROk (SVariant (fst vr) VKUnit SUnit))
        | VKNewtype, Some p => res_bind (de Pinned (snd (snd vr)) DValue p) (fun x0 => ROk (SVariant (fst vr) VKNewtype x0))
        | VKTuple, Some (VArr l) => res_bind (de Pinned (snd (snd vr)) DInner (VArr l)) (fun x0 => ROk (SVariant (fst vr) VKTuple x0))
        | VKStruct, Some (VMap m) => res_bind (de Pinned (snd (snd vr)) DInner (VMap m)) (fun x0 => ROk (SVariant (fst vr) VKStruct x0))
        | _, _ => RErr ErrMsg
        end =
        match fst (snd vr), params with
        | VKUnit, None => ROk (SVariant (fst vr) VKUnit SUnit)
        | VKUnit, Some p => res_bind (de_unit SUnit p) (fun _ => ROk (SVariant (fst vr) VKUnit SUnit))
        | VKNewtype, Some p => res_bind (de Fixed (snd (snd vr)) DValue p) (fun x0 => ROk (SVariant (fst vr) VKNewtype x0))
        | VKTuple, Some (VArr l) => res_bind (de Fixed (snd (snd vr)) DInner (VArr l)) (fun x0 => ROk (SVariant (fst vr) VKTuple x0))
        | VKStruct, Some (VMap m) => res_bind (de Fixed (snd (snd vr)) DInner (VMap m)) (fun x0 => ROk (SVariant (fst vr) VKStruct x0))
        | _, _ => RErr ErrMsg
        end) vs).
    { intros params. clear Hnn. induction H as [|vr vs Hvr _ IH]; [constructor|]. inversion Hnn'; subst.
      constructor; [|auto].
      destruct (fst (snd vr)), params as [p|]; try reflexivity.
      - rewrite Hvr; [reflexivity|assumption|discriminate].
      - destruct p; try reflexivity. rewrite Hvr; [reflexivity|assumption|discriminate].
      - destruct p; try reflexivity. rewrite Hvr; [reflexivity|assumption|discriminate]. }
    destruct x as [| | | | |s sf|l|m|b]; try reflexivity.
    destruct m as [|[k p] [|e r]]; try reflexivity.
    apply find_res_ext. apply (Hext (Some p)).
Qed.

(* by reference, only the top of the type is read differently *)
Lemma pinned_byref_eq_owned : forall t x,
  (match t with TOption _ | TEnum _ => false | _ => true end) = true ->
  de Pinned t DRef x = de Pinned t DValue x.
Proof. intros t x H. destruct t; try discriminate; reflexivity. Qed.

(* on the pinned tree the round trip holds through the owned entry point for every type without a
   newtype struct, and by reference when moreover the type is not an Option or an enum at the top:
   D7 and D14 are the only two ways it fails *)
Theorem pinned_roundtrip_outside_D7_D14 : forall t v x,
  no_newtype t = true -> no_none_like_under_option t = true -> names_ok t = true ->
  has_type v t -> ser v = ROk x ->
  de_entry Pinned Owned t x = ROk v
  /\ ((match t with TOption _ | TEnum _ => false | _ => true end) = true -> de_entry Pinned ByRef t x = ROk v).
Proof.
  intros t v x Hnn Hno Hnm Hty Hs.
  assert (Ho : de_entry Pinned Owned t x = ROk v).
  { unfold de_entry. cbn [dkind_of]. rewrite pinned_eq_fixed; [|assumption|discriminate].
    apply de_ser_roundtrip_strong; assumption. }
  split; [exact Ho|]. intro Htop. unfold de_entry in *. cbn [dkind_of] in *.
  rewrite pinned_byref_eq_owned; assumption.
Qed.
