(* Proofs for C02 (parsing half): the Pratt parser model (Model/Pratt.v), run on what the
   documented-table printer prints, returns the tree that was printed.  Plan: DESIGN.md A.1. *)
From TeraV Require Import Model.Value Model.Pratt Model.PrattSide.
From Coq Require Import String Lia.
Open Scope nat_scope.

(* ------------------------------------------------------------------ tables *)
Lemma all_bops_complete : forall o, In o all_bops.
Proof. destruct o; cbn; tauto. Qed.

Lemma thr_bin : forall bp min p o, thr_ok bp min p = true ->
  (lbp bp o <? min) = (lvl_bin o <? p).
Proof.
  intros bp min p o H. unfold thr_ok in H. apply andb_prop in H. destruct H as [H _].
  rewrite forallb_forall in H. specialize (H o (all_bops_complete o)).
  apply eqb_prop in H.
  destruct (lbp bp o <? min) eqn:E1; destruct (lvl_bin o <? p) eqn:E2; try reflexivity.
  - apply Nat.ltb_lt in E1. apply Nat.ltb_ge in E2.
    assert (min <=? lbp bp o = false) by (apply Nat.leb_gt; lia).
    assert (p <=? lvl_bin o = true) by (apply Nat.leb_le; lia). congruence.
  - apply Nat.ltb_ge in E1. apply Nat.ltb_lt in E2.
    assert (min <=? lbp bp o = true) by (apply Nat.leb_le; lia).
    assert (p <=? lvl_bin o = false) by (apply Nat.leb_gt; lia). congruence.
Qed.

Lemma thr_tern : forall bp min p, thr_ok bp min p = true ->
  (tern_l bp <? min) = (lvl_tern <? p).
Proof.
  intros bp min p H. unfold thr_ok in H. apply andb_prop in H. destruct H as [_ H].
  apply eqb_prop in H.
  destruct (tern_l bp <? min) eqn:E1; destruct (lvl_tern <? p) eqn:E2; try reflexivity.
  - apply Nat.ltb_lt in E1. apply Nat.ltb_ge in E2.
    assert (min <=? tern_l bp = false) by (apply Nat.leb_gt; lia).
    assert (p <=? lvl_tern = true) by (apply Nat.leb_le; lia). congruence.
  - apply Nat.ltb_ge in E1. apply Nat.ltb_lt in E2.
    assert (min <=? tern_l bp = true) by (apply Nat.leb_le; lia).
    assert (p <=? lvl_tern = false) by (apply Nat.leb_gt; lia). congruence.
Qed.

Definition infix (o : bop) : bool := match o with OIs | OPipe => false | _ => true end.

Lemma infix_in : forall o, infix o = true -> In o infix_bops.
Proof. destruct o; cbn; intros; try discriminate; tauto. Qed.

Lemma wf_thr0 : forall bp, wf_bp bp = true -> thr_ok bp 0 0 = true.
Proof. intros bp H. unfold wf_bp in H. repeat (apply andb_prop in H; destruct H as [H ?]). exact H. Qed.

Lemma wf_thr_r : forall bp o, wf_bp bp = true -> infix o = true -> thr_ok bp (rbp bp o) (rp o) = true.
Proof.
  intros bp o H Hi. unfold wf_bp in H. repeat (apply andb_prop in H; destruct H as [H ?]).
  match goal with X : forallb _ infix_bops = true |- _ => rewrite forallb_forall in X; apply X end.
  apply infix_in; exact Hi.
Qed.

Lemma wf_thr_u : forall bp u, wf_bp bp = true -> thr_ok bp (un_bp bp u) (lvl_un u) = true.
Proof.
  intros bp u H. unfold wf_bp in H. repeat (apply andb_prop in H; destruct H as [H ?]).
  match goal with X : forallb _ all_unops = true |- _ => rewrite forallb_forall in X; apply X end.
  destruct u; cbn; tauto.
Qed.

(* ------------------------------------------------------------------ keywords and tokens *)
Lemma classify_bop : forall o, classify (tok_bop o) = LOp o.
Proof. destruct o; reflexivity. Qed.

Lemma kw_not : kw_of (s2l "not") = KNot. Proof. reflexivity. Qed.
Lemma kw_in : kw_of (s2l "in") = KIn. Proof. reflexivity. Qed.
Lemma kw_is : kw_of (s2l "is") = KIs. Proof. reflexivity. Qed.
Lemma kw_if : kw_of (s2l "if") = KIf. Proof. reflexivity. Qed.
Lemma kw_else : kw_of (s2l "else") = KElse. Proof. reflexivity. Qed.
Lemma kw_none : kw_of (s2l "none") = KNone. Proof. reflexivity. Qed.

Lemma refused_mono : forall p p' t, refused p t = true -> p <= p' -> refused p' t = true.
Proof.
  intros p p' t H Hle. unfold refused in *.
  destruct (classify t); try exact H; try discriminate;
    apply Nat.ltb_lt in H; apply Nat.ltb_lt; lia.
Qed.

Lemma closer_refused : forall p t, closer t = true -> refused p t = true.
Proof. intros p t H. unfold closer, refused in *. destruct (classify t); try discriminate; reflexivity. Qed.

Lemma closer_not_chain : forall t, closer t = true -> chain_tok t = false.
Proof.
  intros t H. unfold closer in H. destruct (classify t); try discriminate.
  destruct (chain_tok t); [discriminate | reflexivity].
Qed.

Lemma chain_tok_lparen : forall t, chain_tok t = false -> is_lparen t = false.
Proof. destruct t; cbn; intros; try reflexivity; discriminate. Qed.

(* ------------------------------------------------------------------ the loop stops at a refused token *)
Section WithTable.
Variable bp : bp_table.
Variable maxb maxdim : nat.
Variable P : nat * nat -> nat -> list token -> pres.

Notation LOOP := (loop bp maxb P).

Lemma loop_stop : forall c min p k lhs ts,
  thr_ok bp min p = true -> refusedL p ts = true ->
  LOOP c min (S k) false lhs ts = Some (lhs, ts).
Proof.
  intros c min p k lhs ts Hthr Href.
  destruct ts as [|t ts1]; [reflexivity|].
  cbn [refusedL] in Href. unfold refused in Href.
  cbn [loop]. destruct (classify t) eqn:Ec; try discriminate.
  - rewrite (thr_bin _ _ _ o Hthr), Href. reflexivity.
  - rewrite (thr_bin _ _ _ OIn Hthr), Href. reflexivity.
  - rewrite (thr_tern _ _ _ Hthr), Href. reflexivity.
  - reflexivity.
Qed.

End WithTable.

(* ------------------------------------------------------------------ shape of printed text *)
Definition starter (t : token) : bool :=
  match t with
  | TInt _ | TFloat _ | TStr _ | TBool _ | TIdent _ | TMinus | TLParen | TLBracket | TLBrace => true
  | _ => false
  end.

Lemma wrap_cases : forall p l ts, wrap p l ts = ts \/ wrap p l ts = TLParen :: ts ++ [TRParen].
Proof. intros. unfold wrap, paren. destruct (l <? p); auto. Qed.

Lemma raw_hd : forall s, printable s = true -> exists t r, raw s = t :: r /\ starter t = true.
Proof.
  induction s; cbn [printable raw]; intros Hp; try discriminate.
  - destruct c; try discriminate; cbn; eauto.
  - eauto.
  - apply andb_prop in Hp. destruct Hp as [_ Hp]. destruct (IHs Hp) as (t & r & E & St).
    rewrite E. cbn. eauto.
  - apply andb_prop in Hp. destruct Hp as [Hp _]. apply andb_prop in Hp. destruct Hp as [_ Hp].
    destruct (IHs1 Hp) as (t & r & E & St).
    destruct (wrap_cases lvl_atom (lvl s1) (raw s1)) as [W|W]; rewrite W; [rewrite E|]; cbn; eauto.
  - repeat (apply andb_prop in Hp; destruct Hp as [Hp ?]).
    match goal with X : printable s = true |- _ => destruct (IHs X) as (t & r & E & St) end.
    destruct (wrap_cases lvl_atom (lvl s) (raw s)) as [W|W]; rewrite W; [rewrite E|]; cbn; eauto.
  - destruct u; cbn; eauto.
  - apply andb_prop in Hp. destruct Hp as [Hp _]. apply andb_prop in Hp. destruct Hp as [_ Hp].
    destruct (IHs1 Hp) as (t & r & E & St).
    destruct (wrap_cases (lp o) (lvl s1) (raw s1)) as [W|W]; rewrite W; [rewrite E|]; cbn; eauto.
  - apply andb_prop in Hp. destruct Hp as [Hp _].
    destruct (IHs1 Hp) as (t & r & E & St).
    destruct (wrap_cases (lp OIn) (lvl s1) (raw s1)) as [W|W]; rewrite W; [rewrite E|]; cbn; eauto.
  - repeat (apply andb_prop in Hp; destruct Hp as [Hp ?]).
    destruct (IHs Hp) as (t & r & E & St).
    destruct (wrap_cases (lp OIs) (lvl s) (raw s)) as [W|W]; rewrite W; [rewrite E|]; cbn; eauto.
  - repeat (apply andb_prop in Hp; destruct Hp as [Hp ?]).
    destruct (IHs Hp) as (t & r & E & St).
    destruct (wrap_cases (lp OPipe) (lvl s) (raw s)) as [W|W]; rewrite W; [rewrite E|]; cbn; eauto.
  - cbn. eauto.
  - repeat (apply andb_prop in Hp; destruct Hp as [Hp ?]).
    match goal with X : printable s2 = true |- _ => destruct (IHs2 X) as (t & r & E & St) end.
    destruct (wrap_cases (S lvl_tern) (lvl s2) (raw s2)) as [W|W]; rewrite W; [rewrite E|]; cbn; eauto.
  - unfold paren. cbn. eauto.
  - do 2 eexists; split; reflexivity.
  - do 2 eexists; split; reflexivity.
  - do 2 eexists; split; reflexivity.
Qed.

(* ------------------------------------------------------------------ follow *)
Lemma follow_closer : forall s t, closer t = true -> follow s t = true.
Proof.
  intros s t Hc. pose proof (closer_not_chain _ Hc) as Hn.
  pose proof (chain_tok_lparen _ Hn) as Hl.
  induction s; cbn [follow]; try reflexivity.
  - rewrite Hn; reflexivity.
  - rewrite Hn; reflexivity.
  - destruct (is_chain s1); [rewrite Hn|]; reflexivity.
  - destruct (is_chain s); [rewrite Hn|]; reflexivity.
  - rewrite (closer_refused _ _ Hc). cbn [andb].
    destruct ((lvl s <? lvl_un u) || starts_unary (raw s)); auto.
  - rewrite (closer_refused _ _ Hc). cbn [andb]. destruct (lvl s2 <? rp o); auto.
  - rewrite (closer_refused _ _ Hc). cbn [andb]. destruct (lvl s2 <? rp OIn); auto.
  - destruct kw; [rewrite Hl|]; reflexivity.
  - destruct kw; [rewrite Hl|]; reflexivity.
  - rewrite (closer_refused _ _ Hc). cbn [andb]. auto.
Qed.

Lemma rp_ge : forall o, lvl_bin o <= rp o.
Proof. intros o. unfold rp. destruct (right_assoc o); lia. Qed.
Lemma lp_ge : forall o, lvl_bin o <= lp o.
Proof. intros o. unfold lp. destruct (right_assoc o); lia. Qed.

Lemma follow_bare : forall pa P0 t,
  1 <= pa ->
  (forall o1, pa <= lvl_bin o1 -> P0 <= rp o1) ->
  (forall u, pa <= lvl_un u -> P0 <= lvl_un u) ->
  refused P0 t = true -> chain_tok t = false ->
  forall a, pa <= lvl a -> follow a t = true.
Proof.
  intros pa P0 t Hpa Fb Fu Hr Hn.
  pose proof (chain_tok_lparen _ Hn) as Hl.
  induction a; cbn [follow lvl]; intros Hlv; try reflexivity.
  - rewrite Hn; reflexivity.
  - rewrite Hn; reflexivity.
  - destruct (is_chain a1); [rewrite Hn|]; reflexivity.
  - destruct (is_chain a); [rewrite Hn|]; reflexivity.
  - rewrite (refused_mono _ _ _ Hr (Fu u Hlv)). cbn [andb].
    destruct ((lvl a <? lvl_un u) || starts_unary (raw a)) eqn:E; [reflexivity|].
    apply orb_false_elim in E. destruct E as [E _]. apply Nat.ltb_ge in E. apply IHa. lia.
  - rewrite (refused_mono _ _ _ Hr (Fb o Hlv)). cbn [andb].
    destruct (lvl a2 <? rp o) eqn:E; [reflexivity|].
    apply Nat.ltb_ge in E. apply IHa2. pose proof (rp_ge o). lia.
  - rewrite (refused_mono _ _ _ Hr (Fb OIn Hlv)). cbn [andb].
    destruct (lvl a2 <? rp OIn) eqn:E; [reflexivity|].
    apply Nat.ltb_ge in E. apply IHa2. pose proof (rp_ge OIn). cbn in *. lia.
  - destruct kw; [rewrite Hl|]; reflexivity.
  - destruct kw; [rewrite Hl|]; reflexivity.
  - unfold lvl_tern in Hlv. lia.
Qed.

Lemma fact_bin : forall o o1, lp o <= lvl_bin o1 -> S (lvl_bin o) <= rp o1.
Proof. destruct o, o1; cbn; lia. Qed.
Lemma fact_un : forall o u, lp o <= lvl_un u -> S (lvl_bin o) <= lvl_un u.
Proof. destruct o, u; cbn; lia. Qed.
Lemma lp_pos : forall o, 1 <= lp o.
Proof. destruct o; cbn; lia. Qed.
Lemma chain_tok_bop : forall o, chain_tok (tok_bop o) = false.
Proof. destruct o; reflexivity. Qed.
Lemma refused_bop : forall o, refused (S (lvl_bin o)) (tok_bop o) = true.
Proof. intros o. unfold refused. rewrite classify_bop. apply Nat.ltb_lt. lia. Qed.

(* a bare left operand of `o` is not disturbed by the operator token *)
Lemma follow_left_bop : forall o a, lp o <= lvl a -> follow a (tok_bop o) = true.
Proof.
  intros o a H.
  apply (follow_bare (lp o) (S (lvl_bin o))); auto using lp_pos, fact_bin, fact_un, refused_bop, chain_tok_bop.
Qed.

Lemma follow_left_not : forall a, lp OIn <= lvl a -> follow a (TIdent (s2l "not")) = true.
Proof.
  intros a H.
  apply (follow_bare (lp OIn) (S (lvl_bin OIn))); auto using lp_pos, fact_bin, fact_un.
Qed.

Lemma follow_left_if : forall a, S lvl_tern <= lvl a -> follow a (TIdent (s2l "if")) = true.
Proof.
  intros a H.
  apply (follow_bare 1 1); auto.
  all: try (intros o1 _; destruct o1; cbn; lia).
Qed.

(* ------------------------------------------------------------------ strings *)
Lemma str_eqb_eq : forall a b : str, str_eqb a b = true <-> a = b.
Proof.
  unfold str_eqb. induction a as [|x a IH]; destruct b as [|y b]; cbn; split; intros H; try reflexivity; try discriminate.
  - apply andb_prop in H. destruct H as [H1 H2]. apply N.eqb_eq in H1. apply IH in H2. congruence.
  - inversion H; subst. rewrite N.eqb_refl. cbn. apply IH. reflexivity.
Qed.

Lemma nodup_names_NoDup : forall l, nodup_names l = true -> NoDup l.
Proof.
  induction l as [|x l IH]; cbn; intros H; constructor.
  - apply andb_prop in H. destruct H as [H _]. intros Hin.
    assert (existsb (str_eqb x) l = true).
    { apply existsb_exists. exists x. split; [exact Hin|]. apply str_eqb_eq. reflexivity. }
    rewrite H0 in H. discriminate.
  - apply andb_prop in H. destruct H as [_ H]. auto.
Qed.

Lemma kw_mem_false : forall n (acc : list (str * expr)), ~ In n (map fst acc) -> kw_mem n acc = false.
Proof.
  intros n acc H. unfold kw_mem. destruct (existsb _ acc) eqn:E; [|reflexivity].
  apply existsb_exists in E. destruct E as (p & Hin & Heq). apply str_eqb_eq in Heq. subst.
  exfalso. apply H. apply in_map. exact Hin.
Qed.

(* ------------------------------------------------------------------ unfolding lemmas *)
Lemma loop_S : forall bp maxb P c min k neg lhs t ts1,
  loop bp maxb P c min (S k) neg lhs (t :: ts1) =
  match classify t with
  | LBreak => Some (lhs, t :: ts1)
  | LNot =>
      if lbp bp OIn <? min then Some (lhs, t :: ts1) else
      match hd_kw ts1 with KIn => loop bp maxb P c min k true lhs ts1 | _ => None end
  | LSub =>
      match parse_subscript maxb P c lhs (t :: ts1) with
      | Some (e, ts2) => loop bp maxb P c min k neg e ts2
      | None => None
      end
  | LIf =>
      if tern_l bp <? min then Some (lhs, t :: ts1) else
      match P c 0 ts1 with
      | Some (cnd, ts2) =>
          match hd_kw ts2 with
          | KElse => match P c 0 (tl ts2) with
                     | Some (f, ts3) => Some (ETern cnd lhs f, ts3)
                     | None => None
                     end
          | _ => None
          end
      | None => None
      end
  | LOp o =>
      if lbp bp o <? min then Some (lhs, t :: ts1) else
      let isnot := bop_eqb o OIs && (match hd_kw ts1 with KNot => true | _ => false end) in
      let neg1 := if isnot then true else neg in
      let ts2 := if isnot then tl ts1 else ts1 in
      let r :=
        if bop_eqb o OIs then
          match parse_named P c ts2 with
          | Some (n, kw, ts3) => Some (ETest lhs n kw, ts3) | None => None end
        else if bop_eqb o OPipe then
          match parse_named P c ts2 with
          | Some (n, kw, ts3) => Some (EFilter lhs n kw, ts3) | None => None end
        else
          match P c (rbp bp o) ts2 with
          | Some (rhs, ts3) =>
              if is_concat o && is_unary rhs then None else Some (EBin o lhs rhs, ts3)
          | None => None
          end in
      match r with
      | None => None
      | Some (e, ts3) => loop bp maxb P c min k false (if neg1 then EUn UNot e else e) ts3
      end
  end.
Proof. reflexivity. Qed.

Lemma wrap_len : forall p l ts, List.length ts <= List.length (wrap p l ts).
Proof.
  intros. unfold wrap, paren. destruct (l <? p); cbn; [rewrite app_length; cbn|]; lia.
Qed.

Lemma spine_le : forall s, spine s <= List.length (raw s).
Proof.
  induction s; cbn [spine raw]; try lia.
  - destruct (is_chain s1); [lia|].
    rewrite app_length. pose proof (wrap_len lvl_atom (lvl s1) (raw s1)).
    destruct (lvl s1 <? lvl_atom); cbn [List.length app]; rewrite ?app_length; cbn; lia.
  - destruct (is_chain s); [lia|].
    rewrite app_length. pose proof (wrap_len lvl_atom (lvl s) (raw s)).
    destruct (lvl s <? lvl_atom); cbn [List.length app]; rewrite ?app_length; cbn; lia.
  - rewrite app_length. pose proof (wrap_len (lp o) (lvl s1) (raw s1)).
    destruct (lvl s1 <? lp o); cbn [List.length]; lia.
  - rewrite app_length. pose proof (wrap_len (lp OIn) (lvl s1) (raw s1)).
    destruct (lvl s1 <? lp OIn); cbn [List.length]; lia.
  - rewrite app_length. pose proof (wrap_len (lp OIs) (lvl s) (raw s)).
    destruct (lvl s <? lp OIs); cbn [List.length]; lia.
  - rewrite app_length. pose proof (wrap_len (lp OPipe) (lvl s) (raw s)).
    destruct (lvl s <? lp OPipe); cbn [List.length]; lia.
  - rewrite app_length. pose proof (wrap_len (S lvl_tern) (lvl s2) (raw s2)).
    destruct (lvl s2 <? S lvl_tern); cbn [List.length]; lia.
Qed.

Lemma need_pos : forall s, 1 <= need s.
Proof.
  destruct s; cbn [need]; try lia.
  - induction s; cbn [need]; try lia.
Qed.

(* ------------------------------------------------------------------ the round trip *)
Ltac hdis :=
  repeat match goal with
  | |- context [hd_is (?t :: ?r) ?b] =>
      first [ change (hd_is (t :: r) b) with true | change (hd_is (t :: r) b) with false ]
  | |- context [tis ?t ?b] =>
      first [ change (tis t b) with true | change (tis t b) with false ]
  end; cbv beta iota; cbn [tl orb andb].

Section RoundTrip.
Variable bp : bp_table.
Hypothesis Hwf : wf_bp bp = true.
Variable maxb maxdim : nat.

Notation PA := (parse bp maxb maxdim).
Notation LOOP d := (loop bp maxb (parse bp maxb maxdim d)).
Notation BODYK d := (body_k bp maxb maxdim (parse bp maxb maxdim d)).

Lemma PA_S : forall d c min ts,
  PA (S d) c min ts = BODYK d c min (S (List.length ts)) ts.
Proof. reflexivity. Qed.

Definition fits (s : sx) (c : nat * nat) : Prop := fst c + needb s <= maxb /\ snd c + needa s <= maxdim.

(* parsing the bare text of s, in a frame that accepts level p <= lvl s *)
Definition TBp (s : sx) : Prop := forall d c min p ts,
  thr_ok bp min p = true -> p <= lvl s -> printable s = true -> need s <= d -> fits s c ->
  refusedL p ts = true -> followL s ts = true ->
  PA d c min (raw s ++ ts) = Some (desugar s, ts).

(* main lemma: the frame that reads `raw s` ends up in its operator loop with lhs = s *)
Definition MLp (s : sx) : Prop := forall d c min p k R ts,
  thr_ok bp min p = true -> p <= lvl s -> printable s = true -> need s <= S d -> fits s c ->
  followL s ts = true ->
  LOOP d c min k false (desugar s) ts = Some R ->
  BODYK d c min (k + spine s) (raw s ++ ts) = Some R.

Definition TPp (s : sx) : Prop := forall d c min p ts,
  thr_ok bp min p = true -> printable s = true -> S (need s) <= d -> fits s c ->
  refusedL p ts = true ->
  PA d c min (paren (raw s) ++ ts) = Some (desugar s, ts).

Definition TOPp (s : sx) : Prop := forall d c min p ts,
  thr_ok bp min p = true -> printable s = true -> needw p (lvl s) (need s) <= d -> fits s c ->
  refusedL p ts = true -> (lvl s <? p = false -> followL s ts = true) ->
  PA d c min (wrap p (lvl s) (raw s) ++ ts) = Some (desugar s, ts).

Lemma tb_of_ml : forall s, MLp s -> TBp s.
Proof.
  intros s ML d c min p ts Hthr Hp Hpr Hn Hf Hr Hfo.
  destruct d as [|d]; [pose proof (need_pos s); lia|].
  rewrite PA_S.
  pose proof (spine_le s) as Hs.
  set (K := S (List.length (raw s ++ ts))).
  assert (HK : K = (K - spine s) + spine s).
  { subst K. rewrite app_length. lia. }
  rewrite HK. eapply ML; eauto.
  assert (exists k', K - spine s = S k') as [k' Hk'].
  { subst K. rewrite app_length. exists (List.length (raw s) + List.length ts - spine s). lia. }
  rewrite Hk'. eapply loop_stop; eauto.
Qed.

Lemma closerL_refusedL : forall p ts, closerL ts = true -> refusedL p ts = true.
Proof. intros p [|t ts] H; [reflexivity|]. cbn in *. apply closer_refused; exact H. Qed.
Lemma closerL_followL : forall s ts, closerL ts = true -> followL s ts = true.
Proof. intros s [|t ts] H; [reflexivity|]. cbn in *. apply follow_closer; exact H. Qed.

Ltac side :=
  first [ exact (wf_thr0 _ Hwf) | assumption | lia | reflexivity
        | apply closerL_followL; reflexivity | apply closerL_refusedL; reflexivity ].

Lemma tp_of_tb : forall s, TBp s -> TPp s.
Proof.
  intros s TB d c min p ts Hthr Hpr Hn Hf Hr.
  destruct d as [|d]; [lia|].
  rewrite PA_S. unfold paren. cbn [app]. rewrite <- app_assoc. cbn [app].
  unfold body_k. unfold Pratt.prefix.
  rewrite (TB d c 0 0 (TRParen :: ts)); try solve [side].
  hdis.
  eapply loop_stop; eauto.
Qed.

Lemma top_of : forall s, TBp s -> TOPp s.
Proof.
  intros s TB d c min p ts Hthr Hpr Hn Hf Hr Hfo.
  unfold wrap, needw in *. destruct (lvl s <? p) eqn:E.
  - eapply (tp_of_tb s TB); eauto.
  - apply Nat.ltb_ge in E. eapply TB; eauto.
Qed.

(* the left operand of a spine item, bare or parenthesised *)
Lemma left_op : forall a pa, MLp a -> TBp a ->
  forall d c min p k R ts,
  thr_ok bp min p = true -> p <= pa -> printable a = true ->
  needw pa (lvl a) (need a) <= S d -> fits a c ->
  (lvl a <? pa = false -> followL a ts = true) ->
  LOOP d c min k false (desugar a) ts = Some R ->
  BODYK d c min (k + (if lvl a <? pa then 0 else spine a)) (wrap pa (lvl a) (raw a) ++ ts) = Some R.
Proof.
  intros a pa ML TB d c min p k R ts Hthr Hp Hpr Hn Hf Hfo HL.
  unfold wrap, needw in *. destruct (lvl a <? pa) eqn:E.
  - unfold paren. cbn [app]. rewrite <- app_assoc. cbn [app].
    unfold body_k. unfold Pratt.prefix.
    rewrite (TB d c 0 0 (TRParen :: ts)); try solve [side].
    hdis. rewrite Nat.add_0_r. exact HL.
  - apply Nat.ltb_ge in E. eapply ML; eauto. lia.
Qed.

Lemma infix_not_is : forall o, infix o = true -> bop_eqb o OIs = false /\ bop_eqb o OPipe = false.
Proof. destruct o; cbn; intros; try discriminate; auto. Qed.

Lemma starts_unary_false : forall t r r',
  starts_unary (t :: r) = false ->
  hd_is (t :: r') TMinus = false /\ hd_kw (t :: r') <> KNot.
Proof.
  intros t r r' H. destruct t; cbn in *; try discriminate; split; try reflexivity; try discriminate.
  destruct (kw_of s); try discriminate; congruence.
Qed.

Lemma ml_const : forall c, MLp (SConst c).
Proof.
  intros c d cc min p k R ts Hthr Hp Hpr Hn Hf Hfo HL.
  cbn [printable] in Hpr. cbn [spine raw desugar] in *. rewrite Nat.add_0_r.
  destruct c; try discriminate; cbn [tok_const app]; unfold body_k, Pratt.prefix; try exact HL.
Qed.

Lemma ml_paren : forall e, TBp e -> MLp (SParen e).
Proof.
  intros e TB d c min p k R ts Hthr Hp Hpr Hn Hf Hfo HL.
  cbn [printable need spine raw desugar] in *. unfold fits in *. cbn [needb needa] in Hf.
  rewrite Nat.add_0_r. unfold paren. cbn [app]. rewrite <- app_assoc. cbn [app].
  unfold body_k, Pratt.prefix.
  rewrite (TB d c 0 0 (TRParen :: ts)); try solve [side].
Qed.

Lemma ml_un : forall u e, TBp e -> MLp (SUn u e).
Proof.
  intros u e TB d c min p k R ts Hthr Hp Hpr Hn Hf Hfo HL.
  pose proof (tp_of_tb e TB) as TP.
  cbn [printable need spine raw desugar] in *. unfold fits in *. cbn [needb needa] in Hf.
  rewrite Nat.add_0_r.
  assert (Hpre : Pratt.prefix bp maxb maxdim (PA d) c
            ((tok_unop u :: (if (lvl e <? lvl_un u) || starts_unary (raw e) then paren (raw e) else raw e)) ++ ts)
          = Some (EUn u (desugar e), ts)).
  { assert (Hpu : forall rest, Pratt.prefix bp maxb maxdim (PA d) c (tok_unop u :: rest)
                    = parse_unary bp (PA d) c u rest).
    { intros rest. destruct u; reflexivity. }
    cbn [app]. rewrite Hpu. unfold parse_unary.
    destruct ts as [|t0 ts0] eqn:Ets.
    - (* nothing follows *)
      destruct ((lvl e <? lvl_un u) || starts_unary (raw e)) eqn:E.
      + unfold paren. cbn [app]. hdis. change (hd_kw (TLParen :: (raw e ++ [TRParen]) ++ [])) with KPlain. cbv iota.
        change (TLParen :: (raw e ++ [TRParen]) ++ []) with (paren (raw e) ++ []).
        rewrite (TP d c (un_bp bp u) (lvl_un u) []); try solve [side]; auto using wf_thr_u; try lia.
      + apply orb_false_elim in E. destruct E as [E1 E2]. apply Nat.ltb_ge in E1.
        destruct (raw_hd e Hpr) as (t & r & Er & _). rewrite Er in E2.
        destruct (starts_unary_false t r (r ++ []) E2) as [H1 H2].
        assert (Hk : forall (X Y : pres), hd_kw (t :: r ++ []) <> KNot ->
                 match hd_kw (t :: r ++ []) with KNot => X | _ => Y end = Y).
        { intros X Y Hne. destruct (hd_kw (t :: r ++ [])); congruence. }
        rewrite Er. cbn [app]. rewrite H1, Hk by exact H2.
        change (t :: r ++ []) with ((t :: r) ++ []). rewrite <- Er.
        rewrite (TB d c (un_bp bp u) (lvl_un u) []); try solve [side]; auto using wf_thr_u; try lia.
    - cbn [followL follow] in Hfo. apply andb_prop in Hfo. destruct Hfo as [Hre Hfo].
      destruct ((lvl e <? lvl_un u) || starts_unary (raw e)) eqn:E.
      + unfold paren. cbn [app]. hdis.
        change (hd_kw (TLParen :: (raw e ++ [TRParen]) ++ t0 :: ts0)) with KPlain. cbv iota.
        change (TLParen :: (raw e ++ [TRParen]) ++ t0 :: ts0) with (paren (raw e) ++ t0 :: ts0).
        rewrite (TP d c (un_bp bp u) (lvl_un u) (t0 :: ts0)); try solve [side]; auto using wf_thr_u; try lia.
      + apply orb_false_elim in E. destruct E as [E1 E2]. apply Nat.ltb_ge in E1.
        destruct (raw_hd e Hpr) as (t & r & Er & _). rewrite Er in E2.
        destruct (starts_unary_false t r (r ++ t0 :: ts0) E2) as [H1 H2].
        assert (Hk : forall (X Y : pres), hd_kw (t :: r ++ t0 :: ts0) <> KNot ->
                 match hd_kw (t :: r ++ t0 :: ts0) with KNot => X | _ => Y end = Y).
        { intros X Y Hne. destruct (hd_kw (t :: r ++ t0 :: ts0)); congruence. }
        rewrite Er. cbn [app]. rewrite H1, Hk by exact H2.
        change (t :: r ++ t0 :: ts0) with ((t :: r) ++ t0 :: ts0). rewrite <- Er.
        rewrite (TB d c (un_bp bp u) (lvl_un u) (t0 :: ts0)); try solve [side]; auto using wf_thr_u; try lia. }
  unfold body_k. rewrite Hpre. exact HL.
Qed.

Lemma max_le_l : forall a b c, Nat.max a b <= c -> a <= c. Proof. intros; lia. Qed.
Lemma max_le_r : forall a b c, Nat.max a b <= c -> b <= c. Proof. intros; lia. Qed.

Lemma ml_bin : forall o a b, MLp a -> TBp a -> TBp b -> MLp (SBin o a b).
Proof.
  intros o a b MLa TBa TBb d c min p k R ts Hthr Hp Hpr Hn Hf Hfo HL.
  pose proof (top_of b TBb) as TOPb.
  cbn [printable] in Hpr. apply andb_prop in Hpr. destruct Hpr as [Hpr Hpb].
  apply andb_prop in Hpr. destruct Hpr as [Ho Hpa].
  assert (Hinf : infix o = true) by (destruct o; cbn in *; try discriminate; reflexivity).
  assert (Hcc : is_concat o && is_unary (desugar b) = false).
  { destruct o; cbn in *; try reflexivity. destruct (is_unary (desugar b)); cbn in *; congruence. }
  destruct (infix_not_is o Hinf) as [Hnis Hnpipe].
  cbn [need] in Hn. unfold fits in *. cbn [needb needa] in Hf. cbn [lvl] in Hp.
  cbn [raw spine desugar] in *.
  rewrite <- app_assoc. cbn [app].
  replace (k + S (if lvl a <? lp o then 0 else spine a)) with (S k + (if lvl a <? lp o then 0 else spine a)) by lia.
  assert (Hfb : refusedL (rp o) ts = true /\ (lvl b <? rp o = false -> followL b ts = true)).
  { destruct ts as [|t0 ts0]; [split; reflexivity|]. cbn [followL follow refusedL] in *.
    apply andb_prop in Hfo. destruct Hfo as [H1 H2]. split; [exact H1|].
    intros E. rewrite E in H2. exact H2. }
  destruct Hfb as [Hrb Hfb].
  eapply (left_op a (lp o) MLa TBa); eauto.
  - pose proof (lp_ge o). lia.
  - lia.
  - unfold fits. lia.
  - intros E. apply Nat.ltb_ge in E. cbn [followL]. apply follow_left_bop. exact E.
  - rewrite loop_S, classify_bop.
    rewrite (thr_bin _ _ _ o Hthr).
    assert (E : lvl_bin o <? p = false) by (apply Nat.ltb_ge; lia). rewrite E.
    rewrite Hnis, Hnpipe. cbn [andb]. cbv zeta.
    rewrite (TOPb d c (rbp bp o) (rp o) ts); auto using wf_thr_r; try lia; try (unfold fits; lia).
    rewrite Hcc. exact HL.
Qed.

Lemma ml_notin : forall a b, MLp a -> TBp a -> TBp b -> MLp (SNotIn a b).
Proof.
  intros a b MLa TBa TBb d c min p k R ts Hthr Hp Hpr Hn Hf Hfo HL.
  pose proof (top_of b TBb) as TOPb.
  cbn [printable] in Hpr. apply andb_prop in Hpr. destruct Hpr as [Hpa Hpb].
  cbn [need] in Hn. unfold fits in *. cbn [needb needa] in Hf. cbn [lvl] in Hp.
  cbn [raw spine desugar] in *.
  rewrite <- app_assoc. cbn [app].
  replace (k + S (S (if lvl a <? lp OIn then 0 else spine a)))
    with (S (S k) + (if lvl a <? lp OIn then 0 else spine a)) by lia.
  assert (Hfb : refusedL (rp OIn) ts = true /\ (lvl b <? rp OIn = false -> followL b ts = true)).
  { destruct ts as [|t0 ts0]; [split; reflexivity|]. cbn [followL follow refusedL] in *.
    apply andb_prop in Hfo. destruct Hfo as [H1 H2]. split; [exact H1|].
    intros E. rewrite E in H2. exact H2. }
  destruct Hfb as [Hrb Hfb].
  eapply (left_op a (lp OIn) MLa TBa); eauto.
  - lia.
  - unfold fits. lia.
  - intros E. apply Nat.ltb_ge in E. cbn [followL]. apply follow_left_not. exact E.
  - rewrite loop_S. change (classify (TIdent (s2l "not"))) with LNot. cbv iota.
    rewrite (thr_bin _ _ _ OIn Hthr).
    assert (E : lvl_bin OIn <? p = false) by (apply Nat.ltb_ge; lia). rewrite E.
    change (hd_kw (TIdent (s2l "in") :: wrap (rp OIn) (lvl b) (raw b) ++ ts)) with KIn. cbv iota.
    rewrite loop_S. change (classify (TIdent (s2l "in"))) with (LOp OIn). cbv iota.
    rewrite (thr_bin _ _ _ OIn Hthr), E.
    change (bop_eqb OIn OIs) with false. change (bop_eqb OIn OPipe) with false.
    cbn [andb]. cbv zeta. cbv iota.
    rewrite (TOPb d c (rbp bp OIn) (rp OIn) ts); auto using wf_thr_r; try lia; try (unfold fits; lia).
Qed.

Lemma ml_tern : forall cnd t f, MLp t -> TBp t -> TBp cnd -> TBp f -> MLp (STern cnd t f).
Proof.
  intros cnd t f MLt TBt TBc TBf d c min p k R ts Hthr Hp Hpr Hn Hf Hfo HL.
  cbn [printable] in Hpr. apply andb_prop in Hpr. destruct Hpr as [Hpr Hpf].
  apply andb_prop in Hpr. destruct Hpr as [Hpc Hpt].
  cbn [need] in Hn. unfold fits in *. cbn [needb needa] in Hf. cbn [lvl] in Hp. unfold lvl_tern in Hp.
  assert (p = 0) by lia. subst p.
  cbn [raw spine desugar] in *.
  rewrite <- app_assoc. cbn [app]. rewrite <- app_assoc. cbn [app].
  replace (k + S (if lvl t <? S lvl_tern then 0 else spine t))
    with (S k + (if lvl t <? S lvl_tern then 0 else spine t)) by lia.
  assert (Hfb : refusedL 0 ts = true /\ followL f ts = true).
  { destruct ts as [|t0 ts0]; [split; reflexivity|]. cbn [followL follow refusedL] in *.
    apply andb_prop in Hfo. exact Hfo. }
  destruct Hfb as [Hrb Hfb].
  (* the loop, once past the ternary, returns *)
  assert (HR : R = (ETern (desugar cnd) (desugar t) (desugar f), ts)).
  { destruct k as [|k']; [cbn in HL; discriminate|].
    rewrite (loop_stop bp maxb _ c min 0 k' _ ts Hthr Hrb) in HL. congruence. }
  eapply (left_op t (S lvl_tern) MLt TBt); eauto.
  - lia.
  - unfold fits. lia.
  - intros E. apply Nat.ltb_ge in E. cbn [followL]. apply follow_left_if. exact E.
  - rewrite loop_S. change (classify (TIdent (s2l "if"))) with LIf. cbv iota.
    rewrite (thr_tern _ _ _ Hthr). change (lvl_tern <? 0) with false. cbv iota.
    rewrite (TBc d c 0 0 (TIdent (s2l "else") :: raw f ++ ts)); try solve [side]; try lia; try (unfold fits; lia).
    change (hd_kw (TIdent (s2l "else") :: raw f ++ ts)) with KElse. cbv iota. cbn [tl].
    rewrite (TBf d c 0 0 ts); try solve [side]; try lia; try (unfold fits; lia).
    rewrite HR. reflexivity.
Qed.

(* ------------------------------------------------------------------ keyword arguments *)
Definition kwitem (p : str * sx) : list token := match p with (k, v) => TIdent k :: TAssign :: raw v end.
Definition dkw (kw : list (str * sx)) : list (str * expr) :=
  map (fun p : str * sx => match p with (k, v) => (k, desugar v) end) kw.
Fixpoint kwtoks (first : bool) (kw : list (str * sx)) : list token :=
  match kw with
  | [] => []
  | it :: r => (if first then [] else [TComma]) ++ kwitem it ++ kwtoks false r
  end.

Lemma sep_by_kwtoks : forall kw, sep_by TComma (map kwitem kw) = kwtoks true kw.
Proof.
  induction kw as [|it r IH]; [reflexivity|].
  destruct r as [|y r'].
  - cbn. rewrite app_nil_r. reflexivity.
  - change (sep_by TComma (map kwitem (it :: y :: r')))
      with (kwitem it ++ TComma :: sep_by TComma (map kwitem (y :: r'))).
    rewrite IH. reflexivity.
Qed.

Lemma kwargs_loop_S : forall P k c acc ts,
  kwargs_loop P (S k) c acc ts =
    if hd_is ts TRParen then Some (acc, ts) else
    let after_comma :=
      match acc with
      | [] => Some ts
      | _ => if hd_is ts TComma then Some (tl ts) else None
      end in
    match after_comma with
    | None => None
    | Some ts1 =>
      if hd_is ts1 TRParen then Some (acc, ts1) else
      match ts1 with
      | t1 :: t2 :: ts2 =>
          match as_ident t1 with
          | Some n =>
              if tis t2 TAssign then
                if kw_mem n acc then None else
                match P c 0 ts2 with
                | Some (v, ts3) => kwargs_loop P k c (acc ++ [(n, v)]) ts3
                | None => None
                end
              else None
          | None => None
          end
      | _ => None
      end
    end.
Proof. reflexivity. Qed.

Lemma closerL_kwtail : forall r ts, closerL (kwtoks false r ++ TRParen :: ts) = true.
Proof. intros [|[n v] r] ts; reflexivity. Qed.

Definition kwgood (d : nat) (c : nat * nat) (it : str * sx) : Prop :=
  TBp (snd it) /\ printable (snd it) = true /\ need (snd it) <= d /\ fits (snd it) c.

Lemma kwargs_ok : forall d c kw acc j ts,
  Forall (kwgood d c) kw ->
  NoDup (map fst acc ++ map fst kw) ->
  kwargs_loop (PA d) (S (List.length kw) + j) c acc
     (kwtoks (match acc with [] => true | _ => false end) kw ++ TRParen :: ts)
  = Some (acc ++ dkw kw, TRParen :: ts).
Proof.
  intros d c kw. induction kw as [|[n v] r IH]; intros acc j ts HF HN.
  - cbn [kwtoks app List.length plus]. rewrite kwargs_loop_S. hdis. cbn [dkw map]. rewrite app_nil_r. reflexivity.
  - inversion HF as [|x l Hg HF']; subst. destruct Hg as (TB & Hp & Hn & Hfi). cbn [snd] in *.
    assert (Hmem : kw_mem n acc = false).
    { apply kw_mem_false. cbn [map fst] in HN. apply NoDup_remove_2 in HN.
      intros Hin. apply HN. apply in_or_app. left. exact Hin. }
    assert (HN' : NoDup (map fst (acc ++ [(n, desugar v)]) ++ map fst r)).
    { rewrite map_app. cbn [map fst]. rewrite <- app_assoc. exact HN. }
    assert (Hacc' : match acc ++ [(n, desugar v)] with [] => true | _ => false end = false).
    { destruct acc; reflexivity. }
    change (S (List.length ((n, v) :: r)) + j) with (S (S (List.length r) + j)).
    rewrite kwargs_loop_S.
    specialize (IH (acc ++ [(n, desugar v)]) j ts HF' HN'). rewrite Hacc' in IH.
    destruct acc as [|a0 acc0].
    + cbn [kwtoks kwitem app]. hdis. cbv zeta. hdis. cbn [as_ident].
      change (kw_mem n []) with false. cbv iota.
      rewrite <- app_assoc.
      rewrite (TB d c 0 0 (kwtoks false r ++ TRParen :: ts)); try solve [side];
        auto using closerL_refusedL, closerL_followL, closerL_kwtail.
      all: try (rewrite IH; cbn [dkw map app]; reflexivity).
    + cbn [kwtoks kwitem app]. hdis. cbv zeta. hdis. cbn [as_ident].
      rewrite Hmem.
      rewrite <- app_assoc.
      rewrite (TB d c 0 0 (kwtoks false r ++ TRParen :: ts)); try solve [side];
        auto using closerL_refusedL, closerL_followL, closerL_kwtail.
      all: try (cbn [app] in IH; rewrite IH; cbn [dkw map app]; rewrite <- app_assoc; reflexivity).
Qed.

Lemma kwtoks_len : forall kw first, List.length kw <= List.length (kwtoks first kw).
Proof.
  induction kw as [|[n v] r IH]; intros first; cbn [kwtoks List.length]; [lia|].
  rewrite !app_length. cbn [kwitem List.length]. specialize (IH false). lia.
Qed.

Lemma parse_kwargs_ok : forall d c kw ts,
  Forall (kwgood d c) kw -> NoDup (map fst kw) ->
  parse_kwargs (PA d) c (paren (sep_by TComma (map kwitem kw)) ++ ts) = Some (dkw kw, ts).
Proof.
  intros d c kw ts HF HN. unfold parse_kwargs, paren. cbn [app]. hdis.
  rewrite sep_by_kwtoks. rewrite <- app_assoc. cbn [app].
  pose proof (kwtoks_len kw true) as Hl.
  set (L := List.length (TLParen :: kwtoks true kw ++ TRParen :: ts)).
  assert (HL : S L = S (List.length kw) + (L - List.length kw)).
  { subst L. cbn [List.length]. rewrite app_length. lia. }
  rewrite HL.
  rewrite (kwargs_ok d c kw [] (L - List.length kw) ts HF HN).
  hdis. reflexivity.
Qed.

Definition kwpart (kw : list (str * sx)) : list token :=
  match kw with [] => [] | _ => paren (sep_by TComma (map kwitem kw)) end.

Lemma parse_named_ok : forall d c n kw ts,
  Forall (kwgood d c) kw -> NoDup (map fst kw) ->
  (kw = [] -> match ts with t :: _ => is_lparen t = false | [] => True end) ->
  parse_named (PA d) c (TIdent n :: kwpart kw ++ ts) = Some (n, dkw kw, ts).
Proof.
  intros d c n kw ts HF HN Hnext. unfold parse_named. cbn [as_ident].
  destruct kw as [|it r].
  - cbn [kwpart app]. specialize (Hnext eq_refl).
    destruct ts as [|t ts0]; [reflexivity|].
    assert (hd_is (t :: ts0) TLParen = false) by (destruct t; cbn in *; try reflexivity; discriminate).
    rewrite H. reflexivity.
  - unfold kwpart. unfold paren at 1. cbn [app]. hdis. fold (paren (sep_by TComma (map kwitem (it :: r)))).
    change (TLParen :: (sep_by TComma (map kwitem (it :: r)) ++ [TRParen]) ++ ts)
      with (paren (sep_by TComma (map kwitem (it :: r))) ++ ts).
    rewrite parse_kwargs_ok; auto.
Qed.

Lemma fold_max_le : forall (l : list nat) x, In x l -> x <= fold_right Nat.max 0 l.
Proof. induction l as [|y l IH]; cbn; intros x H; [tauto|]. destruct H as [->|H]; [lia|]. specialize (IH x H). lia. Qed.

Lemma kwgood_all : forall d c (kw : list (str * sx)),
  (forall v, In v (map snd kw) -> TBp v) ->
  forallb (fun p : str * sx => match p with (_, v) => printable v end) kw = true ->
  fold_right Nat.max 0 (map (fun p : str * sx => match p with (_, v) => need v end) kw) <= d ->
  fst c + fold_right Nat.max 0 (map (fun p : str * sx => match p with (_, v) => needb v end) kw) <= maxb ->
  snd c + fold_right Nat.max 0 (map (fun p : str * sx => match p with (_, v) => needa v end) kw) <= maxdim ->
  Forall (kwgood d c) kw.
Proof.
  intros d c kw. induction kw as [|[n v] r IH]; intros HTB Hp Hn Hb Ha; constructor.
  - cbn [forallb] in Hp. apply andb_prop in Hp. destruct Hp as [Hp _].
    cbn [map fold_right] in Hn, Hb, Ha.
    unfold kwgood, fits. cbn [snd]. repeat split; try lia; auto. apply HTB. cbn. auto.
  - cbn [forallb] in Hp. apply andb_prop in Hp. destruct Hp as [_ Hp].
    cbn [map fold_right] in Hn, Hb, Ha.
    apply IH; auto; try lia. intros v' Hin. apply HTB. cbn. auto.
Qed.

Lemma raw_test : forall e n kw neg,
  raw (STest e n kw neg) =
  wrap (lp OIs) (lvl e) (raw e) ++ TIdent (s2l "is") :: (if neg then [TIdent (s2l "not")] else []) ++ TIdent n :: kwpart kw.
Proof. reflexivity. Qed.
Lemma raw_filter : forall e n kw,
  raw (SFilter e n kw) = wrap (lp OPipe) (lvl e) (raw e) ++ TPipe :: TIdent n :: kwpart kw.
Proof. reflexivity. Qed.
Lemma raw_call : forall n kw,
  raw (SCall n kw) = TIdent n :: paren (sep_by TComma (map kwitem kw)).
Proof. reflexivity. Qed.
Lemma desugar_test : forall e n kw neg,
  desugar (STest e n kw neg) =
  if neg then EUn UNot (ETest (desugar e) n (dkw kw)) else ETest (desugar e) n (dkw kw).
Proof. intros. destruct neg; reflexivity. Qed.
Lemma desugar_filter : forall e n kw, desugar (SFilter e n kw) = EFilter (desugar e) n (dkw kw).
Proof. reflexivity. Qed.
Lemma desugar_call : forall n kw, desugar (SCall n kw) = ECall n (dkw kw).
Proof. reflexivity. Qed.

Lemma next_not_lparen : forall (kw : list (str * sx)) ts,
  (match ts with [] => true | t :: _ => match kw with [] => negb (is_lparen t) | _ => true end end) = true ->
  kw = [] -> match ts with t :: _ => is_lparen t = false | [] => True end.
Proof.
  intros kw ts H E. subst kw. destruct ts as [|t ts0]; [exact I|].
  destruct (is_lparen t); cbn in *; congruence.
Qed.

Lemma ml_test : forall e n kw neg, MLp e -> TBp e ->
  (forall v, In v (map snd kw) -> TBp v) -> MLp (STest e n kw neg).
Proof.
  intros e n kw neg MLe TBe TBk d c min p k R ts Hthr Hp Hpr Hn Hf Hfo HL.
  cbn [printable] in Hpr. repeat (apply andb_prop in Hpr; destruct Hpr as [Hpr ?]).
  rename H into Hpk, H0 into Hnd, H1 into Hnn.
  cbn [need] in Hn. unfold fits in *. cbn [needb needa] in Hf. cbn [lvl] in Hp.
  rewrite raw_test. rewrite desugar_test in HL. cbn [spine].
  rewrite <- app_assoc. cbn [app].
  replace (k + S (if lvl e <? lp OIs then 0 else spine e)) with (S k + (if lvl e <? lp OIs then 0 else spine e)) by lia.
  assert (HG : Forall (kwgood d c) kw).
  { apply kwgood_all; auto; lia. }
  assert (HND : NoDup (map fst kw)) by (apply nodup_names_NoDup; exact Hnd).
  assert (Hnext : kw = [] -> match ts with t :: _ => is_lparen t = false | [] => True end).
  { apply next_not_lparen. destruct ts; [reflexivity|]. exact Hfo. }
  eapply (left_op e (lp OIs) MLe TBe); eauto.
  - lia.
  - unfold fits. lia.
  - intros E. apply Nat.ltb_ge in E. cbn [followL]. apply (follow_left_bop OIs). exact E.
  - rewrite loop_S. change (classify (TIdent (s2l "is"))) with (LOp OIs). cbv iota.
    rewrite (thr_bin _ _ _ OIs Hthr).
    assert (E : lvl_bin OIs <? p = false) by (apply Nat.ltb_ge; lia). rewrite E.
    change (bop_eqb OIs OIs) with true. cbn [andb]. cbv zeta.
    destruct neg.
    + cbn [app]. change (hd_kw (TIdent (s2l "not") :: TIdent n :: kwpart kw ++ ts)) with KNot.
      cbv iota. cbn [tl].
      rewrite parse_named_ok; auto.
    + cbn [app].
      assert (Hk : (match hd_kw (TIdent n :: kwpart kw ++ ts) with KNot => true | _ => false end) = false).
      { cbn [hd_kw as_ident]. unfold not_kw_not in Hnn. destruct (kw_of n); try reflexivity; discriminate. }
      rewrite Hk. cbv iota.
      rewrite parse_named_ok; auto.
Qed.

Lemma ml_filter : forall e n kw, MLp e -> TBp e ->
  (forall v, In v (map snd kw) -> TBp v) -> MLp (SFilter e n kw).
Proof.
  intros e n kw MLe TBe TBk d c min p k R ts Hthr Hp Hpr Hn Hf Hfo HL.
  cbn [printable] in Hpr. repeat (apply andb_prop in Hpr; destruct Hpr as [Hpr ?]).
  rename H into Hpk, H0 into Hnd.
  cbn [need] in Hn. unfold fits in *. cbn [needb needa] in Hf. cbn [lvl] in Hp.
  rewrite raw_filter. rewrite desugar_filter in HL. cbn [spine].
  rewrite <- app_assoc. cbn [app].
  replace (k + S (if lvl e <? lp OPipe then 0 else spine e)) with (S k + (if lvl e <? lp OPipe then 0 else spine e)) by lia.
  assert (HG : Forall (kwgood d c) kw).
  { apply kwgood_all; auto; lia. }
  assert (HND : NoDup (map fst kw)) by (apply nodup_names_NoDup; exact Hnd).
  assert (Hnext : kw = [] -> match ts with t :: _ => is_lparen t = false | [] => True end).
  { apply next_not_lparen. destruct ts; [reflexivity|]. exact Hfo. }
  eapply (left_op e (lp OPipe) MLe TBe); eauto.
  - lia.
  - unfold fits. lia.
  - intros E. apply Nat.ltb_ge in E. cbn [followL]. apply (follow_left_bop OPipe). exact E.
  - rewrite loop_S. change (classify TPipe) with (LOp OPipe). cbv iota.
    rewrite (thr_bin _ _ _ OPipe Hthr).
    assert (E : lvl_bin OPipe <? p = false) by (apply Nat.ltb_ge; lia). rewrite E.
    change (bop_eqb OPipe OIs) with false. change (bop_eqb OPipe OPipe) with true. cbn [andb]. cbv zeta. cbv iota.
    rewrite parse_named_ok; auto.
Qed.

Lemma ml_call : forall n kw, (forall v, In v (map snd kw) -> TBp v) -> MLp (SCall n kw).
Proof.
  intros n kw TBk d c min p k R ts Hthr Hp Hpr Hn Hf Hfo HL.
  cbn [printable] in Hpr. repeat (apply andb_prop in Hpr; destruct Hpr as [Hpr ?]).
  rename H into Hpk, H0 into Hnd.
  cbn [need] in Hn. unfold fits in *. cbn [needb needa] in Hf.
  rewrite raw_call. rewrite desugar_call in HL. cbn [spine]. rewrite Nat.add_0_r.
  assert (HG : Forall (kwgood d c) kw).
  { apply kwgood_all; auto; lia. }
  assert (HND : NoDup (map fst kw)) by (apply nodup_names_NoDup; exact Hnd).
  unfold body_k. cbn [app]. unfold Pratt.prefix.
  unfold plain in Hpr.
  assert (Hpi : Pratt.parse_ident maxb (PA d) c n (paren (sep_by TComma (map kwitem kw)) ++ ts)
                = Some (ECall n (dkw kw), ts)).
  { unfold parse_ident. unfold paren at 1. cbn [app]. hdis.
    change (TLParen :: (sep_by TComma (map kwitem kw) ++ [TRParen]) ++ ts)
      with (paren (sep_by TComma (map kwitem kw)) ++ ts).
    rewrite parse_kwargs_ok; auto. }
  destruct (kw_of n); try discriminate. rewrite Hpi. exact HL.
Qed.

(* ------------------------------------------------------------------ subscripts and chains *)
Lemma starter_not_colon : forall t r, starter t = true -> hd_is (t :: r) TColon = false.
Proof. destruct t; cbn; intros; try reflexivity; discriminate. Qed.

Lemma subscript_item_ok : forall d c e' i (opt : bool) ts,
  TBp i -> printable i = true -> need i <= d -> S (fst c) + needb i <= maxb -> snd c + needa i <= maxdim ->
  parse_subscript maxb (PA d) c e' ((if opt then TQLBracket else TLBracket) :: raw i ++ TRBracket :: ts)
  = Some (EItem e' (desugar i) opt, ts).
Proof.
  intros d c e' i opt ts TB Hp Hn Hb Ha.
  unfold parse_subscript.
  assert (Hm : maxb <? S (fst c) = false) by (apply Nat.ltb_ge; lia).
  destruct (raw_hd i Hp) as (t & r & Er & St).
  assert (Hc : hd_is (raw i ++ TRBracket :: ts) TColon = false).
  { rewrite Er. cbn [app]. apply starter_not_colon. exact St. }
  destruct opt; hdis; rewrite Hm; rewrite Hc; unfold sub_opt;
    rewrite (TB d (S (fst c), snd c) 0 0 (TRBracket :: ts)); try solve [side]; try (unfold fits; cbn [fst snd]; lia);
    hdis; reflexivity.
Qed.

Definition slice_toks (a b c : option sx) : list token :=
  match a with Some x => raw x | None => [] end ++ [TColon] ++
  match b with Some x => raw x | None => [] end ++
  match c with Some x => TColon :: raw x | None => [] end ++ [TRBracket].
Lemma raw_slice : forall e a b c opt,
  raw (SSlice e a b c opt) =
  wrap lvl_atom (lvl e) (raw e) ++ [if opt then TQLBracket else TLBracket] ++ slice_toks a b c.
Proof. reflexivity. Qed.
Lemma starter_not_rbracket : forall t r, starter t = true -> hd_is (t :: r) TRBracket = false.
Proof. destruct t; cbn; intros; try reflexivity; discriminate. Qed.

Lemma hd_raw_colon : forall x r, printable x = true -> hd_is (raw x ++ r) TColon = false.
Proof. intros x r H. destruct (raw_hd x H) as (t & l & E & St). rewrite E. cbn [app]. apply starter_not_colon; exact St. Qed.
Lemma hd_raw_rbracket : forall x r, printable x = true -> hd_is (raw x ++ r) TRBracket = false.
Proof. intros x r H. destruct (raw_hd x H) as (t & l & E & St). rewrite E. cbn [app]. apply starter_not_rbracket; exact St. Qed.

Definition sgood (d : nat) (c : nat * nat) (o : option sx) : Prop :=
  match o with
  | Some x => TBp x /\ printable x = true /\ need x <= d /\ S (fst c) + needb x <= maxb /\ snd c + needa x <= maxdim
  | None => True
  end.

Lemma sgood_parse : forall d c x r, sgood d c (Some x) -> closerL r = true ->
  PA d (S (fst c), snd c) 0 (raw x ++ r) = Some (desugar x, r).
Proof.
  intros d c x r (TB & Hp & Hn & Hb & Ha) Hc.
  apply (TB d (S (fst c), snd c) 0 0 r); auto using wf_thr0, closerL_refusedL, closerL_followL; try lia; try (unfold fits; cbn [fst snd]; lia).
Qed.

Lemma subscript_slice_ok : forall d c e' a b cc (opt : bool) ts,
  sgood d c a -> sgood d c b -> sgood d c cc -> S (fst c) <= maxb ->
  parse_subscript maxb (PA d) c e' ((if opt then TQLBracket else TLBracket) :: slice_toks a b cc ++ ts)
  = Some (ESlice e' (option_map desugar a) (option_map desugar b) (option_map desugar cc) opt, ts).
Proof.
  intros d c e' a b cc opt ts Ga Gb Gc Hb.
  unfold parse_subscript, slice_toks.
  assert (Hm : maxb <? S (fst c) = false) by (apply Nat.ltb_ge; lia).
  assert (Pa : match a with Some x => printable x = true | None => True end) by (destruct a; [apply Ga|exact I]).
  assert (Pb : match b with Some x => printable x = true | None => True end) by (destruct b; [apply Gb|exact I]).
  assert (Pc : match cc with Some x => printable x = true | None => True end) by (destruct cc; [apply Gc|exact I]).
  destruct opt; hdis; rewrite Hm; unfold sub_opt;
  destruct a as [xa|]; destruct b as [xb|]; destruct cc as [xc|];
  cbn [app option_map]; rewrite <- ?app_assoc; cbn [app];
  repeat first
    [ rewrite hd_raw_colon by assumption
    | rewrite hd_raw_rbracket by assumption
    | rewrite (sgood_parse d c xa) by (auto; reflexivity)
    | rewrite (sgood_parse d c xb) by (auto; reflexivity)
    | rewrite (sgood_parse d c xc) by (auto; reflexivity)
    | rewrite <- app_assoc
    | progress cbn [app]
    | progress hdis ];
  reflexivity.
Qed.

Lemma sgood_intro : forall d c o,
  (forall x, o = Some x -> TBp x) ->
  match o with Some x => printable x | None => true end = true ->
  match o with Some x => need x | None => 0 end <= d ->
  S (fst c) + match o with Some x => needb x | None => 0 end <= maxb ->
  snd c + match o with Some x => needa x | None => 0 end <= maxdim ->
  sgood d c o.
Proof. intros d c [x|] HT Hp Hn Hb Ha; cbn; auto. Qed.

Lemma chain_loop_S : forall P k c e t ts1,
  chain_loop maxb P (S k) c e (t :: ts1) =
      if tis t TDot || tis t TQDot then
        match ts1 with
        | t2 :: ts2 =>
            match as_ident t2 with
            | Some a => chain_loop maxb P k c (EAttr e a (tis t TQDot)) ts2
            | None => None
            end
        | [] => None
        end
      else if tis t TLBracket || tis t TQLBracket then
        match parse_subscript maxb P c e (t :: ts1) with Some (e', ts2) => chain_loop maxb P k c e' ts2 | None => None end
      else if tis t TLParen then None
      else Some (e, t :: ts1).
Proof. reflexivity. Qed.

Lemma chain_loop_stop : forall P k c e ts,
  (match ts with t :: _ => chain_tok t = false | [] => True end) ->
  chain_loop maxb P (S k) c e ts = Some (e, ts).
Proof.
  intros P k c e [|t ts1] H; [reflexivity|].
  rewrite chain_loop_S. destruct t; cbn in H; try discriminate; reflexivity.
Qed.

Fixpoint chead (s : sx) : str :=
  match s with
  | SVar x => x
  | SAttr e _ _ | SItem e _ _ | SSlice e _ _ _ _ => chead e
  | _ => []
  end.
Fixpoint citems (s : sx) : list token :=
  match s with
  | SAttr e a opt => citems e ++ [if opt then TQDot else TDot; TIdent a]
  | SItem e i opt => citems e ++ [if opt then TQLBracket else TLBracket] ++ raw i ++ [TRBracket]
  | SSlice e a b c opt => citems e ++ [if opt then TQLBracket else TLBracket] ++ slice_toks a b c
  | _ => []
  end.
Fixpoint clen (s : sx) : nat :=
  match s with
  | SAttr e _ _ | SItem e _ _ | SSlice e _ _ _ _ => S (clen e)
  | _ => 0
  end.

Lemma chain_lvl : forall s, is_chain s = true -> lvl s = lvl_atom.
Proof. destruct s; cbn; intros; try discriminate; reflexivity. Qed.

Lemma raw_chain : forall s, is_chain s = true -> printable s = true -> raw s = TIdent (chead s) :: citems s.
Proof.
  induction s; cbn [is_chain printable]; intros Hc Hp; try discriminate.
  - reflexivity.
  - apply andb_prop in Hp. destruct Hp as [_ Hp]. cbn [raw chead citems]. rewrite IHs by assumption. reflexivity.
  - apply andb_prop in Hp. destruct Hp as [Hp _]. apply andb_prop in Hp. destruct Hp as [_ Hp].
    cbn [raw chead citems]. unfold wrap. rewrite (chain_lvl _ Hc). rewrite Nat.ltb_irrefl.
    rewrite IHs1 by assumption. reflexivity.
  - repeat (apply andb_prop in Hp; destruct Hp as [Hp ?]).
    rewrite raw_slice. cbn [chead citems]. unfold wrap. rewrite (chain_lvl _ Hc). rewrite Nat.ltb_irrefl.
    rewrite IHs by assumption. reflexivity.
Qed.

Lemma chain_plain : forall s, is_chain s = true -> printable s = true -> plain (chead s) = true.
Proof.
  induction s; cbn [is_chain printable chead]; intros Hc Hp; try discriminate; auto.
  - apply andb_prop in Hp. destruct Hp as [_ Hp]. auto.
  - apply andb_prop in Hp. destruct Hp as [Hp _]. apply andb_prop in Hp. destruct Hp as [_ Hp]. auto.
  - repeat (apply andb_prop in Hp; destruct Hp as [Hp ?]). auto.
Qed.

Lemma clen_le : forall s, clen s <= List.length (citems s).
Proof.
  induction s; cbn [clen citems]; try lia.
  - rewrite app_length. cbn. lia.
  - rewrite !app_length. cbn. lia.
  - rewrite !app_length. cbn. lia.
Qed.

Definition CLp (s : sx) : Prop := forall d c k R ts,
  printable s = true -> need s <= S d -> fits s c ->
  chain_loop maxb (PA d) k c (desugar s) ts = Some R ->
  chain_loop maxb (PA d) (k + clen s) c (EVar (chead s)) (citems s ++ ts) = Some R.

Lemma size_pos : forall s, 1 <= size s.
Proof. destruct s; cbn [size]; lia. Qed.

Lemma cl_all : forall s, is_chain s = true -> (forall x, size x < size s -> TBp x) -> CLp s.
Proof.
  induction s; cbn [is_chain]; intros Hc HTB; try discriminate.
  - (* SVar *) intros d c k R ts Hp Hn Hf HL. cbn [clen citems chead desugar app] in *. rewrite Nat.add_0_r. exact HL.
  - (* SAttr *)
    assert (CL : CLp s).
    { apply IHs; auto. intros x Hx. apply HTB. cbn [size]. lia. }
    intros d c k R ts Hp Hn Hf HL.
    cbn [printable] in Hp. apply andb_prop in Hp. destruct Hp as [_ Hp].
    cbn [need] in Hn. unfold fits in *. cbn [needb needa] in Hf.
    cbn [clen citems chead desugar] in *. rewrite <- app_assoc. cbn [app].
    replace (k + S (clen s)) with (S k + clen s) by lia.
    apply CL; auto; try (unfold fits; lia).
    destruct opt.
    + rewrite (chain_loop_S (PA d) k c (desugar s) TQDot (TIdent a :: ts)). hdis. cbn [as_ident]. exact HL.
    + rewrite (chain_loop_S (PA d) k c (desugar s) TDot (TIdent a :: ts)). hdis. cbn [as_ident]. exact HL.
  - (* SItem *)
    assert (CL : CLp s1).
    { apply IHs1; auto. intros x Hx. apply HTB. cbn [size]. lia. }
    assert (TBi : TBp s2).
    { apply HTB. cbn [size]. pose proof (size_pos s1). lia. }
    intros d c k R ts Hp Hn Hf HL.
    cbn [printable] in Hp. apply andb_prop in Hp. destruct Hp as [Hp Hpi].
    apply andb_prop in Hp. destruct Hp as [_ Hp].
    cbn [need] in Hn. unfold fits in *. cbn [needb needa] in Hf.
    unfold needw in Hn. rewrite (chain_lvl _ Hc), Nat.ltb_irrefl in Hn.
    cbn [clen citems chead desugar] in *. rewrite <- !app_assoc. cbn [app].
    replace (k + S (clen s1)) with (S k + clen s1) by lia.
    apply CL; auto; try lia; try (unfold fits; lia).
    destruct opt.
    + rewrite (chain_loop_S (PA d) k c (desugar s1) TQLBracket (raw s2 ++ TRBracket :: ts)). hdis.
      rewrite (subscript_item_ok d c (desugar s1) s2 true ts); auto; try lia.
    + rewrite (chain_loop_S (PA d) k c (desugar s1) TLBracket (raw s2 ++ TRBracket :: ts)). hdis.
      rewrite (subscript_item_ok d c (desugar s1) s2 false ts); auto; try lia.
  - (* SSlice *)
    assert (CL : CLp s).
    { apply IHs; auto. intros x Hx. apply HTB. cbn [size]. lia. }
    intros d cc k R ts Hp Hn Hf HL.
    cbn [printable] in Hp. repeat (apply andb_prop in Hp; destruct Hp as [Hp ?]).
    cbn [need] in Hn. unfold fits in *. cbn [needb needa] in Hf.
    unfold needw in Hn. rewrite (chain_lvl _ Hc), Nat.ltb_irrefl in Hn.
    assert (Ga : sgood d cc a).
    { apply sgood_intro; auto; try lia. intros x E. subst. apply HTB. cbn [size]. lia. }
    assert (Gb : sgood d cc b).
    { apply sgood_intro; auto; try lia. intros x E. subst. apply HTB. cbn [size]. lia. }
    assert (Gc : sgood d cc c).
    { apply sgood_intro; auto; try lia. intros x E. subst. apply HTB. cbn [size]. lia. }
    cbn [clen citems chead desugar] in *. rewrite <- !app_assoc. cbn [app].
    replace (k + S (clen s)) with (S k + clen s) by lia.
    apply CL; auto; try lia; try (unfold fits; lia).
    destruct opt.
    + rewrite (chain_loop_S (PA d) k cc (desugar s) TQLBracket (slice_toks a b c ++ ts)). hdis.
      rewrite (subscript_slice_ok d cc (desugar s) a b c true ts); auto; try lia.
    + rewrite (chain_loop_S (PA d) k cc (desugar s) TLBracket (slice_toks a b c ++ ts)). hdis.
      rewrite (subscript_slice_ok d cc (desugar s) a b c false ts); auto; try lia.
Qed.

Lemma citems_hd : forall s, is_chain s = true ->
  citems s = [] \/ exists t l, citems s = t :: l /\ tis t TLParen = false.
Proof.
  induction s; cbn [is_chain citems]; intros Hc; try discriminate; auto.
  - right. destruct (IHs Hc) as [E|(t & l & E & Ht)]; rewrite E; cbn [app]; eauto.
    destruct opt; eauto.
  - right. destruct (IHs1 Hc) as [E|(t & l & E & Ht)]; rewrite E; cbn [app]; eauto.
    destruct opt; eauto.
  - right. destruct (IHs Hc) as [E|(t & l & E & Ht)]; rewrite E; cbn [app]; eauto.
    destruct opt; eauto.
Qed.

Lemma ml_chain : forall s, is_chain s = true -> CLp s -> MLp s.
Proof.
  intros s Hc CL d c min p k R ts Hthr Hp Hpr Hn Hf Hfo HL.
  assert (Hsp : spine s = 0).
  { destruct s; cbn [is_chain spine] in *; try discriminate; try reflexivity; rewrite Hc; reflexivity. }
  rewrite Hsp, Nat.add_0_r.
  rewrite (raw_chain s Hc Hpr). cbn [app]. unfold body_k, Pratt.prefix.
  pose proof (chain_plain s Hc Hpr) as Hpl. unfold plain in Hpl.
  assert (Hnext : match ts with t :: _ => chain_tok t = false | [] => True end).
  { destruct ts as [|t ts0]; [exact I|]. cbn [followL] in Hfo.
    destruct s; cbn [is_chain follow] in *; try discriminate.
    - destruct (chain_tok t); cbn in *; congruence.
    - destruct (chain_tok t); cbn in *; congruence.
    - rewrite Hc in Hfo. destruct (chain_tok t); cbn in *; congruence.
    - rewrite Hc in Hfo. destruct (chain_tok t); cbn in *; congruence. }
  assert (Hpi : parse_ident maxb (PA d) c (chead s) (citems s ++ ts) = Some (desugar s, ts)).
  { unfold parse_ident.
    assert (Hlp : hd_is (citems s ++ ts) TLParen = false).
    { destruct (citems_hd s Hc) as [E|(t & l & E & Ht)]; rewrite E; cbn [app].
      - destruct ts as [|t ts0]; [reflexivity|]. destruct t; cbn in *; try reflexivity; discriminate.
      - exact Ht. }
    rewrite Hlp.
    pose proof (clen_le s) as Hcl.
    set (L := List.length (citems s ++ ts)).
    assert (HLs : S L = (S L - clen s) + clen s).
    { subst L. rewrite app_length. lia. }
    rewrite HLs. apply CL; auto.
    assert (exists k', S L - clen s = S k') as [k' Hk'].
    { subst L. rewrite app_length. exists (List.length (citems s) + List.length ts - clen s). lia. }
    rewrite Hk'. apply chain_loop_stop. exact Hnext. }
  destruct (kw_of (chead s)); try discriminate. rewrite Hpi. exact HL.
Qed.

Lemma follow_atom_bracket : forall e,
  is_chain e = false -> lvl e <? lvl_atom = false -> printable e = true -> follow e TLBracket = true.
Proof.
  intros e Hc Hl Hp. destruct e; cbn [is_chain follow lvl printable] in *; try reflexivity; try discriminate.
  all: try (destruct u; discriminate); try (destruct o; discriminate).
  - apply andb_prop in Hp. destruct Hp as [Hp _]. congruence.
  - rewrite Hc. reflexivity.
  - rewrite Hc. reflexivity.
Qed.

Lemma ml_item : forall e i opt, is_chain e = false -> MLp e -> TBp e -> TBp i -> MLp (SItem e i opt).
Proof.
  intros e i opt Hc MLe TBe TBi d c min p k R ts Hthr Hp Hpr Hn Hf Hfo HL.
  cbn [printable] in Hpr. apply andb_prop in Hpr. destruct Hpr as [Hpr Hpi].
  apply andb_prop in Hpr. destruct Hpr as [Hopt Hpe].
  destruct opt; [rewrite Hc in Hopt; discriminate|].
  cbn [need] in Hn. unfold fits in *. cbn [needb needa] in Hf.
  cbn [raw spine desugar] in *. rewrite Hc.
  rewrite <- !app_assoc. cbn [app].
  replace (k + S (if lvl e <? lvl_atom then 0 else spine e)) with (S k + (if lvl e <? lvl_atom then 0 else spine e)) by lia.
  eapply (left_op e lvl_atom MLe TBe); eauto.
  - lia.
  - unfold fits. lia.
  - intros E. cbn [followL]. apply follow_atom_bracket; auto.
  - rewrite loop_S. change (classify TLBracket) with LSub. cbv iota.
    rewrite (subscript_item_ok d c (desugar e) i false ts); auto; try lia.
Qed.

Lemma ml_slice : forall e a b cc opt, is_chain e = false -> MLp e -> TBp e ->
  (forall x, a = Some x -> TBp x) -> (forall x, b = Some x -> TBp x) -> (forall x, cc = Some x -> TBp x) ->
  MLp (SSlice e a b cc opt).
Proof.
  intros e a b cc opt Hc MLe TBe Ta Tb Tc d c min p k R ts Hthr Hp Hpr Hn Hf Hfo HL.
  cbn [printable] in Hpr. repeat (apply andb_prop in Hpr; destruct Hpr as [Hpr ?]).
  destruct opt; [rewrite Hc in Hpr; discriminate|].
  cbn [need] in Hn. unfold fits in *. cbn [needb needa] in Hf.
  rewrite raw_slice. cbn [spine desugar] in *. rewrite Hc.
  rewrite <- !app_assoc. cbn [app].
  replace (k + S (if lvl e <? lvl_atom then 0 else spine e)) with (S k + (if lvl e <? lvl_atom then 0 else spine e)) by lia.
  assert (Ga : sgood d c a) by (apply sgood_intro; auto; lia).
  assert (Gb : sgood d c b) by (apply sgood_intro; auto; lia).
  assert (Gc : sgood d c cc) by (apply sgood_intro; auto; lia).
  eapply (left_op e lvl_atom MLe TBe); eauto.
  - lia.
  - unfold fits. lia.
  - intros E. cbn [followL]. apply follow_atom_bracket; auto.
  - rewrite loop_S. change (classify TLBracket) with LSub. cbv iota.
    rewrite (subscript_slice_ok d c (desugar e) a b cc false ts); auto; try lia.
Qed.


(* ------------------------------------------------------------------ array / map literals, list comprehensions
   (parse_array / parse_map / parse_list_comprehension: dedicated loops, every element parsed at
   min_bp 0 one recursion level down, like a parenthesised expression) *)
Lemma wf_thr_c : thr_ok bp (S (tern_l bp)) 1 = true.
Proof. pose proof Hwf as H. unfold wf_bp in H. apply andb_prop in H. destruct H as [_ H]. exact H. Qed.

Definition xgood (d : nat) (c : nat * nat) (v : sx) : Prop :=
  TBp v /\ printable v = true /\ need v <= d /\ fits v c.

Lemma xgood_parse : forall d c v r, xgood d c v -> closerL r = true ->
  PA d c 0 (raw v ++ r) = Some (desugar v, r).
Proof.
  intros d c v r (TB & Hp & Hn & Hf) Hc.
  apply (TB d c 0 0 r); auto using closerL_refusedL, closerL_followL; try lia.
Qed.

Lemma starter_not_spread : forall t r, starter t = true -> hd_is (t :: r) TSpread = false.
Proof. destruct t; cbn; intros; try reflexivity; discriminate. Qed.
Lemma starter_not_rbrace : forall t r, starter t = true -> hd_is (t :: r) TRBrace = false.
Proof. destruct t; cbn; intros; try reflexivity; discriminate. Qed.
Lemma hd_raw_spread : forall x r, printable x = true -> hd_is (raw x ++ r) TSpread = false.
Proof. intros x r H. destruct (raw_hd x H) as (t & l & E & St). rewrite E. cbn [app]. apply starter_not_spread; exact St. Qed.

(* separated items: `first` = no comma before the first one *)
Fixpoint stoks {A} (f : A -> list token) (first : bool) (l : list A) : list token :=
  match l with
  | [] => []
  | it :: r => (if first then [] else [TComma]) ++ f it ++ stoks f false r
  end.
Definition trailc (trail : bool) : list token := if trail then [TComma] else [].

Lemma sep_by_stoks : forall {A} (f : A -> list token) l, sep_by TComma (map f l) = stoks f true l.
Proof.
  intros A f. induction l as [|it r IH]; [reflexivity|].
  destruct r as [|y r'].
  - cbn. rewrite app_nil_r. reflexivity.
  - change (sep_by TComma (map f (it :: y :: r')))
      with (f it ++ TComma :: sep_by TComma (map f (y :: r'))).
    rewrite IH. reflexivity.
Qed.

Lemma stoks_len_f : forall {A} (f : A -> list token) l, List.length l <= List.length (stoks f false l).
Proof.
  intros A f. induction l as [|it r IH]; cbn [stoks List.length]; [lia|].
  rewrite !app_length. cbn [List.length]. lia.
Qed.
Lemma stoks_len : forall {A} (f : A -> list token) l first, List.length l <= S (List.length (stoks f first l)).
Proof.
  intros A f l first. destruct l as [|it r]; cbn [stoks List.length]; [lia|].
  rewrite !app_length. pose proof (stoks_len_f f r). destruct first; cbn [List.length]; lia.
Qed.

(* what follows an item: a comma or the closing bracket *)
Lemma stail_facts : forall {A} (f : A -> list token) (r : list A) trail close ts,
  close = TRBracket \/ close = TRBrace ->
  closerL (stoks f false r ++ trailc trail ++ close :: ts) = true
  /\ hd_kw (stoks f false r ++ trailc trail ++ close :: ts) = KPlain.
Proof.
  intros A f r trail close ts [E|E]; subst; destruct r; destruct trail; cbn [stoks trailc app]; split; reflexivity.
Qed.

Definition aitem (it : bool * sx) : list token :=
  match it with (b, v) => (if b then [TSpread] else []) ++ raw v end.
Definition ditems (items : list (bool * sx)) : list (bool * expr) :=
  map (fun it : bool * sx => match it with (b, v) => (b, desugar v) end) items.

Lemma raw_arr : forall items trail,
  raw (SArr items trail) = TLBracket :: sep_by TComma (map aitem items) ++ trailc trail ++ [TRBracket].
Proof. reflexivity. Qed.
Lemma desugar_arr : forall items trail, desugar (SArr items trail) = fold_array (ditems items).
Proof. reflexivity. Qed.

Lemma array_loop_S : forall P k c0 c1 items ts,
  array_loop bp P (S k) c0 c1 items ts =
    if hd_is ts TRBracket then Some (fold_array items, tl ts) else
    let after_comma :=
      match items with
      | [] => Some ts
      | _ => if hd_is ts TComma then Some (tl ts) else None
      end in
    match after_comma with
    | None => None
    | Some ts1 =>
      if hd_is ts1 TRBracket then Some (fold_array items, tl ts1) else
      if hd_is ts1 TSpread then
        match P c1 0 (tl ts1) with
        | Some (e, ts2) => array_loop bp P k c0 c1 (items ++ [(true, e)]) ts2
        | None => None
        end
      else
        match P c1 0 ts1 with
        | Some (e, ts2) =>
            let is_for := match items with [] => match hd_kw ts2 with KFor => true | _ => false end | _ => false end in
            if is_for then parse_comp bp P c0 e ts2
            else array_loop bp P k c0 c1 (items ++ [(false, e)]) ts2
        | None => None
        end
    end.
Proof. reflexivity. Qed.

Lemma acc_snoc_nonempty : forall {A} (acc : list A) x,
  match acc ++ [x] with [] => true | _ => false end = false.
Proof. intros A acc x. destruct acc; reflexivity. Qed.

Lemma array_loop_ok : forall d c0 c1 items acc j trail ts,
  Forall (xgood d c1) (map snd items) ->
  (trail = true -> acc <> [] \/ items <> []) ->
  array_loop bp (PA d) (S (List.length items) + j) c0 c1 acc
     (stoks aitem (match acc with [] => true | _ => false end) items ++ trailc trail ++ TRBracket :: ts)
  = Some (fold_array (acc ++ ditems items), ts).
Proof.
  intros d c0 c1 items. induction items as [|[b v] r IH]; intros acc j trail ts HF HT.
  - cbn [stoks app List.length plus ditems map]. rewrite app_nil_r. rewrite array_loop_S.
    destruct trail.
    + destruct acc as [|a0 acc0]; [destruct (HT eq_refl) as [X|X]; congruence|].
      cbn [trailc app]. hdis. cbv beta iota zeta. hdis. reflexivity.
    + cbn [trailc app]. hdis. reflexivity.
  - cbn [map snd] in HF. inversion HF as [|x l Hg HF']; subst.
    pose proof Hg as (TB & Hp & Hn & Hfi).
    change (S (List.length ((b, v) :: r)) + j) with (S (S (List.length r) + j)).
    rewrite array_loop_S.
    destruct (stail_facts aitem r trail TRBracket ts (or_introl eq_refl)) as [HcR HkR].
    assert (HT' : trail = true -> acc ++ [(b, desugar v)] <> [] \/ r <> []).
    { intros _. left. destruct acc; discriminate. }
    specialize (IH (acc ++ [(b, desugar v)]) j trail ts HF' HT').
    rewrite acc_snoc_nonempty in IH. rewrite <- app_assoc in IH. cbn [app] in IH.
    cbn [stoks]. rewrite <- !app_assoc.
    remember (stoks aitem false r ++ trailc trail ++ TRBracket :: ts) as R eqn:ER.
    pose proof (xgood_parse d c1 v R Hg HcR) as HP.
    destruct acc as [|a0 acc0]; destruct b; cbn [aitem app]; hdis; cbv beta iota zeta; hdis;
      rewrite ?(hd_raw_rbracket v R Hp), ?(hd_raw_spread v R Hp); rewrite HP; cbv beta iota zeta;
      rewrite ?HkR; cbv beta iota zeta; cbn [app ditems map] in *; exact IH.
Qed.

Lemma parse_array_ok : forall d c items trail ts,
  Forall (xgood d (fst c, S (snd c))) (map snd items) -> S (snd c) <= maxdim ->
  (trail = true -> items <> []) ->
  parse_array bp maxdim (PA d) c (stoks aitem true items ++ trailc trail ++ TRBracket :: ts)
  = Some (fold_array (ditems items), ts).
Proof.
  intros d c items trail ts HF Hm HT. unfold parse_array.
  assert (E : maxdim <? S (snd c) = false) by (apply Nat.ltb_ge; lia). rewrite E.
  pose proof (stoks_len aitem items true) as Hl.
  set (L := List.length (stoks aitem true items ++ trailc trail ++ TRBracket :: ts)).
  assert (HL : S L = S (List.length items) + (L - List.length items)).
  { subst L. rewrite !app_length. cbn [List.length]. lia. }
  rewrite HL.
  apply (array_loop_ok d c (fst c, S (snd c)) items [] (L - List.length items) trail ts HF).
  intros Et. right. auto.
Qed.

Lemma fold_max_in : forall {A} (f : A -> nat) (l : list A) x, In x l -> f x <= fold_right Nat.max 0 (map f l).
Proof. intros A f l x H. apply fold_max_le. apply in_map. exact H. Qed.

(* all elements of a literal are good one level down *)
Lemma xgood_all : forall {A} d c (l : list (A * sx)),
  (forall v, In v (map snd l) -> TBp v) ->
  forallb (fun p : A * sx => match p with (_, v) => printable v end) l = true ->
  fold_right Nat.max 0 (map (fun p : A * sx => match p with (_, v) => need v end) l) <= d ->
  fst c + fold_right Nat.max 0 (map (fun p : A * sx => match p with (_, v) => needb v end) l) <= maxb ->
  snd c + fold_right Nat.max 0 (map (fun p : A * sx => match p with (_, v) => needa v end) l) <= maxdim ->
  Forall (xgood d c) (map snd l).
Proof.
  intros A d c l. induction l as [|[n v] r IH]; intros HTB Hp Hn Hb Ha; cbn [map snd]; constructor.
  - cbn [forallb] in Hp. apply andb_prop in Hp. destruct Hp as [Hp _].
    cbn [map fold_right] in Hn, Hb, Ha.
    unfold xgood, fits. repeat split; try lia; auto. apply HTB. cbn. auto.
  - cbn [forallb] in Hp. apply andb_prop in Hp. destruct Hp as [_ Hp].
    cbn [map fold_right] in Hn, Hb, Ha.
    apply IH; auto; try lia. intros v' Hin. apply HTB. cbn. auto.
Qed.

Lemma nonempty_ne : forall {A} (l : list A) (trail : bool),
  (if trail then nonempty l else true) = true -> trail = true -> l <> [].
Proof. intros A l trail H E. subst. destruct l; [discriminate|congruence]. Qed.

Lemma ml_arr : forall items trail, (forall v, In v (map snd items) -> TBp v) -> MLp (SArr items trail).
Proof.
  intros items trail TBk d c min p k R ts Hthr Hp Hpr Hn Hf Hfo HL.
  cbn [printable] in Hpr. apply andb_prop in Hpr. destruct Hpr as [Htr Hpk].
  cbn [need] in Hn. unfold fits in *. cbn [needb needa] in Hf.
  rewrite raw_arr. rewrite desugar_arr in HL. cbn [spine]. rewrite Nat.add_0_r.
  assert (HG : Forall (xgood d (fst c, S (snd c))) (map snd items)).
  { apply xgood_all; auto; cbn [fst snd]; lia. }
  unfold body_k. cbn [app]. unfold Pratt.prefix.
  rewrite sep_by_stoks. rewrite <- !app_assoc. cbn [app].
  rewrite (parse_array_ok d c items trail ts HG); [exact HL|lia|].
  apply nonempty_ne. exact Htr.
Qed.

(* ---- maps *)
Definition mitem (en : option mkey * sx) : list token :=
  match en with
  | (Some k, v) => tok_mkey k :: TColon :: raw v
  | (None, v) => TSpread :: raw v
  end.
Definition dentries (es : list (option mkey * sx)) : list (option mkey * expr) :=
  map (fun en : option mkey * sx => match en with (k, v) => (k, desugar v) end) es.

Lemma raw_map : forall es trail,
  raw (SMap es trail) = TLBrace :: sep_by TComma (map mitem es) ++ trailc trail ++ [TRBrace].
Proof. reflexivity. Qed.
Lemma desugar_map : forall es trail, desugar (SMap es trail) = fold_map (dentries es).
Proof. reflexivity. Qed.

Lemma map_loop_S : forall P k c es ts,
  map_loop P (S k) c es ts =
    if hd_is ts TRBrace then Some (fold_map es, tl ts) else
    let after_comma :=
      match es with
      | [] => Some ts
      | _ => if hd_is ts TComma then Some (tl ts) else None
      end in
    match after_comma with
    | None => None
    | Some ts1 =>
      if hd_is ts1 TRBrace then Some (fold_map es, tl ts1) else
      if hd_is ts1 TSpread then
        match P c 0 (tl ts1) with
        | Some (e, ts2) => map_loop P k c (es ++ [(None, e)]) ts2
        | None => None
        end
      else
        match ts1 with
        | t :: ts1' =>
            match mkey_of_tok t with
            | Some key =>
                if hd_is ts1' TColon then
                  match P c 0 (tl ts1') with
                  | Some (e, ts2) => map_loop P k c (es ++ [(Some key, e)]) ts2
                  | None => None
                  end
                else None
            | None => None
            end
        | [] => None
        end
    end.
Proof. reflexivity. Qed.

Lemma map_loop_ok : forall d c es acc j trail ts,
  Forall (xgood d c) (map snd es) ->
  (trail = true -> acc <> [] \/ es <> []) ->
  map_loop (PA d) (S (List.length es) + j) c acc
     (stoks mitem (match acc with [] => true | _ => false end) es ++ trailc trail ++ TRBrace :: ts)
  = Some (fold_map (acc ++ dentries es), ts).
Proof.
  intros d c es. induction es as [|[ko v] r IH]; intros acc j trail ts HF HT.
  - cbn [stoks app List.length plus dentries map]. rewrite app_nil_r. rewrite map_loop_S.
    destruct trail.
    + destruct acc as [|a0 acc0]; [destruct (HT eq_refl) as [X|X]; congruence|].
      cbn [trailc app]. hdis. cbv beta iota zeta. hdis. reflexivity.
    + cbn [trailc app]. hdis. reflexivity.
  - cbn [map snd] in HF. inversion HF as [|x l Hg HF']; subst.
    pose proof Hg as (TB & Hp & Hn & Hfi).
    change (S (List.length ((ko, v) :: r)) + j) with (S (S (List.length r) + j)).
    rewrite map_loop_S.
    destruct (stail_facts mitem r trail TRBrace ts (or_intror eq_refl)) as [HcR HkR].
    assert (HT' : trail = true -> acc ++ [(ko, desugar v)] <> [] \/ r <> []).
    { intros _. left. destruct acc; discriminate. }
    specialize (IH (acc ++ [(ko, desugar v)]) j trail ts HF' HT').
    rewrite acc_snoc_nonempty in IH. rewrite <- app_assoc in IH. cbn [app] in IH.
    cbn [stoks]. rewrite <- !app_assoc.
    remember (stoks mitem false r ++ trailc trail ++ TRBrace :: ts) as R eqn:ER.
    pose proof (xgood_parse d c v R Hg HcR) as HP.
    destruct acc as [|a0 acc0]; destruct ko as [[ks|kz|kb]|]; cbn [mitem tok_mkey app]; hdis; cbv beta iota zeta; hdis;
      cbn [mkey_of_tok]; cbv beta iota zeta; hdis; rewrite HP; cbv beta iota zeta;
      cbn [app dentries map] in *; exact IH.
Qed.

Lemma parse_map_ok : forall d c es trail ts,
  Forall (xgood d c) (map snd es) -> (trail = true -> es <> []) ->
  parse_map (PA d) c (stoks mitem true es ++ trailc trail ++ TRBrace :: ts)
  = Some (fold_map (dentries es), ts).
Proof.
  intros d c es trail ts HF HT. unfold parse_map.
  pose proof (stoks_len mitem es true) as Hl.
  set (L := List.length (stoks mitem true es ++ trailc trail ++ TRBrace :: ts)).
  assert (HL : S L = S (List.length es) + (L - List.length es)).
  { subst L. rewrite !app_length. cbn [List.length]. lia. }
  rewrite HL.
  apply (map_loop_ok d c es [] (L - List.length es) trail ts HF).
  intros Et. right. auto.
Qed.

Lemma ml_map : forall es trail, (forall v, In v (map snd es) -> TBp v) -> MLp (SMap es trail).
Proof.
  intros es trail TBk d c min p k R ts Hthr Hp Hpr Hn Hf Hfo HL.
  cbn [printable] in Hpr. apply andb_prop in Hpr. destruct Hpr as [Htr Hpk].
  cbn [need] in Hn. unfold fits in *. cbn [needb needa] in Hf.
  rewrite raw_map. rewrite desugar_map in HL. cbn [spine]. rewrite Nat.add_0_r.
  assert (HG : Forall (xgood d c) (map snd es)).
  { apply xgood_all; auto; lia. }
  unfold body_k. cbn [app]. unfold Pratt.prefix.
  rewrite sep_by_stoks. rewrite <- !app_assoc. cbn [app].
  rewrite (parse_map_ok d c es trail ts HG); [exact HL|].
  apply nonempty_ne. exact Htr.
Qed.

(* ---- list comprehensions *)
Definition comp_names (k : option str) (v : str) : list token :=
  match k with Some k => [TIdent k; TComma; TIdent v] | None => [TIdent v] end.
Definition comp_cond (cond : option sx) : list token :=
  match cond with Some c => TIdent (s2l "if") :: wrap (S lvl_tern) (lvl c) (raw c) | None => [] end.
Lemma raw_comp : forall e k v target cond,
  raw (SComp e k v target cond) =
  TLBracket :: raw e ++ TIdent (s2l "for") :: comp_names k v ++
  TIdent (s2l "in") :: wrap (S lvl_tern) (lvl target) (raw target) ++ comp_cond cond ++ [TRBracket].
Proof. reflexivity. Qed.

Lemma kw_for : kw_of (s2l "for") = KFor. Proof. reflexivity. Qed.

Lemma parse_comp_ok : forall d c e' k v target cond ts,
  is_reserved v = false -> match k with Some k' => is_reserved k' = false | None => True end ->
  TBp target -> printable target = true -> needw (S lvl_tern) (lvl target) (need target) <= d -> fits target c ->
  match cond with
  | Some x => TBp x /\ printable x = true /\ needw (S lvl_tern) (lvl x) (need x) <= d /\ fits x c
  | None => True
  end ->
  parse_comp bp (PA d) c e'
    (TIdent (s2l "for") :: comp_names k v ++
     TIdent (s2l "in") :: wrap (S lvl_tern) (lvl target) (raw target) ++ comp_cond cond ++ TRBracket :: ts)
  = Some (EComp e' k v (desugar target) (option_map desugar cond), ts).
Proof.
  intros d c e' k v target cond ts Hv Hk TBt Hpt Hnt Hft Hc.
  pose proof (top_of target TBt) as TOPt.
  assert (Htarget : forall rest,
            refusedL 1 rest = true -> (lvl target <? 1 = false -> followL target rest = true) ->
            PA d c (S (tern_l bp)) (wrap (S lvl_tern) (lvl target) (raw target) ++ rest) = Some (desugar target, rest)).
  { intros rest Hr Hfo. apply (TOPt d c (S (tern_l bp)) 1 rest); auto using wf_thr_c. }
  assert (Hrest : PA d c (S (tern_l bp))
                    (wrap (S lvl_tern) (lvl target) (raw target) ++ comp_cond cond ++ TRBracket :: ts)
                  = Some (desugar target, comp_cond cond ++ TRBracket :: ts)).
  { apply Htarget.
    - destruct cond; reflexivity.
    - intros E. destruct cond as [x|]; cbn [comp_cond app followL].
      + apply follow_left_if. apply Nat.ltb_ge in E. exact E.
      + apply follow_closer. reflexivity. }
  assert (Hcond : match hd_kw (comp_cond cond ++ TRBracket :: ts) with
                  | KIf => match PA d c (S (tern_l bp)) (tl (comp_cond cond ++ TRBracket :: ts)) with
                           | Some (cd, ts6) => Some (Some cd, ts6) | None => None end
                  | _ => Some (None, comp_cond cond ++ TRBracket :: ts)
                  end = Some (option_map desugar cond, TRBracket :: ts)).
  { destruct cond as [x|]; cbn [comp_cond app option_map].
    - destruct Hc as (TBx & Hpx & Hnx & Hfx).
      change (hd_kw (TIdent (s2l "if") :: wrap (S lvl_tern) (lvl x) (raw x) ++ TRBracket :: ts)) with KIf.
      cbv iota. cbn [tl].
      assert (Hx : PA d c (S (tern_l bp)) (wrap (S lvl_tern) (lvl x) (raw x) ++ TRBracket :: ts)
                   = Some (desugar x, TRBracket :: ts)).
      { apply (top_of x TBx d c (S (tern_l bp)) 1 (TRBracket :: ts)); auto using wf_thr_c.
        intros _. apply follow_closer. reflexivity. }
      rewrite Hx. reflexivity.
    - reflexivity. }
  unfold parse_comp.
  destruct k as [k'|]; cbn [comp_names app as_ident].
  - rewrite Hk. hdis. cbv beta iota zeta. cbn [tl as_ident]. rewrite Hv. cbv beta iota zeta.
    match goal with |- context [hd_kw (TIdent (s2l "in") :: ?r)] => change (hd_kw (TIdent (s2l "in") :: r)) with KIn end.
    cbv iota. cbn [tl]. rewrite Hrest. cbv beta iota zeta. rewrite Hcond. hdis. reflexivity.
  - rewrite Hv. hdis. cbv beta iota zeta.
    match goal with |- context [hd_kw (TIdent (s2l "in") :: ?r)] => change (hd_kw (TIdent (s2l "in") :: r)) with KIn end.
    cbv iota. cbn [tl]. rewrite Hrest. cbv beta iota zeta. rewrite Hcond. hdis. reflexivity.
Qed.

Lemma ml_comp : forall e k v target cond, TBp e -> TBp target ->
  (forall x, cond = Some x -> TBp x) -> MLp (SComp e k v target cond).
Proof.
  intros e k v target cond TBe TBt TBc d c min p k0 R ts Hthr Hp Hpr Hn Hf Hfo HL.
  cbn [printable] in Hpr. repeat (apply andb_prop in Hpr; destruct Hpr as [Hpr ?]).
  rename H into Hpc, H0 into Hpt, H1 into Hrk, H2 into Hrv.
  apply negb_true_iff in Hrv.
  cbn [need] in Hn. unfold fits in *. cbn [needb needa] in Hf.
  rewrite raw_comp. cbn [spine desugar] in *. rewrite Nat.add_0_r.
  unfold body_k. cbn [app]. unfold Pratt.prefix. unfold parse_array.
  assert (E : maxdim <? S (snd c) = false) by (apply Nat.ltb_ge; lia). rewrite E.
  repeat (rewrite <- app_assoc; cbn [app]).
  rewrite array_loop_S.
  rewrite (hd_raw_rbracket e _ Hpr). cbv beta iota zeta.
  rewrite ?(hd_raw_rbracket e _ Hpr), (hd_raw_spread e _ Hpr).
  rewrite (TBe d (fst c, S (snd c)) 0 0); try solve [side]; try lia; try (unfold fits; cbn [fst snd]; lia).
  cbv beta iota zeta.
  match goal with |- context [hd_kw (TIdent (s2l "for") :: ?r)] => change (hd_kw (TIdent (s2l "for") :: r)) with KFor end.
  cbv iota.
  assert (Hk' : match k with Some k' => is_reserved k' = false | None => True end).
  { destruct k as [k'|]; [apply negb_true_iff in Hrk; exact Hrk|exact I]. }
  assert (Hc' : match cond with
                | Some x => TBp x /\ printable x = true /\ needw (S lvl_tern) (lvl x) (need x) <= d /\ fits x c
                | None => True
                end).
  { destruct cond as [x|]; [|exact I]. cbv beta iota in Hn, Hf, Hpc.
    repeat split; auto; try lia; unfold fits; lia. }
  assert (Hnt : needw (S lvl_tern) (lvl target) (need target) <= d) by lia.
  assert (Hft : fits target c) by (unfold fits; lia).
  rewrite (parse_comp_ok d c (desugar e) k v target cond ts Hrv Hk' TBt Hpt Hnt Hft Hc'). exact HL.
Qed.

(* ------------------------------------------------------------------ assembling: induction on size *)
Lemma size_kw : forall (kw : list (str * sx)) v,
  In v (map snd kw) ->
  size v <= list_sum (map (fun p : str * sx => match p with (_, v) => size v end) kw).
Proof.
  induction kw as [|[n x] r IH]; intros v H; [cbn in H; tauto|].
  cbn [map snd In] in H. cbn [map list_sum fold_right]. unfold list_sum in IH.
  destruct H as [->|H]; [lia|]. specialize (IH v H). lia.
Qed.

Lemma size_pair : forall {A} (l : list (A * sx)) v,
  In v (map snd l) ->
  size v <= list_sum (map (fun p : A * sx => match p with (_, v) => size v end) l).
Proof.
  intros A. induction l as [|[n x] r IH]; intros v H; [cbn in H; tauto|].
  cbn [map snd In] in H. cbn [map list_sum fold_right]. unfold list_sum in IH.
  destruct H as [->|H]; [lia|]. specialize (IH v H). lia.
Qed.

Lemma ml_all : forall n s, size s <= n -> MLp s.
Proof.
  induction n as [|n IH]; intros s Hs; [pose proof (size_pos s); lia|].
  assert (TB : forall x, size x <= n -> TBp x) by (intros; apply tb_of_ml; apply IH; assumption).
  assert (TBlt : forall x, size x < size s -> TBp x) by (intros; apply TB; lia).
  destruct s; cbn [size] in Hs.
  - apply ml_const.
  - apply ml_chain; [reflexivity|]. apply cl_all; [reflexivity|exact TBlt].
  - destruct (is_chain s) eqn:Hc.
    + apply ml_chain; [exact Hc|]. apply cl_all; [exact Hc|exact TBlt].
    + intros d0 cc min p k0 R ts0 _ _ Hpr. cbn [printable] in Hpr. rewrite Hc in Hpr. discriminate.
  - destruct (is_chain s1) eqn:Hc.
    + apply ml_chain; [exact Hc|]. apply cl_all; [exact Hc|exact TBlt].
    + apply ml_item; auto; try (apply IH; lia); apply TB; lia.
  - destruct (is_chain s) eqn:Hc.
    + apply ml_chain; [exact Hc|]. apply cl_all; [exact Hc|exact TBlt].
    + apply ml_slice; auto; try (apply IH; lia); try (apply TB; lia);
        intros x E; subst; apply TB; cbn [size] in Hs; lia.
  - apply ml_un. apply TB. lia.
  - apply ml_bin; try (apply IH; lia); apply TB; lia.
  - apply ml_notin; try (apply IH; lia); apply TB; lia.
  - apply ml_test; try (apply IH; lia); try (apply TB; lia).
    intros v Hv. apply TB. pose proof (size_kw kw v Hv). lia.
  - apply ml_filter; try (apply IH; lia); try (apply TB; lia).
    intros v Hv. apply TB. pose proof (size_kw kw v Hv). lia.
  - apply ml_call. intros v Hv. apply TB. pose proof (size_kw kw v Hv). lia.
  - apply ml_tern; try (apply IH; lia); apply TB; lia.
  - apply ml_paren. apply TB. lia.
  - apply ml_arr. intros v Hv. apply TB. pose proof (size_pair items v Hv). lia.
  - apply ml_map. intros v Hv. apply TB. pose proof (size_pair entries v Hv). lia.
  - apply ml_comp; try (apply TB; lia). intros x E. subst. apply TB. cbn [size] in Hs. lia.
Qed.

Theorem tb_all : forall s, TBp s.
Proof. intros s. apply tb_of_ml. apply (ml_all (size s)). lia. Qed.

End RoundTrip.

(* ------------------------------------------------------------------ the theorems *)
Theorem pratt_roundtrip_gen : forall bp, wf_bp bp = true ->
  forall maxb maxdim s d c rest,
  printable s = true -> need s <= d -> fst c + needb s <= maxb -> snd c + needa s <= maxdim ->
  closerL rest = true ->
  parse bp maxb maxdim d c 0 (print s ++ rest) = Some (desugar s, rest).
Proof.
  intros bp Hwf maxb maxdim s d c rest Hp Hn Hb Ha Hc.
  apply (tb_all bp Hwf maxb maxdim s d c 0 0 rest); auto using wf_thr0, closerL_refusedL, closerL_followL.
  - lia.
  - split; assumption.
Qed.

Lemma gen_bp_wf : wf_bp gen_bp = true /\ gen_rows_complete = true.
Proof. split; vm_compute; reflexivity. Qed.

Theorem pratt_roundtrip_top : forall s,
  printable s = true -> need s <= top_depth -> needb s <= max_brackets -> needa s <= max_dim ->
  parse_top gen_bp (print s ++ [TVarEnd]) = Some (desugar s).
Proof.
  intros s Hp Hn Hb Ha. unfold parse_top.
  rewrite (pratt_roundtrip_gen gen_bp (proj1 gen_bp_wf) max_brackets max_dim s top_depth (0, 0) [TVarEnd]); auto.
Qed.

(* every way of writing an expression (redundant parentheses anywhere, `not in` / `is not`
   or the explicit negation, trailing commas in array / map literals) parses to the same tree *)
Theorem pratt_roundtrip_decorated : forall bp, wf_bp bp = true ->
  forall maxb maxdim e s d c rest,
  desugar s = e ->
  printable s = true -> need s <= d -> fst c + needb s <= maxb -> snd c + needa s <= maxdim ->
  closerL rest = true ->
  parse bp maxb maxdim d c 0 (print s ++ rest) = Some (e, rest).
Proof. intros. subst e. apply pratt_roundtrip_gen; auto. Qed.

Theorem pratt_redundant_parens : forall bp, wf_bp bp = true ->
  forall maxb maxdim s d c rest,
  printable s = true -> S (need s) <= d -> fst c + needb s <= maxb -> snd c + needa s <= maxdim ->
  closerL rest = true ->
  parse bp maxb maxdim d c 0 (TLParen :: print s ++ TRParen :: rest) = Some (desugar s, rest).
Proof.
  intros bp Hwf maxb maxdim s d c rest Hp Hn Hb Ha Hc.
  pose proof (pratt_roundtrip_gen bp Hwf maxb maxdim (SParen s) d c rest) as H.
  cbn [print raw desugar printable need needb needa] in H. unfold paren in H. cbn [app] in H.
  rewrite <- app_assoc in H. cbn [app] in H. apply H; auto.
Qed.

(* a trailing comma after the last element of an array / map literal does not change the tree *)
Theorem pratt_trailing_comma : forall bp, wf_bp bp = true ->
  forall maxb maxdim d c rest,
  (forall items, items <> [] ->
     printable (SArr items false) = true -> need (SArr items false) <= d ->
     fst c + needb (SArr items false) <= maxb -> snd c + needa (SArr items false) <= maxdim ->
     closerL rest = true ->
     parse bp maxb maxdim d c 0 (print (SArr items true) ++ rest) = Some (desugar (SArr items false), rest)) /\
  (forall es, es <> [] ->
     printable (SMap es false) = true -> need (SMap es false) <= d ->
     fst c + needb (SMap es false) <= maxb -> snd c + needa (SMap es false) <= maxdim ->
     closerL rest = true ->
     parse bp maxb maxdim d c 0 (print (SMap es true) ++ rest) = Some (desugar (SMap es false), rest)).
Proof.
  intros bp Hwf maxb maxdim d c rest. split.
  - intros items Hne Hp Hn Hb Ha Hc.
    apply (pratt_roundtrip_gen bp Hwf maxb maxdim (SArr items true) d c rest); auto.
    cbn [printable] in *. destruct items; [congruence|exact Hp].
  - intros es Hne Hp Hn Hb Ha Hc.
    apply (pratt_roundtrip_gen bp Hwf maxb maxdim (SMap es true) d c rest); auto.
    cbn [printable] in *. destruct es; [congruence|exact Hp].
Qed.

(* ---- from the AST: embed e is the surface tree without sugar or parentheses *)
Fixpoint esize (e : expr) : nat :=
  let osz := fun (o : option expr) => match o with Some x => esize x | None => 0 end in
  match e with
  | EConst _ | EVar _ => 1
  | EAttr e _ _ => S (esize e)
  | EItem e i _ => S (esize e + esize i)
  | ESlice e a b c _ => S (esize e + osz a + osz b + osz c)
  | EUn _ e => S (esize e)
  | EBin _ a b => S (esize a + esize b)
  | ETest e _ kw | EFilter e _ kw =>
      S (esize e + list_sum (map (fun p : str * expr => match p with (_, v) => esize v end) kw))
  | ECall _ kw => S (list_sum (map (fun p : str * expr => match p with (_, v) => esize v end) kw))
  | ETern c t f => S (esize c + esize t + esize f)
  | EArr items => S (list_sum (map (fun p : bool * expr => match p with (_, v) => esize v end) items))
  | EMap es => S (list_sum (map (fun p : option mkey * expr => match p with (_, v) => esize v end) es))
  | EComp e _ _ t c => S (esize e + esize t + osz c)
  end.

Lemma esize_kw : forall {A} (kw : list (A * expr)) k v,
  In (k, v) kw ->
  esize v <= list_sum (map (fun p : A * expr => match p with (_, v) => esize v end) kw).
Proof.
  intros A. induction kw as [|[n x] r IH]; intros k v H; [cbn in H; tauto|].
  cbn [In] in H. cbn [map list_sum fold_right]. unfold list_sum in IH.
  destruct H as [H|H]; [inversion H; subst; lia|]. specialize (IH k v H). lia.
Qed.

Lemma dkw_embed : forall {A} (kw : list (A * expr)),
  (forall k v, In (k, v) kw -> desugar (embed v) = v) ->
  map (fun p : A * sx => match p with (k, v) => (k, desugar v) end)
      (map (fun p : A * expr => match p with (k, v) => (k, embed v) end) kw) = kw.
Proof.
  intros A. induction kw as [|[n x] r IH]; intros H; [reflexivity|].
  cbn [map]. rewrite (H n x) by (left; reflexivity). rewrite IH; [reflexivity|].
  intros k v Hin. apply (H k v). right. exact Hin.
Qed.

Lemma printable_kw_embed : forall {A} (kw : list (A * expr)) k v,
  forallb (fun p : A * sx => match p with (_, v) => printable v end)
          (map (fun p : A * expr => match p with (k, v) => (k, embed v) end) kw) = true ->
  In (k, v) kw -> printable (embed v) = true.
Proof.
  intros A. induction kw as [|[n x] r IH]; intros k v H Hin; [cbn in Hin; tauto|].
  cbn [map forallb] in H. apply andb_prop in H. destruct H as [H1 H2].
  destruct Hin as [E|Hin]; [inversion E; subst; exact H1|]. eapply IH; eauto.
Qed.

Lemma normal_kw : forall {A} (kw : list (A * expr)) k v,
  forallb (fun p : A * expr => match p with (_, v) => normal v end) kw = true ->
  In (k, v) kw -> normal v = true.
Proof.
  intros A. induction kw as [|[n x] r IH]; intros k v H Hin; [cbn in Hin; tauto|].
  cbn [forallb] in H. apply andb_prop in H. destruct H as [H1 H2].
  destruct Hin as [E|Hin]; [inversion E; subst; exact H1|]. eapply IH; eauto.
Qed.

(* ---- folded (literal-only) container constants: `cembed` writes them out as the literal *)
Fixpoint csize (c : const) : nat :=
  match c with
  | CArr l => S (list_sum (map csize l))
  | CMap m => S (list_sum (map (fun kv : mkey * const => csize (snd kv)) m))
  | _ => 1
  end.

Lemma in_list_sum : forall {A} (f : A -> nat) l x, In x l -> f x <= list_sum (map f l).
Proof.
  intros A f. induction l as [|y r IH]; intros x H; [cbn in H; tauto|].
  cbn [map list_sum fold_right]. unfold list_sum in IH. destruct H as [->|H]; [lia|]. specialize (IH x H). lia.
Qed.

Lemma mkey_eqb_sym : forall a b, mkey_eqb a b = mkey_eqb b a.
Proof.
  destruct a as [s|z|x], b as [s'|z'|x']; cbn [mkey_eqb]; try reflexivity.
  - destruct (str_eqb s s') eqn:E1; destruct (str_eqb s' s) eqn:E2; try reflexivity.
    + apply str_eqb_eq in E1. subst. rewrite (proj2 (str_eqb_eq s' s') eq_refl) in E2. discriminate.
    + apply str_eqb_eq in E2. subst. rewrite (proj2 (str_eqb_eq s s) eq_refl) in E1. discriminate.
  - apply Z.eqb_sym.
  - destruct x, x'; reflexivity.
Qed.

Lemma insert_fresh : forall k v acc,
  existsb (fun a => mkey_eqb a k) (map fst acc) = false -> cmap_insert k v acc = acc ++ [(k, v)].
Proof.
  intros k v. induction acc as [|[k' v'] r IH]; cbn [map fst existsb cmap_insert app]; intros H; [reflexivity|].
  apply orb_false_elim in H. destruct H as [H1 H2]. rewrite mkey_eqb_sym, H1. rewrite IH by exact H2. reflexivity.
Qed.

Lemma keys_nodup_app_cons : forall A k R, keys_nodup (A ++ k :: R) = true ->
  existsb (fun a => mkey_eqb a k) A = false.
Proof.
  induction A as [|a A' IH]; intros k R H; [reflexivity|].
  cbn [app keys_nodup] in H. apply andb_prop in H. destruct H as [H1 H2].
  cbn [existsb]. rewrite (IH k R H2), orb_false_r.
  apply negb_true_iff in H1. rewrite existsb_app in H1. apply orb_false_elim in H1. destruct H1 as [_ H1].
  cbn [existsb] in H1. apply orb_false_elim in H1. destruct H1 as [H1 _]. exact H1.
Qed.

Definition centry (kv : mkey * const) : option mkey * expr := match kv with (k, x) => (Some k, EConst x) end.

Lemma as_const_entries_fold : forall m acc,
  keys_nodup (map fst acc ++ map fst m) = true ->
  fold_left (fun acc en =>
    match acc, en with
    | Some m, (Some k, EConst c) => Some (cmap_insert k c m)
    | _, _ => None
    end) (map centry m) (Some acc) = Some (acc ++ m).
Proof.
  induction m as [|[k x] r IH]; intros acc H; cbn [map fold_left centry].
  - rewrite app_nil_r. reflexivity.
  - cbn [map fst] in H.
    rewrite (insert_fresh k x acc (keys_nodup_app_cons _ _ _ H)).
    rewrite IH.
    + rewrite <- app_assoc. reflexivity.
    + rewrite map_app. cbn [map fst]. rewrite <- app_assoc. exact H.
Qed.

Lemma as_consts_consts : forall l, as_consts (map (fun x : const => (false, EConst x)) l) = Some l.
Proof.
  induction l as [|x r IH]; [reflexivity|].
  unfold as_consts in *. cbn [map fold_right]. rewrite IH. reflexivity.
Qed.

Lemma cembed_ok_n : forall n c, csize c <= n -> const_ok c = true ->
  desugar (cembed c) = EConst c /\ printable (cembed c) = true.
Proof.
  induction n as [|n IH]; intros c Hs Hok.
  - destruct c; cbn [csize] in Hs; lia.
  - destruct c as [z|d|s|b| |l|m]; try (split; reflexivity).
    + (* CArr *)
      cbn [csize] in Hs. cbn [const_ok] in Hok. rewrite forallb_forall in Hok.
      assert (Hx : forall x, In x l -> desugar (cembed x) = EConst x /\ printable (cembed x) = true).
      { intros x Hin. apply IH; [pose proof (in_list_sum csize l x Hin); lia|auto]. }
      cbn [cembed desugar printable]. split.
      * rewrite map_map.
        rewrite (map_ext_in _ (fun x : const => (false, EConst x))).
        -- unfold fold_array. rewrite as_consts_consts. reflexivity.
        -- intros x Hin. rewrite (proj1 (Hx x Hin)). reflexivity.
      * cbn [andb]. apply forallb_forall. intros [b v] Hin. apply in_map_iff in Hin.
        destruct Hin as (x & E & Hin). inversion E; subst. apply (Hx x Hin).
    + (* CMap *)
      cbn [csize] in Hs. cbn [const_ok] in Hok. apply andb_prop in Hok. destruct Hok as [Hnd Hok].
      rewrite forallb_forall in Hok.
      assert (Hx : forall kv, In kv m -> desugar (cembed (snd kv)) = EConst (snd kv) /\ printable (cembed (snd kv)) = true).
      { intros kv Hin. apply IH; [pose proof (in_list_sum (fun kv : mkey * const => csize (snd kv)) m kv Hin); lia|auto]. }
      cbn [cembed desugar printable]. split.
      * rewrite map_map.
        rewrite (map_ext_in _ centry).
        -- unfold fold_map, as_const_entries. rewrite (as_const_entries_fold m []); [reflexivity|exact Hnd].
        -- intros [k x] Hin. pose proof (proj1 (Hx (k, x) Hin)) as E. cbn [snd] in E. rewrite E. reflexivity.
      * cbn [andb]. apply forallb_forall. intros [ko v] Hin. apply in_map_iff in Hin.
        destruct Hin as ([k x] & E & Hin). inversion E; subst. exact (proj2 (Hx (k, x) Hin)).
Qed.

Lemma cembed_ok : forall c, const_ok c = true -> desugar (cembed c) = EConst c.
Proof. intros c H. apply (cembed_ok_n (csize c) c); auto. Qed.

Lemma desugar_embed_n : forall n e, esize e <= n -> normal e = true -> printable (embed e) = true ->
  desugar (embed e) = e.
Proof.
  induction n as [|n IH]; intros e Hs Hno Hp.
  - destruct e; cbn [esize] in Hs; lia.
  - destruct e; cbn [esize] in Hs; cbn [embed printable desugar normal] in *; try discriminate.
    + apply cembed_ok. exact Hno.
    + reflexivity.
    + apply andb_prop in Hp. destruct Hp as [_ Hp]. rewrite IH; auto. lia.
    + apply andb_prop in Hp. destruct Hp as [Hp Hpi]. apply andb_prop in Hp. destruct Hp as [_ Hp].
      apply andb_prop in Hno. destruct Hno as [Hn1 Hn2].
      rewrite !IH; auto; lia.
    + repeat (apply andb_prop in Hp; destruct Hp as [Hp ?]).
      repeat (apply andb_prop in Hno; destruct Hno as [Hno ?]).
      assert (Ho : forall o : option expr,
                (match o with Some x => esize x | None => 0 end) <= n ->
                match o with Some x => normal x | None => true end = true ->
                match option_map embed o with Some x => printable x | None => true end = true ->
                option_map desugar (option_map embed o) = o).
      { intros [x|] Hsz Hnx Hpo; cbn in *; [rewrite IH; auto|reflexivity]. }
      rewrite IH; auto; try lia. rewrite !Ho; auto; lia.
    + rewrite IH; auto. lia.
    + apply andb_prop in Hp. destruct Hp as [Hp Hpb]. apply andb_prop in Hp. destruct Hp as [_ Hp].
      apply andb_prop in Hno. destruct Hno as [Hn1 Hn2].
      rewrite !IH; auto; lia.
    + repeat (apply andb_prop in Hp; destruct Hp as [Hp ?]).
      apply andb_prop in Hno. destruct Hno as [Hn1 Hn2].
      rewrite IH; auto; try lia. rewrite dkw_embed; [reflexivity|].
      intros k v Hin. apply IH; [pose proof (esize_kw _ _ _ Hin); lia|eapply normal_kw; eauto|].
      eapply printable_kw_embed; eauto.
    + repeat (apply andb_prop in Hp; destruct Hp as [Hp ?]).
      apply andb_prop in Hno. destruct Hno as [Hn1 Hn2].
      rewrite IH; auto; try lia. rewrite dkw_embed; [reflexivity|].
      intros k v Hin. apply IH; [pose proof (esize_kw _ _ _ Hin); lia|eapply normal_kw; eauto|].
      eapply printable_kw_embed; eauto.
    + repeat (apply andb_prop in Hp; destruct Hp as [Hp ?]).
      rewrite dkw_embed; [reflexivity|].
      intros k v Hin. apply IH; [pose proof (esize_kw _ _ _ Hin); lia|eapply normal_kw; eauto|].
      eapply printable_kw_embed; eauto.
    + repeat (apply andb_prop in Hp; destruct Hp as [Hp ?]).
      repeat (apply andb_prop in Hno; destruct Hno as [Hno ?]). rewrite !IH; auto; lia.
    + (* EArr *)
      apply andb_prop in Hno. destruct Hno as [Hac Hn2].
      rewrite dkw_embed.
      * unfold fold_array. destruct (as_consts items); [discriminate|reflexivity].
      * intros k v Hin. apply IH; [pose proof (esize_kw _ _ _ Hin); lia|eapply normal_kw; eauto|].
        eapply printable_kw_embed; eauto.
    + (* EMap *)
      apply andb_prop in Hno. destruct Hno as [Hac Hn2].
      rewrite dkw_embed.
      * unfold fold_map. destruct (as_const_entries entries); [discriminate|reflexivity].
      * intros k v Hin. apply IH; [pose proof (esize_kw _ _ _ Hin); lia|eapply normal_kw; eauto|].
        eapply printable_kw_embed; eauto.
    + (* EComp *)
      repeat (apply andb_prop in Hp; destruct Hp as [Hp ?]).
      repeat (apply andb_prop in Hno; destruct Hno as [Hno ?]).
      assert (Ho : forall o : option expr,
                (match o with Some x => esize x | None => 0 end) <= n ->
                match o with Some x => normal x | None => true end = true ->
                match option_map embed o with Some x => printable x | None => true end = true ->
                option_map desugar (option_map embed o) = o).
      { intros [x|] Hsz Hnx Hpo; cbn in *; [rewrite IH; auto|reflexivity]. }
      rewrite !IH; auto; try lia. rewrite Ho; auto; lia.
Qed.

Lemma desugar_embed : forall e, normal e = true -> printable (embed e) = true -> desugar (embed e) = e.
Proof. intros e. apply (desugar_embed_n (esize e)). lia. Qed.

(* for every expression tree the parser can produce (`normal`): print with exactly the parentheses
   the documented table demands, parse, get the tree back *)
Theorem pratt_roundtrip_ast : forall bp, wf_bp bp = true ->
  forall maxb maxdim e d c rest,
  normal e = true ->
  printable (embed e) = true -> need (embed e) <= d -> fst c + needb (embed e) <= maxb ->
  snd c + needa (embed e) <= maxdim ->
  closerL rest = true ->
  parse bp maxb maxdim d c 0 (print (embed e) ++ rest) = Some (e, rest).
Proof.
  intros. rewrite <- (desugar_embed e) at 2 by assumption. apply pratt_roundtrip_gen; auto.
Qed.

(* ---- the binding powers of parser.rs against the documentation *)
Lemma bp_matches_docs : bp_matches_docs_b gen_bp BpTables.doc_prec_rows = true.
Proof. vm_compute. reflexivity. Qed.
Lemma doc_levels_match : doc_levels_b BpTables.doc_prec_rows = true.
Proof. vm_compute. reflexivity. Qed.
