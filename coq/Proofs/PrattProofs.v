(* Proofs for C02 (parsing half): the Pratt parser model (Model/Pratt.v), run on what the
   documented-table printer prints, returns the tree that was printed.  Plan: DESIGN.md A.1. *)
From TeraV Require Import Model.Value Model.Pratt Model.PrattSide.
From Coq Require Import String Lia.
Open Scope nat_scope.

(* ------------------------------------------------------------------ tables *)
Lemma all_bops_complete : forall o, In o all_bops.
Proof. destruct o; cbn; tauto. Qed.

Lemma thr_bin : forall bp min p o, thr_ok bp min p = true ->
  (lbp bp o <? min) = (lvl_bin o <? p).
Proof.
  intros bp min p o H. unfold thr_ok in H. apply andb_prop in H. destruct H as [H _].
  rewrite forallb_forall in H. specialize (H o (all_bops_complete o)).
  apply eqb_prop in H.
  destruct (lbp bp o <? min) eqn:E1; destruct (lvl_bin o <? p) eqn:E2; try reflexivity.
  - apply Nat.ltb_lt in E1. apply Nat.ltb_ge in E2.
    assert (min <=? lbp bp o = false) by (apply Nat.leb_gt; lia).
    assert (p <=? lvl_bin o = true) by (apply Nat.leb_le; lia). congruence.
  - apply Nat.ltb_ge in E1. apply Nat.ltb_lt in E2.
    assert (min <=? lbp bp o = true) by (apply Nat.leb_le; lia).
    assert (p <=? lvl_bin o = false) by (apply Nat.leb_gt; lia). congruence.
Qed.

Lemma thr_tern : forall bp min p, thr_ok bp min p = true ->
  (tern_l bp <? min) = (lvl_tern <? p).
Proof.
  intros bp min p H. unfold thr_ok in H. apply andb_prop in H. destruct H as [_ H].
  apply eqb_prop in H.
  destruct (tern_l bp <? min) eqn:E1; destruct (lvl_tern <? p) eqn:E2; try reflexivity.
  - apply Nat.ltb_lt in E1. apply Nat.ltb_ge in E2.
    assert (min <=? tern_l bp = false) by (apply Nat.leb_gt; lia).
    assert (p <=? lvl_tern = true) by (apply Nat.leb_le; lia). congruence.
  - apply Nat.ltb_ge in E1. apply Nat.ltb_lt in E2.
    assert (min <=? tern_l bp = true) by (apply Nat.leb_le; lia).
    assert (p <=? lvl_tern = false) by (apply Nat.leb_gt; lia). congruence.
Qed.

Definition infix (o : bop) : bool := match o with OIs | OPipe => false | _ => true end.

Lemma infix_in : forall o, infix o = true -> In o infix_bops.
Proof. destruct o; cbn; intros; try discriminate; tauto. Qed.

Lemma wf_thr0 : forall bp, wf_bp bp = true -> thr_ok bp 0 0 = true.
Proof. intros bp H. unfold wf_bp in H. repeat (apply andb_prop in H; destruct H as [H ?]). exact H. Qed.

Lemma wf_thr_r : forall bp o, wf_bp bp = true -> infix o = true -> thr_ok bp (rbp bp o) (rp o) = true.
Proof.
  intros bp o H Hi. unfold wf_bp in H. repeat (apply andb_prop in H; destruct H as [H ?]).
  match goal with X : forallb _ infix_bops = true |- _ => rewrite forallb_forall in X; apply X end.
  apply infix_in; exact Hi.
Qed.

Lemma wf_thr_u : forall bp u, wf_bp bp = true -> thr_ok bp (un_bp bp u) (lvl_un u) = true.
Proof.
  intros bp u H. unfold wf_bp in H. repeat (apply andb_prop in H; destruct H as [H ?]).
  match goal with X : forallb _ all_unops = true |- _ => rewrite forallb_forall in X; apply X end.
  destruct u; cbn; tauto.
Qed.

(* ------------------------------------------------------------------ keywords and tokens *)
Lemma classify_bop : forall o, classify (tok_bop o) = LOp o.
Proof. destruct o; reflexivity. Qed.

Lemma kw_not : kw_of (s2l "not") = KNot. Proof. reflexivity. Qed.
Lemma kw_in : kw_of (s2l "in") = KIn. Proof. reflexivity. Qed.
Lemma kw_is : kw_of (s2l "is") = KIs. Proof. reflexivity. Qed.
Lemma kw_if : kw_of (s2l "if") = KIf. Proof. reflexivity. Qed.
Lemma kw_else : kw_of (s2l "else") = KElse. Proof. reflexivity. Qed.
Lemma kw_none : kw_of (s2l "none") = KNone. Proof. reflexivity. Qed.

Lemma refused_mono : forall p p' t, refused p t = true -> p <= p' -> refused p' t = true.
Proof.
  intros p p' t H Hle. unfold refused in *.
  destruct (classify t); try exact H; try discriminate;
    apply Nat.ltb_lt in H; apply Nat.ltb_lt; lia.
Qed.

Lemma closer_refused : forall p t, closer t = true -> refused p t = true.
Proof. intros p t H. unfold closer, refused in *. destruct (classify t); try discriminate; reflexivity. Qed.

Lemma closer_not_chain : forall t, closer t = true -> chain_tok t = false.
Proof.
  intros t H. unfold closer in H. destruct (classify t); try discriminate.
  destruct (chain_tok t); [discriminate | reflexivity].
Qed.

Lemma chain_tok_lparen : forall t, chain_tok t = false -> is_lparen t = false.
Proof. destruct t; cbn; intros; try reflexivity; discriminate. Qed.

(* ------------------------------------------------------------------ the loop stops at a refused token *)
Section WithTable.
Variable bp : bp_table.
Variable maxb maxdim : nat.
Variable P : nat * nat -> nat -> list token -> pres.

Notation LOOP := (loop bp maxb P).

Lemma loop_stop : forall c min p k lhs ts,
  thr_ok bp min p = true -> refusedL p ts = true ->
  LOOP c min (S k) false lhs ts = Some (lhs, ts).
Proof.
  intros c min p k lhs ts Hthr Href.
  destruct ts as [|t ts1]; [reflexivity|].
  cbn [refusedL] in Href. unfold refused in Href.
  cbn [loop]. destruct (classify t) eqn:Ec; try discriminate.
  - rewrite (thr_bin _ _ _ o Hthr), Href. reflexivity.
  - rewrite (thr_bin _ _ _ OIn Hthr), Href. reflexivity.
  - rewrite (thr_tern _ _ _ Hthr), Href. reflexivity.
  - reflexivity.
Qed.

End WithTable.
